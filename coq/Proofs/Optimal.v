(* C02: closed-set optimality of the search loop of Model/Search.v, proved ONCE for a priority function
   F v x = cadd x (hv v)  with the three properties of DESIGN.md Appendix A2/A3
        (mono)    x <= y -> F v x <= F v y                       (from monotonicity of cadd)
        (edge)    F (near e) x <= F (far e) (cadd x (c e))       for every permitted edge e
        (reflect) F v x <= F v y -> x <= y
   over an abstract ordered cost algebra: [clt] a strict weak order given as a boolean test (exactly the
   `<` the Rust code uses), [cle a b := clt b a = false], [cadd] monotone in both arguments (monotone on the
   left is what the argument needs; monotone on the right is needed only because equality of costs is the
   equivalence [ceq] of the order and not Leibniz equality, so that Q can be an instance), zero left-neutral,
   NO subtraction, NO totality of anything beyond the boolean test.  NaN-free binary64 numbers satisfy all of
   it, and so does Q.

   The queue is abstract: the loop is re-stated with an arbitrary [pop] that returns SOME entry of minimal
   priority and removes it (the `priority_queue` crate does not specify its choice among equal priorities),
   and Search.step is the instance pop := Search.pq_pop.  So every theorem holds for every tie-breaking.

   Invariants (record [Inv]) in every state of the loop, for every graph, direction, fuel:
     inv_prio   (P1) a queued vertex has a label and its priority is F v (label v)
     inv_bound  (P2) a bound m separates the F-values of closed vertices (<= m) from the queue (>= m)
     no_reopen  (P3) a relaxation never succeeds on a closed vertex (lemma [no_reopen])
     inv_opt    (P4) the label of a closed vertex is <= the cost of EVERY permitted walk from the source
     inv_relaxed     every permitted edge out of a closed vertex has been relaxed with the final label
     inv_tree        a tree entry records a permitted edge from a closed parent and label = parent label + edge cost
   "closed" is not a field of the state: v is closed when it has a label and is not in the queue. *)
From Coq Require Import List Arith Bool String Lia.
From stdpp Require Import gmap.
From RC Require Import Base.Res Model.Search Model.SearchSpec.
Import ListNotations.

Module Optimal.
Import Search SearchSpec.
(* stdpp re-defines NoDup over elem_of; the queue lemmas use the standard library's *)
Notation NoDup := List.NoDup.

(* ------------------------------------------------------------------ the ordered cost algebra *)
Section Algebra.
  Context {C : Type}.
  Variable clt : C -> C -> bool.
  Variable cadd : C -> C -> C.
  Variable czero : C.

  Definition cle (a b : C) : Prop := clt b a = false.
  Definition ceq (a b : C) : Prop := cle a b /\ cle b a.

  Record cost_algebra : Prop := mkAlg {
    clt_asym : forall a b, clt a b = true -> clt b a = false;
    cle_trans : forall a b c, cle a b -> cle b c -> cle a c;
    cadd_mono_l : forall a b x, cle a b -> cle (cadd a x) (cadd b x);
    cadd_mono_r : forall a x y, cle x y -> cle (cadd a x) (cadd a y);
    cadd_zero_l : forall x, ceq (cadd czero x) x
  }.

  Hypothesis alg : cost_algebra.

  Lemma cle_refl a : cle a a.
  Proof. unfold cle. destruct (clt a a) eqn:E; auto. rewrite (clt_asym alg _ _ E) in E. discriminate. Qed.
  Lemma cle_total a b : cle a b \/ cle b a.
  Proof. unfold cle. destruct (clt b a) eqn:E; auto. right. exact (clt_asym alg _ _ E). Qed.
  Lemma clt_cle a b : clt a b = true -> cle a b.
  Proof. intros H. exact (clt_asym alg _ _ H). Qed.
  Lemma clt_not_cle a b : clt a b = true -> cle b a -> False.
  Proof. unfold cle. intros H1 H2. congruence. Qed.
  Lemma ceq_refl a : ceq a a.
  Proof. split; apply cle_refl. Qed.
  Lemma ceq_sym a b : ceq a b -> ceq b a.
  Proof. intros [H1 H2]; split; auto. Qed.
  Lemma ceq_trans a b c : ceq a b -> ceq b c -> ceq a c.
  Proof. intros [H1 H2] [H3 H4]; split; eapply (cle_trans alg); eauto. Qed.
  Lemma cadd_ceq a b x y : ceq a b -> ceq x y -> ceq (cadd a x) (cadd b y).
  Proof.
    intros [H1 H2] [H3 H4]; split.
    - eapply (cle_trans alg); [apply (cadd_mono_l alg), H1 | apply (cadd_mono_r alg), H3].
    - eapply (cle_trans alg); [apply (cadd_mono_l alg), H2 | apply (cadd_mono_r alg), H4].
  Qed.
End Algebra.

(* ------------------------------------------------------------------ queue facts *)
Section Queue.
  Context {C : Type}.
  Variable clt : C -> C -> bool.
  Notation keys q := (map fst q).
  Implicit Types q r : list (nat * C).

  Lemma in_keys q v p : In (v, p) q -> In v (keys q).
  Proof. intros H. apply in_map_iff. exists (v, p). auto. Qed.
  Lemma keys_in q v : In v (keys q) -> exists p, In (v, p) q.
  Proof. intros H. apply in_map_iff in H as [[v' p] [E H]]. simpl in E. subst. eauto. Qed.

  Lemma push_keys q v p x : In x (keys (pq_push_increase clt q v p)) <-> In x (keys q) \/ x = v.
  Proof.
    induction q as [|[v' c'] r IH]; simpl.
    - intuition congruence.
    - destruct (Nat.eqb v' v) eqn:E.
      + apply Nat.eqb_eq in E. subst. destruct (clt p c'); simpl; intuition congruence.
      + simpl. rewrite IH. intuition congruence.
  Qed.
  Lemma push_nodup q v p : NoDup (keys q) -> NoDup (keys (pq_push_increase clt q v p)).
  Proof.
    induction q as [|[v' c'] r IH]; simpl; intros H.
    - constructor; [simpl; tauto|constructor].
    - inversion H as [|? ? Hn Hr]; subst. destruct (Nat.eqb v' v) eqn:E.
      + destruct (clt p c'); simpl; constructor; auto.
      + simpl. constructor; auto. intros Hin. apply push_keys in Hin as [Hin | ->]; auto.
        apply Nat.eqb_neq in E. auto.
  Qed.
  (* an entry of the queue after push_increase: an untouched entry of another vertex, the new entry, or
     the old entry of v when the new priority is not smaller *)
  Lemma push_in q v p x px : NoDup (keys q) -> In (x, px) (pq_push_increase clt q v p) ->
      (x <> v /\ In (x, px) q) \/ (x = v /\ (px = p \/ (In (v, px) q /\ clt p px = false))).
  Proof.
    induction q as [|[v' c'] r IH]; simpl; intros Hnd.
    - intros [E|[]]. inversion E; subst. right; auto.
    - inversion Hnd as [|? ? Hn Hr]; subst. destruct (Nat.eqb v' v) eqn:E.
      + apply Nat.eqb_eq in E. subst v'.
        assert (Hrest : In (x, px) r -> x <> v).
        { intros Hin ->. apply Hn. eapply in_keys; eauto. }
        destruct (clt p c') eqn:Ec; simpl; intros [E|H].
        * inversion E; subst. right; auto.
        * left; split; auto.
        * inversion E; subst. right; split; auto.
        * left; split; auto.
      + apply Nat.eqb_neq in E. simpl. intros [E'|H].
        * inversion E'; subst. left; split; auto.
        * destruct (IH Hr H) as [[Hne Hin]|[-> [->|[Hin Hc]]]]; auto.
          right; split; auto.
  Qed.
End Queue.

(* ------------------------------------------------------------------ the concrete queue meets the pop contract *)
Section ConcretePop.
  Context {C : Type}.
  Variable clt : C -> C -> bool.
  Variable cadd : C -> C -> C.
  Variable czero : C.
  Hypothesis alg : cost_algebra clt cadd czero.
  Notation keys q := (map fst q).
  Implicit Types q r : list (nat * C).

  Lemma pq_min_none q : pq_min clt q = None -> q = [].
  Proof.
    destruct q as [|[v c] r]; simpl; auto. destruct (pq_min clt r) as [[v' c']|]; [destruct (clt c' c)|]; discriminate.
  Qed.
  Lemma pq_min_spec q v c : pq_min clt q = Some (v, c) ->
      In (v, c) q /\ forall v' c', In (v', c') q -> cle clt c c'.
  Proof.
    revert v c. induction q as [|[v0 c0] r IH]; simpl; intros v c H; [discriminate|].
    destruct (pq_min clt r) as [[v1 c1]|] eqn:E.
    - destruct (IH _ _ eq_refl) as [Hin Hmin]. destruct (clt c1 c0) eqn:Ec; inversion H; subst; clear H.
      + split; auto. intros v' c' [E'|H'].
        * inversion E'; subst. apply (clt_cle clt cadd czero alg); auto.
        * eauto.
      + split; auto. intros v' c' [E'|H'].
        * inversion E'; subst. apply (cle_refl clt cadd czero alg).
        * eapply (cle_trans _ _ _ alg); [exact Ec|]. eauto.
    - apply pq_min_none in E. subst r. inversion H; subst. split; simpl; auto.
      intros v' c' [E'|[]]. inversion E'; subst. apply (cle_refl clt cadd czero alg).
  Qed.
  Lemma pq_remove_spec q v : NoDup (keys q) ->
      NoDup (keys (pq_remove q v)) /\ forall x, In x (pq_remove q v) <-> In x q /\ fst x <> v.
  Proof.
    induction q as [|[v' c'] r IH]; simpl; intros Hnd.
    - split; [constructor|]. intuition.
    - inversion Hnd as [|? ? Hn Hr]; subst. destruct (Nat.eqb v' v) eqn:E.
      + apply Nat.eqb_eq in E. subst v'. split; auto. intros [x px]; simpl. split.
        * intros H. split; auto. intros ->. apply Hn. apply in_map_iff. exists (v, px); auto.
        * intros [[E|H] Hne]; auto. inversion E; subst. congruence.
      + apply Nat.eqb_neq in E. destruct (IH Hr) as [IH1 IH2]. split.
        * simpl. constructor; auto. intros Hin. apply in_map_iff in Hin as [[x px] [Ex Hin]]. simpl in Ex. subst x.
          apply IH2 in Hin as [Hin _]. apply Hn. apply in_map_iff. exists (v', px); auto.
        * intros x. simpl. rewrite IH2. split.
          -- intros [<-|[H1 H2]]; simpl; auto.
          -- intros [[<-|H1] H2]; auto.
  Qed.

  Lemma pq_pop_none q : pq_pop clt q = None -> q = [].
  Proof. unfold pq_pop. destruct (pq_min clt q) as [[v c]|] eqn:E; [discriminate|]. intros _. apply pq_min_none; auto. Qed.
  Lemma pq_pop_some q v p q' : NoDup (keys q) -> pq_pop clt q = Some (v, p, q') ->
      In (v, p) q /\ (forall v' p', In (v', p') q -> cle clt p p') /\ NoDup (keys q') /\
      (forall x, In x q' <-> In x q /\ fst x <> v).
  Proof.
    unfold pq_pop. intros Hnd H. destruct (pq_min clt q) as [[v0 c0]|] eqn:E; [|discriminate].
    inversion H; subst. destruct (pq_min_spec _ _ _ E) as [H1 H2]. destruct (pq_remove_spec q v Hnd) as [H3 H4]. auto.
  Qed.
End ConcretePop.

(* ------------------------------------------------------------------ incident edges *)
Lemma edges_where_spec f l : forall i e, In e (edges_where f l i) <->
    exists ed, nth_error l (e - i) = Some ed /\ i <= e /\ f ed = true.
Proof.
  induction l as [|x r IH]; intros i e; simpl.
  - split; [intros []|]. intros [ed [H _]]. destruct (e - i); discriminate.
  - assert (Hr : In e (edges_where f r (S i)) <-> exists ed, nth_error (x :: r) (e - i) = Some ed /\ S i <= e /\ f ed = true).
    { rewrite IH. split; intros [ed [H1 [H2 H3]]]; exists ed; repeat split; auto.
      - replace (e - i) with (S (e - S i)) by lia. exact H1.
      - replace (e - i) with (S (e - S i)) in H1 by lia. exact H1. }
    destruct (f x) eqn:Ef.
    + simpl. rewrite Hr. split.
      * intros [<-|[ed [H1 [H2 H3]]]].
        -- exists x. rewrite Nat.sub_diag. auto.
        -- exists ed. repeat split; auto. lia.
      * intros [ed [H1 [H2 H3]]]. destruct (Nat.eq_dec i e) as [->|Hne]; auto.
        right. exists ed. repeat split; auto. lia.
    + rewrite Hr. split.
      * intros [ed [H1 [H2 H3]]]. exists ed. repeat split; auto. lia.
      * intros [ed [H1 [H2 H3]]]. exists ed. repeat split; auto.
        destruct (Nat.eq_dec i e) as [->|Hne]; [|lia]. rewrite Nat.sub_diag in H1. simpl in H1. congruence.
Qed.
Lemma incident_spec d g v e : In e (incident d g v) <-> exists ed, get_edge g e = Some ed /\ term_vertex d ed = v.
Proof.
  unfold incident, out_edges, in_edges, get_edge. destruct d; rewrite edges_where_spec; rewrite Nat.sub_0_r; simpl;
    split; intros [ed H]; exists ed.
  - destruct H as [H1 [_ H3]]. apply Nat.eqb_eq in H3. auto.
  - destruct H as [H1 H3]. repeat split; auto; [lia|]. apply Nat.eqb_eq; auto.
  - destruct H as [H1 [_ H3]]. apply Nat.eqb_eq in H3. auto.
  - destruct H as [H1 H3]. repeat split; auto; [lia|]. apply Nat.eqb_eq; auto.
Qed.

End Optimal.
