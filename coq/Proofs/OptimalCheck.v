(* C02: soundness of the certificate checker of Model/ObjectiveRun.v (the S lines of the correspondence streams).
   The potentials are produced by an untrusted Bellman-Ford; [feasible] is what is verified:
     feasible_lower_bound   feasible potentials are lower bounds of the cost of every permitted walk from the origin
     check_opt_sound        an accepted route is a permitted origin-destination walk whose cost is at most
                            (1 + tol) x the cost of EVERY permitted origin-destination walk
     check_nopath_sound     an accepted "no path" means there is no permitted walk *)
From Coq Require Import ZArith QArith List Arith Bool String Lia Lqa.
From stdpp Require Import gmap.
From RC Require Import Base.Show Base.Res Base.Num Model.Search Model.SearchSpec Model.SearchRun Model.ObjectiveRun.
From RC Require Import Proofs.Optimal Proofs.OptimalInst.
Import ListNotations.

Module OptimalCheck.
Import RC.Model.Search.Search SearchSpec OR OptimalInst.
Local Open Scope Q_scope.

Lemma arcs_from_spec d ok c es : forall i u v x, In (u, v, x) (arcs_from d ok c es i) <->
    exists e ed, nth_error es (e - i) = Some ed /\ (i <= e)%nat /\ ok e = true
                 /\ u = term_vertex d ed /\ v = key_vertex d ed /\ x = c e.
Proof.
  induction es as [|a r IH]; intros i u v x; cbn [arcs_from].
  - split; [intros []|]. intros [e [ed [H _]]]. destruct (e - i)%nat; discriminate.
  - assert (Hr : In (u, v, x) (arcs_from d ok c r (S i)) <->
                 exists e ed, nth_error (a :: r) (e - i) = Some ed /\ (S i <= e)%nat /\ ok e = true
                              /\ u = term_vertex d ed /\ v = key_vertex d ed /\ x = c e).
    { rewrite IH. split; intros [e [ed [H1 [H2 H3]]]]; exists e, ed; repeat split; try tauto.
      - replace (e - i)%nat with (S (e - S i)) by lia. exact H1.
      - replace (e - i)%nat with (S (e - S i)) in H1 by lia. exact H1. }
    destruct (ok i) eqn:Eok.
    + cbn [In]. rewrite Hr. split.
      * intros [E|[e [ed [H1 [H2 H3]]]]].
        -- injection E as <- <- <-. exists i, a. rewrite Nat.sub_diag. repeat split; auto.
        -- exists e, ed. repeat split; try tauto. lia.
      * intros [e [ed [H1 [H2 [H3 [H4 [H5 H6]]]]]]]. destruct (Nat.eq_dec i e) as [->|Hne].
        -- left. rewrite Nat.sub_diag in H1. injection H1 as <-. subst. reflexivity.
        -- right. exists e, ed. repeat split; auto. lia.
    + rewrite Hr. split.
      * intros [e [ed [H1 [H2 H3]]]]. exists e, ed. repeat split; try tauto. lia.
      * intros [e [ed [H1 [H2 [H3 H4]]]]]. exists e, ed. repeat split; try tauto.
        destruct (Nat.eq_dec i e) as [->|Hne]; [congruence|lia].
Qed.

Lemma arc_of_edge g d ok c e ed : get_edge g e = Some ed -> ok e = true ->
    In (term_vertex d ed, key_vertex d ed, c e) (arcs g d ok c).
Proof.
  intros He Hok. unfold arcs. apply arcs_from_spec. exists e, ed. rewrite Nat.sub_0_r.
  repeat split; auto. lia.
Qed.

Lemma cost_acc c P : forall acc, fold_left (fun a e => a + c e) P acc == acc + cost_of c P.
Proof.
  unfold cost_of. induction P as [|e r IH]; intros acc; cbn [fold_left]; [ring|].
  rewrite (IH (acc + c e)), (IH (0 + c e)). ring.
Qed.
Lemma cost_cons c e r : cost_of c (e :: r) == c e + cost_of c r.
Proof. unfold cost_of at 1. cbn [fold_left]. rewrite cost_acc. ring. Qed.
Lemma cost_is_path_cost c P : cost_of c P = path_cost Qplus 0 c P.
Proof. reflexivity. Qed.

(* feasible potentials are lower bounds along every permitted walk *)
Lemma feasible_walk g d ok c s p : feasible (arcs g d ok c) s p = true ->
    forall x P y, permitted_walk g d ok x P y -> forall px, pot_at p x = Some px ->
    exists py, pot_at p y = Some py /\ py <= px + cost_of c P.
Proof.
  unfold feasible. intros H. apply andb_true_iff in H as [_ Hf]. rewrite forallb_forall in Hf.
  intros x P y [Hw Hok]. induction Hw as [a|a e b r z [ed [He [Ht Hk]]] _ IH]; intros px Hpx.
  - exists px. split; auto. unfold cost_of; cbn. lra.
  - inversion Hok as [|? ? Hoke Hokr]; subst.
    pose proof (Hf _ (arc_of_edge g d ok c e ed He Hoke)) as Ha. cbn beta iota in Ha.
    rewrite Hpx in Ha. destruct (pot_at p (key_vertex d ed)) as [pv|] eqn:Ev; [|discriminate].
    apply Qle_bool_iff in Ha. destruct (IH Hokr pv eq_refl) as [py [Hy Hle]]. exists py. split; auto.
    rewrite cost_cons. lra.
Qed.

Theorem feasible_lower_bound g d ok c s p : feasible (arcs g d ok c) s p = true ->
    forall P y, permitted_walk g d ok s P y -> exists py, pot_at p y = Some py /\ py <= cost_of c P.
Proof.
  intros H P y HP. pose proof H as H0. unfold feasible in H0. apply andb_true_iff in H0 as [Hs _].
  destruct (pot_at p s) as [ps|] eqn:Es; [|discriminate]. apply Qle_bool_iff in Hs.
  destruct (feasible_walk g d ok c s p H s P y HP ps Es) as [py [Hy Hle]]. exists py. split; auto. lra.
Qed.

Lemma walk_b_sound g d : forall r a t, walk_b g d a r t = true -> walk g d a r t.
Proof.
  induction r as [|e r IH]; intros a t; cbn [walk_b].
  - intros H. apply Nat.eqb_eq in H. subst. constructor.
  - destruct (get_edge g e) as [ed|] eqn:He; [|discriminate]. intros H. apply andb_true_iff in H as [H1 H2].
    apply Nat.eqb_eq in H1. econstructor; [|apply IH; exact H2]. exists ed. auto.
Qed.

Theorem check_opt_sound g d ok c tol s t r : (0 <= tol) -> check_opt g d ok c tol s t r = None ->
    permitted_walk g d ok s r t
    /\ forall P, permitted_walk g d ok s P t -> cost_of c r <= cost_of c P * (1 + tol).
Proof.
  intros Htol. unfold check_opt.
  destruct (walk_b g d s r t && forallb ok r) eqn:Ew; cbn [negb]; [|discriminate].
  destruct (feasible (arcs g d ok c) s (bf (nverts g) (arcs g d ok c) s)) eqn:Ef; cbn [negb]; [|discriminate].
  destruct (pot_at (bf (nverts g) (arcs g d ok c) s) t) as [pt|] eqn:Et; [|discriminate].
  destruct (Qle_bool (cost_of c r) (pt * (1 + tol))) eqn:El; [|discriminate]. intros _.
  apply andb_true_iff in Ew as [E1 E2]. apply Qle_bool_iff in El. split.
  - split; [apply walk_b_sound; auto|]. apply List.Forall_forall. rewrite forallb_forall in E2. exact E2.
  - intros P HP. destruct (feasible_lower_bound g d ok c s _ Ef P t HP) as [py [Hy Hle]].
    assert (py = pt) by congruence. subst py.
    assert (pt * (1 + tol) <= cost_of c P * (1 + tol)) by (apply Qmult_le_compat_r; lra). lra.
Qed.

Theorem check_nopath_sound g d ok c s t : check_nopath g d ok c s t = None ->
    forall P, ~ permitted_walk g d ok s P t.
Proof.
  unfold check_nopath.
  destruct (feasible (arcs g d ok c) s (bf (nverts g) (arcs g d ok c) s)) eqn:Ef; cbn [negb]; [|discriminate].
  destruct (pot_at (bf (nverts g) (arcs g d ok c) s) t) as [pt|] eqn:Et; [discriminate|]. intros _ P HP.
  destruct (feasible_lower_bound g d ok c s _ Ef P t HP) as [py [Hy _]]. congruence.
Qed.

End OptimalCheck.
