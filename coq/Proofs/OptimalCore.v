(* C02: the closed-set optimality argument itself (see the header of Proofs/Optimal.v for the plan).
   One Section, generic in the cost algebra, the graph, the direction, the source, the optional target, the
   frontier / traversal / estimate / termination functions, the queue's tie-breaking, and the fuel. *)
From Coq Require Import List Arith Bool String Lia.
From stdpp Require Import gmap.
From RC Require Import Base.Res Model.Search Model.SearchSpec Proofs.Optimal.
Import ListNotations.

Module OptimalCore.
Import Search SearchSpec Optimal.
Notation NoDup := List.NoDup.

Section Generic.
  Context {C St : Type}.
  Variable clt : C -> C -> bool.
  Variable cadd : C -> C -> C.
  Variable czero : C.
  Variable cfloor : C -> C.       (* the floor inside EdgeTraversal::total_cost; opaque here *)
  Hypothesis alg : cost_algebra clt cadd czero.
  Notation cle := (cle clt).
  Notation ceq := (ceq clt).
  Notation keys q := (map fst q).

  Variable g : graph.
  Variable frontier : nat -> St -> option nat -> res bool.
  Variable traverse : dir -> nat -> option nat -> St -> res (C * C * St).
  Variable estimate : nat -> nat -> St -> res C.
  Variable init_state : res St.
  Variable terminate : nat -> nat -> option string.
  Variable d : dir.
  Variable source : nat.
  Variable target : option nat.

  (* the edge-local objective: cost [c e] and admission [ok e] of edge e, whatever came before; the
     (state-independent) value [hv v] of the estimate at v, weight factor included *)
  Variable c : nat -> C.
  Variable ok : nat -> bool.
  Variable hv : nat -> C.

  (* what the loop adds to a tentative label before queueing it *)
  Definition hof (v : nat) (st : St) : res C :=
    match target with None => Ok czero | Some t => estimate v t st end.

  Hypothesis Hfront : forall e st prev b, frontier e st prev = Ok b -> b = ok e.
  Hypothesis Htrav : forall e prev st ac tc st', traverse d e prev st = Ok (ac, tc, st') -> ceq (cfloor (cadd ac tc)) (c e).
  Hypothesis Hinfl : forall a e, ok e = true -> cle a (cadd a (c e)).
  Hypothesis Hest : forall v st h, hof v st = Ok h -> ceq h (hv v).
  Definition F (v : nat) (x : C) : C := cadd x (hv v).
  Hypothesis Hedge : forall e ed x, get_edge g e = Some ed -> ok e = true ->
      cle (F (term_vertex d ed) x) (F (key_vertex d ed) (cadd x (c e))).
  Hypothesis Hreflect : forall v x y, cle (F v x) (F v y) -> cle x y.

  (* ---- the queue's pop, abstract: SOME entry of minimal priority, removed ---- *)
  Variable pop : list (nat * C) -> option (nat * C * list (nat * C)).
  Hypothesis pop_none : forall q, pop q = None -> q = [].
  Hypothesis pop_some : forall q v p q', NoDup (keys q) -> pop q = Some (v, p, q') ->
      In (v, p) q /\ (forall v' p', In (v', p') q -> cle p p') /\ NoDup (keys q') /\
      (forall x, In x q' <-> In x q /\ fst x <> v).

  Notation relax := (relax clt cadd czero cfloor g frontier traverse estimate).
  Notation relax_all := (relax_all clt cadd czero cfloor g frontier traverse estimate).
  Notation sstate := (sstate C St).

  (* Search.step / run_loop / run_a_star / run_vertex_oriented with [pop] in place of [pq_pop] *)
  Definition step_with (init : St) (s : sstate) : res (sstate + sstate) :=
    match terminate (size (s_tree s)) (s_iters s) with
    | Some why => Err (String.append "terminated: " why)
    | None =>
        match pop (s_pq s) with
        | None => match target with
                  | Some _ => Err "nopath"%string
                  | None => Ok (inr s)
                  end
        | Some (v, _, q') =>
            let s1 := mkS q' (s_g s) (s_tree s) (s_iters s) in
            if (match target with Some t => Nat.eqb v t | None => false end) then Ok (inr s1)
            else
              do le_st <- (if Nat.eqb v source then Ok (None, init)
                           else match s_tree s !! v with
                                | Some b => Ok (Some (et_edge (b_et b)), et_state (b_et b))
                                | None => Err "internal: vertex missing from solution"%string
                                end);
              let '(last_edge, cur_state) := le_st in
              do s2 <- relax_all d target cur_state last_edge s1 (incident d g v);
              Ok (inl (mkS (s_pq s2) (s_g s2) (s_tree s2) (S (s_iters s2))))
        end
    end.
  Fixpoint run_loop_with (fuel : nat) (init : St) (s : sstate) : res sstate :=
    match fuel with
    | 0 => OutOfFuel
    | S f =>
        do r <- step_with init s;
        match r with
        | inl s' => run_loop_with f init s'
        | inr s' => Ok s'
        end
    end.
  Definition start (h0 : C) : sstate := mkS [(source, h0)] {[source := czero]} ∅ 0.
  Definition run_state_with (fuel : nat) : res sstate :=
    if negb (Nat.ltb source (nverts g)) then Err "graph: unknown vertex"%string else
    do init <- init_state;
    do h0 <- hof source init;
    run_loop_with fuel init (start h0).
  Definition run_a_star_with (fuel : nat) : res (gmap nat (branch C St) * nat) :=
    if negb (Nat.ltb source (nverts g)) then Err "graph: unknown vertex"%string else
    if (match target with Some t => Nat.eqb t source | None => false end) then Ok (∅, 0)
    else
      do init <- init_state;
      do h0 <- hof source init;
      do s <- run_loop_with fuel init (start h0);
      Ok (s_tree s, s_iters s).
  Definition run_vertex_oriented_with (fuel : nat) : res (sresult C St) :=
    do r <- run_a_star_with fuel;
    let '(tree, it) := r in
    match target with
    | None => Ok (mkR [tree] [] it)
    | Some t => do route <- vertex_oriented_route source t tree; Ok (mkR [tree] [route] it)
    end.

  (* ---- specification side: permitted walks and their cost (left fold, as run_a_star accumulates) ---- *)
  Inductive pwalk : nat -> list nat -> nat -> Prop :=
  | pw_nil a : pwalk a [] a
  | pw_cons a e ed r b : get_edge g e = Some ed -> term_vertex d ed = a -> ok e = true ->
      pwalk (key_vertex d ed) r b -> pwalk a (e :: r) b.
  Definition pcost (acc : C) (P : list nat) : C := fold_left (fun a e => cadd a (c e)) P acc.
  Definition rcost (acc : C) (r : list (etrav C St)) : C := fold_left (fun a et => cadd a (et_total cadd cfloor et)) r acc.

  Lemma pwalk_snoc a P b e ed : pwalk a P b -> get_edge g e = Some ed -> term_vertex d ed = b -> ok e = true ->
      pwalk a (P ++ [e]) (key_vertex d ed).
  Proof.
    intros H He Ht Hok. induction H as [a|a e' ed' r b He' Ht' Hok' _ IH]; simpl.
    - econstructor; eauto. constructor.
    - econstructor; eauto.
  Qed.
  Lemma pcost_ge P : forall a b acc, pwalk a P b -> cle acc (pcost acc P).
  Proof.
    induction P as [|e r IH]; intros a b acc H; simpl.
    - apply (cle_refl clt cadd czero alg).
    - inversion H; subst. eapply (cle_trans _ _ _ alg); [apply Hinfl; eassumption|]. eapply IH; eauto.
  Qed.

  (* ---- order helpers ---- *)
  Local Ltac tr x := apply (cle_trans _ _ _ alg) with (b := x).
  Lemma F_mono v x y : cle x y -> cle (F v x) (F v y).
  Proof. apply (cadd_mono_l _ _ _ alg). Qed.
  Lemma F_ceq v x y : ceq x y -> ceq (F v x) (F v y).
  Proof. intros [H1 H2]; split; apply F_mono; auto. Qed.

  (* ---- the invariant ---- *)
  Definition closed (s : sstate) (v : nat) (gv : C) : Prop := s_g s !! v = Some gv /\ ~ In v (keys (s_pq s)).

  Record Inv (pend : option (nat * list nat)) (s : sstate) : Prop := mkInv {
    inv_nodup : NoDup (keys (s_pq s));
    inv_prio : forall v p, In (v, p) (s_pq s) -> exists gv, s_g s !! v = Some gv /\ ceq p (F v gv);
    inv_src : s_g s !! source = Some czero;
    inv_pos : forall v gv, s_g s !! v = Some gv -> cle czero gv;
    inv_opt : forall v gv, closed s v gv -> forall P, pwalk source P v -> cle gv (pcost czero P);
    inv_relaxed : forall u gu, closed s u gu -> forall e ed, get_edge g e = Some ed -> term_vertex d ed = u ->
        ok e = true ->
        (exists l, pend = Some (u, l) /\ In e l)
        \/ (exists gv, s_g s !! key_vertex d ed = Some gv /\ cle gv (cadd gu (c e)));
    inv_bound : exists m, (forall u gu, closed s u gu -> cle (F u gu) m)
        /\ (forall v p, In (v, p) (s_pq s) -> cle m p)
        /\ (forall u l, pend = Some (u, l) -> exists gu, closed s u gu /\ cle m (F u gu));
    inv_tree : forall v b, s_tree s !! v = Some b -> exists ed gu gv,
        get_edge g (et_edge (b_et b)) = Some ed /\ term_vertex d ed = b_term b /\ key_vertex d ed = v
        /\ ok (et_edge (b_et b)) = true /\ closed s (b_term b) gu /\ s_g s !! v = Some gv
        /\ ceq gv (cadd gu (et_total cadd cfloor (b_et b))) /\ ceq (et_total cadd cfloor (b_et b)) (c (et_edge (b_et b)))
  }.

  Lemma inv_iters pend s n : Inv pend s -> Inv pend (mkS (s_pq s) (s_g s) (s_tree s) n).
  Proof. intros [H1 H2 H3 H4 H5 H6 H7 H8]. constructor; simpl; assumption. Qed.

  Lemma closed_fun s v a b : closed s v a -> closed s v b -> a = b.
  Proof. intros [H1 _] [H2 _]. congruence. Qed.

  (* a finished expansion *)
  Lemma inv_pend_done u s : Inv (Some (u, [])) s -> Inv None s.
  Proof.
    intros [H1 H2 H3 H4 H5 H6 H7 H8]. constructor; auto.
    - intros u' gu Hc e ed He Ht Hok. destruct (H6 u' gu Hc e ed He Ht Hok) as [[l [E Hin]]|H]; auto. inversion E; subst. destruct Hin.
    - destruct H7 as [m [Ha [Hb _]]]. exists m. repeat split; auto. intros ? ? E; discriminate.
  Qed.

  (* one pending edge is settled without changing the state *)
  Lemma inv_pend_skip u e ed l s : Inv (Some (u, e :: l)) s -> get_edge g e = Some ed ->
      (ok e = true -> forall gu, closed s u gu -> exists gv, s_g s !! key_vertex d ed = Some gv /\ cle gv (cadd gu (c e))) ->
      Inv (Some (u, l)) s.
  Proof.
    intros [H1 H2 H3 H4 H5 H6 H7 H8] He Hdone. constructor; auto.
    - intros u' gu Hc e' ed' He' Ht Hok. destruct (H6 u' gu Hc e' ed' He' Ht Hok) as [[l' [E Hin]]|H]; auto.
      inversion E; subst. destruct Hin as [<-|Hin].
      + right. rewrite He in He'. inversion He'; subst. apply Hdone; auto.
      + left. eauto.
    - destruct H7 as [m [Ha [Hb Hc]]]. exists m. repeat split; auto. intros u' l' E. inversion E; subst.
      eapply Hc; eauto.
  Qed.

  (* (P3) a relaxation cannot succeed on a closed vertex *)
  Lemma no_reopen u l s e ed gu kx tent : Inv (Some (u, l)) s -> closed s u gu ->
      get_edge g e = Some ed -> term_vertex d ed = u -> ok e = true ->
      ceq tent (cadd gu (c e)) -> closed s (key_vertex d ed) kx -> clt tent kx = true -> False.
  Proof.
    intros HI Hu He Ht Hok Htent Hk Hlt. destruct (inv_bound _ _ HI) as [m [Ha [_ Hc]]].
    destruct (Hc u l eq_refl) as [gu' [Hu' Hm]]. rewrite (closed_fun _ _ _ _ Hu' Hu) in Hm.
    eapply (clt_not_cle clt); [exact Hlt|]. apply (Hreflect (key_vertex d ed)).
    tr m; [apply Ha; auto|]. tr (F u gu); auto. rewrite <- Ht.
    tr (F (key_vertex d ed) (cadd gu (c e))); [apply Hedge; auto|]. apply F_mono. apply Htent.
  Qed.

  (* the relabelling arm of [relax] *)
  Lemma relabel_inv u e l s ed gu ac tc st2 h :
      let et := mkEt e ac tc st2 in
      let tent := cadd gu (et_total cadd cfloor et) in
      let kv := key_vertex d ed in
      Inv (Some (u, e :: l)) s -> get_edge g e = Some ed -> term_vertex d ed = u -> ok e = true ->
      s_g s !! u = Some gu -> ceq (cfloor (cadd ac tc)) (c e) -> ceq h (hv kv) ->
      (s_g s !! kv = None \/ exists ex, s_g s !! kv = Some ex /\ clt tent ex = true) ->
      Inv (Some (u, l)) (mkS (pq_push_increase clt (s_pq s) kv (cadd tent h)) (<[kv := tent]> (s_g s))
                             (<[kv := mkBranch u et]> (s_tree s)) (s_iters s)).
  Proof.
    intros et tent kv HI He Ht Hok Hgu Htot Hh Hbetter.
    assert (Htot' : ceq (et_total cadd cfloor et) (c e)) by exact Htot.
    assert (Htent : ceq tent (cadd gu (c e))).
    { apply (cadd_ceq clt cadd czero alg); [apply (ceq_refl clt cadd czero alg)|exact Htot']. }
    destruct (inv_bound _ _ HI) as [m [Hba [Hbb Hbc]]].
    destruct (Hbc u (e :: l) eq_refl) as [gu' [Hu Hm]].
    assert (gu' = gu) by (destruct Hu; congruence). subst gu'.
    assert (Hreopen : forall kx, closed s kv kx -> False).
    { intros kx Hk. destruct Hbetter as [Hn|[ex [Hex Hlt]]]; [destruct Hk; congruence|].
      assert (kx = ex) by (destruct Hk; congruence). subst kx.
      eapply (no_reopen u (e :: l) s e ed gu ex tent); eauto. }
    assert (Hpos : cle czero tent).
    { tr gu; [eapply (inv_pos _ _ HI); eauto|]. tr (cadd gu (c e)); [apply Hinfl; auto|apply Htent]. }
    assert (Hpn : ceq (cadd tent h) (F kv tent)).
    { apply (cadd_ceq clt cadd czero alg); [apply (ceq_refl clt cadd czero alg)|exact Hh]. }
    set (s' := mkS _ _ _ _).
    assert (Hcl : forall v gv, closed s' v gv <-> closed s v gv).
    { intros v gv. unfold closed, s'; simpl. split.
      - intros [H1 H2]. assert (v <> kv) by (intros ->; apply H2; apply push_keys; auto).
        rewrite lookup_insert_ne in H1 by auto. split; auto. intros Hin. apply H2. apply push_keys; auto.
      - intros [H1 H2]. assert (v <> kv) by (intros ->; apply (Hreopen gv); split; auto).
        rewrite lookup_insert_ne by auto. split; auto. intros Hin. apply push_keys in Hin as [Hin|Hin]; auto. }
    assert (Hkept : forall px, In (kv, px) (s_pq s) -> clt (cadd tent h) px = false -> False).
    { intros px Hin Hc. destruct (inv_prio _ _ HI _ _ Hin) as [ex [Hex Hpx]].
      destruct Hbetter as [Hn|[ex' [Hex' Hlt]]]; [congruence|]. assert (ex' = ex) by congruence. subst ex'.
      eapply (clt_not_cle clt); [exact Hlt|]. apply (Hreflect kv).
      tr px; [apply Hpx|]. tr (cadd tent h); [exact Hc|apply Hpn]. }
    constructor; simpl.
    - apply push_nodup. apply (inv_nodup _ _ HI).
    - intros v p Hin. apply push_in in Hin; [|apply (inv_nodup _ _ HI)].
      destruct Hin as [[Hne Hin]|[-> [->|[Hin Hc]]]].
      + rewrite lookup_insert_ne by auto. eapply (inv_prio _ _ HI); eauto.
      + exists tent. rewrite lookup_insert. split; auto.
      + exfalso. eapply Hkept; eauto.
    - assert (source <> kv).
      { intros E. destruct Hbetter as [Hn|[ex [Hex Hlt]]]; rewrite <- E in *; rewrite (inv_src _ _ HI) in *; [discriminate|].
        inversion Hex; subst. eapply (clt_not_cle clt); eauto. }
      rewrite lookup_insert_ne by auto. apply (inv_src _ _ HI).
    - intros v gv. destruct (Nat.eq_dec v kv) as [->|Hne].
      + rewrite lookup_insert. intros E; inversion E; subst; auto.
      + rewrite lookup_insert_ne by auto. apply (inv_pos _ _ HI).
    - intros v gv Hc. apply Hcl in Hc. eapply (inv_opt _ _ HI); eauto.
    - intros u' gu' Hc e' ed' He' Ht' Hok'. apply Hcl in Hc.
      assert (Hsame : forall gv, s_g s !! key_vertex d ed' = Some gv -> cle gv (cadd gu' (c e')) ->
                exists gv', <[kv := tent]> (s_g s) !! key_vertex d ed' = Some gv' /\ cle gv' (cadd gu' (c e'))).
      { intros gv Hg Hle. destruct (Nat.eq_dec (key_vertex d ed') kv) as [E|Hne].
        - rewrite E in *. rewrite lookup_insert. exists tent. split; auto.
          destruct Hbetter as [Hn|[ex [Hex Hlt]]]; [fold kv in Hn; congruence|].
          fold kv in Hex. assert (ex = gv) by congruence. subst ex.
          tr gv; auto. apply (clt_cle clt cadd czero alg); auto.
        - rewrite lookup_insert_ne by auto. eauto. }
      destruct (inv_relaxed _ _ HI u' gu' Hc e' ed' He' Ht' Hok') as [[l' [E Hin]]|[gv [Hg Hle]]].
      + inversion E; subst u' l'. destruct Hin as [<-|Hin]; [|left; eauto].
        right. rewrite He in He'. inversion He'; subst ed'. exists tent. fold kv. rewrite lookup_insert. split; auto.
        assert (gu' = gu) by (destruct Hc; congruence). subst gu'. apply Htent.
      + right. eapply Hsame; eauto.
    - exists m. repeat split.
      + intros u' gu' Hc. apply Hcl in Hc. auto.
      + intros v p Hin. apply push_in in Hin; [|apply (inv_nodup _ _ HI)].
        destruct Hin as [[Hne Hin]|[-> [->|[Hin Hc]]]]; eauto.
        tr (F u gu); auto. tr (F kv (cadd gu (c e))); [rewrite <- Ht; apply Hedge; auto|].
        tr (F kv tent); [apply F_mono; apply Htent|apply Hpn].
      + intros u' l' E. inversion E; subst u' l'. exists gu. split; auto. apply Hcl; auto.
    - intros v b. destruct (Nat.eq_dec v kv) as [->|Hne].
      + rewrite lookup_insert. intros E; inversion E; subst b; simpl.
        exists ed, gu, tent. rewrite lookup_insert.
        exact (conj He (conj Ht (conj eq_refl (conj Hok (conj (proj2 (Hcl u gu) Hu) (conj eq_refl
                 (conj (ceq_refl clt cadd czero alg _) Htot'))))))).
      + rewrite lookup_insert_ne by auto. intros Hb.
        destruct (inv_tree _ _ HI v b Hb) as [ed' [gu' [gv [A1 [A2 [A3 [A4 [A5 [A6 [A7 A8]]]]]]]]]].
        exists ed', gu', gv. rewrite lookup_insert_ne by auto.
        exact (conj A1 (conj A2 (conj A3 (conj A4 (conj (proj2 (Hcl _ _) A5) (conj A6 (conj A7 A8))))))).
  Qed.

  (* one iteration of the `for edge_id in incident edges` loop *)
  Lemma relax_inv u e l s s' ed cur last : Inv (Some (u, e :: l)) s -> get_edge g e = Some ed -> term_vertex d ed = u ->
      relax d target cur last s e = Ok s' -> Inv (Some (u, l)) s'.
  Proof.
    intros HI He Ht. unfold Search.relax. rewrite He.
    destruct (inv_bound _ _ HI) as [m [_ [_ Hbc]]]. destruct (Hbc u (e :: l) eq_refl) as [gu [Hu _]].
    destruct (frontier e cur last) as [b| | |] eqn:Ef; simpl; try discriminate.
    apply Hfront in Ef. subst b. destruct (ok e) eqn:Hok; simpl.
    2:{ intros E; inversion E; subst s'. eapply inv_pend_skip; eauto. congruence. }
    destruct (traverse d e last cur) as [[[ac tc] st2]| | |] eqn:Etr; simpl; try discriminate.
    apply Htrav in Etr. rewrite Ht. destruct Hu as [Hgu Hnk]. rewrite Hgu.
    set (tent := cadd gu (et_total cadd cfloor (mkEt e ac tc st2))).
    assert (Htent : ceq tent (cadd gu (c e))).
    { apply (cadd_ceq clt cadd czero alg); [apply (ceq_refl clt cadd czero alg)|exact Etr]. }
    destruct (s_g s !! key_vertex d ed) as [ex|] eqn:Ek.
    - destruct (clt tent ex) eqn:Elt.
      + destruct (match target with None => Ok czero | Some t => estimate (key_vertex d ed) t cur end) as [h| | |] eqn:Eh;
          simpl; try discriminate.
        intros E; inversion E; subst s'. eapply relabel_inv; eauto.
      + intros E; inversion E; subst s'. eapply inv_pend_skip; eauto. intros _ gu' Hc.
        assert (gu' = gu) by (destruct Hc; congruence). subst gu'. exists ex. split; auto.
        tr tent; [exact Elt|apply Htent].
    - destruct (match target with None => Ok czero | Some t => estimate (key_vertex d ed) t cur end) as [h| | |] eqn:Eh;
        simpl; try discriminate.
      intros E; inversion E; subst s'. eapply relabel_inv; eauto.
  Qed.

  Lemma relax_all_inv u cur last l : forall s s', Inv (Some (u, l)) s ->
      (forall e, In e l -> exists ed, get_edge g e = Some ed /\ term_vertex d ed = u) ->
      relax_all d target cur last s l = Ok s' -> Inv None s'.
  Proof.
    induction l as [|e l IH]; intros s s' HI Hl; simpl.
    - intros E; inversion E; subst. eapply inv_pend_done; eauto.
    - destruct (relax d target cur last s e) as [s1| | |] eqn:E1; simpl; try discriminate.
      destruct (Hl e (or_introl eq_refl)) as [ed [He Ht]]. intros H. eapply IH; [|intros; apply Hl; right; auto|exact H].
      eapply relax_inv; eauto.
  Qed.

  (* ---- every permitted walk from the source meets the frontier (or a settled label) ---- *)
  Definition Claim (s : sstate) (a : nat) (acc : C) : Prop :=
    (exists ga, s_g s !! a = Some ga /\ cle ga acc)
    \/ (exists y py gy, In (y, py) (s_pq s) /\ s_g s !! y = Some gy /\ cle (F y gy) (F a acc)).

  Lemma claim_walk s P : Inv None s -> forall a b acc, pwalk a P b -> Claim s a acc -> Claim s b (pcost acc P).
  Proof.
    intros HI. induction P as [|e r IH]; intros a b acc H Hc; inversion H; subst; simpl; auto.
    eapply IH; [eassumption|]. clear IH H.
    match goal with He : get_edge g e = Some ?x |- _ => rename x into ed end.
    destruct Hc as [[ga [Hga Hle]]|[y [py [gy [Hin [Hgy Hle]]]]]].
    - destruct (in_dec Nat.eq_dec (term_vertex d ed) (keys (s_pq s))) as [Hk|Hk].
      + apply keys_in in Hk as [p Hp]. right. exists (term_vertex d ed), p, ga. repeat split; auto.
        tr (F (term_vertex d ed) acc); [apply F_mono; auto|apply Hedge; auto].
      + destruct (inv_relaxed _ _ HI (term_vertex d ed) ga (conj Hga Hk) e ed) as [[l [E _]]|[gv [Hgv Hle']]]; auto;
          [discriminate|].
        left. exists gv. split; auto. tr (cadd ga (c e)); auto. apply (cadd_mono_l _ _ _ alg); auto.
    - right. exists y, py, gy. repeat split; auto. tr (F (term_vertex d ed) acc); auto.
  Qed.

  Lemma claim_source s : Inv None s -> Claim s source czero.
  Proof. intros HI. left. exists czero. split; [apply (inv_src _ _ HI)|apply (cle_refl clt cadd czero alg)]. Qed.

  (* ---- popping: the popped vertex becomes closed with an optimal label (P4) ---- *)
  Lemma pop_inv s v p q' : Inv None s -> pop (s_pq s) = Some (v, p, q') ->
      Inv (Some (v, incident d g v)) (mkS q' (s_g s) (s_tree s) (s_iters s))
      /\ exists gv, closed (mkS q' (s_g s) (s_tree s) (s_iters s)) v gv.
  Proof.
    intros HI Hp. destruct (pop_some _ _ _ _ (inv_nodup _ _ HI) Hp) as [Hin [Hmin [Hnd Hq']]].
    destruct (inv_prio _ _ HI _ _ Hin) as [gv [Hgv Hpv]].
    set (s1 := mkS q' _ _ _).
    assert (Hvk : ~ In v (keys q')).
    { intros Hk. apply keys_in in Hk as [pv Hk]. apply Hq' in Hk as [_ Hk]. simpl in Hk. auto. }
    assert (Hcl : forall x gx, closed s1 x gx <-> closed s x gx \/ (x = v /\ s_g s !! v = Some gx)).
    { intros x gx. unfold closed, s1; simpl. split.
      - intros [H1 H2]. destruct (Nat.eq_dec x v) as [->|Hne]; auto. left. split; auto.
        intros Hk. apply keys_in in Hk as [px Hk]. apply H2. apply (in_keys q' x px). apply Hq'. auto.
      - intros [[H1 H2]|[-> H1]]; split; auto. intros Hk. apply keys_in in Hk as [px Hk]. apply Hq' in Hk as [Hk _].
        apply H2. eapply in_keys; eauto. }
    split; [|exists gv; apply Hcl; auto].
    constructor; simpl; auto.
    - intros x px Hx. apply Hq' in Hx as [Hx _]. eapply (inv_prio _ _ HI); eauto.
    - apply (inv_src _ _ HI).
    - apply (inv_pos _ _ HI).
    - intros x gx Hc P HP. apply Hcl in Hc as [Hc|[-> Hg]]; [eapply (inv_opt _ _ HI); eauto|].
      assert (gx = gv) by congruence. subst gx.
      destruct (claim_walk s P HI _ _ _ HP (claim_source s HI)) as [[ga [Hga Hle]]|[y [py [gy [Hy [Hgy Hle]]]]]].
      + assert (ga = gv) by congruence. subst ga. auto.
      + apply (Hreflect v). tr p; [apply Hpv|]. tr py; [eapply Hmin; eauto|].
        destruct (inv_prio _ _ HI _ _ Hy) as [gy' [Hgy' Hpy]]. assert (gy' = gy) by congruence. subst gy'.
        tr (F y gy); auto. apply Hpy.
    - intros u gu Hc e ed He Ht Hok. apply Hcl in Hc as [Hc|[-> Hg]].
      + destruct (inv_relaxed _ _ HI u gu Hc e ed He Ht Hok) as [[l [E _]]|H]; [discriminate|auto].
      + left. exists (incident d g v). split; auto. apply incident_spec. eauto.
    - destruct (inv_bound _ _ HI) as [m [Ha [Hb _]]]. exists p. repeat split.
      + intros u gu Hc. apply Hcl in Hc as [Hc|[-> Hg]].
        * tr m; auto. eapply Hb; eauto.
        * assert (gu = gv) by congruence. subst gu. apply Hpv.
      + intros x px Hx. apply Hq' in Hx as [Hx _]. eapply Hmin; eauto.
      + intros u l E. inversion E; subst u l. exists gv. split; [apply Hcl; auto|apply Hpv].
    - intros x b Hb. destruct (inv_tree _ _ HI x b Hb) as [ed [gu [gx [A1 [A2 [A3 [A4 [A5 [A6 [A7 A8]]]]]]]]]].
      exists ed, gu, gx.
      exact (conj A1 (conj A2 (conj A3 (conj A4 (conj (proj2 (Hcl _ _) (or_introl A5)) (conj A6 (conj A7 A8))))))).
  Qed.

  (* ---- the initial state ---- *)
  Lemma start_inv h0 : ceq h0 (hv source) -> Inv None (start h0).
  Proof.
    intros Hh. unfold start. constructor; simpl.
    - constructor; [simpl; tauto|constructor].
    - intros v p [E|[]]. injection E as <- <-. exists czero. rewrite lookup_singleton. split; auto.
      apply (ceq_trans clt cadd czero alg) with (b := hv source); auto.
      apply (ceq_sym clt). apply (cadd_zero_l _ _ _ alg).
    - apply lookup_singleton.
    - intros v gv H. simpl in H. apply lookup_singleton_Some in H as [_ <-]. apply (cle_refl clt cadd czero alg).
    - intros v gv [H1 H2]. simpl in H1, H2. apply lookup_singleton_Some in H1 as [<- _]. exfalso. apply H2. auto.
    - intros v gv [H1 H2]. simpl in H1, H2. apply lookup_singleton_Some in H1 as [<- _]. exfalso. apply H2. auto.
    - exists h0. repeat split.
      + intros v gv [H1 H2]. simpl in H1, H2. apply lookup_singleton_Some in H1 as [<- _]. exfalso. apply H2. auto.
      + intros v p [E|[]]. injection E as <- <-. apply (cle_refl clt cadd czero alg).
      + intros ? ? E; discriminate.
    - intros v b H. rewrite lookup_empty in H. discriminate.
  Qed.

  (* ---- the loop ---- *)
  Definition Final (s : sstate) : Prop :=
    match target with
    | Some t => exists pend gt, Inv pend s /\ closed s t gt
    | None => Inv None s /\ s_pq s = []
    end.

  Lemma step_inv init s r : Inv None s -> step_with init s = Ok r ->
      match r with inl s' => Inv None s' | inr s' => Final s' end.
  Proof.
    intros HI. unfold step_with. destruct (terminate _ _); [discriminate|].
    destruct (pop (s_pq s)) as [[[v p] q']|] eqn:Ep.
    - destruct (pop_inv s v p q' HI Ep) as [HI1 [gv Hcv]].
      destruct (match target with Some t => Nat.eqb v t | None => false end) eqn:Et.
      + intros E; inversion E; subst r. unfold Final. destruct target as [t|]; [|discriminate].
        apply Nat.eqb_eq in Et. subst t. eauto.
      + destruct (if Nat.eqb v source then Ok (None, init) else _) as [[last cur]| | |]; simpl; try discriminate.
        destruct (relax_all d target cur last _ (incident d g v)) as [s2| | |] eqn:E2; simpl; try discriminate.
        intros E; inversion E; subst r. apply inv_iters. eapply relax_all_inv; [exact HI1| |exact E2].
        intros e He. apply incident_spec. exact He.
    - apply pop_none in Ep. unfold Final. destruct target; [discriminate|]. intros E; inversion E; subst r. auto.
  Qed.

  Lemma run_loop_inv fuel init : forall s s', Inv None s -> run_loop_with fuel init s = Ok s' -> Final s'.
  Proof.
    induction fuel as [|f IH]; intros s s' HI; simpl; [discriminate|].
    destruct (step_with init s) as [[s1|s1]| | |] eqn:E; simpl; try discriminate.
    - apply (step_inv _ _ _ HI) in E. simpl in E. intros H. eapply IH; [exact E|exact H].
    - apply (step_inv _ _ _ HI) in E. simpl in E. intros H; inversion H; subst; auto.
  Qed.

  Lemma run_state_final fuel s : run_state_with fuel = Ok s -> Final s.
  Proof.
    unfold run_state_with. destruct (negb (Nat.ltb source (nverts g))); [discriminate|].
    destruct init_state as [init| | |]; simpl; try discriminate.
    destruct (hof source init) as [h0| | |] eqn:Eh; simpl; try discriminate.
    intros H. eapply run_loop_inv; [|exact H]. apply start_inv. eapply Hest; eauto.
  Qed.

  (* ---- backtracking: the route is the tree path, its accumulated cost is the label ---- *)
  Lemma rcost_app acc r1 r2 : rcost acc (r1 ++ r2) = rcost (rcost acc r1) r2.
  Proof. apply fold_left_app. Qed.
  Lemma pcost_app acc r1 r2 : pcost acc (r1 ++ r2) = pcost (pcost acc r1) r2.
  Proof. apply fold_left_app. Qed.

  Lemma backtrack_ok pend s : Inv pend s -> forall fuel this vis acc r gthis,
      backtrack_loop fuel source (s_tree s) this vis acc = Ok r -> s_g s !! this = Some gthis ->
      exists pre, r = pre ++ acc /\ pwalk source (map et_edge pre) this
                  /\ ceq (rcost czero pre) gthis /\ ceq (rcost czero pre) (pcost czero (map et_edge pre)).
  Proof.
    intros HI. induction fuel as [|f IH]; intros this vis acc r gthis; simpl.
    - destruct (Nat.eqb this source) eqn:E; [|discriminate]. apply Nat.eqb_eq in E. subst this.
      intros H Hg; inversion H; subst r. rewrite (inv_src _ _ HI) in Hg. inversion Hg; subst gthis.
      exists []. simpl. repeat split; try constructor; apply (cle_refl clt cadd czero alg).
    - destruct (Nat.eqb this source) eqn:E.
      + apply Nat.eqb_eq in E. subst this.
        intros H Hg; inversion H; subst r. rewrite (inv_src _ _ HI) in Hg. inversion Hg; subst gthis.
        exists []. simpl. repeat split; try constructor; apply (cle_refl clt cadd czero alg).
      + destruct (s_tree s !! this) as [b|] eqn:Eb; [|discriminate].
        destruct (existsb _ vis); [discriminate|]. intros H Hg.
        destruct (inv_tree _ _ HI this b Eb) as [ed [gu [gv [A1 [A2 [A3 [A4 [A5 [A6 [A7 A8]]]]]]]]]].
        assert (gv = gthis) by congruence. subst gv. destruct A5 as [Hgu _].
        destruct (IH _ _ _ _ _ H Hgu) as [pre [-> [Hw [Hc1 Hc2]]]].
        exists (pre ++ [b_et b]). rewrite <- app_assoc. simpl. split; auto. rewrite map_app. simpl.
        rewrite rcost_app, pcost_app. simpl.
        assert (Hlab : ceq (cadd (rcost czero pre) (et_total cadd cfloor (b_et b))) gthis).
        { apply (ceq_trans clt cadd czero alg) with (b := cadd gu (et_total cadd cfloor (b_et b))).
          - apply (cadd_ceq clt cadd czero alg); [exact Hc1|apply (ceq_refl clt cadd czero alg)].
          - apply (ceq_sym clt). exact A7. }
        split; [|split]; [| exact Hlab |].
        * rewrite <- A3. eapply pwalk_snoc; eauto.
        * apply (cadd_ceq clt cadd czero alg); auto.
  Qed.

  (* ---- the generic optimality theorem ---- *)
  Theorem generic_optimal fuel t res : target = Some t -> run_vertex_oriented_with fuel = Ok res ->
      exists r, r_routes res = [r]
        /\ pwalk source (map et_edge r) t
        /\ ceq (rcost czero r) (pcost czero (map et_edge r))
        /\ (forall P, pwalk source P t -> cle (rcost czero r) (pcost czero P)).
  Proof.
    intros Ht. unfold run_vertex_oriented_with, run_a_star_with. rewrite Ht.
    destruct (negb (Nat.ltb source (nverts g))); [discriminate|].
    destruct (Nat.eqb t source) eqn:Ets.
    - apply Nat.eqb_eq in Ets. subst t. simpl. unfold vertex_oriented_route. simpl. rewrite Nat.eqb_refl. simpl.
      intros E; inversion E; subst res; simpl. exists []. simpl. repeat split; try constructor;
        try apply (cle_refl clt cadd czero alg). intros P HP. eapply pcost_ge; eauto.
    - destruct init_state as [init| | |] eqn:Ei; simpl; try discriminate.
      destruct (hof source init) as [h0| | |] eqn:Eh; simpl; try discriminate.
      destruct (run_loop_with fuel init (start h0)) as [s| | |] eqn:El; simpl; try discriminate.
      assert (HF : Final s).
      { eapply run_loop_inv; [|exact El]. apply start_inv. eapply Hest; eauto. }
      unfold Final in HF. rewrite Ht in HF. destruct HF as [pend [gt [HI [Hgt Hnk]]]].
      destruct (vertex_oriented_route source t (s_tree s)) as [route| | |] eqn:Er; simpl; try discriminate.
      intros E; inversion E; subst res; simpl. exists route. split; auto.
      unfold vertex_oriented_route in Er.
      destruct (backtrack_ok pend s HI _ _ _ _ _ _ Er Hgt) as [pre [-> [Hw [Hc1 Hc2]]]].
      rewrite app_nil_r. repeat split; auto; try apply Hc2.
      intros P HP. tr gt; [apply Hc1|]. eapply (inv_opt _ _ HI); eauto. split; auto.
  Qed.

  (* the cost accumulated along the returned route is the label of the target in the final search state *)
  Theorem generic_route_label fuel t res : target = Some t -> t <> source -> run_vertex_oriented_with fuel = Ok res ->
      exists r s gt, r_routes res = [r] /\ run_state_with fuel = Ok s /\ s_g s !! t = Some gt
                     /\ ceq (rcost czero r) gt.
  Proof.
    intros Ht Hne. unfold run_vertex_oriented_with, run_a_star_with, run_state_with. rewrite Ht.
    destruct (negb (Nat.ltb source (nverts g))); [discriminate|].
    apply Nat.eqb_neq in Hne. rewrite Hne.
    destruct init_state as [init| | |] eqn:Ei; simpl; try discriminate.
    destruct (hof source init) as [h0| | |] eqn:Eh; simpl; try discriminate.
    destruct (run_loop_with fuel init (start h0)) as [s| | |] eqn:El; simpl; try discriminate.
    assert (HF : Final s).
    { eapply run_loop_inv; [|exact El]. apply start_inv. eapply Hest; eauto. }
    unfold Final in HF. rewrite Ht in HF. destruct HF as [pend [gt [HI [Hgt Hnk]]]].
    destruct (vertex_oriented_route source t (s_tree s)) as [route| | |] eqn:Er; simpl; try discriminate.
    intros E; inversion E; subst res; simpl. exists route, s, gt. repeat split; auto.
    - unfold vertex_oriented_route in Er.
      destruct (backtrack_ok pend s HI _ _ _ _ _ _ Er Hgt) as [pre [-> [Hw [Hc1 Hc2]]]].
      rewrite app_nil_r. apply Hc1.
    - unfold vertex_oriented_route in Er.
      destruct (backtrack_ok pend s HI _ _ _ _ _ _ Er Hgt) as [pre [-> [Hw [Hc1 Hc2]]]].
      rewrite app_nil_r. apply Hc1.
  Qed.

  (* every state the loop passes through satisfies the invariant (P1, P2, P4, ...), whatever the fuel *)
  Inductive reachable (init : St) : sstate -> Prop :=
  | reach_start h0 : hof source init = Ok h0 -> reachable init (start h0)
  | reach_step s s' : reachable init s -> step_with init s = Ok (inl s') -> reachable init s'.
  Theorem reachable_inv init s : reachable init s -> Inv None s.
  Proof.
    induction 1 as [h0 Hh|s s' _ IH Hs].
    - apply start_inv. eapply Hest; eauto.
    - exact (step_inv init s (inl s') IH Hs).
  Qed.

  (* the label of the target in the final state is the route's cost and the minimum *)
  Theorem generic_target_label fuel t s : target = Some t -> t <> source -> run_state_with fuel = Ok s ->
      exists gt, s_g s !! t = Some gt /\ forall P, pwalk source P t -> cle gt (pcost czero P).
  Proof.
    intros Ht Hne H. apply run_state_final in H. unfold Final in H. rewrite Ht in H.
    destruct H as [pend [gt [HI [Hgt Hnk]]]]. exists gt. split; auto. intros P HP.
    eapply (inv_opt _ _ HI); eauto. split; auto.
  Qed.

  (* destination-less search (the tree): at exhaustion every vertex reachable by a permitted walk carries a
     label that is <= the cost of every such walk *)
  Theorem generic_tree_labels fuel s : target = None -> run_state_with fuel = Ok s ->
      forall P x, pwalk source P x -> exists gx, s_g s !! x = Some gx /\ cle gx (pcost czero P).
  Proof.
    intros Ht H P x HP. apply run_state_final in H. unfold Final in H. rewrite Ht in H. destruct H as [HI Hq].
    destruct (claim_walk s P HI _ _ _ HP (claim_source s HI)) as [[ga [Hga Hle]]|[y [py [gy [Hy _]]]]]; eauto.
    rewrite Hq in Hy. destruct Hy.
  Qed.
End Generic.

End OptimalCore.
