(* C02: the two instances of the generic optimality theorem of Proofs/OptimalCore.v, stated about the model
   functions of Model/Search.v themselves (Search.run_vertex_oriented with its concrete queue):
     dijkstra_optimal   abstract ordered cost algebra, estimate equivalent to zero (weight factor 0)
     astar_optimal      Q, estimate = w * h with h consistent in the search direction and 0 <= w <= 1
     dijkstra_astar_same_cost
   Walks are SearchSpec.walk (the specification of C01) restricted to permitted edges. *)
From Coq Require Import List Arith Bool String Lia QArith Lqa.
From stdpp Require Import gmap.
From RC Require Import Base.Res Base.Num Model.Search Model.SearchSpec Proofs.Optimal Proofs.OptimalCore.
Import ListNotations.

Module OptimalInst.
Import Search SearchSpec Optimal OptimalCore.

(* ------------------------------------------------------------------ specification vocabulary *)
Definition permitted_walk (g : graph) (d : dir) (ok : nat -> bool) (a : nat) (P : list nat) (b : nat) : Prop :=
  walk g d a P b /\ Forall (fun e => ok e = true) P.

Section Costs.
  Context {C St : Type}.
  Variable cadd : C -> C -> C.
  Variable czero : C.
  Variable cfloor : C -> C.
  (* sum of EdgeTraversal::total_cost over the route, accumulated as run_a_star accumulates the label *)
  Definition route_cost (r : list (etrav C St)) : C := fold_left (fun a et => cadd a (et_total cadd cfloor et)) r czero.
  (* the cost of a path under the edge-local objective c *)
  Definition path_cost (c : nat -> C) (P : list nat) : C := fold_left (fun a e => cadd a (c e)) P czero.
End Costs.

Lemma pwalk_permitted g d ok a P b : pwalk g d ok a P b <-> permitted_walk g d ok a P b.
Proof.
  split.
  - induction 1 as [a|a e ed r b He Ht Hok _ [IH1 IH2]]; split; try constructor; auto.
    econstructor; [|exact IH1]. exists ed. auto.
  - intros [Hw Hf]. induction Hw as [a|a e b r c0 [ed [He [Ht Hk]]] _ IH]; [constructor|].
    inversion Hf; subst. econstructor; eauto.
Qed.

(* ------------------------------------------------------------------ the model's own loop is the instance pop := pq_pop *)
Section Link.
  Context {C St : Type}.
  Variable clt : C -> C -> bool.
  Variable cadd : C -> C -> C.
  Variable czero : C.
  Variable cfloor : C -> C.
  Variable g : graph.
  Variable frontier : nat -> St -> option nat -> res bool.
  Variable traverse : dir -> nat -> option nat -> St -> res (C * C * St).
  Variable estimate : nat -> nat -> St -> res C.
  Variable init_state : res St.
  Variable terminate : nat -> nat -> option string.
  Variable d : dir.
  Variable source : nat.
  Variable target : option nat.

  Lemma step_link init s :
    step_with clt cadd czero cfloor g frontier traverse estimate terminate d source target (pq_pop clt) init s
    = step clt cadd czero cfloor g frontier traverse estimate terminate d source target init s.
  Proof. reflexivity. Qed.
  Lemma run_loop_link fuel init : forall s,
    run_loop_with clt cadd czero cfloor g frontier traverse estimate terminate d source target (pq_pop clt) fuel init s
    = run_loop clt cadd czero cfloor g frontier traverse estimate terminate fuel d source target init s.
  Proof. induction fuel as [|f IH]; intros s; simpl; auto. rewrite step_link. destruct (step _ _ _ _ _ _ _ _ _ _ _ _ _) as [[?|?]| | |]; simpl; auto. Qed.
  Lemma run_vertex_link fuel :
    run_vertex_oriented_with clt cadd czero cfloor g frontier traverse estimate init_state terminate d source target (pq_pop clt) fuel
    = run_vertex_oriented clt cadd czero cfloor g frontier traverse estimate init_state terminate fuel d source target.
  Proof.
    unfold run_vertex_oriented_with, run_vertex_oriented, run_a_star_with, run_a_star, hof, start.
    destruct (negb (Nat.ltb source (nverts g))); auto.
    destruct (match target with Some t => Nat.eqb t source | None => false end); auto.
    destruct init_state as [init| | |]; simpl; auto.
    destruct (match target with None => Ok czero | Some t => estimate source t init end); simpl; auto.
    rewrite run_loop_link. reflexivity.
  Qed.
  Lemma run_state_link fuel :
    run_state_with clt cadd czero cfloor g frontier traverse estimate init_state terminate d source target (pq_pop clt) fuel
    = run_a_star_state clt cadd czero cfloor g frontier traverse estimate init_state terminate fuel d source target.
  Proof.
    unfold run_state_with, run_a_star_state, hof, start.
    destruct (negb (Nat.ltb source (nverts g))); auto.
    destruct init_state as [init| | |]; simpl; auto.
    destruct (match target with None => Ok czero | Some t => estimate source t init end); simpl; auto.
    apply run_loop_link.
  Qed.
End Link.

(* ------------------------------------------------------------------ Dijkstra: abstract costs, estimate ~ zero *)
Section Dijkstra.
  Context {C St : Type}.
  Variable clt : C -> C -> bool.
  Variable cadd : C -> C -> C.
  Variable czero : C.
  Variable cfloor : C -> C.
  Hypothesis alg : cost_algebra clt cadd czero.
  Hypothesis cadd_zero_r : forall x, ceq clt (cadd x czero) x.
  Notation cle := (cle clt).
  Notation ceq := (ceq clt).

  Variable g : graph.
  Variable frontier : nat -> St -> option nat -> res bool.
  Variable traverse : dir -> nat -> option nat -> St -> res (C * C * St).
  Variable estimate : nat -> nat -> St -> res C.
  Variable init_state : res St.
  Variable terminate : nat -> nat -> option string.
  Variable d : dir.
  Variable source : nat.
  Variable target : option nat.
  Variable c : nat -> C.
  Variable ok : nat -> bool.

  Hypothesis Hfront : forall e st prev b, frontier e st prev = Ok b -> b = ok e.
  Hypothesis Htrav : forall e prev st ac tc st', traverse d e prev st = Ok (ac, tc, st') -> ceq (cfloor (cadd ac tc)) (c e).
  Hypothesis Hinfl : forall a e, ok e = true -> cle a (cadd a (c e)).
  Hypothesis Hest0 : forall v t st h, target = Some t -> estimate v t st = Ok h -> ceq h czero.

  Let hv (v : nat) : C := czero.

  Lemma dj_est v st h : hof czero estimate target v st = Ok h -> ceq h (hv v).
  Proof.
    unfold hof, hv. destruct target as [t|] eqn:Et.
    - intros H. eapply Hest0; eauto.
    - intros H; injection H as <-. apply (ceq_refl clt cadd czero alg).
  Qed.
  Lemma dj_edge e ed x : get_edge g e = Some ed -> ok e = true ->
      cle (F cadd hv (term_vertex d ed) x) (F cadd hv (key_vertex d ed) (cadd x (c e))).
  Proof.
    intros He Hok. unfold F, hv. apply (cle_trans _ _ _ alg) with (b := x); [apply cadd_zero_r|].
    apply (cle_trans _ _ _ alg) with (b := cadd x (c e)); [apply Hinfl; auto|apply cadd_zero_r].
  Qed.
  Lemma dj_reflect v x y : cle (F cadd hv v x) (F cadd hv v y) -> cle x y.
  Proof.
    unfold F, hv. intros H. apply (cle_trans _ _ _ alg) with (b := cadd x czero); [apply cadd_zero_r|].
    apply (cle_trans _ _ _ alg) with (b := cadd y czero); [exact H|apply cadd_zero_r].
  Qed.

  Notation RVO := (run_vertex_oriented clt cadd czero cfloor g frontier traverse estimate init_state terminate).
  Notation RST := (run_a_star_state clt cadd czero cfloor g frontier traverse estimate init_state terminate).

  Theorem dijkstra_optimal_gen fuel t res : target = Some t -> RVO fuel d source target = Ok res ->
      exists r, r_routes res = [r]
        /\ permitted_walk g d ok source (map et_edge r) t
        /\ ceq (route_cost cadd czero cfloor r) (path_cost cadd czero c (map et_edge r))
        /\ (forall P, permitted_walk g d ok source P t -> cle (route_cost cadd czero cfloor r) (path_cost cadd czero c P)).
  Proof.
    intros Ht H. rewrite <- run_vertex_link in H.
    destruct (generic_optimal clt cadd czero cfloor alg g frontier traverse estimate init_state terminate d source target
                c ok hv Hfront Htrav Hinfl dj_est dj_edge dj_reflect (pq_pop clt)
                (pq_pop_none clt) (pq_pop_some clt cadd czero alg) fuel t res Ht H) as [r [H1 [H2 [H3 H4]]]].
    exists r. split; auto. split; [apply pwalk_permitted; auto|]. split; auto.
    intros P HP. apply H4. apply pwalk_permitted; auto.
  Qed.

  Theorem dijkstra_target_label fuel t s : target = Some t -> t <> source -> RST fuel d source target = Ok s ->
      exists gt, s_g s !! t = Some gt
        /\ forall P, permitted_walk g d ok source P t -> cle gt (path_cost cadd czero c P).
  Proof.
    intros Ht Hne H. rewrite <- run_state_link in H.
    destruct (generic_target_label clt cadd czero cfloor alg g frontier traverse estimate init_state terminate d source target
                c ok hv Hfront Htrav Hinfl dj_est dj_edge dj_reflect (pq_pop clt)
                (pq_pop_none clt) (pq_pop_some clt cadd czero alg) fuel t s Ht Hne H) as [gt [H1 H2]].
    exists gt. split; auto. intros P HP. apply H2. apply pwalk_permitted; auto.
  Qed.

  (* the cost accumulated along the returned route is the label of the target *)
  Theorem dijkstra_route_label fuel t res : target = Some t -> t <> source -> RVO fuel d source target = Ok res ->
      exists r s gt, r_routes res = [r] /\ RST fuel d source target = Ok s /\ s_g s !! t = Some gt
                     /\ ceq (route_cost cadd czero cfloor r) gt.
  Proof.
    intros Ht Hne H. rewrite <- run_vertex_link in H.
    destruct (generic_route_label clt cadd czero cfloor alg g frontier traverse estimate init_state terminate d source target
                c ok hv Hfront Htrav Hinfl dj_est dj_edge dj_reflect (pq_pop clt)
                (pq_pop_none clt) (pq_pop_some clt cadd czero alg) fuel t res Ht Hne H) as [r [s [gt [H1 [H2 [H3 H4]]]]]].
    exists r, s, gt. rewrite <- run_state_link. auto.
  Qed.

  Theorem dijkstra_tree_labels fuel s : target = None -> RST fuel d source target = Ok s ->
      forall P x, permitted_walk g d ok source P x ->
        exists gx, s_g s !! x = Some gx /\ cle gx (path_cost cadd czero c P).
  Proof.
    intros Ht H P x HP. rewrite <- run_state_link in H.
    eapply (generic_tree_labels clt cadd czero cfloor alg g frontier traverse estimate init_state terminate d source target
              c ok hv Hfront Htrav Hinfl dj_est dj_edge dj_reflect (pq_pop clt)
              (pq_pop_none clt) (pq_pop_some clt cadd czero alg) fuel s Ht H).
    apply pwalk_permitted; eauto.
  Qed.
End Dijkstra.

(* ------------------------------------------------------------------ Q as a cost algebra *)
Lemma Qltb_true a b : Qltb a b = true <-> (a < b)%Q.
Proof.
  unfold Qltb. rewrite negb_true_iff. split.
  - intros H. apply Qnot_le_lt. intros Hle. apply Qle_bool_iff in Hle. congruence.
  - intros H. destruct (Qle_bool b a) eqn:E; auto. apply Qle_bool_iff in E. exfalso. eapply Qlt_not_le; eauto.
Qed.
Lemma cleQ a b : cle Qltb a b <-> (a <= b)%Q.
Proof.
  unfold cle. split.
  - intros H. apply Qnot_lt_le. intros Hlt. apply Qltb_true in Hlt. congruence.
  - intros H. destruct (Qltb b a) eqn:E; auto. apply Qltb_true in E. exfalso. eapply Qlt_not_le; eauto.
Qed.
Lemma ceqQ a b : ceq Qltb a b <-> (a == b)%Q.
Proof.
  unfold ceq. rewrite !cleQ. split.
  - intros [H1 H2]. apply Qle_antisym; auto.
  - intros H. rewrite H. split; apply Qle_refl.
Qed.
Lemma Q_algebra : cost_algebra Qltb Qplus 0%Q.
Proof.
  constructor.
  - intros a b H. apply Qltb_true in H. apply cleQ. apply Qlt_le_weak; auto.
  - intros a b c. rewrite !cleQ. apply Qle_trans.
  - intros a b x. rewrite !cleQ. intros H. apply Qplus_le_compat; [auto|apply Qle_refl].
  - intros a x y. rewrite !cleQ. intros H. apply Qplus_le_compat; [apply Qle_refl|auto].
  - intros x. apply ceqQ. apply Qplus_0_l.
Qed.

(* ------------------------------------------------------------------ A-star over Q *)
Section AStarQ.
  Context {St : Type}.
  Variable cfloor : Q -> Q.
  Variable g : graph.
  Variable frontier : nat -> St -> option nat -> res bool.
  Variable traverse : dir -> nat -> option nat -> St -> res (Q * Q * St).
  Variable estimate : nat -> nat -> St -> res Q.
  Variable init_state : res St.
  Variable terminate : nat -> nat -> option string.
  Variable d : dir.
  Variable source : nat.
  Variable t : nat.
  Variable c : nat -> Q.
  Variable ok : nat -> bool.
  (* the value of the estimate at v for this target, weight factor included *)
  Variable hv : nat -> Q.

  Hypothesis Hfront : forall e st prev b, frontier e st prev = Ok b -> b = ok e.
  Hypothesis Htrav : forall e prev st ac tc st', traverse d e prev st = Ok (ac, tc, st') -> (cfloor (ac + tc) == c e)%Q.
  Hypothesis Hpos : forall e, ok e = true -> (0 <= c e)%Q.
  Hypothesis Hest : forall v st x, estimate v t st = Ok x -> (x == hv v)%Q.
  (* consistency in the search direction, on permitted edges *)
  Hypothesis Hcons : forall e ed, get_edge g e = Some ed -> ok e = true ->
      (hv (term_vertex d ed) <= c e + hv (key_vertex d ed))%Q.

  Notation RVO := (run_vertex_oriented Qltb Qplus 0%Q cfloor g frontier traverse estimate init_state terminate).

  Theorem astar_optimal_hv fuel res : RVO fuel d source (Some t) = Ok res ->
      exists r, r_routes res = [r]
        /\ permitted_walk g d ok source (map et_edge r) t
        /\ (route_cost Qplus 0 cfloor r == path_cost Qplus 0 c (map et_edge r))%Q
        /\ (forall P, permitted_walk g d ok source P t -> (route_cost Qplus 0 cfloor r <= path_cost Qplus 0 c P)%Q).
  Proof.
    intros H. rewrite <- run_vertex_link in H.
    assert (A1 : forall e prev st ac tc st', traverse d e prev st = Ok (ac, tc, st') -> ceq Qltb (cfloor (ac + tc)%Q) (c e)).
    { intros. apply ceqQ. eauto. }
    assert (A2 : forall a e, ok e = true -> cle Qltb a (a + c e)%Q).
    { intros a e Hok. apply cleQ. specialize (Hpos e Hok). lra. }
    assert (A3 : forall v st h, hof 0%Q estimate (Some t) v st = Ok h -> ceq Qltb h (hv v)).
    { intros v st h Hh. apply ceqQ. eauto. }
    assert (A4 : forall e ed x, get_edge g e = Some ed -> ok e = true ->
               cle Qltb (F Qplus hv (term_vertex d ed) x) (F Qplus hv (key_vertex d ed) (x + c e)%Q)).
    { intros e ed x He Hok. apply cleQ. unfold F. specialize (Hcons e ed He Hok). lra. }
    assert (A5 : forall v x y, cle Qltb (F Qplus hv v x) (F Qplus hv v y) -> cle Qltb x y).
    { intros v x y Hle. apply cleQ in Hle. apply cleQ. unfold F in Hle. lra. }
    destruct (generic_optimal Qltb Qplus 0%Q cfloor Q_algebra g frontier traverse estimate init_state terminate d source (Some t)
                c ok hv Hfront A1 A2 A3 A4 A5 (pq_pop Qltb)
                (pq_pop_none Qltb) (pq_pop_some Qltb Qplus 0%Q Q_algebra) fuel t res eq_refl H) as [r [H1 [H2 [H3 H4]]]].
    exists r. split; auto. split; [apply pwalk_permitted; auto|]. split; [apply ceqQ; exact H3|].
    intros P HP. apply cleQ. apply H4. apply pwalk_permitted; auto.
  Qed.
End AStarQ.

(* the form with an explicit heuristic h and weight factor w: consistency of h and 0 <= w <= 1 give the
   consistency of w * h (this is where w <= 1 and c >= 0 are used) *)
Section AStarQW.
  Context {St : Type}.
  Variable cfloor : Q -> Q.
  Variable g : graph.
  Variable frontier : nat -> St -> option nat -> res bool.
  Variable traverse : dir -> nat -> option nat -> St -> res (Q * Q * St).
  Variable estimate : nat -> nat -> St -> res Q.
  Variable init_state : res St.
  Variable terminate : nat -> nat -> option string.
  Variable d : dir.
  Variable source : nat.
  Variable t : nat.
  Variable c : nat -> Q.
  Variable ok : nat -> bool.
  Variable h : nat -> Q.
  Variable w : Q.

  Hypothesis Hfront : forall e st prev b, frontier e st prev = Ok b -> b = ok e.
  Hypothesis Htrav : forall e prev st ac tc st', traverse d e prev st = Ok (ac, tc, st') -> (cfloor (ac + tc) == c e)%Q.
  Hypothesis Hpos : forall e, ok e = true -> (0 <= c e)%Q.
  Hypothesis Hw : (0 <= w /\ w <= 1)%Q.
  Hypothesis Hest : forall v st x, estimate v t st = Ok x -> (x == w * h v)%Q.
  Hypothesis Hcons : forall e ed, get_edge g e = Some ed -> ok e = true ->
      (h (term_vertex d ed) <= c e + h (key_vertex d ed))%Q.

  Theorem astar_optimal fuel res :
      run_vertex_oriented Qltb Qplus 0%Q cfloor g frontier traverse estimate init_state terminate fuel d source (Some t) = Ok res ->
      exists r, r_routes res = [r]
        /\ permitted_walk g d ok source (map et_edge r) t
        /\ (route_cost Qplus 0 cfloor r == path_cost Qplus 0 c (map et_edge r))%Q
        /\ (forall P, permitted_walk g d ok source P t -> (route_cost Qplus 0 cfloor r <= path_cost Qplus 0 c P)%Q).
  Proof.
    apply (astar_optimal_hv cfloor g frontier traverse estimate init_state terminate d source t c ok (fun v => w * h v)%Q);
      auto.
    intros e ed He Hok. specialize (Hcons e ed He Hok). specialize (Hpos e Hok). destruct Hw as [Hw0 Hw1].
    set (a := h (term_vertex d ed)) in *. set (b := h (key_vertex d ed)) in *. set (ce := c e) in *.
    assert (w * a <= w * (ce + b))%Q by (rewrite !(Qmult_comm w); apply Qmult_le_compat_r; auto).
    assert (w * ce <= 1 * ce)%Q by (apply Qmult_le_compat_r; auto).
    lra.
  Qed.
End AStarQW.

(* ------------------------------------------------------------------ same cost *)
(* Two searches over the same graph, direction, end points and edge-local objective (c, ok), each of which is
   optimal in the sense above, report routes of the same cost: stated for the two instances over Q. *)
Section SameCost.
  Context {St : Type}.
  Variable cfloor : Q -> Q.
  Variable g : graph.
  Variable frontier : nat -> St -> option nat -> res bool.
  Variable traverse : dir -> nat -> option nat -> St -> res (Q * Q * St).
  Variable est_d est_a : nat -> nat -> St -> res Q.      (* Dijkstra's (factor 0) and A-star's estimate *)
  Variable init_state : res St.
  Variable term_d term_a : nat -> nat -> option string.
  Variable d : dir.
  Variable source : nat.
  Variable t : nat.
  Variable c : nat -> Q.
  Variable ok : nat -> bool.
  Variable h : nat -> Q.
  Variable w : Q.

  Hypothesis Hfront : forall e st prev b, frontier e st prev = Ok b -> b = ok e.
  Hypothesis Htrav : forall e prev st ac tc st', traverse d e prev st = Ok (ac, tc, st') -> (cfloor (ac + tc) == c e)%Q.
  Hypothesis Hpos : forall e, ok e = true -> (0 <= c e)%Q.
  Hypothesis Hw : (0 <= w /\ w <= 1)%Q.
  Hypothesis Hest_d : forall v st x, est_d v t st = Ok x -> (x == 0)%Q.
  Hypothesis Hest_a : forall v st x, est_a v t st = Ok x -> (x == w * h v)%Q.
  Hypothesis Hcons : forall e ed, get_edge g e = Some ed -> ok e = true ->
      (h (term_vertex d ed) <= c e + h (key_vertex d ed))%Q.

  Theorem dijkstra_astar_same_cost fuel1 fuel2 res1 res2 r1 r2 :
      run_vertex_oriented Qltb Qplus 0%Q cfloor g frontier traverse est_d init_state term_d fuel1 d source (Some t) = Ok res1 ->
      run_vertex_oriented Qltb Qplus 0%Q cfloor g frontier traverse est_a init_state term_a fuel2 d source (Some t) = Ok res2 ->
      r_routes res1 = [r1] -> r_routes res2 = [r2] ->
      (route_cost Qplus 0 cfloor r1 == route_cost Qplus 0 cfloor r2)%Q.
  Proof.
    intros H1 H2 E1 E2.
    destruct (astar_optimal_hv cfloor g frontier traverse est_d init_state term_d d source t c ok (fun _ => 0%Q)
                Hfront Htrav Hpos Hest_d) with (fuel := fuel1) (res := res1) as [r1' [A1 [A2 [A3 A4]]]]; auto.
    { intros e ed He Hok. specialize (Hpos e Hok). lra. }
    destruct (astar_optimal cfloor g frontier traverse est_a init_state term_a d source t c ok h w
                Hfront Htrav Hpos Hw Hest_a Hcons fuel2 res2 H2) as [r2' [B1 [B2 [B3 B4]]]].
    assert (r1' = r1) by congruence. assert (r2' = r2) by congruence. subst r1' r2'.
    apply Qle_antisym.
    - rewrite B3. apply A4; auto.
    - rewrite A3. apply B4; auto.
  Qed.
End SameCost.


(* ------------------------------------------------------------------ edge-oriented queries *)
(* run_edge_oriented (as of /repo 393b35c) wraps the vertex-oriented search between the far end b1 of the origin edge
   and the near end a2 of the destination edge: whatever property [Opt] the vertex-oriented algorithm guarantees for its
   single route holds for the part of the edge-oriented route between the two query edges (which are added with
   zero cost).  Instantiate [Opt] with the conclusion of dijkstra_optimal / astar_optimal. *)
Section EdgeOriented.
  Context {C St : Type}.
  Variable czero : C.
  Variable g : graph.
  Variable traverse : dir -> nat -> option nat -> St -> res (C * C * St).
  Variable init_state : res St.
  Variable d : dir.
  Variable alg : nat -> option nat -> res (sresult C St).
  Variable Opt : nat -> nat -> list (etrav C St) -> Prop.
  Hypothesis Halg : forall s t res, alg s (Some t) = Ok res -> exists r, r_routes res = [r] /\ Opt s t r.

  Theorem edge_oriented_optimal e1 e2 ed1 ed2 res :
      get_edge g e1 = Some ed1 -> get_edge g e2 = Some ed2 -> e1 <> e2 ->
      key_vertex d ed1 <> term_vertex d ed2 ->
      run_edge_oriented czero g traverse init_state d alg e1 (Some e2) = Ok res ->
      exists r first last,
        r_routes res = [first :: r ++ [last]]
        /\ et_edge first = e1 /\ et_edge last = e2
        /\ et_access first = czero /\ et_trav first = czero /\ et_access last = czero /\ et_trav last = czero
        /\ Opt (key_vertex d ed1) (term_vertex d ed2) r.
  Proof.
    intros H1 H2 Hne Hadj. unfold run_edge_oriented. rewrite H1.
    destruct init_state as [init| | |]; cbn [bind]; try discriminate. rewrite H2.
    apply Nat.eqb_neq in Hne. rewrite Hne. apply Nat.eqb_neq in Hadj. rewrite Hadj.
    destruct (alg (key_vertex d ed1) (Some (term_vertex d ed2))) as [r0| | |] eqn:Ea; cbn [bind]; try discriminate.
    destruct (Halg _ _ _ Ea) as [r [Hr Ho]].
    destruct (Nat.eqb (List.length (r_trees r0)) 0); [discriminate|]. rewrite Hr.
    destruct (last r) as [fin|] eqn:El; cbn [bind]; try discriminate.
    intros H; injection H as <-. cbn [r_routes].
    exists r, (mkEt e1 czero czero init), (mkEt e2 czero czero (et_state fin)). repeat split; auto.
  Qed.
End EdgeOriented.

End OptimalInst.
