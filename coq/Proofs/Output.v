(* C20 -- lemmas about Model/Output.v.

   Specification vocabulary (used by the theorem statements in Props/C20.v):
     present g e        edge id e has a row in the geometry table g
     stored g e         that row (the edge's stored geometry)
     route_spec f r g   what format f must contain for route r: a pure map / flat_map of the route
     tree_spec f t g    the same for a tree
     path_ids / path_records / path_geometry / path_feature_geoms   what can be read back from a
                        route output;  tree_entries  the entries of a tree output as a multiset *)
From Coq Require Import List String Ascii Bool Arith Lia Permutation.
From RC Require Import Base.Res Model.Output.
Import ListNotations.
Import OUT.
Open Scope nat_scope.

Definition ok_or_err {A} (r : res A) : Prop := (exists a, r = Ok a) \/ (exists c, r = Err c).
Definition is_err {A} (r : res A) : Prop := exists c, r = Err c.

(* ---------------------------------------------------------------- collect *)
Section Collect.
  Context {A B : Type}.

  Lemma collect_ok_inv (f : A -> res B) : forall l bs,
      collect f l = Ok bs -> Forall2 (fun a b => f a = Ok b) l bs.
  Proof.
    induction l as [|x r IH]; intros bs H; cbn in H.
    - inversion H. constructor.
    - destruct (f x) as [b| | |] eqn:Hx; cbn in H; try discriminate.
      destruct (collect f r) as [bs'| | |] eqn:Hr; cbn in H; try discriminate.
      inversion H. subst bs. constructor; [exact Hx | apply IH; reflexivity].
  Qed.

  Lemma collect_ok_intro (f : A -> res B) : forall l bs,
      Forall2 (fun a b => f a = Ok b) l bs -> collect f l = Ok bs.
  Proof.
    intros l bs H. induction H as [|a b l bs Hab _ IH]; cbn.
    - reflexivity.
    - rewrite Hab. cbn. rewrite IH. reflexivity.
  Qed.

  (* all elements succeed with a known value *)
  Lemma collect_map (f : A -> res B) (h : A -> B) : forall l,
      Forall (fun a => f a = Ok (h a)) l -> collect f l = Ok (map h l).
  Proof.
    intros l H. apply collect_ok_intro. induction H as [|a l Ha _ IH]; cbn; constructor; assumption.
  Qed.

  Lemma collect_ok_or_err (f : A -> res B) : forall l,
      (forall a, ok_or_err (f a)) -> ok_or_err (collect f l).
  Proof.
    intros l Hf. induction l as [|x r IH]; cbn.
    - left. eexists. reflexivity.
    - destruct (Hf x) as [[b Hb]|[c Hc]]; rewrite ?Hb, ?Hc; cbn.
      + destruct IH as [[bs Hbs]|[c Hc]]; rewrite ?Hbs, ?Hc; cbn.
        * left. eexists. reflexivity.
        * right. eexists. reflexivity.
      + right. eexists. reflexivity.
  Qed.

  (* one failing element (and nothing that crashes) makes the whole collection fail *)
  Lemma collect_exists_err (f : A -> res B) : forall l,
      (forall a, ok_or_err (f a)) -> Exists (fun a => is_err (f a)) l -> is_err (collect f l).
  Proof.
    intros l Hf H. induction H as [x r [c Hc]|x r _ IH]; cbn.
    - rewrite Hc. cbn. exists c. reflexivity.
    - destruct (Hf x) as [[b Hb]|[c Hc]]; rewrite ?Hb, ?Hc; cbn.
      + destruct IH as [c Hc]. rewrite Hc. cbn. exists c. reflexivity.
      + exists c. reflexivity.
  Qed.

  (* ... with a single possible error class, that class *)
  Lemma collect_exists_err_class (f : A -> res B) (cls : string) : forall l,
      (forall a, (exists b, f a = Ok b) \/ f a = Err cls) ->
      Exists (fun a => f a = Err cls) l -> collect f l = Err cls.
  Proof.
    intros l Hf H. induction H as [x r Hc|x r _ IH]; cbn.
    - rewrite Hc. reflexivity.
    - destruct (Hf x) as [[b Hb]|Hc]; rewrite ?Hb, ?Hc; cbn.
      + rewrite IH. reflexivity.
      + reflexivity.
  Qed.
End Collect.

Lemma last_opt_none {A} : forall l : list A, last_opt l = None <-> l = [].
Proof.
  induction l as [|a r IH]; cbn; [tauto|].
  destruct r as [|b r']; [split; discriminate|].
  split; [|discriminate]. intro H. apply IH in H. discriminate.
Qed.

Lemma last_opt_last {A} : forall (l : list A) (a d : A), last_opt l = Some a -> last l d = a.
Proof.
  induction l as [|x r IH]; intros a d H; [discriminate|].
  destruct r as [|y r']; [cbn in H; inversion H; reflexivity|].
  change (last_opt (y :: r') = Some a) in H. change (last (y :: r') d = a). apply IH. exact H.
Qed.

Lemma sum_nat_length {A} : forall l : list (list A),
    sum_nat (map (@List.length A) l) = List.length (List.concat l).
Proof.
  intro l. unfold sum_nat.
  assert (G : forall (m : list nat) acc, fold_left Nat.add m acc = acc + fold_left Nat.add m 0).
  { induction m as [|x m IH]; intro acc; cbn; [lia|]. rewrite IH. rewrite (IH x). lia. }
  induction l as [|x l IH]; cbn; [reflexivity|].
  rewrite G, IH, app_length. reflexivity.
Qed.


Lemma Forall_map_iff' {X Y} (P : Y -> Prop) (f : X -> Y) l : Forall (fun x => P (f x)) l -> Forall P (map f l).
Proof. apply Forall_map. Qed.

(* ---------------------------------------------------------------- reading the identifier file *)
(* a row of the table: no line feed inside; [keeps_cr]: not ending in a carriage return (such a row
   cannot be told from a CRLF-terminated one) *)
Fixpoint no_nl (s : string) : Prop :=
  match s with EmptyString => True | String c r => c <> nl /\ no_nl r end.
Definition keeps_cr (s : string) : Prop := strip_cr s = s.
(* the file with every row terminated by LF *)
Fixpoint render_lf (rows : list string) : string :=
  match rows with [] => EmptyString | r :: t => (r ++ String nl (render_lf t))%string end.
Definition with_cr (r : string) : string := (r ++ String cr EmptyString)%string.

Lemma segments_line r s : no_nl r -> segments (r ++ String nl s) = r :: segments s.
Proof.
  induction r as [|c r IH]; intro H; cbn.
  - reflexivity.
  - destruct H as [Hc Hr]. rewrite (proj2 (Ascii.eqb_neq c nl) Hc). rewrite (IH Hr). reflexivity.
Qed.

Lemma segments_render rows : Forall no_nl rows -> segments (render_lf rows) = (rows ++ [EmptyString])%list.
Proof.
  intro H. induction H as [|r t Hr _ IH]; cbn [render_lf]; [reflexivity|].
  rewrite (segments_line r _ Hr), IH. reflexivity.
Qed.

Lemma read_lines_render rows : Forall no_nl rows -> read_lines (render_lf rows) = map strip_cr rows.
Proof.
  intro H. unfold read_lines. rewrite (segments_render rows H).
  rewrite removelast_last, last_last. rewrite app_nil_r. reflexivity.
Qed.

Lemma strip_with_cr r : strip_cr (with_cr r) = r.
Proof.
  unfold with_cr. induction r as [|c r IH]; [reflexivity|].
  cbn [append]. change (strip_cr (String c (r ++ String cr EmptyString)) = String c r).
  destruct r as [|d r']; [reflexivity|].
  cbn [append strip_cr] in *. rewrite IH. reflexivity.
Qed.

Lemma no_nl_with_cr r : no_nl r -> no_nl (with_cr r).
Proof.
  unfold with_cr. induction r as [|c r IH]; cbn; intro H.
  - split; [discriminate | exact I].
  - destruct H as [Hc Hr]. split; [exact Hc | exact (IH Hr)].
Qed.

(* row i of the file is entry i of the table - blank, whitespace-only and duplicate rows included -
   with LF line ends (rows not ending in CR) and with CRLF line ends *)
Lemma uuid_rows_never_shift rows : Forall no_nl rows ->
    (Forall keeps_cr rows -> uuid_from_file (render_lf rows) = Ok rows)
    /\ uuid_from_file (render_lf (map with_cr rows)) = Ok rows.
Proof.
  intro H. unfold uuid_from_file. split.
  - intro Hk. rewrite (read_lines_render rows H). f_equal.
    induction Hk as [|r t Hr _ IH]; cbn; [reflexivity|].
    inversion H; subst. rewrite Hr, IH by assumption. reflexivity.
  - rewrite read_lines_render.
    + f_equal. rewrite map_map. rewrite <- (map_id rows) at 2. apply map_ext. exact strip_with_cr.
    + apply Forall_map_iff'. eapply Forall_impl; [|exact H]. exact no_nl_with_cr.
Qed.

(* ---------------------------------------------------------------- the output model *)
Section Proofs.
  Context {C N : Type}.
  Variable state_ok : list N -> bool.

  Notation traversal := (traversal N).
  Notation branch := (branch N).
  Notation route := (route N).
  Notation tree := (tree N).
  Notation geoms := (geoms C).
  Notation linestring := (linestring C).
  Notation feature := (feature C N).
  Notation route_path := (route_path C N).
  Notation tree_out := (tree_out C N).
  Notation response := (response C N).
  Notation plugin := (plugin C).
  Implicit Types g : geoms.

  (* ---- specification vocabulary ---- *)
  Definition present (g : geoms) (e : nat) : Prop := e < List.length g.
  Definition stored (g : geoms) (e : nat) : linestring := nth e g [].
  Definition bedge (b : branch) : nat := edge_id (edge_traversal b).
  Definition tree_edge_ids (t : tree) : list nat := map bedge (values t).

  (* formats that carry geometry / edge ids / traversal records *)
  Definition geometry_format (f : format) : bool :=
    match f with Wkt | Wkb | GeoJson => true | Json | EdgeId => false end.
  Definition id_format (f : format) : bool :=
    match f with EdgeId | Json | GeoJson => true | Wkt | Wkb => false end.
  Definition record_format (f : format) : bool :=
    match f with Json | GeoJson => true | _ => false end.

  Definition feature_of (g : geoms) (t : traversal) : feature :=
    mkF (edge_id t) (stored g (edge_id t)) t.

  Definition route_spec (f : format) (r : route) (g : geoms) : route_path :=
    match f with
    | Wkt => PWkt (flat_map (fun t => stored g (edge_id t)) r)
    | Wkb => PWkb (flat_map (fun t => stored g (edge_id t)) r)
    | Json => PRecs r
    | GeoJson => PFeats (map (feature_of g) r)
    | EdgeId => PIds (map edge_id r)
    end.

  Definition tree_spec (f : format) (t : tree) (g : geoms) : tree_out :=
    match f with
    | Wkt => TWkt (map (fun b => stored g (bedge b)) (values t))
    | Wkb => TWkb (map (fun b => stored g (bedge b)) (values t))
    | Json => TRecs (values t)
    | GeoJson => TFeats (map (fun b => feature_of g (edge_traversal b)) (values t))
    | EdgeId => TIds (map bedge (values t))
    end.

  (* what a consumer reads back from a route output *)
  Definition path_ids (p : route_path) : option (list nat) :=
    match p with
    | PIds l => Some l
    | PRecs l => Some (map edge_id l)
    | PFeats fs => Some (map f_id fs)
    | PWkt _ | PWkb _ => None
    end.
  Definition path_records (p : route_path) : option (list traversal) :=
    match p with
    | PRecs l => Some l
    | PFeats fs => Some (map f_props fs)
    | _ => None
    end.
  Definition path_geometry (p : route_path) : option linestring :=
    match p with
    | PFeats fs => Some (flat_map f_geom fs)
    | PWkt l | PWkb l => Some l
    | _ => None
    end.
  Definition path_feature_geoms (p : route_path) : option (list linestring) :=
    match p with
    | PFeats fs => Some (map f_geom fs)
    | _ => None
    end.

  (* the entries of a tree output *)
  Inductive entry := EId (e : nat) | ERec (b : branch) | EFeat (f : feature) | ELine (l : linestring).
  Definition tree_entries (o : tree_out) : list entry :=
    match o with
    | TIds l => map EId l
    | TRecs l => map ERec l
    | TFeats l => map EFeat l
    | TWkt l | TWkb l => map ELine l
    end.
  (* the edge id an entry names, when it names one *)
  Definition entry_edge (e : entry) : option nat :=
    match e with
    | EId i => Some i
    | ERec b => Some (bedge b)
    | EFeat f => Some (f_id f)
    | ELine _ => None
    end.
  (* what a tree entry must be for a branch under each format *)
  Definition entry_spec (f : format) (g : geoms) (b : branch) : entry :=
    match f with
    | Wkt | Wkb => ELine (stored g (bedge b))
    | Json => ERec b
    | GeoJson => EFeat (feature_of g (edge_traversal b))
    | EdgeId => EId (bedge b)
    end.

  (* ---- lookup ---- *)
  Lemma lookup_present g e : present g e -> lookup g e = Ok (stored g e).
  Proof.
    intro H. unfold lookup, stored. rewrite (nth_error_nth' g [] H). reflexivity.
  Qed.
  Lemma lookup_missing g e : ~ present g e -> lookup g e = Err "missing_geometry".
  Proof.
    intro H. unfold lookup. assert (Hn : nth_error g e = None).
    { apply nth_error_None. unfold present in H. lia. }
    rewrite Hn. reflexivity.
  Qed.
  Lemma lookup_ok_inv g e l : lookup g e = Ok l -> present g e /\ l = stored g e.
  Proof.
    intro H. destruct (lt_dec e (List.length g)) as [Hp|Hp].
    - rewrite (lookup_present g e Hp) in H. inversion H. split; [exact Hp | reflexivity].
    - rewrite (lookup_missing g e Hp) in H. discriminate.
  Qed.
  Lemma lookup_cases (g : geoms) e :
    (exists l, lookup g e = Ok l) \/ lookup g e = Err "missing_geometry".
  Proof.
    destruct (lt_dec e (List.length g)) as [Hp|Hp].
    - left. eexists. apply lookup_present. exact Hp.
    - right. apply lookup_missing. exact Hp.
  Qed.

  (* collecting "look the key up, then build something from the row": the shape of every
     geometry-carrying format *)
  Section Keyed.
    Context {A B : Type} (key : A -> nat) (h : A -> linestring -> B) (g : geoms).
    Let step := fun a => do l <- lookup g (key a); Ok (h a l).

    Lemma keyed_cases a : (exists b, step a = Ok b) \/ step a = Err "missing_geometry".
    Proof.
      unfold step. destruct (lookup_cases g (key a)) as [[l Hl]|Hl]; rewrite Hl; cbn.
      - left. eexists. reflexivity.
      - right. reflexivity.
    Qed.

    Lemma keyed_ok_iff l bs :
      collect step l = Ok bs <->
      Forall (fun a => present g (key a)) l /\ bs = map (fun a => h a (stored g (key a))) l.
    Proof.
      split.
      - intro H. apply collect_ok_inv in H. induction H as [|a b l bs Hab _ [IH1 IH2]].
        + split; [constructor | reflexivity].
        + unfold step in Hab. destruct (lookup g (key a)) as [s| | |] eqn:Hs; cbn in Hab; try discriminate.
          apply lookup_ok_inv in Hs. destruct Hs as [Hp Hs]. inversion Hab. subst.
          split; [constructor; assumption | reflexivity].
      - intros [Hall Hbs]. subst bs. apply collect_map.
        induction Hall as [|a l Ha _ IH]; constructor; [|exact IH].
        unfold step. rewrite (lookup_present g (key a) Ha). reflexivity.
    Qed.

    Lemma keyed_missing l :
      Exists (fun a => ~ present g (key a)) l -> collect step l = Err "missing_geometry".
    Proof.
      intro H. apply collect_exists_err_class; [exact keyed_cases|].
      induction H as [a l Ha|a l _ IH]; [left|right; exact IH].
      unfold step. rewrite (lookup_missing g (key a) Ha). reflexivity.
    Qed.
  End Keyed.

  Lemma collect_ext {A B} (f f' : A -> res B) l : (forall a, f a = f' a) -> collect f l = collect f' l.
  Proof.
    intro H. induction l as [|x r IH]; cbn; [reflexivity|]. rewrite H, IH. reflexivity.
  Qed.
  Lemma lookup_as_keyed (g : geoms) e : lookup g e = (do l <- lookup g e; Ok l).
  Proof. destruct (lookup g e); reflexivity. Qed.

  Lemma concat_stored (g : geoms) (es : list nat) :
    concat_linestrings (map (fun e => stored g e) es) = flat_map (fun e => stored g e) es.
  Proof.
    unfold concat_linestrings. induction es as [|e r IH]; cbn; [reflexivity|]. rewrite IH. reflexivity.
  Qed.
  Lemma flat_map_map {X Y Z} (f : X -> Y) (h : Y -> list Z) l :
    flat_map h (map f l) = flat_map (fun x => h (f x)) l.
  Proof. induction l as [|x r IH]; cbn; [reflexivity|]. rewrite IH. reflexivity. Qed.
  Lemma Forall_map_iff {X Y} (P : Y -> Prop) (f : X -> Y) l : Forall P (map f l) <-> Forall (fun x => P (f x)) l.
  Proof. apply Forall_map. Qed.
  Lemma Exists_map_iff {X Y} (P : Y -> Prop) (f : X -> Y) l : Exists P (map f l) <-> Exists (fun x => P (f x)) l.
  Proof. apply Exists_map. Qed.

  (* ---- route geometry ---- *)
  Lemma route_linestring_iff (r : route) g l :
    create_route_linestring r g = Ok l <->
    Forall (fun t => present g (edge_id t)) r /\ l = flat_map (fun t => stored g (edge_id t)) r.
  Proof.
    unfold create_route_linestring.
    rewrite (collect_ext _ _ _ (lookup_as_keyed g)).
    split.
    - intro H. destruct (collect _ (map edge_id r)) as [ls| | |] eqn:Hc; cbn in H; try discriminate.
      apply (keyed_ok_iff (fun e => e) (fun _ s => s) g) in Hc. destruct Hc as [Hall Hls].
      inversion H. subst. cbv beta in *. split.
      + exact (proj1 (Forall_map_iff (present g) edge_id r) Hall).
      + rewrite concat_stored, flat_map_map. reflexivity.
    - intros [Hall Hl]. subst l.
      assert (Hc : collect (fun e => do s <- lookup g e; Ok s) (map edge_id r)
                   = Ok (map (fun e => stored g e) (map edge_id r))).
      { apply (keyed_ok_iff (fun e => e) (fun _ s => s) g). split; [|reflexivity].
        apply Forall_map_iff. exact Hall. }
      rewrite Hc. cbn. rewrite concat_stored, flat_map_map. reflexivity.
  Qed.

  Lemma route_linestring_missing (r : route) g :
    Exists (fun t => ~ present g (edge_id t)) r -> create_route_linestring r g = Err "missing_geometry".
  Proof.
    intro H. unfold create_route_linestring.
    rewrite (collect_ext _ _ _ (lookup_as_keyed g)).
    rewrite (keyed_missing (fun e => e) (fun _ s => s) g); [reflexivity|].
    apply Exists_map_iff. exact H.
  Qed.

  Lemma route_geojson_iff (r : route) g fs :
    create_route_geojson r g = Ok fs <->
    Forall (fun t => present g (edge_id t)) r /\ fs = map (feature_of g) r.
  Proof.
    unfold create_route_geojson, create_geojson_feature.
    apply (keyed_ok_iff edge_id (fun t l => mkF (edge_id t) l t) g).
  Qed.
  Lemma route_geojson_missing (r : route) g :
    Exists (fun t => ~ present g (edge_id t)) r -> create_route_geojson r g = Err "missing_geometry".
  Proof.
    unfold create_route_geojson, create_geojson_feature.
    apply (keyed_missing edge_id (fun t l => mkF (edge_id t) l t) g).
  Qed.

  (* generate_route_output succeeds exactly when every needed geometry is stored, and then it
     is the specification *)
  Lemma route_output_iff f (r : route) g p :
    generate_route_output f r g = Ok p <->
    (geometry_format f = true -> Forall (fun t => present g (edge_id t)) r) /\ p = route_spec f r g.
  Proof.
    destruct f; cbn [generate_route_output geometry_format route_spec].
    - split.
      + intro H. destruct (create_route_linestring r g) as [l| | |] eqn:Hl; cbn in H; try discriminate.
        apply route_linestring_iff in Hl. destruct Hl as [Ha Hl]. inversion H. subst. tauto.
      + intros [Ha Hp]. specialize (Ha eq_refl). subst p.
        rewrite (proj2 (route_linestring_iff r g _) (conj Ha eq_refl)). reflexivity.
    - split.
      + intro H. destruct (create_route_linestring r g) as [l| | |] eqn:Hl; cbn in H; try discriminate.
        apply route_linestring_iff in Hl. destruct Hl as [Ha Hl]. inversion H. subst. tauto.
      + intros [Ha Hp]. specialize (Ha eq_refl). subst p.
        rewrite (proj2 (route_linestring_iff r g _) (conj Ha eq_refl)). reflexivity.
    - split; [intro H; inversion H; split; [discriminate | reflexivity] | intros [_ Hp]; subst; reflexivity].
    - split.
      + intro H. destruct (create_route_geojson r g) as [l| | |] eqn:Hl; cbn in H; try discriminate.
        apply route_geojson_iff in Hl. destruct Hl as [Ha Hl]. inversion H. subst. tauto.
      + intros [Ha Hp]. specialize (Ha eq_refl). subst p.
        rewrite (proj2 (route_geojson_iff r g _) (conj Ha eq_refl)). reflexivity.
    - split; [intro H; inversion H; split; [discriminate | reflexivity] | intros [_ Hp]; subst; reflexivity].
  Qed.

  Lemma route_output_missing f (r : route) g :
    geometry_format f = true -> Exists (fun t => ~ present g (edge_id t)) r ->
    generate_route_output f r g = Err "missing_geometry".
  Proof.
    intros Hf H. destruct f; try discriminate; cbn [generate_route_output].
    - rewrite (route_linestring_missing r g H). reflexivity.
    - rewrite (route_linestring_missing r g H). reflexivity.
    - rewrite (route_geojson_missing r g H). reflexivity.
  Qed.

  Lemma route_output_cases f (r : route) g :
    (exists p, generate_route_output f r g = Ok p) \/ generate_route_output f r g = Err "missing_geometry".
  Proof.
    destruct (Forall_Exists_dec (fun t : traversal => present g (edge_id t))
                (fun t => lt_dec (edge_id t) (List.length g)) r) as [Hall|Hex].
    - left. exists (route_spec f r g). apply route_output_iff. split; [intros _; exact Hall | reflexivity].
    - destruct (geometry_format f) eqn:Hf.
      + right. apply route_output_missing; assumption.
      + left. exists (route_spec f r g). apply route_output_iff. split; [intro; congruence | reflexivity].
  Qed.

  (* the read-back views of the specification value *)
  Lemma route_spec_views f (r : route) g :
    path_ids (route_spec f r g) = (if id_format f then Some (map edge_id r) else None)
    /\ path_records (route_spec f r g) = (if record_format f then Some r else None)
    /\ path_geometry (route_spec f r g)
       = (if geometry_format f then Some (flat_map (fun t => stored g (edge_id t)) r) else None)
    /\ path_feature_geoms (route_spec f r g)
       = (match f with GeoJson => Some (map (fun t => stored g (edge_id t)) r) | _ => None end).
  Proof.
    destruct f; cbn; repeat split; try reflexivity.
    - rewrite map_map. reflexivity.
    - rewrite map_map. cbn. rewrite map_id. reflexivity.
    - rewrite flat_map_map. reflexivity.
    - rewrite map_map. reflexivity.
  Qed.

  (* ---- trees ---- *)
  Lemma tree_multilinestring_iff (t : tree) g ls :
    create_tree_multilinestring t g = Ok ls <->
    Forall (fun b => present g (bedge b)) (values t) /\ ls = map (fun b => stored g (bedge b)) (values t).
  Proof.
    unfold create_tree_multilinestring. fold bedge.
    rewrite (collect_ext _ _ _ (lookup_as_keyed g)).
    rewrite (keyed_ok_iff (fun e => e) (fun _ s => s) g).
    rewrite Forall_map_iff, map_map. tauto.
  Qed.
  Lemma tree_multilinestring_missing (t : tree) g :
    Exists (fun b => ~ present g (bedge b)) (values t) ->
    create_tree_multilinestring t g = Err "missing_geometry".
  Proof.
    intro H. unfold create_tree_multilinestring. fold bedge.
    rewrite (collect_ext _ _ _ (lookup_as_keyed g)).
    apply (keyed_missing (fun e => e) (fun _ s => s) g). apply Exists_map_iff. exact H.
  Qed.
  Lemma tree_geojson_iff (t : tree) g fs :
    create_tree_geojson t g = Ok fs <->
    Forall (fun b => present g (bedge b)) (values t)
    /\ fs = map (fun b => feature_of g (edge_traversal b)) (values t).
  Proof.
    unfold create_tree_geojson, create_geojson_feature.
    apply (keyed_ok_iff bedge (fun b l => mkF (edge_id (edge_traversal b)) l (edge_traversal b)) g).
  Qed.
  Lemma tree_geojson_missing (t : tree) g :
    Exists (fun b => ~ present g (bedge b)) (values t) -> create_tree_geojson t g = Err "missing_geometry".
  Proof.
    unfold create_tree_geojson, create_geojson_feature.
    apply (keyed_missing bedge (fun b l => mkF (edge_id (edge_traversal b)) l (edge_traversal b)) g).
  Qed.

  Lemma tree_output_iff f (t : tree) g o :
    generate_tree_output f t g = Ok o <->
    (geometry_format f = true -> Forall (fun b => present g (bedge b)) (values t)) /\ o = tree_spec f t g.
  Proof.
    destruct f; cbn [generate_tree_output geometry_format tree_spec].
    - split.
      + intro H. destruct (create_tree_multilinestring t g) as [l| | |] eqn:Hl; cbn in H; try discriminate.
        apply tree_multilinestring_iff in Hl. destruct Hl as [Ha Hl]. inversion H. subst. tauto.
      + intros [Ha Hp]. specialize (Ha eq_refl). subst o.
        rewrite (proj2 (tree_multilinestring_iff t g _) (conj Ha eq_refl)). reflexivity.
    - split.
      + intro H. destruct (create_tree_multilinestring t g) as [l| | |] eqn:Hl; cbn in H; try discriminate.
        apply tree_multilinestring_iff in Hl. destruct Hl as [Ha Hl]. inversion H. subst. tauto.
      + intros [Ha Hp]. specialize (Ha eq_refl). subst o.
        rewrite (proj2 (tree_multilinestring_iff t g _) (conj Ha eq_refl)). reflexivity.
    - split; [intro H; inversion H; split; [discriminate | reflexivity] | intros [_ Hp]; subst; reflexivity].
    - split.
      + intro H. destruct (create_tree_geojson t g) as [l| | |] eqn:Hl; cbn in H; try discriminate.
        apply tree_geojson_iff in Hl. destruct Hl as [Ha Hl]. inversion H. subst. tauto.
      + intros [Ha Hp]. specialize (Ha eq_refl). subst o.
        rewrite (proj2 (tree_geojson_iff t g _) (conj Ha eq_refl)). reflexivity.
    - split; [intro H; inversion H; split; [discriminate | reflexivity] | intros [_ Hp]; subst; reflexivity].
  Qed.

  Lemma tree_output_missing f (t : tree) g :
    geometry_format f = true -> Exists (fun b => ~ present g (bedge b)) (values t) ->
    generate_tree_output f t g = Err "missing_geometry".
  Proof.
    intros Hf H. destruct f; try discriminate; cbn [generate_tree_output].
    - rewrite (tree_multilinestring_missing t g H). reflexivity.
    - rewrite (tree_multilinestring_missing t g H). reflexivity.
    - rewrite (tree_geojson_missing t g H). reflexivity.
  Qed.

  Lemma tree_output_cases f (t : tree) g :
    (exists o, generate_tree_output f t g = Ok o) \/ generate_tree_output f t g = Err "missing_geometry".
  Proof.
    destruct (Forall_Exists_dec (fun b : branch => present g (bedge b))
                (fun b => lt_dec (bedge b) (List.length g)) (values t)) as [Hall|Hex].
    - left. exists (tree_spec f t g). apply tree_output_iff. split; [intros _; exact Hall | reflexivity].
    - destruct (geometry_format f) eqn:Hf.
      + right. apply tree_output_missing; assumption.
      + left. exists (tree_spec f t g). apply tree_output_iff. split; [intro; congruence | reflexivity].
  Qed.

  (* the entries of the specification value: exactly one per branch, each the branch's own *)
  Lemma tree_spec_entries f (t : tree) g :
    tree_entries (tree_spec f t g) = map (entry_spec f g) (values t).
  Proof. destruct f; cbn [tree_entries tree_spec]; rewrite ?map_map; reflexivity. Qed.

  Lemma entry_spec_edge f g (b : branch) :
    entry_edge (entry_spec f g b) = (if id_format f then Some (bedge b) else None).
  Proof. destruct f; reflexivity. Qed.

  Lemma values_perm (t t' : tree) : Permutation t t' -> Permutation (values t) (values t').
  Proof. apply Permutation_map. Qed.

  (* hash-order independence: success and the multiset of entries do not depend on the order in
     which the map hands out its values *)
  Lemma tree_output_perm f (t t' : tree) g o :
    Permutation t t' -> generate_tree_output f t g = Ok o ->
    exists o', generate_tree_output f t' g = Ok o' /\ Permutation (tree_entries o) (tree_entries o').
  Proof.
    intros Hp H. apply tree_output_iff in H. destruct H as [Ha Ho]. subst o.
    exists (tree_spec f t' g). split.
    - apply tree_output_iff. split; [|reflexivity]. intro Hf.
      apply (Permutation_Forall (values_perm t t' Hp)). apply Ha. exact Hf.
    - rewrite !tree_spec_entries. apply Permutation_map. apply values_perm. exact Hp.
  Qed.

  Lemma tree_output_perm_err f (t t' : tree) g :
    Permutation t t' -> is_err (generate_tree_output f t g) -> is_err (generate_tree_output f t' g).
  Proof.
    intros Hp [c Hc]. destruct (tree_output_cases f t' g) as [[o' Ho']|He].
    - destruct (tree_output_perm f t' t g o' (Permutation_sym Hp) Ho') as [o [Ho _]]. congruence.
    - eexists. exact He.
  Qed.

  (* ---- construct_route_output / traversal_process ---- *)
  Lemma construct_route_output_cases (r : route) f g :
    ok_or_err (construct_route_output state_ok r f g).
  Proof.
    unfold construct_route_output. destruct (last_opt r) as [t|]; [|right; eexists; reflexivity].
    destruct (route_output_cases f r g) as [[p Hp]|He]; rewrite ?Hp, ?He; cbn.
    - destruct (state_ok (result_state t)); [left|right]; eexists; reflexivity.
    - right. eexists. reflexivity.
  Qed.

  Lemma construct_route_output_ok (r : route) f g ro :
    construct_route_output state_ok r f g = Ok ro <->
    exists t, last_opt r = Some t
              /\ (geometry_format f = true -> Forall (fun t => present g (edge_id t)) r)
              /\ state_ok (result_state t) = true
              /\ ro = mkRO (result_state t) (route_spec f r g).
  Proof.
    unfold construct_route_output. split.
    - intro H. destruct (last_opt r) as [t|]; [|discriminate]. exists t.
      destruct (generate_route_output f r g) as [p| | |] eqn:Hp; cbn in H; try discriminate.
      apply route_output_iff in Hp. destruct Hp as [Ha Hp]. subst p.
      destruct (state_ok (result_state t)) eqn:Hs; [|discriminate]. inversion H. tauto.
    - intros [t [Ht [Ha [Hs Hro]]]]. rewrite Ht.
      rewrite (proj2 (route_output_iff f r g _) (conj Ha eq_refl)). cbn. rewrite Hs, Hro. reflexivity.
  Qed.

  Lemma construct_route_output_missing (r : route) f g :
    geometry_format f = true -> Exists (fun t => ~ present g (edge_id t)) r ->
    construct_route_output state_ok r f g = Err "missing_geometry".
  Proof.
    intros Hf H. unfold construct_route_output.
    destruct (last_opt r) as [t|] eqn:Hl.
    - rewrite (route_output_missing f r g Hf H). reflexivity.
    - apply last_opt_none in Hl. subst r. inversion H.
  Qed.

  Definition route_missing (g : geoms) (r : route) : Prop := Exists (fun t => ~ present g (edge_id t)) r.
  Definition tree_missing (g : geoms) (t : tree) : Prop := Exists (fun b => ~ present g (bedge b)) (values t).

  Lemma traversal_process_cases g rf tf (out : response) sr :
    ok_or_err (traversal_process state_ok g rf tf out sr).
  Proof.
    destruct sr as [|routes trees]; cbn; [left; eexists; reflexivity|].
    assert (H1 : ok_or_err (match rf with
                            | None => Ok out
                            | Some a => do rs <- collect (fun r => construct_route_output state_ok r a g) routes;
                                        Ok (set_route out (pack rs))
                            end)).
    { destruct rf as [a|]; [|left; eexists; reflexivity].
      destruct (collect_ok_or_err (fun r => construct_route_output state_ok r a g) routes
                  (fun r => construct_route_output_cases r a g)) as [[rs Hrs]|[c Hc]]; rewrite ?Hrs, ?Hc; cbn;
        [left|right]; eexists; reflexivity. }
    destruct H1 as [[o1 Ho1]|[c Hc]]; rewrite ?Ho1, ?Hc; cbn; [|right; eexists; reflexivity].
    destruct tf as [a|]; [|left; eexists; reflexivity].
    assert (Ht : forall t : tree, ok_or_err (generate_tree_output a t g)).
    { intro t. destruct (tree_output_cases a t g) as [[o Ho]|He]; [left|right]; eexists; eassumption. }
    destruct (collect_ok_or_err (fun t => generate_tree_output a t g) trees Ht) as [[ts Hts]|[c Hc]];
      rewrite ?Hts, ?Hc; cbn; [left|right]; eexists; reflexivity.
  Qed.

  (* a route (or tree branch) without stored geometry under a geometry format: the plugin fails *)
  Lemma traversal_process_missing g rf tf (out : response) routes trees :
    (exists f, rf = Some f /\ geometry_format f = true /\ Exists (route_missing g) routes)
    \/ (exists f, tf = Some f /\ geometry_format f = true /\ Exists (tree_missing g) trees) ->
    is_err (traversal_process state_ok g rf tf out (SOk routes trees)).
  Proof.
    intros [[f [Hrf [Hf Hex]]]|[f [Htf [Hf Hex]]]]; cbn.
    - subst rf.
      assert (He : is_err (collect (fun r => construct_route_output state_ok r f g) routes)).
      { apply collect_exists_err; [intro r; apply construct_route_output_cases|].
        eapply Exists_impl; [|exact Hex]. intros r Hr. eexists.
        apply construct_route_output_missing; assumption. }
      destruct He as [c Hc]. rewrite Hc. cbn. exists c. reflexivity.
    - subst tf.
      pose proof (traversal_process_cases g rf None out (SOk routes trees)) as H1. cbn in H1.
      match goal with |- is_err (do _ <- ?X; _) => destruct H1 as [[o1 Ho1]|[c Hc]] end.
      + cbn in Ho1.
        match type of Ho1 with (do _ <- ?X; _) = _ => destruct X as [o1'| | |] eqn:HX; cbn in Ho1; try discriminate end.
        cbn.
        assert (He : is_err (collect (fun t => generate_tree_output f t g) trees)).
        { apply collect_exists_err.
          - intro t. destruct (tree_output_cases f t g) as [[o Ho]|He]; [left|right]; eexists; eassumption.
          - eapply Exists_impl; [|exact Hex]. intros t Ht. eexists. apply tree_output_missing; assumption. }
        destruct He as [c Hc]. rewrite Hc. cbn. exists c. reflexivity.
      + cbn in Hc.
        match type of Hc with (do _ <- ?X; _) = _ => destruct X as [o1'| | |] eqn:HX; cbn in Hc; try discriminate end.
        cbn. exists c. inversion Hc. reflexivity.
  Qed.

  (* what a successful traversal_process stores *)
  Lemma traversal_process_ok g rf tf (out out' : response) routes trees :
    traversal_process state_ok g rf tf out (SOk routes trees) = Ok out' ->
    (match rf with
     | None => r_route out' = r_route out
     | Some f => exists ros, r_route out' = Some (pack ros)
                             /\ Forall2 (fun r ro => construct_route_output state_ok r f g = Ok ro) routes ros
     end)
    /\ (match tf with
        | None => r_tree out' = r_tree out
        | Some f => r_tree out' = Some (pack (map (fun t => tree_spec f t g) trees))
                    /\ (geometry_format f = true -> Forall (fun t => ~ tree_missing g t) trees)
        end)
    /\ r_request out' = r_request out /\ r_origin_uuid out' = r_origin_uuid out
    /\ r_destination_uuid out' = r_destination_uuid out
    /\ r_route_edges out' = r_route_edges out /\ r_tree_size_count out' = r_tree_size_count out.
  Proof.
    cbn. intro H.
    destruct rf as [f|].
    - destruct (collect (fun r => construct_route_output state_ok r f g) routes) as [ros| | |] eqn:Hr;
        cbn in H; try discriminate.
      apply collect_ok_inv in Hr.
      destruct tf as [f'|].
      + destruct (collect (fun t => generate_tree_output f' t g) trees) as [tos| | |] eqn:Ht;
          cbn in H; try discriminate.
        inversion H. subst out'. cbn. apply collect_ok_inv in Ht.
        assert (Hts : tos = map (fun t => tree_spec f' t g) trees
                      /\ (geometry_format f' = true -> Forall (fun t => ~ tree_missing g t) trees)).
        { clear - Ht. induction Ht as [|t o trees tos Hto _ [IH1 IH2]]; [split; [reflexivity|constructor]|].
          apply tree_output_iff in Hto. destruct Hto as [Ha Ho]. subst. split; [reflexivity|].
          intro Hf. constructor; [|exact (IH2 Hf)]. unfold tree_missing. intro Hex.
          apply Exists_exists in Hex. destruct Hex as [b [Hb Hnb]].
          specialize (Ha Hf). rewrite Forall_forall in Ha. exact (Hnb (Ha b Hb)). }
        destruct Hts as [Hts1 Hts2]. subst tos.
        repeat split; try reflexivity; try exact Hts2. exists ros. split; [reflexivity | exact Hr].
      + inversion H. subst out'. cbn. repeat split; try reflexivity. exists ros. split; [reflexivity|exact Hr].
    - cbn in H. destruct tf as [f'|].
      + destruct (collect (fun t => generate_tree_output f' t g) trees) as [tos| | |] eqn:Ht;
          cbn in H; try discriminate.
        inversion H. subst out'. cbn. apply collect_ok_inv in Ht.
        assert (Hts : tos = map (fun t => tree_spec f' t g) trees
                      /\ (geometry_format f' = true -> Forall (fun t => ~ tree_missing g t) trees)).
        { clear - Ht. induction Ht as [|t o trees tos Hto _ [IH1 IH2]]; [split; [reflexivity|constructor]|].
          apply tree_output_iff in Hto. destruct Hto as [Ha Ho]. subst. split; [reflexivity|].
          intro Hf. constructor; [|exact (IH2 Hf)]. unfold tree_missing. intro Hex.
          apply Exists_exists in Hex. destruct Hex as [b [Hb Hnb]].
          specialize (Ha Hf). rewrite Forall_forall in Ha. exact (Hnb (Ha b Hb)). }
        destruct Hts as [Hts1 Hts2]. subst tos. repeat split; try reflexivity; exact Hts2.
      + inversion H. subst out'. repeat split; reflexivity.
  Qed.

  (* ---- uuid ---- *)
  Lemma uuid_process_ok uuids (out out' : response) routes trees :
    uuid_process uuids out (SOk routes trees) = Ok out' <->
    exists o d ou du,
      r_request out = Some (ReqObj (FNat o) (FNat d))
      /\ nth_error uuids o = Some ou /\ nth_error uuids d = Some du
      /\ out' = set_uuids out ou du.
  Proof.
    unfold uuid_process, get_od_vertex_ids, uuid_lookup. split.
    - intro H. destruct (r_request out) as [[|[| |o] [| |d]]|]; cbn in H; try discriminate.
      destruct (nth_error uuids o) as [ou|] eqn:Ho; cbn in H; try discriminate.
      destruct (nth_error uuids d) as [du|] eqn:Hd; cbn in H; try discriminate.
      inversion H. exists o, d, ou, du. repeat split; assumption || reflexivity.
    - intros [o [d [ou [du [Hr [Ho [Hd Hout]]]]]]]. rewrite Hr. cbn. rewrite Ho. cbn. rewrite Hd. cbn.
      rewrite Hout. reflexivity.
  Qed.

  Lemma uuid_process_cases uuids (out : response) sr : ok_or_err (uuid_process uuids out sr).
  Proof.
    destruct sr as [|routes trees]; cbn; [left; eexists; reflexivity|].
    unfold get_od_vertex_ids, uuid_lookup.
    destruct (r_request out) as [[|[| |o] [| |d]]|]; cbn; try (right; eexists; reflexivity).
    destruct (nth_error uuids o); cbn; [|right; eexists; reflexivity].
    destruct (nth_error uuids d); cbn; [left|right]; eexists; reflexivity.
  Qed.

  (* ---- summary ---- *)
  Lemma summary_process_ok (out : response) (routes : list route) (trees : list tree) :
    summary_process out (SOk routes trees)
    = Ok (set_counts out (List.length (List.concat routes)) (List.length (List.concat trees))).
  Proof. cbn. rewrite !sum_nat_length. reflexivity. Qed.

  (* ---- the chain ---- *)
  Lemma process_cases (p : plugin) (out : response) sr : ok_or_err (process state_ok p out sr).
  Proof.
    destruct p; cbn.
    - apply traversal_process_cases.
    - apply uuid_process_cases.
    - destruct sr; cbn; left; eexists; reflexivity.
  Qed.

  Lemma run_plugins_err (ps : list plugin) sr p :
    In p ps -> (forall out, is_err (process state_ok p out sr)) ->
    forall out, is_err (run_plugins state_ok ps out sr).
  Proof.
    intros Hin Hp. induction ps as [|q rest IH]; [inversion Hin|]. intro out. cbn.
    destruct Hin as [Heq|Hin].
    - subst q. destruct (Hp out) as [c Hc]. rewrite Hc. exists c. reflexivity.
    - destruct (process_cases q out sr) as [[o Ho]|[c Hc]]; rewrite ?Ho, ?Hc.
      + apply IH. exact Hin.
      + exists c. reflexivity.
  Qed.

  Lemma apply_missing_is_error req routes trees (ps : list plugin) g rf tf :
    In (PlTraversal g rf tf) ps ->
    (exists f, rf = Some f /\ geometry_format f = true /\ Exists (route_missing g) routes)
    \/ (exists f, tf = Some f /\ geometry_format f = true /\ Exists (tree_missing g) trees) ->
    is_err (apply_output_processing state_ok req (SOk routes trees) ps).
  Proof.
    intros Hin H. unfold apply_output_processing.
    apply (run_plugins_err ps (SOk routes trees) _ Hin).
    intro out. cbn. apply traversal_process_missing. exact H.
  Qed.

  (* ---- the geometry file ---- *)
  Lemma from_file_ok (rows : list (option linestring)) g :
    traversal_from_file rows = Ok g <-> rows = map Some g.
  Proof.
    unfold traversal_from_file. split.
    - intro H. apply collect_ok_inv in H. induction H as [|row l rows g Hr _ IH]; [reflexivity|].
      destruct row as [s|]; [|discriminate]. inversion Hr. subst. reflexivity.
    - intro H. subst rows. apply collect_ok_intro. induction g as [|l g IH]; cbn; constructor; auto.
  Qed.

  (* ---- the statements Props/C20.v exports ---- *)
  Lemma formats_same_edge_sequence f (r : route) g p :
    generate_route_output f r g = Ok p ->
    path_ids p = (if id_format f then Some (map edge_id r) else None)
    /\ path_records p = (if record_format f then Some r else None)
    /\ path_geometry p
       = (if geometry_format f then Some (flat_map (fun t => stored g (edge_id t)) r) else None)
    /\ path_feature_geoms p
       = (match f with GeoJson => Some (map (fun t => stored g (edge_id t)) r) | _ => None end).
  Proof.
    intro H. apply route_output_iff in H. destruct H as [_ Hp]. subst p. apply route_spec_views.
  Qed.

  Lemma formats_agree f1 f2 (r : route) g p1 p2 :
    generate_route_output f1 r g = Ok p1 -> generate_route_output f2 r g = Ok p2 ->
    (forall a b, path_ids p1 = Some a -> path_ids p2 = Some b -> a = b)
    /\ (forall a b, path_records p1 = Some a -> path_records p2 = Some b -> a = b)
    /\ (forall a b, path_geometry p1 = Some a -> path_geometry p2 = Some b -> a = b).
  Proof.
    intros H1 H2.
    destruct (formats_same_edge_sequence f1 r g p1 H1) as [A1 [B1 [C1 _]]].
    destruct (formats_same_edge_sequence f2 r g p2 H2) as [A2 [B2 [C2 _]]].
    repeat split; intros a b Ha Hb.
    - rewrite A1 in Ha. rewrite A2 in Hb.
      destruct (id_format f1); destruct (id_format f2); congruence.
    - rewrite B1 in Ha. rewrite B2 in Hb.
      destruct (record_format f1); destruct (record_format f2); congruence.
    - rewrite C1 in Ha. rewrite C2 in Hb.
      destruct (geometry_format f1); destruct (geometry_format f2); congruence.
  Qed.

  Lemma tree_one_entry_per_branch f (t : tree) g o :
    generate_tree_output f t g = Ok o ->
    tree_entries o = map (entry_spec f g) (values t)
    /\ List.length (tree_entries o) = List.length t
    /\ map entry_edge (tree_entries o)
       = map (fun b => if id_format f then Some (bedge b) else None) (values t).
  Proof.
    intro H. apply tree_output_iff in H. destruct H as [_ Ho]. subst o.
    rewrite tree_spec_entries. repeat split.
    - unfold values. rewrite !map_length. reflexivity.
    - rewrite map_map. apply map_ext. intro b. apply entry_spec_edge.
  Qed.

  Lemma uuid_response req (routes : list route) (trees : list tree) uuids (out' : response) :
    apply_output_processing state_ok req (SOk routes trees) [PlUuid uuids] = Ok out' ->
    exists o d ou du,
      req = ReqObj (FNat o) (FNat d)
      /\ nth_error uuids o = Some ou /\ nth_error uuids d = Some du
      /\ r_origin_uuid out' = Some ou /\ r_destination_uuid out' = Some du.
  Proof.
    cbn [apply_output_processing run_plugins process]. intro H.
    destruct (uuid_process uuids (initial_output req) (SOk routes trees)) as [o1| | |] eqn:Hu; try discriminate.
    inversion H. subst o1. apply uuid_process_ok in Hu.
    destruct Hu as [o [d [ou [du [Hr [Ho [Hd Hout]]]]]]]. cbn in Hr. inversion Hr.
    exists o, d, ou, du. subst out'. repeat split; assumption || reflexivity.
  Qed.

  Lemma from_file_rows (rows : list (option linestring)) g :
    traversal_from_file rows = Ok g ->
    List.length g = List.length rows
    /\ forall e, nth_error rows e = option_map Some (nth_error g e).
  Proof.
    intro H. apply from_file_ok in H. subst rows. split; [rewrite map_length; reflexivity|].
    intro e. apply nth_error_map.
  Qed.
End Proofs.

(* ---------------------------------------------------------------- a concrete instance, for the
   non-vacuity examples of Props/C20.v: coordinates and numbers are nat *)
Definition ex_geoms : geoms nat := [ [(0,0); (1,0)]; [(1,0); (1,1); (2,1)]; [(2,1); (3,3)] ].
Definition ex_trav (e : nat) : traversal nat := mkT e 0 e [e + 10].
(* visits edge 2, then 0, then 1, then 0 again: not sorted, one edge repeated *)
Definition ex_route : route nat := [ex_trav 2; ex_trav 0; ex_trav 1; ex_trav 0].
Definition ex_tree : tree nat :=
  [(5, mkB 4 (ex_trav 1)); (7, mkB 5 (ex_trav 1)); (4, mkB 9 (ex_trav 0))].
Definition ex_state_ok (s : list nat) : bool := 1 <=? List.length s.
