(* C12 - lemmas about the pipeline model (Model/Pipeline.v): totality of CompassApp::run for
   benign components, the decomposition of the responses into per-query answers, shapes of the
   error responses. *)
From Coq Require Import ZArith String Ascii List Floats Bool Arith Lia Permutation.
From RC Require Import Base.Show Base.Res Base.Json Model.Pipeline.
Import ListNotations.
Import PL.
Local Open Scope list_scope.

(* ------------------------------------------------------------------ generic helpers *)
Definition st3_ok {A} (s : st3 A) : bool := match s with SCrash _ => false | _ => true end.

Lemma crashes_bind {A B} (r : res A) (f : A -> res B) :
  crashes r = false -> (forall a, r = Ok a -> crashes (f a) = false) -> crashes (bind r f) = false.
Proof. intros Hr Hf. destruct r; cbn in *; auto; discriminate. Qed.

Lemma seq_map_total {A B} (f : A -> res B) (l : list A) :
  (forall x, In x l -> crashes (f x) = false) -> crashes (seq_map f l) = false.
Proof.
  induction l as [|x r IH]; intros H; cbn; [reflexivity|].
  pose proof (H x (or_introl eq_refl)) as Hx.
  destruct (f x) eqn:E; cbn in *; try discriminate; try reflexivity.
  assert (Hr : crashes (seq_map f r) = false) by (apply IH; intros y Hy; apply H; right; exact Hy).
  destruct (seq_map f r); cbn in *; try discriminate; reflexivity.
Qed.

Lemma seq_map_ok {A B} (f : A -> res B) (g : A -> B) (l : list A) :
  (forall x, In x l -> f x = Ok (g x)) -> seq_map f l = Ok (map g l).
Proof.
  induction l as [|x r IH]; intros H; cbn; [reflexivity|].
  rewrite (H x (or_introl eq_refl)), IH; [reflexivity|]. intros y Hy. apply H. right. exact Hy.
Qed.

Lemma all_ok_total {B} (rs : list (res B)) :
  (forall r, In r rs -> crashes r = false) -> crashes (all_ok rs) = false.
Proof.
  induction rs as [|r rs IH]; intros H; cbn; [reflexivity|].
  pose proof (H r (or_introl eq_refl)) as Hr.
  destruct r; cbn in *; try discriminate; try reflexivity.
  assert (Hrs : crashes (all_ok rs) = false) by (apply IH; intros y Hy; apply H; right; exact Hy).
  destruct (all_ok rs); cbn in *; try discriminate; reflexivity.
Qed.
Lemma existsb_hang_false {B} (rs : list (res B)) :
  (forall r, In r rs -> crashes r = false) -> existsb is_hang rs = false.
Proof.
  induction rs as [|r rs IH]; intros H; cbn; [reflexivity|].
  pose proof (H r (or_introl eq_refl)) as Hr.
  rewrite IH by (intros y Hy; apply H; right; exact Hy).
  destruct r; cbn in *; try discriminate; reflexivity.
Qed.
Lemma first_panic_none {B} (rs : list (res B)) :
  (forall r, In r rs -> crashes r = false) -> first_panic rs = None.
Proof.
  induction rs as [|r rs IH]; intros H; cbn; [reflexivity|].
  pose proof (H r (or_introl eq_refl)) as Hr.
  destruct r; cbn in *; try discriminate; apply IH; intros y Hy; apply H; right; exact Hy.
Qed.
Lemma par_join_total {B} (rs : list (res B)) :
  (forall r, In r rs -> crashes r = false) -> crashes (par_join rs) = false.
Proof.
  intros H. unfold par_join. rewrite (existsb_hang_false rs H), (first_panic_none rs H).
  apply all_ok_total. exact H.
Qed.
Lemma par_join_ok {B} (l : list B) : par_join (map Ok l) = Ok l.
Proof.
  unfold par_join.
  assert (H1 : existsb is_hang (map (@Ok B) l) = false) by (induction l; cbn; auto).
  assert (H2 : first_panic (map (@Ok B) l) = None) by (induction l; cbn; auto).
  rewrite H1, H2. clear H1 H2. induction l as [|x r IH]; cbn; [reflexivity|]. rewrite IH. reflexivity.
Qed.

(* ------------------------------------------------------------------ chunking *)
Lemma chunks_aux_concat {A} (n : nat) : 1 <= n -> forall fuel (l : list A),
  List.length l <= fuel -> concat (chunks_aux fuel n l) = l.
Proof.
  intros Hn. induction fuel as [|f IH]; intros l Hl.
  - destruct l; cbn in *; [reflexivity|lia].
  - destruct l as [|x r]; [reflexivity|].
    cbn [chunks_aux concat]. rewrite IH.
    + apply firstn_skipn.
    + rewrite skipn_length. cbn [List.length] in *. lia.
Qed.
Lemma chunk_size_pos len par : 1 <= chunk_size len par.
Proof. unfold chunk_size. lia. Qed.
Lemma par_chunks_ok {A} (par : nat) (l : list A) :
  exists chunks, par_chunks (chunk_size (List.length l) par) l = Ok chunks /\ concat chunks = l.
Proof.
  unfold par_chunks. pose proof (chunk_size_pos (List.length l) par) as H.
  destruct (Nat.eqb_spec (chunk_size (List.length l) par) 0) as [E|E]; [lia|].
  eexists. split; [reflexivity|]. apply chunks_aux_concat; [exact H|lia].
Qed.
(* the seeded defect D-EMPTY: without the `.max(1)` the empty batch has chunk size 0 *)
Lemma par_chunks_zero_panics {A} (l : list A) : exists w, par_chunks 0 l = Panic w.
Proof. eexists. reflexivity. Qed.

(* ------------------------------------------------------------------ input stage *)
Section Stage.
  Variable ps : list plugin.
  Hypothesis Hps : forall p, In p ps -> forall q, pbenign (p q) = true.

  Lemma op_each_total p (Hp : forall q, pbenign (p q) = true) qs : st3_ok (op_each p qs) = true.
  Proof.
    induction qs as [|q r IH]; cbn; [reflexivity|].
    pose proof (Hp q) as Hq. destruct (p q); cbn in *; try discriminate; try reflexivity.
    destruct (op_each p r); cbn in *; auto.
  Qed.
  Lemma flatten_in_place_total st : st3_ok (flatten_in_place st) = true.
  Proof. destruct st; cbn; try reflexivity. destruct (forallb _ l); reflexivity. Qed.
  Lemma json_array_op_total p (Hp : forall q, pbenign (p q) = true) st : st3_ok (json_array_op st p) = true.
  Proof.
    destruct st; cbn; try reflexivity.
    pose proof (op_each_total p Hp l) as H. destruct (op_each p l); cbn in *; try discriminate; try reflexivity.
    apply (flatten_in_place_total (JArr a)).
  Qed.
  Lemma json_array_flatten_total st : st3_ok (json_array_flatten st) = true.
  Proof. destruct st; cbn; try reflexivity. destruct (rev _); reflexivity. Qed.
End Stage.

Lemma apply_plugins_total ps (Hps : forall p, In p ps -> forall q, pbenign (p q) = true) st :
  st3_ok (apply_plugins ps st) = true.
Proof.
  revert st. induction ps as [|p r IH]; intros st; cbn; [reflexivity|].
  pose proof (json_array_op_total p (Hps p (or_introl eq_refl)) st) as H.
  destruct (json_array_op st p); cbn in *; try discriminate; try reflexivity.
  apply IH. intros p' Hp'. apply Hps. right. exact Hp'.
Qed.
Lemma apply_input_plugins_total ps (Hps : forall p, In p ps -> forall q, pbenign (p q) = true) q :
  st3_ok (apply_input_plugins ps q) = true.
Proof.
  unfold apply_input_plugins. destruct (negb (is_obj q)); [reflexivity|].
  pose proof (apply_plugins_total ps Hps (JArr [q])) as H.
  destruct (apply_plugins ps (JArr [q])); cbn in *; try discriminate; try reflexivity.
  apply json_array_flatten_total.
Qed.

(* the state threaded through the plugins stays a JSON array *)
Lemma flatten_in_place_arr l s : flatten_in_place (JArr l) = SOk s -> exists l', s = JArr l'.
Proof. cbn. destruct (forallb _ l); intros H; inversion H; eauto. Qed.
Lemma json_array_op_arr p l s : json_array_op (JArr l) p = SOk s -> exists l', s = JArr l'.
Proof.
  cbn. destruct (op_each p l) eqn:E; try discriminate. apply flatten_in_place_arr.
Qed.
Lemma apply_plugins_arr ps : forall l s, apply_plugins ps (JArr l) = SOk s -> exists l', s = JArr l'.
Proof.
  induction ps as [|p r IH]; intros l s; cbn [apply_plugins].
  - intros H. inversion H. eauto.
  - destruct (json_array_op (JArr l) p) eqn:E; try discriminate.
    destruct (json_array_op_arr p l a E) as [l' ->]. apply IH.
Qed.

(* ------------------------------------------------------------------ load balancing *)
Section LB.
Variable wo : wops.
Notation min_idx_from := (min_idx_from wo).
Notation min_bin := (min_bin wo).
Notation balance := (balance wo).
Notation load_balance := (load_balance wo).
Notation weight_estimate := (weight_estimate wo).
Notation weight_ok := (weight_ok wo).
Lemma min_idx_from_lt l : forall i bi b, bi < i -> min_idx_from i bi b l < i + List.length l.
Proof.
  induction l as [|x r IH]; intros i bi b H; cbn; [lia|].
  destruct (w_lt wo x b).
  - specialize (IH (S i) i x). lia.
  - specialize (IH (S i) bi b). lia.
Qed.
Lemma min_bin_lt totals i : min_bin totals = Some i -> i < List.length totals.
Proof.
  destruct totals as [|x r]; cbn; [discriminate|]. intros H. inversion H.
  pose proof (min_idx_from_lt r 1 0 x). lia.
Qed.
Lemma min_bin_some totals : totals <> [] -> exists i, min_bin totals = Some i.
Proof. destruct totals; [congruence|]. cbn. eauto. Qed.
Lemma upd_length {A} (f : A -> A) l : forall i, List.length (upd i f l) = List.length l.
Proof. induction l as [|x r IH]; intros [|i]; cbn; auto. Qed.
Lemma upd_concat_perm (q : json) bins : forall i, i < List.length bins ->
  Permutation (concat (upd i (fun b => b ++ [q]) bins)) (concat bins ++ [q]).
Proof.
  induction bins as [|b r IH]; intros i Hi; cbn in *; [lia|].
  destruct i as [|i]; cbn.
  - rewrite <- !app_assoc. apply Permutation_app_head. apply Permutation_app_comm.
  - rewrite <- app_assoc. apply Permutation_app_head. apply IH. lia.
Qed.

Lemma balance_total qs : forall totals bins, crashes (balance qs totals bins) = false.
Proof.
  induction qs as [|q r IH]; intros totals bins; cbn; [reflexivity|].
  unfold PL.weight_estimate. destruct (jget q "query_weight_estimate"); cbn.
  - destruct (w_of_json wo j); cbn; [|reflexivity]. destruct (min_bin totals); [apply IH|reflexivity].
  - destruct (min_bin totals); [apply IH|reflexivity].
Qed.
Lemma load_balance_total qs par : crashes (load_balance qs par) = false.
Proof. destruct qs; cbn [load_balance]; [reflexivity|apply balance_total]. Qed.

Lemma balance_ok qs : forall totals bins,
  Forall (fun q => weight_ok q = true) qs -> List.length totals = List.length bins -> bins <> [] ->
  exists bins', balance qs totals bins = Ok bins'
             /\ Permutation (concat bins') (concat bins ++ qs)
             /\ List.length bins' = List.length bins.
Proof.
  induction qs as [|q r IH]; intros totals bins Hw Hlen Hne.
  - exists bins. cbn. rewrite app_nil_r. auto.
  - inversion Hw as [|? ? Hq Hr]; subst. cbn [balance].
    unfold PL.weight_ok in Hq. destruct (weight_estimate q) as [w| | |] eqn:Ew; try discriminate.
    destruct (min_bin_some totals) as [i Hi]; [destruct totals, bins; cbn in *; congruence|].
    rewrite Hi. pose proof (min_bin_lt _ _ Hi) as Hlt.
    edestruct (IH (upd i (fun t => w_add wo t match w with Some f => f | None => w_one wo end) totals)
                 (upd i (fun b => b ++ [q]) bins)) as [bins' [Hb [Hp Hl]]]; [exact Hr| | |].
    + rewrite !upd_length. exact Hlen.
    + intros E. apply (f_equal (@List.length _)) in E. rewrite upd_length in E. destruct bins; cbn in *; congruence.
    + exists bins'. split; [exact Hb|]. split.
      * rewrite Hp. rewrite (upd_concat_perm q bins i) by lia. rewrite <- app_assoc. reflexivity.
      * rewrite Hl. apply upd_length.
Qed.
Lemma load_balance_ok qs par : 1 <= par -> Forall (fun q => weight_ok q = true) qs ->
  exists bins, load_balance qs par = Ok bins /\ Permutation (concat bins) qs /\ (qs = [] <-> bins = []).
Proof.
  intros Hp Hw. destruct qs as [|q r].
  - exists []. cbn. repeat split; auto.
  - cbn [load_balance].
    destruct (balance_ok (q :: r) (repeat (w_zero wo) par) (repeat [] par) Hw) as [bins [Hb [Hperm Hl]]].
    + rewrite !repeat_length. reflexivity.
    + destruct par; [lia|]. cbn. congruence.
    + exists bins. split; [exact Hb|]. split.
      * rewrite Hperm. assert (E : concat (repeat (@nil json) par) = []) by (clear; induction par; cbn; auto).
        rewrite E. reflexivity.
      * split; [congruence|]. intros ->. rewrite repeat_length in Hl. cbn in Hl. lia.
Qed.

End LB.

(* ------------------------------------------------------------------ the run *)
Section RunProofs.
  Variable wo : wops.
  Variable R : Type.
  Variable plugins : list plugin.
  Variable search : json -> res R.
  Variable oplugins : list (R -> json -> res json).
  Variable sink : json -> res json.
  Variables (par_app par_run : nat) (persist : bool).

  (* the hypothesis of the totality theorem: every component returns (Ok or Err) *)
  Hypothesis Hplugins : forall p, In p plugins -> forall q, pbenign (p q) = true.
  Hypothesis Hsearch : forall q, crashes (search q) = false.
  Hypothesis Hoplugins : forall op, In op oplugins -> forall r out, crashes (op r out) = false.
  Hypothesis Hsink : forall j, crashes (sink j) = false.

  Notation run := (run wo R plugins search oplugins sink par_app par_run persist).
  Notation input_stage := (input_stage plugins).
  Notation run_single_query := (run_single_query R search oplugins).

  Lemma input_stage_total q : crashes (input_stage q) = false.
  Proof.
    unfold PL.input_stage. pose proof (apply_input_plugins_total plugins Hplugins q) as H.
    destruct (apply_input_plugins plugins q); cbn in *; try discriminate; reflexivity.
  Qed.
  Lemma run_oplugins_total ops (Hops : forall op, In op ops -> In op oplugins) q r out :
    crashes (run_oplugins R ops q r out) = false.
  Proof.
    revert out. induction ops as [|op rest IH]; intros out; cbn; [reflexivity|].
    pose proof (Hoplugins op (Hops op (or_introl eq_refl)) r out) as H.
    destruct (op r out); cbn in *; try discriminate; try reflexivity.
    apply IH. intros o Ho. apply Hops. right. exact Ho.
  Qed.
  Lemma run_single_query_total q : crashes (run_single_query q) = false.
  Proof.
    unfold PL.run_single_query. pose proof (Hsearch q) as H.
    destruct (search q); cbn in *; try discriminate; try reflexivity.
    apply run_oplugins_total. auto.
  Qed.
  Lemma step_total q :
    crashes (match run_single_query q with Ok resp => sink resp | Err c => Err c | Panic w => Panic w | OutOfFuel => OutOfFuel end) = false.
  Proof.
    pose proof (run_single_query_total q) as H.
    destruct (run_single_query q); cbn in *; try discriminate; try reflexivity. apply Hsink.
  Qed.
  Lemma run_bin_total qs : crashes (run_bin R search oplugins sink qs) = false.
  Proof. unfold run_bin. apply seq_map_total. intros q _. apply step_total. Qed.
  Lemma run_bin_discard_total qs : crashes (run_bin_discard R search oplugins sink qs) = false.
  Proof.
    induction qs as [|q r IH]; cbn [run_bin_discard]; [reflexivity|].
    pose proof (step_total q) as H.
    destruct (match run_single_query q with Ok resp => sink resp | Err c => Err c | Panic w => Panic w | OutOfFuel => OutOfFuel end);
      cbn in *; try discriminate; exact IH.
  Qed.

  (* pipeline_total: for every batch the call returns: never Panic, never OutOfFuel *)
  Lemma run_total queries : crashes (run queries) = false.
  Proof.
    unfold PL.run.
    destruct (par_chunks_ok par_app queries) as [chunks [Hc _]]. rewrite Hc. cbn [bind].
    apply crashes_bind.
    { apply par_join_total. intros r Hr. apply in_map_iff in Hr. destruct Hr as [c [<- _]].
      apply seq_map_total. intros q _. apply input_stage_total. }
    intros staged _. apply crashes_bind; [apply load_balance_total|].
    intros bins _. apply crashes_bind; [apply seq_map_total; intros j _; apply Hsink|].
    intros errors _. destruct bins as [|b bs]; [reflexivity|].
    apply crashes_bind; [|reflexivity].
    apply par_join_total. intros r Hr. apply in_map_iff in Hr. destruct Hr as [c [<- _]].
    destruct persist; [apply run_bin_total|apply run_bin_discard_total].
  Qed.
  Lemma run_user_total user : crashes (run_user wo R plugins search oplugins sink par_app par_run persist user) = false.
  Proof.
    unfold run_user. apply crashes_bind.
    - unfold get_queries. destruct user; try reflexivity. destruct (oget m "queries") as [[]|]; reflexivity.
    - intros qs _. apply run_total.
  Qed.
End RunProofs.
