(* C12 - the responses of CompassApp::run decompose into per-query answers (hence: one response per
   expanded query, every response carries its request, an error is local to its query); the shapes
   of input-stage error responses; the concrete components never panic; Yen's algorithm does. *)
From Coq Require Import ZArith String Ascii List Floats Bool Arith Lia Permutation.
From RC Require Import Base.Show Base.Res Base.Json Model.Pipeline Proofs.Pipeline.
Import ListNotations.
Import PL.
Local Open Scope list_scope.

Lemma filter_split_length {A} (f : A -> bool) (l : list A) :
  List.length (filter f l) + List.length (filter (fun x => negb (f x)) l) = List.length l.
Proof. induction l as [|x r IH]; cbn; [reflexivity|]. destruct (f x); cbn; lia. Qed.

Lemma package_error_request q c : jget (package_error q c) "request" = Some q.
Proof. reflexivity. Qed.

(* every error response of the input stage is a packaged error *)
Lemma op_each_err p qs e : op_each p qs = SErr e -> exists x c, e = package_error x c.
Proof.
  induction qs as [|q r IH]; cbn; [discriminate|].
  destruct (p q); try discriminate.
  - destruct (op_each p r); try discriminate. intros H. inversion H; subst. apply IH. reflexivity.
  - intros H. inversion H. eauto.
Qed.
Lemma json_array_op_err st p e : json_array_op st p = SErr e -> exists x c, e = package_error x c.
Proof.
  destruct st; cbn; try (intros H; inversion H; unfold invariant_error; eauto; fail).
  destruct (op_each p l) eqn:E; try discriminate.
  - destruct (forallb _ a); discriminate.
  - intros H. inversion H; subst. eapply op_each_err. exact E.
Qed.
Lemma apply_input_plugins_err ps q e : apply_input_plugins ps q = SErr e -> exists x c, e = package_error x c.
Proof.
  unfold apply_input_plugins. destruct (negb (is_obj q)); [intros H; inversion H; eauto|].
  generalize (JArr [q]). induction ps as [|p r IH]; intros st; cbn [apply_plugins].
  - destruct st; cbn; try (intros H; inversion H; unfold invariant_error; eauto; fail).
    destruct (rev _); [discriminate|]. intros H. inversion H. unfold invariant_error. eauto.
  - destruct (json_array_op st p) eqn:E.
    + apply IH.
    + intros H. inversion H; subst. eapply json_array_op_err. exact E.
    + discriminate.
Qed.

Section Answers.
  Variable wo : wops.
  Variable R : Type.
  Variable plugins : list plugin.
  Variable search : json -> res R.
  Variable oplugins : list (R -> json -> res json).
  Variable sink : json -> res json.
  Variables (par_app par_run : nat).

  Hypothesis Hplugins : forall p, In p plugins -> forall q, pbenign (p q) = true.
  Hypothesis Hsearch : forall q, crashes (search q) = false.
  Hypothesis Hoplugins : forall op, In op oplugins -> forall r out, crashes (op r out) = false.
  (* output plugins add their own fields: the request stays *)
  Hypothesis Hkeep : forall op, In op oplugins -> forall r out out',
      op r out = Ok out' -> jget out' "request" = jget out "request".
  (* the response sink accepts every response (e.g. ResponseSink::None) and keeps the request *)
  Hypothesis Hsink : forall j, exists j', sink j = Ok j' /\ jget j' "request" = jget j "request".
  Hypothesis Hpar : 1 <= par_run.

  Notation run := (run wo R plugins search oplugins sink par_app par_run true).
  Notation weight_ok := (weight_ok wo).
  Notation run_single_query := (run_single_query R search oplugins).

  (* the answer to one processed query / to one query of the batch, in isolation *)
  Definition answer1 (q : json) : json :=
    match run_single_query q with
    | Ok r => match sink r with Ok r' => r' | _ => JNull end
    | _ => JNull
    end.
  (* what the sink leaves of a response *)
  Definition snk (j : json) : json := match sink j with Ok j' => j' | _ => JNull end.
  Definition werr (q : json) : json := snk (weight_error q).
  Definition per_staged (s : list json + json) : list json :=
    match s with
    | inl qs => map answer1 (filter weight_ok qs) ++ map werr (filter (fun q => negb (weight_ok q)) qs)
    | inr e => [snk e]
    end.
  Definition stage_pure (q : json) : list json + json :=
    match apply_input_plugins plugins q with
    | SOk qs => inl qs
    | SErr e => inr e
    | SCrash _ => inr JNull
    end.
  Definition per_query (q : json) : list json := per_staged (stage_pure q).
  (* number of queries a batch element expands to (a failed element counts once) *)
  Definition stage_count (q : json) : nat :=
    match apply_input_plugins plugins q with SOk qs => List.length qs | _ => 1 end.

  Lemma input_stage_pure q : input_stage plugins q = Ok (stage_pure q).
  Proof.
    unfold input_stage, stage_pure. pose proof (apply_input_plugins_total plugins Hplugins q) as H.
    destruct (apply_input_plugins plugins q); cbn in *; try discriminate; reflexivity.
  Qed.

  Lemma run_oplugins_request ops (Hops : forall op, In op ops -> In op oplugins) q r : forall out,
    jget out "request" = Some q ->
    exists resp, run_oplugins R ops q r out = Ok resp /\ jget resp "request" = Some q.
  Proof.
    induction ops as [|op rest IH]; intros out Hout; cbn [run_oplugins]; [eauto|].
    assert (Hin : In op oplugins) by (apply Hops; left; reflexivity).
    pose proof (Hoplugins op Hin r out) as Hc. pose proof (Hkeep op Hin r out) as Hk.
    destruct (op r out) as [out'| c | |]; cbn in Hc; try discriminate.
    - apply IH; [intros o Ho; apply Hops; right; exact Ho|]. rewrite (Hk out' eq_refl). exact Hout.
    - eexists. split; [reflexivity|]. apply package_error_request.
  Qed.
  Lemma run_single_query_request q :
    exists resp, run_single_query q = Ok resp /\ jget resp "request" = Some q.
  Proof.
    unfold PL.run_single_query. pose proof (Hsearch q) as Hc.
    destruct (search q) as [r | c | |]; cbn in Hc; try discriminate.
    - apply run_oplugins_request; [auto|reflexivity].
    - eexists. split; [reflexivity|]. apply package_error_request.
  Qed.
  Lemma step_answer q :
    (match run_single_query q with Ok resp => sink resp | Err c => Err c | Panic w => Panic w | OutOfFuel => OutOfFuel end)
    = Ok (answer1 q) /\ jget (answer1 q) "request" = Some q.
  Proof.
    unfold answer1. destruct (run_single_query_request q) as [resp [-> Hreq]].
    destruct (Hsink resp) as [r' [-> Hr']]. split; [reflexivity|]. rewrite Hr'. exact Hreq.
  Qed.
  Lemma run_bin_answers qs : run_bin R search oplugins sink qs = Ok (map answer1 qs).
  Proof. unfold run_bin. apply seq_map_ok. intros q _. apply step_answer. Qed.

  Lemma sink_snk j : sink j = Ok (snk j) /\ jget (snk j) "request" = jget j "request".
  Proof. unfold snk. destruct (Hsink j) as [j' [-> H]]. auto. Qed.
  Lemma staged_perm (st : list (list json + json)) :
    Permutation (map answer1 (filter weight_ok (concat (lefts st)))
                 ++ map snk (rights st)
                 ++ map werr (filter (fun q => negb (weight_ok q)) (concat (lefts st))))
                (flat_map per_staged st).
  Proof.
    induction st as [|s st IH]; [reflexivity|].
    destruct s as [qs | e].
    - change (lefts (inl qs :: st)) with (qs :: lefts st).
      change (rights (@inl (list json) json qs :: st)) with (rights st).
      cbn [concat flat_map per_staged]. rewrite !filter_app, !map_app, <- !app_assoc.
      apply Permutation_app_head. rewrite <- IH.
      set (A := map answer1 (filter weight_ok (concat (lefts st)))).
      set (Rr := map snk (rights st)).
      set (W1 := map werr (filter (fun q => negb (weight_ok q)) qs)).
      set (W := map werr (filter (fun q => negb (weight_ok q)) (concat (lefts st)))).
      rewrite (app_assoc A Rr (W1 ++ W)), (app_assoc A Rr W). apply Permutation_app_swap_app.
    - change (lefts (@inr (list json) json e :: st)) with (lefts st).
      change (rights (@inr (list json) json e :: st)) with (e :: rights st).
      cbn [flat_map per_staged app map]. rewrite <- IH. symmetry. apply Permutation_middle.
  Qed.

  (* the main structural fact: the call returns, and its responses are, up to order, the answers
     every query of the batch gets on its own *)
  Lemma run_decomposes queries :
    exists resps, run queries = Ok resps /\ Permutation resps (flat_map per_query queries).
  Proof.
    unfold PL.run.
    destruct (par_chunks_ok par_app queries) as [chunks [Hc Hcat]]. rewrite Hc. cbn [bind].
    assert (Hjoin : par_join (map (seq_map (input_stage plugins)) chunks) = Ok (map (map stage_pure) chunks)).
    { rewrite (map_ext (seq_map (input_stage plugins)) (fun c => Ok (map stage_pure c))).
      - rewrite <- (map_map (map stage_pure) (@Ok _)). apply par_join_ok.
      - intros c. apply seq_map_ok. intros q _. apply input_stage_pure. }
    rewrite Hjoin. cbn [bind]. rewrite <- concat_map, Hcat.
    set (staged := map stage_pure queries).
    set (good := filter weight_ok (concat (lefts staged))).
    set (bad := filter (fun q => negb (weight_ok q)) (concat (lefts staged))).
    destruct (load_balance_ok wo good par_run Hpar) as [bins [Hb [Hperm Hnil]]].
    { apply Forall_forall. intros q Hq. apply filter_In in Hq. apply Hq. }
    rewrite Hb. cbn [bind].
    rewrite (seq_map_ok sink snk) by (intros j _; apply sink_snk). cbn [bind].
    rewrite map_app, map_map. fold werr.
    assert (Hfinal : Permutation (map answer1 good ++ map snk (rights staged) ++ map werr bad) (flat_map per_query queries)).
    { unfold good, bad. rewrite staged_perm. unfold staged. rewrite flat_map_concat_map, map_map, <- flat_map_concat_map. reflexivity. }
    destruct bins as [|b bs].
    - eexists. split; [reflexivity|]. rewrite <- Hfinal.
      assert (Hg : good = []) by (apply Hnil; reflexivity). rewrite Hg. reflexivity.
    - rewrite (map_ext (run_bin R search oplugins sink) (fun c => Ok (map answer1 c))) by (intros; apply run_bin_answers).
      rewrite <- (map_map (map answer1) (@Ok _)), par_join_ok. cbn [bind].
      eexists. split; [reflexivity|]. rewrite <- Hfinal, <- concat_map.
      apply Permutation_app_tail. apply Permutation_map. exact Hperm.
  Qed.

  Lemma per_query_length q : List.length (per_query q) = stage_count q.
  Proof.
    unfold per_query, stage_pure, stage_count.
    destruct (apply_input_plugins plugins q); cbn [per_staged List.length]; try reflexivity.
    rewrite app_length, !map_length. apply filter_split_length.
  Qed.
  Lemma per_query_has_request q r : In r (per_query q) -> exists x, jget r "request" = Some x.
  Proof.
    unfold per_query, stage_pure. pose proof (apply_input_plugins_total plugins Hplugins q) as Ht.
    destruct (apply_input_plugins plugins q) eqn:E; cbn [per_staged] in *; try discriminate.
    - intros H. apply in_app_or in H. destruct H as [H|H]; apply in_map_iff in H; destruct H as [x [<- _]].
      + exists x. apply step_answer.
      + exists x. unfold werr. rewrite (proj2 (sink_snk _)). reflexivity.
    - intros [<-|[]]. destruct (apply_input_plugins_err _ _ _ E) as [x [c ->]]. exists x.
      rewrite (proj2 (sink_snk _)). reflexivity.
  Qed.

  (* every_query_answered *)
  Lemma run_answers_every_query queries :
    exists resps, run queries = Ok resps
      /\ List.length resps = list_sum (map stage_count queries)
      /\ (forall r, In r resps -> exists x, jget r "request" = Some x)
      /\ (forall q qs q', In q queries -> apply_input_plugins plugins q = SOk qs -> In q' qs ->
            exists r, In r resps /\ jget r "request" = Some q'
                      /\ (weight_ok q' = false -> r = werr q')).
  Proof.
    destruct (run_decomposes queries) as [resps [Hrun Hperm]]. exists resps. split; [exact Hrun|].
    split; [|split].
    - rewrite (Permutation_length Hperm). clear. induction queries as [|q r IH]; cbn; [reflexivity|].
      rewrite app_length, per_query_length, IH. reflexivity.
    - intros r Hr. apply (Permutation_in _ Hperm) in Hr. apply in_flat_map in Hr. destruct Hr as [q [_ Hq]].
      eapply per_query_has_request. exact Hq.
    - intros q qs q' Hq Hqs Hq'.
      assert (Hin : forall r, In r (per_query q) -> In r resps).
      { intros r Hr. apply (Permutation_in _ (Permutation_sym Hperm)). apply in_flat_map. eauto. }
      unfold per_query, stage_pure in Hin. rewrite Hqs in Hin. cbn [per_staged] in Hin.
      destruct (weight_ok q') eqn:Ew.
      + exists (answer1 q'). split; [|split; [apply step_answer|discriminate]].
        apply Hin. apply in_or_app. left. apply in_map. apply filter_In. auto.
      + exists (werr q'). split; [|split; [unfold werr; rewrite (proj2 (sink_snk _)); reflexivity|reflexivity]].
        apply Hin. apply in_or_app. right. apply in_map. apply filter_In. rewrite Ew. auto.
  Qed.

  (* error_is_local: replacing one query of the batch (by one that fails, say) changes only that
     query's own responses *)
  Lemma run_error_is_local qs1 q q' qs2 :
    exists resps resps' rest,
      run (qs1 ++ q :: qs2) = Ok resps /\ run (qs1 ++ q' :: qs2) = Ok resps'
      /\ Permutation resps (per_query q ++ rest) /\ Permutation resps' (per_query q' ++ rest).
  Proof.
    destruct (run_decomposes (qs1 ++ q :: qs2)) as [resps [H1 P1]].
    destruct (run_decomposes (qs1 ++ q' :: qs2)) as [resps' [H2 P2]].
    exists resps, resps', (flat_map per_query qs1 ++ flat_map per_query qs2).
    repeat split; try assumption.
    - rewrite P1, flat_map_app. cbn [flat_map]. apply Permutation_app_swap_app.
    - rewrite P2, flat_map_app. cbn [flat_map]. apply Permutation_app_swap_app.
  Qed.
End Answers.

(* ------------------------------------------------------------------ what an input-stage error echoes *)
(* plugins that keep the documented invariant: an object becomes an object or an array of objects *)
Definition shape_ok (j : json) : bool :=
  match j with JObj _ => true | JArr l => forallb is_obj l | _ => false end.
Definition keeps_shape (p : plugin) : Prop :=
  forall q q', is_obj q = true -> p q = PDone q' -> shape_ok q' = true.

Lemma flatten1_objs l : forallb shape_ok l = true -> forallb is_obj (flatten1 l) = true.
Proof.
  unfold flatten1. induction l as [|x r IH]; cbn [flat_map forallb]; [reflexivity|]. intros H. apply andb_prop in H. destruct H as [Hx Hr].
  rewrite forallb_app, (IH Hr), andb_true_r. destruct x; cbn in *; try discriminate; auto.
Qed.
Lemma no_arr_objs l : forallb shape_ok l = true -> forallb (fun v => negb (is_arr v)) l = true -> forallb is_obj l = true.
Proof.
  induction l as [|x r IH]; cbn; [reflexivity|]. intros H1 H2.
  apply andb_prop in H1. destruct H1 as [Hx Hr]. apply andb_prop in H2. destruct H2 as [Hx2 Hr2].
  rewrite (IH Hr Hr2), andb_true_r. destruct x; cbn in *; try discriminate; reflexivity.
Qed.
Lemma op_each_shape p (Hp : keeps_shape p) qs : forallb is_obj qs = true ->
  match op_each p qs with
  | SOk qs' => forallb shape_ok qs' = true
  | SErr e => exists q0 q' c, In q0 qs /\ is_obj q0 = true /\ p q0 = PFail q' c /\ e = package_error q' c
  | SCrash _ => True
  end.
Proof.
  induction qs as [|q r IH]; cbn; [reflexivity|]. intros H. apply andb_prop in H. destruct H as [Hq Hr].
  destruct (p q) eqn:E; auto.
  - specialize (IH Hr). destruct (op_each p r); auto.
    + cbn. rewrite IH, (Hp q q' Hq E). reflexivity.
    + destruct IH as [q0 [q1 [c [Hin [Ho [Hf He]]]]]]. exists q0, q1, c. auto.
  - exists q, q', cls. auto.
Qed.
Lemma json_array_op_shape p (Hp : keeps_shape p) l : forallb is_obj l = true ->
  match json_array_op (JArr l) p with
  | SOk st => exists l', st = JArr l' /\ forallb is_obj l' = true
  | SErr e => exists q0 q' c, is_obj q0 = true /\ p q0 = PFail q' c /\ e = package_error q' c
  | SCrash _ => True
  end.
Proof.
  intros H. cbn. pose proof (op_each_shape p Hp l H) as Ho. destruct (op_each p l) as [qs'|e|c]; auto.
  - destruct (forallb (fun v => negb (is_arr v)) qs') eqn:En.
    + exists qs'. split; [reflexivity|]. apply no_arr_objs; assumption.
    + exists (flatten1 qs'). split; [reflexivity|]. apply flatten1_objs. exact Ho.
  - destruct Ho as [q0 [q' [c [_ H']]]]. exists q0, q', c. exact H'.
Qed.
Lemma apply_plugins_shape ps (Hps : forall p, In p ps -> keeps_shape p) : forall l, forallb is_obj l = true ->
  match apply_plugins ps (JArr l) with
  | SOk st => exists l', st = JArr l' /\ forallb is_obj l' = true
  | SErr e => exists p q0 q' c, In p ps /\ is_obj q0 = true /\ p q0 = PFail q' c /\ e = package_error q' c
  | SCrash _ => True
  end.
Proof.
  induction ps as [|p r IH]; intros l H; cbn [apply_plugins]; [eauto|].
  pose proof (json_array_op_shape p (Hps p (or_introl eq_refl)) l H) as Ho.
  destruct (json_array_op (JArr l) p) as [st|e|c]; auto.
  - destruct Ho as [l' [-> Hl']]. specialize (IH (fun p' Hp' => Hps p' (or_intror Hp')) l' Hl').
    destruct (apply_plugins r (JArr l')); auto.
    destruct IH as [p' [q0 [q' [c [Hin H']]]]]. exists p', q0, q', c. split; [right; exact Hin|exact H'].
  - destruct Ho as [q0 [q' [c H']]]. exists p, q0, q', c. split; [left; reflexivity|exact H'].
Qed.
(* an OBJECT query that fails in the input stage is answered with the query value the failing
   plugin left behind: the request is echoed *)
Lemma object_query_error_echoes ps (Hps : forall p, In p ps -> keeps_shape p) q e :
  is_obj q = true -> apply_input_plugins ps q = SErr e ->
  exists p q0 q' c, In p ps /\ is_obj q0 = true /\ p q0 = PFail q' c /\ e = package_error q' c.
Proof.
  intros Hq. unfold apply_input_plugins. rewrite Hq. cbn [negb].
  pose proof (apply_plugins_shape ps Hps [q]) as H. cbn [forallb] in H. rewrite Hq in H. specialize (H eq_refl).
  destruct (apply_plugins ps (JArr [q])) as [st|e'|c].
  - destruct H as [l' [-> Hl']]. cbn.
    assert (E : filter (fun v => negb (is_obj v)) l' = []).
    { clear -Hl'. induction l' as [|x r IH]; cbn in *; [reflexivity|]. apply andb_prop in Hl'. destruct Hl' as [Hx Hr].
      rewrite Hx. cbn. auto. }
    rewrite E. discriminate.
  - intros E. inversion E; subst. exact H.
  - discriminate.
Qed.
(* a query that is not an object (null, number, string, bool, ARRAY) is answered with an error
   response whose request is that query, under every plugin configuration *)
Lemma nonobject_query_echoed ps q : is_obj q = false ->
  exists c, apply_input_plugins ps q = SErr (package_error q c).
Proof. intros H. unfold apply_input_plugins. rewrite H. eexists. reflexivity. Qed.

(* ------------------------------------------------------------------ the concrete components *)
Lemma inject_benign k v o q : pbenign (inject k v o q) = true.
Proof. unfold inject. destruct q; try reflexivity. destruct (negb o && _); reflexivity. Qed.
Lemma inject_keeps_shape k v o : keeps_shape (inject k v o).
Proof.
  intros q q' _. unfold inject. destruct q; try discriminate.
  destruct (negb o && _); [discriminate|]. intros H. inversion H. reflexivity.
Qed.
Lemma lb_numeric_benign wo c q : pbenign (lb_numeric wo c q) = true.
Proof.
  unfold lb_numeric. destruct (jget q _); [|reflexivity]. destruct (w_of_json wo j); [|reflexivity].
  destruct q; reflexivity.
Qed.
Lemma lb_numeric_keeps_shape wo c : keeps_shape (lb_numeric wo c).
Proof.
  intros q q' _. unfold lb_numeric. destruct (jget q _); [|discriminate]. destruct (w_of_json wo j); [|discriminate].
  destruct q; try discriminate. intros H. inversion H. reflexivity.
Qed.
Lemma grid_search_benign q : pbenign (grid_search q) = true.
Proof.
  unfold grid_search. destruct (jget q "grid_search") as [s|]; [|reflexivity].
  destruct (mentions "grid_search" s); [reflexivity|].
  destruct s; try reflexivity. destruct q; try reflexivity.
  destruct (map _ (combos _)); reflexivity.
Qed.
Lemma grid_search_keeps_shape : keeps_shape grid_search.
Proof.
  intros q q' Hq. unfold grid_search. destruct (jget q "grid_search") as [s|].
  - destruct (mentions "grid_search" s); [discriminate|].
    destruct s; try discriminate. destruct q; try discriminate.
    destruct (map _ (combos _)) eqn:E; [discriminate|]. intros H. inversion H. subst q'.
    cbn [shape_ok]. rewrite <- E. clear. induction (combos _) as [|c r IH]; cbn; auto.
  - intros H. inversion H. subst. destruct q'; cbn in *; try discriminate. reflexivity.
Qed.
Lemma weight_estimate_total wo q : crashes (weight_estimate wo q) = false.
Proof. unfold weight_estimate. destruct (jget q _); [|reflexivity]. destruct (w_of_json wo j); reflexivity. Qed.
Lemma get_queries_total user : crashes (get_queries user) = false.
Proof. destruct user; try reflexivity. cbn. destruct (oget m "queries") as [[]|]; reflexivity. Qed.

(* grid-search on the degenerate sections, as the current code handles them *)
Lemma grid_search_degenerate :
  let q s := JObj [("origin_vertex", JInt 0); ("grid_search", s)] in
  grid_search (q (JObj [])) = PDone (JArr [JObj [("origin_vertex", JInt 0)]])          (* one combination *)
  /\ (exists c, grid_search (q (JObj [("a", JArr [])])) = PFail (q (JObj [("a", JArr [])])) c)
  /\ (exists c, grid_search (q (JObj [("a", JArr [JInt 1]); ("b", JArr [])])) = PFail (q (JObj [("a", JArr [JInt 1]); ("b", JArr [])])) c)
  /\ grid_search (q (JObj [("a", JInt 5)])) = PDone (JArr [JObj [("origin_vertex", JInt 0)]])
  /\ (exists c, grid_search (q (JInt 5)) = PFail (q (JInt 5)) c)
  /\ (exists c, grid_search (q (JObj [("a", JArr [JObj [("grid_search", JObj [])]])])) = PFail (q (JObj [("a", JArr [JObj [("grid_search", JObj [])]])])) c)
  /\ grid_search (JInt 5) = PDone (JInt 5).
Proof. cbv zeta. repeat split; try reflexivity; eexists; reflexivity. Qed.

(* ------------------------------------------------------------------ the search entry and Yen's algorithm *)
Section EntryProofs.
  Variable alg : algorithm.
  Variable shortest : json -> res (list route).
  Variable spur : json -> list route -> option route -> route -> nat -> res (option route).
  Hypothesis Hshortest : forall q, crashes (shortest q) = false.

  (* outside the class K the search entry returns, with fuel 1 *)
  Lemma search_entry_total q fuel : 1 <= fuel -> K_yens_k_ge_2 alg q = false ->
    crashes (search_entry alg shortest spur fuel q) = false.
  Proof.
    intros Hf HK. unfold search_entry, K_yens_k_ge_2 in *. destruct alg as [| | k0 | k0]; try apply Hshortest.
    assert (Hk : (exists k, effective_k k0 q = Ok k) \/ (exists c, effective_k k0 q = Err c)).
    { unfold effective_k. destruct (jget q "k") as [v|]; [destruct (as_u64 v)|]; eauto. }
    destruct Hk as [[k Hk]|[c Hk]]; rewrite Hk in *; cbn [bind]; [|reflexivity].
    pose proof (Hshortest q) as Hs. unfold yens_run.
    destruct (shortest q) as [[|p rest]| | |]; cbn in Hs; try discriminate; try reflexivity.
    destruct fuel as [|f]; [lia|]. cbn [yens_while List.length].
    apply Z.leb_gt in HK. destruct (Z.leb_spec k (Z.of_nat 1)); [reflexivity|lia].
  Qed.
End EntryProofs.

(* inside K: a one-edge shortest route panics (overflow-checks build) ... *)
Lemma yens_one_edge_panics spur fuel : exists w,
  search_entry (Yens 2) (fun _ => Ok [[7]]) spur (S fuel) (JObj []) = Panic w.
Proof. eexists. reflexivity. Qed.
(* ... and a two-edge shortest route never returns: no fuel is enough *)
Lemma yens_two_edges_diverges spur fuel :
  search_entry (Yens 2) (fun _ => Ok [[7; 8]]) spur fuel (JObj []) = OutOfFuel.
Proof.
  unfold search_entry. cbn [effective_k jget oget bind yens_run].
  induction fuel as [|f IH]; [reflexivity|]. cbn [yens_while]. cbn. exact IH.
Qed.
(* the query's own k puts a configured k = 1 into the class *)
Lemma yens_k_from_query spur fuel : exists w,
  K_yens_k_ge_2 (Yens 1) (JObj [("k", JInt 2)]) = true
  /\ search_entry (Yens 1) (fun _ => Ok [[7]]) spur (S fuel) (JObj [("k", JInt 2)]) = Panic w.
Proof. eexists. split; reflexivity. Qed.

(* ------------------------------------------------------------------ the concrete plugins as a class *)
Inductive concrete (wo : wops) : plugin -> Prop :=
| C_inject k v o : concrete wo (inject k v o)
| C_lb_numeric c : concrete wo (lb_numeric wo c)
| C_grid_search : concrete wo grid_search.
Lemma concrete_benign wo p : concrete wo p -> forall q, pbenign (p q) = true.
Proof. intros [k v o|c|] q; [apply inject_benign|apply lb_numeric_benign|apply grid_search_benign]. Qed.
Lemma concrete_keeps_shape wo p : concrete wo p -> keeps_shape p.
Proof. intros [k v o|c|]; [apply inject_keeps_shape|apply lb_numeric_keeps_shape|apply grid_search_keeps_shape]. Qed.

(* an exact instance of the weight interface (integer weights) for the concrete examples *)
Definition zw : wops :=
  {| wt := Z; w_zero := 0%Z; w_one := 1%Z; w_add := Z.add; w_lt := Z.ltb;
     w_of_json := fun j => match j with JInt z => Some z | _ => None end; w_to_json := JInt |}.

(* a small concrete instance used for non-vacuity and for the K witness at pipeline level *)
Definition ex_plugins : list plugin :=
  [grid_search; inject "injected" (JBool true) true; lb_numeric zw (Some "w")].
Definition ex_search : json -> res unit := fun q =>
  match jget q "origin_vertex" with Some (JInt _) => Ok tt | _ => Err "MissingExpectedQueryField" end.
Definition ex_batch : list json :=
  [ JObj [("origin_vertex", JInt 0); ("w", JInt 2); ("grid_search", JObj [("m", JArr [JStr "a"; JStr "b"]); ("n", JArr [JInt 1; JInt 2])])];
    JInt 5;
    JObj [("w", JInt 1)];
    JObj [("origin_vertex", JInt 3); ("w", JStr "heavy")];
    JObj [("origin_vertex", JInt 4); ("w", JInt 1); ("grid_search", JObj [("m", JArr [])])] ].
Lemma ex_plugins_concrete : forall p, In p ex_plugins -> concrete zw p.
Proof. intros p [<-|[<-|[<-|[]]]]; constructor. Qed.
Lemma ex_search_total q : crashes (ex_search q) = false.
Proof. unfold ex_search. destruct (jget q "origin_vertex") as [[]|]; reflexivity. Qed.
(* 4 expansions of the first query + one error response for each of the other four *)
Lemma ex_run_counts :
  exists rs, run zw unit ex_plugins ex_search [] (fun j => Ok j) 2 3 true ex_batch = Ok rs /\ List.length rs = 8.
Proof. eexists. split; [vm_compute; reflexivity|reflexivity]. Qed.

Definition yens_as_search (first : list route) (fuel : nat) : json -> res unit := fun q =>
  match search_entry (Yens 2) (fun _ => Ok first) (fun _ _ _ _ _ => Ok None) fuel q with
  | Ok _ => Ok tt | Err c => Err c | Panic w => Panic w | OutOfFuel => OutOfFuel
  end.
Lemma pipeline_yens_panics : exists w,
  run zw unit [] (yens_as_search [[0]] 8) [] (fun j => Ok j) 2 2 true
      [JObj [("origin_vertex", JInt 0); ("destination_vertex", JInt 1)]] = Panic w.
Proof. eexists. vm_compute. reflexivity. Qed.
Lemma yens_as_search_diverges fuel q : jget q "k" = None -> yens_as_search [[0; 1]] fuel q = OutOfFuel.
Proof.
  intros Hk. unfold yens_as_search, search_entry, effective_k. rewrite Hk. cbn [bind yens_run Z.of_nat].
  induction fuel as [|f IH]; [reflexivity|]. cbn [yens_while]. cbn. exact IH.
Qed.
Lemma run_single_hang wo (s : json -> res unit) q : is_obj q = true -> jget q "query_weight_estimate" = None ->
  s q = OutOfFuel -> run wo unit [] s [] (fun j => Ok j) 2 2 true [q] = OutOfFuel.
Proof.
  intros Ho Hw Hs. unfold run. cbn [List.length chunk_size Nat.eqb ceil_div Nat.add Nat.sub Nat.div Nat.divmod fst Nat.max par_chunks chunks_aux firstn skipn bind map seq_map].
  unfold input_stage, apply_input_plugins. cbn [apply_plugins json_array_flatten filter]. rewrite Ho.
  cbn [negb rev app par_join existsb is_hang orb first_panic all_ok bind concat lefts rights flat_map app filter].
  unfold weight_ok, weight_estimate. rewrite Hw. cbn [filter negb map app seq_map bind load_balance balance].
  unfold weight_estimate. rewrite Hw. cbn [min_bin repeat min_idx_from].
  destruct (w_lt wo (w_zero wo) (w_zero wo)); cbn [bind upd app map]; unfold run_bin, run_single_query; cbn [seq_map];
    rewrite Hs; reflexivity.
Qed.
Lemma pipeline_yens_diverges wo fuel :
  run wo unit [] (yens_as_search [[0; 1]] fuel) [] (fun j => Ok j) 2 2 true
      [JObj [("origin_vertex", JInt 0); ("destination_vertex", JInt 2)]] = OutOfFuel.
Proof. apply run_single_hang; try reflexivity. apply yens_as_search_diverges. reflexivity. Qed.
