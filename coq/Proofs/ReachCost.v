(* C05, the part that needs the cost order: destination-less searches.
   Hypotheses on the costs (they hold for Q with non-negative edge costs and for NaN-free binary64):
     le a b := clt b a = false  is a total preorder   (Hasym, Hletrans)
     label + edge cost >= label                        (Hinfl)
   and, for the least-cost statement only, edge-local costs (ecost) and monotone addition (Hmono).
     source_never_relabelled   the source keeps label czero and never enters the tree
     tree_is_reachable_set     dom tree = {v | reachable from source} \ {source}
     tree_labels_least         every label of an exhausted search is the least cost of a permitted walk *)
From Coq Require Import List Arith Bool String Lia.
From stdpp Require Import gmap.
From RC Require Import Base.Res Model.Search Model.Reach Proofs.ReachSet Proofs.ReachInv Proofs.ReachMain.
Import ListNotations.

Module ReachCostP.
Import Search Reach ReachSetP ReachInvP ReachMainP.

Section Cost.
  Context {C St : Type}.
  Variable clt : C -> C -> bool.
  Variable cadd : C -> C -> C.
  Variable czero : C.
  Variable cfloor : C -> C.
  Variable g : graph.
  Variable frontier : nat -> St -> option nat -> res bool.
  Variable traverse : dir -> nat -> option nat -> St -> res (C * C * St).
  Variable estimate : nat -> nat -> St -> res C.
  Variable init_state : res St.
  Variable terminate : nat -> nat -> option string.
  Variable ok : nat -> bool.
  Hypothesis Hwf : wf_graph g.
  Hypothesis Hfr : forall e st prev, frontier e st prev = Ok (ok e).
  Hypothesis Htr : forall d e prev st, exists r, traverse d e prev st = Ok r.
  Hypothesis Hest : forall a b st, a < nverts g -> b < nverts g -> exists c, estimate a b st = Ok c.
  Hypothesis Hinit : exists i0, init_state = Ok i0.

  Definition le (a b : C) : Prop := clt b a = false.
  Hypothesis Hasym : forall a b, clt a b = true -> clt b a = false.
  Hypothesis Hletrans : forall a b c, le a b -> le b c -> le a c.
  Hypothesis Hinfl : forall dd e prev st ac tc st' a, traverse dd e prev st = Ok (ac, tc, st') -> le a (cadd a (cfloor (cadd ac tc))).

  Lemma le_refl a : le a a.
  Proof. unfold le. destruct (clt a a) eqn:H; [|reflexivity]. rewrite (Hasym _ _ H) in H. discriminate. Qed.

  Variable d : dir.
  Variable source : nat.
  Variable target : option nat.
  Hypothesis Htin : forall t, target = Some t -> t < nverts g.

  Notation sstate := (sstate C St).
  Notation step := (step clt cadd czero cfloor g frontier traverse estimate terminate d source target).
  Notation run_loop := (run_loop clt cadd czero cfloor g frontier traverse estimate terminate).
  Notation relaxed := (relaxed clt cadd czero cfloor g traverse estimate ok d target).
  Notation relaxed_all := (relaxed_all clt cadd czero cfloor g traverse estimate ok d target).
  Notation Inv := (Inv g ok d source target).

  (* ---------------------------------------------------------------- the source keeps its label *)
  Definition K (s : sstate) : Prop :=
    s_g s !! source = Some czero /\ s_tree s !! source = None /\ forall v l, s_g s !! v = Some l -> le czero l.

  Lemma relaxed_K cur le0 s eid s' : relaxed cur le0 s eid s' -> K s -> K s'.
  Proof.
    intros [| | |e ac tc st' gcur h He Hok Hg Ht Hb Hh] HK; try exact HK.
    destruct HK as (K1&K2&K3).
    assert (Hle : le czero (cadd gcur (cfloor (cadd ac tc)))).
    { eapply Hletrans; [apply (K3 _ _ Hg)|eapply Hinfl, Ht]. }
    assert (Hne : key_vertex d e <> source).
    { intros Heq. rewrite Heq, K1 in Hb. destruct Hb as [Hb|(ex&Hex&Hlt)]; [discriminate|].
      inversion Hex; subst ex. unfold le in Hle. congruence. }
    unfold K. simpl. rewrite !lookup_insert_ne by exact Hne. split; [exact K1|]. split; [exact K2|].
    intros v l Hv. destruct (decide (v = key_vertex d e)) as [->|Hn].
    - rewrite lookup_insert in Hv. inversion Hv; subst. exact Hle.
    - rewrite lookup_insert_ne in Hv by congruence. eapply K3, Hv.
  Qed.

  Lemma relaxed_all_K cur le0 s es s' : relaxed_all cur le0 s es s' -> K s -> K s'.
  Proof. induction 1 as [|s eid s1 es s2 Hr Hra IH]; [auto|]. intros HK. apply IH. eapply relaxed_K; eauto. Qed.

  Lemma step_K init s s' : Inv s -> K s -> step init s = Ok (inl s') -> K s'.
  Proof.
    intros HI HK Hst.
    destruct (step_shape clt cadd czero cfloor g frontier traverse estimate terminate ok Hwf Hfr Htr Hest d source target Htin init s s' HI Hst)
      as (v&c&q'&le0&cur&s2&Hpop&_&Hra&->).
    apply (relaxed_all_K _ _ _ _ _ Hra HK).
  Qed.

  Lemma K_init h0 : K (mkS [(source, h0)] {[source := czero]} ∅ 0).
  Proof.
    unfold K. simpl. rewrite lookup_singleton, lookup_empty. split; [reflexivity|]. split; [reflexivity|].
    intros v l Hv. destruct (decide (v = source)) as [->|Hne].
    - rewrite lookup_singleton in Hv. inversion Hv; subst. apply le_refl.
    - rewrite lookup_singleton_ne in Hv by congruence. discriminate.
  Qed.

  (* ---------------------------------------------------------------- least labels at exhaustion *)
  Variable ecost : nat -> C.
  Hypothesis Hloc : forall dd e prev st ac tc st', traverse dd e prev st = Ok (ac, tc, st') -> cfloor (cadd ac tc) = ecost e.
  Hypothesis Hmono : forall a b c, le a b -> le (cadd a c) (cadd b c).

  Definition wcostC (es : list nat) (z : C) : C := fold_left (fun acc e => cadd acc (ecost e)) es z.

  Lemma wcostC_mono es z z' : le z z' -> le (wcostC es z) (wcostC es z').
  Proof. revert z z'. induction es as [|e r IH]; intros z z' H; simpl; [exact H|]. apply IH, Hmono, H. Qed.

  (* labels only decrease, a changed label is queued, the queue only grows *)
  Definition ext2 (s s' : sstate) : Prop :=
    (forall x l, s_g s !! x = Some l -> exists l', s_g s' !! x = Some l' /\ le l' l)
    /\ (forall x l', s_g s' !! x = Some l' -> s_g s !! x = Some l' \/ qd s' x)
    /\ (forall x, qd s x -> qd s' x).

  Lemma ext2_refl s : ext2 s s.
  Proof. split; [|split]; auto. intros x l Hl. exists l. split; [exact Hl|apply le_refl]. Qed.

  Lemma ext2_trans s1 s2 s3 : ext2 s1 s2 -> ext2 s2 s3 -> ext2 s1 s3.
  Proof.
    intros (A1&A2&A3) (B1&B2&B3). split; [|split].
    - intros x l Hl. destruct (A1 _ _ Hl) as (l2&H2&L2). destruct (B1 _ _ H2) as (l3&H3&L3).
      exists l3. split; [exact H3|]. eapply Hletrans; eauto.
    - intros x l' Hl. destruct (B2 _ _ Hl) as [H|H]; [|auto]. destruct (A2 _ _ H) as [H1|H1]; [auto|right; auto].
    - auto.
  Qed.

  Lemma relaxed_ext2 cur le0 s eid s' : relaxed cur le0 s eid s' -> ext2 s s'.
  Proof.
    intros [| | |e ac tc st' gcur h He Hok Hg Ht Hb Hh]; try apply ext2_refl.
    unfold ext2, qd. simpl. split; [|split].
    - intros x l Hl. destruct (decide (x = key_vertex d e)) as [->|Hne].
      + rewrite lookup_insert. eexists. split; [reflexivity|].
        destruct Hb as [Hb|(ex&Hex&Hlt)]; [congruence|]. rewrite Hl in Hex. inversion Hex; subst ex.
        apply Hasym, Hlt.
      + rewrite lookup_insert_ne by congruence. exists l. split; [exact Hl|apply le_refl].
    - intros x l' Hl. destruct (decide (x = key_vertex d e)) as [->|Hne].
      + right. apply push_inq. auto.
      + rewrite lookup_insert_ne in Hl by congruence. auto.
    - intros x Hx. apply push_inq. auto.
  Qed.

  Lemma relaxed_all_ext2 cur le0 s es s' : relaxed_all cur le0 s es s' -> ext2 s s'.
  Proof.
    induction 1 as [|s eid s1 es s2 Hr Hra IH]; [apply ext2_refl|].
    eapply ext2_trans; [eapply relaxed_ext2, Hr|exact IH].
  Qed.

  (* every relaxed edge whose near end kept its label and stayed out of the queue is no longer tense *)
  Lemma relaxed_all_done cur le0 s es s' : relaxed_all cur le0 s es s' ->
    forall eid e, In eid es -> get_edge g eid = Some e -> ok eid = true ->
      forall lt, s_g s' !! term_vertex d e = Some lt -> ~ qd s' (term_vertex d e) ->
        exists lk, s_g s' !! key_vertex d e = Some lk /\ le lk (cadd lt (ecost eid)).
  Proof.
    induction 1 as [|s eid0 s1 es s2 Hr Hra IH]; intros eid e Hin He Hok lt Hlt Hnq; [destruct Hin|].
    destruct Hin as [->|Hin]; [|eapply IH; eauto].
    pose proof (relaxed_all_ext2 _ _ _ _ _ Hra) as (B1&B2&B3).
    pose proof (relaxed_ext2 _ _ _ _ _ Hr) as (A1&A2&A3).
    assert (Hl1 : s_g s1 !! term_vertex d e = Some lt) by (destruct (B2 _ _ Hlt); [assumption|contradiction]).
    assert (Hl0 : s_g s !! term_vertex d e = Some lt).
    { destruct (A2 _ _ Hl1) as [H|H]; [assumption|]. exfalso. apply Hnq, B3, H. }
    inversion Hr as [Hno|e' He' Hn|e' ac tc st' gcur ex He' Hok' Hg Ht Hex Hlt'|e' ac tc st' gcur h He' Hok' Hg Ht Hb Hh]; subst.
    - congruence.
    - rewrite He in He'. inversion He'; subst e'. congruence.
    - rewrite He in He'. inversion He'; subst e'. rewrite Hl0 in Hg. inversion Hg; subst gcur.
      rewrite (Hloc _ _ _ _ _ _ _ Ht) in Hlt'. destruct (B1 _ _ Hex) as (lk&Hk&Hle). exists lk. split; [exact Hk|].
      eapply Hletrans; [exact Hle|exact Hlt'].
    - rewrite He in He'. inversion He'; subst e'. rewrite Hl0 in Hg. inversion Hg; subst gcur.
      rewrite (Hloc _ _ _ _ _ _ _ Ht) in *.
      destruct (B1 (key_vertex d e) (cadd lt (ecost eid))) as (lk&Hk&Hle); [simpl; apply lookup_insert|].
      exists lk. auto.
  Qed.

  (* no settled vertex has a tense permitted edge *)
  Definition L (s : sstate) : Prop :=
    forall u lu, s_g s !! u = Some lu -> ~ qd s u ->
      forall e w, pjoins ok d g e u w -> exists lw, s_g s !! w = Some lw /\ le lw (cadd lu (ecost e)).

  (* every label is the cost of a permitted walk from the source *)
  Definition A (s : sstate) : Prop :=
    forall v l, s_g s !! v = Some l -> exists es, pwalk ok d g source es v /\ wcostC es czero = l.

  Lemma relaxed_A cur le0 s eid s' : relaxed cur le0 s eid s' -> A s -> A s'.
  Proof.
    intros [| | |e ac tc st' gcur h He Hok Hg Ht Hb Hh] HA; try exact HA.
    intros v l Hv. simpl in Hv. destruct (decide (v = key_vertex d e)) as [->|Hne].
    - rewrite lookup_insert in Hv. inversion Hv; subst l. destruct (HA _ _ Hg) as (es&Hw&Hc).
      exists (es ++ [eid]). split; [eapply pwalk_snoc; [exact Hw|exists e; auto]|].
      unfold wcostC. rewrite fold_left_app. simpl. fold (wcostC es czero). rewrite Hc, (Hloc _ _ _ _ _ _ _ Ht). reflexivity.
    - rewrite lookup_insert_ne in Hv by congruence. eapply HA, Hv.
  Qed.

  Lemma relaxed_all_A cur le0 s es s' : relaxed_all cur le0 s es s' -> A s -> A s'.
  Proof. induction 1 as [|s eid s1 es s2 Hr Hra IH]; [auto|]. intros HA. apply IH. eapply relaxed_A; eauto. Qed.

  Lemma step_LA init s s' : Inv s -> L s /\ A s -> step init s = Ok (inl s') -> L s' /\ A s'.
  Proof.
    intros HI [HL HA] Hst.
    destruct (step_shape clt cadd czero cfloor g frontier traverse estimate terminate ok Hwf Hfr Htr Hest d source target Htin init s s' HI Hst)
      as (v&c&q'&le0&cur&s2&Hpop&_&Hra&->).
    split; [|apply (relaxed_all_A _ _ _ _ _ Hra HA)].
    destruct (pop_spec _ _ _ _ _ Hpop) as (Hin&Hsub&Hkeep).
    pose proof (relaxed_all_ext2 _ _ _ _ _ Hra) as (B1&B2&B3).
    intros u lu Hu Hnq e w Hj. change (s_g s2 !! u = Some lu) in Hu. change (~ qd s2 u) in Hnq. simpl.
    destruct (decide (u = v)) as [->|Hne].
    - destruct Hj as (ed&He&Hok&Ht&Hk). subst w.
      eapply (relaxed_all_done _ _ _ _ _ Hra); eauto.
      + apply incident_spec. eauto.
      + rewrite Ht. exact Hu.
      + rewrite Ht. exact Hnq.
    - destruct (B2 _ _ Hu) as [Hu1|Hq]; [|contradiction]. simpl in Hu1.
      assert (~ qd s u) as Hnq0.
      { intros Hq0. apply Hnq. apply B3. apply Hkeep; assumption. }
      destruct (HL _ _ Hu1 Hnq0 _ _ Hj) as (lw&Hw&Hle).
      destruct (B1 w lw Hw) as (lw'&Hw'&Hle'). exists lw'. split; [exact Hw'|]. eapply Hletrans; eauto.
  Qed.

  Lemma LA_init h0 : L (mkS [(source, h0)] {[source := czero]} ∅ 0) /\ A (mkS [(source, h0)] {[source := czero]} ∅ 0).
  Proof.
    split.
    - intros u lu Hu Hnq. exfalso. simpl in Hu. destruct (decide (u = source)) as [->|Hne].
      + apply Hnq. exists h0. left. reflexivity.
      + rewrite lookup_singleton_ne in Hu by congruence. discriminate.
    - intros v l Hv. simpl in Hv. destruct (decide (v = source)) as [->|Hne].
      + rewrite lookup_singleton in Hv. inversion Hv; subst. exists []. split; [constructor|reflexivity].
      + rewrite lookup_singleton_ne in Hv by congruence. discriminate.
  Qed.

  (* a stable labelling bounds every permitted walk from below *)
  Lemma L_lower s : L s -> s_pq s = [] ->
    forall x es u, pwalk ok d g x es u -> forall lx, s_g s !! x = Some lx ->
      exists lu, s_g s !! u = Some lu /\ le lu (wcostC es lx).
  Proof.
    intros HL Hq. induction 1 as [x|x e y r u Hj Hw IH]; intros lx Hx.
    - exists lx. split; [exact Hx|apply le_refl].
    - destruct (HL _ _ Hx) with (e := e) (w := y) as (ly&Hy&Hle); [|exact Hj|].
      { intros (c&Hin). rewrite Hq in Hin. destruct Hin. }
      destruct (IH _ Hy) as (lu&Hu&Hlu). exists lu. split; [exact Hu|]. simpl.
      eapply Hletrans; [exact Hlu|]. apply wcostC_mono, Hle.
  Qed.
End Cost.

(* ------------------------------------------------------------------ run_a_star without a destination *)
Section NoTarget.
  Context {C St : Type}.
  Variable clt : C -> C -> bool.
  Variable cadd : C -> C -> C.
  Variable czero : C.
  Variable cfloor : C -> C.
  Variable g : graph.
  Variable frontier : nat -> St -> option nat -> res bool.
  Variable traverse : dir -> nat -> option nat -> St -> res (C * C * St).
  Variable estimate : nat -> nat -> St -> res C.
  Variable init_state : res St.
  Variable terminate : nat -> nat -> option string.
  Variable ok : nat -> bool.
  Hypothesis Hwf : wf_graph g.
  Hypothesis Hfr : forall e st prev, frontier e st prev = Ok (ok e).
  Hypothesis Htr : forall d e prev st, exists r, traverse d e prev st = Ok r.
  Hypothesis Hest : forall a b st, a < nverts g -> b < nverts g -> exists c, estimate a b st = Ok c.
  Hypothesis Hinit : exists i0, init_state = Ok i0.
  Notation le := (le clt).
  Hypothesis Hasym : forall a b, clt a b = true -> clt b a = false.
  Hypothesis Hletrans : forall a b c, le a b -> le b c -> le a c.
  Hypothesis Hinfl : forall dd e prev st ac tc st' a, traverse dd e prev st = Ok (ac, tc, st') -> le a (cadd a (cfloor (cadd ac tc))).

  Variable d : dir.
  Variable source : nat.
  Hypothesis Hsrc : source < nverts g.
  Notation run_a_star := (run_a_star clt cadd czero cfloor g frontier traverse estimate init_state terminate).
  Notation run_a_star_state := (run_a_star_state clt cadd czero cfloor g frontier traverse estimate init_state terminate).
  Notation step := (step clt cadd czero cfloor g frontier traverse estimate terminate d source None).

  (* the state in which a destination-less loop ended: exhausted, invariant, plus any step-invariant P *)
  Lemma notarget_final (P : sstate C St -> Prop) fuel s :
    (forall h0, P (mkS [(source, h0)] {[source := czero]} ∅ 0)) ->
    (forall init s s', Inv g ok d source None s -> P s -> step init s = Ok (inl s') -> P s') ->
    run_a_star_state fuel d source None = Ok s ->
    Inv g ok d source None s /\ s_pq s = [] /\ P s.
  Proof.
    intros Hinit0 Hstep. unfold Search.run_a_star_state. rewrite (src_ltb g source Hsrc). destruct Hinit as [i0 Hi]. rewrite Hi. simpl. intros Hrun.
    assert (Hts : forall t, @None nat = Some t -> t <> source) by discriminate.
    pose proof (run_loop_inv_gen clt cadd czero cfloor g frontier traverse estimate terminate ok Hwf Hfr Htr Hest d source None (tgt_none g) P i0
                  (Hstep i0) fuel _ (init_inv czero g ok d source None czero Hts) (Hinit0 czero)) as H.
    cbv beta in H. rewrite Hrun in H. destruct H as (s0&HI&HP&Hst).
    pose proof (step_spec clt cadd czero cfloor g frontier traverse estimate terminate ok Hwf Hfr Htr Hest d source None (tgt_none g) i0 s0 HI) as Hs.
    rewrite Hst in Hs. destruct Hs as [(_&Hq&->)|(t&c&q'&Ht&_)]; [auto|discriminate].
  Qed.

  Theorem source_never_relabelled fuel s : run_a_star_state fuel d source None = Ok s ->
    s_g s !! source = Some czero /\ s_tree s !! source = None.
  Proof.
    intros Hrun.
    destruct (notarget_final (K clt czero source) fuel s) as (_&_&(K1&K2&_)); auto.
    - intros h0. apply K_init. exact Hasym.
    - intros init s0 s' HI HK Hst. eapply (step_K clt cadd czero cfloor g frontier traverse estimate terminate ok Hwf Hfr Htr Hest); eauto using (tgt_none g).
  Qed.

  Theorem tree_is_reachable_set fuel tree it : run_a_star fuel d source None = Ok (tree, it) ->
    forall v, is_Some (tree !! v) <-> (reachable ok d g source v /\ v <> source).
  Proof.
    assert (Hts : forall t, @None nat = Some t -> t <> source) by discriminate.
    rewrite (a_star_of_state clt cadd czero cfloor g frontier traverse estimate init_state terminate Hinit d source Hsrc fuel None Hts).
    destruct (run_a_star_state fuel d source None) as [s| | |] eqn:Hrun; try discriminate.
    intros H; inversion H; subst tree it. clear H.
    destruct (source_never_relabelled fuel s Hrun) as (K1&K2).
    destruct (notarget_final (fun _ => True) fuel s) as (HI&Hq&_); auto.
    intros v. split.
    - intros [b Hb]. destruct (j_tree_edge _ _ _ _ _ (i_J _ _ _ _ _ _ HI) _ _ Hb) as (_&_&Hl).
      split; [apply (j_lab_reach _ _ _ _ _ (i_J _ _ _ _ _ _ HI)), Hl|]. intros ->. congruence.
    - intros [Hr Hne]. pose proof (exhaustion_closed g ok d source None s HI Hq v Hr) as Hl.
      destruct (j_lab_tree _ _ _ _ _ (i_J _ _ _ _ _ _ HI) _ Hl); [contradiction|assumption].
  Qed.

  (* ---- least labels ---- *)
  Variable ecost : nat -> C.
  Hypothesis Hloc : forall dd e prev st ac tc st', traverse dd e prev st = Ok (ac, tc, st') -> cfloor (cadd ac tc) = ecost e.
  Hypothesis Hmono : forall a b c, le a b -> le (cadd a c) (cadd b c).

  Theorem tree_labels_least fuel s : run_a_star_state fuel d source None = Ok s ->
    forall v, reachable ok d g source v ->
      exists l, s_g s !! v = Some l
        /\ (exists es, pwalk ok d g source es v /\ wcostC cadd ecost es czero = l)
        /\ forall es, pwalk ok d g source es v -> le l (wcostC cadd ecost es czero).
  Proof.
    intros Hrun v Hr.
    destruct (source_never_relabelled fuel s Hrun) as (K1&_).
    destruct (notarget_final (fun s => L clt cadd g ok d ecost s /\ A cadd czero g ok d source ecost s) fuel s) as (HI&Hq&HL&HA); auto.
    - intros h0. apply LA_init.
    - intros init s0 s' HI0 HP Hst.
      eapply (step_LA clt cadd czero cfloor g frontier traverse estimate terminate ok Hwf Hfr Htr Hest Hasym Hletrans d source None (tgt_none g) ecost Hloc); eauto.
    - pose proof (exhaustion_closed g ok d source None s HI Hq v Hr) as [l Hl]. exists l. split; [exact Hl|]. split; [eapply HA, Hl|].
      intros es Hw.
      destruct (L_lower clt cadd g ok Hasym Hletrans d ecost Hmono s HL Hq _ _ _ Hw _ K1) as (lu&Hu&Hle).
      rewrite Hl in Hu. inversion Hu; subst lu. exact Hle.
  Qed.
End NoTarget.

End ReachCostP.
