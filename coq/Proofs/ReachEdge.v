(* C05, the edge-oriented wrapper (search_algorithm.rs::run_edge_oriented over Dijkstra / A-star).
   The origin edge e1 joins a1 to b1, the destination edge e2 joins a2 to b2 (in the search direction);
   the wrapper searches from b1 to a2.  The two query edges themselves are not submitted to the frontier
   model by the code, so "reachable" is about the edges between them.
     edge_target_spec     every outcome of an edge-oriented search with a destination (e1 <> e2):
                          Ok  -> b1 reaches a2 and the route is e1 :: mid ++ [e2] with mid a permitted walk b1 -> a2
                          Err "nopath" -> a2 is unreachable from b1
     edge_nopath_unreachable, edge_ok_route, edge_unreachable_never_ok   the statements of the property
     edge_notarget_tree   destination-less: the tree's vertices are those reachable from b1 (other than b1),
                          plus b1 itself when the origin edge could be grafted as the root branch *)
From Coq Require Import List Arith Bool String Lia.
From stdpp Require Import gmap.
From RC Require Import Base.Res Model.Search Model.Reach Proofs.ReachSet Proofs.ReachInv Proofs.ReachMain Proofs.ReachCost.
Import ListNotations.

Module ReachEdgeP.
Import Search Reach ReachSetP ReachInvP ReachMainP ReachCostP.

Section Edge.
  Context {C St : Type}.
  Variable clt : C -> C -> bool.
  Variable cadd : C -> C -> C.
  Variable czero : C.
  Variable cfloor : C -> C.
  Variable g : graph.
  Variable frontier : nat -> St -> option nat -> res bool.
  Variable traverse : dir -> nat -> option nat -> St -> res (C * C * St).
  Variable estimate : nat -> nat -> St -> res C.
  Variable init_state : res St.
  Variable terminate : nat -> nat -> option string.
  Variable ok : nat -> bool.
  Hypothesis Hwf : wf_graph g.
  Hypothesis Hfr : forall e st prev, frontier e st prev = Ok (ok e).
  Hypothesis Htr : forall d e prev st, exists r, traverse d e prev st = Ok r.
  Hypothesis Hest : forall a b st, a < nverts g -> b < nverts g -> exists c, estimate a b st = Ok c.
  Hypothesis Hinit : exists i0, init_state = Ok i0.

  Variable d : dir.
  Variable fuel : nat.
  Notation alg := (run_vertex_oriented clt cadd czero cfloor g frontier traverse estimate init_state terminate fuel d).
  Notation run_edge := (run_edge_oriented czero g traverse init_state d alg).

  Variable e1 : nat.
  Variable ed1 : edge.
  Hypothesis He1 : get_edge g e1 = Some ed1.
  Lemma Hb1 : key_vertex d ed1 < nverts g.
  Proof. eapply wf_key_lt; eauto. Qed.
  Notation a1 := (term_vertex d ed1).
  Notation b1 := (key_vertex d ed1).

  Theorem edge_target_spec e2 ed2 : get_edge g e2 = Some ed2 -> e1 <> e2 ->
    match run_edge e1 (Some e2) with
    | Ok r => reachable ok d g b1 (term_vertex d ed2)
              /\ exists route mid, r_routes r = [route] /\ map et_edge route = e1 :: mid ++ [e2]
                                   /\ pwalk ok d g b1 mid (term_vertex d ed2)
    | Err c => (c = "nopath"%string /\ ~ reachable ok d g b1 (term_vertex d ed2))
               \/ (exists why a b, terminate a b = Some why /\ c = ("terminated: " ++ why)%string)
               \/ c = "internal: tree missing vertex in backtrack"%string \/ c = "internal: loop in search result"%string
    | Panic _ => False
    | OutOfFuel => True
    end.
  Proof.
    intros He2 Hne. unfold run_edge_oriented. remember (Search.run_vertex_oriented clt cadd czero cfloor g frontier traverse estimate init_state terminate fuel d) as A eqn:HA.
    rewrite He1. destruct Hinit as [i0 Hi]. rewrite Hi. simpl. rewrite He2.
    destruct (Nat.eqb_spec e1 e2) as [|_]; [contradiction|].
    destruct (Nat.eqb_spec b1 (term_vertex d ed2)) as [Heq|Hnb].
    - (* adjacent *)
      destruct (Htr d e1 None i0) as [[[ac1 tc1] s1] H1]. rewrite H1. simpl.
      destruct (Htr d e2 (Some e1) s1) as [[[ac2 tc2] s2] H2]. rewrite H2. simpl.
      rewrite <- Heq. split; [constructor|]. eexists. exists []. split; [reflexivity|]. split; [reflexivity|constructor].
    - pose proof (vertex_target_spec clt cadd czero cfloor g frontier traverse estimate init_state terminate ok Hwf Hfr Htr Hest
                    (ex_intro _ i0 Hi) d b1 Hb1 fuel (term_vertex d ed2) (fun H => Hnb (eq_sym H))
                    (wf_term_lt g d e2 ed2 Hwf He2)) as Hv.
      rewrite <- HA in Hv. destruct (A b1 (Some (term_vertex d ed2))) as [r|c|w|]; simpl; auto.
      destruct Hv as (Hr&tree&route&Ht&Hrt&Hnn&Hw&_). rewrite Ht, Hrt. simpl.
      destruct (last route) as [fin|] eqn:Hlast.
      2:{ destruct route as [|x route]; [congruence|]. exfalso. clear -Hlast. revert x Hlast.
          induction route as [|y r IH]; intros x; simpl; [discriminate|]. apply IH. }
      simpl. split; [exact Hr|]. eexists. exists (map et_edge route). split; [reflexivity|]. split; [|exact Hw].
      simpl. rewrite map_app. reflexivity.
  Qed.

  Corollary edge_nopath_unreachable e2 ed2 : get_edge g e2 = Some ed2 -> e1 <> e2 ->
    run_edge e1 (Some e2) = Err "nopath"%string -> ~ reachable ok d g b1 (term_vertex d ed2).
  Proof.
    intros He2 Hne H. pose proof (edge_target_spec e2 ed2 He2 Hne) as Hs. rewrite H in Hs.
    destruct Hs as [[_ Hu]|[(why&a&b&_&Hw)|[Hw|Hw]]]; [exact Hu| |discriminate|discriminate].
    exfalso. eapply term_not_nopath. symmetry. exact Hw.
  Qed.

  Corollary edge_ok_route e2 ed2 r : get_edge g e2 = Some ed2 -> e1 <> e2 ->
    run_edge e1 (Some e2) = Ok r ->
    reachable ok d g b1 (term_vertex d ed2)
    /\ exists route mid, r_routes r = [route] /\ map et_edge route = e1 :: mid ++ [e2]
                         /\ pwalk ok d g b1 mid (term_vertex d ed2).
  Proof. intros He2 Hne H. pose proof (edge_target_spec e2 ed2 He2 Hne) as Hs. rewrite H in Hs. exact Hs. Qed.

  Corollary edge_unreachable_never_ok e2 ed2 : get_edge g e2 = Some ed2 -> e1 <> e2 ->
    ~ reachable ok d g b1 (term_vertex d ed2) -> (forall a b, terminate a b = None) ->
    run_edge e1 (Some e2) = Err "nopath"%string \/ run_edge e1 (Some e2) = OutOfFuel.
  Proof.
    intros He2 Hne Hu Hterm.
    assert (Hnb : term_vertex d ed2 <> b1) by (intros Heq; apply Hu; rewrite Heq; constructor).
    pose proof (unreachable_never_ok clt cadd czero cfloor g frontier traverse estimate init_state terminate ok Hwf Hfr Htr Hest
                  Hinit d b1 Hb1 fuel (term_vertex d ed2) Hnb (wf_term_lt g d e2 ed2 Hwf He2) Hu Hterm) as Hv.
    unfold run_edge_oriented. remember (Search.run_vertex_oriented clt cadd czero cfloor g frontier traverse estimate init_state terminate fuel d) as A eqn:HA. rewrite He1. destruct Hinit as [i0 Hi]. rewrite Hi. simpl. rewrite He2.
    destruct (Nat.eqb_spec e1 e2) as [|_]; [contradiction|].
    destruct (Nat.eqb_spec b1 (term_vertex d ed2)) as [Heq|_]; [congruence|].
    destruct Hv as [-> | ->]; simpl; auto.
  Qed.

  (* ---- destination-less ---- *)
  Notation le := (le clt).
  Hypothesis Hasym : forall a b, clt a b = true -> clt b a = false.
  Hypothesis Hletrans : forall a b c, le a b -> le b c -> le a c.
  Hypothesis Hinfl : forall dd e prev st ac tc st' a, traverse dd e prev st = Ok (ac, tc, st') -> le a (cadd a (cfloor (cadd ac tc))).

  Theorem edge_notarget_tree r : run_edge e1 None = Ok r ->
    exists tree, r_trees r = [tree] /\
      forall v, is_Some (tree !! v) <->
        (reachable ok d g b1 v /\ v <> b1) \/ (v = b1 /\ a1 <> b1 /\ ~ reachable ok d g b1 a1).
  Proof.
    unfold run_edge_oriented, Search.run_vertex_oriented. rewrite He1. cbv zeta.
    remember (run_a_star clt cadd czero cfloor g frontier traverse estimate init_state terminate fuel d b1 None) as R eqn:Hrun.
    destruct Hinit as [i0 Hi]. rewrite Hi. simpl.
    destruct R as [[tree it]|c|w|]; simpl; try discriminate. symmetry in Hrun.
    intros H; inversion H; clear H. simpl.
    pose proof (tree_is_reachable_set clt cadd czero cfloor g frontier traverse estimate init_state terminate ok Hwf Hfr Htr Hest
                  (ex_intro _ i0 Hi) Hasym Hletrans Hinfl d b1 Hb1 fuel tree it Hrun) as Hdom.
    eexists. split; [reflexivity|]. intros v.
    assert (Hb1n : tree !! b1 = None).
    { destruct (tree !! b1) eqn:Hx; [|reflexivity]. destruct (proj1 (Hdom b1)) as [_ Hn]; [eauto|congruence]. }
    destruct (Nat.eqb_spec a1 b1) as [Heq|Hne].
    - rewrite Hdom. split; [auto|]. intros [H|(_&H&_)]; [exact H|contradiction].
    - rewrite Hb1n. destruct (tree !! a1) as [ba|] eqn:Ha.
      + rewrite Hdom. split; [auto|]. intros [H|(_&_&H)]; [exact H|]. exfalso. apply H. apply Hdom. eauto.
      + destruct (decide (v = b1)) as [->|Hvb].
        * rewrite lookup_insert. split; [|eauto]. intros _. right. split; [reflexivity|]. split; [exact Hne|].
          intros Hr. destruct (proj2 (Hdom a1)) as [x Hx]; [split; assumption|congruence].
        * rewrite lookup_insert_ne by congruence. rewrite Hdom. split; [auto|]. intros [H|(H&_)]; [exact H|contradiction].
  Qed.
End Edge.

End ReachEdgeP.
