(* C05, termination of Dijkstra-like runs (item "dijkstra_fuel").
   Hypotheses: the estimate is zero (weight factor 0 / no destination) and x + 0 = x; the cost order is a total
   preorder and label + edge cost >= label (as in Proofs/ReachCost.v).  Then
     no_reopen        a vertex that has been popped is never relabelled and never re-enters the queue
                      (invariant D/D': queue priorities = labels, settled labels <= queued priorities)
     loop_fuel        each iteration settles a new vertex, so |universe| + 1 iterations suffice
     dijkstra_fuel    run_a_star with fuel > |universe| never runs out of fuel; |universe| <= nverts for a
                      well-formed graph
   For A-star with a non-zero estimate vertices may be re-opened; there fuel stays an explicit premise. *)
From Coq Require Import List Arith Bool String Lia.
From stdpp Require Import gmap.
From RC Require Import Base.Res Model.Search Model.Reach Proofs.ReachSet Proofs.ReachInv Proofs.ReachMain Proofs.ReachCost.
Import ListNotations.

Module ReachFuelP.
Import Search Reach ReachSetP ReachInvP ReachMainP ReachCostP.

Lemma reachable_universe ok d g a v : reachable ok d g a v -> v ∈ universe d g a.
Proof.
  unfold universe. induction 1 as [|x y e Hx IH (ed&He&_&_&Hk)].
  - apply elem_of_union. left. apply elem_of_singleton. reflexivity.
  - apply elem_of_union. right. apply elem_of_list_to_set, elem_of_list_In, in_map_iff.
    exists ed. split; [exact Hk|]. eapply get_edge_In, He.
Qed.

Lemma universe_size d g a : wf_graph g -> a < nverts g -> size (universe d g a) <= nverts g.
Proof.
  intros Hwf Ha. rewrite <- (size_set_seq (C:=gset nat) 0 (nverts g)). apply subseteq_size.
  intros x Hx. apply elem_of_set_seq. split; [lia|]. simpl.
  unfold universe in Hx. apply elem_of_union in Hx as [Hx|Hx].
  - apply elem_of_singleton in Hx. subst. exact Ha.
  - apply elem_of_list_to_set, elem_of_list_In, in_map_iff in Hx as (e&<-&Hin).
    destruct (Hwf e Hin). destruct d; simpl; assumption.
Qed.

(* ---------------------------------------------------------------- more about the queue *)
Section PQ2.
  Context {C : Type} (clt : C -> C -> bool).
  Notation le := (le clt).
  Notation push := (pq_push_increase clt).
  Hypothesis Hasym : forall a b, clt a b = true -> clt b a = false.
  Hypothesis Hletrans : forall a b c, le a b -> le b c -> le a c.

  Lemma pq_min_least (q : list (nat * C)) v m : pq_min clt q = Some (v, m) -> forall x p, In (x, p) q -> le m p.
  Proof.
    revert v m. induction q as [|[v0 c0] r IH]; intros v m; simpl; [discriminate|].
    destruct (pq_min clt r) as [[v1 c1]|] eqn:Hr.
    - destruct (clt c1 c0) eqn:Hc; intros H; inversion H; subst; intros x p [Hin|Hin].
      + inversion Hin; subst. apply Hasym, Hc.
      + eapply IH; eauto.
      + inversion Hin; subst. apply (le_refl clt Hasym).
      + eapply Hletrans; [exact Hc|]. eapply IH; eauto.
    - apply pq_min_none in Hr. subst r. intros H; inversion H; subst. intros x p [Hin|[]]. inversion Hin; subst. apply (le_refl clt Hasym).
  Qed.

  Lemma in_keys (q : list (nat * C)) x c : In (x, c) q -> In x (map fst q).
  Proof. intros H. apply in_map_iff. exists (x, c). auto. Qed.

  Lemma push_entries (q : list (nat * C)) v p x c : NoDup (map fst q) -> In (x, c) (push q v p) ->
    (x <> v /\ In (x, c) q) \/ (x = v /\ (c = p \/ (In (v, c) q /\ clt p c = false))).
  Proof.
    induction q as [|[v' c'] r IH]; simpl; intros Hnd Hin.
    - destruct Hin as [Hin|[]]. inversion Hin; subst. auto.
    - inversion Hnd as [|? ? Hnotin Hnd']; subst.
      destruct (Nat.eqb_spec v' v) as [->|Hne].
      + destruct (clt p c') eqn:Hc; destruct Hin as [Hin|Hin].
        * inversion Hin; subst. auto.
        * destruct (Nat.eq_dec x v) as [->|Hx]; [exfalso; apply Hnotin, elem_of_list_In; eapply in_keys; eauto|]. left. auto.
        * inversion Hin; subst. right. split; [reflexivity|]. right. auto.
        * destruct (Nat.eq_dec x v) as [->|Hx]; [exfalso; apply Hnotin, elem_of_list_In; eapply in_keys; eauto|]. left. auto.
      + destruct Hin as [Hin|Hin].
        * inversion Hin; subst. left. auto.
        * destruct (IH Hnd' Hin) as [(A&B)|(A&[B|(B&B2)])]; [left; auto|right; auto|right; auto].
  Qed.

  Lemma push_nodup (q : list (nat * C)) v p : NoDup (map fst q) -> NoDup (map fst (push q v p)).
  Proof.
    induction q as [|[v' c'] r IH]; simpl; intros Hnd.
    - constructor; [apply not_elem_of_nil|constructor].
    - inversion Hnd as [|? ? Hnotin Hnd']; subst.
      destruct (Nat.eqb_spec v' v) as [->|Hne].
      + destruct (clt p c'); simpl; constructor; auto.
      + simpl. constructor; [|apply IH, Hnd']. intros Hin. apply elem_of_list_In, in_map_iff in Hin as ([x c]&Hx&Hin). simpl in Hx. subst x.
        assert (inq (push r v p) v') as Hq by (exists c; exact Hin).
        apply push_inq in Hq as [->|(c2&Hq)]; [congruence|]. apply Hnotin, elem_of_list_In. eapply in_keys; eauto.
  Qed.

  Lemma remove_nodup (q : list (nat * C)) v : NoDup (map fst q) -> NoDup (map fst (pq_remove q v)).
  Proof.
    induction q as [|[v' c'] r IH]; simpl; intros Hnd; [constructor|].
    inversion Hnd as [|? ? Hnotin Hnd']; subst. destruct (Nat.eqb v' v); [exact Hnd'|].
    simpl. constructor; [|apply IH, Hnd']. intros Hin. apply elem_of_list_In, in_map_iff in Hin as ([x c]&Hx&Hin). simpl in Hx. subst x.
    apply Hnotin, elem_of_list_In. eapply in_keys. eapply remove_in, Hin.
    Unshelve. all: exact clt.
  Qed.

  Lemma remove_gone (q : list (nat * C)) v : NoDup (map fst q) -> ~ inq (pq_remove q v) v.
  Proof.
    induction q as [|[v' c'] r IH]; simpl; intros Hnd (c&Hin); [destruct Hin|].
    inversion Hnd as [|? ? Hnotin Hnd']; subst. destruct (Nat.eqb_spec v' v) as [->|Hne].
    - apply Hnotin, elem_of_list_In. eapply in_keys; eauto.
    - destruct Hin as [Hin|Hin]; [inversion Hin; congruence|]. apply (IH Hnd'). exists c. exact Hin.
  Qed.

  Lemma pop_spec2 (q : list (nat * C)) v c q' : pq_pop clt q = Some (v, c, q') ->
    pq_min clt q = Some (v, c) /\ q' = pq_remove q v.
  Proof.
    unfold pq_pop. destruct (pq_min clt q) as [[v0 c0]|]; [|discriminate]. intros H; inversion H; subst. auto.
  Qed.
End PQ2.


(* ---------------------------------------------------------------- Dijkstra-like runs *)
Section Dijkstra.
  Context {C St : Type}.
  Variable clt : C -> C -> bool.
  Variable cadd : C -> C -> C.
  Variable czero : C.
  Variable cfloor : C -> C.
  Variable g : graph.
  Variable frontier : nat -> St -> option nat -> res bool.
  Variable traverse : dir -> nat -> option nat -> St -> res (C * C * St).
  Variable estimate : nat -> nat -> St -> res C.
  Variable init_state : res St.
  Variable terminate : nat -> nat -> option string.
  Variable ok : nat -> bool.
  Hypothesis Hwf : wf_graph g.
  Hypothesis Hfr : forall e st prev, frontier e st prev = Ok (ok e).
  Hypothesis Htr : forall d e prev st, exists r, traverse d e prev st = Ok r.
  Hypothesis Hest0 : forall a b st, a < nverts g -> b < nverts g -> estimate a b st = Ok czero.        (* weight factor 0 *)
  Hypothesis Hinit : exists i0, init_state = Ok i0.
  Notation le := (le clt).
  Hypothesis Hzero : forall x, le (cadd x czero) x /\ le x (cadd x czero).      (* x + 0 is x, up to the order *)
  Hypothesis Hasym : forall a b, clt a b = true -> clt b a = false.
  Hypothesis Hletrans : forall a b c, le a b -> le b c -> le a c.
  Hypothesis Hinfl : forall dd e prev st ac tc st' a, traverse dd e prev st = Ok (ac, tc, st') -> le a (cadd a (cfloor (cadd ac tc))).

  Lemma Hest : forall a b st, a < nverts g -> b < nverts g -> exists c, estimate a b st = Ok c.
  Proof. intros. rewrite Hest0 by assumption. eauto. Qed.

  Variable d : dir.
  Variable source : nat.
  Variable target : option nat.
  Hypothesis Htin : forall t, target = Some t -> t < nverts g.

  Notation sstate := (sstate C St).
  Notation step := (step clt cadd czero cfloor g frontier traverse estimate terminate d source target).
  Notation run_loop := (run_loop clt cadd czero cfloor g frontier traverse estimate terminate).
  Notation relaxed := (relaxed clt cadd czero cfloor g traverse estimate ok d target).
  Notation relaxed_all := (relaxed_all clt cadd czero cfloor g traverse estimate ok d target).
  Notation Inv := (Inv g ok d source target).
  Notation push := (pq_push_increase clt).

  Definition settled (s : sstate) (u : nat) : Prop := lab s u /\ ~ qd s u.

  (* between iterations *)
  Record D (s : sstate) : Prop := {
    d_nodup : NoDup (map fst (s_pq s));
    d_prio : forall v p, In (v, p) (s_pq s) -> exists l, s_g s !! v = Some l /\ le p l /\ le l p;
    d_settled_le : forall u lu, s_g s !! u = Some lu -> ~ qd s u -> forall v p, In (v, p) (s_pq s) -> le lu p
  }.

  (* while v (popped with label pv) is being expanded; X are the vertices settled before *)
  Record D' (v : nat) (pv : C) (X : gset nat) (s : sstate) : Prop := {
    dp_D : D s;
    dp_v : s_g s !! v = Some pv;
    dp_X : forall u, u ∈ X ∪ {[ v ]} -> settled s u;
    dp_le_pv : forall u lu, s_g s !! u = Some lu -> ~ qd s u -> le lu pv;
    dp_pv_le : forall x p, In (x, p) (s_pq s) -> le pv p
  }.

  Lemma relaxed_D' cur le0 s eid s' v pv X :
    relaxed cur le0 s eid s' -> (forall e, get_edge g eid = Some e -> term_vertex d e = v) ->
    D' v pv X s -> D' v pv X s'.
  Proof.
    intros [| | |e ac tc st' gcur h He Hok Hg Ht Hb Hh] Hv HD; try exact HD.
    destruct HD as [[Dn Dp Ds] Dv DX Dle Dpl].
    rewrite (Hv _ He) in Hg. rewrite Dv in Hg. inversion Hg; subst gcur. clear Hg.
    assert (h = czero) as ->.
    { unfold hres in Hh. destruct target as [t|] eqn:Htg;
        [rewrite Hest0 in Hh by (first [eapply wf_key_lt; eassumption|apply Htin; reflexivity])|]; inversion Hh; reflexivity. }
    set (tent := cadd pv (cfloor (cadd ac tc))) in *.
    destruct (Hzero tent) as [Hz1 Hz2]. set (p' := cadd tent czero) in *.
    set (w := key_vertex d e) in *.
    assert (Hpt : le pv tent) by (eapply Hinfl, Ht).
    (* the relabelled vertex was not settled *)
    assert (Hns : ~ settled s w).
    { intros [[ex Hex] Hnq]. pose proof (Dle _ _ Hex Hnq) as H1. pose proof (Hletrans _ _ _ H1 Hpt) as H2.
      destruct Hb as [Hb|(ex'&Hex'&Hlt)]; [congruence|]. rewrite Hex in Hex'. inversion Hex'; subst ex'.
      unfold ReachCostP.le in H2. congruence. }
    assert (Hwv : w <> v). { intros Heq. apply Hns. rewrite Heq. apply DX. apply elem_of_union. right. apply elem_of_singleton. reflexivity. }
    assert (Hqd : forall x, qd s x -> inq (push (s_pq s) w p') x) by (intros x Hx; apply push_inq; auto).
    (* a vertex settled afterwards was settled before, with the same label *)
    assert (Hback : forall u lu, <[w:=tent]> (s_g s) !! u = Some lu -> ~ inq (push (s_pq s) w p') u ->
                      u <> w /\ s_g s !! u = Some lu /\ ~ qd s u).
    { intros u lu Hu Hnq. assert (u <> w) by (intros ->; apply Hnq, push_inq; auto).
      rewrite lookup_insert_ne in Hu by congruence. split; [assumption|]. split; [assumption|]. intros Hq. apply Hnq, Hqd, Hq. }
    constructor; [constructor|..]; simpl.
    - apply push_nodup, Dn.
    - intros x p Hin. apply (push_entries clt _ _ _ _ _ Dn) in Hin as [(Hne&Hin)|(->&[->|(Hin&Hc)])].
      + rewrite lookup_insert_ne by congruence. apply Dp, Hin.
      + exists tent. rewrite lookup_insert. auto.
      + exfalso. destruct (Dp _ _ Hin) as (ex0&Hp&Hpe&Hep). destruct Hb as [Hb|(ex&Hex&Hlt)]; [congruence|].
        fold w in Hex. rewrite Hp in Hex. inversion Hex; subst ex.
        assert (le ex0 tent) as Hbad by (eapply Hletrans; [exact Hep|]; eapply Hletrans; [exact Hc|exact Hz1]).
        unfold ReachCostP.le in Hbad. congruence.
    - intros u lu Hu Hnq x p Hin. destruct (Hback _ _ Hu Hnq) as (Hne&Hu0&Hnq0).
      apply (push_entries clt _ _ _ _ _ Dn) in Hin as [(Hnx&Hin)|(->&[->|(Hin&Hc)])].
      + eapply Ds; eauto.
      + eapply Hletrans; [eapply Dle; eauto|]. eapply Hletrans; [exact Hpt|exact Hz2].
      + eapply Ds; eauto.
    - rewrite lookup_insert_ne by congruence. exact Dv.
    - intros u Hu. destruct (DX u Hu) as [Hl Hnq]. assert (u <> w) by (intros ->; apply Hns; split; assumption).
      split.
      + unfold lab. simpl. rewrite lookup_insert_ne by congruence. exact Hl.
      + unfold qd. simpl. intros Hq. apply push_inq in Hq as [->|Hq]; [congruence|contradiction].
    - intros u lu Hu Hnq. destruct (Hback _ _ Hu Hnq) as (Hne&Hu0&Hnq0). eapply Dle; eauto.
    - intros x p Hin. apply (push_entries clt _ _ _ _ _ Dn) in Hin as [(Hnx&Hin)|(->&[->|(Hin&Hc)])]; [eapply Dpl; eauto|eapply Hletrans; [exact Hpt|exact Hz2]|eapply Dpl; eauto].
  Qed.

  Lemma relaxed_all_D' cur le0 s es s' v pv X :
    relaxed_all cur le0 s es s' -> (forall eid e, In eid es -> get_edge g eid = Some e -> term_vertex d e = v) ->
    D' v pv X s -> D' v pv X s'.
  Proof.
    induction 1 as [|s eid s1 es s2 Hr Hra IH]; intros Hv HD; [exact HD|].
    apply IH; [intros; eapply Hv; [right|]; eauto|]. eapply relaxed_D'; eauto. intros e He. eapply Hv; [left; reflexivity|exact He].
  Qed.

  (* one iteration settles the popped vertex and keeps everything settled before *)
  Lemma step_D init s s' (X : gset nat) : Inv s -> D s -> (forall u, u ∈ X -> settled s u) -> step init s = Ok (inl s') ->
    exists v, v ∉ X /\ lab s v /\ D s' /\ forall u, u ∈ X ∪ {[ v ]} -> settled s' u.
  Proof.
    intros HI [Dn Dp Ds] HX Hst.
    destruct (step_shape clt cadd czero cfloor g frontier traverse estimate terminate ok Hwf Hfr Htr Hest d source target Htin init s s' HI Hst)
      as (v&c&q'&le0&cur&s2&Hpop&_&Hra&->).
    destruct (pop_spec _ _ _ _ _ Hpop) as (Hin&Hsub&Hkeep).
    destruct (pop_spec2 _ _ _ _ _ Hpop) as (Hmin&->).
    pose proof (pq_min_least clt Hasym Hletrans _ _ _ Hmin) as Hleast.
    destruct (Dp _ _ Hin) as (lv&Hgv&Hcl&Hlc).
    exists v. split; [intros Hv; destruct (HX v Hv) as [_ Hnq]; apply Hnq; exists c; exact Hin|].
    split; [unfold lab; rewrite Hgv; eauto|].
    assert (HD1 : D' v lv X (mkS (pq_remove (s_pq s) v) (s_g s) (s_tree s) (s_iters s))).
    { constructor; [constructor|..]; simpl.
      - apply (remove_nodup clt), Dn.
      - intros x p Hx. apply Dp. eapply (remove_in clt), Hx.
      - intros u lu Hu Hnq x p Hx. destruct (decide (u = v)) as [->|Hne].
        + rewrite Hgv in Hu. inversion Hu; subst lu. eapply Hletrans; [exact Hlc|]. eapply Hleast, (remove_in clt), Hx.
        + eapply Ds; [exact Hu| |eapply (remove_in clt), Hx]. intros Hq. apply Hnq. apply Hkeep; assumption.
      - exact Hgv.
      - intros u Hu. apply elem_of_union in Hu as [Hu|Hu].
        + destruct (HX u Hu) as [Hl Hnq]. split; [exact Hl|]. intros Hq. apply Hnq. apply Hsub, Hq.
        + apply elem_of_singleton in Hu. subst u. split; [unfold lab; simpl; rewrite Hgv; eauto|]. apply remove_gone, Dn.
      - intros u lu Hu Hnq. destruct (decide (u = v)) as [->|Hne].
        + rewrite Hgv in Hu. inversion Hu; subst. apply (le_refl clt Hasym).
        + eapply Hletrans; [|exact Hcl]. eapply Ds; [exact Hu| |exact Hin]. intros Hq. apply Hnq. apply Hkeep; assumption.
      - intros x p Hx. eapply Hletrans; [exact Hlc|]. eapply Hleast, (remove_in clt), Hx. }
    assert (HD2 : D' v lv X s2).
    { eapply relaxed_all_D'; [exact Hra| |exact HD1]. intros eid e Hi He. apply incident_spec in Hi as (e'&He'&Ht). congruence. }
    destruct HD2 as [[En Ep Es] _ EX _ _]. split; [constructor; assumption|]. exact EX.
  Qed.

  (* |universe| + 1 iterations suffice *)
  Lemma loop_fuel init fuel : forall s (X : gset nat), Inv s -> D s -> (forall u, u ∈ X -> settled s u) ->
    X ⊆ universe d g source -> size (universe d g source) < size X + fuel ->
    run_loop fuel d source target init s <> OutOfFuel.
  Proof.
    induction fuel as [|fuel IH]; intros s X HI HD HX HU Hsz.
    - apply subseteq_size in HU. lia.
    - simpl. pose proof (step_spec clt cadd czero cfloor g frontier traverse estimate terminate ok Hwf Hfr Htr Hest d source target Htin init s HI) as Hs.
      destruct (step init s) as [[s'|s']|c|w|] eqn:Hst; simpl; try discriminate; try contradiction.
      destruct (step_D init s s' X HI HD HX Hst) as (v&HvX&Hlv&HD'&HX').
      apply (IH s' (X ∪ {[ v ]})); [apply Hs|exact HD'|exact HX'| |].
      + apply union_subseteq. split; [exact HU|]. apply singleton_subseteq_l. apply reachable_universe with (ok := ok).
        apply (j_lab_reach _ _ _ _ _ (i_J _ _ _ _ _ _ HI)), Hlv.
      + rewrite size_union by (apply disjoint_singleton_r; exact HvX). rewrite size_singleton. lia.
  Qed.

  Lemma D_init : D (mkS [(source, czero)] {[source := czero]} ∅ 0).
  Proof.
    constructor; simpl.
    - constructor; [apply not_elem_of_nil|constructor].
    - intros v p [H|[]]. injection H as <- <-. exists czero. rewrite lookup_singleton. split; [reflexivity|]. split; apply (le_refl clt Hasym).
    - intros u lu Hu Hnq. exfalso. destruct (decide (u = source)) as [->|Hne].
      + apply Hnq. exists czero. left. reflexivity.
      + rewrite lookup_singleton_ne in Hu by congruence. discriminate.
  Qed.

  Hypothesis Hsrc : source < nverts g.
  Hypothesis Hts : forall t, target = Some t -> t <> source.

  Theorem dijkstra_fuel_state fuel : size (universe d g source) < fuel ->
    run_a_star_state clt cadd czero cfloor g frontier traverse estimate init_state terminate fuel d source target <> OutOfFuel.
  Proof.
    intros Hf. unfold run_a_star_state. rewrite (src_ltb g source Hsrc). destruct Hinit as [i0 Hi]. rewrite Hi. simpl.
    assert (match target with None => Ok czero | Some t => estimate source t i0 end = Ok czero) as ->.
    { destruct target as [t|] eqn:Htg; [apply Hest0; [exact Hsrc|apply Htin; reflexivity]|reflexivity]. }
    simpl. apply (loop_fuel i0 fuel _ ∅).
    - apply init_inv, Hts.
    - apply D_init.
    - intros u Hu. apply elem_of_empty in Hu. destruct Hu.
    - apply empty_subseteq.
    - rewrite size_empty. lia.
  Qed.

  Theorem dijkstra_fuel fuel : size (universe d g source) < fuel ->
    run_a_star clt cadd czero cfloor g frontier traverse estimate init_state terminate fuel d source target <> OutOfFuel.
  Proof.
    intros Hf. rewrite (a_star_of_state clt cadd czero cfloor g frontier traverse estimate init_state terminate Hinit d source Hsrc fuel target Hts).
    pose proof (dijkstra_fuel_state fuel Hf) as H.
    destruct (run_a_star_state _ _ _ _ _ _ _ _ _ _ _ _ _ _); congruence.
  Qed.
End Dijkstra.

End ReachFuelP.
