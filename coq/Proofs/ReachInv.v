(* C05: what the search loop of Model/Search.v labels is exactly what is reachable through permitted edges.
   Hypotheses of the section (the property's "restrictions that depend only on the edge itself"):
     frontier e st prev = Ok (ok e)      for an edge-local ok : nat -> bool
     traverse / estimate never fail
   NOTHING is assumed about the costs (clt, cadd are arbitrary), the heuristic or the weight factor here.
     Inv                     the invariant of the loop
     step_inv / run_loop_inv it holds in every state reachable by run_loop
     finite_label_reachable  every labelled vertex / tree entry is reachable from the source
     exhaustion_closed       queue empty -> every reachable vertex is labelled
     loop_nopath_unreachable run_loop = Err "nopath" -> the target is unreachable
     loop_ok_target          run_loop = Ok with a target -> the target is labelled (hence reachable) *)
From Coq Require Import List Arith Bool String Lia.
From stdpp Require Import gmap.
From RC Require Import Base.Res Model.Search Model.Reach Proofs.ReachSet.
Import ListNotations.

Module ReachInvP.
Import Search Reach ReachSetP.

(* ---------------------------------------------------------------- incident edges *)
Lemma edges_where_spec f l i x :
  In x (edges_where f l i) <-> exists e, (i <= x)%nat /\ nth_error l (x - i) = Some e /\ f e = true.
Proof.
  revert i. induction l as [|e l IH]; intros i; simpl.
  - split; [tauto|]. intros (e&_&H&_). destruct (x - i)%nat; discriminate.
  - assert (In x (edges_where f l (S i)) <-> exists e0, (S i <= x)%nat /\ nth_error l (x - S i) = Some e0 /\ f e0 = true) as IH' by apply IH.
    clear IH. destruct (f e) eqn:Hf; simpl; rewrite IH'; clear IH'.
    + split.
      * intros [->|(e0&H1&H2&H3)].
        -- exists e. rewrite Nat.sub_diag. auto.
        -- exists e0. replace (x - i)%nat with (S (x - S i)) by lia. simpl. split; [lia|auto].
      * intros (e0&H1&H2&H3). destruct (Nat.eq_dec i x) as [->|Hne]; [auto|right].
        exists e0. replace (x - i)%nat with (S (x - S i)) in H2 by lia. simpl in H2. split; [lia|auto].
    + split.
      * intros (e0&H1&H2&H3). exists e0. replace (x - i)%nat with (S (x - S i)) by lia. simpl. split; [lia|auto].
      * intros (e0&H1&H2&H3). destruct (Nat.eq_dec i x) as [->|Hne].
        -- rewrite Nat.sub_diag in H2. simpl in H2. congruence.
        -- exists e0. replace (x - i)%nat with (S (x - S i)) in H2 by lia. simpl in H2. split; [lia|auto].
Qed.

Lemma incident_spec d g v eid :
  In eid (incident d g v) <-> exists e, get_edge g eid = Some e /\ term_vertex d e = v.
Proof.
  unfold incident, out_edges, in_edges, get_edge. destruct d; rewrite edges_where_spec; simpl;
    setoid_rewrite Nat.sub_0_r; setoid_rewrite Nat.eqb_eq; split.
  all: try (intros (e&_&H1&H2); exists e; auto).
  all: intros (e&H1&H2); exists e; split; [lia|auto].
Qed.

(* ---------------------------------------------------------------- well-formed graphs *)
(* every edge joins two vertices of the network *)
Definition wf_graph (g : graph) : Prop :=
  forall e, In e (gedges g) -> esrc e < nverts g /\ edst e < nverts g.

Lemma wf_key_lt g d eid e : wf_graph g -> get_edge g eid = Some e -> key_vertex d e < nverts g.
Proof. intros Hwf He. destruct (Hwf e (get_edge_In _ _ _ He)). destruct d; assumption. Qed.
Lemma wf_term_lt g d eid e : wf_graph g -> get_edge g eid = Some e -> term_vertex d e < nverts g.
Proof. intros Hwf He. destruct (Hwf e (get_edge_In _ _ _ He)). destruct d; assumption. Qed.
Lemma tgt_none g : forall t, @None nat = Some t -> t < nverts g.
Proof. discriminate. Qed.
Lemma tgt_some g t : t < nverts g -> forall t0, Some t = Some t0 -> t0 < nverts g.
Proof. intros H t0 [= <-]. exact H. Qed.

(* ---------------------------------------------------------------- the priority queue *)
Section PQ.
  Context {C : Type} (clt : C -> C -> bool).
  Notation push := (pq_push_increase clt).

  Definition inq (q : list (nat * C)) (x : nat) : Prop := exists c, In (x, c) q.

  Lemma push_inq q v p x : inq (push q v p) x <-> x = v \/ inq q x.
  Proof.
    unfold inq. induction q as [|[v' c'] r IH]; simpl.
    - split.
      + intros (c&[H|[]]). inversion H. auto.
      + intros [->|(c&[])]. eauto.
    - destruct (Nat.eqb_spec v' v) as [->|Hne].
      + destruct (clt p c'); simpl; split.
        * intros (c&[H|H]); [inversion H; auto|right; eauto].
        * intros [->|(c&[H|H])]; [eauto|inversion H; eauto|eauto].
        * intros (c&[H|H]); [inversion H; auto|right; eauto].
        * intros [->|(c&[H|H])]; [eauto|inversion H; eauto|eauto].
      + simpl. split.
        * intros (c&[H|H]); [inversion H; subst; right; eauto|].
          destruct (proj1 IH (ex_intro _ c H)) as [->|(c2&H2)]; [auto|right; eauto].
        * intros [->|(c&[H|H])].
          -- destruct (proj2 IH (or_introl eq_refl)) as (c&H). eauto.
          -- inversion H; subst. eauto.
          -- destruct (proj2 IH (or_intror (ex_intro _ c H))) as (c2&H2). eauto.
  Qed.

  Lemma pq_min_in q v c : pq_min clt q = Some (v, c) -> In (v, c) q.
  Proof.
    revert v c. induction q as [|[v' c'] r IH]; intros v c; simpl; [discriminate|].
    destruct (pq_min clt r) as [[v2 c2]|].
    - destruct (clt c2 c'); intros H; inversion H; subst; auto.
    - intros H; inversion H; auto.
  Qed.

  Lemma pq_min_none q : pq_min clt q = None -> q = [].
  Proof.
    destruct q as [|[v' c'] r]; simpl; [reflexivity|].
    destruct (pq_min clt r) as [[v2 c2]|]; [destruct (clt c2 c')|]; discriminate.
  Qed.

  Lemma remove_in (q : list (nat * C)) v x c : In (x, c) (pq_remove q v) -> In (x, c) q.
  Proof.
    induction q as [|[v' c'] r IH]; simpl; [tauto|].
    destruct (Nat.eqb v' v); simpl; [auto|]. intros [H|H]; auto.
  Qed.

  Lemma remove_keeps (q : list (nat * C)) v x c : In (x, c) q -> x <> v -> In (x, c) (pq_remove q v).
  Proof.
    intros H Hne. induction q as [|[v' c'] r IH]; simpl in *; [tauto|].
    destruct (Nat.eqb_spec v' v) as [->|Hn].
    - destruct H as [H|H]; [inversion H; congruence|exact H].
    - destruct H as [H|H]; [left; exact H|right; auto].
  Qed.

  Lemma pop_spec q v c q' : pq_pop clt q = Some (v, c, q') ->
    In (v, c) q /\ (forall x, inq q' x -> inq q x) /\ (forall x, inq q x -> x <> v -> inq q' x).
  Proof.
    unfold pq_pop. destruct (pq_min clt q) as [[v0 c0]|] eqn:Hm; [|discriminate].
    intros H; inversion H; subst. split; [apply pq_min_in, Hm|]. split.
    - intros x (c1&H1). exists c1. eapply remove_in, H1.
    - intros x (c1&H1) Hne. exists c1. apply remove_keeps; auto.
  Qed.

  Lemma pop_none q : pq_pop clt q = None -> q = [].
  Proof. unfold pq_pop. destruct (pq_min clt q) as [[v0 c0]|] eqn:Hm; [discriminate|]. intros _. apply pq_min_none, Hm. Qed.
End PQ.

(* ---------------------------------------------------------------- the loop *)
Section Inv.
  Context {C St : Type}.
  Variable clt : C -> C -> bool.
  Variable cadd : C -> C -> C.
  Variable czero : C.
  Variable cfloor : C -> C.
  Variable g : graph.
  Variable frontier : nat -> St -> option nat -> res bool.
  Variable traverse : dir -> nat -> option nat -> St -> res (C * C * St).
  Variable estimate : nat -> nat -> St -> res C.
  Variable terminate : nat -> nat -> option string.
  Variable ok : nat -> bool.
  Hypothesis Hwf : wf_graph g.
  Hypothesis Hfr : forall e st prev, frontier e st prev = Ok (ok e).
  Hypothesis Htr : forall d e prev st, exists r, traverse d e prev st = Ok r.
  (* the estimate is only ever asked about vertices of the network *)
  Hypothesis Hest : forall a b st, a < nverts g -> b < nverts g -> exists c, estimate a b st = Ok c.

  Variable d : dir.
  Variable source : nat.
  Variable target : option nat.
  Hypothesis Htin : forall t, target = Some t -> t < nverts g.

  Notation sstate := (sstate C St).
  Notation relax := (relax clt cadd czero cfloor g frontier traverse estimate d target).
  Notation relax_all := (relax_all clt cadd czero cfloor g frontier traverse estimate d target).
  Notation step := (step clt cadd czero cfloor g frontier traverse estimate terminate d source target).
  Notation run_loop := (fun fuel => run_loop clt cadd czero cfloor g frontier traverse estimate terminate fuel d source target).
  Notation push := (pq_push_increase clt).

  Definition lab (s : sstate) (x : nat) : Prop := is_Some (s_g s !! x).
  Definition qd (s : sstate) (x : nat) : Prop := inq (s_pq s) x.

  (* the part of the invariant that every relaxation preserves *)
  Record J (s : sstate) : Prop := {
    j_src : lab s source;
    j_lab_reach : forall v, lab s v -> reachable ok d g source v;
    j_pq_lab : forall v, qd s v -> lab s v;
    j_lab_tree : forall v, lab s v -> v = source \/ is_Some (s_tree s !! v);
    j_tree_edge : forall v b, s_tree s !! v = Some b ->
        pjoins ok d g (et_edge (b_et b)) (b_term b) v /\ lab s (b_term b) /\ lab s v
  }.

  (* what a single relaxation does: nothing (edge refused, near end unlabelled, or no strict improvement),
     or label + tree entry + queue entry of the far end are replaced *)
  Definition hres (kv : nat) (cur : St) : res C :=
    match target with None => Ok czero | Some t => estimate kv t cur end.

  Inductive relaxed (cur : St) (le : option nat) (s : sstate) (eid : nat) : sstate -> Prop :=
  | relaxed_refused : ok eid = false -> relaxed cur le s eid s
  | relaxed_unlab e : get_edge g eid = Some e -> s_g s !! term_vertex d e = None -> relaxed cur le s eid s
  | relaxed_keep e ac tc st' gcur ex :
      get_edge g eid = Some e -> ok eid = true -> s_g s !! term_vertex d e = Some gcur ->
      traverse d eid le cur = Ok (ac, tc, st') ->
      s_g s !! key_vertex d e = Some ex -> clt (cadd gcur (cfloor (cadd ac tc))) ex = false ->
      relaxed cur le s eid s
  | relaxed_upd e ac tc st' gcur h :
      get_edge g eid = Some e -> ok eid = true -> s_g s !! term_vertex d e = Some gcur ->
      traverse d eid le cur = Ok (ac, tc, st') ->
      (s_g s !! key_vertex d e = None
       \/ exists ex, s_g s !! key_vertex d e = Some ex /\ clt (cadd gcur (cfloor (cadd ac tc))) ex = true) ->
      hres (key_vertex d e) cur = Ok h ->
      relaxed cur le s eid (mkS (push (s_pq s) (key_vertex d e) (cadd (cadd gcur (cfloor (cadd ac tc))) h))
                                (<[key_vertex d e := cadd gcur (cfloor (cadd ac tc))]> (s_g s))
                                (<[key_vertex d e := mkBranch (term_vertex d e) (mkEt eid ac tc st')]> (s_tree s))
                                (s_iters s)).

  Lemma relax_spec cur le s eid e : get_edge g eid = Some e ->
    exists s', relax cur le s eid = Ok s' /\ relaxed cur le s eid s'
      /\ (ok eid = true -> lab s (term_vertex d e) -> lab s' (key_vertex d e)).
  Proof.
    intros He. unfold Search.relax. rewrite He, Hfr. simpl.
    destruct (ok eid) eqn:Hok; simpl; [|exists s; split; [reflexivity|split; [apply relaxed_refused, Hok|discriminate]]].
    destruct (Htr d eid le cur) as [[[ac tc] st'] Ht]. rewrite Ht. simpl.
    destruct (s_g s !! term_vertex d e) as [gcur|] eqn:Hg.
    2:{ exists s. split; [reflexivity|split; [eapply relaxed_unlab; eauto|]]. intros _ [x Hx]. unfold lab in *. congruence. }
    unfold et_total. simpl.
    destruct (s_g s !! key_vertex d e) as [ex|] eqn:Hk; [destruct (clt (cadd gcur (cfloor (cadd ac tc))) ex) eqn:Hb|].
    - assert (exists h, hres (key_vertex d e) cur = Ok h) as [h Hh].
      { unfold hres. destruct target as [t|] eqn:Htg; [apply Hest; [eapply wf_key_lt; eauto|apply Htin; reflexivity]|eauto]. }
      unfold hres in Hh. rewrite Hh. simpl. eexists. split; [reflexivity|]. split.
      + eapply relaxed_upd; eauto.
      + intros _ _. unfold lab. simpl. rewrite lookup_insert. eauto.
    - exists s. split; [reflexivity|split; [eapply relaxed_keep; eauto|]]. intros _ _. unfold lab. rewrite Hk. eauto.
    - assert (exists h, hres (key_vertex d e) cur = Ok h) as [h Hh].
      { unfold hres. destruct target as [t|] eqn:Htg; [apply Hest; [eapply wf_key_lt; eauto|apply Htin; reflexivity]|eauto]. }
      unfold hres in Hh. rewrite Hh. simpl. eexists. split; [reflexivity|]. split.
      + eapply relaxed_upd; eauto.
      + intros _ _. unfold lab. simpl. rewrite lookup_insert. eauto.
  Qed.

  (* monotone facts of a relaxation *)
  Definition ext (s s' : sstate) : Prop :=
    (forall x, lab s x -> lab s' x) /\ (forall x, qd s x -> qd s' x)
    /\ (forall x, lab s' x -> lab s x \/ qd s' x) /\ s_iters s' = s_iters s.

  Lemma ext_refl s : ext s s.
  Proof. repeat split; auto. Qed.
  Lemma ext_trans s1 s2 s3 : ext s1 s2 -> ext s2 s3 -> ext s1 s3.
  Proof.
    intros (A1&A2&A3&A4) (B1&B2&B3&B4). repeat split; auto; [|congruence].
    intros x Hx. destruct (B3 x Hx) as [H|H]; [|auto]. destruct (A3 x H); auto.
  Qed.

  Lemma relaxed_ext cur le s eid s' : relaxed cur le s eid s' -> ext s s'.
  Proof.
    intros [| | |e ac tc st' gcur h He Hok Hg Ht Hb Hh]; try apply ext_refl. unfold ext, lab, qd. simpl. repeat split.
    - intros x Hx. destruct (decide (x = key_vertex d e)) as [->|Hne]; [rewrite lookup_insert; eauto|rewrite lookup_insert_ne by congruence; exact Hx].
    - intros x Hx. apply push_inq. auto.
    - intros x Hx. destruct (decide (x = key_vertex d e)) as [->|Hne]; [right; apply push_inq; auto|].
      rewrite lookup_insert_ne in Hx by congruence. auto.
  Qed.

  Lemma relaxed_J cur le s eid s' : relaxed cur le s eid s' -> J s -> J s'.
  Proof.
    intros [| | |e ac tc st' gcur h He Hok Hg Ht Hbt Hh] HJ; try exact HJ.
    pose proof (relaxed_ext _ _ _ _ _ (relaxed_upd cur le s eid e ac tc st' gcur h He Hok Hg Ht Hbt Hh)) as (E1&E2&E3&_).
    set (sn := mkS _ _ _ _) in *.
    assert (Hj : pjoins ok d g eid (term_vertex d e) (key_vertex d e)) by (exists e; auto).
    assert (Hlt : lab s (term_vertex d e)) by (unfold lab; rewrite Hg; eauto).
    constructor.
    - apply E1, HJ.
    - intros v Hv. destruct (decide (v = key_vertex d e)) as [->|Hne].
      + eapply reach_step; [apply (j_lab_reach _ HJ), Hlt|exact Hj].
      + apply (j_lab_reach _ HJ). unfold lab in *. simpl in Hv. rewrite lookup_insert_ne in Hv by congruence. exact Hv.
    - intros v Hv. unfold qd in Hv. simpl in Hv. apply push_inq in Hv as [->|Hv].
      + unfold lab. simpl. rewrite lookup_insert. eauto.
      + apply E1. apply (j_pq_lab _ HJ), Hv.
    - intros v Hv. simpl. destruct (decide (v = key_vertex d e)) as [->|Hne].
      + right. rewrite lookup_insert. eauto.
      + rewrite lookup_insert_ne by congruence. apply (j_lab_tree _ HJ).
        unfold lab in *. simpl in Hv. rewrite lookup_insert_ne in Hv by congruence. exact Hv.
    - intros v b Hb. simpl in Hb. destruct (decide (v = key_vertex d e)) as [->|Hne].
      + rewrite lookup_insert in Hb. inversion Hb; subst b. simpl. split; [exact Hj|]. split; [apply E1, Hlt|].
        unfold lab. simpl. rewrite lookup_insert. eauto.
      + rewrite lookup_insert_ne in Hb by congruence. destruct (j_tree_edge _ HJ _ _ Hb) as (A&B&B2). split; [exact A|]. split; apply E1; assumption.
  Qed.

  (* the chain of relaxations of one expansion *)
  Inductive relaxed_all (cur : St) (le : option nat) : sstate -> list nat -> sstate -> Prop :=
  | ra_nil s : relaxed_all cur le s [] s
  | ra_cons s eid s1 es s2 : relaxed cur le s eid s1 -> relaxed_all cur le s1 es s2 ->
      relaxed_all cur le s (eid :: es) s2.

  Lemma relax_all_spec cur le es s :
    (forall eid, In eid es -> exists e, get_edge g eid = Some e) ->
    exists s', relax_all cur le s es = Ok s' /\ relaxed_all cur le s es s' /\ ext s s' /\ (J s -> J s')
      /\ forall eid e, In eid es -> get_edge g eid = Some e -> ok eid = true ->
           lab s (term_vertex d e) -> lab s' (key_vertex d e).
  Proof.
    revert s. induction es as [|eid es IH]; intros s Hes; simpl.
    - exists s. split; [reflexivity|]. split; [constructor|]. split; [apply ext_refl|]. split; [auto|]. intros ? ? [].
    - destruct (Hes eid (or_introl eq_refl)) as [e He].
      destruct (relax_spec cur le s eid e He) as (s1&Hr&Hrel&Hk). rewrite Hr. simpl.
      destruct (IH s1) as (s2&Hra&Hch&Hext&HJ2&Hdone); [intros; apply Hes; right; assumption|].
      exists s2. split; [exact Hra|]. split; [econstructor; eauto|]. pose proof (relaxed_ext _ _ _ _ _ Hrel) as Hext1.
      split; [eapply ext_trans; eauto|]. split; [intros HJ; apply HJ2; eapply relaxed_J; eauto|].
      intros eid' e' [<-|Hin] He' Hok Hl.
      + rewrite He in He'. inversion He'; subst e'. apply Hext. apply Hk; assumption.
      + eapply Hdone; eauto. apply Hext1. exact Hl.
  Qed.

  (* the full invariant of the loop *)
  Record Inv (s : sstate) : Prop := {
    i_J : J s;
    i_closed : forall u, lab s u -> ~ qd s u -> forall e w, pjoins ok d g e u w -> lab s w;
    i_tgt : forall t, target = Some t -> lab s t -> qd s t
  }.

  Definition ends_with (why : string) (c : string) : Prop := c = ("terminated: " ++ why)%string.

  (* one iteration *)
  Lemma step_spec init s : Inv s ->
    match step init s with
    | Ok (inl s') => Inv s' /\ s_pq s <> []
    | Ok (inr s') =>
        (target = None /\ s_pq s = [] /\ s' = s)
        \/ (exists t c q', target = Some t /\ pq_pop clt (s_pq s) = Some (t, c, q')
                           /\ s' = mkS q' (s_g s) (s_tree s) (s_iters s))
    | Err c => (c = "nopath"%string /\ s_pq s = [] /\ target <> None)
               \/ exists why, terminate (size (s_tree s)) (s_iters s) = Some why /\ c = ("terminated: " ++ why)%string
    | Panic _ => False
    | OutOfFuel => False
    end.
  Proof.
    intros HI. unfold Search.step.
    destruct (terminate (size (s_tree s)) (s_iters s)) as [why|] eqn:Hterm; [right; eauto|].
    destruct (pq_pop clt (s_pq s)) as [[[v c] q']|] eqn:Hpop.
    2:{ apply pop_none in Hpop. destruct target; [left; split; [reflexivity|split; [exact Hpop|discriminate]]|left; auto]. }
    destruct (pop_spec _ _ _ _ _ Hpop) as (Hin&Hsub&Hkeep).
    destruct (match target with Some t => v =? t | None => false end) eqn:Htgt.
    { destruct target as [t|]; [|discriminate]. apply Nat.eqb_eq in Htgt. subst v. right. exists t, c, q'. auto. }
    assert (Hqv : qd s v) by (exists c; exact Hin).
    assert (Hlv : lab s v) by (apply (j_pq_lab _ (i_J _ HI)), Hqv).
    set (s1 := mkS q' (s_g s) (s_tree s) (s_iters s)).
    assert (exists le cur, (if v =? source then Ok (None, init)
                            else match s_tree s !! v with
                                 | Some b => Ok (Some (et_edge (b_et b)), et_state (b_et b))
                                 | None => Err "internal: vertex missing from solution"%string
                                 end) = Ok (le, cur)) as (le&cur&Hle).
    { destruct (Nat.eqb_spec v source) as [->|Hne]; [eauto|].
      destruct (j_lab_tree _ (i_J _ HI) v Hlv) as [->|[b Hb]]; [congruence|]. rewrite Hb. eauto. }
    rewrite Hle. simpl.
    destruct (relax_all_spec cur le (incident d g v) s1) as (s2&Hra&_&(E1&E2&E3&E4)&HJ2&Hdone).
    { intros eid Hin'. apply incident_spec in Hin' as (e&He&_). eauto. }
    rewrite Hra. simpl.
    assert (HJ1 : J s1).
    { destruct (i_J _ HI) as [A B Cc D E]. constructor; auto. intros x Hx. apply Cc. apply Hsub, Hx. }
    specialize (HJ2 HJ1).
    split.
    2:{ intros Hnil. rewrite Hnil in Hin. destruct Hin. }
    constructor.
    - destruct HJ2 as [A B Cc D E]. constructor; auto.
    - (* closedness *)
      intros u Hu Hnq e w Hj. change (lab s2 u) in Hu. change (~ qd s2 u) in Hnq. change (lab s2 w).
      destruct (decide (u = v)) as [->|Hne].
      + destruct Hj as (ed&He&Hok&Ht&Hk). subst w. eapply Hdone; eauto.
        * apply incident_spec. eauto.
        * rewrite Ht. exact Hlv.
      + destruct (E3 u Hu) as [Hu1|Hq]; [|contradiction].
        assert (~ qd s u) as Hnq0.
        { intros Hq0. apply Hnq. apply E2. apply Hkeep; assumption. }
        apply E1. eapply (i_closed _ HI); eauto.
    - intros t Ht Hl. change (lab s2 t) in Hl. change (qd s2 t).
      destruct (E3 t Hl) as [Hl1|Hq]; [|exact Hq]. apply E2.
      assert (t <> v) as Hne.
      { intros ->. rewrite Ht in Htgt. rewrite Nat.eqb_refl in Htgt. discriminate. }
      apply Hkeep; [|exact Hne]. apply (i_tgt _ HI); assumption.
  Qed.

  (* the shape of a continuing iteration, for further invariants *)
  Lemma step_shape init s s' : Inv s -> step init s = Ok (inl s') ->
    exists v c q' le cur s2,
      pq_pop clt (s_pq s) = Some (v, c, q') /\ target <> Some v
      /\ relaxed_all cur le (mkS q' (s_g s) (s_tree s) (s_iters s)) (incident d g v) s2
      /\ s' = mkS (s_pq s2) (s_g s2) (s_tree s2) (S (s_iters s2)).
  Proof.
    intros HI. unfold Search.step.
    destruct (terminate (size (s_tree s)) (s_iters s)) as [why|]; [discriminate|].
    destruct (pq_pop clt (s_pq s)) as [[[v c] q']|] eqn:Hpop; [|destruct target; discriminate].
    destruct (match target with Some t => v =? t | None => false end) eqn:Htgt; [discriminate|].
    destruct (if v =? source then Ok (None, init)
              else match s_tree s !! v with
                   | Some b => Ok (Some (et_edge (b_et b)), et_state (b_et b))
                   | None => Err "internal: vertex missing from solution"%string
                   end) as [[le cur]| | |] eqn:Hle; simpl; try discriminate.
    destruct (relax_all_spec cur le (incident d g v) (mkS q' (s_g s) (s_tree s) (s_iters s))) as (s2&Hra&Hch&_).
    { intros eid Hin'. apply incident_spec in Hin' as (e&He&_). eauto. }
    rewrite Hra. simpl. intros H. inversion H; subst s'. exists v, c, q', le, cur, s2.
    split; [reflexivity|]. split; [|auto]. intros Ht. rewrite Ht in Htgt. rewrite Nat.eqb_refl in Htgt. discriminate.
  Qed.

  (* any further invariant P of continuing iterations holds in the state in which the loop ended *)
  Lemma run_loop_inv_gen (P : sstate -> Prop) init :
    (forall s s', Inv s -> P s -> step init s = Ok (inl s') -> P s') ->
    forall fuel s, Inv s -> P s ->
      match run_loop fuel init s with
      | Ok s' => exists s0, Inv s0 /\ P s0 /\ step init s0 = Ok (inr s')
      | _ => True
      end.
  Proof.
    intros HP fuel. induction fuel as [|fuel IH]; intros s HI HPs; simpl; [exact I|].
    pose proof (step_spec init s HI) as Hs.
    destruct (step init s) as [[s'|s']|c|w|] eqn:Hst; simpl; auto.
    - apply IH; [apply Hs|eapply HP; eauto].
    - exists s. auto.
  Qed.

  (* the states the loop can be in *)
  Inductive outcome_ok (s' : sstate) : Prop :=
  | out_exhausted : target = None -> s_pq s' = [] -> Inv s' -> outcome_ok s'
  | out_target t : target = Some t -> J s' -> lab s' t -> outcome_ok s'.

  Lemma run_loop_spec fuel init s : Inv s ->
    match run_loop fuel init s with
    | Ok s' => outcome_ok s'
    | Err c => (c = "nopath"%string /\ exists t s', target = Some t /\ Inv s' /\ s_pq s' = [])
               \/ exists why a b, terminate a b = Some why /\ c = ("terminated: " ++ why)%string
    | Panic _ => False
    | OutOfFuel => True
    end.
  Proof.
    revert s. induction fuel as [|fuel IH]; intros s HI; simpl; [exact I|].
    pose proof (step_spec init s HI) as Hs.
    destruct (step init s) as [[s'|s']|c|w|]; simpl; try contradiction.
    - apply IH, Hs.
    - destruct Hs as [(Ht&Hq&->)|(t&c&q'&Ht&Hpop&->)].
      + apply out_exhausted; assumption.
      + destruct (pop_spec _ _ _ _ _ Hpop) as (Hin&Hsub&_).
        apply (out_target _ t); [exact Ht| |].
        * destruct (i_J _ HI) as [A B Cc D E]. constructor; auto. intros x Hx. apply Cc, Hsub, Hx.
        * apply (j_pq_lab _ (i_J _ HI)). exists c. exact Hin.
    - destruct Hs as [(->&Hq&Ht)|(why&Hw&->)]; [left|right; eauto].
      split; [reflexivity|]. destruct target as [t|]; [|congruence]. eauto.
  Qed.

  (* ---- the initial state ---- *)
  Lemma init_inv h0 : (forall t, target = Some t -> t <> source) ->
    Inv (mkS [(source, h0)] {[source := czero]} ∅ 0).
  Proof.
    intros Hts. constructor; [constructor|..]; unfold lab, qd, inq; simpl.
    - rewrite lookup_singleton. eauto.
    - intros v [x Hx]. destruct (decide (v = source)) as [->|Hne]; [constructor|]. rewrite lookup_singleton_ne in Hx by congruence. discriminate.
    - intros v (c&[H|[]]). inversion H; subst. rewrite lookup_singleton. eauto.
    - intros v [x Hx]. destruct (decide (v = source)) as [->|Hne]; [auto|]. rewrite lookup_singleton_ne in Hx by congruence. discriminate.
    - intros v b Hb. rewrite lookup_empty in Hb. discriminate.
    - intros u [x Hx] Hnq. destruct (decide (u = source)) as [->|Hne].
      + exfalso. apply Hnq. eauto.
      + rewrite lookup_singleton_ne in Hx by congruence. discriminate.
    - intros t Ht [x Hx]. rewrite lookup_singleton_ne in Hx; [discriminate|]. intros ->. eapply Hts; eauto.
  Qed.

  (* ---- consequences ---- *)
  Theorem finite_label_reachable s : Inv s ->
    (forall v, lab s v -> reachable ok d g source v)
    /\ (forall v b, s_tree s !! v = Some b -> reachable ok d g source v /\ reachable ok d g source (b_term b)).
  Proof.
    intros HI. split; [apply (j_lab_reach _ (i_J _ HI))|].
    intros v b Hb. destruct (j_tree_edge _ (i_J _ HI) _ _ Hb) as (_&A&B). split; apply (j_lab_reach _ (i_J _ HI)); assumption.
  Qed.

  Theorem exhaustion_closed s : Inv s -> s_pq s = [] -> forall v, reachable ok d g source v -> lab s v.
  Proof.
    intros HI Hq v Hr. induction Hr as [|x y e Hx IH Hj]; [apply (j_src _ (i_J _ HI))|].
    eapply (i_closed _ HI); [exact IH| |exact Hj]. intros (c&Hin). rewrite Hq in Hin. destruct Hin.
  Qed.

  Theorem exhausted_unreachable s t : Inv s -> s_pq s = [] -> target = Some t -> ~ reachable ok d g source t.
  Proof.
    intros HI Hq Ht Hr. pose proof (exhaustion_closed s HI Hq t Hr) as Hl.
    destruct (i_tgt _ HI t Ht Hl) as (c&Hin). rewrite Hq in Hin. destruct Hin.
  Qed.
End Inv.

End ReachInvP.
