(* C05: run_a_star / run_vertex_oriented report "nopath" only for unreachable targets, and an Ok answer is a
   non-empty permitted walk from the source to the target.  No assumption on costs, heuristic or weight factor;
   any termination model (its firing is a different error); any fuel.
     a_star_target_spec, a_star_notarget_spec    every outcome of run_a_star
     backtrack_spec                              an Ok backtrack is a non-empty walk along tree entries
     vertex_target_spec, vertex_notarget_spec    every outcome of run_vertex_oriented *)
From Coq Require Import List Arith Bool String Lia.
From stdpp Require Import gmap.
From RC Require Import Base.Res Model.Search Model.Reach Proofs.ReachSet Proofs.ReachInv.
Import ListNotations.

Module ReachMainP.
Import Search Reach ReachSetP ReachInvP.

Lemma term_not_nopath why : ("terminated: " ++ why)%string <> "nopath"%string.
Proof. simpl. discriminate. Qed.

Section Main.
  Context {C St : Type}.
  Variable clt : C -> C -> bool.
  Variable cadd : C -> C -> C.
  Variable czero : C.
  Variable cfloor : C -> C.
  Variable g : graph.
  Variable frontier : nat -> St -> option nat -> res bool.
  Variable traverse : dir -> nat -> option nat -> St -> res (C * C * St).
  Variable estimate : nat -> nat -> St -> res C.
  Variable init_state : res St.
  Variable terminate : nat -> nat -> option string.
  Variable ok : nat -> bool.
  Hypothesis Hwf : wf_graph g.
  Hypothesis Hfr : forall e st prev, frontier e st prev = Ok (ok e).
  Hypothesis Htr : forall d e prev st, exists r, traverse d e prev st = Ok r.
  Hypothesis Hest : forall a b st, a < nverts g -> b < nverts g -> exists c, estimate a b st = Ok c.
  Hypothesis Hinit : exists i0, init_state = Ok i0.

  Variable d : dir.
  Variable source : nat.
  Hypothesis Hsrc : source < nverts g.      (* the origin is a vertex of the network *)
  Lemma src_ltb : negb (Nat.ltb source (nverts g)) = false.
  Proof. apply negb_false_iff, Nat.ltb_lt, Hsrc. Qed.

  Notation run_loop := (run_loop clt cadd czero cfloor g frontier traverse estimate terminate).
  Notation run_a_star := (run_a_star clt cadd czero cfloor g frontier traverse estimate init_state terminate).
  Notation run_a_star_state := (run_a_star_state clt cadd czero cfloor g frontier traverse estimate init_state terminate).
  Notation run_vertex_oriented := (run_vertex_oriented clt cadd czero cfloor g frontier traverse estimate init_state terminate).
  Notation Inv := (Inv g ok d source).
  Notation J := (J g ok d source).

  (* every tree entry is a permitted edge from its parent, and both ends are reachable *)
  Definition tree_facts (tree : gmap nat (branch C St)) : Prop :=
    forall v b, tree !! v = Some b ->
      pjoins ok d g (et_edge (b_et b)) (b_term b) v /\ reachable ok d g source v /\ reachable ok d g source (b_term b).

  Lemma J_tree_facts (s : sstate C St) : J s -> tree_facts (s_tree s).
  Proof.
    intros HJ v b Hb. destruct (j_tree_edge _ _ _ _ _ HJ _ _ Hb) as (A&B&B2).
    split; [exact A|]. split; apply (j_lab_reach _ _ _ _ _ HJ); assumption.
  Qed.

  (* ---- run_a_star_state: the final search state ---- *)
  Lemma a_star_state_spec fuel target : (forall t, target = Some t -> t <> source) ->
    (forall t, target = Some t -> t < nverts g) ->
    match run_a_star_state fuel d source target with
    | Ok s' => outcome_ok g ok d source target s'
    | Err c => (c = "nopath"%string /\ exists t, target = Some t /\ ~ reachable ok d g source t)
               \/ exists why a b, terminate a b = Some why /\ c = ("terminated: " ++ why)%string
    | Panic _ => False
    | OutOfFuel => True
    end.
  Proof.
    intros Hts Htin. unfold Search.run_a_star_state. rewrite src_ltb. destruct Hinit as [i0 Hi]. rewrite Hi. simpl.
    assert (exists h0, match target with None => Ok czero | Some t => estimate source t i0 end = Ok h0) as [h0 Hh].
    { destruct target as [t|] eqn:Htg; [apply Hest; [exact Hsrc|apply Htin; reflexivity]|eauto]. }
    rewrite Hh. simpl.
    pose proof (run_loop_spec clt cadd czero cfloor g frontier traverse estimate terminate ok Hwf Hfr Htr Hest d source target Htin
                  fuel i0 _ (init_inv czero g ok d source target h0 Hts)) as H.
    cbv beta in H. destruct (run_loop fuel d source target i0 _) as [s'|c|w|]; auto.
    destruct H as [(->&t&s'&Ht&HI&Hq)|H]; [left|right; exact H].
    split; [reflexivity|]. exists t. split; [exact Ht|]. eapply exhausted_unreachable; eauto.
  Qed.

  Lemma a_star_of_state fuel target : (forall t, target = Some t -> t <> source) ->
    run_a_star fuel d source target
    = match run_a_star_state fuel d source target with
      | Ok s => Ok (s_tree s, s_iters s) | Err c => Err c | Panic w => Panic w | OutOfFuel => OutOfFuel
      end.
  Proof.
    intros Hts. unfold Search.run_a_star, Search.run_a_star_state. rewrite src_ltb.
    destruct target as [t|].
    - destruct (Nat.eqb_spec t source) as [->|Hne]; [exfalso; eapply Hts; eauto|].
      repeat (match goal with |- context [bind ?X _] => destruct X end; simpl; auto).
    - repeat (match goal with |- context [bind ?X _] => destruct X end; simpl; auto).
  Qed.

  Theorem a_star_target_spec fuel t : t <> source -> t < nverts g ->
    match run_a_star fuel d source (Some t) with
    | Ok (tree, it) => reachable ok d g source t /\ is_Some (tree !! t) /\ tree_facts tree
    | Err c => (c = "nopath"%string /\ ~ reachable ok d g source t)
               \/ exists why a b, terminate a b = Some why /\ c = ("terminated: " ++ why)%string
    | Panic _ => False
    | OutOfFuel => True
    end.
  Proof.
    intros Hne Hlt. assert (Hts : forall t0, Some t = Some t0 -> t0 <> source) by (intros ? [= <-]; exact Hne).
    rewrite (a_star_of_state fuel _ Hts). pose proof (a_star_state_spec fuel _ Hts (tgt_some g t Hlt)) as H.
    destruct (run_a_star_state fuel d source (Some t)) as [s'|c|w|]; auto.
    - destruct H as [Hn|t' Ht HJ Hl]; [discriminate|]. inversion Ht; subst t'.
      split; [apply (j_lab_reach _ _ _ _ _ HJ), Hl|]. split; [|apply J_tree_facts, HJ].
      destruct (j_lab_tree _ _ _ _ _ HJ _ Hl) as [->|H]; [congruence|exact H].
    - destruct H as [(->&t'&Ht&Hu)|H]; [left|right; exact H]. inversion Ht; subst. auto.
  Qed.

  Theorem a_star_notarget_spec fuel :
    match run_a_star fuel d source None with
    | Ok (tree, it) => tree_facts tree /\ forall v, reachable ok d g source v -> v = source \/ is_Some (tree !! v)
    | Err c => exists why a b, terminate a b = Some why /\ c = ("terminated: " ++ why)%string
    | Panic _ => False
    | OutOfFuel => True
    end.
  Proof.
    assert (Hts : forall t0, @None nat = Some t0 -> t0 <> source) by discriminate.
    rewrite (a_star_of_state fuel _ Hts). pose proof (a_star_state_spec fuel _ Hts (tgt_none g)) as H.
    destruct (run_a_star_state fuel d source None) as [s'|c|w|]; auto.
    - destruct H as [_ Hq HI|t' Ht _ _]; [|discriminate]. split; [apply J_tree_facts, (i_J _ _ _ _ _ _ HI)|].
      intros v Hr. apply (j_lab_tree _ _ _ _ _ (i_J _ _ _ _ _ _ HI)).
      eapply exhaustion_closed; eauto.
    - destruct H as [(_&t'&Ht&_)|H]; [discriminate|exact H].
  Qed.

  (* ---- backtracking ---- *)
  Lemma backtrack_spec tree : tree_facts tree ->
    forall fuel this visited acc,
      match backtrack_loop fuel source tree this visited acc with
      | Ok route => exists pre, route = pre ++ acc /\ pwalk ok d g source (map et_edge pre) this
                                /\ (this <> source -> pre <> [])
      | Err c => c = "internal: tree missing vertex in backtrack"%string \/ c = "internal: loop in search result"%string
      | Panic _ => False
      | OutOfFuel => True
      end.
  Proof.
    intros Htf fuel. induction fuel as [|fuel IH]; intros this visited acc; simpl.
    - destruct (Nat.eqb_spec this source) as [->|Hne]; [|exact I].
      exists []. split; [reflexivity|]. split; [constructor|congruence].
    - destruct (Nat.eqb_spec this source) as [->|Hne].
      { exists []. split; [reflexivity|]. split; [constructor|congruence]. }
      destruct (tree !! this) as [b|] eqn:Hb; [|auto].
      destruct (existsb (Nat.eqb (et_edge (b_et b))) visited); [auto|].
      specialize (IH (b_term b) (et_edge (b_et b) :: visited) (b_et b :: acc)).
      destruct (backtrack_loop fuel source tree (b_term b) _ _) as [route|c|w|]; auto.
      destruct IH as (pre&->&Hw&_). exists (pre ++ [b_et b]). split; [rewrite <- app_assoc; reflexivity|].
      split.
      + rewrite map_app. simpl. eapply pwalk_snoc; [exact Hw|]. apply (Htf _ _ Hb).
      + intros _. destruct pre; discriminate.
  Qed.

  (* ---- run_vertex_oriented ---- *)
  Theorem vertex_target_spec fuel t : t <> source -> t < nverts g ->
    match run_vertex_oriented fuel d source (Some t) with
    | Ok r => reachable ok d g source t
              /\ exists tree route, r_trees r = [tree] /\ r_routes r = [route] /\ route <> []
                                    /\ pwalk ok d g source (map et_edge route) t /\ tree_facts tree
    | Err c => (c = "nopath"%string /\ ~ reachable ok d g source t)
               \/ (exists why a b, terminate a b = Some why /\ c = ("terminated: " ++ why)%string)
               \/ c = "internal: tree missing vertex in backtrack"%string \/ c = "internal: loop in search result"%string
    | Panic _ => False
    | OutOfFuel => True
    end.
  Proof.
    intros Hne Hlt. unfold Search.run_vertex_oriented. pose proof (a_star_target_spec fuel t Hne Hlt) as H.
    destruct (run_a_star fuel d source (Some t)) as [[tree it]|c|w|]; simpl; auto.
    2:{ destruct H as [H|H]; auto. }
    destruct H as (Hr&Hin&Htf). unfold vertex_oriented_route.
    pose proof (backtrack_spec tree Htf (S (size tree)) t [] []) as Hb.
    destruct (backtrack_loop (S (size tree)) source tree t [] []) as [route|c|w|]; simpl; auto.
    all: try (destruct Hb as [Hb|Hb]; solve [auto]).
    destruct Hb as (pre&->&Hw&Hnn). rewrite app_nil_r. split; [exact Hr|]. exists tree, pre.
    split; [reflexivity|]. split; [reflexivity|]. split; [auto|]. split; assumption.
  Qed.

  Theorem vertex_notarget_spec fuel :
    match run_vertex_oriented fuel d source None with
    | Ok r => exists tree, r_trees r = [tree] /\ r_routes r = [] /\ tree_facts tree
                           /\ forall v, reachable ok d g source v -> v = source \/ is_Some (tree !! v)
    | Err c => exists why a b, terminate a b = Some why /\ c = ("terminated: " ++ why)%string
    | Panic _ => False
    | OutOfFuel => True
    end.
  Proof.
    unfold Search.run_vertex_oriented. pose proof (a_star_notarget_spec fuel) as H.
    destruct (run_a_star fuel d source None) as [[tree it]|c|w|]; simpl; auto.
    destruct H as (Htf&Hall). exists tree. auto.
  Qed.

  Lemma vertex_oof_of_astar fuel target :
    run_a_star fuel d source target = OutOfFuel -> run_vertex_oriented fuel d source target = OutOfFuel.
  Proof. intros H. unfold Search.run_vertex_oriented. rewrite H. reflexivity. Qed.

  (* ---- the statements of the property ---- *)
  Corollary vertex_nopath_unreachable fuel t : t < nverts g ->
    run_vertex_oriented fuel d source (Some t) = Err "nopath"%string -> ~ reachable ok d g source t.
  Proof.
    intros Hlt H. destruct (Nat.eq_dec t source) as [->|Hne].
    - unfold Search.run_vertex_oriented, Search.run_a_star in H. rewrite src_ltb, Nat.eqb_refl in H. simpl in H.
      unfold vertex_oriented_route in H. simpl in H. rewrite Nat.eqb_refl in H. discriminate.
    - pose proof (vertex_target_spec fuel t Hne Hlt) as Hs. rewrite H in Hs.
      destruct Hs as [[_ Hu]|[(why&a&b&_&Hw)|[Hw|Hw]]]; [exact Hu| |discriminate|discriminate].
      exfalso. eapply term_not_nopath. symmetry. exact Hw.
  Qed.

  Corollary vertex_ok_route fuel t r : t <> source -> t < nverts g ->
    run_vertex_oriented fuel d source (Some t) = Ok r ->
    reachable ok d g source t
    /\ exists tree route, r_trees r = [tree] /\ r_routes r = [route] /\ route <> []
                          /\ pwalk ok d g source (map et_edge route) t.
  Proof.
    intros Hne Hlt H. pose proof (vertex_target_spec fuel t Hne Hlt) as Hs. rewrite H in Hs.
    destruct Hs as (Hr&tree&route&A&B&Cc&D&_). split; [exact Hr|]. exists tree, route. auto.
  Qed.

  Corollary unreachable_never_ok fuel t : t <> source -> t < nverts g -> ~ reachable ok d g source t ->
    (forall a b, terminate a b = None) ->
    run_vertex_oriented fuel d source (Some t) = Err "nopath"%string
    \/ run_vertex_oriented fuel d source (Some t) = OutOfFuel.
  Proof.
    intros Hne Hlt Hu Hterm. unfold Search.run_vertex_oriented.
    pose proof (a_star_target_spec fuel t Hne Hlt) as H.
    destruct (run_a_star fuel d source (Some t)) as [[tree it]|c|w|] eqn:Hrun; simpl; auto.
    - destruct H as (Hr&_). contradiction.
    - destruct H as [(->&_)|(why&a&b&Hw&->)]; [auto|]. rewrite Hterm in Hw. discriminate.
    - destruct H.
  Qed.
End Main.

End ReachMainP.
