(* C05: the hypotheses of Proofs/Reach*.v hold for the table-driven configuration of Model/SearchRun.v over exact
   rationals whenever the world is inside the class the stream generates (RR.in_class: no turn restrictions, no
   failing tables, no limit, no turn costs, positive cost table; RR.edges_in_graph: every edge joins two vertices).
   So the theorems apply to SR.run_vertex QN / SR.run QN -- the model whose binary64 reading the stream executes next
   to the Rust code -- with ok := RR.okb w (the forbid table), for every such world, query, heuristic table, weight
   factor and fuel. *)
From Coq Require Import QArith Qminmax Lqa List Arith Bool String Lia.
From stdpp Require Import gmap.
From RC Require Import Base.Res Base.Num Model.Search Model.SearchRun Model.Reach Model.ReachRun.
From RC Require Import Proofs.ReachSet Proofs.ReachInv Proofs.ReachMain Proofs.ReachCost Proofs.ReachFuel Proofs.ReachEdge Proofs.ReachTop.
Import ListNotations.

Module ReachQP.
Import Search Reach ReachSetP ReachInvP ReachMainP ReachCostP ReachFuelP ReachEdgeP ReachTopP.

Lemma Qltb_false a b : Qltb a b = false <-> (b <= a)%Q.
Proof. unfold Qltb. rewrite negb_false_iff. apply Qle_bool_iff. Qed.
Lemma Qltb_true a b : Qltb a b = true -> (a < b)%Q.
Proof.
  unfold Qltb. rewrite negb_true_iff. intros H. apply Qnot_le_lt. intros Hle. apply Qle_bool_iff in Hle. congruence.
Qed.
Lemma Qltb_asym a b : Qltb a b = true -> Qltb b a = false.
Proof. intros H. apply Qltb_false. apply Qlt_le_weak, Qltb_true, H. Qed.
Lemma Qltb_letrans a b c : Qltb b a = false -> Qltb c b = false -> Qltb c a = false.
Proof. rewrite !Qltb_false. intros H1 H2. eapply Qle_trans; eauto. Qed.
Lemma pos_positive (x : Q) : (0 < SR.pos QN x)%Q.
Proof.
  unfold SR.pos. cbn [leb zero QN SR.min_cost lit Qlit]. destruct (Qle_bool x 0) eqn:E.
  - reflexivity.
  - apply Qnot_le_lt. intros Hle. apply Qle_bool_iff in Hle. congruence.
Qed.

Section QWorld.
  Variable w : SR.world QN.
  Variable q : SR.query QN.
  Hypothesis Hclass : RR.in_class w = true.
  Hypothesis Hedges : RR.edges_in_graph w = true.
  Let g := SR.graph_of QN w.
  Let d := SR.q_dir QN q.
  Let okw := RR.okb w.

  Lemma class_fields : SR.w_fturn QN w = [] /\ SR.w_ferr QN w = [] /\ SR.w_terr QN w = [] /\ SR.w_turn QN w = []
                       /\ SR.w_term QN w = SR.TUnlimited.
  Proof.
    unfold RR.in_class in Hclass.
    destruct (SR.w_fturn QN w); [|discriminate]. destruct (SR.w_ferr QN w); [|discriminate].
    destruct (SR.w_terr QN w); [|discriminate]. destruct (SR.w_turn QN w); [|discriminate].
    destruct (SR.w_term QN w); try discriminate. auto.
  Qed.

  Lemma q_wf : wf_graph g.
  Proof.
    intros e Hin. unfold g, SR.graph_of in Hin. simpl in Hin. apply in_map_iff in Hin as ([a b]&<-&Hin). simpl.
    unfold RR.edges_in_graph in Hedges. rewrite forallb_forall in Hedges. specialize (Hedges _ Hin). simpl in Hedges.
    apply andb_true_iff in Hedges as [H1 H2]. unfold RR.in_graph in *. apply Nat.ltb_lt in H1, H2. auto.
  Qed.
  Lemma q_fr : forall e st prev, SR.frontier QN w e st prev = Ok (okw e).
  Proof.
    intros e st prev. destruct class_fields as (F1&F2&_). unfold SR.frontier, okw, RR.okb. rewrite F1, F2. simpl.
    destruct prev; simpl; rewrite andb_true_r; reflexivity.
  Qed.
  Lemma q_tr : forall dd e prev st, exists r, SR.traverse QN w dd e prev st = Ok r.
  Proof.
    intros dd e prev st. destruct class_fields as (_&_&F3&_). unfold SR.traverse. rewrite F3. simpl.
    destruct prev; [destruct dd|]; simpl; eauto.
  Qed.
  Lemma q_est wf : forall a b st, a < nverts g -> b < nverts g -> exists c, SR.estimate QN w wf a b st = Ok c.
  Proof.
    intros a b st Ha Hb. unfold SR.estimate. unfold g, SR.graph_of in Ha, Hb. simpl in Ha, Hb.
    rewrite (proj2 (Nat.ltb_lt _ _) Ha), (proj2 (Nat.ltb_lt _ _) Hb). simpl. eauto.
  Qed.
  Lemma q_init : exists i0, Ok (SR.w_init QN w) = Ok i0.
  Proof. eauto. Qed.
  Lemma q_term : forall a b, SR.terminate QN w a b = None.
  Proof. intros a b. destruct class_fields as (_&_&_&_&F5). unfold SR.terminate. rewrite F5. reflexivity. Qed.
  Lemma q_infl : forall dd e prev st ac tc st' a,
      SR.traverse QN w dd e prev st = Ok (ac, tc, st') -> Qltb (a + SR.pos QN (ac + tc)%Q) a = false.
  Proof.
    intros dd e prev st ac tc st' a _. apply Qltb_false. pose proof (pos_positive (ac + tc)%Q) as Hp.
    set (t := SR.pos QN (ac + tc)%Q) in *. lra.
  Qed.

  (* ---- vertex-oriented ---- *)
  Variable fuel : nat.
  Variable s : nat.
  Hypothesis Hs : s < SR.w_n QN w.

  Theorem q_nopath_only_if_unreachable t : t < SR.w_n QN w ->
    SR.run_vertex QN fuel w q s (Some t) = Err "nopath"%string -> ~ reachable okw d g s t.
  Proof.
    intros Ht. unfold SR.run_vertex.
    apply (vertex_nopath_unreachable (C:=Q) (St:=Q) _ _ _ _ g _ _ _ _ _ okw q_wf q_fr q_tr (q_est _) q_init d s Hs fuel t Ht).
  Qed.

  Theorem q_ok_is_route t r : t <> s -> t < SR.w_n QN w ->
    SR.run_vertex QN fuel w q s (Some t) = Ok r ->
    reachable okw d g s t
    /\ exists tree route, r_trees r = [tree] /\ r_routes r = [route] /\ route <> []
                          /\ pwalk okw d g s (map et_edge route) t.
  Proof.
    intros Hne Ht. unfold SR.run_vertex.
    apply (vertex_ok_route (C:=Q) (St:=Q) _ _ _ _ g _ _ _ _ _ okw q_wf q_fr q_tr (q_est _) q_init d s Hs fuel t r Hne Ht).
  Qed.

  Theorem q_answer_iff_partial t : t <> s -> t < SR.w_n QN w ->
    SR.run_vertex QN fuel w q s (Some t) <> OutOfFuel ->
    ((exists r, SR.run_vertex QN fuel w q s (Some t) = Ok r) <-> reachable okw d g s t)
    /\ (SR.run_vertex QN fuel w q s (Some t) = Err "nopath"%string <-> ~ reachable okw d g s t).
  Proof.
    intros Hne Ht Hfuel. unfold SR.run_vertex in *.
    apply (answer_iff_partial (C:=Q) (St:=Q) _ _ _ _ g _ _ _ _ _ okw q_wf q_fr q_tr (q_est _) q_init q_term
             Qltb_asym Qltb_letrans q_infl d s Hs fuel t Hne Ht).
    intros Hrun. apply Hfuel. apply (vertex_oof_of_astar (C:=Q) (St:=Q)). exact Hrun.
  Qed.

  Theorem q_tree_is_reachable_set r : SR.run_vertex QN fuel w q s None = Ok r ->
    exists tree, r_trees r = [tree] /\ forall v, is_Some (tree !! v) <-> (reachable okw d g s v /\ v <> s).
  Proof.
    unfold SR.run_vertex, Search.run_vertex_oriented.
    destruct (run_a_star _ _ _ _ _ _ _ _ _ _ _ _ _ _) as [[tree it]| | |] eqn:Hrun; simpl; try discriminate.
    intros H; inversion H; subst r; clear H. simpl. exists tree. split; [reflexivity|].
    apply (tree_is_reachable_set (C:=Q) (St:=Q) _ _ _ _ g _ _ _ _ _ okw q_wf q_fr q_tr (q_est _) q_init
             Qltb_asym Qltb_letrans q_infl d s Hs fuel tree it Hrun).
  Qed.
End QWorld.

End ReachQP.
