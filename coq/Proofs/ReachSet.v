(* C05: the executable reachability closure and the Bellman-Ford oracle of Model/Reach.v are correct.
     reachb_spec      reachb ok d g a b = true <-> reachable ok d g a b        (for every graph)
     reach_set_spec   x ∈ reach_set ok d g a  <-> reachable ok d g a x
     pwalkb_spec      the boolean walk check decides pwalk
     reachable_pwalk  reachable <-> some permitted walk exists
     bf_least         when the stability check accepts, every Bellman-Ford label is the cost of a permitted walk
                      and a lower bound of the cost of every permitted walk; labelled = reachable *)
From Coq Require Import List Arith Bool QArith Lia.
From stdpp Require Import gmap.
From RC Require Import Model.Search Model.Reach.
Import ListNotations.

Module ReachSetP.
Import Search Reach.

(* ---------------------------------------------------------------- edges with ids *)
Lemma combine_seq_spec {A} (l : list A) s i e :
  In (i, e) (combine (seq s (List.length l)) l) <-> (s <= i)%nat /\ nth_error l (i - s) = Some e.
Proof.
  revert s. induction l as [|x l IH]; intros s; simpl.
  - split; [tauto|]. intros [_ H]. destruct (i - s)%nat; discriminate.
  - rewrite IH. split.
    + intros [H | [H1 H2]].
      * inversion H; subst. split; [lia|]. rewrite Nat.sub_diag. reflexivity.
      * split; [lia|]. replace (i - s)%nat with (S (i - S s)) by lia. exact H2.
    + intros [H1 H2]. destruct (Nat.eq_dec i s) as [->|Hne].
      * rewrite Nat.sub_diag in H2. simpl in H2. left. congruence.
      * right. split; [lia|]. replace (i - s)%nat with (S (i - S s)) in H2 by lia. exact H2.
Qed.

Lemma iedges_spec g i e : In (i, e) (iedges g) <-> get_edge g i = Some e.
Proof.
  unfold iedges, get_edge. rewrite combine_seq_spec. rewrite Nat.sub_0_r. split; [tauto|]. intros H; split; [lia|exact H].
Qed.

Lemma get_edge_In g i e : get_edge g i = Some e -> In e (gedges g).
Proof. unfold get_edge. apply nth_error_In. Qed.

(* ---------------------------------------------------------------- reachable / pwalk *)
Lemma pwalk_snoc ok d g a es b e c : pwalk ok d g a es b -> pjoins ok d g e b c -> pwalk ok d g a (es ++ [e]) c.
Proof.
  induction 1 as [a|a e' b' r c' Hj Hw IH]; intros He; simpl.
  - econstructor; [exact He|constructor].
  - econstructor; [exact Hj|]. apply IH, He.
Qed.

Lemma pwalk_app ok d g a es b fs c : pwalk ok d g a es b -> pwalk ok d g b fs c -> pwalk ok d g a (es ++ fs) c.
Proof.
  induction 1 as [a|a e' b' r c' Hj Hw IH]; intros H2; simpl; [exact H2|].
  econstructor; [exact Hj|]. apply IH, H2.
Qed.

Lemma reachable_trans ok d g a b c : reachable ok d g a b -> reachable ok d g b c -> reachable ok d g a c.
Proof.
  intros Hab Hbc. induction Hbc as [|x y e Hbx IH Hj]; [exact Hab|].
  eapply reach_step; [exact IH|exact Hj].
Qed.

Lemma reachable_pwalk ok d g a b : reachable ok d g a b <-> exists es, pwalk ok d g a es b.
Proof.
  split.
  - induction 1 as [|x y e Hax [es IH] Hj].
    + exists []. constructor.
    + exists (es ++ [e]). eapply pwalk_snoc; eauto.
  - intros [es Hw]. induction Hw as [a|a e b r c Hj Hw IH]; [constructor|].
    eapply reachable_trans; [|exact IH]. eapply reach_step; [constructor|exact Hj].
Qed.

Lemma pwalkb_spec ok d g a es b : pwalkb ok d g a es b = true <-> pwalk ok d g a es b.
Proof.
  revert a. induction es as [|e r IH]; intros a; simpl.
  - rewrite Nat.eqb_eq. split; [intros ->; constructor|]. inversion 1; reflexivity.
  - destruct (get_edge g e) as [ed|] eqn:He.
    + rewrite !andb_true_iff, Nat.eqb_eq, IH. split.
      * intros [[Hok Ht] Hw]. econstructor; [|exact Hw]. exists ed. auto.
      * inversion 1 as [|a' e' b' r' c' Hj Hw]; subst. destruct Hj as (ed'&He'&Hok&Ht&Hk).
        rewrite He in He'. inversion He'; subst ed'. subst. auto.
    + split; [discriminate|]. inversion 1 as [|a' e' b' r' c' Hj Hw]; subst.
      destruct Hj as (ed'&He'&_). congruence.
Qed.

(* ---------------------------------------------------------------- the closure *)
Lemma step_fold_spec (ok : nat -> bool) d (R : gset nat) (l : list (nat * edge)) (acc : gset nat) x :
  x ∈ fold_left (fun acc ie => if ok (fst ie) && bool_decide (term_vertex d (snd ie) ∈ R)
                               then {[ key_vertex d (snd ie) ]} ∪ acc else acc) l acc
  <-> x ∈ acc \/ exists i e, In (i, e) l /\ ok i = true /\ term_vertex d e ∈ R /\ key_vertex d e = x.
Proof.
  revert acc. induction l as [|[i e] l IH]; intros acc; simpl.
  - split; [auto|]. intros [H|(i&e&[]&_)]. exact H.
  - rewrite IH. clear IH. split.
    + intros [H|(i'&e'&Hin&H)].
      * destruct (ok i) eqn:Hok; simpl in H; [|auto].
        destruct (bool_decide_reflect (term_vertex d e ∈ R)) as [HR|HR]; [|auto].
        apply elem_of_union in H as [H|H]; [|auto].
        apply elem_of_singleton in H. right. exists i, e. auto.
      * right. exists i', e'. tauto.
    + intros [H|(i'&e'&[Heq|Hin]&Hok&HR&Hk)].
      * left. destruct (ok i && bool_decide (term_vertex d e ∈ R)); [apply elem_of_union; auto|auto].
      * inversion Heq; subst i' e'. left. rewrite Hok. simpl.
        rewrite bool_decide_eq_true_2 by exact HR. apply elem_of_union. left. apply elem_of_singleton. auto.
      * right. exists i', e'. auto.
Qed.

Lemma step_set_elem ok d g R x :
  x ∈ step_set ok d g R <-> x ∈ R \/ exists y e, y ∈ R /\ pjoins ok d g e y x.
Proof.
  unfold step_set. rewrite step_fold_spec. split.
  - intros [H|(i&e&Hin&Hok&HR&Hk)]; [auto|]. right. exists (term_vertex d e), i. split; [exact HR|].
    exists e. apply iedges_spec in Hin. auto.
  - intros [H|(y&i&HR&(e&He&Hok&Ht&Hk))]; [auto|]. right. exists i, e. apply iedges_spec in He. subst y. auto.
Qed.

Lemma step_set_mono ok d g R : R ⊆ step_set ok d g R.
Proof. intros x Hx. apply step_set_elem. auto. Qed.

Lemma step_set_universe ok d g a R : R ⊆ universe d g a -> step_set ok d g R ⊆ universe d g a.
Proof.
  intros HR x Hx. apply step_set_elem in Hx as [Hx|(y&i&Hy&(e&He&_&_&Hk))]; [auto|].
  unfold universe. apply elem_of_union. right. apply elem_of_list_to_set, elem_of_list_In, in_map_iff.
  exists e. split; [exact Hk|]. eapply get_edge_In, He.
Qed.

Lemma iter_set_mono ok d g k R : R ⊆ iter_set ok d g k R.
Proof.
  revert R. induction k as [|k IH]; intros R; simpl; [reflexivity|].
  etransitivity; [apply step_set_mono|apply IH].
Qed.

Lemma iter_set_fixed ok d g k R : step_set ok d g R = R -> iter_set ok d g k R = R.
Proof. intros H. induction k as [|k IH]; simpl; [reflexivity|]. rewrite H. exact IH. Qed.

Lemma iter_set_closed ok d g a k R :
  R ⊆ universe d g a -> size (universe d g a) <= size R + k ->
  step_set ok d g (iter_set ok d g k R) ⊆ iter_set ok d g k R.
Proof.
  revert R. induction k as [|k IH]; intros R HU Hsz; simpl;
    (destruct (decide (step_set ok d g R = R)) as [Heq|Hne];
     [|assert (R ⊂ step_set ok d g R) as Hs
         by (split; [apply step_set_mono|]; intros Hsub; apply Hne; apply set_eq; intros x; split;
             [apply Hsub|apply step_set_mono]);
       apply subset_size in Hs]).
  - rewrite Heq. reflexivity.
  - exfalso. pose proof (subseteq_size _ _ (step_set_universe ok d g a R HU)). lia.
  - rewrite Heq. rewrite (iter_set_fixed _ _ _ _ _ Heq). rewrite Heq. reflexivity.
  - apply IH; [apply step_set_universe, HU|lia].
Qed.

Lemma iter_set_sound ok d g a k R :
  (forall x, x ∈ R -> reachable ok d g a x) -> forall x, x ∈ iter_set ok d g k R -> reachable ok d g a x.
Proof.
  revert R. induction k as [|k IH]; intros R HR x Hx; simpl in Hx; [auto|].
  eapply IH; [|exact Hx]. intros y Hy. apply step_set_elem in Hy as [Hy|(z&e&Hz&Hj)]; [auto|].
  eapply reach_step; [apply HR, Hz|exact Hj].
Qed.

Theorem reach_set_spec ok d g a x : x ∈ reach_set ok d g a <-> reachable ok d g a x.
Proof.
  unfold reach_set. split.
  - apply iter_set_sound. intros y Hy. apply elem_of_singleton in Hy. subst. constructor.
  - induction 1 as [|y z e Hay IH Hj].
    + apply iter_set_mono. apply elem_of_singleton. reflexivity.
    + eapply (iter_set_closed ok d g a).
      * intros w Hw. apply elem_of_singleton in Hw. subst. unfold universe. apply elem_of_union. left. apply elem_of_singleton. reflexivity.
      * lia.
      * apply step_set_elem. right. exists y, e. auto.
Qed.

Theorem reachb_spec ok d g a b : reachb ok d g a b = true <-> reachable ok d g a b.
Proof. unfold reachb. rewrite bool_decide_eq_true. apply reach_set_spec. Qed.

Corollary reachb_false ok d g a b : reachb ok d g a b = false <-> ~ reachable ok d g a b.
Proof. rewrite <- reachb_spec. destruct (reachb ok d g a b); split; congruence. Qed.

(* ---------------------------------------------------------------- Bellman-Ford over Q *)
Section BF.
  Variable ok : nat -> bool.
  Variable d : dir.
  Variable g : graph.
  Variable cost : nat -> Q.
  Variable a : nat.

  Lemma wcost_snoc es e z : wcost cost (es ++ [e]) z = (wcost cost es z + cost e)%Q.
  Proof. unfold wcost. rewrite fold_left_app. reflexivity. Qed.

  Lemma wcost_mono es z z' : (z <= z')%Q -> (wcost cost es z <= wcost cost es z')%Q.
  Proof.
    revert z z'. induction es as [|e r IH]; intros z z' H; simpl; [exact H|].
    apply IH. apply Qplus_le_compat; [exact H|apply Qle_refl].
  Qed.

  (* every label is the cost of a permitted walk from a *)
  Definition achieved (L : gmap nat Q) : Prop :=
    forall v l, L !! v = Some l -> exists es, pwalk ok d g a es v /\ wcost cost es 0 = l.

  Lemma bf_relax_achieved L ie : In ie (iedges g) -> achieved L -> achieved (bf_relax ok d cost L ie).
  Proof.
    destruct ie as [i e]. intros Hin HL. unfold bf_relax. simpl.
    destruct (ok i) eqn:Hok; [|exact HL].
    destruct (L !! term_vertex d e) as [l|] eqn:Ht; [|exact HL].
    assert (achieved (<[key_vertex d e := (l + cost i)%Q]> L)) as Hnew.
    { intros v lv Hv. destruct (decide (v = key_vertex d e)) as [->|Hne].
      - rewrite lookup_insert in Hv. inversion Hv; subst lv. destruct (HL _ _ Ht) as (es&Hw&Hc).
        exists (es ++ [i]). split.
        + eapply pwalk_snoc; [exact Hw|]. exists e. apply iedges_spec in Hin. auto.
        + rewrite wcost_snoc, Hc. reflexivity.
      - rewrite lookup_insert_ne in Hv by congruence. eapply HL, Hv. }
    destruct (L !! key_vertex d e) as [x|]; [|exact Hnew].
    destruct (Qle_bool x (l + cost i)); [exact HL|exact Hnew].
  Qed.

  Lemma bf_fold_achieved l L : (forall ie, In ie l -> In ie (iedges g)) -> achieved L ->
    achieved (fold_left (bf_relax ok d cost) l L).
  Proof.
    revert L. induction l as [|ie l IH]; intros L Hl HL; simpl; [exact HL|].
    apply IH; [intros; apply Hl; right; assumption|]. apply bf_relax_achieved; [apply Hl; left; reflexivity|exact HL].
  Qed.

  Lemma bf_iter_achieved k L : achieved L -> achieved (bf_iter ok d g cost k L).
  Proof.
    revert L. induction k as [|k IH]; intros L HL; simpl; [exact HL|].
    apply IH. unfold bf_round. apply bf_fold_achieved; [auto|exact HL].
  Qed.

  Lemma bf_achieved : achieved (bf ok d g cost a).
  Proof.
    unfold bf. apply bf_iter_achieved. intros v l Hv.
    destruct (decide (v = a)) as [->|Hne].
    - rewrite lookup_singleton in Hv. inversion Hv; subst. exists []. split; [constructor|reflexivity].
    - rewrite lookup_singleton_ne in Hv by congruence. discriminate.
  Qed.

  (* a stable labelling bounds every permitted walk from below *)
  Lemma stable_lower L : bf_stable ok d g cost a L = true ->
    forall x es u, pwalk ok d g x es u -> forall lx, L !! x = Some lx ->
      exists lu, L !! u = Some lu /\ (lu <= wcost cost es lx)%Q.
  Proof.
    unfold bf_stable. rewrite andb_true_iff. intros [_ Hall]. rewrite forallb_forall in Hall.
    induction 1 as [x|x e y r u Hj Hw IH]; intros lx Hx.
    - exists lx. split; [exact Hx|apply Qle_refl].
    - destruct Hj as (ed&He&Hok&Ht&Hk). apply iedges_spec in He. specialize (Hall _ He). simpl in Hall.
      rewrite Hok in Hall. simpl in Hall. rewrite Ht, Hx, Hk in Hall.
      destruct (L !! y) as [ly|] eqn:Hy; [|discriminate]. apply Qle_bool_iff in Hall.
      destruct (IH _ eq_refl) as (lu&Hu&Hle). exists lu. split; [exact Hu|].
      simpl. eapply Qle_trans; [exact Hle|]. apply wcost_mono, Hall.
  Qed.

  Theorem bf_least : bf_stable ok d g cost a (bf ok d g cost a) = true ->
    (forall v, is_Some (bf ok d g cost a !! v) <-> reachable ok d g a v)
    /\ forall v l, bf ok d g cost a !! v = Some l ->
         (exists es, pwalk ok d g a es v /\ wcost cost es 0 = l)
         /\ forall es, pwalk ok d g a es v -> (l <= wcost cost es 0)%Q.
  Proof.
    intros Hst.
    assert (exists z, bf ok d g cost a !! a = Some z /\ (z <= 0)%Q) as (z&Hz&Hz0).
    { unfold bf_stable in Hst. apply andb_true_iff in Hst as [H _].
      destruct (bf ok d g cost a !! a) as [z|]; [|discriminate]. exists z. split; [reflexivity|]. apply Qle_bool_iff, H. }
    split.
    - intros v. split.
      + intros [l Hl]. destruct (bf_achieved _ _ Hl) as (es&Hw&_). apply reachable_pwalk. eauto.
      + intros Hr. apply reachable_pwalk in Hr as [es Hw].
        destruct (stable_lower _ Hst _ _ _ Hw _ Hz) as (lu&Hu&_). eauto.
    - intros v l Hl. split; [eapply bf_achieved, Hl|].
      intros es Hw. destruct (stable_lower _ Hst _ _ _ Hw _ Hz) as (lu&Hu&Hle).
      rewrite Hl in Hu. inversion Hu; subst lu. eapply Qle_trans; [exact Hle|]. apply wcost_mono, Hz0.
  Qed.
End BF.

End ReachSetP.
