(* C05: the two-sided statements.  Imports C01's tree invariant (Proofs/SearchInv.v: run_a_star_tree) and
   backtracking lemma (Proofs/SearchBacktrack.v: backtrack_ok) to know that backtracking succeeds on the tree of
   a successful search.
     answer_iff_partial     (any heuristic / weight factor; premise: the run did not run out of fuel)
                            Ok <-> reachable,  Err "nopath" <-> unreachable
     dijkstra_answer_iff    (zero estimate) the same with the explicit fuel bound |universe| + 1
     dijkstra_notarget_returns   a destination-less Dijkstra-like search returns with that fuel *)
From Coq Require Import List Arith Bool String Lia.
From stdpp Require Import gmap.
From RC Require Import Base.Res Model.Search Model.SearchSpec Model.Reach.
From RC Require Import Proofs.SearchTree Proofs.SearchInv Proofs.SearchBacktrack.
From RC Require Import Proofs.ReachSet Proofs.ReachInv Proofs.ReachMain Proofs.ReachCost Proofs.ReachFuel.
Import ListNotations.

Module ReachTopP.
Import Search Reach ReachSetP ReachInvP ReachMainP ReachCostP ReachFuelP.

Section Top.
  Context {C St : Type}.
  Variable clt : C -> C -> bool.
  Variable cadd : C -> C -> C.
  Variable czero : C.
  Variable cfloor : C -> C.
  Variable g : graph.
  Variable frontier : nat -> St -> option nat -> res bool.
  Variable traverse : dir -> nat -> option nat -> St -> res (C * C * St).
  Variable estimate : nat -> nat -> St -> res C.
  Variable init_state : res St.
  Variable terminate : nat -> nat -> option string.
  Variable ok : nat -> bool.
  Hypothesis Hwf : wf_graph g.
  Hypothesis Hfr : forall e st prev, frontier e st prev = Ok (ok e).
  Hypothesis Htr : forall d e prev st, exists r, traverse d e prev st = Ok r.
  Hypothesis Hest : forall a b st, a < nverts g -> b < nverts g -> exists c, estimate a b st = Ok c.
  Hypothesis Hinit : exists i0, init_state = Ok i0.
  Hypothesis Hterm : forall a b, terminate a b = None.
  Notation le := (le clt).
  Hypothesis Hasym : forall a b, clt a b = true -> clt b a = false.
  Hypothesis Hletrans : forall a b c, le a b -> le b c -> le a c.
  Hypothesis Hinfl : forall dd e prev st ac tc st' a, traverse dd e prev st = Ok (ac, tc, st') -> le a (cadd a (cfloor (cadd ac tc))).

  Variable d : dir.
  Variable source : nat.
  Hypothesis Hsrc : source < nverts g.

  Notation run_a_star := (run_a_star clt cadd czero cfloor g frontier traverse estimate init_state terminate).
  Notation run_vertex_oriented := (run_vertex_oriented clt cadd czero cfloor g frontier traverse estimate init_state terminate).

  Instance le_preorder : PreOrder le.
  Proof. split; [intros a; apply (le_refl clt Hasym)|intros a b c; apply Hletrans]. Qed.

  Lemma tree_inv_of_run fuel target tr it : run_a_star fuel d source target = Ok (tr, it) -> TreeInv g d source tr.
  Proof.
    apply (run_a_star_tree clt cadd czero cfloor g frontier traverse estimate init_state terminate le).
    - exact Hasym.
    - intros a b H1 H2. unfold ReachCostP.le in H2. congruence.
    - intros dd e last st ac tc st' gc H. eapply Hinfl, H.
  Qed.

  (* a successful search with a destination always yields a route *)
  Lemma found_gives_route fuel t tr it : t <> source -> t < nverts g ->
    run_a_star fuel d source (Some t) = Ok (tr, it) -> exists r, run_vertex_oriented fuel d source (Some t) = Ok r.
  Proof.
    intros Hne Hlt Hrun. pose proof (a_star_target_spec clt cadd czero cfloor g frontier traverse estimate init_state terminate ok
                                   Hwf Hfr Htr Hest Hinit d source Hsrc fuel t Hne Hlt) as Hs.
    rewrite Hrun in Hs. destruct Hs as (_&Hin&_).
    destruct (backtrack_ok g d source tr (tree_inv_of_run _ _ _ _ Hrun) t Hin) as (route&Hroute&_).
    unfold Search.run_vertex_oriented. rewrite Hrun. simpl. rewrite Hroute. simpl. eauto.
  Qed.

  Theorem answer_iff_partial fuel t : t <> source -> t < nverts g ->
    run_a_star fuel d source (Some t) <> OutOfFuel ->
    ((exists r, run_vertex_oriented fuel d source (Some t) = Ok r) <-> reachable ok d g source t)
    /\ (run_vertex_oriented fuel d source (Some t) = Err "nopath"%string <-> ~ reachable ok d g source t).
  Proof.
    intros Hne Hlt Hfuel.
    pose proof (a_star_target_spec clt cadd czero cfloor g frontier traverse estimate init_state terminate ok
                  Hwf Hfr Htr Hest Hinit d source Hsrc fuel t Hne Hlt) as Hs.
    split; split.
    - intros [r Hr]. eapply (vertex_ok_route clt cadd czero cfloor g frontier traverse estimate init_state terminate ok); eauto.
    - intros Hr. destruct (run_a_star fuel d source (Some t)) as [[tr it]|c|w|] eqn:Hrun; try contradiction.
      + eapply found_gives_route; eauto.
      + destruct Hs as [(_&Hu)|(why&a&b&Hw&_)]; [contradiction|]. rewrite Hterm in Hw. discriminate.
    - eapply (vertex_nopath_unreachable clt cadd czero cfloor g frontier traverse estimate init_state terminate ok); eauto.
    - intros Hu. unfold Search.run_vertex_oriented.
      destruct (run_a_star fuel d source (Some t)) as [[tr it]|c|w|] eqn:Hrun; try contradiction.
      + destruct Hs as (Hr&_). contradiction.
      + destruct Hs as [(->&_)|(why&a&b&Hw&_)]; [reflexivity|]. rewrite Hterm in Hw. discriminate.
  Qed.
End Top.

Section TopDijkstra.
  Context {C St : Type}.
  Variable clt : C -> C -> bool.
  Variable cadd : C -> C -> C.
  Variable czero : C.
  Variable cfloor : C -> C.
  Variable g : graph.
  Variable frontier : nat -> St -> option nat -> res bool.
  Variable traverse : dir -> nat -> option nat -> St -> res (C * C * St).
  Variable estimate : nat -> nat -> St -> res C.
  Variable init_state : res St.
  Variable terminate : nat -> nat -> option string.
  Variable ok : nat -> bool.
  Hypothesis Hwf : wf_graph g.
  Hypothesis Hfr : forall e st prev, frontier e st prev = Ok (ok e).
  Hypothesis Htr : forall d e prev st, exists r, traverse d e prev st = Ok r.
  Hypothesis Hest0 : forall a b st, a < nverts g -> b < nverts g -> estimate a b st = Ok czero.
  Hypothesis Hinit : exists i0, init_state = Ok i0.
  Hypothesis Hterm : forall a b, terminate a b = None.
  Notation le := (le clt).
  Hypothesis Hzero : forall x, le (cadd x czero) x /\ le x (cadd x czero).
  Hypothesis Hasym : forall a b, clt a b = true -> clt b a = false.
  Hypothesis Hletrans : forall a b c, le a b -> le b c -> le a c.
  Hypothesis Hinfl : forall dd e prev st ac tc st' a, traverse dd e prev st = Ok (ac, tc, st') -> le a (cadd a (cfloor (cadd ac tc))).

  Variable d : dir.
  Variable source : nat.
  Hypothesis Hsrc : source < nverts g.
  Notation run_a_star := (run_a_star clt cadd czero cfloor g frontier traverse estimate init_state terminate).
  Notation run_vertex_oriented := (run_vertex_oriented clt cadd czero cfloor g frontier traverse estimate init_state terminate).

  Lemma Hest_ex : forall a b st, a < nverts g -> b < nverts g -> exists c, estimate a b st = Ok c.
  Proof. intros. rewrite Hest0 by assumption. eauto. Qed.

  Theorem dijkstra_answer_iff fuel t : t <> source -> t < nverts g -> size (universe d g source) < fuel ->
    ((exists r, run_vertex_oriented fuel d source (Some t) = Ok r) <-> reachable ok d g source t)
    /\ (run_vertex_oriented fuel d source (Some t) = Err "nopath"%string <-> ~ reachable ok d g source t).
  Proof.
    intros Hne Hlt Hf.
    apply (answer_iff_partial clt cadd czero cfloor g frontier traverse estimate init_state terminate ok Hwf Hfr Htr
             Hest_ex Hinit Hterm Hasym Hletrans Hinfl d source Hsrc fuel t Hne Hlt).
    apply (dijkstra_fuel clt cadd czero cfloor g frontier traverse estimate init_state terminate ok Hwf Hfr Htr Hest0 Hinit Hzero
             Hasym Hletrans Hinfl d source (Some t) (tgt_some g t Hlt) Hsrc); [|exact Hf].
    intros t0 [= <-]. exact Hne.
  Qed.

  Theorem dijkstra_notarget_returns fuel : size (universe d g source) < fuel ->
    exists r, run_vertex_oriented fuel d source None = Ok r.
  Proof.
    intros Hf.
    assert (Hts : forall t, @None nat = Some t -> t <> source) by discriminate.
    pose proof (dijkstra_fuel clt cadd czero cfloor g frontier traverse estimate init_state terminate ok Hwf Hfr Htr Hest0 Hinit Hzero
                  Hasym Hletrans Hinfl d source None (tgt_none g) Hsrc Hts fuel Hf) as Hnf.
    pose proof (a_star_notarget_spec clt cadd czero cfloor g frontier traverse estimate init_state terminate ok Hwf Hfr Htr
                  Hest_ex Hinit d source Hsrc fuel) as Hs.
    unfold Search.run_vertex_oriented.
    destruct (run_a_star fuel d source None) as [[tr it]|c|w|]; simpl; try contradiction; eauto.
    destruct Hs as (why&a&b&Hw&_). rewrite Hterm in Hw. discriminate.
  Qed.
End TopDijkstra.

End ReachTopP.
