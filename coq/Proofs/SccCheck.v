(* Soundness of the boolean checker Scc.check_scc / Scc.check_largest (run on the
   implementation's output by the C18 correspondence stream) and basic facts about [reach]. *)
From Coq Require Import List Arith Bool Lia.
From RC Require Import Base.Res Model.Scc.
Import ListNotations.
Import Scc.

Lemma mem_In : forall v l, mem v l = true <-> In v l.
Proof.
  intros v l. unfold mem. rewrite existsb_exists. split.
  - intros [x [Hx He]]. apply Nat.eqb_eq in He. subst x. exact Hx.
  - intros H. exists v. split; [exact H | apply Nat.eqb_refl].
Qed.
Lemma mem_false : forall v l, mem v l = false <-> ~ In v l.
Proof.
  intros v l. rewrite <- mem_In. destruct (mem v l); split; intros H; try discriminate; auto.
  exfalso. apply H. reflexivity.
Qed.

Lemma succs_spec : forall g v w, In w (succs g v) <-> In (v, w) (edges g).
Proof.
  intros g v w. unfold succs. rewrite in_map_iff. split.
  - intros [[s d] [Hd Hin]]. apply filter_In in Hin. destruct Hin as [Hin He].
    cbn in *. apply Nat.eqb_eq in He. subst. exact Hin.
  - intros H. exists (v, w). split; [reflexivity|]. apply filter_In. split; [exact H|].
    cbn. apply Nat.eqb_refl.
Qed.
Lemma preds_spec : forall g v u, In u (preds g v) <-> In (u, v) (edges g).
Proof.
  intros g v u. unfold preds. rewrite in_map_iff. split.
  - intros [[s d] [Hd Hin]]. apply filter_In in Hin. destruct Hin as [Hin He].
    cbn in *. apply Nat.eqb_eq in He. subst. exact Hin.
  - intros H. exists (u, v). split; [reflexivity|]. apply filter_In. split; [exact H|].
    cbn. apply Nat.eqb_refl.
Qed.

Lemma reach_trans : forall g x y z, reach g x y -> reach g y z -> reach g x z.
Proof.
  intros g x y z H. induction H as [x | x y' y He Hr IH]; intros Hz; [exact Hz|].
  eapply reach_step; [exact He | exact (IH Hz)].
Qed.
Lemma reach_step_r : forall g x y z, reach g x y -> In (y, z) (edges g) -> reach g x z.
Proof.
  intros g x y z H He. eapply reach_trans; [exact H|]. eapply reach_step; [exact He | apply reach_refl].
Qed.
Lemma wfb_wf : forall g, wfb g = true -> wf g.
Proof.
  intros g H s d Hin. unfold wfb in H. rewrite forallb_forall in H. specialize (H _ Hin).
  cbn in H. apply andb_true_iff in H. destruct H as [H1 H2].
  apply Nat.ltb_lt in H1. apply Nat.ltb_lt in H2. split; assumption.
Qed.
Lemma wf_wfb : forall g, wf g -> wfb g = true.
Proof.
  intros g H. unfold wfb. apply forallb_forall. intros [s d] Hin. destruct (H s d Hin) as [H1 H2].
  cbn. apply andb_true_iff. split; apply Nat.ltb_lt; assumption.
Qed.

(* ---- reflexive-transitive closure of an adjacency function ---- *)
Inductive star (next : nat -> list nat) : nat -> nat -> Prop :=
| star_refl x : star next x x
| star_step x y z : In y (next x) -> star next y z -> star next x z.

Lemma star_step_r : forall next x y z, star next x y -> In z (next y) -> star next x z.
Proof.
  intros next x y z H. induction H as [x | x y' y He Hr IH]; intros Hz.
  - eapply star_step; [exact Hz | apply star_refl].
  - eapply star_step; [exact He | exact (IH Hz)].
Qed.
Lemma star_succs : forall g x y, star (succs g) x y <-> reach g x y.
Proof.
  intros g x y. split; intros H.
  - induction H as [x | x y' y He Hr IH]; [apply reach_refl|].
    eapply reach_step; [apply succs_spec; exact He | exact IH].
  - induction H as [x | x y' y He Hr IH]; [apply star_refl|].
    eapply star_step; [apply succs_spec; exact He | exact IH].
Qed.
Lemma star_preds : forall g x y, star (preds g) x y <-> reach g y x.
Proof.
  intros g x y. split; intros H.
  - induction H as [x | x y' y He Hr IH]; [apply reach_refl|].
    eapply reach_step_r; [exact IH | apply preds_spec; exact He].
  - induction H as [x | x y' y He Hr IH]; [apply star_refl|].
    eapply star_step_r; [exact IH | apply preds_spec; exact He].
Qed.

Lemma closure_sound : forall next r fuel vis work,
    (forall x, In x vis -> star next r x) -> (forall x, In x work -> star next r x) ->
    forall x, In x (closure next fuel vis work) -> star next r x.
Proof.
  intros next r fuel. induction fuel as [|f IH]; intros vis work Hv Hw x Hx; cbn in Hx.
  - apply Hv, Hx.
  - destruct work as [|v w]; [apply Hv, Hx|].
    destruct (mem v vis) eqn:Em.
    + apply (IH vis w); auto. intros y Hy. apply Hw. right. exact Hy.
    + apply (IH (v :: vis) (next v ++ w)); auto.
      * intros y [Hy | Hy]; [subst y; apply Hw; left; reflexivity | apply Hv, Hy].
      * intros y Hy. apply in_app_or in Hy. destruct Hy as [Hy | Hy].
        -- eapply star_step_r; [apply Hw; left; reflexivity | exact Hy].
        -- apply Hw. right. exact Hy.
Qed.
Lemma closed_complete : forall next R, closedb next R = true ->
    forall r x, star next r x -> In r R -> In x R.
Proof.
  intros next R Hc r x H. induction H as [x | x y z He Hr IH]; intros Hin; [exact Hin|].
  apply IH. unfold closedb in Hc. rewrite forallb_forall in Hc. specialize (Hc _ Hin).
  rewrite forallb_forall in Hc. apply mem_In. apply Hc. exact He.
Qed.
Lemma subsetb_incl : forall a b, subsetb a b = true -> incl a b.
Proof.
  intros a b H x Hx. unfold subsetb in H. rewrite forallb_forall in H. apply mem_In. apply H, Hx.
Qed.
Lemma nodupb_NoDup : forall l, nodupb l = true -> NoDup l.
Proof.
  induction l as [|x r IH]; intros H; [constructor|]. cbn in H. apply andb_true_iff in H.
  destruct H as [H1 H2]. constructor; [|apply IH, H2].
  apply negb_true_iff in H1. apply mem_false in H1. exact H1.
Qed.

(* a component accepted by the checker is exactly the mutual-reachability class of its head *)
Lemma check_comp_sound : forall g fuel c, check_comp g fuel c = true ->
    exists r, In r c /\ forall u, In u c <-> (reach g r u /\ reach g u r).
Proof.
  intros g fuel c H. destruct c as [|r c']; [discriminate|]. exists r. split; [left; reflexivity|].
  unfold check_comp in H.
  set (F := closure (succs g) fuel [] [r]) in *. set (B := closure (preds g) fuel [] [r]) in *.
  apply andb_true_iff in H; destruct H as [H Hc5]. apply andb_true_iff in H; destruct H as [H Hc4].
  apply andb_true_iff in H; destruct H as [H Hc3]. apply andb_true_iff in H; destruct H as [H Hc2].
  apply andb_true_iff in H; destruct H as [H Hc1]. apply andb_true_iff in H; destruct H as [H Hc].
  apply mem_In in H. apply mem_In in Hc.
  assert (HF : forall x, In x F -> reach g r x).
  { intros x Hx. apply star_succs. apply (closure_sound (succs g) r fuel [] [r]); auto.
    - intros y [].
    - intros y [Hy | []]. subst y. apply star_refl. }
  assert (HB : forall x, In x B -> reach g x r).
  { intros x Hx. apply star_preds. apply (closure_sound (preds g) r fuel [] [r]); auto.
    - intros y [].
    - intros y [Hy | []]. subst y. apply star_refl. }
  intros u. split.
  - intros Hu. split; [apply HF, (subsetb_incl _ _ Hc3), Hu | apply HB, (subsetb_incl _ _ Hc4), Hu].
  - intros [H1 H2].
    assert (HuF : In u F) by (apply (closed_complete _ _ Hc1 r u); [apply star_succs, H1 | exact H]).
    assert (HuB : In u B) by (apply (closed_complete _ _ Hc2 r u); [apply star_preds, H2 | exact Hc]).
    rewrite forallb_forall in Hc5. specialize (Hc5 _ HuF). apply orb_true_iff in Hc5.
    destruct Hc5 as [Hn | Hm]; [|apply mem_In, Hm].
    apply negb_true_iff in Hn. apply mem_false in Hn. contradiction.
Qed.

Lemma check_partition_sound : forall n comps, check_partition n comps = true ->
    NoDup (concat comps) /\ forall v, In v (concat comps) <-> v < n.
Proof.
  intros n comps H. unfold check_partition in H.
  apply andb_true_iff in H; destruct H as [H Hc]. apply andb_true_iff in H; destruct H as [H Hc0].
  split; [apply nodupb_NoDup, Hc0|]. intros v. split.
  - intros Hv. rewrite forallb_forall in H. apply Nat.ltb_lt. apply H, Hv.
  - intros Hv. rewrite forallb_forall in Hc. apply mem_In. apply Hc. apply in_seq. lia.
Qed.

Theorem check_scc_sound : forall g comps, check_scc g comps = true ->
    wf g /\ partition (nv g) comps
    /\ (forall u v, same_comp comps u v -> mutual g u v)
    /\ (forall u v, u < nv g -> mutual g u v -> same_comp comps u v).
Proof.
  intros g comps H. unfold check_scc in H.
  apply andb_true_iff in H; destruct H as [H Hc]. apply andb_true_iff in H; destruct H as [H Hc0].
  rewrite forallb_forall in Hc.
  destruct (check_partition_sound _ _ Hc0) as [Hnd Hall].
  split; [apply wfb_wf, H|]. split; [|split].
  - split; [exact Hnd|]. split; [exact Hall|]. intros Hin. specialize (Hc _ Hin). discriminate.
  - intros u v [c [Hin [Hu Hv]]]. destruct (check_comp_sound _ _ _ (Hc _ Hin)) as [r [_ Hr]].
    apply Hr in Hu. apply Hr in Hv. destruct Hu as [Hu1 Hu2]. destruct Hv as [Hv1 Hv2].
    split; eapply reach_trans; eauto.
  - intros u v Hu [Huv Hvu]. apply Hall in Hu. apply in_concat in Hu. destruct Hu as [c [Hin Huc]].
    exists c. split; [exact Hin|]. split; [exact Huc|].
    destruct (check_comp_sound _ _ _ (Hc _ Hin)) as [r [_ Hr]].
    apply Hr in Huc. destruct Huc as [H1 H2]. apply Hr.
    split; eapply reach_trans; eauto.
Qed.

Lemma list_eqb_eq : forall a b, list_eqb a b = true -> a = b.
Proof.
  induction a as [|x a IH]; intros [|y b] H; cbn in H; try discriminate; [reflexivity|].
  apply andb_true_iff in H. destruct H as [H1 H2]. apply Nat.eqb_eq in H1. subst y.
  f_equal. apply IH, H2.
Qed.
Theorem check_largest_sound : forall comps l, check_largest comps l = true ->
    (forall c, In c comps -> length c <= length l) /\ (In l comps \/ (comps = [] /\ l = [])).
Proof.
  intros comps l H. unfold check_largest in H. apply andb_true_iff in H. destruct H as [H1 H2].
  split.
  - intros c Hc. rewrite forallb_forall in H1. apply Nat.leb_le. apply H1, Hc.
  - apply orb_true_iff in H2. destruct H2 as [H2 | H2].
    + left. apply existsb_exists in H2. destruct H2 as [c [Hc He]]. apply list_eqb_eq in He.
      subst c. exact Hc.
    + right. destruct comps; [|discriminate]. destruct l; [|discriminate]. split; reflexivity.
Qed.

(* the model's `largest` *)
Definition pick (best c : list nat) : list nat := if length best <? length c then c else best.
Lemma largest_fold : forall l best,
    length best <= length (fold_left pick l best)
    /\ (forall c, In c l -> length c <= length (fold_left pick l best))
    /\ (In (fold_left pick l best) l \/ fold_left pick l best = best).
Proof.
  induction l as [|c l IH]; intros best; cbn [fold_left].
  - split; [lia|]. split; [intros c []|]. right. reflexivity.
  - unfold pick at 2 4 6 8. destruct (length best <? length c) eqn:E.
    + apply Nat.ltb_lt in E. destruct (IH c) as [I1 [I2 I3]]. split; [lia|]. split.
      * intros c' [Hc | Hc]; [subst c'; exact I1 | apply I2, Hc].
      * left. destruct I3 as [I3 | I3]; [right; exact I3 | left; symmetry; exact I3].
    + apply Nat.ltb_ge in E. destruct (IH best) as [I1 [I2 I3]]. split; [lia|]. split.
      * intros c' [Hc | Hc]; [subst c'; lia | apply I2, Hc].
      * destruct I3 as [I3 | I3]; [left; right; exact I3 | right; exact I3].
Qed.
Lemma largest_of_spec : forall comps,
    (forall c, In c comps -> length c <= length (largest_of comps))
    /\ (In (largest_of comps) comps \/ largest_of comps = []).
Proof.
  intros comps. change (largest_of comps) with (fold_left pick comps []).
  destruct (largest_fold comps []) as [_ [G2 G3]]. split; [exact G2 | exact G3].
Qed.
