(* Completeness of the boolean checker Scc.check_scc / Scc.check_largest: a correct answer is
   always accepted (the S line of the C18 stream can never raise a false alarm).  The only real
   work is termination of the worklist closure within check_fuel g steps: the potential
   |work| + #{edges whose source (resp. target) is not yet visited} drops by one per step. *)
From Coq Require Import List Arith Bool Lia.
From RC Require Import Base.Res Model.Scc Proofs.SccCheck.
Import ListNotations.
Import Scc.

Section Closure.
Variable E : list (nat * nat).
Variables key val : nat * nat -> nat.
Definition nextE (v : nat) : list nat := map val (filter (fun e => key e =? v) E).
Definition pending (vis : list nat) : nat := length (filter (fun e => negb (mem (key e) vis)) E).

Lemma mem_cons : forall x v vis, mem x (v :: vis) = (x =? v) || mem x vis.
Proof. reflexivity. Qed.

Lemma pending_cons : forall v vis, ~ In v vis ->
    pending vis = pending (v :: vis) + length (nextE v).
Proof.
  intros v vis Hn. unfold pending, nextE. rewrite map_length.
  induction E as [|e l IH]; [reflexivity|]. cbn [filter]. rewrite mem_cons.
  destruct (key e =? v) eqn:Ek.
  - apply Nat.eqb_eq in Ek. rewrite Ek. apply mem_false in Hn. rewrite Hn. cbn [orb negb length].
    rewrite IH. lia.
  - cbn [orb]. destruct (negb (mem (key e) vis)); cbn [length]; rewrite IH; lia.
Qed.

Lemma closure_done : forall fuel vis work,
    length work + pending vis < fuel ->
    (forall x y, In x vis -> In y (nextE x) -> In y vis \/ In y work) ->
    incl vis (closure nextE fuel vis work)
    /\ incl work (closure nextE fuel vis work)
    /\ (forall x y, In x (closure nextE fuel vis work) -> In y (nextE x) ->
                    In y (closure nextE fuel vis work)).
Proof.
  induction fuel as [|f IH]; intros vis work Hf Hinv; [lia|].
  cbn [closure]. destruct work as [|v w].
  - split; [apply incl_refl|]. split; [intros x []|].
    intros x y Hx Hy. destruct (Hinv x y Hx Hy) as [H | []]. exact H.
  - destruct (mem v vis) eqn:Em.
    + apply mem_In in Em. destruct (IH vis w) as [I1 [I2 I3]].
      * cbn [length] in Hf. lia.
      * intros x y Hx Hy. destruct (Hinv x y Hx Hy) as [H | [H | H]]; auto.
        subst y. left. exact Em.
      * split; [exact I1|]. split; [|exact I3].
        intros x [Hx | Hx]; [subst x; apply I1, Em | apply I2, Hx].
    + apply mem_false in Em. destruct (IH (v :: vis) (nextE v ++ w)) as [I1 [I2 I3]].
      * rewrite app_length. cbn [length] in Hf. rewrite (pending_cons v vis Em) in Hf. lia.
      * intros x y [Hx | Hx] Hy.
        -- subst x. right. apply in_or_app. left. exact Hy.
        -- destruct (Hinv x y Hx Hy) as [H | [H | H]].
           ++ left. right. exact H.
           ++ subst y. left. left. reflexivity.
           ++ right. apply in_or_app. right. exact H.
      * split; [intros x Hx; apply I1; right; exact Hx|]. split; [|exact I3].
        intros x [Hx | Hx]; [subst x; apply I1; left; reflexivity|].
        apply I2. apply in_or_app. right. exact Hx.
Qed.

Lemma filter_len_le_all : forall {A} (p : A -> bool) l, length (filter p l) <= length l.
Proof.
  intros A p l. induction l as [|a l IH]; [cbn; lia|]. cbn [filter].
  destruct (p a); cbn [length]; lia.
Qed.

Lemma closure_root : forall fuel r, S (length E) < fuel ->
    In r (closure nextE fuel [] [r]) /\ closedb nextE (closure nextE fuel [] [r]) = true.
Proof.
  intros fuel r Hf. destruct (closure_done fuel [] [r]) as [_ [I2 I3]].
  - cbn [length]. unfold pending. pose proof (filter_len_le_all (fun e => negb (mem (key e) [])) E). lia.
  - intros x y [].
  - split; [apply I2; left; reflexivity|]. unfold closedb. apply forallb_forall. intros x Hx.
    apply forallb_forall. intros y Hy. apply mem_In. eapply I3; eauto.
Qed.
End Closure.

Lemma succs_nextE : forall g v, succs g v = nextE (edges g) fst snd v.
Proof. reflexivity. Qed.
Lemma preds_nextE : forall g v, preds g v = nextE (edges g) snd fst v.
Proof. reflexivity. Qed.

Lemma closure_ext : forall (n1 n2 : nat -> list nat), (forall v, n1 v = n2 v) ->
    forall fuel vis work, closure n1 fuel vis work = closure n2 fuel vis work.
Proof.
  intros n1 n2 H. induction fuel as [|f IH]; intros vis work; [reflexivity|]. cbn [closure].
  destruct work as [|v w]; [reflexivity|]. destruct (mem v vis); [apply IH|]. rewrite H. apply IH.
Qed.

Lemma NoDup_nodupb : forall l, NoDup l -> nodupb l = true.
Proof.
  induction l as [|x r IH]; intros H; [reflexivity|]. inversion H as [|? ? Hx Hr]. subst.
  cbn [nodupb]. apply andb_true_iff. split; [|apply IH, Hr].
  apply negb_true_iff. apply mem_false. exact Hx.
Qed.

Lemma nodup_app_disj : forall (a b : list nat) x, NoDup (a ++ b) -> In x a -> In x b -> False.
Proof.
  induction a as [|y a IH]; intros b x H Ha Hb; [destruct Ha|]. cbn [app] in H.
  inversion H as [|? ? Hy Hr]. subst. destruct Ha as [Ha | Ha].
  - subst y. apply Hy. apply in_or_app. right. exact Hb.
  - eapply IH; eauto.
Qed.

Lemma nodup_app_r : forall (a b : list nat), NoDup (a ++ b) -> NoDup b.
Proof.
  induction a as [|y a IH]; intros b H; [exact H|]. cbn [app] in H. inversion H. apply IH. assumption.
Qed.

(* blocks of a duplicate-free concatenation that share an element are the same block *)
Lemma block_unique : forall (comps : list (list nat)) c c' x,
    NoDup (concat comps) -> In c comps -> In c' comps -> In x c -> In x c' -> c = c'.
Proof.
  induction comps as [|a rest IH]; intros c c' x Hnd Hc Hc' Hx Hx'; [destruct Hc|].
  cbn [concat] in Hnd. destruct Hc as [Hc | Hc]; destruct Hc' as [Hc' | Hc'].
  - subst. reflexivity.
  - subst a. exfalso. apply (nodup_app_disj _ _ x Hnd Hx). apply in_concat. exists c'. auto.
  - subst a. exfalso. apply (nodup_app_disj _ _ x Hnd Hx'). apply in_concat. exists c. auto.
  - apply nodup_app_r in Hnd. eapply IH; eauto.
Qed.

(* every vertex lies in exactly one block of a partition *)
Lemma partition_exactly_one : forall n comps, partition n comps -> forall v, v < n ->
    exists c, In c comps /\ In v c /\ forall c', In c' comps -> In v c' -> c' = c.
Proof.
  intros n comps [Hnd [Hall _]] v Hv. apply Hall in Hv. apply in_concat in Hv.
  destruct Hv as [c [Hc Hvc]]. exists c. split; [exact Hc|]. split; [exact Hvc|].
  intros c' Hc' Hvc'. eapply block_unique; eauto.
Qed.

Lemma andb7 : forall a b c d e f g : bool,
    a = true -> b = true -> c = true -> d = true -> e = true -> f = true -> g = true ->
    a && b && c && d && e && f && g = true.
Proof. intros a b c d e f g -> -> -> -> -> -> ->. reflexivity. Qed.

Lemma check_comp_complete : forall g comps c, wf g -> scc_classes g comps -> In c comps ->
    check_comp g (check_fuel g) c = true.
Proof.
  intros g comps c Hwf [[Hnd [Hall Hne]] [Hsound Hcompl]] Hc.
  destruct c as [|r c']; [contradiction|]. unfold check_comp.
  set (F := closure (succs g) (check_fuel g) [] [r]).
  set (B := closure (preds g) (check_fuel g) [] [r]).
  assert (Hfuel : S (length (edges g)) < check_fuel g) by (unfold check_fuel; lia).
  destruct (closure_root (edges g) fst snd (check_fuel g) r Hfuel) as [HrF HcF].
  destruct (closure_root (edges g) snd fst (check_fuel g) r Hfuel) as [HrB HcB].
  change (nextE (edges g) fst snd) with (succs g) in HrF, HcF.
  change (nextE (edges g) snd fst) with (preds g) in HrB, HcB.
  fold F in HrF, HcF. fold B in HrB, HcB.
  assert (HF : forall x, In x F <-> reach g r x).
  { intros x. split.
    - intros Hx. apply star_succs. apply (closure_sound (succs g) r (check_fuel g) [] [r]); auto.
      + intros y [].
      + intros y [Hy | []]. subst y. apply star_refl.
    - intros Hx. apply (closed_complete _ _ HcF r x); [apply star_succs, Hx | exact HrF]. }
  assert (HB : forall x, In x B <-> reach g x r).
  { intros x. split.
    - intros Hx. apply star_preds. apply (closure_sound (preds g) r (check_fuel g) [] [r]); auto.
      + intros y [].
      + intros y [Hy | []]. subst y. apply star_refl.
    - intros Hx. apply (closed_complete _ _ HcB r x); [apply star_preds, Hx | exact HrB]. }
  assert (Hrc : In r (r :: c')) by (left; reflexivity).
  assert (Hrn : r < nv g).
  { apply Hall. apply in_concat. exists (r :: c'). split; assumption. }
  assert (Hmut : forall u, In u (r :: c') -> mutual g r u).
  { intros u Hu. apply Hsound. exists (r :: c'). auto. }
  apply andb7.
  - apply mem_In, HrF.
  - apply mem_In, HrB.
  - exact HcF.
  - exact HcB.
  - apply forallb_forall. intros u Hu. apply mem_In. apply HF. apply (Hmut u Hu).
  - apply forallb_forall. intros u Hu. apply mem_In. apply HB. apply (Hmut u Hu).
  - apply forallb_forall. intros x Hx. destruct (mem x B) eqn:Eb; [|reflexivity]. cbn [negb orb].
    apply mem_In. apply mem_In in Eb. apply HF in Hx. apply HB in Eb.
    destruct (Hcompl r x Hrn (conj Hx Eb)) as [c2 [Hc2 [Hr2 Hx2]]].
    rewrite (block_unique comps (r :: c') c2 r Hnd Hc Hc2 Hrc Hr2). exact Hx2.
Qed.

Theorem check_scc_complete : forall g comps, wf g -> scc_classes g comps -> check_scc g comps = true.
Proof.
  intros g comps Hwf Hcl. unfold check_scc. apply andb_true_iff. split; [apply andb_true_iff; split|].
  - apply wf_wfb, Hwf.
  - destruct Hcl as [[Hnd [Hall Hne]] _]. unfold check_partition.
    apply andb_true_iff. split; [apply andb_true_iff; split|].
    + apply forallb_forall. intros v Hv. apply Nat.ltb_lt. apply Hall, Hv.
    + apply NoDup_nodupb, Hnd.
    + apply forallb_forall. intros v Hv. apply in_seq in Hv. apply mem_In. apply Hall. lia.
  - apply forallb_forall. intros c Hc. eapply check_comp_complete; eauto.
Qed.

Lemma list_eqb_refl : forall a, list_eqb a a = true.
Proof. induction a as [|x a IH]; [reflexivity|]. cbn [list_eqb]. rewrite Nat.eqb_refl. exact IH. Qed.

Theorem check_largest_complete : forall comps l,
    (forall c, In c comps -> length c <= length l) -> (In l comps \/ (comps = [] /\ l = [])) ->
    check_largest comps l = true.
Proof.
  intros comps l Hmax Hin. unfold check_largest. apply andb_true_iff. split.
  - apply forallb_forall. intros c Hc. apply Nat.leb_le. apply Hmax, Hc.
  - destruct Hin as [Hin | [H1 H2]].
    + apply orb_true_iff. left. apply existsb_exists. exists l. split; [exact Hin | apply list_eqb_refl].
    + subst. reflexivity.
Qed.

(* the checker decides the property: on a well-formed graph it accepts exactly the correct answers *)
Theorem check_scc_iff : forall g comps, wf g -> (check_scc g comps = true <-> scc_classes g comps).
Proof.
  intros g comps Hwf. split.
  - intros H. destruct (check_scc_sound g comps H) as [_ H']. exact H'.
  - apply check_scc_complete, Hwf.
Qed.
