(* Soundness of the near-linear checker of Model/SccDeep.v (used on the "deep" family of the C18
   stream): deep_check g comps = true implies that comps is the partition of the vertices into
   mutual-reachability classes - over N (SccDeep.scc_classes) and, through N.to_nat, in the
   vocabulary of Model/Scc.v (Scc.scc_classes), the one the Kosaraju theorems are stated in.
   Only soundness is proved (an accepted answer is correct); the order in which the components are
   listed is a certificate supplied from outside and plays no role in the conclusion. *)
From Coq Require Import List NArith PArith FMapPositive Bool Lia Arith FinFun.
From RC Require Import Base.Res Model.Scc Model.SccDeep.
Import ListNotations.
Import SccDeep.

Lemma key_inj : forall a b, key a = key b -> a = b.
Proof.
  intros a b H. unfold key in H. apply N.succ_inj.
  rewrite <- (N.succ_pos_spec a), <- (N.succ_pos_spec b), H. reflexivity.
Qed.
Lemma key_neq : forall a b, a <> b -> key a <> key b.
Proof. intros a b H Hk. apply H, key_inj, Hk. Qed.

Lemma reach_trans : forall g x y z, reach g x y -> reach g y z -> reach g x z.
Proof.
  intros g x y z H. induction H as [x | x y' y He Hr IH]; intros Hz; [exact Hz|].
  eapply reach_step; [exact He | exact (IH Hz)].
Qed.
Lemma reach_step_r : forall g x y z, reach g x y -> In (y, z) (edges g) -> reach g x z.
Proof.
  intros g x y z H He. eapply reach_trans; [exact H|]. eapply reach_step; [exact He | apply reach_refl].
Qed.

(* ---- adjacency maps only contain edges ---- *)
Lemma nbrs_empty : forall v, nbrs (PM.empty _) v = [].
Proof. intros v. unfold nbrs. rewrite PM.gempty. reflexivity. Qed.
Lemma nbrs_add_edge : forall m s d v w, In w (nbrs (add_edge m s d) v) ->
    (v = s /\ w = d) \/ In w (nbrs m v).
Proof.
  intros m s d v w H. unfold add_edge in H. unfold nbrs at 1 in H.
  destruct (N.eq_dec v s) as [E | E].
  - subst v. rewrite PM.gss in H. destruct H as [H | H]; [left; split; congruence | right; exact H].
  - rewrite PM.gso in H by (apply key_neq, E). right. exact H.
Qed.
Lemma adj_fold_sound : forall (f1 f2 : N * N -> N) es m v w,
    In w (nbrs (fold_left (fun m e => add_edge m (f1 e) (f2 e)) es m) v) ->
    In w (nbrs m v) \/ exists e, In e es /\ v = f1 e /\ w = f2 e.
Proof.
  intros f1 f2 es. induction es as [|e es IH]; intros m v w H; [left; exact H|].
  cbn [fold_left] in H. destruct (IH _ _ _ H) as [H1 | [e' [He' Hvw]]].
  - apply nbrs_add_edge in H1. destruct H1 as [[Hv Hw] | H1]; [|left; exact H1].
    right. exists e. split; [left; reflexivity | split; assumption].
  - right. exists e'. split; [right; exact He' | exact Hvw].
Qed.
Lemma succ_map_sound : forall es v w, In w (nbrs (succ_map es) v) -> In (v, w) es.
Proof.
  intros es v w H. unfold succ_map in H. apply adj_fold_sound in H.
  destruct H as [H | [[s d] [He [Hv Hw]]]]; [rewrite nbrs_empty in H; destruct H|].
  cbn in Hv, Hw. subst. exact He.
Qed.
Lemma pred_map_sound : forall es v w, In w (nbrs (pred_map es) v) -> In (w, v) es.
Proof.
  intros es v w H. unfold pred_map in H. apply adj_fold_sound in H.
  destruct H as [H | [[s d] [He [Hv Hw]]]]; [rewrite nbrs_empty in H; destruct H|].
  cbn in Hv, Hw. subst. exact He.
Qed.

(* ---- closure only collects what is reachable ---- *)
Lemma mem_add : forall (vis : PM.t unit) v x,
    PM.mem (key x) (PM.add (key v) tt vis) = true -> x = v \/ PM.mem (key x) vis = true.
Proof.
  intros vis v x H. destruct (N.eq_dec x v) as [E | E]; [left; exact E|]. right.
  rewrite PM.mem_find in *. rewrite PM.gso in H by (apply key_neq, E). exact H.
Qed.
Lemma closure_sound : forall (next : N -> list N) (inC : N -> bool) (R : N -> Prop),
    (forall x y, R x -> In y (next x) -> R y) ->
    forall fuel vis work,
    (forall x, PM.mem (key x) vis = true -> R x) -> (forall x, In x work -> R x) ->
    forall x, PM.mem (key x) (closure next inC fuel vis work) = true -> R x.
Proof.
  intros next inC R Hcl. induction fuel as [|f IH]; intros vis work Hv Hw x Hx; cbn [closure] in Hx.
  - apply Hv, Hx.
  - destruct work as [|v w]; [apply Hv, Hx|].
    destruct (PM.mem (key v) vis || negb (inC v)).
    + apply (IH vis w); auto. intros y Hy. apply Hw. right. exact Hy.
    + apply (IH (PM.add (key v) tt vis) (next v ++ w)); auto.
      * intros y Hy. apply mem_add in Hy. destruct Hy as [Hy | Hy]; [subst y; apply Hw; left; reflexivity|].
        apply Hv, Hy.
      * intros y Hy. apply in_app_or in Hy. destruct Hy as [Hy | Hy].
        -- eapply Hcl; [apply Hw; left; reflexivity | exact Hy].
        -- apply Hw. right. exact Hy.
Qed.

Lemma mem_empty : forall x, PM.mem (key x) (PM.empty unit) = true -> False.
Proof. intros x H. rewrite PM.mem_find, PM.gempty in H. discriminate. Qed.

Lemma check_comp_sound : forall g m fuel i c,
    check_comp (succ_map (edges g)) (pred_map (edges g)) m fuel i c = true ->
    exists r, In r c /\ forall u, In u c -> reach g r u /\ reach g u r.
Proof.
  intros g m fuel i c H. destruct c as [|r c']; [discriminate|]. exists r. split; [left; reflexivity|].
  unfold check_comp in H. rewrite forallb_forall in H. intros u Hu. specialize (H u Hu).
  apply andb_true_iff in H. destruct H as [HF HB]. split.
  - revert HF. apply (closure_sound _ _ (fun x => reach g r x)).
    + intros x y Hx Hy. eapply reach_step_r; [exact Hx | apply succ_map_sound, Hy].
    + intros x Hx. destruct (mem_empty _ Hx).
    + intros x [Hx | []]. subst x. apply reach_refl.
  - revert HB. apply (closure_sound _ _ (fun x => reach g x r)).
    + intros x y Hx Hy. eapply reach_step; [apply pred_map_sound, Hy | exact Hx].
    + intros x Hx. destruct (mem_empty _ Hx).
    + intros x [Hx | []]. subst x. apply reach_refl.
Qed.
Lemma check_comps_sound : forall g m fuel comps i,
    check_comps (succ_map (edges g)) (pred_map (edges g)) m fuel i comps = true ->
    forall c, In c comps -> exists r, In r c /\ forall u, In u c -> reach g r u /\ reach g u r.
Proof.
  intros g m fuel comps. induction comps as [|c0 comps IH]; intros i H c Hc; [destruct Hc|].
  cbn [check_comps] in H. apply andb_true_iff in H. destruct H as [H0 H1].
  destruct Hc as [Hc | Hc]; [subst c0; eapply check_comp_sound; eauto | eapply IH; eauto].
Qed.

(* ---- the tagged vertex list and the index map ---- *)
Lemma tag_fst : forall comps i, map fst (tag i comps) = concat comps.
Proof.
  induction comps as [|c r IH]; intros i; [reflexivity|]. cbn [tag concat].
  rewrite map_app, map_map, IH. cbn [fst]. rewrite map_id. reflexivity.
Qed.
Lemma tag_ge : forall comps i v j, In (v, j) (tag i comps) -> (i <= j)%N.
Proof.
  induction comps as [|c r IH]; intros i v j H; [destruct H|]. cbn [tag] in H.
  apply in_app_or in H. destruct H as [H | H].
  - apply in_map_iff in H. destruct H as [x [Hx _]]. inversion Hx. lia.
  - apply IH in H. lia.
Qed.
Lemma tag_same : forall comps i u v j, In (u, j) (tag i comps) -> In (v, j) (tag i comps) ->
    exists c, In c comps /\ In u c /\ In v c.
Proof.
  induction comps as [|c r IH]; intros i u v j Hu Hv; [destruct Hu|]. cbn [tag] in Hu, Hv.
  apply in_app_or in Hu. apply in_app_or in Hv. destruct Hu as [Hu | Hu]; destruct Hv as [Hv | Hv].
  - apply in_map_iff in Hu. apply in_map_iff in Hv. destruct Hu as [x [Hx Hxc]]. destruct Hv as [y [Hy Hyc]].
    inversion Hx. inversion Hy. subst. exists c. split; [left; reflexivity | split; assumption].
  - apply in_map_iff in Hu. destruct Hu as [x [Hx _]]. inversion Hx. apply tag_ge in Hv. lia.
  - apply in_map_iff in Hv. destruct Hv as [x [Hx _]]. inversion Hx. apply tag_ge in Hu. lia.
  - destruct (IH _ _ _ _ Hu Hv) as [c' [Hc' H']]. exists c'. split; [right; exact Hc' | exact H'].
Qed.

Lemma build_idx_spec : forall n l m m', build_idx n l m = Some m' ->
    NoDup (map fst l)
    /\ (forall v, In v (map fst l) -> (v < n)%N /\ PM.find (key v) m = None)
    /\ (forall v j, PM.find (key v) m' = Some j -> PM.find (key v) m = Some j \/ In (v, j) l).
Proof.
  intros n l. induction l as [|[v i] r IH]; intros m m' H.
  - cbn in H. inversion H. subst m'. split; [constructor|]. split; [intros v []|]. intros v j Hf. left. exact Hf.
  - cbn [build_idx] in H. destruct (v <? n)%N eqn:Ev; [|discriminate].
    destruct (PM.find (key v) m) eqn:Ef; [discriminate|].
    destruct (IH _ _ H) as [Hnd [Hlt Hfind]]. apply N.ltb_lt in Ev. cbn [map fst]. split; [|split].
    + constructor; [|exact Hnd]. intros Hin. destruct (Hlt v Hin) as [_ Hn]. rewrite PM.gss in Hn. discriminate.
    + intros x [Hx | Hx]; [subst x; split; assumption|]. destruct (Hlt x Hx) as [H1 H2]. split; [exact H1|].
      destruct (N.eq_dec x v) as [E | E]; [subst x; exact Ef|]. rewrite PM.gso in H2 by (apply key_neq, E). exact H2.
    + intros x j Hf. destruct (Hfind x j Hf) as [H1 | H1]; [|right; right; exact H1].
      destruct (N.eq_dec x v) as [E | E].
      * subst x. rewrite PM.gss in H1. inversion H1. right. left. reflexivity.
      * rewrite PM.gso in H1 by (apply key_neq, E). left. exact H1.
Qed.

Lemma upto_in : forall k i v, (i <= v)%N -> (v < i + N.of_nat k)%N -> In v (upto k i).
Proof.
  induction k as [|k IH]; intros i v H1 H2; [lia|]. cbn [upto].
  destruct (N.eq_dec i v) as [E | E]; [left; exact E|]. right. apply IH; lia.
Qed.

Lemma reach_idx : forall g (m : PM.t N), (forall e, In e (edges g) -> edge_ok m e = true) ->
    forall u v, reach g u v -> forall a, PM.find (key u) m = Some a ->
    exists b, PM.find (key v) m = Some b /\ (a <= b)%N.
Proof.
  intros g m Hok u v H. induction H as [x | x y z He Hr IH]; intros a Ha.
  - exists a. split; [exact Ha | lia].
  - specialize (Hok _ He). unfold edge_ok in Hok. cbn [fst snd] in Hok. rewrite Ha in Hok.
    destruct (PM.find (key y) m) as [b'|] eqn:Eb; [|discriminate]. apply N.leb_le in Hok.
    destruct (IH b' eq_refl) as [b [Hb Hle]]. exists b. split; [exact Hb | lia].
Qed.

Theorem deep_check_sound : forall g comps, deep_check g comps = true -> scc_classes g comps.
Proof.
  intros g comps H. unfold deep_check in H.
  destruct (build_idx (nv g) (tag 0 comps) (PM.empty N)) as [m|] eqn:Eb; [|discriminate].
  apply andb_true_iff in H. destruct H as [H Hcomps]. apply andb_true_iff in H. destruct H as [Hcov Hedges].
  destruct (build_idx_spec _ _ _ _ Eb) as [Hnd [Hlt Hfind]]. rewrite tag_fst in Hnd, Hlt.
  rewrite forallb_forall in Hcov, Hedges.
  pose proof (check_comps_sound _ _ _ _ _ Hcomps) as Hsc.
  assert (Htag : forall v j, PM.find (key v) m = Some j -> In (v, j) (tag 0 comps)).
  { intros v j Hf. destruct (Hfind v j Hf) as [H1 | H1]; [rewrite PM.gempty in H1; discriminate | exact H1]. }
  assert (Hhas : forall v, (v < nv g)%N -> exists j, PM.find (key v) m = Some j).
  { intros v Hv. assert (Hin : In v (upto (N.to_nat (nv g)) 0)) by (apply upto_in; lia).
    specialize (Hcov v Hin). rewrite PM.mem_find in Hcov.
    destruct (PM.find (key v) m) as [j|]; [exists j; reflexivity | discriminate]. }
  split; [|split].
  - split; [exact Hnd|]. split.
    + intros v. split; [intros Hv; apply (Hlt v Hv)|]. intros Hv. destruct (Hhas v Hv) as [j Hj].
      apply Htag in Hj. rewrite <- (tag_fst comps 0). apply in_map_iff. exists (v, j). split; [reflexivity | exact Hj].
    + intros Hc. destruct (Hsc [] Hc) as [r [[] _]].
  - intros u v [c [Hc [Hu Hv]]]. destruct (Hsc c Hc) as [r [_ Hr]].
    destruct (Hr u Hu) as [H1 H2]. destruct (Hr v Hv) as [H3 H4]. split; eapply reach_trans; eauto.
  - intros u v Hu [Huv Hvu]. destruct (Hhas u Hu) as [a Ha].
    destruct (reach_idx g m Hedges u v Huv a Ha) as [b [Hb Hab]].
    destruct (reach_idx g m Hedges v u Hvu b Hb) as [a' [Ha' Hba]].
    rewrite Ha in Ha'. inversion Ha'. subst a'. assert (a = b) by lia. subst b.
    eapply tag_same; eauto.
Qed.

Lemma list_eqb_eq : forall a b, list_eqb a b = true -> a = b.
Proof.
  induction a as [|x a IH]; intros [|y b] H; cbn in H; try discriminate; [reflexivity|].
  apply andb_true_iff in H. destruct H as [H1 H2]. apply N.eqb_eq in H1. subst y. f_equal. apply IH, H2.
Qed.
Theorem deep_check_largest_sound : forall comps l, check_largest comps l = true ->
    (forall c, In c comps -> length c <= length l) /\ (In l comps \/ (comps = [] /\ l = [])).
Proof.
  intros comps l H. unfold check_largest in H. apply andb_true_iff in H. destruct H as [H1 H2]. split.
  - intros c Hc. rewrite forallb_forall in H1. apply Nat.leb_le. apply H1, Hc.
  - apply orb_true_iff in H2. destruct H2 as [H2 | H2].
    + left. apply existsb_exists in H2. destruct H2 as [c [Hc He]]. apply list_eqb_eq in He. subst c. exact Hc.
    + right. destruct comps; [|discriminate]. destruct l; [|discriminate]. split; reflexivity.
Qed.

(* ---- the same statement in the vocabulary of Model/Scc.v ---- *)
Definition to_nat_graph (g : graph) : Scc.graph :=
  Scc.mkGraph (N.to_nat (nv g)) (map (fun e => (N.to_nat (fst e), N.to_nat (snd e))) (edges g)).
Definition to_nat_comps (comps : list (list N)) : list (list nat) := map (map N.to_nat) comps.

Lemma reach_to_nat : forall g u v, reach g u v -> Scc.reach (to_nat_graph g) (N.to_nat u) (N.to_nat v).
Proof.
  intros g u v H. induction H as [x | x y z He Hr IH]; [apply Scc.reach_refl|].
  eapply Scc.reach_step; [|exact IH]. cbn. apply in_map_iff. exists (x, y). split; [reflexivity | exact He].
Qed.
Lemma reach_of_nat : forall g x y, Scc.reach (to_nat_graph g) x y -> reach g (N.of_nat x) (N.of_nat y).
Proof.
  intros g x y H. induction H as [x | x y z He Hr IH]; [apply reach_refl|].
  eapply reach_step; [|exact IH]. cbn in He. apply in_map_iff in He. destruct He as [[s d] [Heq Hin]].
  cbn [fst snd] in Heq. inversion Heq. rewrite !N2Nat.id. exact Hin.
Qed.

Theorem scc_classes_to_nat : forall g comps, scc_classes g comps ->
    Scc.scc_classes (to_nat_graph g) (to_nat_comps comps).
Proof.
  intros g comps [[Hnd [Hall Hne]] [Hs Hc]]. unfold to_nat_comps.
  split; [|split].
  - split; [|split].
    + rewrite <- concat_map. apply Injective_map_NoDup; [|exact Hnd]. intros a b. apply N2Nat.inj.
    + intros x. rewrite <- concat_map. cbn [Scc.nv to_nat_graph]. split.
      * intros Hx. apply in_map_iff in Hx. destruct Hx as [v [Hv Hin]]. apply Hall in Hin. lia.
      * intros Hx. apply in_map_iff. exists (N.of_nat x). split; [apply Nat2N.id|]. apply Hall. lia.
    + intros Hin. apply in_map_iff in Hin. destruct Hin as [c [Hc0 Hin]]. apply map_eq_nil in Hc0.
      subst c. exact (Hne Hin).
  - intros x y [c' [Hc' [Hx Hy]]]. apply in_map_iff in Hc'. destruct Hc' as [c [Heq Hin]]. subst c'.
    apply in_map_iff in Hx. apply in_map_iff in Hy. destruct Hx as [u [Hu Huc]]. destruct Hy as [v [Hv Hvc]].
    subst x y. destruct (Hs u v) as [H1 H2]; [exists c; auto|]. split; apply reach_to_nat; assumption.
  - intros x y Hx [Hxy Hyx]. cbn [Scc.nv to_nat_graph] in Hx.
    destruct (Hc (N.of_nat x) (N.of_nat y)) as [c [Hin [Hu Hv]]]; [lia | split; apply reach_of_nat; assumption|].
    exists (map N.to_nat c). split; [apply in_map, Hin|].
    split; [rewrite <- (Nat2N.id x) | rewrite <- (Nat2N.id y)]; apply in_map; assumption.
Qed.

Theorem deep_check_sound_nat : forall g comps, deep_check g comps = true ->
    Scc.scc_classes (to_nat_graph g) (to_nat_comps comps).
Proof. intros g comps H. apply scc_classes_to_nat, deep_check_sound, H. Qed.
