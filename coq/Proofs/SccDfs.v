(* The depth-first search of Model/Scc.v over an arbitrary successor function [next]:
   invariant (black vertices are closed, the stack is "topologically sorted up to components"),
   white-path facts, monotonicity of the visited set and the fuel bound.
   Everything here is about [pdfs next = Scc.dfs next Ok], the instance of the model's [dfs] whose
   edge-to-vertex lookup cannot fail; Proofs/SccKosaraju.v shows that on a well-formed graph the
   model's two searches ARE this instance (for next = succs g / preds g). *)
From Coq Require Import List Arith Bool Lia.
From RC Require Import Base.Res Model.Scc Proofs.SccCheck.
Import ListNotations.
Import Scc.

Section Dfs.
Variable next : nat -> list nat.

(* reachability along paths all of whose vertices (end points included) satisfy A *)
Inductive rreach (A : nat -> Prop) : nat -> nat -> Prop :=
| rr_refl x : A x -> rreach A x x
| rr_step x y z : A x -> In y (next x) -> rreach A y z -> rreach A x z.

Lemma rreach_mono : forall (A B : nat -> Prop), (forall x, A x -> B x) ->
    forall x y, rreach A x y -> rreach B x y.
Proof.
  intros A B HAB x y H. induction H as [x Hx | x y z Hx He Hr IH].
  - apply rr_refl. apply HAB, Hx.
  - eapply rr_step; [apply HAB, Hx | exact He | exact IH].
Qed.
Lemma rreach_l : forall A x y, rreach A x y -> A x.
Proof. intros A x y H. destruct H; assumption. Qed.
Lemma rreach_r : forall A x y, rreach A x y -> A y.
Proof. intros A x y H. induction H; assumption. Qed.
Lemma rreach_trans : forall A x y z, rreach A x y -> rreach A y z -> rreach A x z.
Proof.
  intros A x y z H. induction H as [x Hx | x y' y Hx He Hr IH]; intros Hz; [exact Hz|].
  eapply rr_step; [exact Hx | exact He | exact (IH Hz)].
Qed.
Lemma rreach_star : forall A x y, rreach A x y -> star next x y.
Proof.
  intros A x y H. induction H as [x Hx | x y z Hx He Hr IH]; [apply star_refl|].
  eapply star_step; [exact He | exact IH].
Qed.
Lemma star_rreach : forall (A : nat -> Prop), (forall x y, A x -> In y (next x) -> A y) ->
    forall x y, star next x y -> A x -> rreach A x y.
Proof.
  intros A Hcl x y H. induction H as [x | x y z He Hr IH]; intros Hx; [apply rr_refl, Hx|].
  eapply rr_step; [exact Hx | exact He | apply IH; eapply Hcl; eauto].
Qed.

Notation inS S := (fun z : nat => In z S).

Lemma rreach_split : forall v T x y, rreach (inS (v :: T)) x y ->
    rreach (inS T) x y \/ rreach (inS (v :: T)) x v.
Proof.
  intros v T x y H. induction H as [x Hx | x x' y Hx He Hr IH].
  - destruct Hx as [Hx | Hx].
    + subst x. right. apply rr_refl. left. reflexivity.
    + left. apply rr_refl. exact Hx.
  - destruct Hx as [Hx | Hx].
    + subst x. right. apply rr_refl. left. reflexivity.
    + destruct IH as [IH | IH].
      * left. eapply rr_step; [exact Hx | exact He | exact IH].
      * right. eapply rr_step; [right; exact Hx | exact He | exact IH].
Qed.

(* c occurs in S and y occurs at or below c (head of S = last pushed) *)
Definition before (S : list nat) (c y : nat) : Prop :=
  exists A B, S = A ++ c :: B /\ In y (c :: B).

Lemma before_cons : forall S c y v, before S c y -> before (v :: S) c y.
Proof.
  intros S c y v [A [B [HS Hy]]]. exists (v :: A), B. split; [rewrite HS; reflexivity | exact Hy].
Qed.

(* used at the end of pass 2: if c is before r, and c is not above r, then c = r *)
Lemma before_unique : forall (A : list nat) (c : nat) (B P : list nat) (r : nat) (T : list nat),
    NoDup (A ++ c :: B) -> A ++ c :: B = P ++ r :: T -> ~ In c P -> In r (c :: B) -> c = r.
Proof.
  induction A as [|a A IH]; intros c B P r T Hnd Heq HcP Hr.
  - destruct P as [|p P]; cbn in Heq.
    + inversion Heq. reflexivity.
    + inversion Heq. subst p. exfalso. apply HcP. left. reflexivity.
  - destruct P as [|p P]; cbn in Heq.
    + inversion Heq. subst a. exfalso. cbn in Hnd. inversion Hnd as [|? ? Hn _]. apply Hn.
      apply in_or_app. right. exact Hr.
    + inversion Heq. subst p. cbn in Hnd. inversion Hnd as [|? ? _ Hnd'].
      eapply IH; eauto. intros Hc. apply HcP. right. exact Hc.
Qed.

(* ---- the pure instance of the model's dfs ---- *)
Definition pdfs : nat -> nat -> state -> res state := dfs next (@Ok nat).
Definition kid (f : nat) : state -> nat -> res state := fun s e => do w <- Ok e; pdfs f w s.

Lemma pdfs_0 : forall v st, pdfs 0 v st = OutOfFuel.
Proof. reflexivity. Qed.
Lemma pdfs_S : forall f v st,
    pdfs (S f) v st =
    if mem v (fst st) then Ok st
    else do st2 <- fold_res (kid f) (next v) (v :: fst st, snd st); Ok (fst st2, v :: snd st2).
Proof. reflexivity. Qed.
Lemma kid_eq : forall f s e, kid f s e = pdfs f e s.
Proof. reflexivity. Qed.

(* ---- invariant of a state (visited V, stack S) ---- *)
Record Inv (V S : list nat) : Prop := {
  inv_nodup : NoDup S;
  inv_sub : incl S V;
  (* finished vertices have all their successors visited *)
  inv_closed : forall x y, In x S -> In y (next x) -> In y V;
  (* if x reaches y inside the stack, some c in the same (stack-restricted) component as x
     lies at or above y *)
  inv_order : forall x y, rreach (inS S) x y ->
      exists c, rreach (inS S) x c /\ rreach (inS S) c x /\ before S c y
}.

(* what a search started from [roots] adds: a block L on top of the stack *)
Definition Ext (roots V S V' S' : list nat) : Prop :=
  exists L, S' = L ++ S
    /\ (forall x, In x V' <-> In x L \/ In x V)
    /\ (forall x, In x L -> ~ In x V)
    /\ (forall x, In x L -> exists w, In w roots /\ rreach (inS L) w x).

Lemma Inv_nil : forall V, Inv V [].
Proof.
  intros V. constructor.
  - constructor.
  - intros x [].
  - intros x y [].
  - intros x y H. apply rreach_l in H. destruct H.
Qed.

Lemma Ext_refl : forall roots V S, Ext roots V S V S.
Proof.
  intros roots V S. exists []. split; [reflexivity|]. split; [|split].
  - intros x. split; [intros H; right; exact H | intros [[] | H]; exact H].
  - intros x [].
  - intros x [].
Qed.

Lemma Ext_incl : forall roots V S V' S', Ext roots V S V' S' -> incl V V'.
Proof. intros roots V S V' S' [L [_ [HV _]]] x Hx. apply HV. right. exact Hx. Qed.

Lemma Ext_comp : forall w ws V S V1 S1 V2 S2,
    Ext [w] V S V1 S1 -> Ext ws V1 S1 V2 S2 -> Ext (w :: ws) V S V2 S2.
Proof.
  intros w ws V S V1 S1 V2 S2 [L1 [HS1 [HV1 [Hd1 Hr1]]]] [L2 [HS2 [HV2 [Hd2 Hr2]]]].
  exists (L2 ++ L1). split; [|split; [|split]].
  - rewrite HS2, HS1. apply app_assoc.
  - intros x. rewrite HV2, HV1, in_app_iff. tauto.
  - intros x Hx. apply in_app_or in Hx. destruct Hx as [Hx | Hx].
    + intros Hc. apply (Hd2 _ Hx). apply HV1. right. exact Hc.
    + apply Hd1, Hx.
  - intros x Hx. apply in_app_or in Hx. destruct Hx as [Hx | Hx].
    + destruct (Hr2 _ Hx) as [r [Hr Hp]]. exists r. split; [right; exact Hr|].
      eapply rreach_mono; [|exact Hp]. intros z Hz. apply in_or_app. left. exact Hz.
    + destruct (Hr1 _ Hx) as [r [Hr Hp]]. exists r. split.
      * destruct Hr as [Hr | []]. left. exact Hr.
      * eapply rreach_mono; [|exact Hp]. intros z Hz. apply in_or_app. right. exact Hz.
Qed.

Definition DfsSpec (f : nat) : Prop := forall v V S V' S',
    pdfs f v (V, S) = Ok (V', S') -> Inv V S -> Inv V' S' /\ Ext [v] V S V' S' /\ In v V'.
Definition FoldSpec (f : nat) : Prop := forall ws V S V' S',
    fold_res (kid f) ws (V, S) = Ok (V', S') -> Inv V S ->
    Inv V' S' /\ Ext ws V S V' S' /\ incl ws V'.

Lemma fold_of_dfs : forall f, DfsSpec f -> FoldSpec f.
Proof.
  intros f HD ws. induction ws as [|w ws IH]; intros V S V' S' H HI.
  - cbn in H. inversion H. subst V' S'. split; [exact HI|]. split; [apply Ext_refl | intros x []].
  - cbn [fold_res] in H. rewrite kid_eq in H.
    destruct (pdfs f w (V, S)) as [[V1 S1] | | |] eqn:E; cbn [bind] in H; try discriminate.
    destruct (HD _ _ _ _ _ E HI) as [HI1 [HE1 Hw]].
    destruct (IH _ _ _ _ H HI1) as [HI2 [HE2 Hws]].
    split; [exact HI2|]. split; [eapply Ext_comp; eauto|].
    intros x [Hx | Hx]; [subst x; eapply Ext_incl; eauto | apply Hws, Hx].
Qed.

Lemma dfs_of_fold : forall f, FoldSpec f -> DfsSpec (S f).
Proof.
  intros f HF v V S V' S' H HI. rewrite pdfs_S in H. cbn [fst snd] in H.
  destruct (mem v V) eqn:Em.
  - inversion H. subst V' S'. split; [exact HI|]. split; [apply Ext_refl | apply mem_In, Em].
  - apply mem_false in Em.
    destruct (fold_res (kid f) (next v) (v :: V, S)) as [[V2 S2] | | |] eqn:E; cbn [bind] in H;
      try discriminate.
    cbn [fst snd] in H. inversion H. subst V' S'. clear H.
    assert (HI0 : Inv (v :: V) S).
    { constructor.
      - exact (inv_nodup _ _ HI).
      - intros x Hx. right. apply (inv_sub _ _ HI), Hx.
      - intros x y Hx Hy. right. exact (inv_closed _ _ HI x y Hx Hy).
      - exact (inv_order _ _ HI). }
    destruct (HF _ _ _ _ _ E HI0) as [HI2 [[L [HS2 [HV2 [Hdis Hre]]]] Hnx]].
    subst S2.
    assert (HvL : ~ In v L) by (intros Hc; apply (Hdis _ Hc); left; reflexivity).
    assert (HvS : ~ In v S) by (intros Hc; apply Em, (inv_sub _ _ HI), Hc).
    assert (Hstay : forall x z, rreach (inS (v :: L ++ S)) x z -> In x S -> In z S).
    { intros x z Hr. induction Hr as [x Hx | x y z Hx Hy Hr IH]; intros HxS; [exact HxS|].
      apply IH. pose proof (inv_closed _ _ HI x y HxS Hy) as HyV.
      apply rreach_l in Hr. destruct Hr as [Hr | Hr]; [subst y; contradiction|].
      apply in_app_or in Hr. destruct Hr as [Hr | Hr]; [|exact Hr].
      exfalso. apply (Hdis _ Hr). right. exact HyV. }
    assert (HvL2 : forall x, In x L -> rreach (inS (v :: L ++ S)) v x).
    { intros x Hx. destruct (Hre _ Hx) as [w [Hw Hr]].
      eapply rr_step; [left; reflexivity | exact Hw |].
      eapply rreach_mono; [|exact Hr]. intros z Hz. right. apply in_or_app. left. exact Hz. }
    split; [|split].
    + constructor.
      * constructor; [|exact (inv_nodup _ _ HI2)].
        intros Hc. apply in_app_or in Hc. tauto.
      * intros x [Hx | Hx]; [subst x; apply HV2; right; left; reflexivity
                            | apply (inv_sub _ _ HI2), Hx].
      * intros x y [Hx | Hx] Hy; [subst x; apply Hnx, Hy | exact (inv_closed _ _ HI2 x y Hx Hy)].
      * intros x y Hr. destruct (rreach_split _ _ _ _ Hr) as [Hl | Hrv].
        -- destruct (inv_order _ _ HI2 x y Hl) as [c [H1 [H2 H3]]]. exists c.
           split; [eapply rreach_mono; [|exact H1]; intros z Hz; right; exact Hz|].
           split; [eapply rreach_mono; [|exact H2]; intros z Hz; right; exact Hz|].
           apply before_cons, H3.
        -- exists v. split; [exact Hrv|]. split.
           ++ pose proof (rreach_l _ _ _ Hrv) as Hx. destruct Hx as [Hx | Hx].
              ** subst x. apply rr_refl. left. reflexivity.
              ** apply in_app_or in Hx. destruct Hx as [Hx | Hx]; [apply HvL2, Hx|].
                 exfalso. apply HvS. apply (Hstay _ _ Hrv Hx).
           ++ exists [], (L ++ S). split; [reflexivity|]. exact (rreach_r _ _ _ Hr).
    + exists (v :: L). split; [reflexivity|]. split; [|split].
      * intros x. rewrite HV2. cbn [In]. tauto.
      * intros x [Hx | Hx]; [subst x; exact Em|].
        intros Hc. apply (Hdis _ Hx). right. exact Hc.
      * intros x Hx. exists v. split; [left; reflexivity|]. destruct Hx as [Hx | Hx].
        -- subst x. apply rr_refl. left. reflexivity.
        -- destruct (Hre _ Hx) as [w [Hw Hr]].
           eapply rr_step; [left; reflexivity | exact Hw |].
           eapply rreach_mono; [|exact Hr]. intros z Hz. right. exact Hz.
    + apply HV2. right. left. reflexivity.
Qed.

Theorem dfs_spec : forall f, DfsSpec f /\ FoldSpec f.
Proof.
  induction f as [|f [IHd IHf]].
  - assert (H0 : DfsSpec 0) by (intros v V S V' S' H; rewrite pdfs_0 in H; discriminate).
    split; [exact H0 | apply fold_of_dfs, H0].
  - pose proof (dfs_of_fold f IHf) as Hd. split; [exact Hd | apply fold_of_dfs, Hd].
Qed.

(* ---- the visited set only grows (no invariant needed) ---- *)
Lemma pdfs_incl : forall f,
    (forall v st st', pdfs f v st = Ok st' -> incl (fst st) (fst st'))
    /\ (forall ws st st', fold_res (kid f) ws st = Ok st' -> incl (fst st) (fst st')).
Proof.
  assert (Hfold : forall f, (forall v st st', pdfs f v st = Ok st' -> incl (fst st) (fst st')) ->
             forall ws st st', fold_res (kid f) ws st = Ok st' -> incl (fst st) (fst st')).
  { intros f HD ws. induction ws as [|w ws IH]; intros st st' H.
    - cbn in H. inversion H. apply incl_refl.
    - cbn [fold_res] in H. rewrite kid_eq in H.
      destruct (pdfs f w st) as [st1 | | |] eqn:E; cbn [bind] in H; try discriminate.
      eapply incl_tran; [eapply HD; exact E | eapply IH; exact H]. }
  induction f as [|f [IHd IHf]].
  - assert (H0 : forall v st st', pdfs 0 v st = Ok st' -> incl (fst st) (fst st'))
      by (intros v st st' H; rewrite pdfs_0 in H; discriminate).
    split; [exact H0 | apply Hfold, H0].
  - assert (Hd : forall v st st', pdfs (S f) v st = Ok st' -> incl (fst st) (fst st')).
    { intros v st st' H. rewrite pdfs_S in H. destruct (mem v (fst st)).
      - inversion H. apply incl_refl.
      - destruct (fold_res (kid f) (next v) (v :: fst st, snd st)) as [st2 | | |] eqn:E;
          cbn [bind] in H; try discriminate.
        inversion H. cbn [fst]. apply IHf in E. cbn [fst] in E.
        intros x Hx. apply E. right. exact Hx. }
    split; [exact Hd | apply Hfold, Hd].
Qed.

(* ---- fuel: recursion depth <= number of unvisited vertices + 1 ---- *)
Section Fuel.
Variable n : nat.
Hypothesis next_closed : forall x y, x < n -> In y (next x) -> y < n.

Definition white (V : list nat) : nat :=
  length (filter (fun x => negb (mem x V)) (seq 0 n)).

Lemma filter_len_le : forall (p q : nat -> bool) l,
    (forall x, In x l -> p x = true -> q x = true) ->
    length (filter p l) <= length (filter q l).
Proof.
  intros p q l. induction l as [|a l IH]; intros H; [cbn; lia|].
  cbn [filter]. assert (IH' : length (filter p l) <= length (filter q l))
    by (apply IH; intros x Hx; apply H; right; exact Hx).
  destruct (p a) eqn:Ep.
  - rewrite (H a (or_introl eq_refl) Ep). cbn [length]. lia.
  - destruct (q a); cbn [length]; lia.
Qed.
Lemma filter_len_lt : forall (p q : nat -> bool) l v,
    (forall x, In x l -> p x = true -> q x = true) ->
    In v l -> p v = false -> q v = true ->
    length (filter p l) < length (filter q l).
Proof.
  intros p q l v. induction l as [|a l IH]; intros H Hv Hp Hq; [destruct Hv|].
  cbn [filter]. assert (Hle : length (filter p l) <= length (filter q l))
    by (apply filter_len_le; intros x Hx; apply H; right; exact Hx).
  destruct Hv as [Hv | Hv].
  - subst a. rewrite Hp, Hq. cbn [length]. lia.
  - assert (IH' : length (filter p l) < length (filter q l))
      by (apply IH; auto; intros x Hx; apply H; right; exact Hx).
    destruct (p a) eqn:Ep.
    + rewrite (H a (or_introl eq_refl) Ep). cbn [length]. lia.
    + destruct (q a); cbn [length]; lia.
Qed.

Lemma white_le_n : forall V, white V <= n.
Proof.
  intros V. unfold white. rewrite <- (seq_length n 0) at 2.
  induction (seq 0 n) as [|a l IH]; [cbn; lia|]. cbn [filter].
  destruct (negb (mem a V)); cbn [length]; lia.
Qed.
Lemma white_mono : forall V V', incl V V' -> white V' <= white V.
Proof.
  intros V V' H. unfold white. apply filter_len_le. intros x _ Hx.
  apply negb_true_iff in Hx. apply negb_true_iff. apply mem_false in Hx. apply mem_false.
  intros Hc. apply Hx. apply H, Hc.
Qed.
Lemma white_lt : forall V v, v < n -> ~ In v V -> white (v :: V) < white V.
Proof.
  intros V v Hv Hn. unfold white. apply filter_len_lt with (v := v).
  - intros x _ Hx. apply negb_true_iff in Hx. apply negb_true_iff. apply mem_false in Hx.
    apply mem_false. intros Hc. apply Hx. right. exact Hc.
  - apply in_seq. lia.
  - apply negb_false_iff. apply mem_In. left. reflexivity.
  - apply negb_true_iff. apply mem_false. exact Hn.
Qed.

Definition DfsFuel (f : nat) : Prop := forall v st,
    v < n -> white (fst st) < f -> exists st', pdfs f v st = Ok st'.

Lemma fold_fuel : forall f, DfsFuel f -> forall ws st,
    (forall w, In w ws -> w < n) -> white (fst st) < f ->
    exists st', fold_res (kid f) ws st = Ok st'.
Proof.
  intros f HD ws. induction ws as [|w ws IH]; intros st Hws Hf.
  - exists st. reflexivity.
  - cbn [fold_res]. rewrite kid_eq.
    destruct (HD w st (Hws w (or_introl eq_refl)) Hf) as [st1 E]. rewrite E. cbn [bind].
    apply IH; [intros x Hx; apply Hws; right; exact Hx|].
    apply (proj1 (pdfs_incl f)) in E. apply white_mono in E. lia.
Qed.

Theorem dfs_fuel : forall f, DfsFuel f.
Proof.
  induction f as [|f IH]; intros v st Hv Hf; [lia|].
  rewrite pdfs_S. destruct (mem v (fst st)) eqn:Em; [exists st; reflexivity|].
  apply mem_false in Em.
  destruct (fold_fuel f IH (next v) (v :: fst st, snd st)) as [st2 E].
  - intros w Hw. eapply next_closed; eauto.
  - cbn [fst]. pose proof (white_lt (fst st) v Hv Em). lia.
  - rewrite E. cbn [bind]. eexists. reflexivity.
Qed.

Corollary fold_fuel_ok : forall f ws st, n < f -> (forall w, In w ws -> w < n) ->
    exists st', fold_res (kid f) ws st = Ok st'.
Proof.
  intros f ws st Hf Hws. apply fold_fuel; [apply dfs_fuel | exact Hws|].
  pose proof (white_le_n (fst st)). lia.
Qed.
Corollary dfs_fuel_ok : forall f v st, n < f -> v < n -> exists st', pdfs f v st = Ok st'.
Proof.
  intros f v st Hf Hv. apply dfs_fuel; [exact Hv|]. pose proof (white_le_n (fst st)). lia.
Qed.

End Fuel.
End Dfs.
