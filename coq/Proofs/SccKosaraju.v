(* Kosaraju's algorithm as modelled in Model/Scc.v is correct on every well-formed digraph:
   (1) on a well-formed graph the model's two searches are the pure search of Proofs/SccDfs.v over
       succs g / preds g (the EdgeNotFound path is dead, out_edges/in_edges enumerate succs/preds);
   (2) pass 1 leaves a stack holding exactly the vertices and satisfying the order invariant;
   (3) pass 2 keeps "visited = union of finished components, each a mutual-reachability class";
   (4) any fuel > nv g excludes OutOfFuel. *)
From Coq Require Import List Arith Bool Lia.
From RC Require Import Base.Res Model.Scc Proofs.SccCheck Proofs.SccDfs.
Import ListNotations.
Import Scc.

(* ---------------------------------------------------------------------------------------- *)
(* fold_res helpers                                                                           *)
Lemma fold_res_ext : forall {A S : Type} (F G : S -> A -> res S) l s,
    (forall s a, F s a = G s a) -> fold_res F l s = fold_res G l s.
Proof.
  intros A S F G l. induction l as [|a l IH]; intros s H; [reflexivity|].
  cbn [fold_res]. rewrite H. destruct (G s a); cbn [bind]; auto.
Qed.

Lemma fold_res_map : forall (terminal : nat -> res nat) (F G : state -> nat -> res state) l1 l2 st,
    (forall s w, F s w = G s w) -> map terminal l1 = map (@Ok nat) l2 ->
    fold_res (fun s e => do w <- terminal e; F s w) l1 st
    = fold_res (fun s e => do w <- Ok e; G s w) l2 st.
Proof.
  intros terminal F G l1. induction l1 as [|a l1 IH]; intros l2 st HFG Hm.
  - destruct l2; [reflexivity | discriminate].
  - destruct l2 as [|b l2]; [discriminate|]. cbn [map] in Hm. inversion Hm as [[Ha Hr]].
    cbn [fold_res]. rewrite Ha. cbn [bind]. rewrite HFG.
    destruct (G st b); cbn [bind]; auto.
Qed.

Lemma dfs_S : forall incident terminal f v st,
    dfs incident terminal (S f) v st =
    if mem v (fst st) then Ok st
    else do st2 <- fold_res (fun s e => do w <- terminal e; dfs incident terminal f w s)
                            (incident v) (v :: fst st, snd st);
         Ok (fst st2, v :: snd st2).
Proof. reflexivity. Qed.

(* if every edge lookup succeeds, the model's dfs is the pure one over the looked-up vertices *)
Lemma dfs_pure : forall incident terminal next,
    (forall v, map terminal (incident v) = map (@Ok nat) (next v)) ->
    forall f v st, dfs incident terminal f v st = pdfs next f v st.
Proof.
  intros incident terminal next H. induction f as [|f IH]; intros v st; [reflexivity|].
  rewrite dfs_S, pdfs_S. destruct (mem v (fst st)); [reflexivity|].
  rewrite (fold_res_map terminal (fun s w => dfs incident terminal f w s)
             (fun s w => pdfs next f w s) (incident v) (next v)); [reflexivity | | apply H].
  intros s w. apply IH.
Qed.

(* ---------------------------------------------------------------------------------------- *)
(* out_edges / in_edges of a well-formed graph enumerate succs / preds                        *)
Lemma enum_out : forall g l pre v, edges g = pre ++ l ->
    map (dst_vertex_id g)
        (map fst (filter (fun ie => fst (snd ie) =? v) (enum_from (length pre) l)))
    = map (@Ok nat) (map snd (filter (fun e => fst e =? v) l)).
Proof.
  intros g l. induction l as [|[s d] r IH]; intros pre v He; [reflexivity|].
  cbn [enum_from filter snd fst].
  assert (IH' := IH (pre ++ [(s, d)]) v). rewrite app_length in IH'. cbn [length] in IH'.
  rewrite Nat.add_1_r in IH'. rewrite <- app_assoc in IH'. cbn [app] in IH'. specialize (IH' He).
  destruct (s =? v); cbn [map fst snd]; [|exact IH'].
  rewrite IH'. f_equal. unfold dst_vertex_id. rewrite He.
  rewrite nth_error_app2 by lia. rewrite Nat.sub_diag. reflexivity.
Qed.
Lemma enum_in : forall g l pre v, edges g = pre ++ l ->
    map (src_vertex_id g)
        (map fst (filter (fun ie => snd (snd ie) =? v) (enum_from (length pre) l)))
    = map (@Ok nat) (map fst (filter (fun e => snd e =? v) l)).
Proof.
  intros g l. induction l as [|[s d] r IH]; intros pre v He; [reflexivity|].
  cbn [enum_from filter snd fst].
  assert (IH' := IH (pre ++ [(s, d)]) v). rewrite app_length in IH'. cbn [length] in IH'.
  rewrite Nat.add_1_r in IH'. rewrite <- app_assoc in IH'. cbn [app] in IH'. specialize (IH' He).
  destruct (d =? v); cbn [map fst snd]; [|exact IH'].
  rewrite IH'. f_equal. unfold src_vertex_id. rewrite He.
  rewrite nth_error_app2 by lia. rewrite Nat.sub_diag. reflexivity.
Qed.

Lemma filter_none : forall {A} (p : A -> bool) l, (forall x, In x l -> p x = false) -> filter p l = [].
Proof.
  intros A p l. induction l as [|a l IH]; intros H; [reflexivity|]. cbn [filter].
  rewrite (H a (or_introl eq_refl)). apply IH. intros x Hx. apply H. right. exact Hx.
Qed.

Lemma out_edges_pure : forall g, wf g -> forall v,
    map (dst_vertex_id g) (out_edges g v) = map (@Ok nat) (succs g v).
Proof.
  intros g Hwf v. unfold out_edges, succs. destruct (v <? nv g) eqn:E.
  - exact (enum_out g (edges g) [] v eq_refl).
  - apply Nat.ltb_ge in E. rewrite filter_none; [reflexivity|].
    intros [s d] Hin. cbn [fst]. apply Nat.eqb_neq. destruct (Hwf s d Hin) as [Hs _]. lia.
Qed.
Lemma in_edges_pure : forall g, wf g -> forall v,
    map (src_vertex_id g) (in_edges g v) = map (@Ok nat) (preds g v).
Proof.
  intros g Hwf v. unfold in_edges, preds. destruct (v <? nv g) eqn:E.
  - exact (enum_in g (edges g) [] v eq_refl).
  - apply Nat.ltb_ge in E. rewrite filter_none; [reflexivity|].
    intros [s d] Hin. cbn [snd]. apply Nat.eqb_neq. destruct (Hwf s d Hin) as [_ Hd]. lia.
Qed.

Lemma dfs1_pure : forall g, wf g -> forall f v st,
    depth_first_search g f v st = pdfs (succs g) f v st.
Proof. intros g Hwf. apply dfs_pure. apply out_edges_pure, Hwf. Qed.
Lemma dfs2_pure : forall g, wf g -> forall f v st,
    reverse_depth_first_search g f v st = pdfs (preds g) f v st.
Proof. intros g Hwf. apply dfs_pure. apply in_edges_pure, Hwf. Qed.

(* ---------------------------------------------------------------------------------------- *)
(* reachability facts                                                                         *)
Lemma succs_closed : forall g, wf g -> forall x y, x < nv g -> In y (succs g x) -> y < nv g.
Proof. intros g Hwf x y _ Hy. apply succs_spec in Hy. apply (Hwf _ _ Hy). Qed.
Lemma preds_closed : forall g, wf g -> forall x y, x < nv g -> In y (preds g x) -> y < nv g.
Proof. intros g Hwf x y _ Hy. apply preds_spec in Hy. apply (Hwf _ _ Hy). Qed.

Lemma reach_lt_r : forall g, wf g -> forall x y, reach g x y -> x < nv g -> y < nv g.
Proof.
  intros g Hwf x y H. induction H as [x | x y z He Hr IH]; intros Hx; [exact Hx|].
  apply IH. apply (Hwf _ _ He).
Qed.
Lemma reach_lt_l : forall g, wf g -> forall x y, reach g x y -> y < nv g -> x < nv g.
Proof.
  intros g Hwf x y H Hy. destruct H as [x | x y z He Hr]; [exact Hy|]. apply (Hwf _ _ He).
Qed.

Lemma mutual_refl : forall g x, mutual g x x.
Proof. intros g x. split; apply reach_refl. Qed.
Lemma mutual_sym : forall g x y, mutual g x y -> mutual g y x.
Proof. intros g x y [H1 H2]. split; assumption. Qed.
Lemma mutual_trans : forall g x y z, mutual g x y -> mutual g y z -> mutual g x z.
Proof. intros g x y z [H1 H2] [H3 H4]. split; eapply reach_trans; eauto. Qed.

Lemma nodup_app : forall (a b : list nat), NoDup a -> NoDup b -> (forall x, In x a -> ~ In x b) ->
    NoDup (a ++ b).
Proof.
  induction a as [|x a IH]; intros b Ha Hb Hd; [exact Hb|]. cbn [app].
  inversion Ha as [|? ? Hx Ha']. subst. constructor.
  - intros Hc. apply in_app_or in Hc. destruct Hc as [Hc | Hc]; [contradiction|].
    apply (Hd x (or_introl eq_refl) Hc).
  - apply IH; auto. intros y Hy. apply Hd. right. exact Hy.
Qed.

(* ---------------------------------------------------------------------------------------- *)
(* pass 1                                                                                     *)
Section Kosaraju.
Variable g : graph.
Hypothesis Hwf : wf g.
Variable fuel : nat.
Hypothesis Hfuel : nv g < fuel.

Lemma pass1 : exists V1 S1,
    fold_res (fun s v => depth_first_search g fuel v s) (seq 0 (nv g)) ([], []) = Ok (V1, S1)
    /\ Inv (succs g) V1 S1 /\ (forall x, In x S1 <-> x < nv g).
Proof.
  rewrite (fold_res_ext _ (kid (succs g) fuel)) by (intros s a; rewrite kid_eq; apply dfs1_pure, Hwf).
  destruct (fold_fuel_ok (succs g) (nv g) (succs_closed g Hwf) fuel (seq 0 (nv g)) ([], []) Hfuel)
    as [[V1 S1] E].
  { intros w Hw. apply in_seq in Hw. lia. }
  exists V1, S1. split; [exact E|].
  destruct (proj2 (dfs_spec (succs g) fuel) _ _ _ _ _ E (Inv_nil _ _))
    as [HI [[L [HS [HV [_ Hre]]]] Hin]].
  rewrite app_nil_r in HS. subst L. split; [exact HI|]. intros x. split.
  - intros Hx. destruct (Hre _ Hx) as [w [Hw Hr]]. apply in_seq in Hw.
    apply rreach_star, star_succs in Hr. eapply reach_lt_r; eauto. lia.
  - intros Hx. assert (Hs : In x (seq 0 (nv g))) by (apply in_seq; lia).
    apply Hin, HV in Hs. destruct Hs as [Hs | []]. exact Hs.
Qed.

(* (O): in the pass-1 stack, whatever u reaches lies at or below some vertex of u's class *)
Lemma pass1_order : forall V1 S1, Inv (succs g) V1 S1 -> (forall x, In x S1 <-> x < nv g) ->
    forall u r, u < nv g -> reach g u r -> exists c, mutual g u c /\ before S1 c r.
Proof.
  intros V1 S1 HI HS u r Hu Hur.
  assert (Hr : rreach (succs g) (fun z => In z S1) u r).
  { apply star_rreach; [|apply star_succs, Hur | apply HS, Hu].
    intros x y Hx Hy. apply HS. apply HS in Hx. eapply succs_closed; eauto. }
  destruct (inv_order _ _ _ HI u r Hr) as [c [H1 [H2 H3]]]. exists c. split; [|exact H3].
  split; apply star_succs; eapply rreach_star; eauto.
Qed.

(* ---------------------------------------------------------------------------------------- *)
(* pass 2                                                                                     *)
Definition good_comp (c : list nat) : Prop := exists r, In r c /\ forall u, In u c <-> mutual g u r.

Record J (P V2 : list nat) (comps : list (list nat)) : Prop := {
  j_P : incl P V2;
  j_V : forall x, In x V2 <-> In x (concat comps);
  j_nd : NoDup (concat comps);
  j_good : forall c, In c comps -> good_comp c;
  j_lt : forall x, In x V2 -> x < nv g
}.

Lemma J_closed : forall P V2 comps, J P V2 comps ->
    forall a b, In a V2 -> mutual g a b -> In b V2.
Proof.
  intros P V2 comps HJ a b Ha Hab. apply (j_V _ _ _ HJ) in Ha. apply in_concat in Ha.
  destruct Ha as [c [Hc Hac]]. destruct (j_good _ _ _ HJ c Hc) as [r [_ Hr]].
  apply (j_V _ _ _ HJ). apply in_concat. exists c. split; [exact Hc|]. apply Hr.
  apply Hr in Hac. eapply mutual_trans; [apply mutual_sym; exact Hab | exact Hac].
Qed.

(* everything mutually reachable with the root is collected, given that the collected block is
   closed under predecessors up to the old visited set, which contains nothing of the class *)
Lemma collect_all : forall (L V2 : list nat),
    (forall x y, In x L -> In (y, x) (edges g) -> In y L \/ In y V2) ->
    forall u r, reach g u r -> In r L -> (forall a, In a V2 -> mutual g a r -> False) ->
    reach g r u -> In u L.
Proof.
  intros L V2 Hcl u r Hur. induction Hur as [x | x y z He Hr IH]; intros HrL Hno Hru; [exact HrL|].
  assert (Hy : In y L) by (apply IH; auto; eapply reach_step_r; eauto).
  destruct (Hcl y x Hy He) as [Hx | Hx]; [exact Hx|]. exfalso. apply (Hno x Hx). split; [|exact Hru].
  eapply reach_step; eauto.
Qed.

Section Pass2.
Variables V1 S1 : list nat.
Hypothesis HI1 : Inv (succs g) V1 S1.
Hypothesis HS1 : forall x, In x S1 <-> x < nv g.

Lemma pass2_step_ok : forall P r T V2 comps, S1 = P ++ r :: T -> J P V2 comps ->
    exists V2' comps', pass2_step fuel g (V2, comps) r = Ok (V2', comps') /\ J (P ++ [r]) V2' comps'.
Proof.
  intros P r T V2 comps HS HJ. unfold pass2_step. cbn [fst snd].
  assert (Hr : r < nv g) by (apply HS1; rewrite HS; apply in_or_app; right; left; reflexivity).
  destruct (mem r V2) eqn:Em.
  - exists V2, comps. split; [reflexivity|]. apply mem_In in Em. constructor.
    + intros x Hx. apply in_app_or in Hx. destruct Hx as [Hx | [Hx | []]].
      * apply (j_P _ _ _ HJ), Hx.
      * subst x. exact Em.
    + exact (j_V _ _ _ HJ).
    + exact (j_nd _ _ _ HJ).
    + exact (j_good _ _ _ HJ).
    + exact (j_lt _ _ _ HJ).
  - apply mem_false in Em. rewrite (dfs2_pure g Hwf).
    destruct (dfs_fuel_ok (preds g) (nv g) (preds_closed g Hwf) fuel r (V2, []) Hfuel Hr)
      as [[V2' L] E].
    rewrite E. cbn [bind fst snd]. exists V2', (comps ++ [L]). split; [reflexivity|].
    destruct (proj1 (dfs_spec (preds g) fuel) _ _ _ _ _ E (Inv_nil _ _))
      as [HI [[L' [HL [HV [Hdis Hre]]]] Hr']].
    rewrite app_nil_r in HL. subst L'.
    assert (A1 : forall u, In u L -> reach g u r).
    { intros u Hu. destruct (Hre _ Hu) as [w [[Hw | []] Hp]]. subst w.
      apply rreach_star, star_preds in Hp. exact Hp. }
    assert (A2 : forall u, In u L -> u < nv g).
    { intros u Hu. eapply reach_lt_l; eauto. }
    assert (A3 : In r L).
    { apply HV in Hr'. destruct Hr' as [H | H]; [exact H | contradiction]. }
    assert (A4 : forall u, In u L -> reach g r u).
    { intros u Hu.
      destruct (pass1_order V1 S1 HI1 HS1 u r (A2 u Hu) (A1 u Hu)) as [c [Huc [A [B [HAB HrB]]]]].
      assert (Hc2 : ~ In c V2).
      { intros Hc. apply (Hdis u Hu). eapply J_closed; eauto. apply mutual_sym, Huc. }
      assert (HcP : ~ In c P) by (intros Hc; apply Hc2, (j_P _ _ _ HJ), Hc).
      assert (c = r).
      { eapply (before_unique A c B P r T); eauto.
        - rewrite <- HAB. exact (inv_nodup _ _ _ HI1).
        - rewrite <- HAB. exact HS. }
      subst c. apply Huc. }
    assert (A5 : forall u, mutual g u r -> In u L).
    { intros u [Hur Hru]. apply (collect_all L V2) with (r := r); auto.
      - intros x y Hx He. apply HV. apply (inv_closed _ _ _ HI x y Hx). apply preds_spec, He.
      - intros a Ha Har. apply Em. eapply J_closed; eauto. }
    constructor.
    + intros x Hx. apply in_app_or in Hx. destruct Hx as [Hx | [Hx | []]].
      * apply HV. right. apply (j_P _ _ _ HJ), Hx.
      * subst x. exact Hr'.
    + intros x. rewrite concat_app, in_app_iff. cbn [concat]. rewrite app_nil_r.
      rewrite HV, (j_V _ _ _ HJ). tauto.
    + rewrite concat_app. cbn [concat]. rewrite app_nil_r. apply nodup_app.
      * exact (j_nd _ _ _ HJ).
      * exact (inv_nodup _ _ _ HI).
      * intros x Hx HxL. apply (Hdis x HxL). apply (j_V _ _ _ HJ), Hx.
    + intros c Hc. apply in_app_or in Hc. destruct Hc as [Hc | [Hc | []]].
      * apply (j_good _ _ _ HJ), Hc.
      * subst c. exists r. split; [exact A3|]. intros u. split.
        -- intros Hu. split; [apply A1, Hu | apply A4, Hu].
        -- apply A5.
    + intros x Hx. apply HV in Hx. destruct Hx as [Hx | Hx]; [apply A2, Hx | apply (j_lt _ _ _ HJ), Hx].
Qed.

Lemma pass2_fold : forall T P V2 comps, S1 = P ++ T -> J P V2 comps ->
    exists V2' comps', fold_res (pass2_step fuel g) T (V2, comps) = Ok (V2', comps')
                       /\ J S1 V2' comps'.
Proof.
  induction T as [|r T IH]; intros P V2 comps HS HJ.
  - exists V2, comps. split; [reflexivity|]. rewrite app_nil_r in HS. subst P. exact HJ.
  - cbn [fold_res]. destruct (pass2_step_ok P r T V2 comps HS HJ) as [V2' [comps' [E HJ']]].
    rewrite E. cbn [bind]. apply (IH (P ++ [r])); [|exact HJ'].
    rewrite <- app_assoc. exact HS.
Qed.

Lemma J_final : forall V2 comps, J S1 V2 comps ->
    partition (nv g) comps
    /\ (forall u v, same_comp comps u v -> mutual g u v)
    /\ (forall u v, u < nv g -> mutual g u v -> same_comp comps u v).
Proof.
  intros V2 comps HJ. split; [|split].
  - split; [exact (j_nd _ _ _ HJ)|]. split.
    + intros v. split.
      * intros Hv. apply (j_lt _ _ _ HJ), (j_V _ _ _ HJ), Hv.
      * intros Hv. apply (j_V _ _ _ HJ), (j_P _ _ _ HJ), HS1, Hv.
    + intros Hc. destruct (j_good _ _ _ HJ [] Hc) as [r [[] _]].
  - intros u v [c [Hc [Hu Hv]]]. destruct (j_good _ _ _ HJ c Hc) as [r [_ Hr]].
    apply Hr in Hu. apply Hr in Hv. eapply mutual_trans; [exact Hu | apply mutual_sym, Hv].
  - intros u v Hu Huv. apply HS1, (j_P _ _ _ HJ), (j_V _ _ _ HJ), in_concat in Hu.
    destruct Hu as [c [Hc Huc]]. exists c. split; [exact Hc|]. split; [exact Huc|].
    destruct (j_good _ _ _ HJ c Hc) as [r [_ Hr]]. apply Hr. apply Hr in Huc.
    eapply mutual_trans; [apply mutual_sym; exact Huv | exact Huc].
Qed.
End Pass2.

Lemma J_init : J [] [] [].
Proof.
  constructor.
  - intros x [].
  - intros x. cbn. tauto.
  - constructor.
  - intros c [].
  - intros x [].
Qed.

Theorem kosaraju_correct : exists comps,
    all_sccs_fuel fuel g = Ok comps /\ scc_classes g comps.
Proof.
  destruct pass1 as [V1 [S1 [E1 [HI1 HS1]]]]. unfold all_sccs_fuel. rewrite E1. cbn [bind snd].
  destruct (pass2_fold V1 S1 HI1 HS1 S1 [] [] [] eq_refl J_init) as [V2 [comps [E2 HJ]]].
  rewrite E2. cbn [bind snd]. exists comps. split; [reflexivity|].
  exact (J_final S1 HS1 V2 comps HJ).
Qed.
End Kosaraju.

(* ---------------------------------------------------------------------------------------- *)
(* the public entry points (fuel = S (nv g))                                                  *)
Theorem all_sccs_correct : forall g, wf g ->
    exists comps, all_strongly_connected_components g = Ok comps /\ scc_classes g comps.
Proof.
  intros g Hwf. unfold all_strongly_connected_components. apply kosaraju_correct; [exact Hwf | lia].
Qed.

Theorem largest_correct : forall g, wf g ->
    exists comps l, all_strongly_connected_components g = Ok comps
      /\ largest_strongly_connected_component g = Ok l
      /\ (forall c, In c comps -> length c <= length l)
      /\ (0 < nv g -> In l comps)
      /\ (nv g = 0 -> l = []).
Proof.
  intros g Hwf. destruct (all_sccs_correct g Hwf) as [comps [E [[Hnd [Hall Hne]] _]]].
  exists comps, (largest_of comps). unfold largest_strongly_connected_component. rewrite E.
  split; [reflexivity|]. split; [reflexivity|].
  destruct (largest_of_spec comps) as [Hmax Hin]. split; [exact Hmax|]. split.
  - intros Hpos. destruct Hin as [Hin | Hnil]; [exact Hin|]. exfalso.
    assert (H0 : In 0 (concat comps)) by (apply Hall; exact Hpos).
    apply in_concat in H0. destruct H0 as [c [Hc H0]]. specialize (Hmax c Hc). rewrite Hnil in Hmax.
    destruct c; [destruct H0 | cbn in Hmax; lia].
  - intros Hz. destruct Hin as [Hin | Hnil]; [|exact Hnil].
    destruct (largest_of comps) as [|x l] eqn:El; [reflexivity|]. exfalso.
    assert (Hx : In x (concat comps)) by (apply in_concat; exists (x :: l); split; [exact Hin | left; reflexivity]).
    apply Hall in Hx. lia.
Qed.
