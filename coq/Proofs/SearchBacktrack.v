(* C01: backtracking (backtrack.rs::vertex_oriented_route) on any tree that satisfies the tree invariant and
   contains the destination returns Ok: the repeated-edge guard never fires and fuel |tree|+1 suffices.  The
   route it returns is a contiguous walk from the search origin to the destination in the search direction,
   without a repeated edge, that never re-enters the origin and never leaves the destination. *)
From Coq Require Import List Arith Bool String Lia.
From stdpp Require Import gmap.
From RC Require Import Base.Res Model.Search Model.SearchSpec Proofs.SearchTree Proofs.SearchInv.
Import ListNotations.
Import Search SearchSpec.

Section Backtrack.
  Context {C St : Type}.
  Variable g : graph.
  Notation branch := (branch C St).
  Notation etrav := (etrav C St).
  Implicit Types tr : gmap nat branch.

  Definition edge_of tr (v : nat) : nat :=
    match tr !! v with Some b => et_edge (b_et b) | None => 0 end.

  Lemma walk_snoc d a r b e c : walk g d a r b -> edge_joins g d e b c -> walk g d a (r ++ [e]) c.
  Proof.
    induction 1 as [a | a e' b' r c' He Hw IH]; intros Hj; simpl.
    - eapply walk_cons; [exact Hj | apply walk_nil].
    - eapply walk_cons; [exact He | apply IH, Hj].
  Qed.

  Lemma backtrack_at_source fuel s tr visited (acc : list etrav) :
    backtrack_loop fuel s tr s visited acc = Ok acc.
  Proof. destruct fuel; simpl; rewrite Nat.eqb_refl; reflexivity. Qed.

  Lemma existsb_not_in e l : ~ In e l -> existsb (Nat.eqb e) l = false.
  Proof.
    intros H. destruct (existsb (Nat.eqb e) l) eqn:E; [|reflexivity].
    apply existsb_exists in E. destruct E as (x & Hx & Heq). apply Nat.eqb_eq in Heq. subst. contradiction.
  Qed.

  Section OnTree.
    Variables (d : dir) (s : nat) (tr : gmap nat branch).
    Hypothesis HT : TreeInv g d s tr.

    Lemma tr_lookup v u : pmap tr !! v = Some u -> exists b, tr !! v = Some b /\ b_term b = u.
    Proof.
      rewrite pmap_lookup. destruct (tr !! v) as [b|]; simpl; [|discriminate].
      intros H; inversion H. eauto.
    Qed.
    Lemma source_not_in_tree : tr !! s = None.
    Proof.
      destruct (ti_rooted _ _ _ _ HT) as [Hs _]. rewrite pmap_lookup in Hs.
      destruct (tr !! s); [discriminate | reflexivity].
    Qed.
    Lemma edge_of_joins v b : tr !! v = Some b -> edge_joins g d (edge_of tr v) (b_term b) v.
    Proof. intros Hb. unfold edge_of. rewrite Hb. exact (ti_edges _ _ _ _ HT _ _ Hb). Qed.

    (* distinct tree vertices carry distinct edges: an edge is stored only under its far end *)
    Lemma edge_of_inj v w : is_Some (tr !! v) -> is_Some (tr !! w) -> edge_of tr v = edge_of tr w -> v = w.
    Proof.
      intros [bv Hv] [bw Hw] Heq.
      destruct (edge_of_joins _ _ Hv) as (e1 & Hg1 & _ & Hk1).
      destruct (edge_of_joins _ _ Hw) as (e2 & Hg2 & _ & Hk2).
      rewrite Heq in Hg1. rewrite Hg1 in Hg2. inversion Hg2; subst e2. congruence.
    Qed.

    Lemma chain_tree_dom v c u : chain (pmap tr) s v c -> In u c -> is_Some (tr !! u).
    Proof. intros Hc Hin. apply pmap_is_Some. eapply chain_in_dom; eauto. Qed.

    (* the loop follows the chain; result = the chain's entries in reverse order, consed onto acc *)
    Lemma backtrack_chain c v : chain (pmap tr) s v c ->
      forall fuel visited (acc : list etrav),
        length c <= fuel -> (forall u, In u c -> ~ In (edge_of tr u) visited) ->
        exists ets, backtrack_loop fuel s tr v visited acc = Ok (ets ++ acc)
                    /\ map et_edge ets = rev (map (edge_of tr) c).
    Proof.
      intros Hc. pose proof (chain_NoDup _ _ _ _ Hc) as Hnd. revert Hnd.
      induction Hc as [v Hv | v u c Hv Hu Hc IH]; intros Hnd fuel visited acc Hfuel Hvis.
      - destruct (tr_lookup _ _ Hv) as (b & Hb & Hbt).
        assert (Hvs : v <> s). { intros ->. rewrite source_not_in_tree in Hb. discriminate. }
        destruct fuel as [|f]; [simpl in Hfuel; lia|]. simpl.
        apply Nat.eqb_neq in Hvs. rewrite Hvs, Hb.
        assert (Hnv : existsb (Nat.eqb (et_edge (b_et b))) visited = false).
        { apply existsb_not_in. specialize (Hvis v (or_introl eq_refl)). unfold edge_of in Hvis. rewrite Hb in Hvis. exact Hvis. }
        rewrite Hnv, Hbt, backtrack_at_source. exists [b_et b]. split; [reflexivity|].
        simpl. unfold edge_of. rewrite Hb. reflexivity.
      - destruct (tr_lookup _ _ Hv) as (b & Hb & Hbt).
        assert (Hvs : v <> s). { intros ->. rewrite source_not_in_tree in Hb. discriminate. }
        destruct fuel as [|f]; [simpl in Hfuel; lia|]. simpl.
        apply Nat.eqb_neq in Hvs. rewrite Hvs, Hb.
        assert (Hnv : existsb (Nat.eqb (et_edge (b_et b))) visited = false).
        { apply existsb_not_in. specialize (Hvis v (or_introl eq_refl)). unfold edge_of in Hvis. rewrite Hb in Hvis. exact Hvis. }
        rewrite Hnv, Hbt.
        apply NoDup_cons in Hnd. destruct Hnd as [Hvc Hnd].
        destruct (IH Hnd f (et_edge (b_et b) :: visited) (b_et b :: acc)) as (ets & Hrun & Hmap).
        + simpl in Hfuel. lia.
        + intros w Hw [Heq | Hin].
          * assert (v = w).
            { apply edge_of_inj; eauto. { eapply chain_tree_dom; eauto. } unfold edge_of at 1. rewrite Hb. exact Heq. }
            subst w. apply Hvc. apply elem_of_list_In. exact Hw.
          * apply (Hvis w); [right; exact Hw | exact Hin].
        + exists (ets ++ [b_et b]). split.
          * rewrite Hrun. rewrite <- app_assoc. reflexivity.
          * rewrite map_app, Hmap. simpl. unfold edge_of at 3. rewrite Hb. reflexivity.
    Qed.

    Lemma chain_walk c v : chain (pmap tr) s v c -> walk g d s (rev (map (edge_of tr) c)) v.
    Proof.
      induction 1 as [v Hv | v u c Hv Hu Hc IH].
      - destruct (tr_lookup _ _ Hv) as (b & Hb & Hbt). simpl.
        eapply walk_cons; [|apply walk_nil]. rewrite <- Hbt. apply edge_of_joins. exact Hb.
      - destruct (tr_lookup _ _ Hv) as (b & Hb & Hbt). simpl.
        eapply walk_snoc; [exact IH|]. rewrite <- Hbt. apply edge_of_joins. exact Hb.
    Qed.

    Lemma chain_edges_NoDup c v : chain (pmap tr) s v c -> NoDup (map (edge_of tr) c).
    Proof.
      intros Hc. pose proof (chain_NoDup _ _ _ _ Hc) as Hnd.
      assert (Hdom : forall u, In u c -> is_Some (tr !! u)) by (intros; eapply chain_tree_dom; eauto).
      clear Hc. induction c as [|x c IH]; simpl; [apply NoDup_nil_2|].
      apply NoDup_cons in Hnd. destruct Hnd as [Hx Hnd].
      apply NoDup_cons_2.
      - intros Hin%elem_of_list_In. apply in_map_iff in Hin. destruct Hin as (y & Hy & Hyin).
        assert (y = x). { apply edge_of_inj; auto. - apply Hdom. right; exact Hyin. - apply Hdom. left; reflexivity. }
        subst y. apply Hx. apply elem_of_list_In. exact Hyin.
      - apply IH; auto. intros u Hu. apply Hdom. right; exact Hu.
    Qed.

    (* no vertex of a chain has the chain's start as its parent *)
    Lemma chain_no_back c v w : chain (pmap tr) s v c -> In w c -> pmap tr !! w <> Some v.
    Proof.
      intros Hc Hin Hpw.
      destruct (chain_suffix _ _ _ _ _ Hc Hin) as (l1 & l2 & -> & Hcw).
      inversion Hcw as [w' Hw' | w' u l3 Hw' Hu Hcu]; subst.
      - rewrite Hpw in Hw'. inversion Hw'; subst v.
        destruct (chain_tree_dom _ _ _ Hc (chain_in_head _ _ _ _ Hc)) as [b Hb].
        rewrite source_not_in_tree in Hb. discriminate.
      - rewrite Hpw in Hw'. inversion Hw'; subst u.
        pose proof (chain_unique _ _ _ _ _ Hc Hcu) as Heq.
        apply (f_equal (@length nat)) in Heq. rewrite app_length in Heq. simpl in Heq. lia.
    Qed.

    Lemma chain_length_le c v : chain (pmap tr) s v c -> length c <= size tr.
    Proof.
      intros Hc. pose proof (chain_NoDup _ _ _ _ Hc) as Hnd.
      rewrite <- (size_list_to_set (C:=gset nat) c Hnd).
      rewrite <- (size_dom (D:=gset nat) tr).
      apply subseteq_size. intros x Hx. apply elem_of_list_to_set in Hx. apply elem_of_dom.
      eapply chain_tree_dom; eauto. apply elem_of_list_In. exact Hx.
    Qed.

    (* backtracking on an invariant tree that contains the destination returns Ok *)
    Theorem backtrack_ok t : is_Some (tr !! t) ->
      exists r, vertex_oriented_route s t tr = Ok r
        /\ route_ok g d s t (map et_edge r)
        /\ (forall e ed, In e (map et_edge r) -> get_edge g e = Some ed ->
              key_vertex d ed <> s /\ term_vertex d ed <> t).
    Proof.
      intros Ht. destruct (ti_rooted _ _ _ _ HT) as [_ Hroot].
      destruct (Hroot t (proj2 (pmap_is_Some _ _) Ht)) as [c Hc].
      unfold vertex_oriented_route.
      destruct (backtrack_chain c t Hc (S (size tr)) [] []) as (ets & Hrun & Hmap).
      - pose proof (chain_length_le _ _ Hc). lia.
      - intros u _ [].
      - rewrite app_nil_r in Hrun. exists ets. split; [exact Hrun|]. rewrite Hmap. split.
        + split; [|split].
          * destruct (chain_head _ _ _ _ Hc) as [c' ->]. simpl. intros Habs. apply app_eq_nil in Habs. destruct Habs; discriminate.
          * apply chain_walk; exact Hc.
          * apply List.NoDup_rev. apply NoDup_ListNoDup. eapply chain_edges_NoDup; eauto.
        + intros e ed Hin Hge. apply in_rev in Hin. apply in_map_iff in Hin. destruct Hin as (w & <- & Hw).
          destruct (chain_tree_dom _ _ _ Hc Hw) as [b Hb].
          destruct (edge_of_joins _ _ Hb) as (ed' & Hge' & Hterm & Hkey).
          rewrite Hge in Hge'. inversion Hge'; subst ed'. split.
          * rewrite Hkey. intros ->. rewrite source_not_in_tree in Hb. discriminate.
          * rewrite Hterm. intros Hbt. apply (chain_no_back _ _ _ Hc Hw).
            rewrite pmap_lookup, Hb. simpl. congruence.
    Qed.

    (* conversely, Ok for a destination other than the source means the destination is in the tree *)
    Lemma backtrack_Ok_in_tree t r : t <> s -> vertex_oriented_route s t tr = Ok r -> is_Some (tr !! t).
    Proof.
      intros Hts. unfold vertex_oriented_route. simpl. apply Nat.eqb_neq in Hts. rewrite Hts.
      destruct (tr !! t); [eauto | discriminate].
    Qed.
  End OnTree.
End Backtrack.
