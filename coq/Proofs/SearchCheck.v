(* C01: the boolean checkers of Model/SearchSpec.v decide the Prop-level specification exactly
   (sound and complete), so a REJECT printed by the S line of the correspondence stream is never a false
   alarm and an accepted output really satisfies the property. *)
From Coq Require Import List Arith Bool Lia.
From stdpp Require Import gmap.
From RC Require Import Model.Search Model.SearchSpec Proofs.SearchTree.
Import ListNotations.
Import Search SearchSpec.

Lemma nodupb_spec l : nodupb l = true <-> List.NoDup l.
Proof.
  induction l as [|x l IH]; simpl.
  - split; [intros _; apply List.NoDup_nil | reflexivity].
  - rewrite andb_true_iff, negb_true_iff, IH. split.
    + intros [Hx Hl]. apply List.NoDup_cons; [|exact Hl]. intros Hin.
      assert (existsb (Nat.eqb x) l = true); [|congruence].
      apply existsb_exists. exists x. split; [exact Hin | apply Nat.eqb_refl].
    + intros H. inversion H as [|? ? Hx Hl]; subst. split; [|exact Hl].
      destruct (existsb (Nat.eqb x) l) eqn:E; [|reflexivity].
      apply existsb_exists in E. destruct E as (y & Hy & Heq). apply Nat.eqb_eq in Heq. subst y. contradiction.
Qed.

Lemma joins_b_spec g d e a b : joins_b g d e a b = true <-> edge_joins g d e a b.
Proof.
  unfold joins_b, edge_joins. destruct (get_edge g e) as [ed|]; split.
  - rewrite andb_true_iff, !Nat.eqb_eq. intros [Ha Hb]. exists ed. auto.
  - intros (ed' & Heq & Ha & Hb). inversion Heq; subst ed'. rewrite andb_true_iff, !Nat.eqb_eq. auto.
  - discriminate.
  - intros (ed' & Heq & _). discriminate.
Qed.

Lemma walk_b_spec g d r : forall a t, walk_b g d a r t = true <-> walk g d a r t.
Proof.
  induction r as [|e r IH]; intros a t; simpl.
  - rewrite Nat.eqb_eq. split; [intros ->; apply walk_nil | intros H; inversion H; reflexivity].
  - destruct (get_edge g e) as [ed|] eqn:Hg; split.
    + rewrite andb_true_iff, Nat.eqb_eq, IH. intros [Ha Hw].
      eapply walk_cons; [|exact Hw]. exists ed. auto.
    + intros H. inversion H as [|? ? b ? ? (ed' & Heq & Ha & Hb) Hw]; subst.
      rewrite Hg in Heq. inversion Heq; subst ed'.
      rewrite andb_true_iff, Nat.eqb_eq, IH. auto.
    + discriminate.
    + intros H. inversion H as [|? ? b ? ? (ed' & Heq & _) Hw]; subst. congruence.
Qed.

(* check_route decides route_ok *)
Theorem check_route_spec g d s t r : check_route g d s t r = true <-> route_ok g d s t r.
Proof.
  unfold check_route, route_ok. rewrite !andb_true_iff, walk_b_spec, nodupb_spec, negb_true_iff.
  destruct r; split; intros [[H1 H2] H3] || intros (H1 & H2 & H3); try discriminate; try congruence; auto.
Qed.

(* check_kroute decides kroute_ok *)
Theorem check_kroute_spec g d s t r : check_kroute g d s t r = true <-> kroute_ok g d s t r.
Proof.
  unfold check_kroute, kroute_ok. rewrite andb_true_iff, walk_b_spec, negb_true_iff.
  destruct r; split; intros [H1 H2]; try discriminate; try congruence; auto.
Qed.

(* check_eroute decides eroute_ok *)
Theorem check_eroute_spec g d e1 e2 r : check_eroute g d e1 e2 r = true <-> eroute_ok g d e1 e2 r.
Proof.
  unfold check_eroute, eroute_ok. split.
  - destruct (get_edge g e1) as [ed1|]; [|discriminate]. destruct (get_edge g e2) as [ed2|]; [|discriminate].
    destruct r as [|f [|x r']]; try discriminate.
    rewrite !andb_true_iff, !Nat.eqb_eq, walk_b_spec, nodupb_spec. intros [[[Hf Hl] Hw] Hn]. subst f.
    exists ed1, ed2, (removelast (x :: r')). repeat split; auto.
    f_equal. rewrite <- Hl. apply app_removelast_last. discriminate.
  - intros (ed1 & ed2 & mid & -> & -> & -> & Hw & Hn).
    assert (Hr : exists x r', mid ++ [e2] = x :: r').
    { destruct mid as [|m mid]; simpl; eauto. }
    destruct Hr as (x & r' & Hr). rewrite Hr in *.
    rewrite !andb_true_iff, !Nat.eqb_eq, walk_b_spec, nodupb_spec. repeat split; auto.
    rewrite <- Hr. apply last_last.
Qed.

(* ---- trees ---- *)
Lemma parents_nil : parents [] = ∅.
Proof. reflexivity. Qed.
Lemma parents_cons x l : parents (x :: l) = <[tkey x := tpar x]> (parents l).
Proof. reflexivity. Qed.

Lemma lookup_par_spec l v : lookup_par l v = parents l !! v.
Proof.
  induction l as [|x l IH]; simpl.
  - rewrite parents_nil. symmetry. apply lookup_empty.
  - rewrite parents_cons. destruct (Nat.eqb (tkey x) v) eqn:E.
    + apply Nat.eqb_eq in E. subst v. rewrite lookup_insert. reflexivity.
    + apply Nat.eqb_neq in E. rewrite lookup_insert_ne by auto. exact IH.
Qed.

Lemma parents_dom l v p : parents l !! v = Some p -> In v (map tkey l).
Proof.
  induction l as [|x l IH]; simpl.
  - rewrite parents_nil, lookup_empty. discriminate.
  - rewrite parents_cons. destruct (decide (tkey x = v)) as [-> | Hne]; [auto|].
    rewrite lookup_insert_ne by auto. auto.
Qed.
Lemma parents_none l v : parents l !! v = None <-> ~ In v (map tkey l).
Proof.
  induction l as [|x l IH]; simpl.
  - rewrite parents_nil, lookup_empty. tauto.
  - rewrite parents_cons. destruct (decide (tkey x = v)) as [-> | Hne].
    + rewrite lookup_insert. split; [discriminate | intros H; exfalso; auto].
    + rewrite lookup_insert_ne by auto. rewrite IH. tauto.
Qed.
Lemma parents_in l x : List.NoDup (map tkey l) -> In x l -> parents l !! tkey x = Some (tpar x).
Proof.
  induction l as [|y l IH]; simpl; intros Hnd Hin; [contradiction|].
  inversion Hnd as [|? ? Hy Hl]; subst. rewrite parents_cons. destruct Hin as [-> | Hin].
  - apply lookup_insert.
  - rewrite lookup_insert_ne; [auto|]. intros Heq. apply Hy. rewrite Heq. apply in_map. exact Hin.
Qed.

Lemma reaches_sound l s fuel : forall v, reaches l s fuel v = true -> exists c, chain (parents l) s v c.
Proof.
  induction fuel as [|f IH]; simpl; intros v H; [discriminate|].
  rewrite lookup_par_spec in H. destruct (parents l !! v) as [p|] eqn:Hp; [|discriminate].
  destruct (Nat.eqb p s) eqn:E.
  - apply Nat.eqb_eq in E. subst p. exists [v]. apply chain_root. exact Hp.
  - apply Nat.eqb_neq in E. destruct (IH _ H) as [c Hc]. exists (v :: c). eapply chain_step; eauto.
Qed.
Lemma reaches_complete l s v c : chain (parents l) s v c -> forall fuel, length c <= fuel -> reaches l s fuel v = true.
Proof.
  induction 1 as [v Hv | v u c Hv Hu Hc IH]; intros fuel Hf; (destruct fuel as [|f]; [simpl in Hf; lia|]); simpl;
    rewrite lookup_par_spec, Hv.
  - rewrite Nat.eqb_refl. reflexivity.
  - apply Nat.eqb_neq in Hu. rewrite Hu. apply IH. simpl in Hf. lia.
Qed.
Lemma chain_length_le_keys l s v c : chain (parents l) s v c -> length c <= length l.
Proof.
  intros Hc. rewrite <- (map_length tkey l). apply List.NoDup_incl_length.
  - apply NoDup_ListNoDup. eapply chain_NoDup; eauto.
  - intros u Hu. destruct (chain_in_dom _ _ _ _ _ Hc Hu) as [p Hp]. eapply parents_dom; eauto.
Qed.

Lemma mem_spec s l : existsb (Nat.eqb s) l = true <-> In s l.
Proof.
  rewrite existsb_exists. split.
  - intros (x & Hx & Heq). apply Nat.eqb_eq in Heq. subst; auto.
  - intros H. exists s. split; [auto | apply Nat.eqb_refl].
Qed.

(* check_tree decides tree_ok *)
Theorem check_tree_spec g d s l : check_tree g d s l = true <-> tree_ok g d s l.
Proof.
  unfold check_tree, tree_ok. rewrite !andb_true_iff, nodupb_spec, negb_true_iff, !forallb_forall. split.
  - intros [[[Hnd Hj] Hs] Hr]. split; [exact Hnd|]. split; [|split].
    + intros x Hx. apply joins_b_spec. auto.
    + apply parents_none. intros Hin. apply mem_spec in Hin. congruence.
    + intros x Hx. destruct (reaches_sound _ _ _ _ (Hr x Hx)) as [c Hc]. exists c. split; [exact Hc|].
      apply NoDup_ListNoDup. eapply chain_NoDup; eauto.
  - intros (Hnd & Hj & Hs & Hc). repeat split; auto.
    + intros x Hx. apply joins_b_spec. auto.
    + destruct (existsb (Nat.eqb s) (map tkey l)) eqn:E; [|reflexivity].
      apply mem_spec in E. apply parents_none in Hs. contradiction.
    + intros x Hx. destruct (Hc x Hx) as (c & Hch & _).
      eapply reaches_complete; [exact Hch|]. eapply chain_length_le_keys; eauto.
Qed.

(* check_etree decides etree_ok *)
Theorem check_etree_spec g d e1 l : check_etree g d e1 l = true <-> etree_ok g d e1 l.
Proof.
  unfold check_etree, etree_ok. destruct (get_edge g e1) as [ed1|]; split.
  - rewrite orb_true_iff, !check_tree_spec. intros H. exists ed1. auto.
  - intros (ed & Heq & H). inversion Heq; subst ed. rewrite orb_true_iff, !check_tree_spec. exact H.
  - discriminate.
  - intros (ed & Heq & _). discriminate.
Qed.
