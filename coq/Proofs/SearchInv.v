(* C01: the search invariant of DESIGN.md section 2 holds in every state reachable by the run_a_star loop,
   for every graph, frontier / traverse / estimate / terminate function, direction and fuel.
   Hypotheses on the cost type (Section hypotheses, discharged for Q in Proofs/SearchQ.v):
     cle is a preorder, the strict test [clt] implies cle and is incompatible with the converse cle,
     adding a produced edge cost never decreases a label. *)
From Coq Require Import List Arith Bool String Lia.
From stdpp Require Import gmap.
From RC Require Import Base.Res Model.Search Model.SearchSpec Proofs.SearchTree.
Import ListNotations.
Import Search SearchSpec.

Section Inv.
  Context {C St : Type}.
  Variable clt : C -> C -> bool.
  Variable cadd : C -> C -> C.
  Variable czero : C.
  Variable cfloor : C -> C.
  Variable g : graph.
  Variable frontier : nat -> St -> option nat -> res bool.
  Variable traverse : dir -> nat -> option nat -> St -> res (C * C * St).
  Variable estimate : nat -> nat -> St -> res C.
  Variable init_state : res St.
  Variable terminate : nat -> nat -> option string.

  Variable cle : C -> C -> Prop.
  Context `{!PreOrder cle}.
  Hypothesis clt_le : forall a b, clt a b = true -> cle a b.
  Hypothesis clt_irr : forall a b, clt a b = true -> cle b a -> False.
  Hypothesis cadd_infl : forall d e last st ac tc st' gc,
      traverse d e last st = Ok (ac, tc, st') -> cle gc (cadd gc (cfloor (cadd ac tc))).

  Notation sstate := (sstate C St).
  Notation branch := (branch C St).
  Notation relax := (relax clt cadd czero cfloor g frontier traverse estimate).
  Notation relax_all := (relax_all clt cadd czero cfloor g frontier traverse estimate).
  Notation step := (step clt cadd czero cfloor g frontier traverse estimate terminate).
  Notation run_loop := (run_loop clt cadd czero cfloor g frontier traverse estimate terminate).
  Notation run_a_star := (run_a_star clt cadd czero cfloor g frontier traverse estimate init_state terminate).
  Notation run_a_star_state := (run_a_star_state clt cadd czero cfloor g frontier traverse estimate init_state terminate).

  (* the parent map of a tree *)
  Definition pmap (tr : gmap nat branch) : gmap nat nat := b_term <$> tr.

  (* a tree (as a finite map) satisfying the tree clause of the property, with the provenance of its entries *)
  Record TreeInv (d : dir) (source : nat) (tr : gmap nat branch) : Prop := {
    ti_edges : forall v b, tr !! v = Some b -> edge_joins g d (et_edge (b_et b)) (b_term b) v;
    ti_rooted : rooted (pmap tr) source
  }.

  Record Inv (d : dir) (source : nat) (s : sstate) : Prop := {
    (* every entry records an edge that joins the entry's parent to the entry's vertex, in the search direction *)
    inv_tree : TreeInv d source (s_tree s);
    (* every entry was accepted by the frontier model and carries what the traversal produced *)
    inv_prov : forall v b, s_tree s !! v = Some b ->
        exists st last, frontier (et_edge (b_et b)) st last = Ok true
          /\ traverse d (et_edge (b_et b)) last st = Ok (et_access (b_et b), et_trav (b_et b), et_state (b_et b));
    (* labelled vertices = tree vertices + the source *)
    inv_dom : forall v, is_Some (s_g s !! v) <-> v = source \/ is_Some (s_tree s !! v);
    (* labels are monotone along parents *)
    inv_mono : lab_mono cle (pmap (s_tree s)) (s_g s);
    (* queued vertices are the source or tree vertices *)
    inv_pq : forall v c, In (v, c) (s_pq s) -> v = source \/ is_Some (s_tree s !! v)
  }.

  Lemma pmap_lookup tr v : pmap tr !! v = b_term <$> (tr !! v).
  Proof. unfold pmap. apply lookup_fmap. Qed.
  Lemma pmap_is_Some tr v : is_Some (pmap tr !! v) <-> is_Some (tr !! v).
  Proof. rewrite pmap_lookup. apply fmap_is_Some. Qed.
  Lemma pmap_insert tr v b : pmap (<[v:=b]> tr) = <[v:=b_term b]> (pmap tr).
  Proof. unfold pmap. apply fmap_insert. Qed.

  (* ---- priority queue facts ---- *)
  Lemma pq_push_in (q : list (nat * C)) v c x cx :
    In (x, cx) (pq_push_increase clt q v c) -> x = v \/ exists c', In (x, c') q.
  Proof.
    induction q as [|[v' c'] q IH]; simpl.
    - intros [H | []]. inversion H; auto.
    - destruct (Nat.eqb v' v) eqn:E.
      + apply Nat.eqb_eq in E. subst v'. destruct (clt c c').
        * intros [H | H]; [inversion H; auto | right; eauto].
        * intros [H | H]; [inversion H; auto | right; eauto].
      + intros [H | H]; [inversion H; subst; right; eauto |].
        destruct (IH H) as [-> | [c'' Hc]]; [auto | right; eauto].
  Qed.
  Lemma pq_min_in (q : list (nat * C)) v c : pq_min clt q = Some (v, c) -> In (v, c) q.
  Proof.
    revert v c. induction q as [|[v' c'] q IH]; simpl; intros v c H; [discriminate|].
    destruct (pq_min clt q) as [[v'' c'']|] eqn:E.
    - destruct (clt c'' c'); inversion H; subst; auto.
    - inversion H; auto.
  Qed.
  Lemma pq_remove_in (q : list (nat * C)) v x cx : In (x, cx) (pq_remove q v) -> In (x, cx) q.
  Proof.
    induction q as [|[v' c'] q IH]; simpl; [auto|].
    destruct (Nat.eqb v' v); [auto|]. intros [H | H]; auto.
  Qed.
  Lemma pq_pop_in (q q' : list (nat * C)) v c :
    pq_pop clt q = Some (v, c, q') -> In (v, c) q /\ forall x cx, In (x, cx) q' -> In (x, cx) q.
  Proof.
    unfold pq_pop. destruct (pq_min clt q) as [[v' c']|] eqn:E; [|discriminate].
    intros H; inversion H; subst. split; [apply pq_min_in; auto|]. intros x cx. apply pq_remove_in.
  Qed.

  (* ---- one relaxation ---- *)
  Lemma relax_inv d source target cur last s eid s' :
    Inv d source s -> relax d target cur last s eid = Ok s' -> Inv d source s'.
  Proof.
    intros HI. unfold Search.relax.
    destruct (get_edge g eid) as [e|] eqn:Hge; [|discriminate].
    destruct (frontier eid cur last) as [ok| | |] eqn:Hfr; simpl; try discriminate.
    destruct ok; simpl; [|intros H; inversion H; subst; exact HI].
    destruct (traverse d eid last cur) as [[[ac tc] st']| | |] eqn:Htr; simpl; try discriminate.
    destruct (s_g s !! term_vertex d e) as [gcur|] eqn:Hgt; [|intros H; inversion H; subst; exact HI].
    set (tv := term_vertex d e) in *. set (kv := key_vertex d e) in *.
    set (et := mkEt eid ac tc st'). set (tent := cadd gcur (et_total cadd cfloor et)).
    destruct (match s_g s !! kv with Some ex => clt tent ex | None => true end) eqn:Hbetter;
      [|intros H; inversion H; subst; exact HI].
    destruct (match target with Some t => estimate kv t cur | None => Ok czero end) as [h| | |]; simpl; try discriminate.
    intros H; inversion H; subst s'; clear H.
    destruct HI as [[Hedges Hroot] Hprov Hdom Hmono Hpq].
    (* the facts A1 needs *)
    assert (Hsrc : is_Some (s_g s !! source)) by (apply Hdom; auto).
    destruct Hsrc as [gs Hgs].
    assert (Htv : tv = source \/ is_Some (pmap (s_tree s) !! tv)).
    { destruct (proj1 (Hdom tv)) as [-> | Hin]; [eauto | auto |]. right. apply pmap_is_Some; auto. }
    assert (Hle : cle gcur tent). { unfold tent, et_total; simpl. eapply cadd_infl; eauto. }
    assert (Hy : s_g s !! kv = None \/ exists gy, s_g s !! kv = Some gy /\ clt tent gy = true).
    { destruct (s_g s !! kv) as [ex|]; [right; eauto | left; auto]. }
    destruct (relax_preserves cle (fun a b => clt a b = true) clt_le clt_irr
                (pmap (s_tree s)) (s_g s) source tv kv gcur tent gs Hroot Hmono Hgs Htv Hgt Hle Hy)
      as (Hkvs & Hroot' & Hmono').
    constructor; simpl.
    - constructor.
      + intros v b. destruct (decide (v = kv)) as [-> | Hne].
        * rewrite lookup_insert. intros Hb; inversion Hb; subst b; simpl. exists e. auto.
        * rewrite lookup_insert_ne by auto. apply Hedges.
      + rewrite pmap_insert. simpl. exact Hroot'.
    - intros v b. destruct (decide (v = kv)) as [-> | Hne].
      + rewrite lookup_insert. intros Hb; inversion Hb; subst b; simpl. exists cur, last. auto.
      + rewrite lookup_insert_ne by auto. apply Hprov.
    - intros v. destruct (decide (v = kv)) as [-> | Hne].
      + rewrite !lookup_insert. split; eauto.
      + rewrite !lookup_insert_ne by auto. apply Hdom.
    - rewrite pmap_insert. simpl. exact Hmono'.
    - intros v c Hin. destruct (pq_push_in _ _ _ _ _ Hin) as [-> | [c' Hc']].
      + right. rewrite lookup_insert. eauto.
      + destruct (Hpq _ _ Hc') as [-> | Hs]; [auto|].
        destruct (decide (v = kv)) as [-> | Hne]; [right; rewrite lookup_insert; eauto|].
        right. rewrite lookup_insert_ne by auto. exact Hs.
  Qed.

  Lemma relax_all_inv d source target cur last es : forall s s',
    Inv d source s -> relax_all d target cur last s es = Ok s' -> Inv d source s'.
  Proof.
    induction es as [|eid es IH]; simpl; intros s s' HI H.
    - inversion H; subst; exact HI.
    - destruct (relax d target cur last s eid) as [s1| | |] eqn:E; simpl in H; try discriminate.
      eapply IH; [|exact H]. eapply relax_inv; eauto.
  Qed.

  (* iteration count and queue order are not part of the invariant *)
  Lemma inv_same_maps d source (s s' : sstate) :
    s_g s' = s_g s -> s_tree s' = s_tree s -> (forall v c, In (v, c) (s_pq s') -> exists c', In (v, c') (s_pq s)) ->
    Inv d source s -> Inv d source s'.
  Proof.
    intros Hg Ht Hq [Htree Hprov Hdom Hmono Hpq]. constructor; rewrite ?Hg, ?Ht; auto.
    intros v c Hin. destruct (Hq _ _ Hin) as [c' Hc']. eapply Hpq; eauto.
  Qed.

  Lemma step_inv d source target init s r :
    Inv d source s -> step d source target init s = Ok r ->
    match r with inl s' => Inv d source s' | inr s' => Inv d source s' end.
  Proof.
    intros HI. unfold Search.step.
    destruct (terminate (size (s_tree s)) (s_iters s)); [discriminate|].
    destruct (pq_pop clt (s_pq s)) as [[[v c] q']|] eqn:Hpop.
    - destruct (pq_pop_in _ _ _ _ Hpop) as [Hv Hq'].
      assert (HI1 : Inv d source (mkS q' (s_g s) (s_tree s) (s_iters s))).
      { eapply inv_same_maps; [| | |exact HI]; simpl; auto. intros x cx Hx. eauto. }
      destruct (match target with Some t => Nat.eqb v t | None => false end).
      + intros H; inversion H; subst. exact HI1.
      + destruct (if Nat.eqb v source then Ok (None, init)
                  else match s_tree s !! v with
                       | Some b => Ok (Some (et_edge (b_et b)), et_state (b_et b))
                       | None => Err "internal: vertex missing from solution"%string
                       end) as [[le st]| | |]; simpl; try discriminate.
        destruct (relax_all d target st le (mkS q' (s_g s) (s_tree s) (s_iters s)) (incident d g v))
          as [s2| | |] eqn:E; simpl; try discriminate.
        intros H; inversion H; subst.
        pose proof (relax_all_inv _ _ _ _ _ _ _ _ HI1 E) as HI2.
        eapply inv_same_maps; [| | |exact HI2]; simpl; auto. intros x cx Hx. eauto.
    - destruct target; [discriminate|]. intros H; inversion H; subst. exact HI.
  Qed.

  (* ---- reachable states ---- *)
  Inductive reach (d : dir) (source : nat) (target : option nat) (init : St) (s0 : sstate) : sstate -> Prop :=
  | reach_refl : reach d source target init s0 s0
  | reach_next s s' : reach d source target init s0 s ->
      (step d source target init s = Ok (inl s') \/ step d source target init s = Ok (inr s')) ->
      reach d source target init s0 s'.

  Definition init_sstate (source : nat) (h0 : C) : sstate := mkS [(source, h0)] {[source := czero]} ∅ 0.

  Lemma init_inv d source h0 : Inv d source (init_sstate source h0).
  Proof.
    constructor; simpl.
    - constructor.
      + intros v b Hb. rewrite lookup_empty in Hb. discriminate.
      + split. { unfold pmap. rewrite fmap_empty. apply lookup_empty. }
        intros v [x Hx]. unfold pmap in Hx. rewrite fmap_empty, lookup_empty in Hx. discriminate.
    - intros v b Hb. rewrite lookup_empty in Hb. discriminate.
    - intros v. split.
      + intros [x Hx]. apply lookup_singleton_Some in Hx. left. symmetry. tauto.
      + intros [-> | [x Hx]]. { rewrite lookup_singleton. eauto. } rewrite lookup_empty in Hx. discriminate.
    - intros v u Hvu. unfold pmap in Hvu. rewrite fmap_empty, lookup_empty in Hvu. discriminate.
    - intros v c [H | []]. inversion H; auto.
  Qed.

  (* run_inv: the invariant holds in every state reachable by the loop *)
  Theorem run_inv d source target init s0 s :
    Inv d source s0 -> reach d source target init s0 s -> Inv d source s.
  Proof.
    intros H0. induction 1 as [|s s' Hr IH [Hs | Hs]]; [exact H0 | |].
    - exact (step_inv _ _ _ _ _ _ IH Hs).
    - exact (step_inv _ _ _ _ _ _ IH Hs).
  Qed.

  Lemma run_loop_reach fuel d source target init : forall s0 s,
    run_loop fuel d source target init s0 = Ok s -> reach d source target init s0 s.
  Proof.
    induction fuel as [|f IH]; simpl; intros s0 s H; [discriminate|].
    destruct (step d source target init s0) as [[s1|s1]| | |] eqn:E; simpl in H; try discriminate.
    - specialize (IH _ _ H). clear H.
      induction IH as [|sa sb Hr IHr Hs].
      + eapply reach_next; [apply reach_refl | left; exact E].
      + eapply reach_next; [exact IHr | exact Hs].
    - inversion H; subst. eapply reach_next; [apply reach_refl | right; exact E].
  Qed.

  Theorem run_loop_inv fuel d source target init s0 s :
    Inv d source s0 -> run_loop fuel d source target init s0 = Ok s -> Inv d source s.
  Proof. intros H0 H. eapply run_inv; [exact H0 | eapply run_loop_reach; exact H]. Qed.

  (* when the loop ends with a destination, the destination was popped: it is in the tree *)
  Lemma run_loop_target fuel d source t init : forall s0 s,
    Inv d source s0 -> run_loop fuel d source (Some t) init s0 = Ok s -> t = source \/ is_Some (s_tree s !! t).
  Proof.
    induction fuel as [|f IH]; simpl; intros s0 s HI H; [discriminate|].
    destruct (step d source (Some t) init s0) as [[s1|s1]| | |] eqn:E; simpl in H; try discriminate.
    - eapply IH; [|exact H]. exact (step_inv _ _ _ _ _ _ HI E).
    - inversion H; subst s1; clear H. revert E. unfold Search.step.
      destruct (terminate (size (s_tree s0)) (s_iters s0)); [discriminate|].
      destruct (pq_pop clt (s_pq s0)) as [[[v c] q']|] eqn:Hpop; [|discriminate].
      destruct (Nat.eqb v t) eqn:Evt.
      + intros H; inversion H; subst s; simpl. apply Nat.eqb_eq in Evt. subst v.
        destruct (pq_pop_in _ _ _ _ Hpop) as [Hv _]. exact (inv_pq _ _ _ HI _ _ Hv).
      + destruct (if Nat.eqb v source then Ok (None, init)
                  else match s_tree s0 !! v with
                       | Some b => Ok (Some (et_edge (b_et b)), et_state (b_et b))
                       | None => Err "internal: vertex missing from solution"%string
                       end) as [[le st]| | |]; simpl; try discriminate.
        destruct (relax_all d (Some t) st le (mkS q' (s_g s0) (s_tree s0) (s_iters s0)) (incident d g v))
          as [s2| | |]; simpl; discriminate.
  Qed.

  (* ---- run_a_star ---- *)
  Theorem run_a_star_state_inv fuel d source target s :
    run_a_star_state fuel d source target = Ok s -> Inv d source s.
  Proof.
    unfold Search.run_a_star_state. destruct (negb (Nat.ltb source (nverts g))); [discriminate|].
    destruct init_state as [init| | |]; simpl; try discriminate.
    destruct (match target with Some t => estimate source t init | None => Ok czero end) as [h0| | |]; simpl; try discriminate.
    intros H. eapply run_loop_inv; [apply (init_inv d source h0) | exact H].
  Qed.

  Lemma empty_tree_inv d source : TreeInv d source ∅.
  Proof. exact (inv_tree _ _ _ (init_inv d source czero)). Qed.

  (* tree_rooted (map form): the returned tree satisfies the tree clause *)
  Theorem run_a_star_tree fuel d source target tr it :
    run_a_star fuel d source target = Ok (tr, it) -> TreeInv d source tr.
  Proof.
    unfold Search.run_a_star. destruct (negb (Nat.ltb source (nverts g))); [discriminate|].
    destruct (match target with Some t => Nat.eqb t source | None => false end).
    { intros H; inversion H; subst. apply empty_tree_inv. }
    destruct init_state as [init| | |]; simpl; try discriminate.
    destruct (match target with Some t => estimate source t init | None => Ok czero end) as [h0| | |]; simpl; try discriminate.
    destruct (run_loop fuel d source target init (mkS [(source, h0)] {[source := czero]} ∅ 0)) as [s| | |] eqn:E;
      simpl; try discriminate.
    intros H; inversion H; subst. apply inv_tree. eapply run_loop_inv; [apply (init_inv d source h0) | exact E].
  Qed.

  (* a successful search with a destination has the destination in its tree *)
  Theorem run_a_star_target fuel d source t tr it :
    run_a_star fuel d source (Some t) = Ok (tr, it) -> t <> source -> is_Some (tr !! t).
  Proof.
    unfold Search.run_a_star. intros H Hne.
    destruct (negb (Nat.ltb source (nverts g))); [discriminate|].
    destruct (Nat.eqb t source) eqn:E0. { apply Nat.eqb_eq in E0. contradiction. }
    destruct init_state as [init| | |]; simpl in H; try discriminate.
    destruct (estimate source t init) as [h0| | |]; simpl in H; try discriminate.
    destruct (run_loop fuel d source (Some t) init (mkS [(source, h0)] {[source := czero]} ∅ 0)) as [s| | |] eqn:E;
      simpl in H; try discriminate.
    inversion H; subst.
    destruct (run_loop_target _ _ _ _ _ _ _ (init_inv d source h0) E) as [-> | Hs]; [contradiction | exact Hs].
  Qed.
End Inv.
