(* C01, k-shortest paths (Yen): a candidate assembled as
     root (a proper prefix of an already accepted route) ++ spur (a route from the root's end vertex to the target)
   is again a contiguous walk from the origin to the target.  This is the only way yens_algorithm.rs builds
   the routes it returns, so by induction every returned route satisfies the chain clause whenever the
   underlying searches return walks (Proofs/SearchRoute.v). *)
From Coq Require Import List Arith Bool Lia.
From stdpp Require Import gmap.
From RC Require Import Model.Search Model.SearchSpec.
Import ListNotations.
Import Search SearchSpec.

Lemma walk_app g d a r1 b r2 c : walk g d a r1 b -> walk g d b r2 c -> walk g d a (r1 ++ r2) c.
Proof.
  induction 1 as [a | a e b' r c' He Hw IH]; simpl; intros H2; [exact H2|].
  eapply walk_cons; [exact He | apply IH, H2].
Qed.

Lemma walk_split g d r1 : forall a r2 c, walk g d a (r1 ++ r2) c -> exists b, walk g d a r1 b /\ walk g d b r2 c.
Proof.
  induction r1 as [|e r1 IH]; simpl; intros a r2 c H.
  - exists a. split; [apply walk_nil | exact H].
  - inversion H as [|? ? b ? ? He Hw]; subst. destruct (IH _ _ _ Hw) as (b' & H1 & H2).
    exists b'. split; [eapply walk_cons; eauto | exact H2].
Qed.

(* a non-empty walk ends at the far end of its last edge *)
Lemma walk_last_key g d r : forall a b e0 ed,
    walk g d a r b -> r <> [] -> get_edge g (List.last r e0) = Some ed -> key_vertex d ed = b.
Proof.
  induction r as [|x r IH]; intros a b e0 ed Hw Hne Hg.
  - exfalso. apply Hne. reflexivity.
  - inversion Hw as [|? ? m ? ? (ed' & Hg' & _ & Hk) Hw']; subst.
    destruct r as [|y r].
    + inversion Hw'; subst. simpl in Hg. rewrite Hg' in Hg. inversion Hg; subst. reflexivity.
    + change (List.last (x :: y :: r) e0) with (List.last (y :: r) e0) in Hg.
      eapply IH; [exact Hw' | discriminate | exact Hg].
Qed.

(* yens_algorithm.rs: root_path = prev.take(spur_len); spur vertex = dst of the last root edge;
   candidate = root_path ++ spur_path *)
Theorem yen_candidate_walk g s t prev n e ed spur :
    walk g Forward s prev t ->
    firstn n prev <> [] ->
    List.last (firstn n prev) e = e ->
    get_edge g e = Some ed ->
    walk g Forward (edst ed) spur t ->
    walk g Forward s (firstn n prev ++ spur) t.
Proof.
  intros Hw Hne Hl Hg Hs.
  rewrite <- (firstn_skipn n prev) in Hw. destruct (walk_split _ _ _ _ _ _ Hw) as (b & H1 & _).
  eapply walk_app; [exact H1|].
  assert (key_vertex Forward ed = b) as <-; [|exact Hs].
  eapply (walk_last_key g Forward (firstn n prev) s b e ed H1 Hne). rewrite Hl. exact Hg.
Qed.
