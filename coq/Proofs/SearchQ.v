(* C01: the hypotheses on the cost type hold for exact rationals with the table-driven configuration of
   Model/SearchRun.v (every produced edge cost is strictly positive because CostModel clamps it), so all
   theorems of Proofs/SearchInv.v, SearchRoute.v apply to [SR.run QN].
   (For binary64 the same three facts hold for NaN-free values: < is a strict order compatible with <=, and
   g <= g + c for c >= 0 by monotonicity of rounding; nothing is proved about FN, it is only executed.) *)
From Coq Require Import QArith Qminmax Lqa List Arith Bool String.
From stdpp Require Import gmap.
From RC Require Import Base.Res Base.Num Model.Search Model.SearchSpec Model.SearchRun
  Proofs.SearchTree Proofs.SearchInv Proofs.SearchBacktrack Proofs.SearchRoute.
Import ListNotations.
Import Search SearchSpec.

Global Instance Qle_preorder : PreOrder Qle.
Proof. split; [intros x; apply Qle_refl | intros x y z; apply Qle_trans]. Qed.

Lemma Qltb_lt a b : Qltb a b = true -> (a < b)%Q.
Proof.
  unfold Qltb. rewrite negb_true_iff. intros H. apply Qnot_le_lt. intros Hle.
  apply Qle_bool_iff in Hle. congruence.
Qed.
Lemma Qltb_le a b : Qltb a b = true -> (a <= b)%Q.
Proof. intros H. apply Qlt_le_weak, Qltb_lt, H. Qed.
Lemma Qltb_irr a b : Qltb a b = true -> (b <= a)%Q -> False.
Proof. intros H Hle. apply Qltb_lt in H. apply (Qlt_not_le _ _ H Hle). Qed.

Lemma pos_positive (x : Q) : (0 < SR.pos QN x)%Q.
Proof.
  unfold SR.pos. cbn [leb zero QN SR.min_cost lit Qlit]. destruct (Qle_bool x 0) eqn:E.
  - reflexivity.
  - apply Qnot_le_lt. intros Hle. apply Qle_bool_iff in Hle. congruence.
Qed.

(* adding a produced edge cost never decreases a label *)
Lemma traverse_inflationary (w : SR.world QN) d e last st ac tc st' (gc : Q) :
  SR.traverse QN w d e last st = Ok (ac, tc, st') -> (gc <= gc + SR.pos QN (ac + tc)%Q)%Q.
Proof.
  intros _. pose proof (pos_positive (ac + tc)%Q) as Hp. set (t := SR.pos QN (ac + tc)%Q) in *. lra.
Qed.

Section QRun.
  Variable w : SR.world QN.
  Variable q : SR.query QN.
  Let g := SR.graph_of QN w.
  Let d := SR.q_dir QN q.

  (* the property, for the table-driven model over exact rationals: vertex-oriented *)
  Theorem q_vertex_route_walk fuel s t r :
    SR.run_vertex QN fuel w q s (Some t) = Ok r -> t <> s ->
    exists tr route, r_trees r = [tr] /\ r_routes r = [route]
      /\ tree_ok g d s (triples_of tr) /\ route_ok g d s t (map et_edge route).
  Proof.
    intros H Hts.
    destruct (vertex_route_walk (C:=Q) (St:=Q) _ _ _ _ g _ _ _ _ _ Qle Qltb_le Qltb_irr
                (traverse_inflationary w) fuel d s t r H Hts)
      as (tr & route & Ht & Hr & HT & _ & Hok & _).
    exists tr, route. split; [exact Ht|]. split; [exact Hr|]. split; [apply tree_inv_ok; exact HT | exact Hok].
  Qed.
  Theorem q_vertex_tree fuel s target r :
    SR.run_vertex QN fuel w q s target = Ok r -> exists tr, r_trees r = [tr] /\ tree_ok g d s (triples_of tr).
  Proof.
    intros H.
    destruct (vertex_search_tree (C:=Q) (St:=Q) _ _ _ _ g _ _ _ _ _ Qle Qltb_le Qltb_irr
                (traverse_inflationary w) fuel d s target r H) as (tr & Ht & HT).
    exists tr. split; [exact Ht|]. apply tree_inv_ok. exact HT.
  Qed.
End QRun.
