(* C01: what run_vertex_oriented and run_edge_oriented (Dijkstra / A-star) return.
   Same Section hypotheses as Proofs/SearchInv.v. *)
From Coq Require Import List Arith Bool String Lia.
From stdpp Require Import gmap.
From RC Require Import Base.Res Model.Search Model.SearchSpec Proofs.SearchTree Proofs.SearchInv Proofs.SearchBacktrack.
Import ListNotations.
Import Search SearchSpec.

Lemma bind_ok_inv {A B} (r : res A) (f : A -> res B) b : bind r f = Ok b -> exists a, r = Ok a /\ f a = Ok b.
Proof. destruct r; simpl; intros H; try discriminate. eauto. Qed.

(* ---------------------------------------------------------------- trees as maps vs. lists of triples *)
Section Trees.
  Context {C St : Type}.
  Variable g : graph.
  Notation branch := (branch C St).
  Implicit Types tr : gmap nat branch.

  Definition triples_of tr : list triple :=
    map (fun kb => (fst kb, b_term (snd kb), et_edge (b_et (snd kb)))) (map_to_list tr).

  Lemma parents_triples tr : parents (triples_of tr) = pmap tr.
  Proof.
    unfold parents, triples_of, pmap. rewrite map_map. unfold tkey, tpar. simpl.
    change (map (fun x : nat * branch => (fst x, b_term (snd x))) (map_to_list tr))
      with (prod_map id b_term <$> map_to_list tr).
    rewrite list_to_map_fmap. rewrite list_to_map_to_list. reflexivity.
  Qed.

  Lemma in_triples tr x : In x (triples_of tr) ->
    exists b, tr !! tkey x = Some b /\ tpar x = b_term b /\ tedge x = et_edge (b_et b).
  Proof.
    unfold triples_of. intros Hin. apply in_map_iff in Hin. destruct Hin as ([v b] & <- & Hin).
    apply elem_of_list_In, elem_of_map_to_list in Hin. exists b. auto.
  Qed.

  (* the tree clause of the property, in the list form the checker decides *)
  Theorem tree_inv_ok d s tr : TreeInv g d s tr -> tree_ok g d s (triples_of tr).
  Proof.
    intros [Hedges [Hs Hroot]]. split; [|split; [|split]].
    - unfold triples_of. rewrite map_map. simpl. apply NoDup_ListNoDup.
      change (map (fun x : nat * branch => fst x) (map_to_list tr)) with ((map_to_list tr).*1).
      apply NoDup_fst_map_to_list.
    - intros x Hin. destruct (in_triples _ _ Hin) as (b & Hb & -> & ->). exact (Hedges _ _ Hb).
    - rewrite parents_triples. exact Hs.
    - intros x Hin. destruct (in_triples _ _ Hin) as (b & Hb & _ & _). rewrite parents_triples.
      destruct (Hroot (tkey x)) as [c Hc]. { apply pmap_is_Some. eauto. }
      exists c. split; [exact Hc|]. apply NoDup_ListNoDup. eapply chain_NoDup; eauto.
  Qed.

  Lemma tree_inv_empty d s : TreeInv g d s (∅ : gmap nat branch).
  Proof.
    constructor.
    - intros v b Hb. rewrite lookup_empty in Hb. discriminate.
    - split. { unfold pmap. rewrite fmap_empty. apply lookup_empty. }
      intros v [x Hx]. unfold pmap in Hx. rewrite fmap_empty, lookup_empty in Hx. discriminate.
  Qed.

  (* adding a leaf under the root or under a tree vertex *)
  Lemma tree_inv_leaf d s tr v p et :
    TreeInv g d s tr -> tr !! v = None -> v <> s -> (p = s \/ is_Some (tr !! p)) ->
    edge_joins g d (et_edge et) p v -> TreeInv g d s (<[v := mkBranch p et]> tr).
  Proof.
    intros [Hedges [Hs Hroot]] Hv Hvs Hp Hj.
    assert (Hpv : pmap tr !! v = None). { rewrite pmap_lookup, Hv. reflexivity. }
    assert (Havoid : forall u c, chain (pmap tr) s u c -> ~ In v c).
    { intros u c Hc Hin. destruct (chain_in_dom _ _ _ _ _ Hc Hin) as [x Hx]. congruence. }
    constructor.
    - intros u b. destruct (decide (u = v)) as [-> | Hne].
      + rewrite lookup_insert. intros Hb; inversion Hb; subst b. exact Hj.
      + rewrite lookup_insert_ne by auto. apply Hedges.
    - rewrite pmap_insert. simpl. split. { rewrite lookup_insert_ne by auto. exact Hs. }
      intros u Hu. destruct (decide (u = v)) as [-> | Hne].
      + destruct (decide (p = s)) as [-> | Hps].
        * exists [v]. apply chain_root. apply lookup_insert.
        * destruct Hp as [-> | Hp]; [congruence|].
          destruct (Hroot p) as [c Hc]. { apply pmap_is_Some; auto. }
          exists (v :: c). eapply chain_step; [apply lookup_insert | exact Hps |].
          apply chain_insert_avoid; eauto.
      + rewrite lookup_insert_ne in Hu by auto. destruct (Hroot u Hu) as [c Hc].
        exists c. apply chain_insert_avoid; eauto.
  Qed.

  (* grafting the old root b under a new root a (the origin edge of an edge-oriented search) *)
  Lemma tree_inv_graft d a b tr et :
    TreeInv g d b tr -> a <> b -> tr !! a = None ->
    edge_joins g d (et_edge et) a b -> TreeInv g d a (<[b := mkBranch a et]> tr).
  Proof.
    intros [Hedges [Hb Hroot]] Hab Ha Hj.
    assert (Hpa : pmap tr !! a = None). { rewrite pmap_lookup, Ha. reflexivity. }
    assert (Hext : forall v c, chain (pmap tr) b v c -> chain (<[b:=a]> (pmap tr)) a v (c ++ [b])).
    { intros v c Hc. induction Hc as [v Hv | v u c Hv Hu Hc IH]; simpl.
      - assert (v <> b) by (intros ->; congruence).
        eapply chain_step; [rewrite lookup_insert_ne by auto; exact Hv | auto |].
        apply chain_root. apply lookup_insert.
      - assert (v <> b) by (intros ->; congruence).
        eapply chain_step; [rewrite lookup_insert_ne by auto; exact Hv | | exact IH].
        intros ->. destruct (chain_in_dom _ _ _ _ _ Hc (chain_in_head _ _ _ _ Hc)) as [x Hx]. congruence. }
    constructor.
    - intros u br. destruct (decide (u = b)) as [-> | Hne].
      + rewrite lookup_insert. intros H; inversion H; subst br. exact Hj.
      + rewrite lookup_insert_ne by auto. apply Hedges.
    - rewrite pmap_insert. simpl. split. { rewrite lookup_insert_ne by auto. exact Hpa. }
      intros u Hu. destruct (decide (u = b)) as [-> | Hne].
      + exists [b]. apply chain_root. apply lookup_insert.
      + rewrite lookup_insert_ne in Hu by auto. destruct (Hroot u Hu) as [c Hc]. eauto.
  Qed.

  Lemma etree_of_inv d e1 ed1 tr :
    get_edge g e1 = Some ed1 ->
    (TreeInv g d (term_vertex d ed1) tr \/ TreeInv g d (key_vertex d ed1) tr) ->
    etree_ok g d e1 (triples_of tr).
  Proof.
    intros Hg HT. exists ed1. split; [exact Hg|].
    destruct d; simpl in HT; destruct HT as [HT | HT]; [left | right | right | left]; apply tree_inv_ok; exact HT.
  Qed.
End Trees.

(* ---------------------------------------------------------------- reading a reverse route *)
Lemma joins_reverse g e a b : edge_joins g Reverse e a b <-> edge_joins g Forward e b a.
Proof. unfold edge_joins; simpl. split; intros (ed & H1 & H2 & H3); exists ed; auto. Qed.

(* a route returned by a Reverse search, read backwards, is an ordinary walk from the target to the source:
   every edge starts where the previous one (in that reading) ended *)
Lemma walk_reverse g a r c : walk g Reverse a r c -> walk g Forward c (rev r) a.
Proof.
  induction 1 as [a | a e b r c He Hw IH]; simpl; [apply walk_nil|].
  eapply walk_snoc; [exact IH|]. apply joins_reverse. exact He.
Qed.

(* ---------------------------------------------------------------- the searches *)
Section Route.
  Context {C St : Type}.
  Variable clt : C -> C -> bool.
  Variable cadd : C -> C -> C.
  Variable czero : C.
  Variable cfloor : C -> C.
  Variable g : graph.
  Variable frontier : nat -> St -> option nat -> res bool.
  Variable traverse : dir -> nat -> option nat -> St -> res (C * C * St).
  Variable estimate : nat -> nat -> St -> res C.
  Variable init_state : res St.
  Variable terminate : nat -> nat -> option string.

  Variable cle : C -> C -> Prop.
  Context `{!PreOrder cle}.
  Hypothesis clt_le : forall a b, clt a b = true -> cle a b.
  Hypothesis clt_irr : forall a b, clt a b = true -> cle b a -> False.
  Hypothesis cadd_infl : forall d e last st ac tc st' gc,
      traverse d e last st = Ok (ac, tc, st') -> cle gc (cadd gc (cfloor (cadd ac tc))).

  Notation branch := (branch C St).
  Notation etrav := (etrav C St).
  Notation sresult := (sresult C St).
  Notation run_a_star := (run_a_star clt cadd czero cfloor g frontier traverse estimate init_state terminate).
  Notation run_vertex_oriented := (run_vertex_oriented clt cadd czero cfloor g frontier traverse estimate init_state terminate).
  Notation run_edge_oriented := (run_edge_oriented czero g traverse init_state).

  (* every returned tree satisfies the tree invariant *)
  Theorem vertex_search_tree fuel d s target (r : sresult) :
    run_vertex_oriented fuel d s target = Ok r -> exists tr, r_trees r = [tr] /\ TreeInv g d s tr.
  Proof.
    unfold Search.run_vertex_oriented.
    destruct (run_a_star fuel d s target) as [[tr it]| | |] eqn:E; simpl; try discriminate.
    pose proof (run_a_star_tree clt cadd czero cfloor g frontier traverse estimate init_state terminate cle
                  clt_le clt_irr cadd_infl _ _ _ _ _ _ E) as HT.
    destruct target as [t|].
    - destruct (vertex_oriented_route s t tr) as [route| | |]; simpl; try discriminate.
      intros H; inversion H; subst; simpl. eauto.
    - intros H; inversion H; subst; simpl. eauto.
  Qed.

  Theorem vertex_search_no_target fuel d s (r : sresult) :
    run_vertex_oriented fuel d s None = Ok r -> r_routes r = [].
  Proof.
    unfold Search.run_vertex_oriented.
    destruct (run_a_star fuel d s None) as [[tr it]| | |]; simpl; try discriminate.
    intros H; inversion H; reflexivity.
  Qed.

  (* vertex_route_walk *)
  Theorem vertex_route_walk fuel d s t (r : sresult) :
    run_vertex_oriented fuel d s (Some t) = Ok r -> t <> s ->
    exists tr route, r_trees r = [tr] /\ r_routes r = [route] /\ TreeInv g d s tr /\ is_Some (tr !! t)
      /\ route_ok g d s t (map et_edge route)
      /\ (forall e ed, In e (map et_edge route) -> get_edge g e = Some ed ->
            key_vertex d ed <> s /\ term_vertex d ed <> t).
  Proof.
    unfold Search.run_vertex_oriented. intros H Hts.
    destruct (run_a_star fuel d s (Some t)) as [[tr it]| | |] eqn:E; simpl in H; try discriminate.
    pose proof (run_a_star_tree clt cadd czero cfloor g frontier traverse estimate init_state terminate cle
                  clt_le clt_irr cadd_infl _ _ _ _ _ _ E) as HT.
    pose proof (run_a_star_target clt cadd czero cfloor g frontier traverse estimate init_state terminate cle
                  clt_le clt_irr cadd_infl _ _ _ _ _ _ E Hts) as Hin.
    destruct (backtrack_ok g d s tr HT t Hin) as (route & Hroute & Hok & Hstrong).
    rewrite Hroute in H. simpl in H. inversion H; subst; simpl.
    exists tr, route. auto 10.
  Qed.

  (* ---- edge-oriented ---- *)
  Lemma term_key_ends d ed : (term_vertex d ed = esrc ed /\ key_vertex d ed = edst ed)
                              \/ (term_vertex d ed = edst ed /\ key_vertex d ed = esrc ed).
  Proof. destruct d; simpl; auto. Qed.

  Lemma last_snoc_some {A} (l : list A) : l <> [] -> exists x, last l = Some x.
  Proof.
    intros Hl. destruct (last l) as [x|] eqn:E; [eauto|]. apply last_None in E. contradiction.
  Qed.

  (* edge_route_walk, and the trees of an edge-oriented search with a destination *)
  Theorem edge_route_walk fuel d e1 e2 (r : sresult) :
    run_edge_oriented d (run_vertex_oriented fuel d) e1 (Some e2) = Ok r -> e1 <> e2 ->
    exists ed1 route, get_edge g e1 = Some ed1 /\ r_routes r = [route]
      /\ eroute_ok g d e1 e2 (map et_edge route)
      /\ exists tr, r_trees r = [tr]
           /\ (TreeInv g d (term_vertex d ed1) tr \/ TreeInv g d (key_vertex d ed1) tr).
  Proof.
    unfold Search.run_edge_oriented. intros H Hne.
    destruct (get_edge g e1) as [ed1|] eqn:Hg1; [|discriminate].
    apply bind_ok_inv in H. destruct H as (init & Hinit & H).
    destruct (get_edge g e2) as [ed2|] eqn:Hg2; [|discriminate].
    apply Nat.eqb_neq in Hne. rewrite Hne in H. apply Nat.eqb_neq in Hne.
    set (a1 := term_vertex d ed1) in *. set (b1 := key_vertex d ed1) in *.
    set (a2 := term_vertex d ed2) in *. set (b2 := key_vertex d ed2) in *.
    assert (Hj1 : edge_joins g d e1 a1 b1) by (exists ed1; auto).
    assert (Hj2 : edge_joins g d e2 a2 b2) by (exists ed2; auto).
    exists ed1.
    destruct (Nat.eqb b1 a2) eqn:Eadj.
    - (* the destination edge follows the origin edge directly *)
      apply Nat.eqb_eq in Eadj.
      apply bind_ok_inv in H. destruct H as (init2 & Hinit2 & H).
      destruct (traverse d e1 None init2) as [[[ac1 tc1] s1]| | |]; simpl in H; try discriminate.
      destruct (traverse d e2 (Some e1) s1) as [[[ac2 tc2] s2]| | |]; simpl in H; try discriminate.
      inversion H; subst r; clear H; simpl.
      eexists. split; [reflexivity|]. split; [reflexivity|]. split.
      + exists ed1, ed2, []. simpl. repeat split; auto.
        * eapply walk_cons; [exact Hj1|]. rewrite Eadj. eapply walk_cons; [exact Hj2 | apply walk_nil].
        * apply List.NoDup_cons; [intros [Heq | []]; congruence|]. apply List.NoDup_cons; [intros []|apply List.NoDup_nil].
      + eexists. split; [reflexivity|]. left.
        set (et1 := mkEt e1 ac1 tc1 s1). set (et2 := mkEt e2 ac2 tc2 s2).
        assert (HT0 : TreeInv g d a1 (if Nat.eqb b1 a1 then ∅ else {[b1 := mkBranch a1 et1]} : gmap nat branch)).
        { destruct (Nat.eqb b1 a1) eqn:E1; [apply tree_inv_empty|].
          apply Nat.eqb_neq in E1. rewrite <- insert_empty.
          apply tree_inv_leaf; [apply tree_inv_empty | apply lookup_empty | exact E1 | left; reflexivity | exact Hj1]. }
        destruct (negb (Nat.eqb b2 a1) && negb (Nat.eqb b2 b1)) eqn:E2; [|exact HT0].
        apply andb_true_iff in E2. destruct E2 as [E2a E2b].
        apply negb_true_iff, Nat.eqb_neq in E2a. apply negb_true_iff, Nat.eqb_neq in E2b.
        apply tree_inv_leaf; [exact HT0 | | exact E2a | | exact Hj2].
        * destruct (Nat.eqb b1 a1); [apply lookup_empty|]. apply lookup_singleton_ne. auto.
        * rewrite <- Eadj. destruct (Nat.eqb b1 a1) eqn:E1.
          -- left. apply Nat.eqb_eq in E1. exact E1.
          -- right. rewrite lookup_singleton. eauto.
    - (* a search from the origin edge's far end to the destination edge's near end *)
      apply Nat.eqb_neq in Eadj.
      destruct (run_vertex_oriented fuel d b1 (Some a2)) as [r0| | |] eqn:Evs; simpl in H; try discriminate.
      destruct (vertex_route_walk _ _ _ _ _ Evs (not_eq_sym Eadj)) as (tr & vr & Htrees & Hroutes & HT & _ & Hok & Hstrong).
      rewrite Htrees, Hroutes in H. simpl in H.
      destruct Hok as (Hvne & Hwalk & Hnd).
      assert (Hvne' : vr <> []). { intros ->. apply Hvne. reflexivity. }
      destruct (last_snoc_some vr Hvne') as [fin Hfin]. rewrite Hfin in H. simpl in H.
      inversion H; subst r; clear H; simpl.
      eexists. split; [reflexivity|]. split; [reflexivity|]. split.
      + exists ed1, ed2, (map et_edge vr). simpl. rewrite map_app. simpl. repeat split; auto.
        * eapply walk_cons; [exact Hj1|]. eapply walk_snoc; [exact Hwalk | exact Hj2].
        * apply List.NoDup_cons.
          -- intros Hin. apply in_app_or in Hin. destruct Hin as [Hin | [Heq | []]]; [|congruence].
             destruct (Hstrong _ _ Hin Hg1) as [Hk _]. apply Hk. reflexivity.
          -- apply NoDup_ListNoDup. apply NoDup_app. split; [apply NoDup_ListNoDup; exact Hnd|]. split.
             ++ intros x Hx Hx2. apply elem_of_list_singleton in Hx2. subst x.
                apply elem_of_list_In in Hx. destruct (Hstrong _ _ Hx Hg2) as [_ Ht]. apply Ht. reflexivity.
             ++ apply NoDup_singleton.
      + exists tr. split; [reflexivity|]. right. exact HT.
  Qed.

  (* the trees of an edge-oriented search without a destination *)
  Theorem edge_tree_rooted fuel d e1 (r : sresult) :
    run_edge_oriented d (run_vertex_oriented fuel d) e1 None = Ok r ->
    exists ed1, get_edge g e1 = Some ed1 /\ r_routes r = [] /\
      exists tr, r_trees r = [tr]
        /\ (TreeInv g d (term_vertex d ed1) tr \/ TreeInv g d (key_vertex d ed1) tr).
  Proof.
    unfold Search.run_edge_oriented. intros H.
    destruct (get_edge g e1) as [ed1|] eqn:Hg1; [|discriminate].
    apply bind_ok_inv in H. destruct H as (init & Hinit & H).
    set (a1 := term_vertex d ed1) in *. set (b1 := key_vertex d ed1) in *.
    destruct (run_vertex_oriented fuel d b1 None) as [r0| | |] eqn:Evs; simpl in H; try discriminate.
    destruct (vertex_search_tree _ _ _ _ _ Evs) as (tr & Htrees & HT).
    pose proof (vertex_search_no_target _ _ _ _ Evs) as Hroutes.
    inversion H; subst r; clear H; simpl. rewrite Htrees, Hroutes. simpl.
    exists ed1. split; [reflexivity|]. split; [reflexivity|]. eexists. split; [reflexivity|].
    destruct (Nat.eqb a1 b1) eqn:E1; [right; exact HT|]. apply Nat.eqb_neq in E1.
    destruct (tr !! b1) eqn:Eb; [right; exact HT|].
    destruct (tr !! a1) eqn:Ea; [right; exact HT|].
    left. apply tree_inv_graft; auto. exists ed1. auto.
  Qed.
End Route.
