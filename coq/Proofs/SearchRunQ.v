(* C01, closing the loop between the M line and the S line of the correspondence stream: over exact
   rationals, every Ok outcome of the table-driven model [SR.run QN] (any world, any query with distinct
   origin and destination) is accepted by the verified checkers [SR.check_outcome] -- the very function the
   stream evaluates on the implementation's output. *)
From Coq Require Import QArith List Arith Bool String Permutation.
From stdpp Require Import gmap.
From RC Require Import Base.Res Base.Num Model.Search Model.SearchSpec Model.SearchRun
  Proofs.SearchTree Proofs.SearchInv Proofs.SearchBacktrack Proofs.SearchRoute Proofs.SearchCheck Proofs.SearchQ.
Import ListNotations.
Import Search SearchSpec.

Lemma ins_sorted_perm x l : Permutation (SR.ins_sorted QN x l) (x :: l).
Proof.
  induction l as [|y l IH]; simpl; [reflexivity|].
  match goal with |- context [if ?c then _ else _] => destruct c end; [reflexivity|].
  rewrite IH. apply perm_swap.
Qed.
Lemma sort_perm l : Permutation (fold_right (SR.ins_sorted QN) [] l) l.
Proof.
  induction l as [|x l IH]; simpl; [reflexivity|]. rewrite ins_sorted_perm. apply perm_skip. exact IH.
Qed.

Lemma triples_tree_list (tr : gmap nat (branch Q Q)) :
  Permutation (SR.triples QN (SR.tree_list QN tr)) (triples_of tr).
Proof.
  unfold SR.triples, SR.tree_list, triples_of. rewrite map_map.
  erewrite map_ext; [apply Permutation_map, sort_perm|]. intros [v b]. reflexivity.
Qed.

Lemma parents_perm l l' : List.NoDup (map tkey l) -> Permutation l l' -> parents l' = parents l.
Proof.
  intros Hnd Hp. unfold parents. symmetry. apply list_to_map_proper.
  - apply NoDup_ListNoDup.
    assert (Hk : forall m : list triple, (map (fun x => (tkey x, tpar x)) m).*1 = map tkey m).
    { induction m as [|a m IHm]; simpl; [reflexivity | f_equal; exact IHm]. }
    rewrite Hk. exact Hnd.
  - apply Permutation_map. exact Hp.
Qed.

Lemma tree_ok_perm g d s l l' : Permutation l l' -> tree_ok g d s l -> tree_ok g d s l'.
Proof.
  intros Hp (Hnd & Hj & Hs & Hc).
  pose proof (parents_perm _ _ Hnd Hp) as Hpar.
  split; [|split; [|split]].
  - eapply Permutation_NoDup; [apply Permutation_map; exact Hp | exact Hnd].
  - intros x Hx. apply Hj. eapply Permutation_in; [symmetry; exact Hp | exact Hx].
  - rewrite Hpar. exact Hs.
  - intros x Hx. rewrite Hpar. apply Hc. eapply Permutation_in; [symmetry; exact Hp | exact Hx].
Qed.
Lemma etree_ok_perm g d e l l' : Permutation l l' -> etree_ok g d e l -> etree_ok g d e l'.
Proof.
  intros Hp (ed & Hg & [H | H]); exists ed; (split; [exact Hg|]); [left | right]; eapply tree_ok_perm; eauto.
Qed.

Lemma route_edges_hops (route : list (etrav Q Q)) :
  SR.route_edges QN (map (SR.hop_of QN) route) = map et_edge route.
Proof. unfold SR.route_edges. rewrite map_map. reflexivity. Qed.

Section Accept.
  Variable w : SR.world QN.
  Variable q : SR.query QN.
  Let g := SR.graph_of QN w.
  Let d := SR.q_dir QN q.

  Theorem model_outcome_accepted fuel r :
    SR.run QN fuel w q = Ok r -> SR.check_outcome QN w q (SR.outcome_of QN (Ok r)) = None.
  Proof.
    unfold SR.run, SR.check_outcome. simpl. fold g. fold d.
    destruct (SR.q_orient QN q).
    - (* vertex-oriented *)
      intros H. unfold SR.run_vertex in H.
      destruct (vertex_search_tree (C:=Q) (St:=Q) _ _ _ _ g _ _ _ _ _ Qle Qltb_le Qltb_irr
                  (traverse_inflationary w) fuel d _ _ r H) as (tr & Ht & HT).
      rewrite Ht. simpl.
      assert (Hct : check_tree g d (SR.q_source QN q) (SR.triples QN (SR.tree_list QN tr)) = true).
      { apply check_tree_spec. eapply tree_ok_perm; [symmetry; apply triples_tree_list | apply tree_inv_ok; exact HT]. }
      rewrite Hct. simpl.
      destruct (SR.q_target QN q) as [t|] eqn:Etgt; [|reflexivity].
      destruct (Nat.eqb t (SR.q_source QN q)) eqn:Ets; [reflexivity|]. apply Nat.eqb_neq in Ets.
      destruct (vertex_route_walk (C:=Q) (St:=Q) _ _ _ _ g _ _ _ _ _ Qle Qltb_le Qltb_irr
                  (traverse_inflationary w) fuel d _ t r H Ets) as (tr' & route & _ & Hr & _ & _ & Hok & _).
      rewrite Hr. simpl. rewrite route_edges_hops.
      apply check_route_spec in Hok. rewrite Hok. reflexivity.
    - (* edge-oriented *)
      intros H. destruct (SR.q_target QN q) as [te|] eqn:Etgt.
      + destruct (Nat.eqb te (SR.q_source QN q)) eqn:Ets; [reflexivity|]. apply Nat.eqb_neq in Ets.
        destruct (edge_route_walk (C:=Q) (St:=Q) _ _ _ _ g _ _ _ _ _ Qle Qltb_le Qltb_irr
                    (traverse_inflationary w) fuel d _ te r H (not_eq_sym Ets))
          as (ed1 & route & Hg & Hr & Hok & tr & Ht & HT).
        rewrite Ht, Hr. simpl. rewrite route_edges_hops.
        assert (Hct : check_etree g d (SR.q_source QN q) (SR.triples QN (SR.tree_list QN tr)) = true).
        { apply check_etree_spec. eapply etree_ok_perm; [symmetry; apply triples_tree_list|].
          eapply etree_of_inv; eauto. }
        rewrite Hct. simpl. apply check_eroute_spec in Hok. rewrite Hok. reflexivity.
      + destruct (edge_tree_rooted (C:=Q) (St:=Q) _ _ _ _ g _ _ _ _ _ Qle Qltb_le Qltb_irr
                    (traverse_inflationary w) fuel d _ r H) as (ed1 & Hg & Hr & tr & Ht & HT).
        rewrite Ht. simpl.
        assert (Hct : check_etree g d (SR.q_source QN q) (SR.triples QN (SR.tree_list QN tr)) = true).
        { apply check_etree_spec. eapply etree_ok_perm; [symmetry; apply triples_tree_list|].
          eapply etree_of_inv; eauto. }
        rewrite Hct. reflexivity.
  Qed.
End Accept.
