(* C01, step A1 of DESIGN.md Appendix A: re-parenting one vertex of a rooted, label-monotone parent map
   keeps it rooted and label-monotone.  Pure finite-map reasoning: no arithmetic, no positivity, no totality
   of the order -- so the same lemma serves exact rationals and NaN-free binary64. *)
From Coq Require Import List Arith Lia.
From stdpp Require Import gmap.
From RC Require Import Model.Search Model.SearchSpec.
Import SearchSpec.

Section Tree.
  Context {C : Type} (le lt : C -> C -> Prop) `{!PreOrder le}
          (lt_le : forall a b, lt a b -> le a b) (lt_irr : forall a b, lt a b -> le b a -> False).
  Implicit Types t : gmap nat nat.
  Implicit Types g : gmap nat C.

  Definition gle g (a b : nat) : Prop := exists ga gb, g !! a = Some ga /\ g !! b = Some gb /\ le ga gb.
  Definition lab_mono t g : Prop := forall v u, t !! v = Some u -> gle g u v.
  Definition rooted t (s : nat) : Prop := t !! s = None /\ forall v, is_Some (t !! v) -> exists l, chain t s v l.

  Lemma gle_trans g a b c : gle g a b -> gle g b c -> gle g a c.
  Proof.
    intros (ga & gb & Ha & Hb & Hab) (gb' & gc & Hb' & Hc & Hbc).
    rewrite Hb in Hb'. inversion Hb'; subst gb'.
    exists ga, gc. repeat split; auto. etransitivity; eauto.
  Qed.
  Lemma gle_refl_r g a b : gle g a b -> gle g b b.
  Proof. intros (ga & gb & Ha & Hb & Hab). exists gb, gb. repeat split; auto. reflexivity. Qed.

  Lemma chain_head t s v l : chain t s v l -> exists r, l = v :: r.
  Proof. intros H; inversion H; subst; eauto. Qed.
  Lemma chain_in_head t s v l : chain t s v l -> In v l.
  Proof. intros H; destruct (chain_head _ _ _ _ H) as [r ->]. left; reflexivity. Qed.
  Lemma chain_in_dom t s v l u : chain t s v l -> In u l -> is_Some (t !! u).
  Proof.
    induction 1 as [v Hv | v w l Hv Hw Hc IH]; intros Hin.
    - destruct Hin as [<- | []]. eauto.
    - destruct Hin as [<- | Hin]; eauto.
  Qed.
  Lemma chain_not_root t s v l : t !! s = None -> chain t s v l -> ~ In s l.
  Proof.
    intros Hs Hc Hin. destruct (chain_in_dom _ _ _ _ _ Hc Hin) as [x Hx]. congruence.
  Qed.

  (* labels only decrease towards the root *)
  Lemma chain_le t g s v l : lab_mono t g -> chain t s v l -> gle g s v /\ forall u, In u l -> gle g u v.
  Proof.
    intros Hm. induction 1 as [v Hv | v w l Hv Hw Hc [IHs IHl]].
    - pose proof (Hm _ _ Hv) as Hsv. split; [exact Hsv|].
      intros u [<- | []]. eapply gle_refl_r; eauto.
    - pose proof (Hm _ _ Hv) as Hwv. split.
      + eapply gle_trans; eauto.
      + intros u [<- | Hin].
        * eapply gle_refl_r; eauto.
        * eapply gle_trans; [apply IHl, Hin | exact Hwv].
  Qed.

  Lemma chain_insert_avoid t s v l y x :
    chain t s v l -> ~ In y l -> chain (<[y:=x]> t) s v l.
  Proof.
    induction 1 as [v Hv | v w l Hv Hw Hc IH]; intros Hy.
    - apply chain_root. rewrite lookup_insert_ne; [exact Hv|]. intros ->. apply Hy. left; reflexivity.
    - apply chain_step with w; auto.
      + rewrite lookup_insert_ne; [exact Hv|]. intros ->. apply Hy. left; reflexivity.
      + apply IH. intros Hin. apply Hy. right; exact Hin.
  Qed.

  Lemma chain_insert_any t s v l y x ly :
    chain (<[y:=x]> t) s y ly -> chain t s v l -> exists l', chain (<[y:=x]> t) s v l'.
  Proof.
    intros Hy. induction 1 as [v Hv | v w l Hv Hw Hc [l' IH]].
    - destruct (decide (v = y)) as [-> | Hne]; [eauto|].
      exists [v]. apply chain_root. rewrite lookup_insert_ne; auto.
    - destruct (decide (v = y)) as [-> | Hne]; [eauto|].
      exists (v :: l'). apply chain_step with w; auto. rewrite lookup_insert_ne; auto.
  Qed.

  Theorem relax_preserves t g s x y gx tv gs :
    rooted t s -> lab_mono t g -> g !! s = Some gs -> (x = s \/ is_Some (t !! x)) ->
    g !! x = Some gx -> le gx tv -> (g !! y = None \/ exists gy, g !! y = Some gy /\ lt tv gy) ->
    y <> s /\ rooted (<[y:=x]> t) s /\ lab_mono (<[y:=x]> t) (<[y:=tv]> g).
  Proof.
    intros [Hs Hroot] Hm Hgs Hx Hgx Hle Hy.
    (* the root's label is below x's *)
    assert (Hsx : le gs gx).
    { destruct Hx as [-> | Hx].
      - rewrite Hgs in Hgx. inversion Hgx. reflexivity.
      - destruct (Hroot _ Hx) as [l Hc]. destruct (chain_le _ _ _ _ _ Hm Hc) as [(a & b & Ha & Hb & Hab) _].
        rewrite Hgs in Ha. rewrite Hgx in Hb. inversion Ha; inversion Hb; subst. exact Hab. }
    (* (i) y is not the root *)
    assert (Hys : y <> s).
    { intros ->. destruct Hy as [Hn | (gy & Hgy & Hlt)]; [congruence|].
      rewrite Hgs in Hgy. inversion Hgy; subst gy.
      apply (lt_irr _ _ Hlt). etransitivity; eauto. }
    (* (ii) y is not on x's chain *)
    assert (Hyx : forall l, chain t s x l -> ~ In y l).
    { intros l Hc Hin. destruct (chain_le _ _ _ _ _ Hm Hc) as [_ Hl].
      destruct (Hl _ Hin) as (gy' & gx' & Hgy' & Hgx' & Hyx).
      rewrite Hgx in Hgx'. inversion Hgx'; subst gx'.
      destruct Hy as [Hn | (gy & Hgy & Hlt)]; [congruence|].
      rewrite Hgy in Hgy'. inversion Hgy'; subst gy'.
      apply (lt_irr _ _ Hlt). etransitivity; eauto. }
    assert (Hxy : x <> y).
    { intros ->. destruct Hx as [-> | Hx]; [congruence|].
      destruct (Hroot _ Hx) as [l Hc]. apply (Hyx _ Hc). eapply chain_in_head; eauto. }
    (* (iii) the new chain of y *)
    assert (Hcy : exists ly, chain (<[y:=x]> t) s y ly).
    { destruct (decide (x = s)) as [-> | Hxs].
      - exists [y]. apply chain_root. apply lookup_insert.
      - destruct Hx as [-> | Hx]; [congruence|].
        destruct (Hroot _ Hx) as [l Hc]. exists (y :: l).
        apply chain_step with x; auto. { apply lookup_insert. }
        apply chain_insert_avoid; auto. }
    destruct Hcy as [ly Hcy].
    split; [exact Hys|]. split.
    - split. { rewrite lookup_insert_ne; auto. }
      intros v Hv. destruct (decide (v = y)) as [-> | Hne]; [eauto|].
      rewrite lookup_insert_ne in Hv; auto.
      destruct (Hroot _ Hv) as [l Hc]. eapply chain_insert_any; eauto.
    - (* (iv) label monotonicity *)
      intros v u Hvu. destruct (decide (v = y)) as [-> | Hne].
      + rewrite lookup_insert in Hvu. inversion Hvu; subst u.
        exists gx, tv. rewrite lookup_insert_ne by auto. rewrite lookup_insert. auto.
      + rewrite lookup_insert_ne in Hvu by auto.
        destruct (Hm _ _ Hvu) as (gu & gv & Hgu & Hgv & Huv).
        destruct (decide (u = y)) as [-> | Hneu].
        * destruct Hy as [Hn | (gy & Hgy & Hlt)]; [congruence|].
          rewrite Hgu in Hgy. inversion Hgy; subst gy.
          exists tv, gv. rewrite lookup_insert. rewrite lookup_insert_ne by auto.
          repeat split; auto. etransitivity; [apply lt_le; eauto | exact Huv].
        * exists gu, gv. rewrite !lookup_insert_ne by auto. auto.
  Qed.

  (* ---- determinism of parent chains: they are unique and repetition-free ---- *)
  Lemma chain_unique t s v l1 l2 : chain t s v l1 -> chain t s v l2 -> l1 = l2.
  Proof.
    intros H1. revert l2. induction H1 as [v Hv | v w l Hv Hw Hc IH]; intros l2 H2.
    - inversion H2; subst; [reflexivity|]. congruence.
    - inversion H2 as [v' Hv' | v' w' l' Hv' Hw' Hc']; subst.
      + congruence.
      + rewrite Hv in Hv'. inversion Hv'; subst w'. f_equal. apply IH. exact Hc'.
  Qed.

  (* a suffix of a chain starting at one of its members is that member's chain *)
  Lemma chain_suffix t s v l u : chain t s v l -> In u l -> exists l1 l2, l = l1 ++ l2 /\ chain t s u l2.
  Proof.
    induction 1 as [v Hv | v w l Hv Hw Hc IH]; intros Hin.
    - destruct Hin as [<- | []]. exists [], [v]. split; [reflexivity|]. apply chain_root; auto.
    - destruct Hin as [<- | Hin].
      + exists [], (v :: l). split; [reflexivity|]. eapply chain_step; eauto.
      + destruct (IH Hin) as (l1 & l2 & -> & Hc2). exists (v :: l1), l2. split; [reflexivity|exact Hc2].
  Qed.

  Lemma chain_NoDup t s v l : chain t s v l -> NoDup l.
  Proof.
    induction 1 as [v Hv | v w l Hv Hw Hc IH].
    - apply NoDup_singleton.
    - apply NoDup_cons_2; [|exact IH]. intros Hin%elem_of_list_In.
      destruct (chain_suffix _ _ _ _ _ Hc Hin) as (l1 & l2 & -> & Hc2).
      assert (Hc3 : chain t s v (v :: l1 ++ l2)) by (eapply chain_step; eauto).
      pose proof (chain_unique _ _ _ _ _ Hc2 Hc3) as Heq.
      apply (f_equal (@length nat)) in Heq. simpl in Heq. rewrite app_length in Heq. lia.
  Qed.
End Tree.
