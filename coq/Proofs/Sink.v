(* C19 - proofs about the concurrent sink model (Model/Sink.v, section Conc):
   the interleaving invariant for EVERY schedule, its corollary at quiescence, soundness of
   the executable trace acceptor, successive runs appending to one file. *)
From Coq Require Import List Arith Lia Permutation Bool.
From RC Require Import Model.Sink.
Import ListNotations.
Import SK.

Section ConcProofs.
  Context {B R : Type}.
  Variable fmt : R -> option (list B).
  Variable nlb : B.
  Variable rate : nat.

  Notation state := (@state B R).
  Notation thread := (@thread B R).
  Notation lstep := (@lstep B R fmt nlb rate).
  Notation step := (@step B R fmt nlb rate).
  Notation reach := (@reach B R fmt nlb rate).
  Notation run := (@run B R fmt nlb rate).
  Notation exec1 := (@exec1 B R fmt nlb rate).
  Notation exec := (@exec B R fmt nlb rate).

  Implicit Types (base : list B) (queues : list (list R)) (s : state) (all : list R).

  (* ---------- lists ---------- *)
  Lemma upd_length : forall A (l : list A) i x, length (upd l i x) = length l.
  Proof. induction l as [|a l IH]; intros [|i] x; simpl; auto. Qed.

  Lemma nth_upd_same : forall A (l : list A) i x a, nth_error l i = Some a -> nth_error (upd l i x) i = Some x.
  Proof.
    induction l as [|b l IH]; intros [|i] x a H; simpl in *; try discriminate; auto.
    eapply IH; eauto.
  Qed.
  Lemma nth_upd_other : forall A (l : list A) i j x, i <> j -> nth_error (upd l i x) j = nth_error l j.
  Proof.
    induction l as [|b l IH]; intros [|i] [|j] x H; simpl; auto; try congruence.
  Qed.
  Lemma upd_split : forall A (l : list A) i x a, nth_error l i = Some a ->
      exists l1 l2, l = l1 ++ a :: l2 /\ upd l i x = l1 ++ x :: l2.
  Proof.
    induction l as [|b l IH]; intros [|i] x a H; simpl in *; try discriminate.
    - inversion H; subst. exists [], l. auto.
    - destruct (IH i x a H) as [l1 [l2 [E1 E2]]]. exists (b :: l1), l2. simpl. rewrite <- E1, E2. auto.
  Qed.

  (* ---------- the invariant ---------- *)
  (* the record of a response whose formatting succeeds *)
  Definition rec_of (r : R) : list B :=
    match fmt r with Some row => record_of nlb row | None => [] end.
  Definition records (l : list R) : list B := concat (map rec_of l).
  (* the part of the lock holder's record that is already in the file *)
  Definition partial (s : state) : list B :=
    match holder s with
    | Some t => match nth_error (thr s) t with
                | Some th => match t_pc th with Writing _ sent _ => sent | _ => [] end
                | None => []
                end
    | None => []
    end.
  (* responses a thread still owes: the one it is writing and its queue *)
  Definition cur (p : @pc B R) : list R := match p with Writing r _ _ => [r] | _ => [] end.
  Definition pending (th : thread) : list R := cur (t_pc th) ++ t_todo th.
  Definition owed (s : state) : list R := concat (map pending (thr s)).

  Record Inv (base : list B) (all : list R) (s : state) : Prop := {
    inv_file : file s = base ++ records (log s) ++ partial s;
    inv_lock : forall t th, nth_error (thr s) t = Some th -> t_pc th <> Idle -> holder s = Some t;
    inv_row : forall t th r sent rest, nth_error (thr s) t = Some th -> t_pc th = Writing r sent rest ->
                exists row, fmt r = Some row /\ sent ++ rest = record_of nlb row;
    inv_log : forall r, In r (log s) -> fmt r <> None;
    inv_dropped : forall r, In r (dropped s) -> fmt r = None;
    inv_acct : Permutation all (log s ++ dropped s ++ owed s)
  }.

  Lemma file_init : forall base queues, file (init base queues) = base.
  Proof.
    intros. unfold file, init. simpl. rewrite !rev_append_rev, !app_nil_r. apply rev_involutive.
  Qed.

  Lemma owed_init : forall queues, owed (init (B:=B) [] queues) = concat queues.
  Proof.
    intros. unfold owed, init. simpl. rewrite map_map. simpl.
    induction queues as [|q l IH]; simpl; [reflexivity|]. rewrite IH. reflexivity.
  Qed.

  Lemma inv_init : forall base queues, Inv base (concat queues) (init base queues).
  Proof.
    intros base queues. constructor.
    - rewrite file_init. unfold records, partial. simpl. rewrite app_nil_r. reflexivity.
    - intros t th H Hpc. exfalso. apply Hpc. unfold init in H. simpl in H.
      rewrite nth_error_map in H. destruct (nth_error queues t); simpl in H; [|discriminate].
      inversion H. reflexivity.
    - intros t th r sent rest H Hpc. unfold init in H. simpl in H.
      rewrite nth_error_map in H. destruct (nth_error queues t); simpl in H; [|discriminate].
      inversion H; subst. discriminate.
    - intros r [].
    - intros r [].
    - simpl. change (owed (init base queues)) with (owed (init (B:=B) [] queues)).
      rewrite owed_init. apply Permutation_refl.
  Qed.

  (* [partial] after an update of thread [t] when [t] holds the lock *)
  Lemma partial_upd : forall (s : state) t th x rf c lg dr,
      nth_error (thr s) t = Some th ->
      partial {| rfile := rf; holder := Some t; counter := c; thr := upd (thr s) t x; log := lg; dropped := dr |}
      = match t_pc x with Writing _ sent _ => sent | _ => [] end.
  Proof.
    intros. unfold partial. simpl. rewrite (nth_upd_same _ _ _ _ _ H). reflexivity.
  Qed.
  Lemma partial_of : forall (s : state) t th, holder s = Some t -> nth_error (thr s) t = Some th ->
      partial s = match t_pc th with Writing _ sent _ => sent | _ => [] end.
  Proof. intros s t th Hh Hn. unfold partial. rewrite Hh, Hn. reflexivity. Qed.

  Lemma owed_upd : forall s t th x, nth_error (thr s) t = Some th ->
      exists a b, owed s = a ++ pending th ++ b /\
                  forall s', thr s' = upd (thr s) t x -> owed s' = a ++ pending x ++ b.
  Proof.
    intros s t th x H. destruct (upd_split _ _ _ x _ H) as [l1 [l2 [E1 E2]]].
    exists (concat (map pending l1)), (concat (map pending l2)). split.
    - unfold owed. rewrite E1, map_app, concat_app. simpl. reflexivity.
    - intros s' Hs. unfold owed. rewrite Hs, E2, map_app, concat_app. simpl. reflexivity.
  Qed.

  Lemma perm_move : forall (A : Type) (x : A) (l d a q b : list A),
      Permutation (l ++ d ++ a ++ (x :: q) ++ b) ((l ++ [x]) ++ d ++ a ++ q ++ b).
  Proof.
    intros. rewrite <- app_assoc. apply Permutation_app_head. simpl.
    rewrite (app_assoc d a), (app_assoc d a). apply Permutation_sym. apply Permutation_middle.
  Qed.
  Lemma perm_move2 : forall (A : Type) (x : A) (l d a q b : list A),
      Permutation (l ++ d ++ a ++ (x :: q) ++ b) (l ++ (d ++ [x]) ++ a ++ q ++ b).
  Proof.
    intros. apply Permutation_app_head. rewrite <- app_assoc. apply Permutation_app_head. simpl.
    apply Permutation_sym. apply Permutation_middle.
  Qed.

  (* every step of every thread preserves the invariant *)
  Lemma inv_step : forall base all s t l s', Inv base all s -> lstep s t l s' -> Inv base all s'.
  Proof.
    intros base all s t l s' I Hs. destruct I as [If Il Ir Ilog Idr Iac].
    inversion Hs; subst; clear Hs.
    - (* lock *)
      rename H into Hn. rename H0 into Hh.
      assert (Hp : partial s = []) by (unfold partial; rewrite Hh; reflexivity).
      constructor; simpl.
      + unfold do_lock, file in *. simpl. rewrite If, Hp.
        rewrite (partial_upd s t _ _ _ _ _ _ Hn). reflexivity.
      + intros t' th' Hn' Hpc. destruct (Nat.eq_dec t t') as [->|Ne]; [reflexivity|].
        rewrite nth_upd_other in Hn' by assumption. specialize (Il _ _ Hn' Hpc). congruence.
      + intros t' th' r' sent rest Hn' Hpc. destruct (Nat.eq_dec t t') as [<-|Ne].
        * rewrite (nth_upd_same _ _ _ _ _ Hn) in Hn'. inversion Hn'; subst. discriminate.
        * rewrite nth_upd_other in Hn' by assumption. eauto.
      + assumption.
      + assumption.
      + destruct (owed_upd s t _ {| t_pc := Locked; t_todo := r :: q |} Hn) as [a [b [E1 E2]]].
        erewrite E2 by reflexivity. rewrite E1 in Iac. exact Iac.
    - (* format *)
      rename H into Hn. rename H0 into Hf.
      assert (Hh : holder s = Some t) by (eapply Il; [exact Hn | discriminate]).
      constructor; simpl.
      + unfold do_format, set_thr, file in *. simpl. rewrite If.
        rewrite (partial_of s t _ Hh Hn). simpl.
        unfold partial. simpl. rewrite Hh, (nth_upd_same _ _ _ _ _ Hn). reflexivity.
      + intros t' th' Hn' Hpc. destruct (Nat.eq_dec t t') as [<-|Ne]; [assumption|].
        rewrite nth_upd_other in Hn' by assumption. eauto.
      + intros t' th' r' sent rest Hn' Hpc. destruct (Nat.eq_dec t t') as [<-|Ne].
        * rewrite (nth_upd_same _ _ _ _ _ Hn) in Hn'. inversion Hn'; subst. simpl in Hpc.
          inversion Hpc; subst. exists row. split; [assumption|reflexivity].
        * rewrite nth_upd_other in Hn' by assumption. eauto.
      + assumption.
      + assumption.
      + destruct (owed_upd s t _ {| t_pc := Writing r [] (record_of nlb row); t_todo := q |} Hn) as [a [b [E1 E2]]].
        erewrite E2 by reflexivity. rewrite E1 in Iac. exact Iac.
    - (* format error *)
      rename H into Hn. rename H0 into Hf.
      assert (Hh : holder s = Some t) by (eapply Il; [exact Hn | discriminate]).
      constructor; simpl.
      + unfold do_format_err, file in *. simpl. rewrite If.
        rewrite (partial_of s t _ Hh Hn). simpl.
        unfold partial. simpl. rewrite Hh, (nth_upd_same _ _ _ _ _ Hn). reflexivity.
      + intros t' th' Hn' Hpc. destruct (Nat.eq_dec t t') as [<-|Ne]; [assumption|].
        rewrite nth_upd_other in Hn' by assumption. eauto.
      + intros t' th' r' sent rest Hn' Hpc. destruct (Nat.eq_dec t t') as [<-|Ne].
        * rewrite (nth_upd_same _ _ _ _ _ Hn) in Hn'. inversion Hn'; subst. discriminate.
        * rewrite nth_upd_other in Hn' by assumption. eauto.
      + assumption.
      + intros r' Hin. apply in_app_or in Hin. destruct Hin as [Hin|[<-|[]]]; auto.
      + destruct (owed_upd s t _ {| t_pc := Releasing; t_todo := q |} Hn) as [a [b [E1 E2]]].
        erewrite E2 by reflexivity. rewrite E1 in Iac. unfold pending in *. simpl in *.
        eapply Permutation_trans; [exact Iac|]. apply perm_move2.
    - (* write *)
      rename H into Hn. rename H0 into Hle.
      assert (Hh : holder s = Some t) by (eapply Il; [exact Hn | discriminate]).
      constructor; simpl.
      + unfold do_write, file in *. simpl.
        rewrite rev_append_rev in *. rewrite rev_append_rev, rev_app_distr, rev_involutive, app_nil_r in *.
        rewrite If. rewrite (partial_of s t _ Hh Hn). simpl.
        unfold partial. simpl. rewrite Hh, (nth_upd_same _ _ _ _ _ Hn). simpl.
        rewrite <- !app_assoc. reflexivity.
      + intros t' th' Hn' Hpc. destruct (Nat.eq_dec t t') as [<-|Ne]; [assumption|].
        rewrite nth_upd_other in Hn' by assumption. eauto.
      + intros t' th' r' sent' rest' Hn' Hpc. destruct (Nat.eq_dec t t') as [<-|Ne].
        * rewrite (nth_upd_same _ _ _ _ _ Hn) in Hn'. inversion Hn'; subst. simpl in Hpc.
          inversion Hpc; subst. destruct (Ir _ _ _ _ _ Hn eq_refl) as [row [Hf Hr]].
          exists row. split; [assumption|]. rewrite <- app_assoc, firstn_skipn. assumption.
        * rewrite nth_upd_other in Hn' by assumption. eauto.
      + assumption.
      + assumption.
      + destruct (owed_upd s t _ {| t_pc := Writing r (sent ++ firstn n rest) (skipn n rest); t_todo := q |} Hn) as [a [b [E1 E2]]].
        erewrite E2 by reflexivity. rewrite E1 in Iac. exact Iac.
    - (* bump *)
      rename H into Hn.
      assert (Hh : holder s = Some t) by (eapply Il; [exact Hn | discriminate]).
      destruct (Ir _ _ _ _ _ Hn eq_refl) as [row [Hf Hr]]. rewrite app_nil_r in Hr.
      constructor; simpl.
      + unfold do_bump, file in *. simpl. rewrite If.
        rewrite (partial_of s t _ Hh Hn). simpl.
        unfold partial. simpl. rewrite Hh, (nth_upd_same _ _ _ _ _ Hn).
        unfold records. rewrite map_app, concat_app. simpl.
        assert (Er : rec_of r = sent) by (unfold rec_of; rewrite Hf; symmetry; exact Hr).
        rewrite Er. destruct (flush_due rate (S (counter s))); simpl; rewrite !app_nil_r; reflexivity.
      + intros t' th' Hn' Hpc. destruct (Nat.eq_dec t t') as [<-|Ne]; [assumption|].
        rewrite nth_upd_other in Hn' by assumption. eauto.
      + intros t' th' r' sent' rest' Hn' Hpc. destruct (Nat.eq_dec t t') as [<-|Ne].
        * rewrite (nth_upd_same _ _ _ _ _ Hn) in Hn'. inversion Hn'; subst. simpl in Hpc.
          destruct (flush_due rate (S (counter s))); discriminate.
        * rewrite nth_upd_other in Hn' by assumption. eauto.
      + intros r' Hin. apply in_app_or in Hin. destruct Hin as [Hin|[<-|[]]]; auto. congruence.
      + assumption.
      + destruct (owed_upd s t _ {| t_pc := if flush_due rate (S (counter s)) then Flushing else Releasing; t_todo := q |} Hn)
          as [a [b [E1 E2]]].
        erewrite E2 by reflexivity. rewrite E1 in Iac. unfold pending in *. simpl in *.
        eapply Permutation_trans; [exact Iac|].
        replace (cur (if flush_due rate (S (counter s)) then Flushing else Releasing)) with (@nil R)
          by (destruct (flush_due rate (S (counter s))); reflexivity).
        simpl. apply (perm_move R r (log s) (dropped s) a q b).
    - (* flush *)
      rename H into Hn.
      assert (Hh : holder s = Some t) by (eapply Il; [exact Hn | discriminate]).
      constructor; simpl.
      + unfold do_flush, set_thr, file in *. simpl. rewrite If.
        rewrite (partial_of s t _ Hh Hn). simpl.
        unfold partial. simpl. rewrite Hh, (nth_upd_same _ _ _ _ _ Hn). reflexivity.
      + intros t' th' Hn' Hpc. destruct (Nat.eq_dec t t') as [<-|Ne]; [assumption|].
        rewrite nth_upd_other in Hn' by assumption. eauto.
      + intros t' th' r' sent rest Hn' Hpc. destruct (Nat.eq_dec t t') as [<-|Ne].
        * rewrite (nth_upd_same _ _ _ _ _ Hn) in Hn'. inversion Hn'; subst. discriminate.
        * rewrite nth_upd_other in Hn' by assumption. eauto.
      + assumption.
      + assumption.
      + destruct (owed_upd s t _ {| t_pc := Releasing; t_todo := q |} Hn) as [a [b [E1 E2]]].
        erewrite E2 by reflexivity. rewrite E1 in Iac. exact Iac.
    - (* unlock *)
      rename H into Hn.
      assert (Hh : holder s = Some t) by (eapply Il; [exact Hn | discriminate]).
      constructor; simpl.
      + unfold do_unlock, file in *. simpl. rewrite If.
        rewrite (partial_of s t _ Hh Hn). simpl. reflexivity.
      + intros t' th' Hn' Hpc. exfalso. destruct (Nat.eq_dec t t') as [<-|Ne].
        * rewrite (nth_upd_same _ _ _ _ _ Hn) in Hn'. inversion Hn'; subst. apply Hpc. reflexivity.
        * rewrite nth_upd_other in Hn' by assumption. specialize (Il _ _ Hn' Hpc). congruence.
      + intros t' th' r' sent rest Hn' Hpc. destruct (Nat.eq_dec t t') as [<-|Ne].
        * rewrite (nth_upd_same _ _ _ _ _ Hn) in Hn'. inversion Hn'; subst. discriminate.
        * rewrite nth_upd_other in Hn' by assumption. eauto.
      + assumption.
      + assumption.
      + destruct (owed_upd s t _ {| t_pc := Idle; t_todo := q |} Hn) as [a [b [E1 E2]]].
        erewrite E2 by reflexivity. rewrite E1 in Iac. exact Iac.
  Qed.

  Lemma inv_reach : forall base all s s', Inv base all s -> reach s s' -> Inv base all s'.
  Proof.
    intros base all s s' I Hr. induction Hr as [|s1 s2 Hr IH [t [l Hs]]]; [assumption|].
    eapply inv_step; eauto.
  Qed.

  (* ---------- file_inv: every state reachable under any schedule ---------- *)
  Theorem file_inv : forall base queues s,
      reach (init base queues) s ->
      file s = base ++ records (log s) ++ partial s
      /\ (forall r, In r (log s) -> exists row, fmt r = Some row)
      /\ (forall t th r sent rest, holder s = Some t -> nth_error (thr s) t = Some th -> t_pc th = Writing r sent rest ->
            partial s = sent /\ exists row, fmt r = Some row /\ sent ++ rest = record_of nlb row)
      /\ (forall t th, nth_error (thr s) t = Some th -> t_pc th <> Idle -> holder s = Some t)
      /\ Permutation (concat queues) (log s ++ dropped s ++ owed s).
  Proof.
    intros base queues s Hr.
    pose proof (inv_reach _ _ _ _ (inv_init base queues) Hr) as I.
    destruct I as [If Il Ir Ilog Idr Iac]. split; [assumption|]. split.
    - intros r Hin. specialize (Ilog r Hin). destruct (fmt r) as [row|]; [eauto|congruence].
    - split; [|split; assumption].
      intros t th r sent rest Hh Hn Hpc. split.
      + rewrite (partial_of s t th Hh Hn), Hpc. reflexivity.
      + eapply Ir; eauto.
  Qed.

  (* mutual exclusion: at most one thread is inside write_response's critical section *)
  Theorem one_writer : forall base queues s t1 t2 th1 th2,
      reach (init base queues) s ->
      nth_error (thr s) t1 = Some th1 -> nth_error (thr s) t2 = Some th2 ->
      t_pc th1 <> Idle -> t_pc th2 <> Idle -> t1 = t2.
  Proof.
    intros base queues s t1 t2 th1 th2 Hr H1 H2 P1 P2.
    destruct (file_inv base queues s Hr) as [_ [_ [_ [Il _]]]].
    pose proof (Il _ _ H1 P1) as E1. pose proof (Il _ _ H2 P2) as E2. congruence.
  Qed.

  Lemma quiescent_owed : forall s : state, quiescent s -> owed s = [] /\ partial s = [].
  Proof.
    intros s Q. split.
    - unfold owed. assert (H : forall th, In th (thr s) -> pending th = []).
      { intros th Hin. destruct (In_nth_error _ _ Hin) as [t Ht]. destruct (Q t th Ht) as [Hp Hq].
        unfold pending. rewrite Hp, Hq. reflexivity. }
      induction (thr s) as [|th l IH]; simpl; [reflexivity|].
      rewrite H by (left; reflexivity). simpl. apply IH. intros th' Hin. apply H. right. assumption.
    - unfold partial. destruct (holder s) as [t|]; [|reflexivity].
      destruct (nth_error (thr s) t) as [th|] eqn:Hn; [|reflexivity].
      destruct (Q t th Hn) as [Hp _]. rewrite Hp. reflexivity.
  Qed.

  (* ---------- the corollary at quiescence ---------- *)
  (* When every thread has finished its queue, under ANY schedule and any number of threads:
     the file is the base followed by the complete records of [log s], each record being the
     formatted row of its response plus the newline, and [log s] together with the responses
     whose formatting failed is a permutation of all responses handed to the threads: none
     lost, none duplicated, none truncated, none interleaved. *)
  Theorem quiescent_file : forall base queues s,
      reach (init base queues) s -> quiescent s ->
      file s = base ++ records (log s)
      /\ Permutation (concat queues) (log s ++ dropped s)
      /\ (forall r, In r (log s) -> exists row, fmt r = Some row)
      /\ (forall r, In r (dropped s) -> fmt r = None).
  Proof.
    intros base queues s Hr Q.
    pose proof (inv_reach _ _ _ _ (inv_init base queues) Hr) as I.
    destruct I as [If Il Ir Ilog Idr Iac]. destruct (quiescent_owed s Q) as [Ho Hp].
    rewrite Hp, app_nil_r in If. rewrite Ho, app_nil_r in Iac.
    split; [assumption|]. split; [assumption|]. split; [|assumption].
    intros r Hin. specialize (Ilog r Hin). destruct (fmt r) as [row|]; [eauto|congruence].
  Qed.

  Lemma perm_no_dropped : forall (all lg dr : list R),
      Permutation all (lg ++ dr) -> (forall r, In r all -> fmt r <> None) -> (forall r, In r dr -> fmt r = None) -> dr = [].
  Proof.
    intros all lg dr P Hall Hdr. destruct dr as [|r dr]; [reflexivity|]. exfalso.
    apply (Hall r).
    - eapply Permutation_in; [apply Permutation_sym; exact P|]. apply in_or_app. right. left. reflexivity.
    - apply Hdr. left. reflexivity.
  Qed.

  (* the same when every response can be formatted (always the case for the two formats of
     the property on JSON objects): the records in the file are a permutation of the formatted
     responses *)
  Theorem quiescent_records_permutation : forall base queues s,
      (forall r, In r (concat queues) -> fmt r <> None) ->
      reach (init base queues) s -> quiescent s ->
      exists order, Permutation (concat queues) order
                    /\ file s = base ++ concat (map rec_of order)
                    /\ Permutation (map rec_of (concat queues)) (map rec_of order).
  Proof.
    intros base queues s Hall Hr Q.
    destruct (quiescent_file base queues s Hr Q) as [Hf [Hp [_ Hd]]].
    assert (E : dropped s = []) by (eapply perm_no_dropped; eauto).
    rewrite E, app_nil_r in Hp. exists (log s). split; [assumption|]. split; [assumption|].
    apply Permutation_map. assumption.
  Qed.

  (* previous content is never touched: it stays a prefix of the file in every reachable state *)
  Theorem append_keeps_previous_reach : forall base queues s,
      reach (init base queues) s -> exists added, file s = base ++ added.
  Proof.
    intros base queues s Hr. destruct (file_inv base queues s Hr) as [Hf _].
    eexists. exact Hf.
  Qed.

  (* ---------- successive runs on the same file ---------- *)
  Inductive chain : list B -> list (list R) -> list B -> Prop :=
  | chain_nil : forall b, chain b [] b
  | chain_cons : forall b queues s logs b',
      reach (init b queues) s -> quiescent s -> chain (file s) logs b' -> chain b (log s :: logs) b'.

  Theorem chain_file : forall b logs b', chain b logs b' -> b' = b ++ concat (map records logs).
  Proof.
    intros b logs b' H. induction H as [b|b queues s logs b' Hr Q Hc IH].
    - simpl. rewrite app_nil_r. reflexivity.
    - destruct (quiescent_file b queues s Hr Q) as [Hf _]. rewrite IH, Hf. simpl.
      rewrite <- app_assoc. reflexivity.
  Qed.

  (* ---------- the acceptor ---------- *)
  Lemma run_reach : forall s tr s', run s tr s' -> reach s s'.
  Proof.
    assert (T : forall s1 s2, reach s1 s2 -> forall s0, step s0 s1 -> reach s0 s2).
    { intros s1 s2 H. induction H as [|a b Hab IH Hs]; intros s0 H0.
      - eapply reach_step; [apply reach_refl|exact H0].
      - eapply reach_step; [apply IH; exact H0|exact Hs]. }
    intros s tr s' H. induction H as [s|s t s1 tr s2 Hs Hr IH|s t e s1 tr s2 Hs Hr IH].
    - apply reach_refl.
    - eapply T; [exact IH|]. exists t, None. exact Hs.
    - eapply T; [exact IH|]. exists t, (Some e). exact Hs.
  Qed.

  Lemma thread_eta : forall th : thread, th = {| t_pc := t_pc th; t_todo := t_todo th |}.
  Proof. destruct th; reflexivity. Qed.

  Lemma exec1_sound : forall s te s', exec1 s te = Some s' -> run s [te] s'.
  Proof.
    intros s [t e] s' H. unfold SK.exec1 in H.
    destruct (nth_error (thr s) t) as [th|] eqn:Hn; [|discriminate].
    rewrite (thread_eta th) in Hn.
    destruct e; destruct (t_pc th) eqn:Hpc; try discriminate.
    - (* ELock, Idle *)
      destruct (t_todo th) as [|r q] eqn:Hq; [discriminate|].
      destruct (holder s) eqn:Hh; [discriminate|]. inversion H; subst.
      eapply run_event; [|apply run_nil]. apply s_lock; assumption.
    - (* EFmt, Locked *)
      destruct (t_todo th) as [|r q] eqn:Hq; [discriminate|].
      destruct (fmt r) as [row|] eqn:Hf; [|discriminate].
      destruct (Nat.eqb n (length row)) eqn:E; [|discriminate]. apply Nat.eqb_eq in E. subst n.
      inversion H; subst. eapply run_event; [|apply run_nil]. apply s_format; assumption.
    - (* EWrite, Writing *)
      destruct ((1 <=? n) && (n <=? length rest))%nat eqn:E; [|discriminate].
      apply andb_true_iff in E. destruct E as [E1 E2]. apply Nat.leb_le in E1, E2.
      inversion H; subst. eapply run_event; [|apply run_nil]. eapply s_write; eauto.
    - (* EFlush, Writing r sent [] *)
      destruct rest; [|discriminate].
      destruct (flush_due rate (S (counter s))) eqn:E; [|discriminate]. inversion H; subst.
      eapply run_silent; [eapply s_bump; exact Hn|].
      eapply run_event; [|apply run_nil]. apply s_flush.
      unfold do_bump. simpl. rewrite (nth_upd_same _ _ _ _ _ Hn), E. reflexivity.
    - (* EFlush, Flushing *)
      inversion H; subst. eapply run_event; [|apply run_nil]. apply s_flush. assumption.
    - (* ERel, Locked: format_response returned Err *)
      destruct (t_todo th) as [|r q] eqn:Hq; [discriminate|].
      destruct (fmt r) as [row|] eqn:Hf; [discriminate|]. inversion H; subst.
      eapply run_silent; [eapply s_format_err; eauto|].
      eapply run_event; [|apply run_nil]. apply s_unlock.
      unfold do_format_err. simpl. rewrite (nth_upd_same _ _ _ _ _ Hn). reflexivity.
    - (* ERel, Writing r sent [] *)
      destruct rest; [|discriminate].
      destruct (flush_due rate (S (counter s))) eqn:E; [discriminate|]. inversion H; subst.
      eapply run_silent; [eapply s_bump; exact Hn|].
      eapply run_event; [|apply run_nil]. apply s_unlock.
      unfold do_bump. simpl. rewrite (nth_upd_same _ _ _ _ _ Hn), E. reflexivity.
    - (* ERel, Releasing *)
      inversion H; subst. eapply run_event; [|apply run_nil]. apply s_unlock. assumption.
  Qed.

  Lemma run_app : forall s tr1 s1 tr2 s2, run s tr1 s1 -> run s1 tr2 s2 -> run s (tr1 ++ tr2) s2.
  Proof.
    intros s tr1 s1 tr2 s2 H1 H2. induction H1; simpl.
    - assumption.
    - eapply run_silent; eauto.
    - eapply run_event; eauto.
  Qed.

  Lemma exec_sound : forall tr s s', exec s tr = Some s' -> run s tr s'.
  Proof.
    induction tr as [|te tr IH]; intros s s' H; simpl in H.
    - inversion H; subst. apply run_nil.
    - destruct (exec1 s te) as [s1|] eqn:E; [|discriminate].
      change (te :: tr) with ([te] ++ tr). eapply run_app; [apply exec1_sound; exact E|apply IH; exact H].
  Qed.

  Lemma quiescentb_sound : forall s : state, quiescentb s = true -> quiescent s.
  Proof.
    intros s H t th Hn. unfold quiescentb in H. rewrite forallb_forall in H.
    specialize (H th (nth_error_In _ _ Hn)). unfold thread_done in H.
    destruct (t_pc th); try discriminate. destruct (t_todo th); [auto|discriminate].
  Qed.

  (* an accepted H1 trace is the visible trace of a run of the relation that ends quiescent,
     and [replay] is the file of that run *)
  Theorem acceptor_sound : forall base queues tr,
      accepts fmt nlb rate base queues tr = true ->
      exists s, run (init base queues) tr s /\ quiescent s /\ replay fmt nlb rate base queues tr = Some (file s).
  Proof.
    intros base queues tr H. unfold accepts in H. unfold replay.
    destruct (exec (init base queues) tr) as [s|] eqn:E; [|discriminate].
    exists s. split; [apply exec_sound; exact E|]. split; [apply quiescentb_sound; exact H|reflexivity].
  Qed.

  (* hence the file the model replays from an accepted trace has the shape of the corollary *)
  Theorem accepted_trace_file : forall base queues tr,
      accepts fmt nlb rate base queues tr = true ->
      exists s, replay fmt nlb rate base queues tr = Some (file s)
                /\ file s = base ++ records (log s)
                /\ Permutation (concat queues) (log s ++ dropped s).
  Proof.
    intros base queues tr H. destruct (acceptor_sound base queues tr H) as [s [Hr [Q E]]].
    exists s. split; [assumption|].
    destruct (quiescent_file base queues s (run_reach _ _ _ Hr) Q) as [Hf [Hp _]]. auto.
  Qed.
End ConcProofs.
