(* C19 - the CSV text the sink writes is read back by an RFC 4180 reader (the model of the csv
   crate's reader in Model/Sink.v, [csv_read]) as exactly the fields that were written: one
   record per row, one field per column, whatever the fields contain (commas, quotes, line
   breaks, nothing). *)
From Coq Require Import String Ascii List Bool Arith Lia.
From RC Require Import Base.Show Model.Sink.
Import ListNotations.
Import SK.
Open Scope string_scope.

Definition LF : ascii := "010"%char.
Definition COMMA : ascii := ","%char.
Definition DQ : ascii := """"%char.

(* ---------- strings and reversed accumulators ---------- *)
Lemma sola_app : forall a b, string_of_list_ascii (a ++ b) = string_of_list_ascii a ++ string_of_list_ascii b.
Proof. induction a as [|c a IH]; intros b; simpl; [reflexivity|]. rewrite IH. reflexivity. Qed.
Lemma append_assoc : forall a b c : string, (a ++ b) ++ c = a ++ (b ++ c).
Proof. induction a as [|x a IH]; intros b c; simpl; [reflexivity|]. rewrite IH. reflexivity. Qed.
Lemma append_nil_r : forall a : string, a ++ "" = a.
Proof. induction a as [|x a IH]; simpl; [reflexivity|]. rewrite IH. reflexivity. Qed.
Lemma frev_rev : forall A (l : list A), frev l = rev l.
Proof. intros. unfold frev. rewrite rev_append_rev, app_nil_r. reflexivity. Qed.

(* pushing the characters of [w] on a reversed accumulator *)
Fixpoint rpush (w : string) (f : list ascii) : list ascii :=
  match w with EmptyString => f | String c w' => rpush w' (c :: f) end.
Lemma rpush_str : forall w f, string_of_list_ascii (frev (rpush w f)) = string_of_list_ascii (frev f) ++ w.
Proof.
  induction w as [|c w IH]; intros f; simpl.
  - rewrite append_nil_r. reflexivity.
  - rewrite IH, !frev_rev. simpl. rewrite sola_app, append_assoc. reflexivity.
Qed.
Lemma rpush_nil : forall w, string_of_list_ascii (frev (rpush w [])) = w.
Proof. intros w. rewrite rpush_str. reflexivity. Qed.

(* ---------- characters ---------- *)
Lemma needs_quote_cons : forall c u, needs_quote (String c u) = false ->
    Ascii.eqb c COMMA = false /\ Ascii.eqb c DQ = false /\ is_term c = false /\ needs_quote u = false.
Proof.
  intros c u H. unfold needs_quote in *. simpl in H.
  repeat (apply orb_false_elim in H; destruct H as [H ?]).
  repeat match goal with X : (_ || _) = false |- _ => apply orb_false_elim in X; destruct X end.
  unfold is_term, COMMA, DQ. repeat split; try assumption.
  - apply orb_false_intro; assumption.
  - repeat (apply orb_false_intro; [|assumption]). assumption.
Qed.

(* ---------- the inside of a field ---------- *)
Lemma read_plain : forall u, needs_quote u = false ->
    forall s f r acc, csv_read (u ++ s) IFd f r acc = csv_read s IFd (rpush u f) r acc.
Proof.
  induction u as [|c u IH]; intros H s f r acc; simpl; [reflexivity|].
  destruct (needs_quote_cons c u H) as [Hc [Hq [Ht Hu]]].
  rewrite Ht. unfold COMMA in Hc. rewrite Hc. apply IH. assumption.
Qed.

Lemma read_quoted_body : forall w s f r acc,
    csv_read (double_quotes w ++ s) IQ f r acc = csv_read s IQ (rpush w f) r acc.
Proof.
  induction w as [|c w IH]; intros s f r acc; simpl; [reflexivity|].
  destruct (Ascii.eqb c """") eqn:E; simpl; rewrite !E; apply IH.
Qed.

(* ---------- one field followed by a comma or by the line feed ---------- *)
Lemma field_comma_SF : forall w s r acc,
    csv_read (csv_escape w ++ String COMMA s) SF [] r acc = csv_read s SF [] (w :: r) acc.
Proof.
  intros w s r acc. unfold csv_escape. destruct (needs_quote w) eqn:Q.
  - unfold dquote. simpl. rewrite append_assoc, read_quoted_body. simpl. rewrite rpush_nil. reflexivity.
  - destruct w as [|c u]; simpl; [reflexivity|].
    destruct (needs_quote_cons c u Q) as [Hc [Hq [Ht Hu]]]. unfold COMMA, DQ in *.
    rewrite Ht, Hq, Hc. rewrite (read_plain u Hu). simpl. rewrite rpush_str. reflexivity.
Qed.

Lemma field_nl_SF : forall w s r acc,
    csv_read (csv_escape w ++ String LF s) SF [] r acc = csv_read s SR [] [] (frev (w :: r) :: acc).
Proof.
  intros w s r acc. unfold csv_escape. destruct (needs_quote w) eqn:Q.
  - unfold dquote. simpl. rewrite append_assoc, read_quoted_body. simpl. rewrite rpush_nil. reflexivity.
  - destruct w as [|c u]; simpl; [reflexivity|].
    destruct (needs_quote_cons c u Q) as [Hc [Hq [Ht Hu]]]. unfold COMMA, DQ in *.
    rewrite Ht, Hq, Hc. rewrite (read_plain u Hu). simpl. rewrite rpush_str. reflexivity.
Qed.

(* at the start of a record the reader behaves as at the start of a field, except that it
   skips line terminators (empty lines) *)
Lemma SR_as_SF : forall c t f r acc, is_term c = false ->
    csv_read (String c t) SR f r acc = csv_read (String c t) SF [] [] acc.
Proof.
  intros c t f r acc H. simpl. rewrite H. destruct (Ascii.eqb c """"); [reflexivity|].
  destruct (Ascii.eqb c ","); reflexivity.
Qed.

Lemma escape_first : forall w d s, (w <> "" \/ d = COMMA) ->
    exists c t, csv_escape w ++ String d s = String c t /\ is_term c = false.
Proof.
  intros w d s H. unfold csv_escape. destruct (needs_quote w) eqn:Q.
  - eexists. eexists. split; [unfold dquote; simpl; reflexivity|reflexivity].
  - destruct w as [|c u].
    + destruct H as [H | ->]; [congruence|]. eexists. eexists. split; [reflexivity|reflexivity].
    + destruct (needs_quote_cons c u Q) as [_ [_ [Ht _]]]. eexists. eexists. split; [reflexivity|assumption].
Qed.

(* ---------- one record ---------- *)
Definition fields_text (fields : list string) : string := join "," (map csv_escape fields).

Lemma fields_text_cons2 : forall a b l, fields_text (a :: b :: l) = csv_escape a ++ String COMMA (fields_text (b :: l)).
Proof. intros. unfold fields_text. simpl. reflexivity. Qed.

Lemma read_record_SF : forall fields, fields <> [] -> forall s r acc,
    csv_read (fields_text fields ++ String LF s) SF [] r acc
    = csv_read s SR [] [] (frev (rev fields ++ r) :: acc).
Proof.
  induction fields as [|w fields IH]; intros Hne s r acc; [congruence|].
  destruct fields as [|x l].
  - unfold fields_text. simpl. apply field_nl_SF.
  - rewrite fields_text_cons2, append_assoc. simpl. rewrite field_comma_SF.
    rewrite IH by discriminate. simpl. rewrite <- !app_assoc. reflexivity.
Qed.

Lemma fields_text_first : forall fields s, fields <> [] -> fields <> [""] ->
    exists c t, fields_text fields ++ String LF s = String c t /\ is_term c = false.
Proof.
  intros fields s H1 H2. destruct fields as [|w [|x l]]; [congruence| |].
  - unfold fields_text. simpl. apply escape_first. left. intros ->. congruence.
  - rewrite fields_text_cons2, append_assoc. simpl. apply escape_first. right. reflexivity.
Qed.

Lemma fields_text_nonempty : forall fields, fields <> [] -> fields <> [""] ->
    exists c t, fields_text fields = String c t.
Proof.
  intros fields H1 H2. destruct (fields_text_first fields "" H1 H2) as [c [t [E _]]].
  destruct (fields_text fields) as [|c' t'] eqn:F.
  - simpl in E. inversion E; subst. exfalso.
    destruct fields as [|w [|x l]]; [congruence| |].
    + unfold fields_text in F. simpl in F. unfold csv_escape in F.
      destruct (needs_quote w); [discriminate|]. subst w. congruence.
    + rewrite fields_text_cons2 in F. destruct (csv_escape w); discriminate.
  - eauto.
Qed.

(* a row as the sink writes it: the fields quoted and joined, an empty row as "" (nonblank),
   then the line feed *)
Definition row_text (fields : list string) : string := nonblank (fields_text fields) ++ nl.

Lemma read_row : forall fields, fields <> [] -> forall s acc,
    csv_read (row_text fields ++ s) SR [] [] acc = csv_read s SR [] [] (fields :: acc).
Proof.
  intros fields Hne s acc. unfold row_text, nl. rewrite append_assoc. simpl.
  destruct (list_eq_dec string_dec fields [""]) as [->|Hne2].
  - reflexivity.
  - destruct (fields_text_nonempty fields Hne Hne2) as [c [t E]].
    assert (N : nonblank (fields_text fields) = fields_text fields) by (rewrite E; reflexivity).
    rewrite N. destruct (fields_text_first fields s Hne Hne2) as [c' [t' [E' T]]].
    change (String nl_char s) with (String LF s). rewrite E', (SR_as_SF c' t' [] [] acc T), <- E'.
    rewrite read_record_SF by assumption. rewrite app_nil_r, !frev_rev, rev_involutive. reflexivity.
Qed.

(* the header line: the same without [nonblank] (the header is configuration: a single column
   with an empty name would be an empty first line) *)
Lemma read_header : forall fields, fields <> [] -> fields <> [""] -> forall s acc,
    csv_read (csv_line fields ++ s) SR [] [] acc = csv_read s SR [] [] (fields :: acc).
Proof.
  intros fields H1 H2 s acc. unfold csv_line, nl. rewrite append_assoc. simpl.
  destruct (fields_text_first fields s H1 H2) as [c' [t' [E' T]]].
  change (join "," (map csv_escape fields)) with (fields_text fields).
  change (String nl_char s) with (String LF s). rewrite E', (SR_as_SF c' t' [] [] acc T), <- E'.
  rewrite read_record_SF by assumption. rewrite app_nil_r, !frev_rev, rev_involutive. reflexivity.
Qed.

(* ---------- a whole file ---------- *)
Definition cat (l : list string) : string := fold_right append "" l.

Lemma read_rows : forall rows, (forall row, In row rows -> row <> []) -> forall acc,
    csv_read (cat (map row_text rows)) SR [] [] acc = (rev acc ++ rows)%list.
Proof.
  induction rows as [|row rows IH]; intros H acc; simpl.
  - rewrite frev_rev, app_nil_r. reflexivity.
  - rewrite read_row by (apply H; left; reflexivity).
    rewrite IH by (intros x Hx; apply H; right; assumption). simpl. rewrite <- app_assoc. reflexivity.
Qed.

(* The reader gets back exactly what was written: the header names, then for every row its
   fields - for every content of every field. *)
Theorem csv_file_roundtrip : forall header rows,
    header <> [] -> header <> [""] -> (forall row, In row rows -> row <> []) ->
    csv_records (csv_line header ++ cat (map row_text rows)) = header :: rows.
Proof.
  intros header rows H1 H2 H3. unfold csv_records.
  rewrite read_header by assumption. rewrite read_rows by assumption. reflexivity.
Qed.

(* one row alone: as many fields as were written, hence as many as the header has columns *)
Theorem csv_row_roundtrip : forall fields, fields <> [] -> csv_records (row_text fields) = [fields].
Proof.
  intros fields H. unfold csv_records. rewrite <- (append_nil_r (row_text fields)).
  rewrite read_row by assumption. reflexivity.
Qed.
