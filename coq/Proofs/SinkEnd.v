(* C19 - end to end: the concurrent sink (Part 2 of the model) instantiated with the real
   formats (Part 1): what a reader finds in the file once every thread is done, for every
   schedule and every number of threads. *)
From Coq Require Import String Ascii List Bool Arith Lia Permutation Floats.
From RC Require Import Base.Show Base.Res Base.Json Model.Sink Proofs.Sink Proofs.SinkFmt Proofs.SinkCsv.
Import ListNotations.
Import SK.
Open Scope string_scope.

Lemma laos_app : forall a b, list_ascii_of_string (a ++ b) = (list_ascii_of_string a ++ list_ascii_of_string b)%list.
Proof. induction a as [|c a IH]; intros b; simpl; [reflexivity|]. rewrite IH. reflexivity. Qed.

Section End2End.
  Variable fj : float -> string.
  Variable fd : float -> string.
  Variable fo : fops.
  Notation sink_fmt := (sink_fmt fj fd fo).
  Notation reach f := (@reach ascii json (sink_fmt f) nl_char).

  (* the bytes of a list of records, as text *)
  Lemma records_text : forall (f : ofmt) (text : json -> string) (l : list json),
      (forall r, In r l -> sink_fmt f r = Some (list_ascii_of_string (text r))) ->
      string_of_list_ascii (records (sink_fmt f) nl_char l) = cat (map (fun r => text r ++ nl) l).
  Proof.
    intros f text l H. unfold records. induction l as [|r l IH]; simpl; [reflexivity|].
    rewrite sola_app. rewrite IH by (intros x Hx; apply H; right; assumption).
    f_equal. unfold rec_of. rewrite (H r (or_introl eq_refl)). unfold record_of.
    rewrite sola_app, string_of_list_ascii_of_string. reflexivity.
  Qed.

  (* ---------- JSON lines ---------- *)
  Lemma json_fmt : forall r, sink_fmt (FJson true) r = Some (list_ascii_of_string (to_string fj r)).
  Proof. reflexivity. Qed.

  (* For every schedule: the file is the previous content followed by one line per response,
     each line the JSON text of its response (which contains no line feed: one record = one
     line), the responses in some order - none lost, duplicated, truncated or interleaved. *)
  Theorem json_lines_end_to_end : forall rate (base : string) (queues : list (list json)) s,
      reach (FJson true) rate (init (list_ascii_of_string base) queues) s -> quiescent s ->
      exists order, Permutation (concat queues) order
                    /\ string_of_list_ascii (file s) = base ++ cat (map (fun r => to_string fj r ++ nl) order).
  Proof.
    intros rate base queues s Hr Q.
    destruct (quiescent_records_permutation (sink_fmt (FJson true)) nl_char rate (list_ascii_of_string base) queues s) as [order [P [F _]]];
      [intros r _; rewrite json_fmt; discriminate|assumption|assumption|].
    exists order. split; [assumption|]. rewrite F, sola_app, string_of_list_ascii_of_string.
    f_equal. apply (records_text (FJson true) (to_string fj)). intros r _. apply json_fmt.
  Qed.

  (* ---------- CSV ---------- *)
  Lemma csv_fmt_object : forall m sorted o,
      sink_fmt (FCsv m sorted) (JObj o)
      = Some (list_ascii_of_string (nonblank (fields_text (row_cells fj fd fo sorted m (JObj o))))).
  Proof.
    intros m sorted o. unfold sink_fmt.
    destruct (format_response fj fd fo (FCsv m sorted) (JObj o)) as [[row r']| | |] eqn:E.
    - destruct (csv_texts fj fd fo sorted m (JObj o) row r' E) as [_ ->]. reflexivity.
    - exfalso. simpl in E. destruct (row_errors _); [discriminate|]. simpl in E. discriminate.
    - exfalso. simpl in E. destruct (row_errors _); [discriminate|]. simpl in E. discriminate.
    - exfalso. simpl in E. destruct (row_errors _); [discriminate|]. simpl in E. discriminate.
  Qed.

  Lemma row_cells_nonempty : forall sorted m r, m <> [] -> row_cells fj fd fo sorted m r <> [].
  Proof.
    intros sorted m r H E. apply (f_equal (@List.length string)) in E.
    destruct (csv_columns_follow_header fj fd fo sorted m r) as [P [_ [L _]]].
    rewrite L in E. unfold header_cols in E. rewrite map_length, (Permutation_length P) in E.
    destruct m; [congruence|discriminate].
  Qed.

  (* For every schedule: an RFC 4180 reader applied to the file of a new CSV output reads the
     header names once, then exactly one record per response, in some order, and the fields of
     each record are the values of the configured mappings in header order. *)
  Theorem csv_end_to_end : forall rate m sorted (queues : list (list json)) s,
      m <> [] -> header_cols sorted m <> [""] ->
      (forall r, In r (concat queues) -> exists o, r = JObj o) ->
      reach (FCsv m sorted) rate (init (list_ascii_of_string (header_line sorted m)) queues) s -> quiescent s ->
      exists order, Permutation (concat queues) order
                    /\ csv_records (string_of_list_ascii (file s))
                       = header_cols sorted m :: map (row_cells fj fd fo sorted m) order.
  Proof.
    intros rate m sorted queues s Hm Hh Hobj Hr Q.
    assert (Fo : forall r, In r (concat queues) ->
                 sink_fmt (FCsv m sorted) r
                 = Some (list_ascii_of_string (nonblank (fields_text (row_cells fj fd fo sorted m r))))).
    { intros r Hin. destruct (Hobj r Hin) as [o ->]. apply csv_fmt_object. }
    destruct (quiescent_records_permutation (sink_fmt (FCsv m sorted)) nl_char rate (list_ascii_of_string (header_line sorted m)) queues s) as [order [P [F _]]];
      [intros r Hin; rewrite (Fo r Hin); discriminate|assumption|assumption|].
    exists order. split; [assumption|].
    rewrite F, sola_app, string_of_list_ascii_of_string.
    change (concat (map (rec_of (sink_fmt (FCsv m sorted)) nl_char) order))
      with (records (sink_fmt (FCsv m sorted)) nl_char order).
    rewrite (records_text (FCsv m sorted) (fun r => nonblank (fields_text (row_cells fj fd fo sorted m r))))
      by (intros r Hin; apply Fo; eapply Permutation_in; [apply Permutation_sym; exact P|exact Hin]).
    change (header_line sorted m) with (csv_line (header_cols sorted m)).
    replace (map (fun r => nonblank (fields_text (row_cells fj fd fo sorted m r)) ++ nl) order)
      with (map row_text (map (row_cells fj fd fo sorted m) order)) by (rewrite map_map; reflexivity).
    apply csv_file_roundtrip.
    - unfold header_cols. intros E. apply map_eq_nil in E.
      pose proof (order_perm sorted m) as Pm. rewrite E in Pm. apply Permutation_nil in Pm. congruence.
    - assumption.
    - intros row Hin. apply in_map_iff in Hin. destruct Hin as [r [<- _]]. apply row_cells_nonempty. assumption.
  Qed.

  (* a single row: as many fields as the header has columns (unconditionally for rows) *)
  Theorem csv_row_field_count : forall m sorted o row r',
      m <> [] -> format_response fj fd fo (FCsv m sorted) (JObj o) = Ok (row, r') ->
      csv_records (row ++ nl) = [row_cells fj fd fo sorted m (JObj o)]
      /\ List.length (row_cells fj fd fo sorted m (JObj o)) = List.length (header_cols sorted m).
  Proof.
    intros m sorted o row r' Hm H. destruct (csv_texts fj fd fo sorted m _ row r' H) as [_ ->]. split.
    - apply csv_row_roundtrip. apply row_cells_nonempty. assumption.
    - apply (csv_columns_follow_header fj fd fo sorted m (JObj o)).
  Qed.
End End2End.
