(* C19 - proofs about the format part of the sink model (Model/Sink.v, section Fmt):
   the response handed back keeps its content, header and rows use one column order,
   the header is written only into a new file, a JSON-lines record is a single line. *)
From Coq Require Import ZArith String Ascii List Floats Bool Arith Lia Permutation DecimalString.
From RC Require Import Base.Show Base.Res Base.Json Model.Sink.
Import ListNotations.
Import SK.
Open Scope string_scope.

(* ---------- serde_json::Map insert / get ---------- *)
Lemma oget_oset_same : forall m k v, oget (oset m k v) k = Some v.
Proof.
  induction m as [|[k' v'] m IH]; intros k v; simpl.
  - rewrite String.eqb_refl. reflexivity.
  - destruct (String.eqb k' k) eqn:E; simpl; rewrite E; auto.
Qed.
Lemma oget_oset_other : forall m k v k', k <> k' -> oget (oset m k v) k' = oget m k'.
Proof.
  induction m as [|[k0 v0] m IH]; intros k v k' Hne; simpl.
  - destruct (String.eqb k k') eqn:E; [apply String.eqb_eq in E; contradiction|reflexivity].
  - destruct (String.eqb k0 k) eqn:E; simpl.
    + apply String.eqb_eq in E. subst k0.
      destruct (String.eqb k k') eqn:E'; [apply String.eqb_eq in E'; contradiction|reflexivity].
    + destruct (String.eqb k0 k'); auto.
Qed.

Section FmtProofs.
  Variable fj : float -> string.
  Variable fd : float -> string.
  Variable fo : fops.
  Notation format_response := (format_response fj fd fo).
  Notation apply_mapping := (apply_mapping fj fd fo).

  (* ---------- the response handed back ---------- *)
  Lemma set_key_keeps : forall r key v r',
      set_key r key v = Ok r' ->
      forall k x, k <> key -> jget r k = Some x -> jget r' k = Some x.
  Proof.
    intros r key v r' H k x Hne Hg. destruct r; simpl in *; try discriminate.
    inversion H; subst. simpl. rewrite oget_oset_other by congruence. assumption.
  Qed.
  Lemma set_key_sets : forall r key v r', set_key r key v = Ok r' -> jget r' key = Some v.
  Proof.
    intros r key v r' H. destruct r; simpl in *; try discriminate; inversion H; subst; simpl.
    - rewrite String.eqb_refl. reflexivity.
    - apply oget_oset_same.
  Qed.

  (* the shape of format_response's result *)
  Lemma format_response_cases : forall f r row r',
      format_response f r = Ok (row, r') ->
      r' = r
      \/ (jget r "error" = None /\ exists v, set_key r "error" v = Ok r')
      \/ (jget r "error" <> None /\ exists v, set_key r "csv_error" v = Ok r').
  Proof.
    intros f r row r' H. destruct f as [nd|m sorted]; simpl in H.
    - inversion H; subst. left. reflexivity.
    - destruct (row_errors (row_results fj fd fo sorted m r)) as [|e es] eqn:E.
      + inversion H; subst. left. reflexivity.
      + right. destruct (jget r "error") as [ev|] eqn:Eg.
        * right. split; [discriminate|].
          destruct (set_key r "csv_error" _) as [r2| | |] eqn:Es; simpl in H; try discriminate.
          inversion H; subst. eexists. exact Es.
        * left. split; [reflexivity|].
          destruct (set_key r "error" _) as [r2| | |] eqn:Es; simpl in H; try discriminate.
          inversion H; subst. eexists. exact Es.
  Qed.

  (* Writing a response never removes a key, never changes the value of any key other than
     "csv_error" (which only the sink itself writes), and in particular never touches an
     existing "error": the a1883ea fix. *)
  Theorem response_error_not_clobbered : forall f r row r',
      format_response f r = Ok (row, r') ->
      (forall v, jget r "error" = Some v -> jget r' "error" = Some v)
      /\ (forall k v, k <> "csv_error" -> jget r k = Some v -> jget r' k = Some v)
      /\ (forall k, jget r k <> None -> jget r' k <> None).
  Proof.
    intros f r row r' H. destruct (format_response_cases f r row r' H) as [->|[[Hn [v Hs]]|[Hn [v Hs]]]].
    - repeat split; auto.
    - assert (K : forall k x, k <> "csv_error" -> jget r k = Some x -> jget r' k = Some x).
      { intros k x _ Hg. destruct (string_dec k "error") as [->|Hne]; [congruence|].
        eapply set_key_keeps; eauto. }
      split; [intros v0 Hg; congruence|]. split; [exact K|].
      intros k Hk. destruct (string_dec k "error") as [->|Hne]; [congruence|].
      destruct (jget r k) as [x|] eqn:Hg; [|congruence].
      rewrite (set_key_keeps _ _ _ _ Hs k x Hne Hg). discriminate.
    - assert (K : forall k x, k <> "csv_error" -> jget r k = Some x -> jget r' k = Some x).
      { intros k x Hne Hg. eapply set_key_keeps; eauto. }
      split; [intros v0 Hg; apply K; [discriminate|assumption]|]. split; [exact K|].
      intros k Hk. destruct (string_dec k "csv_error") as [->|Hne].
      + rewrite (set_key_sets _ _ _ _ Hs). discriminate.
      + destruct (jget r k) as [x|] eqn:Hg; [|congruence]. rewrite (K k x Hne Hg). discriminate.
  Qed.

  (* what IS replaced: an entry "csv_error" that the response already had (e.g. written by an
     earlier CSV sink of a combined policy) - documented behaviour, witnessed here *)
  Example csv_error_entry_is_replaced :
    exists f r row r', format_response f r = Ok (row, r')
                       /\ jget r "csv_error" = Some (JStr "first sink")
                       /\ jget r' "csv_error" <> Some (JStr "first sink").
  Proof.
    exists (FCsv [("c", CPath "nope")] false),
           (JObj [("error", JStr "search failed"); ("csv_error", JStr "first sink")]).
    eexists. eexists. split; [vm_compute; reflexivity|]. split; [reflexivity|]. vm_compute. discriminate.
  Qed.

  (* ---------- column order ---------- *)
  Lemma insert_by_key_perm : forall A (kv : string * A) l, Permutation (insert_by_key kv l) (kv :: l).
  Proof.
    induction l as [|x l IH]; simpl; [apply Permutation_refl|].
    destruct (String.leb (fst x) (fst kv)).
    - eapply Permutation_trans; [apply perm_skip; exact IH|]. apply perm_swap.
    - apply Permutation_refl.
  Qed.
  Lemma sort_by_key_perm : forall A (l : list (string * A)), Permutation (sort_by_key l) l.
  Proof.
    intros A l. unfold sort_by_key.
    assert (G : forall (l0 acc : list (string * A)), Permutation (fold_left (fun acc kv => insert_by_key kv acc) l0 acc) (acc ++ l0)).
    { induction l0 as [|x l0 IH]; intros acc; simpl.
      - rewrite app_nil_r. apply Permutation_refl.
      - eapply Permutation_trans; [apply IH|].
        eapply Permutation_trans; [apply Permutation_app_tail; apply insert_by_key_perm|].
        simpl. apply Permutation_middle. }
    apply (G l []).
  Qed.
  Lemma order_perm : forall sorted m, Permutation (order sorted m) m.
  Proof.
    intros [] m; unfold order.
    - apply sort_by_key_perm.
    - apply Permutation_sym, Permutation_rev.
  Qed.

  (* Header and rows are produced from the SAME ordered list of (name, mapping) pairs, which is
     a permutation of the configured mapping: the header has one name per configured column,
     every row has one field per header name, and the i-th field is the value of the mapping
     configured under the i-th header name. *)
  Theorem csv_columns_follow_header : forall sorted m r,
      Permutation (order sorted m) m
      /\ header_cols sorted m = map fst (order sorted m)
      /\ List.length (row_cells fj fd fo sorted m r) = List.length (header_cols sorted m)
      /\ (forall i name, nth_error (header_cols sorted m) i = Some name ->
            exists mp, nth_error (order sorted m) i = Some (name, mp)
                       /\ nth_error (row_cells fj fd fo sorted m r) i = Some (cell_value fj (apply_mapping mp r))).
  Proof.
    intros sorted m r. split; [apply order_perm|]. split; [reflexivity|]. split.
    - unfold row_cells, row_results, header_cols. rewrite !map_length. reflexivity.
    - intros i name H. unfold header_cols in H. rewrite nth_error_map in H.
      destruct (nth_error (order sorted m) i) as [[k mp]|] eqn:E; simpl in H; [|discriminate].
      inversion H; subst. exists mp. split; [reflexivity|].
      unfold row_cells, row_results. rewrite !nth_error_map, E. reflexivity.
  Qed.

  (* the text of the header line and of a row, in terms of those lists *)
  Theorem csv_texts : forall sorted m r row r',
      format_response (FCsv m sorted) r = Ok (row, r') ->
      initial_file_contents (FCsv m sorted) = Some (csv_line (header_cols sorted m))
      /\ row = nonblank (join "," (map csv_escape (row_cells fj fd fo sorted m r))).
  Proof.
    intros sorted m r row r' H. split; [reflexivity|].
    simpl in H. unfold row_cells. rewrite map_map.
    assert (E : map (fun kc => cell_text fj (snd kc)) (row_results fj fd fo sorted m r)
                = map (fun x => csv_escape (cell_value fj (snd x))) (row_results fj fd fo sorted m r)) by reflexivity.
    rewrite E in H.
    destruct (row_errors (row_results fj fd fo sorted m r)).
    - inversion H; subst. reflexivity.
    - destruct (set_key r _ _); simpl in H; try discriminate. inversion H; subst. reflexivity.
  Qed.

  (* ---------- the header is written when, and only when, the file is created ---------- *)
  Theorem csv_header_once_open : forall f rate c,
      (exists n, build_file f rate None = Ok (header_of f, n) \/ exists e, build_file f rate None = Err e)
      /\ (forall n c', build_file f rate (Some c) = Ok (c', n) -> c' = c)
      /\ open_file Append f None = Ok (header_of f)
      /\ open_file Append f (Some c) = Ok c.
  Proof.
    intros f rate c. split; [|split; [|split; reflexivity]].
    - unfold build_file. simpl. destruct rate as [z|].
      + destruct (z <=? 0)%Z; [exists 0%nat; right; eexists; reflexivity|exists (Z.to_nat z); left; reflexivity].
      + exists 1%nat. left. reflexivity.
    - intros n c' H. unfold build_file in H. simpl in H. destruct rate as [z|].
      + destruct (z <=? 0)%Z; inversion H; reflexivity.
      + inversion H; reflexivity.
  Qed.

  (* WriteMode::open_file, all three modes *)
  Theorem open_file_modes : forall f old,
      open_file Overwrite f old = Ok (header_of f)
      /\ (open_file ErrorIfExists f old = match old with Some _ => Err "file exists" | None => Ok (header_of f) end)
      /\ (open_file Append f old = Ok (match old with Some c => c | None => header_of f end)).
  Proof. intros f [c|]; repeat split; reflexivity. Qed.
  (* ---------- the model's cell meets the specification of a cell ---------- *)
  Lemma traverse_spec : forall path cur whole,
      to_opt (traverse cur path whole) = spec_lookup cur path.
  Proof.
    induction path as [|k rest IH]; intros cur whole; simpl; [reflexivity|].
    unfold jget. destruct cur; try reflexivity. destruct (oget m k); [apply IH|reflexivity].
  Qed.
  Lemma all_some_results : forall rs : list mres,
      all_some (map to_opt rs) = match errs rs with [] => Some (oks rs) | _ => None end.
  Proof.
    induction rs as [|x rs IH]; simpl; [reflexivity|]. destruct x as [v|msg]; simpl; [|reflexivity].
    rewrite IH. unfold errs, oks in *. simpl. destruct (flat_map _ rs); reflexivity.
  Qed.
  Lemma all_some_nums : forall vs : list json,
      all_some (map (spec_num fo) vs)
      = match rights (map (num_of fj fo) vs) with [] => Some (lefts (map (num_of fj fo) vs)) | _ => None end.
  Proof.
    induction vs as [|v vs IH]; simpl; [reflexivity|].
    destruct v; simpl; try reflexivity; rewrite IH; unfold rights, lefts in *; simpl;
      destruct (flat_map _ (map (num_of fj fo) vs)); reflexivity.
  Qed.

  (* For every mapping and every response the value the model (= the code, by the fmt stream)
     selects is the specified one: literal object keys, Sum / Optional as documented; the cell
     fails exactly when the specification says so. *)
  Theorem apply_mapping_meets_spec : forall m r, to_opt (apply_mapping m r) = spec_value fo m r.
  Proof.
    fix IH 1. intros m r. destruct m as [p|l|x].
    - simpl. apply traverse_spec.
    - cbn [apply_mapping spec_value].
      assert (E : map (fun x => spec_value fo x r) l = map to_opt (map (fun x => apply_mapping x r) l)).
      { rewrite map_map. revert l. fix IHl 1. intros [|x l]; [reflexivity|]. simpl. rewrite <- (IH x r), <- IHl. reflexivity. }
      rewrite E, all_some_results. unfold sum_results.
      destruct (errs (map (fun x => apply_mapping x r) l)); [|reflexivity].
      rewrite all_some_nums. destruct (rights _); reflexivity.
    - cbn [apply_mapping spec_value]. rewrite <- (IH x r). destruct (apply_mapping x r); reflexivity.
  Qed.
  Corollary cell_value_meets_spec : forall m r, cell_value fj (apply_mapping m r) = spec_cell fj fo m r.
  Proof.
    intros m r. unfold spec_cell. rewrite <- apply_mapping_meets_spec. destruct (apply_mapping m r); reflexivity.
  Qed.
End FmtProofs.

(* ---------- a JSON-lines record is one line ---------- *)
Section NoNewline.
  Variable fj : float -> string.
  Hypothesis fj_no_nl : forall f, contains_char nl_char (fj f) = false.

  Lemma contains_app : forall c a b, contains_char c (a ++ b) = contains_char c a || contains_char c b.
  Proof. induction a as [|x a IH]; intros b; simpl; [reflexivity|]. rewrite IH, orb_assoc. reflexivity. Qed.

  Lemma esc_char_no_nl : forall c, contains_char nl_char (esc_char c) = false.
  Proof. intros [[] [] [] [] [] [] [] []]; vm_compute; reflexivity. Qed.
  Lemma esc_str_no_nl : forall s, contains_char nl_char (esc_str s) = false.
  Proof.
    induction s as [|c s IH]; simpl; [reflexivity|]. rewrite contains_app, esc_char_no_nl, IH. reflexivity.
  Qed.
  Lemma quote_no_nl : forall s, contains_char nl_char (quote s) = false.
  Proof.
    intros s. unfold quote. rewrite !contains_app, esc_str_no_nl. reflexivity.
  Qed.

  Lemma uint_no_nl : forall d, contains_char nl_char (NilEmpty.string_of_uint d) = false.
  Proof. induction d; simpl; auto. Qed.
  Lemma show_Z_no_nl : forall z, contains_char nl_char (show_Z z) = false.
  Proof.
    intros z. unfold show_Z, NilEmpty.string_of_int. destruct (Z.to_int z); simpl; apply uint_no_nl.
  Qed.

  Lemma join_no_nl : forall sep l, contains_char nl_char sep = false ->
      (forall x, In x l -> contains_char nl_char x = false) -> contains_char nl_char (join sep l) = false.
  Proof.
    intros sep l Hs. induction l as [|x l IH]; intros H; simpl; [reflexivity|].
    destruct l as [|y l]; [apply H; left; reflexivity|].
    rewrite !contains_app, Hs, (H x (or_introl eq_refl)). simpl. apply IH.
    intros z Hz. apply H. right. assumption.
  Qed.

  (* induction principle for the nested json type *)
  Fixpoint json_size (j : json) : nat :=
    match j with
    | JArr l => S (fold_right (fun x a => json_size x + a)%nat 0%nat l)
    | JObj m => S (fold_right (fun kv a => json_size (snd kv) + a)%nat 0%nat m)
    | _ => 1%nat
    end.

  Lemma size_in_arr : forall (l : list json) y, In y l ->
      (json_size y <= fold_right (fun x a => json_size x + a)%nat 0%nat l)%nat.
  Proof.
    induction l as [|a l IH]; intros y Hin; [destruct Hin|]. destruct Hin as [->|Hy]; cbn [fold_right]; [lia|]. specialize (IH y Hy). lia.
  Qed.
  Lemma size_in_obj : forall (m : list (string * json)) k v, In (k, v) m ->
      (json_size v <= fold_right (fun kv a => json_size (snd kv) + a)%nat 0%nat m)%nat.
  Proof.
    induction m as [|a m IH]; intros k v Hin; [destruct Hin|]. destruct Hin as [->|Hy]; cbn [fold_right snd]; [lia|]. specialize (IH k v Hy). lia.
  Qed.
  Lemma kv_no_nl : forall k s, contains_char nl_char (quote k ++ ":" ++ s) = contains_char nl_char s.
  Proof.
    intros k s. rewrite contains_app, quote_no_nl. reflexivity.
  Qed.
  Lemma wrap_no_nl : forall a s b, contains_char nl_char a = false -> contains_char nl_char b = false ->
      contains_char nl_char (a ++ s ++ b) = contains_char nl_char s.
  Proof.
    intros a s b Ha Hb. rewrite !contains_app, Ha, Hb, orb_false_r. reflexivity.
  Qed.

  Theorem json_line_no_newline : forall j, contains_char nl_char (to_string fj j) = false.
  Proof.
    assert (G : forall n j, (json_size j <= n)%nat -> contains_char nl_char (to_string fj j) = false).
    { induction n as [|n IH]; intros j Hn.
      - destruct j; simpl in Hn; lia.
      - destruct j; cbn [to_string].
        + reflexivity.
        + destruct b; reflexivity.
        + apply show_Z_no_nl.
        + apply fj_no_nl.
        + apply quote_no_nl.
        + rewrite wrap_no_nl by reflexivity. apply join_no_nl; [reflexivity|].
          intros x Hx. apply in_map_iff in Hx. destruct Hx as [y [<- Hy]]. apply IH.
          cbn [json_size] in Hn. pose proof (size_in_arr l y Hy). lia.
        + rewrite wrap_no_nl by reflexivity. apply join_no_nl; [reflexivity|].
          intros x Hx. apply in_map_iff in Hx. destruct Hx as [[k v] [<- Hy]]. cbn [fst snd].
          rewrite kv_no_nl. apply IH.
          cbn [json_size] in Hn. pose proof (size_in_obj m k v Hy). lia. }
    intros j. apply (G (json_size j)). lia.
  Qed.
End NoNewline.
