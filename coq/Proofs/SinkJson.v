(* C19 - the compact JSON text the sink writes is read back by the reader of Model/SinkJson.v
   as the value that was written (numbers as their text), for every value. *)
From Coq Require Import ZArith String Ascii List Floats Bool Arith Lia DecimalString DecimalPos.
From RC Require Import Base.Show Base.Json Model.Sink Model.SinkJson.
Import ListNotations.
Import SK SJ.
Open Scope string_scope.

Lemma parse_esc_char : forall c rest acc, parse_str (esc_char c ++ rest) acc = parse_str rest (c :: acc).
Proof.
  intros c rest acc. destruct c as [[] [] [] [] [] [] [] []]; reflexivity.
Qed.

Lemma parse_esc_str : forall s rest acc,
    parse_str (esc_str s ++ rest) acc = parse_str rest (rev (list_ascii_of_string s) ++ acc)%list.
Proof.
  induction s as [|c s IH]; intros rest acc; simpl; [reflexivity|].
  assert (A : forall a b c0 : string, (a ++ b) ++ c0 = a ++ (b ++ c0)).
  { induction a; intros; simpl; [reflexivity|]. rewrite IHa. reflexivity. }
  rewrite A, parse_esc_char, IH, <- app_assoc. reflexivity.
Qed.

Lemma parse_quote : forall s rest, parse_str (esc_str s ++ String """" rest) [] = Some (s, rest).
Proof.
  intros s rest. rewrite parse_esc_str. simpl. rewrite app_nil_r, rev_involutive.
  rewrite string_of_list_ascii_of_string. reflexivity.
Qed.

(* ---------- round trip ---------- *)
Definition follow_ok (rest : string) : Prop :=
  match rest with EmptyString => True | String c _ => is_num_char c = false end.

Lemma take_num_text : forall a rest, all_num a = true -> follow_ok rest -> take_num (a ++ rest) = (a, rest).
Proof.
  induction a as [|c a IH]; intros rest Ha Hf; simpl in *.
  - destruct rest as [|d r]; simpl in *; [reflexivity|]. rewrite Hf. reflexivity.
  - apply andb_true_iff in Ha. destruct Ha as [Hc Ha]. rewrite Hc, (IH rest Ha Hf). reflexivity.
Qed.

Lemma append_assoc : forall a b c : string, (a ++ b) ++ c = a ++ (b ++ c).
Proof. induction a as [|x a IH]; intros b c; simpl; [reflexivity|]. rewrite IH. reflexivity. Qed.

(* a number character is none of the characters the parser dispatches on first *)
Lemma num_char_dispatch : forall c, is_num_char c = true ->
    Ascii.eqb c "n" = false /\ Ascii.eqb c "t" = false /\ Ascii.eqb c "f" = false /\ Ascii.eqb c """" = false
    /\ Ascii.eqb c "[" = false /\ Ascii.eqb c "{" = false /\ Ascii.eqb c "]" = false /\ Ascii.eqb c "}" = false.
Proof.
  intros c H. destruct c as [[] [] [] [] [] [] [] []]; vm_compute in H; try discriminate; repeat split; reflexivity.
Qed.

Lemma uint_all_num : forall d, all_num (NilEmpty.string_of_uint d) = true.
Proof. induction d; simpl; auto. Qed.
Lemma show_Z_num_text : forall z, num_text (show_Z z).
Proof.
  intros z. unfold show_Z, NilEmpty.string_of_int, num_text.
  destruct (Z.to_int z) as [d|d] eqn:E; simpl.
  - split; [|apply uint_all_num]. destruct z as [|p|p]; simpl in E; inversion E; subst.
    + discriminate.
    + pose proof (Unsigned.to_uint_nonnil p) as N. destruct (Pos.to_uint p); [congruence|..]; discriminate.
  - split; [discriminate|]. apply uint_all_num.
Qed.

Section RoundTrip.
  Variable fj : float -> string.
  Hypothesis fj_num : forall f, num_text (fj f).

  Notation erase := (erase fj).
  Definition esize (l : list json) : nat := fold_right (fun x a => S (vsize x + a)) 0 l.
  Definition msize (m : list (string * json)) : nat := fold_right (fun kv a => S (vsize (snd kv) + a)) 0 m.

  Lemma num_value : forall k a rest, num_text a -> follow_ok rest ->
      parse_value (S k) (a ++ rest) = Some (PNum a, rest).
  Proof.
    intros k a rest [Hne Ha] Hf. destruct a as [|c a]; [congruence|].
    pose proof Ha as Ha'. simpl in Ha'. apply andb_true_iff in Ha'. destruct Ha' as [Hc _].
    destruct (num_char_dispatch c Hc) as [E1 [E2 [E3 [E4 [E5 [E6 _]]]]]].
    cbn [parse_value append]. rewrite E1, E2, E3, E4, E5, E6, Hc.
    change (String c (a ++ rest)) with (String c a ++ rest). rewrite (take_num_text _ _ Ha Hf). reflexivity.
  Qed.

  (* the first character of a value's text is not a closing bracket *)
  Lemma first_not_close : forall j, exists c t, to_string fj j = String c t /\ Ascii.eqb c "]" = false /\ Ascii.eqb c "}" = false.
  Proof.
    assert (N : forall a, num_text a -> exists c t, a = String c t /\ Ascii.eqb c "]" = false /\ Ascii.eqb c "}" = false).
    { intros a [Hne Ha]. destruct a as [|c a]; [congruence|]. simpl in Ha. apply andb_true_iff in Ha.
      destruct Ha as [Hc _]. destruct (num_char_dispatch c Hc) as [_ [_ [_ [_ [_ [_ [E7 E8]]]]]]]. eauto. }
    intros j. destruct j; cbn [to_string].
    - eexists. eexists. split; [reflexivity|split; reflexivity].
    - destruct b; eexists; eexists; (split; [reflexivity|split; reflexivity]).
    - apply N, show_Z_num_text.
    - apply N, fj_num.
    - eexists. eexists. split; [unfold quote, dquote; simpl; reflexivity|split; reflexivity].
    - eexists. eexists. split; [simpl; reflexivity|split; reflexivity].
    - eexists. eexists. split; [simpl; reflexivity|split; reflexivity].
  Qed.

  Notation elems_text l := (join "," (map (to_string fj) l)).
  Notation members_text m := (join "," (map (fun kv : string * json => quote (fst kv) ++ String ":" (to_string fj (snd kv))) m)).

  Lemma join_cons2 : forall sep a b l, join sep (a :: b :: l) = a ++ sep ++ join sep (b :: l).
  Proof. reflexivity. Qed.

  Theorem roundtrip_all : forall n,
      (forall j rest, vsize j <= n -> follow_ok rest ->
         parse_value n (to_string fj j ++ rest) = Some (erase j, rest))
      /\ (forall l acc rest, l <> [] -> esize l <= n ->
         parse_elems n (elems_text l ++ String "]" rest) acc = Some (PArr (rev acc ++ map erase l), rest))
      /\ (forall m acc rest, m <> [] -> msize m <= n ->
         parse_members n (members_text m ++ String "}" rest) acc
         = Some (PObj (rev acc ++ map (fun kv => (fst kv, erase (snd kv))) m), rest)).
  Proof.
    induction n as [|k [IHV [IHE IHM]]].
    - split; [|split].
      + intros j rest H. destruct j; simpl in H; lia.
      + intros l acc rest Hne H. destruct l; [congruence|]. simpl in H. lia.
      + intros m acc rest Hne H. destruct m; [congruence|]. simpl in H. lia.
    - split; [|split].
      + (* values *)
        intros j rest Hs Hf. destruct j.
        * reflexivity.
        * destruct b; reflexivity.
        * cbn [to_string erase]. apply num_value; [apply show_Z_num_text|assumption].
        * cbn [to_string erase]. apply num_value; [apply fj_num|assumption].
        * cbn [to_string erase]. unfold quote, dquote. rewrite !append_assoc.
          cbn [parse_value append]. cbn [Ascii.eqb Bool.eqb]. rewrite parse_quote. reflexivity.
        * cbn [to_string erase]. destruct l as [|x l].
          -- reflexivity.
          -- rewrite !append_assoc. cbn [parse_value append]. cbn [Ascii.eqb Bool.eqb].
             destruct (first_not_close x) as [c [t [Ex [Ec _]]]].
             assert (Et : exists t', elems_text (x :: l) ++ String "]" rest = String c t').
             { destruct l as [|y l]; simpl; rewrite Ex; simpl; eauto. }
             destruct Et as [t' Et]. rewrite Et, Ec, <- Et.
             rewrite (IHE (x :: l) [] rest); [reflexivity|discriminate|]. simpl in Hs. unfold esize. simpl. lia.
        * cbn [to_string erase]. destruct m as [|x m].
          -- reflexivity.
          -- rewrite !append_assoc. cbn [parse_value append]. cbn [Ascii.eqb Bool.eqb].
             assert (Et : exists t', members_text (x :: m) ++ String "}" rest = String """" t').
             { unfold quote, dquote. destruct m as [|y m]; simpl; eauto. }
             destruct Et as [t' Et]. rewrite Et. cbn [Ascii.eqb Bool.eqb]. rewrite <- Et.
             rewrite (IHM (x :: m) [] rest); [reflexivity|discriminate|]. simpl in Hs. unfold msize. simpl. lia.
      + (* elements *)
        intros l acc rest Hne Hs. destruct l as [|x l]; [congruence|].
        unfold esize in Hs. simpl in Hs. cbn [parse_elems].
        destruct l as [|y l].
        * simpl. rewrite (IHV x (String "]" rest)); [|lia|reflexivity].
          simpl; rewrite <- ?app_assoc; reflexivity.
        * cbn [map]. rewrite join_cons2, !append_assoc.
          rewrite (IHV x _); [|lia|reflexivity]. cbn [append]. cbn [Ascii.eqb Bool.eqb].
          change (to_string fj y :: map (to_string fj) l) with (map (to_string fj) (y :: l)).
          rewrite (IHE (y :: l) (erase x :: acc) rest); [|discriminate|unfold esize; simpl in *; lia].
          simpl; rewrite <- ?app_assoc; reflexivity.
      + (* members *)
        intros m acc rest Hne Hs. destruct m as [|[key v] m]; [congruence|].
        unfold msize in Hs. simpl in Hs. cbn [parse_members].
        destruct m as [|y m].
        * unfold quote, dquote. simpl. rewrite !append_assoc. simpl.
          rewrite parse_quote. cbn [Ascii.eqb Bool.eqb].
          rewrite (IHV v (String "}" rest)); [|lia|reflexivity].
          simpl; rewrite <- ?app_assoc; reflexivity.
        * cbn [map]. rewrite join_cons2. unfold quote at 1, dquote.
          cbn [fst snd]. rewrite !append_assoc. cbn [append]. cbn [Ascii.eqb Bool.eqb].
          rewrite parse_quote. cbn [Ascii.eqb Bool.eqb].
          rewrite (IHV v _); [|lia|reflexivity]. cbn [append]. cbn [Ascii.eqb Bool.eqb].
          change ((quote (fst y) ++ String ":" (to_string fj (snd y)))
                  :: map (fun kv : string * json => quote (fst kv) ++ String ":" (to_string fj (snd kv))) m)
            with (map (fun kv : string * json => quote (fst kv) ++ String ":" (to_string fj (snd kv))) (y :: m)).
          rewrite (IHM (y :: m) ((key, erase v) :: acc) rest); [|discriminate|unfold msize; simpl in *; lia].
          simpl; rewrite <- ?app_assoc; reflexivity.
  Qed.

  Theorem json_line_roundtrip : forall j, parse_value (vsize j) (to_string fj j) = Some (erase j, EmptyString).
  Proof.
    intros j. destruct (roundtrip_all (vsize j)) as [V _].
    specialize (V j EmptyString (le_n _) I).
    assert (E : to_string fj j ++ "" = to_string fj j).
    { generalize (to_string fj j). induction s; simpl; [reflexivity|]. rewrite IHs. reflexivity. }
    rewrite E in V. exact V.
  Qed.
End RoundTrip.

Definition SJ_roundtrip := json_line_roundtrip.

(* ---------- the executable check used on real records ---------- *)
Lemma pj_eqb_refl : forall p, pj_eqb p p = true.
Proof.
  fix IH 1. intros [| b | s | s | l | m]; simpl.
  - reflexivity.
  - destruct b; reflexivity.
  - apply String.eqb_refl.
  - apply String.eqb_refl.
  - revert l. fix IHl 1. intros [|x l]; [reflexivity|]. rewrite (IH x). simpl. apply IHl.
  - revert m. fix IHm 1. intros [|[k x] m]; [reflexivity|]. rewrite String.eqb_refl, (IH x). simpl. apply IHm.
Qed.

Theorem reads_back_own_text : forall (fj : float -> string), (forall f, num_text (fj f)) ->
    forall j, reads_back fj (to_string fj j) j = true.
Proof.
  intros fj H j. unfold reads_back. rewrite (json_line_roundtrip fj H j). apply pj_eqb_refl.
Qed.
