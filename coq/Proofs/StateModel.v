(* C11, state-model part 2: what the refinement of Proofs/StateModelBuild.v gives about the per-query state
   model - slots, initial state, precedence, refusals - and the accessors (get / set / add by name):
   they touch the slot of their name only and round-trip through the unit conversion within C09's bound. *)
From Coq Require Import List Arith Bool Lia String ZArith QArith Qabs Lqa.
From RC Require Import Base.Num Base.Res Model.Units Model.UnitsRun Model.CompactMap Model.StateModel
     Model.StateModelSpec Proofs.CompactMap Proofs.Units Proofs.StateModelBuild.
Import ListNotations.
Import SM.

Local Notation kspec := String.eqb_spec.
Local Open Scope nat_scope.

(* ------------------------------------------------------------------ the specified list *)
Section SpecShape.
  Context {A : Type}.
  Local Notation entries := (list (string * feature A)).
  Implicit Types (tm am u : entries) (k : string).

  Lemma position_app_l (l ext : list string) k i :
    SMS.position l k = Some i -> SMS.position (l ++ ext) k = Some i.
  Proof.
    revert i. induction l as [|k0 r IH]; intros i; cbn [SMS.position app]; [discriminate|].
    destruct (String.eqb k0 k); [tauto|].
    destruct (SMS.position r k) as [j|]; cbn [option_map]; [|discriminate].
    intros H. rewrite (IH j eq_refl). exact H.
  Qed.

  Lemma position_none (l : list string) k : SMS.position l k = None <-> ~ In k l.
  Proof.
    induction l as [|k0 r IH]; cbn [SMS.position In]; [tauto|].
    destruct (String.eqb_spec k0 k) as [Heq|Hne].
    - split; [discriminate | intros H; exfalso; apply H; left; exact Heq].
    - destruct (SMS.position r k); cbn [option_map].
      + split; [discriminate|]. intros H. exfalso. apply H. right.
        destruct (in_dec string_dec k r) as [Hi|Hn]; [exact Hi|]. apply IH in Hn. discriminate.
      + split; [|reflexivity]. intros _ [H|H]; [exact (Hne H) | exact (proj1 IH eq_refl H)].
  Qed.

  Lemma in_final_names (s0 : entries) tm am k :
    In k (SMS.final_names s0 tm am) <-> In k (map fst s0) \/ In k (map fst tm) \/ In k (map fst am).
  Proof. unfold SMS.final_names. rewrite in_fold_add, map_app, in_app_iff. tauto. Qed.

  Lemma existsb_false_in {X} (f : X -> bool) (l : list X) (x : X) : existsb f l = false -> In x l -> f x = false.
  Proof.
    intros He Hin. destruct (f x) eqn:E; [|reflexivity].
    assert (existsb f l = true) by (apply existsb_exists; exists x; split; assumption). congruence.
  Qed.

  (* when the specification accepts the query, the list it yields has exactly the specified names, in the
     specified order, each with its specified feature *)
  Theorem spec_shape (s0 : entries) tm am (user : user_q A) (s' : entries) :
    SMS.build s0 tm am user = Ok s' -> NoDup (map fst s0) ->
    map fst s' = SMS.final_names s0 tm am
    /\ NoDup (map fst s')
    /\ (forall k, sget s' k = SMS.final_feature s0 tm am (user_entries user) k)
    /\ existsb (SMS.unknown_override tm am) (user_entries user) = false.
  Proof.
    intros Hb Hnd0. unfold SMS.build in Hb.
    assert (Hb' : (if existsb (SMS.unknown_override tm am) (user_entries user) then Err err_unknown
                   else if existsb (SMS.mistyped_override tm am) (user_entries user) then Err err_type
                   else if existsb (SMS.replaces_other_kind SMS.lookup s0) (SMS.model_defs tm am)
                           || existsb (SMS.replaces_other_kind SMS.last_def (tm ++ am)) (user_entries user)
                   then Err err_build
                   else Ok (flat_map (fun k => match SMS.final_feature s0 tm am (user_entries user) k with
                                               | Some f => [(k, f)] | None => [] end)
                                     (SMS.final_names s0 tm am))) = Ok s').
    { destruct user; [exact Hb | discriminate | exact Hb]. }
    clear Hb. set (u := user_entries user) in *.
    destruct (existsb (SMS.unknown_override tm am) u) eqn:Eunk; [discriminate|].
    destruct (existsb (SMS.mistyped_override tm am) u); [discriminate|].
    destruct (_ || _); [discriminate|]. injection Hb' as <-.
    assert (Hdef : forall k, In k (SMS.final_names s0 tm am) -> SMS.final_feature s0 tm am u k <> None).
    { intros k Hin. unfold SMS.final_feature. destruct (SMS.lookup u k); [discriminate|].
      destruct (SMS.last_def (tm ++ am) k) eqn:El; [discriminate|].
      apply last_def_none in El. rewrite lookup_sget. intros Hn. apply sget_none_iff in Hn.
      apply in_final_names in Hin. rewrite map_app, in_app_iff in El. tauto. }
    assert (Hk : map fst (flat_map (fun k => match SMS.final_feature s0 tm am u k with
                                             | Some f => [(k, f)] | None => [] end) (SMS.final_names s0 tm am))
                 = SMS.final_names s0 tm am) by (apply keys_flat; exact Hdef).
    assert (Hndn : NoDup (SMS.final_names s0 tm am)) by (apply nodup_fold_add; exact Hnd0).
    split; [exact Hk|]. split; [rewrite Hk; exact Hndn|]. split; [|reflexivity].
    intros k. destruct (in_dec string_dec k (SMS.final_names s0 tm am)) as [Hin|Hnin].
    - apply sget_flat. exact Hin.
    - replace (sget _ k) with (@None (feature A)) by (symmetry; apply sget_none_iff; rewrite Hk; exact Hnin).
      symmetry. unfold SMS.final_feature.
      assert (Hnd : ~ In k (map fst (tm ++ am))).
      { intros H. apply Hnin. apply in_final_names. rewrite map_app, in_app_iff in H. tauto. }
      destruct (SMS.lookup u k) as [f|] eqn:Elu.
      + exfalso. rewrite lookup_sget in Elu.
        pose proof (s_get_some_key String.eqb kspec u k f Elu) as Hin.
        pose proof (existsb_false_in _ _ _ Eunk Hin) as Hun. unfold SMS.unknown_override in Hun. cbn [fst] in Hun.
        apply last_def_none in Hnd. rewrite Hnd in Hun. discriminate.
      + apply last_def_none in Hnd. rewrite Hnd. rewrite lookup_sget. apply sget_none_iff.
        intros H. apply Hnin. apply in_final_names. left. exact H.
  Qed.
End SpecShape.

(* ------------------------------------------------------------------ slots and initial state *)
Section Slots.
  Variable N : Num.
  Local Notation entries := (list (string * feature N)).
  Implicit Types (cfg sm : smodel N) (tm am u : entries) (user : user_q N) (k : string).

  Lemma build_ok_inv cfg (s0 : entries) tm am user sm :
    SAbs cfg s0 -> NoDup (map fst (user_entries user)) ->
    build_search_instance cfg tm am user = Ok sm ->
    exists s', SMS.build s0 tm am user = Ok s' /\ SAbs sm s'.
  Proof.
    intros Habs Hndu Hb. pose proof (build_refines cfg s0 tm am user Habs Hndu) as H.
    rewrite Hb in H. unfold refines in H. destruct (SMS.build s0 tm am user) as [s'|c| |]; try contradiction.
    exists s'. split; [reflexivity | exact H].
  Qed.

  (* the slot of a name is the position of its first declaration: configured features, then the traversal
     model's, then the access model's; hence a bijection between the declared names and 0..n-1 that keeps
     every configured feature where it was *)
  Theorem slots_bijective_lemma cfg (s0 : entries) tm am user sm :
    SAbs cfg s0 -> NoDup (map fst (user_entries user)) ->
    build_search_instance cfg tm am user = Ok sm ->
    (forall k, get_index sm k = SMS.position (SMS.final_names s0 tm am) k)
    /\ len sm = List.length (SMS.final_names s0 tm am)
    /\ NoDup (SMS.final_names s0 tm am)
    /\ (forall k i, get_index sm k = Some i -> i < len sm)
    /\ (forall k1 k2 i, get_index sm k1 = Some i -> get_index sm k2 = Some i -> k1 = k2)
    /\ (forall i, i < len sm -> exists k, get_index sm k = Some i)
    /\ (forall k, get_index sm k <> None <-> In k (map fst s0) \/ In k (map fst tm) \/ In k (map fst am))
    /\ (forall k i, get_index cfg k = Some i -> get_index sm k = Some i).
  Proof.
    intros Habs Hndu Hb. destruct (build_ok_inv cfg s0 tm am user sm Habs Hndu Hb) as [s' [Hs Ha]].
    destruct (spec_shape s0 tm am user s' Hs (abs_nodup cfg s0 Habs)) as (Hk & Hnd & Hg & _).
    assert (Hidx : forall k, get_index sm k = SMS.position (SMS.final_names s0 tm am) k).
    { intros k. unfold get_index. rewrite (abs_get_index String.eqb kspec sm s' k Ha), <- position_sidx, Hk. reflexivity. }
    assert (Hlen : len sm = List.length (SMS.final_names s0 tm am)).
    { unfold len. rewrite (abs_len sm s' Ha), <- Hk, map_length. reflexivity. }
    split; [exact Hidx|]. split; [exact Hlen|]. split; [rewrite <- Hk; exact Hnd|].
    unfold get_index, len. rewrite (abs_len sm s' Ha). repeat split.
    - intros k i Hi. rewrite (abs_get_index String.eqb kspec sm s' k Ha) in Hi. exact (s_index_lt String.eqb kspec s' k i Hi).
    - intros k1 k2 i H1 H2. rewrite (abs_get_index String.eqb kspec sm s' k1 Ha) in H1.
      rewrite (abs_get_index String.eqb kspec sm s' k2 Ha) in H2.
      exact (s_index_inj String.eqb kspec s' k1 k2 i H1 H2).
    - intros i Hi. destruct (s_index_surj String.eqb kspec s' i Hnd Hi) as [k Hk'].
      exists k. rewrite (abs_get_index String.eqb kspec sm s' k Ha). exact Hk'.
    - intros Hne. apply in_final_names. fold (get_index sm k) in Hne. rewrite Hidx in Hne.
      destruct (in_dec string_dec k (SMS.final_names s0 tm am)) as [Hi|Hn]; [exact Hi|].
      apply position_none in Hn. contradiction.
    - intros Hin. fold (get_index sm k). rewrite Hidx. intros Hn. apply position_none in Hn. apply Hn.
      apply in_final_names. exact Hin.
    - intros k i Hi. fold (get_index sm k). rewrite Hidx.
      rewrite (abs_get_index String.eqb kspec cfg s0 k Habs), <- position_sidx in Hi.
      unfold SMS.final_names. destruct (fold_add_prefix (map fst (tm ++ am)) (map fst s0)) as [ext ->].
      apply position_app_l. exact Hi.
  Qed.

  (* ---- initial state ---- *)
  Variable of_int : Z -> N.

  Lemma get_initial_value (f : feature N) : get_initial N of_int f = Ok (SMS.initial_value N of_int f).
  Proof. destruct f as [u i|u i|u i|ty un [i|i|i|b]]; reflexivity. Qed.

  Lemma collect_res_ok {X Y} (g : X -> Y) (h : X -> res Y) (l : list X) :
    (forall x, h x = Ok (g x)) -> collect_res (map h l) = Ok (map g l).
  Proof.
    intros H. induction l as [|x r IH]; cbn [map collect_res]; [reflexivity|].
    rewrite H, IH. reflexivity.
  Qed.

  Lemma initial_state_abs sm (s : entries) :
    SAbs sm s -> initial_state N of_int sm = Ok (SMS.initial_state N of_int s).
  Proof.
    intros Ha. unfold initial_state, SMS.initial_state. rewrite (abs_iter sm s Ha).
    apply collect_res_ok. intros x. apply get_initial_value.
  Qed.

  Theorem initial_state_lemma cfg (s0 : entries) tm am user sm :
    SAbs cfg s0 -> NoDup (map fst (user_entries user)) ->
    build_search_instance cfg tm am user = Ok sm ->
    exists st, initial_state N of_int sm = Ok st
      /\ List.length st = len sm
      /\ (forall k i, get_index sm k = Some i ->
            exists f, SMS.final_feature s0 tm am (user_entries user) k = Some f
                      /\ nth_error st i = Some (SMS.initial_value N of_int f)).
  Proof.
    intros Habs Hndu Hb. destruct (build_ok_inv cfg s0 tm am user sm Habs Hndu Hb) as [s' [Hs Ha]].
    destruct (spec_shape s0 tm am user s' Hs (abs_nodup cfg s0 Habs)) as (Hk & Hnd & Hg & _).
    exists (SMS.initial_state N of_int s'). split; [apply initial_state_abs; exact Ha|].
    split; [unfold SMS.initial_state, len; rewrite map_length, (abs_len sm s' Ha); reflexivity|].
    intros k i Hi. unfold get_index in Hi. rewrite (abs_get_index String.eqb kspec sm s' k Ha) in Hi.
    destruct (s_index_nth_fwd String.eqb kspec s' k i Hi) as [f Hf]. exists f. split.
    - rewrite <- Hg. apply (s_get_in String.eqb kspec s' k f Hnd). eapply nth_error_In. exact Hf.
    - unfold SMS.initial_state. rewrite (map_nth_error _ _ _ Hf). reflexivity.
  Qed.
End Slots.

(* ------------------------------------------------------------------ verdicts *)
Section Verdicts.
  Context {A : Type}.
  Local Notation entries := (list (string * feature A)).
  Implicit Types (cfg sm : smodel A) (tm am u : entries) (user : user_q A) (k : string).

  Lemma refines_ok cfg (s0 : entries) tm am user (s' : entries) :
    SAbs cfg s0 -> NoDup (map fst (user_entries user)) -> SMS.build s0 tm am user = Ok s' ->
    exists sm, build_search_instance cfg tm am user = Ok sm /\ SAbs sm s'.
  Proof.
    intros Habs Hndu Hs. pose proof (build_refines cfg s0 tm am user Habs Hndu) as H. rewrite Hs in H.
    unfold refines in H. destruct (build_search_instance cfg tm am user) as [sm|c| |]; try contradiction.
    exists sm. split; [reflexivity | exact H].
  Qed.

  Lemma refines_err cfg (s0 : entries) tm am user c' :
    SAbs cfg s0 -> NoDup (map fst (user_entries user)) -> SMS.build s0 tm am user = Err c' ->
    exists c, build_search_instance cfg tm am user = Err c
              /\ (c = c' \/ mixed_invalid tm am (user_entries user) = true).
  Proof.
    intros Habs Hndu Hs. pose proof (build_refines cfg s0 tm am user Habs Hndu) as H. rewrite Hs in H.
    unfold refines in H. destruct (build_search_instance cfg tm am user) as [sm|c| |]; try contradiction.
    exists c. split; [reflexivity | exact H].
  Qed.

  (* an override of a name that neither model declares is refused *)
  Theorem unknown_override_refused cfg (s0 : entries) tm am u (e : string * feature A) :
    SAbs cfg s0 -> NoDup (map fst u) -> In e u -> ~ In (fst e) (map fst (tm ++ am)) ->
    exists c, build_search_instance cfg tm am (USome u) = Err c
              /\ (c = err_unknown \/ mixed_invalid tm am u = true).
  Proof.
    intros Habs Hndu Hin Hnd. apply (refines_err cfg s0 tm am (USome u) err_unknown Habs Hndu).
    unfold SMS.build. cbn [user_entries].
    rewrite (existsb_in_true (SMS.unknown_override tm am) u e Hin); [reflexivity|].
    unfold SMS.unknown_override. apply last_def_none in Hnd. rewrite Hnd. reflexivity.
  Qed.

  (* an override whose feature type differs from the model's is refused *)
  Theorem mistyped_override_refused cfg (s0 : entries) tm am u (e : string * feature A) m :
    SAbs cfg s0 -> NoDup (map fst u) -> In e u -> SMS.last_def (tm ++ am) (fst e) = Some m ->
    feature_type m <> feature_type (snd e) ->
    exists c, build_search_instance cfg tm am (USome u) = Err c
              /\ (c = err_type \/ mixed_invalid tm am u = true).
  Proof.
    intros Habs Hndu Hin Hm Hty.
    assert (Hmis : existsb (SMS.mistyped_override tm am) u = true).
    { apply (existsb_in_true _ u e Hin). unfold SMS.mistyped_override. rewrite Hm. apply negb_true_iff.
      destruct (String.eqb_spec (feature_type m) (feature_type (snd e))); [contradiction | reflexivity]. }
    destruct (existsb (SMS.unknown_override tm am) u) eqn:Eunk.
    - destruct (refines_err cfg s0 tm am (USome u) err_unknown Habs Hndu) as [c [Hc _]].
      + unfold SMS.build. cbn [user_entries]. rewrite Eunk. reflexivity.
      + exists c. split; [exact Hc|]. right. unfold mixed_invalid. rewrite Eunk, Hmis. reflexivity.
    - apply (refines_err cfg s0 tm am (USome u) err_type Habs Hndu).
      unfold SMS.build. cbn [user_entries]. rewrite Eunk, Hmis. reflexivity.
  Qed.

  (* a definition that would replace a definition of another kind is refused *)
  Theorem other_kind_refused cfg (s0 : entries) tm am user :
    SAbs cfg s0 -> NoDup (map fst (user_entries user)) -> user <> UBad ->
    existsb (SMS.unknown_override tm am) (user_entries user) = false ->
    existsb (SMS.mistyped_override tm am) (user_entries user) = false ->
    existsb (SMS.replaces_other_kind SMS.lookup s0) (SMS.model_defs tm am)
    || existsb (SMS.replaces_other_kind SMS.last_def (tm ++ am)) (user_entries user) = true ->
    build_search_instance cfg tm am user = Err err_build.
  Proof.
    intros Habs Hndu Hnb Hunk Hmis Hk.
    destruct (refines_err cfg s0 tm am user err_build Habs Hndu) as [c [Hc [->|Hmix]]].
    - unfold SMS.build. rewrite Hunk, Hmis, Hk. destruct user; [reflexivity | contradiction | reflexivity].
    - exact Hc.
    - unfold mixed_invalid in Hmix. rewrite Hunk in Hmix. discriminate.
  Qed.

  Theorem unparsable_refused cfg tm am : build_search_instance cfg tm am UBad = Err err_build.
  Proof. reflexivity. Qed.
End Verdicts.

Section Override.
  Variable N : Num.
  Local Notation entries := (list (string * feature N)).

  (* a query override never moves a slot: the layout is the one of the same query without state_features *)
  Theorem override_keeps_slot_lemma (cfg : smodel N) (s0 : entries) tm am (u : entries) sm sm0 :
    SAbs cfg s0 -> NoDup (map fst u) ->
    build_search_instance cfg tm am (USome u) = Ok sm ->
    build_search_instance cfg tm am UNone = Ok sm0 ->
    len sm = len sm0 /\ forall k, get_index sm k = get_index sm0 k.
  Proof.
    intros Habs Hndu H1 H0.
    destruct (slots_bijective_lemma N cfg s0 tm am (USome u) sm Habs Hndu H1) as (Hi1 & Hl1 & _).
    destruct (slots_bijective_lemma N cfg s0 tm am UNone sm0 Habs (NoDup_nil _) H0) as (Hi0 & Hl0 & _).
    split; [congruence|]. intros k. rewrite Hi1, Hi0. reflexivity.
  Qed.
End Override.

Check @build_refines. Check @spec_shape. Check @slots_bijective_lemma. Check @initial_state_lemma.
Check @override_keeps_slot_lemma. Check @unknown_override_refused. Check @mistyped_override_refused.
Check @other_kind_refused.
Print Assumptions build_refines.
Print Assumptions slots_bijective_lemma.
Print Assumptions initial_state_lemma.
