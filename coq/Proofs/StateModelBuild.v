(* C11, state-model part 1: the per-query state model built by the code
     (StateModel::new, collect_features, StateModel::extend, SearchApp::build_search_instance,
      modelled in Model/StateModel.v on top of the container model CM)
   refines the specification of Model/StateModelSpec.v (association lists over the declaration lists).

   Structure
     A. association lists with replace-or-append insertion, folded over a declaration list:
        keys = the names in order of first declaration, lookup = the last definition
     B. collect_features: the `added_features` loop returns the HashMap's content in declaration order;
        validation of the user's entries
     C. extend: refinement through the container (Proofs/CompactMap.v: abs_insert, abs_iter, abs_from_iter)
        and the overwrite flag
     D. build_search_instance refines SMS.build *)
From Coq Require Import List Arith Bool Lia String ZArith.
From RC Require Import Base.Num Base.Res Model.Units Model.CompactMap Model.StateModel Model.StateModelSpec
     Proofs.CompactMap.
Import ListNotations.
Import SM.

Notation sget := (CM.s_get String.eqb).
Notation sins := (CM.s_ins String.eqb).
Notation sidx := (CM.s_index String.eqb).
Notation SAbs := (Abs (K := string)).

Definition ins_all {V} (l s : list (string * V)) : list (string * V) :=
  fold_left (fun s kv => sins s (fst kv) (snd kv)) l s.

Lemma seqb_refl (a : string) : String.eqb a a = true.
Proof. apply String.eqb_refl. Qed.
Lemma seqb_sym (a b : string) : String.eqb a b = String.eqb b a.
Proof. apply String.eqb_sym. Qed.

(* ------------------------------------------------------------------------------------------ A *)
Section Names.
  Lemma existsb_eqb_in (k : string) (l : list string) : existsb (String.eqb k) l = true <-> In k l.
  Proof.
    rewrite existsb_exists. split.
    - intros [x [Hin Hx]]. apply String.eqb_eq in Hx. subst x. exact Hin.
    - intros Hin. exists k. split; [exact Hin | apply seqb_refl].
  Qed.

  Lemma add_name_in (l : list string) (k : string) : In k l -> SMS.add_name l k = l.
  Proof. intros H. unfold SMS.add_name. rewrite (proj2 (existsb_eqb_in k l) H). reflexivity. Qed.

  Lemma add_name_notin (l : list string) (k : string) : ~ In k l -> SMS.add_name l k = l ++ [k].
  Proof.
    intros H. unfold SMS.add_name. destruct (existsb (String.eqb k) l) eqn:E; [|reflexivity].
    apply existsb_eqb_in in E. contradiction.
  Qed.

  Lemma in_add_name (l : list string) (k x : string) : In x (SMS.add_name l k) <-> In x l \/ x = k.
  Proof.
    destruct (in_dec string_dec k l) as [Hin|Hnin].
    - rewrite add_name_in by exact Hin. split; [tauto|]. intros [H|H]; [exact H | subst; exact Hin].
    - rewrite add_name_notin by exact Hnin. rewrite in_app_iff. cbn [In]. intuition.
  Qed.

  Lemma in_fold_add (L K : list string) (x : string) :
    In x (fold_left SMS.add_name L K) <-> In x K \/ In x L.
  Proof.
    revert K. induction L as [|k L IH]; intros K; cbn [fold_left In]; [tauto|].
    rewrite IH, in_add_name. intuition.
  Qed.

  Lemma nodup_snoc {X} (l : list X) (k : X) : NoDup l -> ~ In k l -> NoDup (l ++ [k]).
  Proof.
    induction l as [|a r IH]; cbn [app]; intros Hnd Hnin.
    - constructor; [intros [] | constructor].
    - inversion Hnd as [|x y Ha Hr]; subst x y. constructor.
      + rewrite in_app_iff. cbn [In]. intros [H|[H|[]]]; [exact (Ha H)|]. apply Hnin. left. symmetry. exact H.
      + apply IH; [exact Hr|]. intros H. apply Hnin. right. exact H.
  Qed.

  Lemma nodup_add_name (l : list string) (k : string) : NoDup l -> NoDup (SMS.add_name l k).
  Proof.
    intros Hnd. destruct (in_dec string_dec k l) as [Hin|Hnin].
    - rewrite add_name_in by exact Hin. exact Hnd.
    - rewrite add_name_notin by exact Hnin. apply nodup_snoc; assumption.
  Qed.
End Names.

Section NamesMore.
  Lemma fold_add_all_in (L K : list string) : (forall x, In x L -> In x K) -> fold_left SMS.add_name L K = K.
  Proof.
    revert K. induction L as [|k L IH]; intros K H; cbn [fold_left]; [reflexivity|].
    rewrite add_name_in by (apply H; left; reflexivity).
    apply IH. intros x Hx. apply H. right. exact Hx.
  Qed.

  Lemma fold_add_snoc (L K : list string) (k : string) :
    fold_left SMS.add_name (L ++ [k]) K = SMS.add_name (fold_left SMS.add_name L K) k.
  Proof. rewrite fold_left_app. reflexivity. Qed.

  (* feeding the de-duplicated list instead of the list itself gives the same names *)
  Lemma fold_add_fold (L K : list string) :
    fold_left SMS.add_name (fold_left SMS.add_name L []) K = fold_left SMS.add_name L K.
  Proof.
    induction L as [|k L IH] using rev_ind; [reflexivity|].
    rewrite !fold_add_snoc.
    destruct (in_dec string_dec k (fold_left SMS.add_name L [])) as [Hin|Hnin].
    - rewrite (add_name_in _ _ Hin), IH. symmetry. apply add_name_in.
      apply in_fold_add. right. apply in_fold_add in Hin. destruct Hin as [[]|Hin]. exact Hin.
    - rewrite (add_name_notin _ _ Hnin), fold_add_snoc, IH. reflexivity.
  Qed.

  Lemma nodup_fold_add (L K : list string) : NoDup K -> NoDup (fold_left SMS.add_name L K).
  Proof.
    revert K. induction L as [|k L IH]; intros K H; cbn [fold_left]; [exact H|].
    apply IH. apply nodup_add_name. exact H.
  Qed.

  (* the configured names keep their place: later declarations only append *)
  Lemma fold_add_prefix (L K : list string) : exists ext, fold_left SMS.add_name L K = K ++ ext.
  Proof.
    revert K. induction L as [|k L IH]; intros K; cbn [fold_left].
    - exists []. rewrite app_nil_r. reflexivity.
    - destruct (IH (SMS.add_name K k)) as [ext He]. rewrite He.
      destruct (in_dec string_dec k K) as [Hin|Hnin].
      + rewrite add_name_in by exact Hin. exists ext. reflexivity.
      + rewrite add_name_notin by exact Hnin. exists (k :: ext). rewrite <- app_assoc. reflexivity.
  Qed.
End NamesMore.

Section Assoc.
  Context {A : Type}.
  Local Notation V := (feature A).
  Implicit Types (s l : list (string * V)) (k : string) (v : V).
  Local Notation kspec := String.eqb_spec.

  Lemma keys_ins s k v : map fst (sins s k v) = SMS.add_name (map fst s) k.
  Proof.
    induction s as [|[k0 v0] r IH]; cbn [CM.s_ins map fst]; [reflexivity|].
    destruct (String.eqb_spec k0 k) as [Heq|Hne]; cbn [map fst].
    - subst k0. symmetry. apply add_name_in. left. reflexivity.
    - rewrite IH. unfold SMS.add_name. cbn [existsb].
      rewrite (seqb_sym k k0). destruct (String.eqb_spec k0 k) as [Heq|_]; [contradiction|].
      cbn [orb]. destruct (existsb (String.eqb k) (map fst r)); reflexivity.
  Qed.

  Lemma keys_ins_all l s : map fst (ins_all l s) = fold_left SMS.add_name (map fst l) (map fst s).
  Proof.
    revert s. induction l as [|[k v] l IH]; intros s; cbn [ins_all fold_left map fst snd]; [reflexivity|].
    change (map fst (ins_all l (sins s k v)) = fold_left SMS.add_name (map fst l) (SMS.add_name (map fst s) k)).
    rewrite IH, keys_ins. reflexivity.
  Qed.

  Lemma nodup_ins_all l s : NoDup (map fst s) -> NoDup (map fst (ins_all l s)).
  Proof. intros H. rewrite keys_ins_all. apply nodup_fold_add. exact H. Qed.

  Lemma lookup_sget s k : SMS.lookup s k = sget s k.
  Proof. induction s as [|[k0 v0] r IH]; cbn [SMS.lookup CM.s_get]; [reflexivity|]. rewrite IH. reflexivity. Qed.

  Lemma position_sidx s k : SMS.position (map fst s) k = sidx s k.
  Proof.
    induction s as [|[k0 v0] r IH]; cbn [SMS.position CM.s_index map fst]; [reflexivity|]. rewrite IH. reflexivity.
  Qed.

  Lemma sget_ins s k v k' : sget (sins s k v) k' = if String.eqb k k' then Some v else sget s k'.
  Proof.
    destruct (String.eqb_spec k k') as [Heq|Hne].
    - subst k'. apply (s_get_ins_same String.eqb kspec).
    - apply (s_get_ins_other String.eqb kspec). congruence.
  Qed.

  (* lookup after a run of insertions: the last definition of the run, else what was there *)
  Lemma sget_ins_all l s k :
    sget (ins_all l s) k = match SMS.last_def l k with Some v => Some v | None => sget s k end.
  Proof.
    revert s. induction l as [|[k0 v0] l IH]; intros s; cbn [ins_all fold_left SMS.last_def fst snd]; [reflexivity|].
    change (sget (ins_all l (sins s k0 v0)) k = match match SMS.last_def l k with Some g => Some g | None => if String.eqb k0 k then Some v0 else None end with Some v => Some v | None => sget s k end).
    rewrite IH, sget_ins. destruct (SMS.last_def l k); [reflexivity|].
    destruct (String.eqb k0 k); reflexivity.
  Qed.

  Lemma last_def_none l k : SMS.last_def l k = None <-> ~ In k (map fst l).
  Proof.
    induction l as [|[k0 v0] r IH]; cbn [SMS.last_def map fst In]; [tauto|].
    destruct (SMS.last_def r k) as [g|].
    - split; [discriminate|]. intros H. exfalso. apply H. right.
      destruct (in_dec string_dec k (map fst r)) as [Hin|Hnin]; [exact Hin|].
      apply IH in Hnin. discriminate.
    - destruct (String.eqb_spec k0 k) as [Heq|Hne].
      + split; [discriminate|]. intros H. exfalso. apply H. left. exact Heq.
      + split; [|reflexivity]. intros _ [H|H]; [exact (Hne H)|]. apply (proj1 IH eq_refl H).
  Qed.

  Lemma sget_none_iff s k : sget s k = None <-> ~ In k (map fst s).
  Proof. apply (s_get_none String.eqb kspec). Qed.

  (* with distinct names the last definition is the only one *)
  Lemma last_def_nodup l k : NoDup (map fst l) -> SMS.last_def l k = sget l k.
  Proof.
    induction l as [|[k0 v0] r IH]; cbn [SMS.last_def CM.s_get map fst]; intros Hnd; [reflexivity|].
    inversion Hnd as [|x y Hnin Hnd']; subst x y. rewrite (IH Hnd').
    destruct (String.eqb_spec k0 k) as [Heq|Hne].
    - subst k0. apply sget_none_iff in Hnin. rewrite Hnin. reflexivity.
    - destruct (sget r k); reflexivity.
  Qed.

  Lemma ins_all_app l1 l2 s : ins_all (l1 ++ l2) s = ins_all l2 (ins_all l1 s).
  Proof. unfold ins_all. apply fold_left_app. Qed.

  (* inserting a duplicate-free list into the empty list gives the list back *)
  Lemma ins_all_fresh l acc : NoDup (map fst (acc ++ l)) -> ins_all l acc = acc ++ l.
  Proof.
    revert acc. induction l as [|[k v] l IH]; intros acc Hnd; cbn [ins_all fold_left fst snd].
    - rewrite app_nil_r. reflexivity.
    - change (ins_all l (sins acc k v) = acc ++ (k, v) :: l).
      rewrite (s_ins_app String.eqb).
      + rewrite IH; rewrite <- app_assoc; [reflexivity | exact Hnd].
      + apply sget_none_iff. rewrite map_app in Hnd. cbn [map fst] in Hnd.
        apply NoDup_remove_2 in Hnd. intros H. apply Hnd. apply in_or_app. left. exact H.
  Qed.

  Lemma ins_all_id s : NoDup (map fst s) -> ins_all s [] = s.
  Proof. intros H. apply (ins_all_fresh s []). exact H. Qed.

  (* two association lists with the same duplicate-free key list and the same lookups are equal *)
  Lemma assoc_eq s1 s2 :
    map fst s1 = map fst s2 -> NoDup (map fst s1) ->
    (forall k, In k (map fst s1) -> sget s1 k = sget s2 k) -> s1 = s2.
  Proof.
    revert s2. induction s1 as [|[k1 v1] r1 IH]; intros [|[k2 v2] r2]; cbn [map fst]; intros Hk Hnd Hg;
      try discriminate; [reflexivity|].
    injection Hk as Hk1 Hk2. subst k2. inversion Hnd as [|x y Hnin Hnd']; subst x y.
    pose proof (Hg k1 (or_introl eq_refl)) as H1. cbn [CM.s_get] in H1. rewrite seqb_refl in H1.
    injection H1 as H1. subst v2. f_equal. apply IH; [exact Hk2 | exact Hnd'|].
    intros k Hin. pose proof (Hg k (or_intror Hin)) as H2. cbn [CM.s_get] in H2.
    destruct (String.eqb_spec k1 k) as [Heq|Hne]; [subst k; contradiction | exact H2].
  Qed.

  (* ... and such a list is determined by its keys and its lookup function *)
  Lemma assoc_flat s (g : string -> option V) :
    NoDup (map fst s) -> (forall k, In k (map fst s) -> sget s k = g k) ->
    s = flat_map (fun k => match g k with Some f => [(k, f)] | None => [] end) (map fst s).
  Proof.
    induction s as [|[k0 v0] r IH]; cbn [map fst flat_map]; intros Hnd Hg; [reflexivity|].
    inversion Hnd as [|x y Hnin Hnd']; subst x y.
    pose proof (Hg k0 (or_introl eq_refl)) as H0. cbn [CM.s_get] in H0. rewrite seqb_refl in H0.
    rewrite <- H0. cbn [app]. f_equal. apply IH; [exact Hnd'|].
    intros k Hin. pose proof (Hg k (or_intror Hin)) as H2. cbn [CM.s_get] in H2.
    destruct (String.eqb_spec k0 k) as [Heq|Hne]; [subst k; contradiction | exact H2].
  Qed.

  Lemma keys_flat (names : list string) (g : string -> option V) :
    (forall k, In k names -> g k <> None) ->
    map fst (flat_map (fun k => match g k with Some f => [(k, f)] | None => [] end) names) = names.
  Proof.
    induction names as [|k r IH]; cbn [flat_map map]; intros H; [reflexivity|].
    rewrite map_app, IH by (intros x Hx; apply H; right; exact Hx).
    destruct (g k) eqn:E; [reflexivity|]. exfalso. apply (H k); [left; reflexivity | exact E].
  Qed.

  Lemma sget_flat (names : list string) (g : string -> option V) k :
    In k names -> sget (flat_map (fun k => match g k with Some f => [(k, f)] | None => [] end) names) k = g k.
  Proof.
    induction names as [|k0 r IH]; cbn [flat_map In]; [tauto|].
    intros Hin. destruct (string_dec k0 k) as [Heq|Hne].
    - subst k0. destruct (g k) eqn:E; cbn [app CM.s_get].
      + rewrite seqb_refl. reflexivity.
      + (* not defined here: k cannot be found later either *)
        clear IH Hin. induction r as [|k1 r IHr]; cbn [flat_map]; [reflexivity|].
        destruct (g k1) eqn:E1; cbn [app CM.s_get]; [|exact IHr].
        destruct (String.eqb_spec k1 k) as [Heq|_]; [subst k1; congruence | exact IHr].
    - destruct Hin as [Hin|Hin]; [contradiction|].
      destruct (g k0); cbn [app CM.s_get]; [|exact (IH Hin)].
      destruct (String.eqb_spec k0 k) as [Heq|_]; [contradiction | exact (IH Hin)].
  Qed.
End Assoc.

(* ------------------------------------------------------------------------------------------ B *)
Section Collect.
  Context {A : Type}.
  Local Notation entries := (list (string * feature A)).
  Implicit Types (l u D acc : entries) (mf : hm A) (k : string).

  Lemma hm_collect_eq D : hm_collect D = ins_all D [].
  Proof. reflexivity. Qed.

  (* the HashMap collected from the declarations answers with the last definition *)
  Lemma hm_get_collect D k : hm_get (hm_collect D) k = SMS.last_def D k.
  Proof.
    unfold hm_get. rewrite hm_collect_eq, sget_ins_all. destruct (SMS.last_def D k); reflexivity.
  Qed.

  Lemma forallb_names acc k :
    forallb (fun nf : string * feature A => negb (String.eqb (fst nf) k)) acc = negb (existsb (String.eqb k) (map fst acc)).
  Proof.
    induction acc as [|[k0 f0] r IH]; cbn [forallb existsb map fst]; [reflexivity|].
    rewrite IH, negb_orb, (seqb_sym k0 k). reflexivity.
  Qed.

  Lemma added_step_spec mf acc (kv : string * feature A) :
    added_step mf acc kv
    = if existsb (String.eqb (fst kv)) (map fst acc) then acc
      else match hm_get mf (fst kv) with Some f => acc ++ [(fst kv, f)] | None => acc end.
  Proof. unfold added_step. rewrite forallb_names. destruct (existsb _ _); reflexivity. Qed.

  (* the `added_features` loop: names in order of first declaration, values from the HashMap *)
  Lemma added_loop mf l acc :
    NoDup (map fst acc) ->
    (forall k f, In (k, f) acc -> hm_get mf k = Some f) ->
    (forall kv, In kv l -> hm_get mf (fst kv) <> None) ->
    let R := fold_left (added_step mf) l acc in
    map fst R = fold_left SMS.add_name (map fst l) (map fst acc)
    /\ NoDup (map fst R) /\ (forall k f, In (k, f) R -> hm_get mf k = Some f).
  Proof.
    revert acc. induction l as [|kv l IH]; intros acc Hnd Hval Hdef; cbn [fold_left map].
    - repeat split; assumption.
    - assert (Hdef' : forall kv0, In kv0 l -> hm_get mf (fst kv0) <> None)
        by (intros kv0 H0; apply Hdef; right; exact H0).
      rewrite added_step_spec.
      destruct (existsb (String.eqb (fst kv)) (map fst acc)) eqn:E.
      + rewrite add_name_in by (apply existsb_eqb_in; exact E). apply IH; assumption.
      + assert (Hnin : ~ In (fst kv) (map fst acc)).
        { intros H. apply existsb_eqb_in in H. congruence. }
        rewrite add_name_notin by exact Hnin.
        destruct (hm_get mf (fst kv)) as [f|] eqn:Eg; [|exfalso; apply (Hdef kv); [left; reflexivity | exact Eg]].
        replace (map fst acc ++ [fst kv]) with (map fst (acc ++ [(fst kv, f)]))
          by (rewrite map_app; reflexivity).
        apply IH.
        * rewrite map_app. cbn [map fst]. apply nodup_snoc; assumption.
        * intros k0 f0 Hin. apply in_app_or in Hin. destruct Hin as [Hin|[Hin|[]]]; [exact (Hval _ _ Hin)|].
          injection Hin as H1 H2. subst k0 f0. exact Eg.
        * exact Hdef'.
  Qed.

  Lemma sget_in_keys (s : entries) k : In k (map fst s) -> exists f, sget s k = Some f /\ In (k, f) s.
  Proof.
    intros Hin. destruct (sget s k) as [f|] eqn:E.
    - exists f. split; [reflexivity|]. exact (s_get_some_key String.eqb String.eqb_spec s k f E).
    - apply sget_none_iff in E. contradiction.
  Qed.

  Theorem added_is_collect D : fold_left (added_step (hm_collect D)) D [] = hm_collect D.
  Proof.
    destruct (added_loop (hm_collect D) D []) as (Hk & Hnd & Hv).
    - constructor.
    - intros k f [].
    - intros kv Hin. rewrite hm_get_collect. intros Hn. apply last_def_none in Hn. apply Hn.
      apply in_map. exact Hin.
    - cbn [map] in Hk. apply assoc_eq.
      + rewrite Hk, hm_collect_eq, keys_ins_all. reflexivity.
      + exact Hnd.
      + intros k Hin. destruct (sget_in_keys _ k Hin) as [f [Hg Hf]]. rewrite Hg. symmetry. exact (Hv k f Hf).
  Qed.

  Lemma hm_collect_nodup D : NoDup (map fst (hm_collect D)).
  Proof. rewrite hm_collect_eq. apply nodup_ins_all. constructor. Qed.

  Lemma hm_collect_keys D : map fst (hm_collect D) = fold_left SMS.add_name (map fst D) [].
  Proof. rewrite hm_collect_eq. apply keys_ins_all. Qed.

  (* what the models declare, as the specification writes it *)
  Lemma hm_collect_model_defs (tm am : entries) : hm_collect (tm ++ am) = SMS.model_defs tm am.
  Proof.
    unfold SMS.model_defs, SMS.model_names. rewrite <- hm_collect_keys.
    apply assoc_flat; [apply hm_collect_nodup|].
    intros k _. apply hm_get_collect.
  Qed.

  (* ---- validation of the query's entries ---- *)
  Definition valid_b mf (e : string * feature A) : bool :=
    match hm_get mf (fst e) with
    | Some m => String.eqb (feature_type m) (feature_type (snd e))
    | None => false
    end.

  Lemma validate_user_spec mf e :
    validate_user mf e = if valid_b mf e then Ok e
                         else Err (match hm_get mf (fst e) with None => err_unknown | Some _ => err_type end).
  Proof.
    unfold validate_user, valid_b. destruct (hm_get mf (fst e)) as [m|]; [|reflexivity].
    destruct (String.eqb (feature_type m) (feature_type (snd e))); reflexivity.
  Qed.

  Lemma collect_validate mf l :
    match collect_res (map (validate_user mf) l) with
    | Ok l' => l' = l /\ forallb (valid_b mf) l = true
    | Err c => exists e, In e l /\ valid_b mf e = false
                         /\ c = match hm_get mf (fst e) with None => err_unknown | Some _ => err_type end
    | _ => False
    end.
  Proof.
    induction l as [|e l IH]; cbn [map collect_res forallb]; [split; reflexivity|].
    rewrite validate_user_spec. destruct (valid_b mf e) eqn:Ev; cbn [bind].
    - destruct (collect_res (map (validate_user mf) l)) as [l'|c| |]; cbn [bind]; try exact IH.
      + destruct IH as [-> Hall]. split; [reflexivity | exact Hall].
      + destruct IH as [e' (Hin & Hv & Hc)]. exists e'. repeat split; [right; exact Hin | exact Hv | exact Hc].
    - exists e. repeat split; [left; reflexivity | exact Ev].
  Qed.
End Collect.

(* ------------------------------------------------------------------------------------------ C *)
Section Extend.
  Context {A : Type}.
  Local Notation entries := (list (string * feature A)).
  Implicit Types (es l u s : entries) (c : smodel A) (k : string).
  Local Notation kspec := String.eqb_spec.

  Definition conflict (o : option (feature A)) (f : feature A) : bool :=
    match o with Some old => negb (feature_eqb old f) | None => false end.
  (* some entry of the run replaces a feature of another kind *)
  Fixpoint over_flag s es : bool :=
    match es with
    | [] => false
    | e :: r => conflict (sget s (fst e)) (snd e) || over_flag (sins s (fst e) (snd e)) r
    end.

  Lemma extend_step_spec c s b (e : string * feature A) :
    SAbs c s ->
    exists c', extend_step (c, b) e = (c', b || conflict (sget s (fst e)) (snd e))
               /\ SAbs c' (sins s (fst e) (snd e)).
  Proof.
    intros Habs. destruct (abs_insert String.eqb kspec c s (fst e) (snd e) Habs) as [Habs' Hold].
    unfold extend_step. cbn [fst snd].
    destruct (CM.insert String.eqb c (fst e) (snd e)) as [c' old]. cbn [fst snd] in Habs', Hold. subst old.
    exists c'. split; [reflexivity | exact Habs'].
  Qed.

  Lemma extend_fold es c s b :
    SAbs c s ->
    SAbs (fst (fold_left extend_step es (c, b))) (ins_all es s)
    /\ snd (fold_left extend_step es (c, b)) = b || over_flag s es.
  Proof.
    revert c s b. induction es as [|e es IH]; intros c s b Habs; cbn [fold_left ins_all over_flag].
    - split; [exact Habs | rewrite orb_false_r; reflexivity].
    - destruct (extend_step_spec c s b e Habs) as [c' [He Ha]]. rewrite He.
      destruct (IH c' _ (b || conflict (sget s (fst e)) (snd e)) Ha) as [H1 H2].
      split; [exact H1|]. rewrite H2, orb_assoc. reflexivity.
  Qed.

  Lemma existsb_ext_in {X} (f g : X -> bool) (l : list X) :
    (forall x, In x l -> f x = g x) -> existsb f l = existsb g l.
  Proof.
    induction l as [|x r IH]; cbn [existsb]; intros H; [reflexivity|].
    rewrite (H x (or_introl eq_refl)), IH; [reflexivity|]. intros y Hy. apply H. right. exact Hy.
  Qed.

  Lemma over_flag_nodup s es :
    NoDup (map fst es) -> over_flag s es = existsb (fun e => conflict (sget s (fst e)) (snd e)) es.
  Proof.
    revert s. induction es as [|e es IH]; intros s Hnd; cbn [over_flag existsb]; [reflexivity|].
    cbn [map] in Hnd. inversion Hnd as [|x y Hnin Hnd']; subst x y.
    rewrite (IH _ Hnd'). f_equal. apply existsb_ext_in. intros e' Hin.
    rewrite sget_ins. destruct (kspec (fst e) (fst e')) as [Heq|_]; [|reflexivity].
    exfalso. apply Hnin. rewrite Heq. apply in_map. exact Hin.
  Qed.

  Lemma over_flag_app s a b : over_flag s (a ++ b) = over_flag s a || over_flag (ins_all a s) b.
  Proof.
    revert s. induction a as [|e a IH]; intros s; cbn [app over_flag ins_all fold_left]; [reflexivity|].
    rewrite IH, orb_assoc. reflexivity.
  Qed.

  (* StateModel::extend through the container: every entry is inserted; an error iff some entry replaced a
     feature of another kind *)
  Theorem extend_refines c s es :
    SAbs c s ->
    match extend c es with
    | Ok c' => SAbs c' (ins_all es s) /\ over_flag s es = false
    | Err cl => cl = err_build /\ over_flag s es = true
    | _ => False
    end.
  Proof.
    intros Habs. unfold extend.
    assert (H0 : SAbs (CM.from_iter String.eqb (CM.iter c)) s).
    { rewrite (abs_iter c s Habs).
      assert (H : SAbs (CM.from_iter String.eqb s) (ins_all s [])) by exact (abs_from_iter String.eqb kspec s).
      rewrite (ins_all_id s (abs_nodup c s Habs)) in H. exact H. }
    match goal with |- context [fold_left extend_step es ?i] => set (r := fold_left extend_step es i) end.
    assert (H12 : SAbs (fst r) (ins_all es s) /\ snd r = false || over_flag s es)
      by exact (extend_fold es _ s false H0).
    destruct r as [m fl]. cbn [fst snd orb] in H12. destruct H12 as [H1 H2]. subst fl.
    destruct (over_flag s es); [split; reflexivity | split; [exact H1 | reflexivity]].
  Qed.
End Extend.

(* ------------------------------------------------------------------------------------------ D *)
Section Build.
  Context {A : Type}.
  Local Notation entries := (list (string * feature A)).
  Implicit Types (cfg : smodel A) (tm am u : entries) (user : user_q A) (k : string).

  (* the query holds invalid overrides of both kinds: which one is reported depends on HashMap order *)
  Definition mixed_invalid tm am u : bool :=
    existsb (SMS.unknown_override tm am) u && existsb (SMS.mistyped_override tm am) u.

  Definition refines tm am u (r : res (smodel A)) (q : res entries) : Prop :=
    match r, q with
    | Ok sm, Ok s => SAbs sm s
    | Err c, Err c' => c = c' \/ mixed_invalid tm am u = true
    | _, _ => False
    end.

  Lemma valid_b_spec tm am (e : string * feature A) :
    valid_b (hm_collect (tm ++ am)) e = negb (SMS.unknown_override tm am e) && negb (SMS.mistyped_override tm am e).
  Proof.
    unfold valid_b, SMS.unknown_override, SMS.mistyped_override. rewrite hm_get_collect.
    destruct (SMS.last_def (tm ++ am) (fst e)) as [m|]; cbn [negb andb]; [|reflexivity].
    rewrite negb_involutive. reflexivity.
  Qed.

  Lemma all_valid_no_invalid tm am u :
    forallb (valid_b (hm_collect (tm ++ am))) u = true ->
    existsb (SMS.unknown_override tm am) u = false /\ existsb (SMS.mistyped_override tm am) u = false.
  Proof.
    induction u as [|e u IH]; cbn [forallb existsb]; [split; reflexivity|].
    rewrite andb_true_iff, valid_b_spec, andb_true_iff, !negb_true_iff. intros [[H1 H2] H3].
    destruct (IH H3) as [H4 H5]. rewrite H1, H2, H4, H5. split; reflexivity.
  Qed.

  Lemma existsb_in_true {X} (f : X -> bool) (l : list X) (x : X) : In x l -> f x = true -> existsb f l = true.
  Proof. intros Hin Hf. apply existsb_exists. exists x. split; assumption. Qed.

  Lemma final_names_eq (s0 : entries) tm am u :
    (forall e, In e u -> In (fst e) (map fst (tm ++ am))) ->
    fold_left SMS.add_name (map fst (hm_collect (tm ++ am) ++ u)) (map fst s0) = SMS.final_names s0 tm am.
  Proof.
    intros Hu. rewrite map_app, fold_left_app, hm_collect_keys, fold_add_fold.
    apply fold_add_all_in. intros x Hx. apply in_fold_add. right.
    apply in_map_iff in Hx. destruct Hx as [e [<- He]]. apply Hu. exact He.
  Qed.

  Lemma final_feature_eq (s0 : entries) tm am u k :
    NoDup (map fst u) ->
    sget (ins_all (hm_collect (tm ++ am) ++ u) s0) k = SMS.final_feature s0 tm am u k.
  Proof.
    intros Hnd. rewrite ins_all_app, !sget_ins_all. unfold SMS.final_feature.
    rewrite (last_def_nodup u k Hnd), (last_def_nodup _ k (hm_collect_nodup (tm ++ am))), !lookup_sget.
    change (sget (hm_collect (tm ++ am)) k) with (hm_get (hm_collect (tm ++ am)) k). rewrite hm_get_collect.
    reflexivity.
  Qed.

  Definition spec_tail (s0 : entries) tm am u : res entries :=
    if existsb (SMS.replaces_other_kind SMS.lookup s0) (SMS.model_defs tm am)
       || existsb (SMS.replaces_other_kind SMS.last_def (tm ++ am)) u then Err err_build
    else Ok (flat_map (fun k => match SMS.final_feature s0 tm am u k with Some f => [(k, f)] | None => [] end)
                      (SMS.final_names s0 tm am)).

  (* all overrides valid: extend of the model features followed by the overrides *)
  Lemma build_valid cfg (s0 : entries) tm am u :
    SAbs cfg s0 -> NoDup (map fst u) -> forallb (valid_b (hm_collect (tm ++ am))) u = true ->
    match extend cfg (hm_collect (tm ++ am) ++ u), spec_tail s0 tm am u with
    | Ok sm, Ok s => SAbs sm s
    | Err c, Err c' => c = c'
    | _, _ => False
    end.
  Proof.
    intros Habs Hndu Hall.
    pose proof (extend_refines cfg s0 (hm_collect (tm ++ am) ++ u) Habs) as He.
    unfold spec_tail.
    rewrite over_flag_app, (over_flag_nodup s0 _ (hm_collect_nodup (tm ++ am))), (over_flag_nodup _ u Hndu) in He.
    rewrite <- hm_collect_model_defs.
    assert (Hfl1 : existsb (SMS.replaces_other_kind SMS.lookup s0) (hm_collect (tm ++ am))
                  = existsb (fun e => conflict (sget s0 (fst e)) (snd e)) (hm_collect (tm ++ am))).
    { apply existsb_ext_in. intros e _. unfold SMS.replaces_other_kind, conflict. rewrite lookup_sget. reflexivity. }
    assert (Hkn : forall e, In e u -> exists m, SMS.last_def (tm ++ am) (fst e) = Some m).
    { intros e He'. rewrite forallb_forall in Hall. specialize (Hall e He'). unfold valid_b in Hall.
      rewrite hm_get_collect in Hall.
      destruct (SMS.last_def (tm ++ am) (fst e)) as [m|]; [exists m; reflexivity | discriminate]. }
    assert (Hfl2 : existsb (SMS.replaces_other_kind SMS.last_def (tm ++ am)) u
                  = existsb (fun e => conflict (sget (ins_all (hm_collect (tm ++ am)) s0) (fst e)) (snd e)) u).
    { apply existsb_ext_in. intros e He'. unfold SMS.replaces_other_kind, conflict.
      rewrite sget_ins_all, (last_def_nodup _ _ (hm_collect_nodup (tm ++ am))).
      change (sget (hm_collect (tm ++ am)) (fst e)) with (hm_get (hm_collect (tm ++ am)) (fst e)).
      rewrite hm_get_collect. destruct (Hkn e He') as [m ->]. reflexivity. }
    rewrite Hfl1, Hfl2.
    destruct (extend cfg (hm_collect (tm ++ am) ++ u)) as [c'|cl| |]; try contradiction.
    - destruct He as [Ha Hf]. rewrite Hf.
      pose proof (abs_nodup c' _ Ha) as Hnd'.
      rewrite (assoc_flat _ (SMS.final_feature s0 tm am u) Hnd') in Ha.
      + rewrite keys_ins_all, final_names_eq in Ha; [exact Ha|].
        intros e He'. destruct (Hkn e He') as [m Hm].
        destruct (in_dec string_dec (fst e) (map fst (tm ++ am))) as [Hi|Hni]; [exact Hi|].
        apply last_def_none in Hni. congruence.
      + intros k _. apply final_feature_eq. exact Hndu.
    - destruct He as [-> Hf]. rewrite Hf. reflexivity.
  Qed.

  (* SearchApp::build_search_instance (configured model extended by collect_features) refines the
     specification: same verdict, and on success the container represents exactly the specified list *)
  Theorem build_refines cfg (s0 : entries) tm am user :
    SAbs cfg s0 -> NoDup (map fst (user_entries user)) ->
    refines tm am (user_entries user) (build_search_instance cfg tm am user) (SMS.build s0 tm am user).
  Proof.
    intros Habs Hndu. unfold build_search_instance, collect_features.
    destruct user as [| |u0]; [| left; reflexivity |].
    - (* no state_features *)
      cbn [bind map collect_res user_entries]. rewrite added_is_collect.
      pose proof (build_valid cfg s0 tm am [] Habs (NoDup_nil _) eq_refl) as H.
      unfold SMS.build, refines. cbn [user_entries existsb]. unfold spec_tail in H. cbn [existsb] in H.
      destruct (extend cfg (hm_collect (tm ++ am) ++ [])) as [c'|cl| |]; try contradiction;
        destruct (existsb (SMS.replaces_other_kind SMS.lookup s0) (SMS.model_defs tm am) || false);
        try contradiction; [exact H | left; exact H].
    - cbn [bind user_entries] in *.
      pose proof (collect_validate (hm_collect (tm ++ am)) u0) as Hv.
      destruct (collect_res (map (validate_user (hm_collect (tm ++ am))) u0)) as [l'|cl| |]; try contradiction.
      + (* every override valid *)
        destruct Hv as [-> Hall]. cbn [bind]. rewrite added_is_collect.
        destruct (all_valid_no_invalid tm am u0 Hall) as [Hunk Hmis].
        pose proof (build_valid cfg s0 tm am u0 Habs Hndu Hall) as H.
        unfold SMS.build, refines. cbn [user_entries]. rewrite Hunk, Hmis. unfold spec_tail in H.
        destruct (extend cfg (hm_collect (tm ++ am) ++ u0)) as [c'|cl| |]; try contradiction;
          destruct (existsb (SMS.replaces_other_kind SMS.lookup s0) (SMS.model_defs tm am)
                    || existsb (SMS.replaces_other_kind SMS.last_def (tm ++ am)) u0);
          try contradiction; [exact H | left; exact H].
      + (* an invalid override *)
        destruct Hv as [e (Hin & Hinv & ->)]. cbn [bind]. unfold SMS.build, refines. cbn [user_entries].
        rewrite valid_b_spec in Hinv. rewrite hm_get_collect.
        unfold mixed_invalid.
        destruct (existsb (SMS.unknown_override tm am) u0) eqn:Eu.
        * destruct (SMS.last_def (tm ++ am) (fst e)) as [m|] eqn:El; [|left; reflexivity].
          right. cbn [andb]. apply (existsb_in_true _ _ e Hin).
          unfold SMS.unknown_override in Hinv. rewrite El in Hinv. cbn [negb andb] in Hinv.
          apply negb_false_iff in Hinv. exact Hinv.
        * assert (Hue : SMS.unknown_override tm am e = false).
          { destruct (SMS.unknown_override tm am e) eqn:E; [|reflexivity].
            rewrite (existsb_in_true _ _ e Hin E) in Eu. discriminate. }
          rewrite Hue in Hinv. cbn [negb andb] in Hinv. apply negb_false_iff in Hinv.
          rewrite (existsb_in_true _ _ e Hin Hinv).
          unfold SMS.unknown_override in Hue.
          destruct (SMS.last_def (tm ++ am) (fst e)); [left; reflexivity | discriminate].
  Qed.
End Build.
