(* C11, state-model part 1: the per-query state model built by the code
     (StateModel::new, collect_features, StateModel::extend, SearchApp::build_search_instance,
      modelled in Model/StateModel.v on top of the container model CM)
   refines the specification of Model/StateModelSpec.v (association lists over the declaration lists).

   Structure
     A. association lists with replace-or-append insertion, folded over a declaration list:
        keys = the names in order of first declaration, lookup = the last definition
     B. collect_features: the `added_features` loop returns the HashMap's content in declaration order;
        validation of the user's entries
     C. extend: refinement through the container (Proofs/CompactMap.v: abs_insert, abs_iter, abs_from_iter)
        and the overwrite flag
     D. build_search_instance refines SMS.build *)
From Coq Require Import List Arith Bool Lia String ZArith.
From RC Require Import Base.Num Base.Res Model.Units Model.CompactMap Model.StateModel Model.StateModelSpec
     Proofs.CompactMap.
Import ListNotations.
Import SM.

Notation sget := (CM.s_get String.eqb).
Notation sins := (CM.s_ins String.eqb).
Notation sidx := (CM.s_index String.eqb).
Notation SAbs := (Abs (K := string)).

Definition ins_all {V} (l s : list (string * V)) : list (string * V) :=
  fold_left (fun s kv => sins s (fst kv) (snd kv)) l s.

Lemma seqb_refl (a : string) : String.eqb a a = true.
Proof. apply String.eqb_refl. Qed.
Lemma seqb_sym (a b : string) : String.eqb a b = String.eqb b a.
Proof. apply String.eqb_sym. Qed.

(* ------------------------------------------------------------------------------------------ A *)
Section Names.
  Lemma existsb_eqb_in (k : string) (l : list string) : existsb (String.eqb k) l = true <-> In k l.
  Proof.
    rewrite existsb_exists. split.
    - intros [x [Hin Hx]]. apply String.eqb_eq in Hx. subst x. exact Hin.
    - intros Hin. exists k. split; [exact Hin | apply seqb_refl].
  Qed.

  Lemma add_name_in (l : list string) (k : string) : In k l -> SMS.add_name l k = l.
  Proof. intros H. unfold SMS.add_name. rewrite (proj2 (existsb_eqb_in k l) H). reflexivity. Qed.

  Lemma add_name_notin (l : list string) (k : string) : ~ In k l -> SMS.add_name l k = l ++ [k].
  Proof.
    intros H. unfold SMS.add_name. destruct (existsb (String.eqb k) l) eqn:E; [|reflexivity].
    apply existsb_eqb_in in E. contradiction.
  Qed.

  Lemma in_add_name (l : list string) (k x : string) : In x (SMS.add_name l k) <-> In x l \/ x = k.
  Proof.
    destruct (in_dec string_dec k l) as [Hin|Hnin].
    - rewrite add_name_in by exact Hin. split; [tauto|]. intros [H|H]; [exact H | subst; exact Hin].
    - rewrite add_name_notin by exact Hnin. rewrite in_app_iff. cbn [In]. intuition.
  Qed.

  Lemma in_fold_add (L K : list string) (x : string) :
    In x (fold_left SMS.add_name L K) <-> In x K \/ In x L.
  Proof.
    revert K. induction L as [|k L IH]; intros K; cbn [fold_left In]; [tauto|].
    rewrite IH, in_add_name. intuition.
  Qed.

  Lemma nodup_snoc {X} (l : list X) (k : X) : NoDup l -> ~ In k l -> NoDup (l ++ [k]).
  Proof.
    induction l as [|a r IH]; cbn [app]; intros Hnd Hnin.
    - constructor; [intros [] | constructor].
    - inversion Hnd as [|x y Ha Hr]; subst x y. constructor.
      + rewrite in_app_iff. cbn [In]. intros [H|[H|[]]]; [exact (Ha H)|]. apply Hnin. left. exact H.
      + apply IH; [exact Hr|]. intros H. apply Hnin. right. exact H.
  Qed.

  Lemma nodup_add_name (l : list string) (k : string) : NoDup l -> NoDup (SMS.add_name l k).
  Proof.
    intros Hnd. destruct (in_dec string_dec k l) as [Hin|Hnin].
    - rewrite add_name_in by exact Hin. exact Hnd.
    - rewrite add_name_notin by exact Hnin. apply nodup_snoc; assumption.
  Qed.
End Names.
