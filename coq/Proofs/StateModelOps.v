(* C11, state-model part 3: the accessors.  Reading or updating a feature by name touches the slot of that
   name only, and a value written in some unit and read back in the same unit went through the feature's
   unit and back: exactly itself when the units are equal, within C09's round-trip bound otherwise. *)
From Coq Require Import List Arith Bool Lia String ZArith QArith Qabs Lqa.
From RC Require Import Base.Num Base.Res Model.Units Model.UnitsRun Model.CompactMap Model.StateModel
     Model.StateModelSpec Proofs.CompactMap Proofs.Units Proofs.StateModelBuild.
Import ListNotations.
Import SM.

Local Notation kspec := String.eqb_spec.
Local Open Scope nat_scope.

Ltac inv_bind H :=
  match type of H with
  | context [bind ?r _] =>
      let E := fresh "E" in destruct r eqn:E; cbn [bind] in H; try discriminate H
  end.

Section SetNth.
  Context {X : Type}.
  Lemma set_nth_length (l : list X) i v : List.length (set_nth l i v) = List.length l.
  Proof. revert i. induction l as [|a r IH]; intros [|i]; cbn [set_nth List.length]; try reflexivity. rewrite IH. reflexivity. Qed.
  Lemma set_nth_same (l : list X) i v : i < List.length l -> nth_error (set_nth l i v) i = Some v.
  Proof.
    revert i. induction l as [|a r IH]; intros [|i]; cbn [set_nth List.length nth_error]; try lia; try reflexivity.
    intros H. apply IH. lia.
  Qed.
  Lemma set_nth_other (l : list X) i j v : j <> i -> nth_error (set_nth l i v) j = nth_error l j.
  Proof.
    revert i j. induction l as [|a r IH]; intros [|i] [|j] H; cbn [set_nth nth_error]; try reflexivity; try lia.
    apply IH. lia.
  Qed.
End SetNth.

Section Frame.
  Variable N : Num.
  Variable trunc : N -> Z.
  Local Notation entries := (list (string * feature N)).
  Implicit Types (sm : smodel N) (st : list N) (name : string).

  Lemma update_state_inv sm st name v st' :
    update_state N sm st name v = Ok st' ->
    exists i, get_index sm name = Some i /\ i < List.length st /\ st' = set_nth st i v.
  Proof.
    unfold update_state, get_index. destruct (CM.get_index String.eqb sm name) as [i|]; [|discriminate].
    destruct (nth_error st i) eqn:E; [|discriminate]. intros H. injection H as <-.
    exists i. repeat split. apply nth_error_Some. rewrite E. discriminate.
  Qed.

  Lemma update_state_ok sm st name v i :
    get_index sm name = Some i -> i < List.length st -> update_state N sm st name v = Ok (set_nth st i v).
  Proof.
    unfold update_state, get_index. intros -> Hi. destruct (nth_error st i) eqn:E; [reflexivity|].
    apply nth_error_None in E. lia.
  Qed.

  Section Family.
    Context {U : Type} (unit_of : feature N -> res U) (conv : U -> U -> N -> N).

    Lemma set_with_inv sm st name x u st' :
      set_with N unit_of conv sm st name x u = Ok st' ->
      exists f fu i, get_feature N sm name = Ok f /\ unit_of f = Ok fu /\ get_index sm name = Some i
                     /\ i < List.length st /\ st' = set_nth st i (conv u fu x).
    Proof.
      unfold set_with. intros H. inv_bind H. inv_bind H.
      destruct (update_state_inv _ _ _ _ _ H) as [i (Hi & Hl & ->)].
      eexists _, _, i. repeat split; eassumption.
    Qed.

    Lemma get_with_ok sm st name u f fu i v :
      get_feature N sm name = Ok f -> unit_of f = Ok fu -> get_index sm name = Some i ->
      nth_error st i = Some v -> get_with N unit_of conv sm st name u = Ok (conv fu u v).
    Proof.
      intros Hf Hu Hi Hv. unfold get_with, get_state_variable. unfold get_index in Hi. rewrite Hi, Hv. cbn [bind].
      rewrite Hf. cbn [bind]. rewrite Hu. reflexivity.
    Qed.

    Lemma get_with_inv sm st name u y :
      get_with N unit_of conv sm st name u = Ok y ->
      exists f fu i v, get_feature N sm name = Ok f /\ unit_of f = Ok fu /\ get_index sm name = Some i
                       /\ nth_error st i = Some v /\ y = conv fu u v.
    Proof.
      unfold get_with, get_state_variable, get_index. intros H.
      destruct (CM.get_index String.eqb sm name) as [i|]; [|discriminate].
      destruct (nth_error st i) as [v|] eqn:Ev; [|discriminate]. cbn [bind] in H.
      inv_bind H. inv_bind H. injection H as <-. eexists _, _, i, v. repeat split; eassumption.
    Qed.

    Lemma add_with_inv sm st name x u st' :
      add_with N unit_of conv sm st name x u = Ok st' ->
      exists f fu i v, get_feature N sm name = Ok f /\ unit_of f = Ok fu /\ get_index sm name = Some i
                       /\ nth_error st i = Some v
                       /\ st' = set_nth st i (conv fu fu (add (conv fu fu v) (conv u fu x))).
    Proof.
      unfold add_with. intros H.
      destruct (get_feature N sm name) as [f|c|w|] eqn:Hf; cbn [bind] in H; try discriminate H.
      destruct (unit_of f) as [fu|c|w|] eqn:Hu; cbn [bind] in H; try discriminate H.
      destruct (get_with N unit_of conv sm st name fu) as [prev|c|w|] eqn:Hp; cbn [bind] in H; try discriminate H.
      destruct (get_with_inv _ _ _ _ _ Hp) as (f' & fu' & i & v & Hf' & Hu' & Hi & Hv & ->).
      destruct (set_with_inv _ _ _ _ _ _ H) as (f'' & fu'' & i' & Hf'' & Hu'' & Hi' & Hl & ->).
      assert (f' = f) by congruence. subst f'. assert (f'' = f) by congruence. subst f''.
      assert (fu' = fu) by congruence. assert (fu'' = fu) by congruence. subst fu' fu''.
      assert (i' = i) by congruence. subst i'.
      exists f, fu, i, v. repeat split; assumption.
    Qed.

    (* only the slot of the name changes *)
    Theorem set_frame sm st name x u st' :
      set_with N unit_of conv sm st name x u = Ok st' ->
      exists i, get_index sm name = Some i /\ List.length st' = List.length st
                /\ forall j, j <> i -> nth_error st' j = nth_error st j.
    Proof.
      intros H. destruct (set_with_inv _ _ _ _ _ _ H) as (f & fu & i & _ & _ & Hi & _ & ->).
      exists i. split; [exact Hi|]. split; [apply set_nth_length|]. intros j Hj. apply set_nth_other. exact Hj.
    Qed.

    Theorem add_frame sm st name x u st' :
      add_with N unit_of conv sm st name x u = Ok st' ->
      exists i, get_index sm name = Some i /\ List.length st' = List.length st
                /\ forall j, j <> i -> nth_error st' j = nth_error st j.
    Proof.
      intros H. destruct (add_with_inv _ _ _ _ _ _ H) as (f & fu & i & v & _ & _ & Hi & _ & ->).
      exists i. split; [exact Hi|]. split; [apply set_nth_length|]. intros j Hj. apply set_nth_other. exact Hj.
    Qed.
  End Family.

  Theorem set_custom_frame {X} (enc : fmt N -> X -> res N) sm st name (x : X) st' :
    set_custom_with N enc sm st name x = Ok st' ->
    exists i, get_index sm name = Some i /\ List.length st' = List.length st
              /\ forall j, j <> i -> nth_error st' j = nth_error st j.
  Proof.
    unfold set_custom_with. intros H. inv_bind H. inv_bind H. inv_bind H.
    destruct (update_state_inv _ _ _ _ _ H) as [i (Hi & _ & ->)].
    exists i. split; [exact Hi|]. split; [apply set_nth_length|]. intros j Hj. apply set_nth_other. exact Hj.
  Qed.

  (* a state vector that differs from another one only at the slot of [name] reads the same for every
     other name *)
  Theorem other_names_unchanged sm (s : entries) st st' name i name' :
    SAbs sm s -> get_index sm name = Some i -> name' <> name ->
    (forall j, j <> i -> nth_error st' j = nth_error st j) ->
    get_state_variable N sm st' name' = get_state_variable N sm st name'.
  Proof.
    intros Ha Hi Hne Hfr. unfold get_state_variable. unfold get_index in Hi.
    destruct (CM.get_index String.eqb sm name') as [j|] eqn:Ej; [|reflexivity].
    rewrite Hfr; [reflexivity|]. intros ->. apply Hne.
    rewrite (abs_get_index String.eqb kspec sm s name Ha) in Hi.
    rewrite (abs_get_index String.eqb kspec sm s name' Ha) in Ej.
    exact (s_index_inj String.eqb kspec s name' name i Ej Hi).
  Qed.

  Corollary other_reading_unchanged {U} (unit_of : feature N -> res U) (conv : U -> U -> N -> N)
            sm (s : entries) st st' name i name' u :
    SAbs sm s -> get_index sm name = Some i -> name' <> name ->
    (forall j, j <> i -> nth_error st' j = nth_error st j) ->
    get_with N unit_of conv sm st' name' u = get_with N unit_of conv sm st name' u.
  Proof.
    intros Ha Hi Hne Hfr. unfold get_with. rewrite (other_names_unchanged sm s st st' name i name' Ha Hi Hne Hfr).
    reflexivity.
  Qed.

  (* ---- the name is not in the model / the feature is of another family ---- *)
  Lemma get_none_of_index sm (s : entries) name :
    SAbs sm s -> get_index sm name = None -> CM.get String.eqb sm name = None.
  Proof.
    intros Ha Hi. unfold get_index in Hi. rewrite (abs_get_index String.eqb kspec sm s name Ha) in Hi.
    rewrite (abs_get String.eqb kspec sm s name Ha). apply (s_index_get String.eqb). exact Hi.
  Qed.

  Theorem unknown_name_accessors {U} (unit_of : feature N -> res U) (conv : U -> U -> N -> N)
          {X} (enc : fmt N -> X -> res N) sm (s : entries) st name u x (cx : X) :
    SAbs sm s -> get_index sm name = None ->
    get_with N unit_of conv sm st name u = Err err_unknown
    /\ set_with N unit_of conv sm st name x u = Err err_unknown
    /\ add_with N unit_of conv sm st name x u = Err err_unknown
    /\ get_custom_state_variable N sm st name = Err err_unknown
    /\ set_custom_with N enc sm st name cx = Err err_unknown.
  Proof.
    intros Ha Hi. pose proof (get_none_of_index sm s name Ha Hi) as Hg. unfold get_index in Hi.
    unfold get_with, set_with, add_with, get_custom_state_variable, set_custom_with, get_state_variable, get_feature.
    rewrite Hi, Hg. repeat split; reflexivity.
  Qed.

  Theorem wrong_family_accessors {U} (unit_of : feature N -> res U) (conv : U -> U -> N -> N)
          sm st name f c u x :
    get_feature N sm name = Ok f -> unit_of f = Err c ->
    set_with N unit_of conv sm st name x u = Err c
    /\ add_with N unit_of conv sm st name x u = Err c
    /\ (forall v, get_state_variable N sm st name = Ok v -> get_with N unit_of conv sm st name u = Err c).
  Proof.
    intros Hf Hu. unfold set_with, add_with, get_with. rewrite Hf. cbn [bind]. rewrite Hu. cbn [bind].
    repeat split. intros v Hv. rewrite Hv. reflexivity.
  Qed.
End Frame.

(* ------------------------------------------------------------------ round trips, exact rationals *)
Local Open Scope Q_scope.
Section RoundTrip.
  Context {U : Type} (unit_of : feature QN -> res U) (conv : U -> U -> Q -> Q) (kf : U -> U -> Q).
  Hypothesis conv_factor : forall u v x, conv u v x == x * kf u v.
  Hypothesis conv_id : forall u x, conv u u x == x.
  Hypothesis conv_roundtrip : forall u v x, Qabs (conv v u (conv u v x) - x) <= UnitsRun.tol * Qabs x.
  Implicit Types (sm : smodel QN) (st : list Q) (name : string).

  (* set in unit u, then get in unit u: the value went to the feature's unit fu and back *)
  Theorem get_set_roundtrip_gen sm st name (x : Q) u st' :
    set_with QN unit_of conv sm st name x u = Ok st' ->
    exists f fu y, get_feature QN sm name = Ok f /\ unit_of f = Ok fu
      /\ get_with QN unit_of conv sm st' name u = Ok y
      /\ y = conv fu u (conv u fu x)
      /\ y == x * kf u fu * kf fu u
      /\ Qabs (y - x) <= UnitsRun.tol * Qabs x
      /\ (u = fu -> y == x).
  Proof.
    intros H. destruct (set_with_inv QN unit_of conv _ _ _ _ _ _ H) as (f & fu & i & Hf & Hu & Hi & Hl & ->).
    exists f, fu, (conv fu u (conv u fu x)). split; [exact Hf|]. split; [exact Hu|]. split.
    - apply (get_with_ok QN unit_of conv _ _ _ _ f fu i); try assumption. apply set_nth_same. exact Hl.
    - split; [reflexivity|]. split; [rewrite (conv_factor fu u (conv u fu x)), (conv_factor u fu x); reflexivity|]. split; [apply conv_roundtrip|].
      intros ->. rewrite !conv_id. reflexivity.
  Qed.

  Lemma kf_id u : kf u u == 1.
  Proof. pose proof (conv_factor u u 1) as H. rewrite conv_id in H. rewrite H. ring. Qed.

  (* add in unit u, read in unit u before and after: after = before + increment, up to the round trip of the
     increment through the feature's unit *)
  Theorem get_after_add_gen sm st name (dx : Q) u st' y0 :
    add_with QN unit_of conv sm st name dx u = Ok st' ->
    get_with QN unit_of conv sm st name u = Ok y0 ->
    exists fu y1, get_with QN unit_of conv sm st' name u = Ok y1
      /\ y1 == y0 + dx * kf u fu * kf fu u
      /\ Qabs (y1 - (y0 + dx)) <= UnitsRun.tol * Qabs dx
      /\ (u = fu -> y1 == y0 + dx).
  Proof.
    intros Ha Hg.
    destruct (add_with_inv QN unit_of conv _ _ _ _ _ _ Ha) as (f & fu & i & v & Hf & Hu & Hi & Hv & ->).
    destruct (get_with_inv QN unit_of conv _ _ _ _ _ Hg) as (f' & fu' & i' & v' & Hf' & Hu' & Hi' & Hv' & ->).
    assert (f' = f) by congruence. subst f'. assert (fu' = fu) by congruence. subst fu'.
    assert (i' = i) by congruence. subst i'. assert (v' = v) by congruence. subst v'.
    exists fu. eexists. split.
    - apply (get_with_ok QN unit_of conv _ _ _ _ f fu i); try assumption. apply set_nth_same.
      apply nth_error_Some. rewrite Hv. discriminate.
    - cbn [add QN].
      assert (E1 : conv fu u (conv fu fu (conv fu fu v + conv u fu dx)) == conv fu u v + conv fu u (conv u fu dx)).
      { rewrite (conv_factor fu u (conv fu fu (conv fu fu v + conv u fu dx))).
        rewrite (conv_factor fu fu (conv fu fu v + conv u fu dx)).
        rewrite (conv_factor fu fu v), (conv_factor fu u (conv u fu dx)), (conv_factor fu u v), (kf_id fu). ring. }
      split; [rewrite E1, (conv_factor fu u (conv u fu dx)), (conv_factor u fu dx); ring|]. split.
      + assert (E2 : conv fu u (conv fu fu (conv fu fu v + conv u fu dx)) - (conv fu u v + dx)
                     == conv fu u (conv u fu dx) - dx) by (rewrite E1; ring).
        rewrite E2. apply conv_roundtrip.
      + intros ->. rewrite E1, !conv_id. reflexivity.
  Qed.
End RoundTrip.

(* the three families *)
Import Units.
Definition get_set_roundtrip_distance :=
  get_set_roundtrip_gen (get_distance_unit QN) (convert_distance QN) k_dist convert_distance_factor convert_distance_id
                        convert_distance_roundtrip.
Definition get_set_roundtrip_time :=
  get_set_roundtrip_gen (get_time_unit QN) (convert_time QN) k_time convert_time_factor convert_time_id convert_time_roundtrip.
Definition get_set_roundtrip_energy :=
  get_set_roundtrip_gen (get_energy_unit QN) (convert_energy QN) k_energy convert_energy_factor convert_energy_id
                        convert_energy_roundtrip.
Definition get_after_add_distance :=
  get_after_add_gen (get_distance_unit QN) (convert_distance QN) k_dist convert_distance_factor convert_distance_id
                    convert_distance_roundtrip.
Definition get_after_add_time :=
  get_after_add_gen (get_time_unit QN) (convert_time QN) k_time convert_time_factor convert_time_id convert_time_roundtrip.
Definition get_after_add_energy :=
  get_after_add_gen (get_energy_unit QN) (convert_energy QN) k_energy convert_energy_factor convert_energy_id
                    convert_energy_roundtrip.

(* ---- custom codecs: what is written is what is read ---- *)
Section Custom.
  Implicit Types (sm : smodel QN) (st : list QN) (name : string).
  Local Open Scope Z_scope.

  Lemma trunc_Q_inject (z : Z) : trunc_Q (inject_Z z) = z.
  Proof. unfold trunc_Q, inject_Z. cbn [Qnum Qden]. apply Z.quot_1_r. Qed.

  Lemma clamp_id lo hi z : lo <= z <= hi -> clamp lo hi z = z.
  Proof.
    intros [H1 H2]. unfold clamp. destruct (Z.ltb_spec z lo); [lia|]. destruct (Z.ltb_spec hi z); [lia | reflexivity].
  Qed.

  Lemma custom_inv {X} (enc : fmt QN -> X -> res Q) sm st name (x : X) st' :
    set_custom_with QN enc sm st name x = Ok st' ->
    exists ty un fm v i, get_feature QN sm name = Ok (FCustom ty un fm) /\ enc fm x = Ok v
                         /\ get_index sm name = Some i /\ (i < List.length st)%nat /\ st' = set_nth st i v.
  Proof.
    unfold set_custom_with. intros H. inv_bind H. inv_bind H. inv_bind H.
    destruct (update_state_inv QN _ _ _ _ _ H) as [i (Hi & Hl & ->)].
    destruct a as [| | |ty un fm0]; try discriminate E0. injection E0 as ->.
    exists ty, un, a0, a1, i. repeat split; assumption.
  Qed.

  Lemma custom_read sm st name ty un fm i v :
    get_feature QN sm name = Ok (FCustom ty un fm) -> get_index sm name = Some i -> nth_error st i = Some v ->
    get_custom_state_variable QN sm st name = Ok (v, fm).
  Proof.
    intros Hf Hi Hv. unfold get_custom_state_variable, get_state_variable. unfold get_index in Hi.
    rewrite Hi, Hv. cbn [bind]. rewrite Hf. reflexivity.
  Qed.

  (* ---- `as f64` on an integer, computed on Z ---- *)
  Lemma round53_small z : Z.abs z <= 2 ^ 53 -> round53 z = z.
  Proof.
    intros H. unfold round53. destruct (Z.ltb_spec (Z.abs z) (2 ^ 53)) as [Hlt|Hge]; [reflexivity|].
    assert (Ha : Z.abs z = 2 ^ 53) by lia.
    destruct (Z.abs_eq_or_opp z) as [E|E]; rewrite E in Ha.
    - subst z. reflexivity.
    - assert (z = - 2 ^ 53) by lia. subst z. reflexivity.
  Qed.

  Lemma round53_nonneg z : 0 <= z -> 0 <= round53 z.
  Proof.
    intros H. unfold round53. destruct (Z.ltb (Z.abs z) (2 ^ 53)); [exact H|].
    apply Z.mul_nonneg_nonneg; [apply Z.sgn_nonneg; exact H|].
    apply Z.mul_nonneg_nonneg; [|apply Z.pow_nonneg; lia].
    assert (Hq : 0 <= Z.shiftr (Z.abs z) (Z.log2 (Z.abs z) - 52)) by (apply Z.shiftr_nonneg; lia).
    destruct (_ || _); lia.
  Qed.

  (* what is written through a codec is what is read back: floats and booleans exactly; an integer as the
     code's two casts leave it - rounded to 53 significant bits by `as f64` (ties to even), then saturated to the
     range of its type by `as i64` / `as u64` - hence exactly for |z| <= 2^53, and the MAX / MIN sentinels survive *)
  Theorem custom_roundtrip sm st name st' :
    (forall x : Q, set_custom_f64 QN sm st name x = Ok st' -> get_custom_f64 QN sm st' name = Ok x)
    /\ (forall z, set_custom_i64 QN of_int_Q sm st name z = Ok st' ->
                  get_custom_i64 QN trunc_Q sm st' name = Ok (clamp i64_min i64_max (round53 z)))
    /\ (forall z, 0 <= z -> set_custom_u64 QN of_int_Q sm st name z = Ok st' ->
                  get_custom_u64 QN trunc_Q sm st' name = Ok (clamp 0 u64_max (round53 z)))
    /\ (forall b, set_custom_bool QN sm st name b = Ok st' -> get_custom_bool QN sm st' name = Ok b).
  Proof.
    repeat split.
    - intros x H. destruct (custom_inv _ _ _ _ _ _ H) as (ty & un & fm & v & i & Hf & He & Hi & Hl & ->).
      unfold get_custom_f64. rewrite (custom_read _ _ _ ty un fm i v Hf Hi (set_nth_same _ _ _ Hl)). cbn [bind fst snd].
      destruct fm; try discriminate He. injection He as <-. reflexivity.
    - intros z H. destruct (custom_inv _ _ _ _ _ _ H) as (ty & un & fm & v & i & Hf & He & Hi & Hl & ->).
      unfold get_custom_i64. rewrite (custom_read _ _ _ ty un fm i v Hf Hi (set_nth_same _ _ _ Hl)). cbn [bind fst snd].
      destruct fm; try discriminate He. injection He as <-. cbn [decode_i64]. unfold of_int_Q.
      rewrite trunc_Q_inject. reflexivity.
    - intros z Hz H. destruct (custom_inv _ _ _ _ _ _ H) as (ty & un & fm & v & i & Hf & He & Hi & Hl & ->).
      unfold get_custom_u64. rewrite (custom_read _ _ _ ty un fm i v Hf Hi (set_nth_same _ _ _ Hl)). cbn [bind fst snd].
      destruct fm; try discriminate He. injection He as <-. cbn [decode_u64 ltb zero QN]. unfold of_int_Q.
      assert (Hlt : Qltb (inject_Z (round53 z)) 0 = false).
      { unfold Qltb. apply negb_false_iff. apply Qle_bool_iff. change 0%Q with (inject_Z 0). rewrite <- Zle_Qle.
        apply round53_nonneg. exact Hz. }
      rewrite Hlt, trunc_Q_inject. reflexivity.
    - intros b H. destruct (custom_inv _ _ _ _ _ _ H) as (ty & un & fm & v & i & Hf & He & Hi & Hl & ->).
      unfold get_custom_bool. rewrite (custom_read _ _ _ ty un fm i v Hf Hi (set_nth_same _ _ _ Hl)). cbn [bind fst snd].
      destruct fm; try discriminate He. injection He as <-. destruct b; reflexivity.
  Qed.

  Lemma i64_small z : Z.abs z <= 2 ^ 53 -> clamp i64_min i64_max (round53 z) = z.
  Proof.
    intros H. rewrite (round53_small z H). apply clamp_id. unfold i64_min, i64_max.
    change (2 ^ 53) with 9007199254740992 in H. change (2 ^ 63) with 9223372036854775808. lia.
  Qed.
  Lemma u64_small z : 0 <= z <= 2 ^ 53 -> clamp 0 u64_max (round53 z) = z.
  Proof.
    intros H. rewrite (round53_small z) by lia. apply clamp_id. unfold u64_max.
    change (2 ^ 53) with 9007199254740992 in H. change (2 ^ 64) with 18446744073709551616. lia.
  Qed.

  (* the top and the bottom of the ranges, as the code computes them *)
  Lemma range_ends :
    clamp 0 u64_max (round53 u64_max) = u64_max                       (* u64::MAX as f64 = 2^64, 2^64 as u64 = u64::MAX *)
    /\ clamp i64_min i64_max (round53 i64_max) = i64_max             (* i64::MAX as f64 = 2^63, saturates back *)
    /\ clamp i64_min i64_max (round53 i64_min) = i64_min
    /\ round53 (2 ^ 53 + 1) = 2 ^ 53 /\ round53 (2 ^ 53 + 3) = 2 ^ 53 + 4      (* ties to even *)
    /\ clamp 0 u64_max (round53 (u64_max - 1024)) = u64_max - 2047    (* below the last rounding boundary *)
    /\ clamp 0 u64_max (round53 (u64_max - 1023)) = u64_max.
  Proof. repeat split; vm_compute; reflexivity. Qed.
End Custom.
