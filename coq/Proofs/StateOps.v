(* Lemmas about Model/StateOps.v in exact rationals (instance QN): what add_distance / add_time do to a state
   vector, slot by slot.  Used by Proofs/Traversal.v (property C03). *)
From Coq Require Import ZArith QArith List String Bool Lia.
From RC Require Import Base.Num Base.Res Model.Units Model.StateOps.
Import ListNotations.
Import Units StateOps.

(* ---- slots ---- *)
Lemma get_index_lt : forall {A} (sm : smodel A) n i, get_index sm n = Some i -> (i < List.length sm)%nat.
Proof.
  intros A sm; induction sm as [|[m f] r IH]; intros n i H; cbn in H; [discriminate|].
  destruct (String.eqb m n).
  - inversion H; subst; cbn; lia.
  - destruct (get_index r n) as [j|] eqn:E; [|discriminate]. inversion H; subst. cbn. apply IH in E. lia.
Qed.

Lemma get_index_inj : forall {A} (sm : smodel A) a b i,
  get_index sm a = Some i -> get_index sm b = Some i -> a = b.
Proof.
  intros A sm; induction sm as [|[m f] r IH]; intros a b i Ha Hb; cbn in Ha, Hb; [discriminate|].
  destruct (String.eqb m a) eqn:Ea, (String.eqb m b) eqn:Eb.
  - apply String.eqb_eq in Ea, Eb. congruence.
  - inversion Ha; subst. destruct (get_index r b); inversion Hb.
  - inversion Hb; subst. destruct (get_index r a); inversion Ha.
  - destruct (get_index r a) as [ja|] eqn:Ja; [|discriminate].
    destruct (get_index r b) as [jb|] eqn:Jb; [|discriminate].
    inversion Ha; inversion Hb; subst. apply (IH a b ja Ja). rewrite Jb. f_equal. lia.
Qed.

Lemma length_set_nth : forall {A} (l : list A) i v, List.length (set_nth l i v) = List.length l.
Proof. intros A l; induction l as [|x r IH]; intros [|i] v; cbn; auto. Qed.

Lemma nth_set_nth_eq : forall {A} (l : list A) i v d, (i < List.length l)%nat -> nth i (set_nth l i v) d = v.
Proof.
  intros A l; induction l as [|x r IH]; intros [|i] v d H; cbn in *; try lia; auto. apply IH. lia.
Qed.

Lemma nth_set_nth_neq : forall {A} (l : list A) i j v d, i <> j -> nth j (set_nth l i v) d = nth j l d.
Proof.
  intros A l; induction l as [|x r IH]; intros [|i] [|j] v d H; cbn; auto; try lia.
Qed.

Lemma nth_error_nth_lt : forall {A} (l : list A) i d, (i < List.length l)%nat -> nth_error l i = Some (nth i l d).
Proof.
  intros A l; induction l as [|x r IH]; intros [|i] d H; cbn in *; try lia; auto. apply IH. lia.
Qed.

Lemma nth_error_None_ge : forall {A} (l : list A) i, nth_error l i = None -> (List.length l <= i)%nat.
Proof. intros A l i H. apply nth_error_None. exact H. Qed.

(* ---- identity arms of the regenerated table, syntactically ---- *)
Lemma convert_distance_same : forall u (x : Q), convert_distance QN u u x = x.
Proof. intros u x; destruct u; reflexivity. Qed.
Lemma convert_time_same : forall u (x : Q), convert_time QN u u x = x.
Proof. intros u x; destruct u; reflexivity. Qed.
Lemma convert_energy_same : forall u (x : Q), convert_energy QN u u x = x.
Proof. intros u x; destruct u; reflexivity. Qed.

(* ---- the three adds: on a feature of the right kind, the slot becomes  old + convert(increment) ---- *)
Section Adds.
  Variable sm : smodel Q.
  Variable st : list Q.
  Variable name : string.
  Variable i : nat.
  Hypothesis Hidx : get_index sm name = Some i.

  Lemma add_distance_eq : forall fu init (d : Q) from,
    lookup_feature sm name = Some (FDistance fu init) ->
    add_distance QN sm st name d from =
      match nth_error st i with
      | Some v => Ok (set_nth st i (v + convert_distance QN from fu d)%Q)
      | None => Err err_runtime
      end.
  Proof.
    intros fu init d from Hf.
    unfold add_distance, get_distance, set_distance, get_feature, get_state_variable, update_state.
    change (T QN) with Q. rewrite Hf, Hidx. cbn [bind get_distance_unit].
    destruct (nth_error st i) as [v|] eqn:E; cbn [bind]; [|reflexivity].
    rewrite !convert_distance_same. cbn [add QN]. reflexivity.
  Qed.

  Lemma add_time_eq : forall fu init (t : Q) from,
    lookup_feature sm name = Some (FTime fu init) ->
    add_time QN sm st name t from =
      match nth_error st i with
      | Some v => Ok (set_nth st i (v + convert_time QN from fu t)%Q)
      | None => Err err_runtime
      end.
  Proof.
    intros fu init t from Hf.
    unfold add_time, get_time, set_time, get_feature, get_state_variable, update_state.
    change (T QN) with Q. rewrite Hf, Hidx. cbn [bind get_time_unit].
    destruct (nth_error st i) as [v|] eqn:E; cbn [bind]; [|reflexivity].
    rewrite !convert_time_same. cbn [add QN]. reflexivity.
  Qed.

  Lemma add_energy_eq : forall fu init (e : Q) from,
    lookup_feature sm name = Some (FEnergy fu init) ->
    add_energy QN sm st name e from =
      match nth_error st i with
      | Some v => Ok (set_nth st i (v + convert_energy QN from fu e)%Q)
      | None => Err err_runtime
      end.
  Proof.
    intros fu init e from Hf.
    unfold add_energy, get_energy, set_energy, get_feature, get_state_variable, update_state.
    change (T QN) with Q. rewrite Hf, Hidx. cbn [bind get_energy_unit].
    destruct (nth_error st i) as [v|] eqn:E; cbn [bind]; [|reflexivity].
    rewrite !convert_energy_same. cbn [add QN]. reflexivity.
  Qed.
End Adds.

(* the declared initial state has one slot per feature *)
Lemma initial_state_length : forall {A} (sm : smodel A), List.length (initial_state sm) = List.length sm.
Proof. intros A sm. unfold initial_state. apply map_length. Qed.

(* a feature's slot in the initial state holds the feature's declared initial value *)
Lemma initial_state_slot : forall {A} (sm : smodel A) n i f (d : A),
  get_index sm n = Some i -> lookup_feature sm n = Some f -> nth i (initial_state sm) d = feature_initial f.
Proof.
  intros A sm; induction sm as [|[m g] r IH]; intros n i f d Hi Hf; cbn in Hi, Hf; [discriminate|].
  destruct (String.eqb m n).
  - inversion Hi; inversion Hf; subst. reflexivity.
  - destruct (get_index r n) as [j|] eqn:E; [|discriminate]. inversion Hi; subst. cbn. apply (IH n j f d E Hf).
Qed.
