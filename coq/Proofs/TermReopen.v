(* TERMINATION of the search loop of Model/Search.v when vertices can be re-opened
   (A-star with an inconsistent estimate, weight factor > 1, any queue policy).

   Hypotheses: edge-local costs ([cfloor (cadd ac tc) = ecost e] for every successful traversal of e in the search
   direction), label + edge cost >= label, [le a b := clt b a = false] a total preorder (C05's Hasym / Hletrans).
   NOTHING is assumed about the estimate, the frontier model, the termination model or which entry the queue hands
   out, except that these parameters do not themselves answer OutOfFuel.

   Ghost invariant [GI gm hist]: [hist] is a duplicate-free, prefix-closed list of SIMPLE paths from the source
   (edge-id lists, last edge first); every label gm(v) is the cost (the fold of cadd the loop performs) of a path of
   [hist] ending in v, and every path of [hist] ending in v costs at least gm(v).  A relaxation that relabels kv
   through the edge e out of tv extends the path p that carries tv's label: e :: p
     - is simple: were kv on p, the prefix q of p up to kv is in hist, so gm(kv) <= cost q <= cost p <= tentative,
       against the strict test;
     - is new: every path of hist ending in kv costs >= gm(kv) > tentative = cost (e :: p).
   So every relabelling adds one path to hist, hist never exceeds the number of simple paths from the source
   (<= (|E|+1)^(|V|-1)), a relabelling lengthens the queue by at most one, every iteration shortens it by one:
   the measure  |queue| + (bound - |hist|)  decreases at every iteration.

     run_loop_gen_terminates   the loop with ANY pop function that shortens the queue by one
     run_loop_terminates       run_loop (pq_pop clt)
     run_a_star_terminates, run_a_star_state_terminates
     run_loop_GI               the ghost invariant holds in the final state
     fuel_bound g = S ((S |E|) ^ (|V| - 1)) *)
From Coq Require Import List Arith Bool String Lia.
From stdpp Require Import gmap.
From RC Require Import Base.Res Model.Search Model.Reach Proofs.ReachSet Proofs.ReachInv Proofs.ReachCost.
Import ListNotations.

Module TermReopenP.
Import Search Reach ReachSetP ReachInvP.

(* ---------------------------------------------------------------- counting lists over [0, m) of length <= k *)
Fixpoint lists_le (m k : nat) : list (list nat) :=
  match k with
  | 0 => [[]]
  | S k' => [] :: flat_map (fun l => map (fun a => a :: l) (seq 0 m)) (lists_le m k')
  end.

Lemma lists_le_in m k : forall p, List.length p <= k -> Forall (fun e => e < m) p -> In p (lists_le m k).
Proof.
  induction k as [|k IH]; intros [|a p] Hl Hf; simpl in *; auto; try lia.
  right. apply in_flat_map. exists p. inversion Hf; subst.
  split; [apply IH; [lia|assumption]|]. apply in_map_iff. exists a. split; [reflexivity|]. apply in_seq. lia.
Qed.

Lemma flat_map_len {A B} (f : A -> list B) c l :
  (forall x, List.length (f x) = c) -> List.length (flat_map f l) = c * List.length l.
Proof.
  intros Hc. induction l as [|x l IH]; simpl; [lia|]. rewrite app_length, Hc, IH. lia.
Qed.

Lemma lists_le_length m k : List.length (lists_le m k) <= S m ^ k.
Proof.
  induction k as [|k IH]; [simpl; lia|].
  cbn [lists_le List.length]. rewrite (flat_map_len _ m) by (intros; rewrite map_length, seq_length; reflexivity).
  rewrite Nat.pow_succ_r'.
  assert (Hpos : 1 <= S m ^ k) by (pose proof (Nat.pow_nonzero (S m) k); lia).
  remember (S m ^ k) as X. remember (List.length (lists_le m k)) as L. nia.
Qed.

Lemma nodup_bounded_len n (l : list nat) : Forall (fun x => x < n) l -> List.NoDup l -> List.length l <= n.
Proof.
  intros Hf Hnd. rewrite <- (seq_length n 0). apply NoDup_incl_length; [exact Hnd|].
  intros x Hx. apply in_seq. rewrite List.Forall_forall in Hf. specialize (Hf x Hx). lia.
Qed.

(* the explicit fuel bound: 1 + (|E| + 1) ^ (|V| - 1) *)
Definition path_bound (g : graph) : nat := S (List.length (gedges g)) ^ (nverts g - 1).
Definition fuel_bound (g : graph) : nat := S (path_bound g).

Section Term.
  Context {C St : Type}.
  Variable clt : C -> C -> bool.
  Variable cadd : C -> C -> C.
  Variable czero : C.
  Variable cfloor : C -> C.
  Variable g : graph.
  Variable frontier : nat -> St -> option nat -> res bool.
  Variable traverse : dir -> nat -> option nat -> St -> res (C * C * St).
  Variable estimate : nat -> nat -> St -> res C.
  Variable init_state : res St.
  Variable terminate : nat -> nat -> option string.
  Variable d : dir.
  Variable source : nat.
  Variable target : option nat.
  Variable ecost : nat -> C.

  Notation le := (ReachCostP.le clt).
  Hypothesis Hwf : wf_graph g.
  Hypothesis Hsrc : source < nverts g.
  Hypothesis Htin : forall t, target = Some t -> t < nverts g.
  (* the cost order *)
  Hypothesis Hasym : forall a b, clt a b = true -> clt b a = false.
  Hypothesis Hletrans : forall a b c, le a b -> le b c -> le a c.
  (* edge-local costs that never decrease a label *)
  Hypothesis Hloc : forall e prev st ac tc st', traverse d e prev st = Ok (ac, tc, st') -> cfloor (cadd ac tc) = ecost e.
  Hypothesis Hinfl : forall e prev st ac tc st' a, traverse d e prev st = Ok (ac, tc, st') -> le a (cadd a (cfloor (cadd ac tc))).
  (* the parameters may fail, but they are not themselves cut-off loops *)
  Hypothesis Hfr_nf : forall e st prev, frontier e st prev <> OutOfFuel.
  Hypothesis Htr_nf : forall e prev st, traverse d e prev st <> OutOfFuel.
  Hypothesis Hest_nf : forall a b st, a < nverts g -> b < nverts g -> estimate a b st <> OutOfFuel.

  Notation sstate := (sstate C St).
  Notation relax := (relax clt cadd czero cfloor g frontier traverse estimate d target).
  Notation relax_all := (relax_all clt cadd czero cfloor g frontier traverse estimate d target).
  Notation step := (step clt cadd czero cfloor g frontier traverse estimate terminate d source target).
  Notation run_loop := (run_loop clt cadd czero cfloor g frontier traverse estimate terminate).
  Notation run_a_star := (run_a_star clt cadd czero cfloor g frontier traverse estimate init_state terminate).
  Notation run_a_star_state := (run_a_star_state clt cadd czero cfloor g frontier traverse estimate init_state terminate).

  Lemma le_refl a : le a a.
  Proof. apply (ReachCostP.le_refl clt Hasym). Qed.

  (* ---------------------------------------------------------------- paths (edge ids, LAST edge first) *)
  Inductive gpath : nat -> list nat -> Prop :=
  | gp_nil : gpath source []
  | gp_cons e ed q : get_edge g e = Some ed -> gpath (term_vertex d ed) q -> gpath (key_vertex d ed) (e :: q).

  Definition kvof (e : nat) : nat :=
    match get_edge g e with Some ed => key_vertex d ed | None => source end.
  (* the vertices a path visits, last first, the source last *)
  Definition pverts (p : list nat) : list nat := map kvof p ++ [source].
  (* the cost the loop accumulates along a path *)
  Fixpoint cost (p : list nat) : C :=
    match p with [] => czero | e :: q => cadd (cost q) (ecost e) end.
  Definition infl_edge (e : nat) : Prop := forall a, le a (cadd a (ecost e)).

  Lemma gpath_cons_inv v e q : gpath v (e :: q) ->
    exists ed, get_edge g e = Some ed /\ v = key_vertex d ed /\ gpath (term_vertex d ed) q.
  Proof. intros H. inversion H; subst. eauto. Qed.
  Lemma gpath_kvof v e q : gpath v (e :: q) -> kvof e = v.
  Proof. intros H. destruct (gpath_cons_inv _ _ _ H) as (ed&He&->&_). unfold kvof. rewrite He. reflexivity. Qed.
  Lemma gpath_fun p : forall v v', gpath v p -> gpath v' p -> v = v'.
  Proof.
    destruct p as [|e q]; intros v v' H1 H2.
    - inversion H1; inversion H2; congruence.
    - rewrite <- (gpath_kvof _ _ _ H1), <- (gpath_kvof _ _ _ H2). reflexivity.
  Qed.
  Lemma pverts_cons e q : pverts (e :: q) = kvof e :: pverts q.
  Proof. reflexivity. Qed.
  Lemma pverts_length p : List.length (pverts p) = S (List.length p).
  Proof. unfold pverts. rewrite app_length, map_length. simpl. lia. Qed.

  Lemma gpath_small v p : gpath v p ->
    v < nverts g /\ Forall (fun e => e < List.length (gedges g)) p /\ Forall (fun x => x < nverts g) (pverts p).
  Proof.
    induction 1 as [|e ed q He Hq (IH1&IH2&IH3)].
    - split; [exact Hsrc|]. split; [constructor|]. repeat constructor. exact Hsrc.
    - pose proof (wf_key_lt g d e ed Hwf He) as Hk. split; [exact Hk|]. split.
      + constructor; [|exact IH2]. apply nth_error_Some. unfold get_edge in He. congruence.
      + rewrite pverts_cons. constructor; [|exact IH3]. unfold kvof. rewrite He. exact Hk.
  Qed.

  Lemma simple_in_lists v p : gpath v p -> List.NoDup (pverts p) ->
    In p (lists_le (List.length (gedges g)) (nverts g - 1)).
  Proof.
    intros Hp Hnd. destruct (gpath_small _ _ Hp) as (_&Hm&Hn).
    apply lists_le_in; [|exact Hm].
    pose proof (nodup_bounded_len _ _ Hn Hnd) as Hl. rewrite pverts_length in Hl. lia.
  Qed.

  (* ---------------------------------------------------------------- the ghost invariant *)
  Record GI (gm : gmap nat C) (hist : list (list nat)) : Prop := {
    gi_nodup : List.NoDup hist;
    gi_path : forall p, In p hist ->
        exists v l, gpath v p /\ List.NoDup (pverts p) /\ Forall infl_edge p /\ gm !! v = Some l /\ le l (cost p);
    gi_pref : forall e q, In (e :: q) hist -> In q hist;
    gi_lab : forall v l, gm !! v = Some l -> exists p, In p hist /\ gpath v p /\ cost p = l
  }.

  Lemma GI_init : GI {[source := czero]} [[]].
  Proof.
    split.
    - repeat constructor. intros [].
    - intros p [<-|[]]. exists source, czero. split; [constructor|]. split; [repeat constructor; intros []|].
      split; [constructor|]. split; [apply lookup_singleton|apply le_refl].
    - intros e q [H|[]]. discriminate.
    - intros v l H. apply lookup_singleton_Some in H as [<- <-]. exists []. split; [left; reflexivity|].
      split; [constructor|reflexivity].
  Qed.

  Lemma hist_bound gm hist : GI gm hist -> List.length hist <= path_bound g.
  Proof.
    intros HG. unfold path_bound.
    etransitivity; [|apply lists_le_length].
    apply NoDup_incl_length; [apply (gi_nodup _ _ HG)|].
    intros p Hp. destruct (gi_path _ _ HG p Hp) as (v&l&Hgp&Hnd&_). eapply simple_in_lists; eauto.
  Qed.

  (* a vertex on a path of hist is the end of a cheaper path of hist *)
  Lemma on_path gm hist : GI gm hist -> forall p, In p hist -> forall x, In x (pverts p) ->
    exists q, In q hist /\ gpath x q /\ le (cost q) (cost p).
  Proof.
    intros HG. induction p as [|e q IH]; intros Hin x Hx.
    - destruct Hx as [<-|[]]. exists []. split; [exact Hin|]. split; [constructor|apply le_refl].
    - rewrite pverts_cons in Hx. destruct (gi_path _ _ HG _ Hin) as (v&l&Hp&_&Hf&_).
      destruct Hx as [<-|Hx].
      + exists (e :: q). split; [exact Hin|]. split; [|apply le_refl]. rewrite (gpath_kvof _ _ _ Hp). exact Hp.
      + destruct (IH (gi_pref _ _ HG _ _ Hin) x Hx) as (q'&Hq'&Hg&Hle). exists q'. split; [exact Hq'|].
        split; [exact Hg|]. eapply Hletrans; [exact Hle|]. inversion Hf; subst. simpl. auto.
  Qed.

  (* ---------------------------------------------------------------- the queue *)
  Lemma push_len (q : list (nat * C)) v c : List.length (pq_push_increase clt q v c) <= S (List.length q).
  Proof.
    induction q as [|[v' c'] q IH]; simpl; [lia|].
    destruct (Nat.eqb v' v); [destruct (clt c c'); simpl; lia|simpl; lia].
  Qed.
  Lemma pq_min_in' (q : list (nat * C)) v c : pq_min clt q = Some (v, c) -> In (v, c) q.
  Proof.
    revert v c. induction q as [|[v' c'] q IH]; simpl; intros v c H; [discriminate|].
    destruct (pq_min clt q) as [[v'' c'']|] eqn:E.
    - destruct (clt c'' c'); inversion H; subst; auto.
    - inversion H; auto.
  Qed.
  Lemma remove_len (q : list (nat * C)) v c : In (v, c) q -> S (List.length (pq_remove q v)) = List.length q.
  Proof.
    induction q as [|[v' c'] q IH]; simpl; [intros []|].
    destruct (Nat.eqb v' v) eqn:E; [reflexivity|]. intros [H|H].
    - inversion H; subst. rewrite Nat.eqb_refl in E. discriminate.
    - simpl. rewrite (IH H). reflexivity.
  Qed.
  Lemma pq_pop_len (q : list (nat * C)) v c (q' : list (nat * C)) :
    pq_pop clt q = Some (v, c, q') -> S (List.length q') = List.length q.
  Proof.
    unfold pq_pop. destruct (pq_min clt q) as [[v' c']|] eqn:E; [|discriminate].
    intros H; inversion H; subst. eapply remove_len, pq_min_in', E.
  Qed.

  (* ---------------------------------------------------------------- one relaxation *)
  Lemma relax_GI cur last (s : sstate) eid hist : GI (s_g s) hist ->
    relax cur last s eid <> OutOfFuel
    /\ forall s', relax cur last s eid = Ok s' ->
         exists hist', GI (s_g s') hist'
                       /\ List.length (s_pq s') + List.length hist <= List.length (s_pq s) + List.length hist'.
  Proof.
    intros HG. unfold Search.relax.
    assert (Hkeep : (Ok s : res sstate) <> OutOfFuel
              /\ forall s', Ok s = Ok s' -> exists hist', GI (s_g s') hist'
                       /\ List.length (s_pq s') + List.length hist <= List.length (s_pq s) + List.length hist').
    { split; [discriminate|]. intros s' [= <-]. exists hist. split; [exact HG|lia]. }
    destruct (get_edge g eid) as [e|] eqn:Hge; [|split; discriminate].
    destruct (frontier eid cur last) as [ok| | |] eqn:Hfr; simpl; try (split; discriminate).
    2:{ exfalso. eapply Hfr_nf, Hfr. }
    destruct ok; simpl; [|exact Hkeep].
    destruct (traverse d eid last cur) as [[[ac tc] st']| | |] eqn:Htr; simpl; try (split; discriminate).
    2:{ exfalso. eapply Htr_nf, Htr. }
    destruct (s_g s !! term_vertex d e) as [gcur|] eqn:Hgt; [|exact Hkeep].
    set (tv := term_vertex d e) in *. set (kv := key_vertex d e) in *.
    set (et := mkEt eid ac tc st'). set (tent := cadd gcur (et_total cadd cfloor et)).
    destruct (match s_g s !! kv with Some ex => clt tent ex | None => true end) eqn:Hbetter; [|exact Hkeep].
    assert (Hkvn : kv < nverts g) by (apply (wf_key_lt g d eid e Hwf Hge)).
    destruct (match target with Some t => estimate kv t cur | None => Ok czero end) as [h| | |] eqn:Hh; simpl;
      try (split; discriminate).
    2:{ exfalso. destruct target as [t|]; [|discriminate]. eapply (Hest_nf kv t cur); auto. }
    split; [discriminate|]. intros s' [= <-]. simpl.
    (* the path that carries tv's label, extended by eid *)
    destruct (gi_lab _ _ HG tv gcur Hgt) as (p&Hp&Hgp&Hcp).
    assert (Htent : tent = cost (eid :: p)).
    { subst tent. unfold et_total, et. simpl. rewrite Hcp, (Hloc _ _ _ _ _ _ Htr). reflexivity. }
    assert (Hinf : infl_edge eid).
    { intros a. rewrite <- (Hloc _ _ _ _ _ _ Htr). eapply Hinfl, Htr. }
    assert (Hgp' : gpath kv (eid :: p)) by (econstructor; eauto).
    (* every path of hist that ends in kv costs at least tent's strict upper bound *)
    assert (Hlow : forall q, In q hist -> gpath kv q -> le tent (cost q) /\ clt tent (cost q) = true).
    { intros q Hq Hgq. destruct (gi_path _ _ HG q Hq) as (v&l&Hgv&_&_&Hl&Hle).
      rewrite (gpath_fun _ _ _ Hgv Hgq) in Hl. rewrite Hl in Hbetter.
      assert (Htl : le tent l) by (apply Hasym, Hbetter).
      split; [eapply Hletrans; eauto|].
      destruct (clt tent (cost q)) eqn:E; [reflexivity|].
      (* le (cost q) tent, le l (cost q) -> le l tent, against clt tent l *)
      assert (Hc : le l tent) by (eapply Hletrans; [exact Hle|exact E]).
      unfold ReachCostP.le in Hc. congruence. }
    assert (Hnew : ~ In (eid :: p) hist).
    { intros Hin. destruct (Hlow _ Hin Hgp') as (_&Hc). rewrite <- Htent in Hc.
      pose proof (le_refl tent) as Hr. unfold ReachCostP.le in Hr. congruence. }
    assert (Hsimple : List.NoDup (pverts (eid :: p))).
    { rewrite pverts_cons. destruct (gi_path _ _ HG p Hp) as (_&_&_&Hnd&_).
      replace (kvof eid) with kv by (unfold kvof; rewrite Hge; reflexivity).
      constructor; [|exact Hnd]. intros Hon.
      destruct (on_path _ _ HG p Hp kv Hon) as (q&Hq&Hgq&Hle).
      destruct (Hlow q Hq Hgq) as (_&Hc).
      (* cost q <= cost p = gcur <= tent *)
      assert (Hqt : le (cost q) tent).
      { eapply Hletrans; [exact Hle|]. rewrite Hcp, Htent. simpl. rewrite Hcp. apply Hinf. }
      unfold ReachCostP.le in Hqt. congruence. }
    exists ((eid :: p) :: hist). split.
    - split.
      + constructor; [exact Hnew|apply (gi_nodup _ _ HG)].
      + intros q [<-|Hq].
        * exists kv, tent. split; [exact Hgp'|]. split; [exact Hsimple|]. split.
          { constructor; [exact Hinf|]. destruct (gi_path _ _ HG p Hp) as (_&_&_&_&Hf&_). exact Hf. }
          split; [apply lookup_insert|]. rewrite Htent. apply le_refl.
        * destruct (gi_path _ _ HG q Hq) as (v&l&Hgv&Hnd&Hf&Hl&Hle).
          destruct (Nat.eq_dec v kv) as [->|Hne].
          { exists kv, tent. split; [exact Hgv|]. split; [exact Hnd|]. split; [exact Hf|].
            split; [apply lookup_insert|]. apply (Hlow q Hq Hgv). }
          { exists v, l. split; [exact Hgv|]. split; [exact Hnd|]. split; [exact Hf|].
            split; [rewrite lookup_insert_ne by congruence; exact Hl|exact Hle]. }
      + intros e0 q0 [H|H]; [inversion H; subst; right; exact Hp|right; eapply gi_pref; eauto].
      + intros v l Hl. destruct (Nat.eq_dec v kv) as [->|Hne].
        * rewrite lookup_insert in Hl. inversion Hl; subst l. exists (eid :: p).
          split; [left; reflexivity|]. split; [exact Hgp'|]. symmetry. exact Htent.
        * rewrite lookup_insert_ne in Hl by congruence.
          destruct (gi_lab _ _ HG v l Hl) as (q&Hq&Hgq&Hcq). exists q. split; [right; exact Hq|]. split; assumption.
    - pose proof (push_len (s_pq s) kv (cadd tent h)) as Hpl. simpl. lia.
  Qed.

  Lemma relax_all_GI cur last es : forall (s : sstate) hist, GI (s_g s) hist ->
    relax_all cur last s es <> OutOfFuel
    /\ forall s', relax_all cur last s es = Ok s' ->
         exists hist', GI (s_g s') hist'
                       /\ List.length (s_pq s') + List.length hist <= List.length (s_pq s) + List.length hist'.
  Proof.
    induction es as [|eid es IH]; intros s hist HG; simpl.
    - split; [discriminate|]. intros s' [= <-]. exists hist. split; [exact HG|lia].
    - destruct (relax_GI cur last s eid hist HG) as (Hnf&Hok).
      destruct (relax cur last s eid) as [s1| | |] eqn:Hr; simpl; try (split; discriminate).
      2:{ contradiction. }
      destruct (Hok s1 eq_refl) as (h1&HG1&Hl1).
      destruct (IH s1 h1 HG1) as (Hnf2&Hok2). split; [exact Hnf2|].
      intros s' Hs'. destruct (Hok2 s' Hs') as (h2&HG2&Hl2). exists h2. split; [exact HG2|lia].
  Qed.

  (* ---------------------------------------------------------------- the loop, with ANY pop function *)
  Section AnyPop.
    Variable pop : list (nat * C) -> option (nat * C * list (nat * C)).
    Hypothesis Hpop : forall q v c q', pop q = Some (v, c, q') -> S (List.length q') = List.length q.

    (* Model/Search.v's [step] with the queue policy as a parameter *)
    Definition step_gen (init : St) (s : sstate) : res (sstate + sstate) :=
      match terminate (size (s_tree s)) (s_iters s) with
      | Some why => Err ("terminated: " ++ why)%string
      | None =>
          match pop (s_pq s) with
          | None => match target with
                    | Some _ => Err "nopath"%string
                    | None => Ok (inr s)
                    end
          | Some (v, _, q') =>
              let s1 := mkS q' (s_g s) (s_tree s) (s_iters s) in
              if (match target with Some t => Nat.eqb v t | None => false end) then Ok (inr s1)
              else
                do le_st <- (if Nat.eqb v source then Ok (None, init)
                             else match s_tree s !! v with
                                  | Some b => Ok (Some (et_edge (b_et b)), et_state (b_et b))
                                  | None => Err "internal: vertex missing from solution"%string
                                  end);
                let '(last_edge, cur_state) := le_st in
                do s2 <- relax_all cur_state last_edge s1 (incident d g v);
                Ok (inl (mkS (s_pq s2) (s_g s2) (s_tree s2) (S (s_iters s2))))
          end
      end.
    Fixpoint run_loop_gen (fuel : nat) (init : St) (s : sstate) : res sstate :=
      match fuel with
      | 0 => OutOfFuel
      | S f =>
          do r <- step_gen init s;
          match r with
          | inl s' => run_loop_gen f init s'
          | inr s' => Ok s'
          end
      end.

    Lemma step_gen_GI init (s : sstate) hist : GI (s_g s) hist ->
      step_gen init s <> OutOfFuel
      /\ (forall s', step_gen init s = Ok (inl s') ->
            exists hist', GI (s_g s') hist'
                          /\ S (List.length (s_pq s') + List.length hist) <= List.length (s_pq s) + List.length hist')
      /\ (forall s', step_gen init s = Ok (inr s') -> GI (s_g s') hist).
    Proof.
      intros HG. unfold step_gen.
      destruct (terminate (size (s_tree s)) (s_iters s)); [split; [|split]; discriminate|].
      destruct (pop (s_pq s)) as [[[v c] q']|] eqn:Hp.
      2:{ destruct target; (split; [|split]); try discriminate. intros s' [= <-]. exact HG. }
      pose proof (Hpop _ _ _ _ Hp) as Hlen.
      destruct (match target with Some t => Nat.eqb v t | None => false end).
      { (split; [|split]); try discriminate. intros s' [= <-]. exact HG. }
      destruct (if Nat.eqb v source then Ok (None, init)
                else match s_tree s !! v with
                     | Some b => Ok (Some (et_edge (b_et b)), et_state (b_et b))
                     | None => Err "internal: vertex missing from solution"%string
                     end) as [[last cur]| | |] eqn:Hle; simpl; try (split; [|split]; discriminate).
      2:{ exfalso. destruct (Nat.eqb v source); [discriminate|]. destruct (s_tree s !! v); discriminate. }
      destruct (relax_all_GI cur last (incident d g v) (mkS q' (s_g s) (s_tree s) (s_iters s)) hist HG) as (Hnf&Hok).
      destruct (relax_all cur last (mkS q' (s_g s) (s_tree s) (s_iters s)) (incident d g v)) as [s2| | |] eqn:Hr; simpl;
        try (split; [|split]; discriminate).
      2:{ contradiction. }
      split; [discriminate|]. split; [|discriminate].
      intros s' [= <-]. destruct (Hok s2 eq_refl) as (h2&HG2&Hl2). exists h2. simpl in *. split; [exact HG2|lia].
    Qed.

    Lemma run_loop_gen_terminates init : forall fuel (s : sstate) hist, GI (s_g s) hist ->
      List.length (s_pq s) + path_bound g < fuel + List.length hist ->
      run_loop_gen fuel init s <> OutOfFuel.
    Proof.
      induction fuel as [|f IH]; intros s hist HG Hf.
      - pose proof (hist_bound _ _ HG). lia.
      - simpl. destruct (step_gen_GI init s hist HG) as (Hnf&Hinl&_).
        destruct (step_gen init s) as [[s'|s']| | |] eqn:Hs; simpl; try discriminate.
        2:{ contradiction. }
        destruct (Hinl s' eq_refl) as (h'&HG'&Hl'). apply (IH s' h' HG'). lia.
    Qed.

    Lemma run_loop_gen_GI init : forall fuel (s s' : sstate) hist, GI (s_g s) hist ->
      run_loop_gen fuel init s = Ok s' -> exists hist', GI (s_g s') hist'.
    Proof.
      induction fuel as [|f IH]; intros s s' hist HG; simpl; [discriminate|].
      destruct (step_gen_GI init s hist HG) as (_&Hinl&Hinr).
      destruct (step_gen init s) as [[s1|s1]| | |] eqn:Hs; simpl; try discriminate.
      - destruct (Hinl s1 eq_refl) as (h'&HG'&_). apply (IH s1 s' h' HG').
      - intros [= <-]. exists hist. apply Hinr. reflexivity.
    Qed.
  End AnyPop.

  Lemma run_loop_gen_eq init : forall fuel (s : sstate),
    run_loop_gen (pq_pop clt) fuel init s = run_loop fuel d source target init s.
  Proof.
    induction fuel as [|f IH]; intros s; [reflexivity|].
    simpl. change (step_gen (pq_pop clt) init s) with (step init s).
    destruct (step init s) as [[s'|s']| | |]; simpl; auto.
  Qed.

  Theorem run_loop_terminates init fuel (s : sstate) hist : GI (s_g s) hist ->
    List.length (s_pq s) + path_bound g < fuel + List.length hist ->
    run_loop fuel d source target init s <> OutOfFuel.
  Proof.
    intros HG Hf. rewrite <- run_loop_gen_eq. eapply run_loop_gen_terminates; eauto. exact pq_pop_len.
  Qed.

  Theorem run_loop_GI init fuel (s s' : sstate) hist : GI (s_g s) hist ->
    run_loop fuel d source target init s = Ok s' -> exists hist', GI (s_g s') hist'.
  Proof. intros HG. rewrite <- run_loop_gen_eq. eapply run_loop_gen_GI; eauto. exact pq_pop_len. Qed.

  (* the loop started as run_a_star starts it *)
  Theorem run_loop_init_terminates init h0 fuel : fuel_bound g <= fuel ->
    run_loop fuel d source target init (mkS [(source, h0)] {[source := czero]} ∅ 0) <> OutOfFuel.
  Proof.
    intros Hf. apply (run_loop_terminates init fuel _ [[]]); [apply GI_init|]. unfold fuel_bound in Hf. simpl. lia.
  Qed.

  Theorem run_loop_gen_init_terminates pop :
    (forall q v c q', pop q = Some (v, c, q') -> S (List.length q') = List.length q) ->
    forall init h0 fuel, fuel_bound g <= fuel ->
      run_loop_gen pop fuel init (mkS [(source, h0)] {[source := czero]} ∅ 0) <> OutOfFuel.
  Proof.
    intros Hpop init h0 fuel Hf. apply (run_loop_gen_terminates pop Hpop init fuel _ [[]]); [apply GI_init|].
    unfold fuel_bound in Hf. simpl. lia.
  Qed.

  Hypothesis Hinit_nf : init_state <> OutOfFuel.

  Theorem run_a_star_state_terminates fuel : fuel_bound g <= fuel -> run_a_star_state fuel d source target <> OutOfFuel.
  Proof.
    intros Hf. unfold Search.run_a_star_state.
    destruct (negb (source <? nverts g)); [discriminate|].
    destruct init_state as [init| | |]; simpl; try discriminate; [|contradiction].
    destruct (match target with Some t => estimate source t init | None => Ok czero end) as [h0| | |] eqn:Hh; simpl;
      try discriminate.
    - apply run_loop_init_terminates, Hf.
    - exfalso. destruct target as [t|]; [|discriminate]. eapply (Hest_nf source t init); auto.
  Qed.

  Theorem run_a_star_terminates fuel : fuel_bound g <= fuel -> run_a_star fuel d source target <> OutOfFuel.
  Proof.
    intros Hf. unfold Search.run_a_star.
    destruct (negb (source <? nverts g)); [discriminate|].
    destruct (match target with Some t => Nat.eqb t source | None => false end); [discriminate|].
    destruct init_state as [init| | |]; simpl; try discriminate; [|contradiction].
    destruct (match target with Some t => estimate source t init | None => Ok czero end) as [h0| | |] eqn:Hh; simpl;
      try discriminate.
    - pose proof (run_loop_init_terminates init h0 fuel Hf) as Hl.
      destruct (run_loop fuel d source target init (mkS [(source, h0)] {[source := czero]} ∅ 0)); simpl;
        try discriminate. contradiction.
    - exfalso. destruct target as [t|]; [|discriminate]. eapply (Hest_nf source t init); auto.
  Qed.

  (* the ghost invariant, read on the final state: every label is the cost of a simple path from the source *)
  Theorem final_labels_simple_paths fuel (s : sstate) : run_a_star_state fuel d source target = Ok s ->
    forall v l, s_g s !! v = Some l ->
      exists p, gpath v p /\ List.NoDup (pverts p) /\ cost p = l.
  Proof.
    unfold Search.run_a_star_state.
    destruct (negb (source <? nverts g)); [discriminate|].
    destruct init_state as [init| | |]; simpl; try discriminate.
    destruct (match target with Some t => estimate source t init | None => Ok czero end) as [h0| | |]; simpl;
      try discriminate.
    intros Hrun v l Hl. destruct (run_loop_GI init fuel (mkS [(source, h0)] {[source := czero]} ∅ 0) s [[]] GI_init Hrun) as (hist&HG).
    destruct (gi_lab _ _ HG v l Hl) as (p&Hp&Hgp&Hc). exists p. split; [exact Hgp|]. split; [|exact Hc].
    destruct (gi_path _ _ HG p Hp) as (_&_&_&Hnd&_). exact Hnd.
  Qed.
End Term.

End TermReopenP.
