(* Termination with re-opening (Proofs/TermReopen.v) under C05's hypotheses, and C05's two-sided statement made
   total: with fuel >= fuel_bound g the answer of a search towards a destination is Ok iff the destination is
   reachable and Err "nopath" iff it is not, for ANY estimate / weight factor.
     vertex_oriented_terminates   run_vertex_oriented never answers OutOfFuel (loop and backtracking)
     answer_iff_total             C05's answer_iff_partial without the fuel premise
     notarget_returns             a destination-less search returns *)
From Coq Require Import List Arith Bool String Lia.
From stdpp Require Import gmap.
From RC Require Import Base.Res Model.Search Model.Reach.
From RC Require Import Proofs.ReachSet Proofs.ReachInv Proofs.ReachMain Proofs.ReachCost Proofs.ReachTop Proofs.TermReopen.
Import ListNotations.

Module TermReopenTopP.
Import Search Reach ReachSetP ReachInvP ReachMainP ReachTopP TermReopenP.

Section Top.
  Context {C St : Type}.
  Variable clt : C -> C -> bool.
  Variable cadd : C -> C -> C.
  Variable czero : C.
  Variable cfloor : C -> C.
  Variable g : graph.
  Variable frontier : nat -> St -> option nat -> res bool.
  Variable traverse : dir -> nat -> option nat -> St -> res (C * C * St).
  Variable estimate : nat -> nat -> St -> res C.
  Variable init_state : res St.
  Variable terminate : nat -> nat -> option string.
  Variable ok : nat -> bool.
  Variable ecost : nat -> C.
  (* C05's hypotheses *)
  Hypothesis Hwf : wf_graph g.
  Hypothesis Hfr : forall e st prev, frontier e st prev = Ok (ok e).
  Hypothesis Htr : forall d e prev st, exists r, traverse d e prev st = Ok r.
  Hypothesis Hest : forall a b st, a < nverts g -> b < nverts g -> exists c, estimate a b st = Ok c.
  Hypothesis Hinit : exists i0, init_state = Ok i0.
  Notation le := (ReachCostP.le clt).
  Hypothesis Hasym : forall a b, clt a b = true -> clt b a = false.
  Hypothesis Hletrans : forall a b c, le a b -> le b c -> le a c.
  Hypothesis Hinfl : forall dd e prev st ac tc st' a, traverse dd e prev st = Ok (ac, tc, st') -> le a (cadd a (cfloor (cadd ac tc))).
  (* edge-local costs (the hypothesis of c05_tree_labels_least) *)
  Hypothesis Hloc : forall dd e prev st ac tc st', traverse dd e prev st = Ok (ac, tc, st') -> cfloor (cadd ac tc) = ecost e.

  Variable d : dir.
  Variable source : nat.
  Hypothesis Hsrc : source < nverts g.

  Notation run_a_star := (run_a_star clt cadd czero cfloor g frontier traverse estimate init_state terminate).
  Notation run_vertex_oriented := (run_vertex_oriented clt cadd czero cfloor g frontier traverse estimate init_state terminate).

  Lemma a_star_terminates fuel target : (forall t, target = Some t -> t < nverts g) ->
    fuel_bound g <= fuel -> run_a_star fuel d source target <> OutOfFuel.
  Proof.
    intros Htin Hf.
    apply (run_a_star_terminates clt cadd czero cfloor g frontier traverse estimate init_state terminate d source target ecost
             Hwf Hsrc Htin Hasym Hletrans (Hloc d) (Hinfl d)); [| | | |exact Hf].
    - intros e st prev. rewrite Hfr. discriminate.
    - intros e prev st. destruct (Htr d e prev st) as [r ->]. discriminate.
    - intros a b st Ha Hb. destruct (Hest a b st Ha Hb) as [c ->]. discriminate.
    - destruct Hinit as [i0 ->]. discriminate.
  Qed.

  Theorem vertex_oriented_terminates fuel target : (forall t, target = Some t -> t < nverts g) ->
    fuel_bound g <= fuel -> run_vertex_oriented fuel d source target <> OutOfFuel.
  Proof.
    intros Htin Hf. pose proof (a_star_terminates fuel target Htin Hf) as Hnf.
    destruct target as [t|].
    - destruct (Nat.eq_dec t source) as [->|Hne].
      + unfold Search.run_vertex_oriented, Search.run_a_star.
        apply Nat.ltb_lt in Hsrc. rewrite Hsrc, Nat.eqb_refl. simpl.
        unfold vertex_oriented_route. simpl. rewrite Nat.eqb_refl. discriminate.
      + destruct (run_a_star fuel d source (Some t)) as [[tr it]|c|w|] eqn:Hrun.
        * destruct (found_gives_route clt cadd czero cfloor g frontier traverse estimate init_state terminate ok Hwf Hfr Htr Hest Hinit
                      Hasym Hletrans Hinfl d source Hsrc fuel t tr it Hne (Htin t eq_refl) Hrun) as [r ->]. discriminate.
        * unfold Search.run_vertex_oriented. rewrite Hrun. discriminate.
        * unfold Search.run_vertex_oriented. rewrite Hrun. discriminate.
        * contradiction.
    - unfold Search.run_vertex_oriented.
      destruct (run_a_star fuel d source None) as [[tr it]|c|w|]; simpl; try discriminate. contradiction.
  Qed.

  Hypothesis Hterm : forall a b, terminate a b = None.

  Theorem answer_iff_total fuel t : t <> source -> t < nverts g -> fuel_bound g <= fuel ->
    ((exists r, run_vertex_oriented fuel d source (Some t) = Ok r) <-> reachable ok d g source t)
    /\ (run_vertex_oriented fuel d source (Some t) = Err "nopath"%string <-> ~ reachable ok d g source t).
  Proof.
    intros Hne Hlt Hf.
    apply (answer_iff_partial clt cadd czero cfloor g frontier traverse estimate init_state terminate ok Hwf Hfr Htr Hest Hinit
             Hterm Hasym Hletrans Hinfl d source Hsrc fuel t Hne Hlt).
    apply a_star_terminates; [apply (tgt_some g t Hlt)|exact Hf].
  Qed.

  Theorem notarget_returns fuel : fuel_bound g <= fuel ->
    exists tree it, run_vertex_oriented fuel d source None = Ok (mkR [tree] [] it)
      /\ forall v, reachable ok d g source v -> v = source \/ is_Some (tree !! v).
  Proof.
    intros Hf. pose proof (a_star_terminates fuel None (tgt_none g) Hf) as Hnf.
    pose proof (a_star_notarget_spec clt cadd czero cfloor g frontier traverse estimate init_state terminate ok Hwf Hfr Htr
                  Hest Hinit d source Hsrc fuel) as Hs.
    unfold Search.run_vertex_oriented.
    destruct (run_a_star fuel d source None) as [[tr it]|c|w|]; simpl; try contradiction.
    - exists tr, it. split; [reflexivity|apply Hs].
    - destruct Hs as (why&a&b&Hw&_). rewrite Hterm in Hw. discriminate.
  Qed.
End Top.

End TermReopenTopP.
