(* Lemmas about the termination model itself (Model/Termination.v): for a model without a zero frequency,
   terminate_search / explain_termination / test are the pure functions fires / "the fired leaves, joined";
   Combined = any; the explanation names exactly the limits that fired. *)
From Coq Require Import NArith ZArith List Arith Bool String Ascii Lia.
From RC Require Import Base.Show Base.Res Model.Termination.
Import ListNotations.
Local Open Scope string_scope.

Import TM.

Section term_ind.
  Variable P : term -> Prop.
  Hypothesis HR : forall l f, P (Runtime l f).
  Hypothesis HS : forall l, P (Size l).
  Hypothesis HI : forall l, P (Iter l).
  Hypothesis HC : forall l, Forall P l -> P (Combined l).
  Fixpoint term_ind' (t : term) : P t :=
    match t with
    | Runtime l f => HR l f
    | Size l => HS l
    | Iter l => HI l
    | Combined l =>
        HC l ((fix go (l : list term) : Forall P l :=
                 match l with
                 | [] => @Forall_nil _ P
                 | x :: r => @Forall_cons _ P x r (term_ind' x) (go r)
                 end) l)
    end.
End term_ind.

Section Fixed.
  Variable ck : clock.
  Variables size it : nat.

  (* the inner loops of the model, named *)
  Fixpoint ts_go (l : list term) (acc : bool) : res bool :=
    match l with
    | [] => Ok acc
    | m :: r => do b <- terminate_search m ck size it; ts_go r (acc || b)
    end.
  Lemma terminate_search_combined l : terminate_search (Combined l) ck size it = ts_go l false.
  Proof. reflexivity. Qed.

  Fixpoint ex_go (l : list term) : res (list string) :=
    match l with
    | [] => Ok []
    | m :: r =>
        do e <- explain m ck size it;
        do rest <- ex_go r;
        Ok (match e with Some s => s :: rest | None => rest end)
    end.
  Lemma explain_combined l :
    explain (Combined l) ck size it =
    (do caused <- unwrap_or_false (terminate_search (Combined l) ck size it);
     do parts <- ex_go l;
     let s := join ", " parts in if is_empty s then Ok None else Ok (Some s)).
  Proof. reflexivity. Qed.

  Lemma ts_go_ok l : forall acc,
    Forall (fun m => terminate_search m ck size it = Ok (fires m ck size it)) l ->
    ts_go l acc = Ok (acc || existsb (fun m => fires m ck size it) l).
  Proof.
    induction l as [|m r IH]; intros acc HF; cbn [ts_go existsb].
    - now rewrite orb_false_r.
    - inversion HF as [|? ? Hm Hr]; subst. rewrite Hm. cbn [bind]. rewrite (IH _ Hr).
      now rewrite orb_assoc.
  Qed.

  (* wf: no zero frequency anywhere *)
  Lemma wf_combined l : wf (Combined l) = true -> Forall (fun m => wf m = true) l.
  Proof. cbn [wf]. intros H. apply Forall_forall. now apply forallb_forall. Qed.

  Theorem terminate_search_fires t : wf t = true -> terminate_search t ck size it = Ok (fires t ck size it).
  Proof.
    induction t as [lim f|lim|lim|l IH] using term_ind'; intros Hwf.
    - cbn [wf] in Hwf. cbn [terminate_search fires].
      destruct (N.eqb f 0); [discriminate|].
      destruct (N.eqb (N.of_nat it mod f) 0); reflexivity.
    - reflexivity.
    - reflexivity.
    - rewrite terminate_search_combined. rewrite ts_go_ok.
      + reflexivity.
      + pose proof (wf_combined l Hwf) as Hl. clear Hwf.
        induction l as [|m r IHr]; constructor.
        * inversion IH; inversion Hl; subst; auto.
        * inversion IH; inversion Hl; subst; auto.
  Qed.

  (* ---- join and emptiness ---- *)
  Lemma is_empty_app a b : is_empty (a ++ b) = is_empty a && is_empty b.
  Proof. destruct a; reflexivity. Qed.

  Lemma join_cons_ne sep x r : r <> [] -> join sep (x :: r) = x ++ sep ++ join sep r.
  Proof. destruct r; [congruence|reflexivity]. Qed.

  (* (stdpp makes String.append opaque to simpl/cbn: unfold by conversion) *)
  Lemma string_app_assoc (a b c : string) : (a ++ b) ++ c = a ++ b ++ c.
  Proof.
    induction a as [|ch a IH]; [reflexivity|].
    change (String ch ((a ++ b) ++ c) = String ch (a ++ b ++ c)). now rewrite IH.
  Qed.
  Lemma string_app_nil_r (a : string) : a ++ "" = a.
  Proof. induction a as [|ch a IH]; [reflexivity|]. change (String ch (a ++ "") = String ch a). now rewrite IH. Qed.

  Lemma join_app sep (a b : list string) : a <> [] -> b <> [] ->
    join sep (a ++ b) = join sep a ++ sep ++ join sep b.
  Proof.
    induction a as [|x r IH]; intros Ha Hb; [congruence|].
    destruct r as [|y r'].
    - cbn [app]. now rewrite join_cons_ne.
    - change ((x :: y :: r') ++ b)%list with (x :: ((y :: r') ++ b))%list.
      rewrite join_cons_ne by (cbn; congruence).
      rewrite IH by (congruence || assumption).
      rewrite (join_cons_ne sep x (y :: r')) by congruence.
      now rewrite !string_app_assoc.
  Qed.

  Lemma join_nonempty sep (l : list string) :
    l <> [] -> Forall (fun s => is_empty s = false) l -> is_empty (join sep l) = false.
  Proof.
    destruct l as [|x r]; [congruence|]. intros _ HF. inversion HF as [|? ? Hx Hr]; subst.
    destruct r.
    - exact Hx.
    - rewrite join_cons_ne by congruence. rewrite is_empty_app, Hx. reflexivity.
  Qed.

  Lemma leaf_msg_nonempty t : forall x, In x (leaves t) -> is_empty (leaf_msg x) = false.
  Proof.
    induction t as [lim f|lim|lim|l IH] using term_ind'; intros x Hx.
    - destruct Hx as [<-|[]]. reflexivity.
    - destruct Hx as [<-|[]]. reflexivity.
    - destruct Hx as [<-|[]]. reflexivity.
    - cbn [leaves] in Hx. apply in_flat_map in Hx. destruct Hx as [m [Hm Hx]].
      rewrite Forall_forall in IH. exact (IH m Hm x Hx).
  Qed.
  Lemma leaves_msg_nonempty t : Forall (fun x => is_empty (leaf_msg x) = false) (leaves t).
  Proof. apply Forall_forall. intros x Hx. exact (leaf_msg_nonempty t x Hx). Qed.

  (* ---- Combined = any ---- *)
  Theorem fires_combined l : fires (Combined l) ck size it = existsb (fun m => fires m ck size it) l.
  Proof. reflexivity. Qed.

  Lemma existsb_flat_map {A B} (f : A -> list B) (p : B -> bool) l :
    existsb p (flat_map f l) = existsb (fun a => existsb p (f a)) l.
  Proof. induction l as [|a r IH]; cbn; [reflexivity|]. now rewrite existsb_app, IH. Qed.

  Theorem fires_leaves t : fires t ck size it = existsb (fun x => fires x ck size it) (leaves t).
  Proof.
    induction t as [lim f|lim|lim|l IH] using term_ind'; try (cbn [leaves existsb]; now rewrite orb_false_r).
    cbn [leaves]. rewrite existsb_flat_map, fires_combined.
    induction l as [|m r IHr]; [reflexivity|].
    inversion IH as [|? ? Hm Hr]; subst. cbn [existsb]. rewrite <- Hm. f_equal. exact (IHr Hr).
  Qed.

  Lemma fired_nil_iff t : fired t ck size it = [] <-> fires t ck size it = false.
  Proof.
    rewrite fires_leaves. unfold fired. induction (leaves t) as [|x r IH]; cbn [filter existsb]; [tauto|].
    destruct (fires x ck size it); cbn [orb]; [split; intros H; discriminate H|exact IH].
  Qed.

  Lemma fired_combined l : fired (Combined l) ck size it = flat_map (fun m => fired m ck size it) l.
  Proof.
    unfold fired. cbn [leaves]. induction l as [|m r IH]; [reflexivity|].
    cbn [flat_map]. now rewrite filter_app, IH.
  Qed.

  (* ---- explain_termination: the fired leaves' messages, joined ---- *)
  Definition expl (t : term) : option string :=
    match fired t ck size it with
    | [] => None
    | fl => Some (join ", " (map leaf_msg fl))
    end.

  Lemma fired_msgs_nonempty t : Forall (fun s => is_empty s = false) (map leaf_msg (fired t ck size it)).
  Proof.
    apply Forall_forall. intros s Hs. apply in_map_iff in Hs. destruct Hs as [x [<- Hx]].
    unfold fired in Hx. apply filter_In in Hx. destruct Hx as [Hx _].
    pose proof (leaves_msg_nonempty t) as HF. rewrite Forall_forall in HF. exact (HF x Hx).
  Qed.

  Lemma ex_go_ok l :
    Forall (fun m => explain m ck size it = Ok (expl m)) l ->
    exists parts, ex_go l = Ok parts
      /\ Forall (fun s => is_empty s = false) parts
      /\ (parts = [] <-> flat_map (fun m => fired m ck size it) l = [])
      /\ (parts <> [] -> join ", " parts = join ", " (map leaf_msg (flat_map (fun m => fired m ck size it) l))).
  Proof.
    induction l as [|m r IH]; intros HF.
    - exists []. cbn. repeat split; auto; congruence.
    - inversion HF as [|? ? Hm Hr]; subst. destruct (IH Hr) as [parts [Hgo [Hne [Hnil Hjoin]]]].
      cbn [ex_go flat_map]. rewrite Hm, Hgo. cbn [bind]. unfold expl.
      destruct (fired m ck size it) as [|x fl] eqn:Ef.
      + exists parts. cbn [app]. repeat split; auto; try apply Hnil.
      + exists (join ", " (map leaf_msg (x :: fl)) :: parts). split; [reflexivity|]. split; [|split].
        * constructor; [|exact Hne]. apply join_nonempty; [cbn; congruence|].
          rewrite <- Ef. apply fired_msgs_nonempty.
        * split; intros H; cbn in H; congruence.
        * intros _. destruct parts as [|p ps].
          -- assert (Hr0 : flat_map (fun m => fired m ck size it) r = []) by now apply Hnil.
             rewrite Hr0, app_nil_r. reflexivity.
          -- rewrite join_cons_ne by congruence. rewrite Hjoin by congruence.
             rewrite map_app. rewrite join_app; [reflexivity|cbn; congruence|].
             intros Hc. apply map_eq_nil in Hc. apply Hnil in Hc. congruence.
  Qed.

  Theorem explain_expl t : wf t = true -> explain t ck size it = Ok (expl t).
  Proof.
    induction t as [lim f|lim|lim|l IH] using term_ind'; intros Hwf.
    - cbn [explain]. rewrite (terminate_search_fires _ Hwf). cbn [unwrap_or_false bind].
      unfold expl, fired. cbn [leaves filter]. destruct (fires (Runtime lim f) ck size it); reflexivity.
    - cbn [explain]. rewrite (terminate_search_fires _ Hwf). cbn [unwrap_or_false bind].
      unfold expl, fired. cbn [leaves filter]. destruct (fires (Size lim) ck size it); reflexivity.
    - cbn [explain]. rewrite (terminate_search_fires _ Hwf). cbn [unwrap_or_false bind].
      unfold expl, fired. cbn [leaves filter]. destruct (fires (Iter lim) ck size it); reflexivity.
    - rewrite explain_combined. rewrite (terminate_search_fires _ Hwf). cbn [unwrap_or_false bind].
      assert (HF : Forall (fun m => explain m ck size it = Ok (expl m)) l).
      { pose proof (wf_combined l Hwf) as Hl. rewrite Forall_forall in *. intros m Hm. apply IH; auto. }
      destruct (ex_go_ok l HF) as [parts [Hgo [Hne [Hnil Hjoin]]]].
      rewrite Hgo. cbn [bind]. unfold expl. rewrite fired_combined.
      destruct parts as [|p ps].
      + assert (H0 : flat_map (fun m => fired m ck size it) l = []) by now apply Hnil.
        rewrite H0. reflexivity.
      + rewrite join_nonempty by (congruence || assumption).
        rewrite Hjoin by congruence.
        destruct (flat_map (fun m => fired m ck size it) l) eqn:E; [|reflexivity].
        exfalso. assert (p :: ps = []) by now apply Hnil. congruence.
  Qed.

  (* ---- test ---- *)
  Theorem test_spec t : wf t = true ->
    test t ck size it = if fires t ck size it
                        then Err ("terminated: " ++ join ", " (map leaf_msg (fired t ck size it)))
                        else Ok tt.
  Proof.
    intros Hwf. unfold test. rewrite (terminate_search_fires _ Hwf). cbn [bind].
    destruct (fires t ck size it) eqn:Ef; [|reflexivity].
    rewrite (explain_expl _ Hwf). cbn [bind]. unfold expl.
    destruct (fired t ck size it) eqn:E; [|reflexivity].
    apply fired_nil_iff in E. congruence.
  Qed.

  Theorem to_search_spec t : wf t = true ->
    to_search t ck size it = if fires t ck size it
                             then Some (join ", " (map leaf_msg (fired t ck size it)))
                             else None.
  Proof.
    intros Hwf. unfold to_search. rewrite (terminate_search_fires _ Hwf).
    destruct (fires t ck size it) eqn:Ef; [|reflexivity].
    rewrite (explain_expl _ Hwf). unfold expl.
    destruct (fired t ck size it) eqn:E; [|reflexivity].
    apply fired_nil_iff in E. congruence.
  Qed.

  (* the search loop's use of [to_search] is [test]: Some why <-> Err "terminated: why", None <-> Ok *)
  Theorem test_to_search t : wf t = true ->
    test t ck size it = match to_search t ck size it with
                        | Some why => Err ("terminated: " ++ why)
                        | None => Ok tt
                        end.
  Proof.
    intros Hwf. rewrite (test_spec _ Hwf), (to_search_spec _ Hwf).
    destruct (fires t ck size it); reflexivity.
  Qed.

  Lemma to_search_none_iff t : wf t = true -> (to_search t ck size it = None <-> fires t ck size it = false).
  Proof. intros Hwf. rewrite (to_search_spec _ Hwf). destruct (fires t ck size it); split; congruence. Qed.

  (* a leaf that fires makes the whole model fire *)
  Lemma leaf_fires t x : In x (leaves t) -> fires x ck size it = true -> fires t ck size it = true.
  Proof. intros Hin Hx. rewrite fires_leaves. apply existsb_exists. eauto. Qed.

  (* the explanation names every limit that fired and no other: the fired list is non-empty, consists of leaves of
     the configured model, each of which fires *)
  Theorem fired_spec t x : In x (fired t ck size it) <-> In x (leaves t) /\ fires x ck size it = true.
  Proof. unfold fired. apply filter_In. Qed.
End Fixed.

(* ---- "stricter": t1 fires whenever t2 does.  The order in which success is monotone. ---- *)
Definition stricter (t1 t2 : term) : Prop :=
  forall ck size it, fires t2 ck size it = true -> fires t1 ck size it = true.

Lemma stricter_refl t : stricter t t.
Proof. intros ck size it H; exact H. Qed.
Lemma stricter_trans a b c : stricter a b -> stricter b c -> stricter a c.
Proof. intros H1 H2 ck size it H. auto. Qed.
Lemma stricter_iter n n' : (n <= n')%N -> stricter (Iter n) (Iter n').
Proof. intros Hle ck size it. cbn [fires]. rewrite !N.ltb_lt. lia. Qed.
Lemma stricter_size n n' : (n <= n')%N -> stricter (Size n) (Size n').
Proof. intros Hle ck size it. cbn [fires]. rewrite !N.ltb_lt. lia. Qed.
Lemma stricter_runtime n n' f : (n <= n')%N -> stricter (Runtime n f) (Runtime n' f).
Proof.
  intros Hle ck size it. cbn [fires]. rewrite !andb_true_iff, !N.ltb_lt. intros [H1 H2]. split; [exact H1|lia].
Qed.
Lemma stricter_unlimited t : stricter t (Combined []).
Proof. intros ck size it. cbn. discriminate. Qed.
Lemma stricter_combined l l' : Forall2 stricter l l' -> stricter (Combined l) (Combined l').
Proof.
  intros HF ck size it. rewrite !fires_combined. induction HF as [|a b l l' Hab _ IH]; [auto|].
  cbn [existsb]. rewrite !orb_true_iff. intros [H|H]; [left; now apply Hab|right; now apply IH].
Qed.
(* adding a limit makes a model stricter *)
Lemma stricter_add x l : stricter (Combined (x :: l)) (Combined l).
Proof. intros ck size it. rewrite !fires_combined. cbn [existsb]. intros ->. apply orb_true_r. Qed.

(* ---- next_check: the least multiple of f at or after i0 ---- *)
Lemma next_check_spec f i0 : 0 < f ->
  i0 <= next_check f i0 < i0 + f /\ next_check f i0 mod f = 0
  /\ (forall j, i0 <= j < next_check f i0 -> j mod f <> 0).
Proof.
  intros Hf. unfold next_check.
  pose proof (Nat.div_mod (i0 + f - 1) f ltac:(lia)) as Hdm.
  pose proof (Nat.mod_upper_bound (i0 + f - 1) f ltac:(lia)) as Hub.
  set (q := (i0 + f - 1) / f) in *. set (r := (i0 + f - 1) mod f) in *.
  split; [nia|]. split.
  - rewrite Nat.mul_comm. apply Nat.mod_mul. lia.
  - intros j [Hj1 Hj2] Hj0.
    apply Nat.mod_divides in Hj0; [|lia]. destruct Hj0 as [c Hc]. subst j.
    assert (c < q) by nia. assert (c + 1 <= q) by lia. nia.
Qed.

(* ---- a model built from a configuration file (TerminationModelBuilder::build, as of /repo dcfc7c1) has no zero
        frequency: the hypothesis [wf] of every C10 theorem holds for every configured model ---- *)
Lemma cast_u64_pos z : (1 <= z)%Z -> cast_u64 z <> 0%N.
Proof.
  intros H. unfold cast_u64. destruct (Z.ltb_spec z 0); [lia|]. lia.
Qed.

Lemma build_wf : forall fuel j t, build fuel j = Ok t -> wf t = true.
Proof.
  induction fuel as [|fu IH]; intros j t H; [discriminate|].
  cbn [build] in H.
  destruct (Json.jget j "type") as [tv|]; [|discriminate].
  destruct (Json.as_str tv) as [ty|]; [|discriminate].
  destruct (String.eqb (to_lowercase ty) "query_runtime").
  { destruct (Json.jget j "limit") as [dv|]; [|discriminate].
    destruct (as_duration dv) as [dur| | |]; cbn [bind] in H; try discriminate.
    destruct (get_config_i64 j "frequency") as [f| | |]; cbn [bind] in H; try discriminate.
    destruct (Z.ltb_spec f 1); [discriminate|]. injection H as <-.
    cbn [wf]. apply negb_true_iff, N.eqb_neq. now apply cast_u64_pos. }
  destruct (String.eqb (to_lowercase ty) "iterations").
  { destruct (get_config_i64 j "limit"); cbn [bind] in H; try discriminate. injection H as <-. reflexivity. }
  destruct (String.eqb (to_lowercase ty) "solution_size").
  { destruct (get_config_i64 j "limit"); cbn [bind] in H; try discriminate. injection H as <-. reflexivity. }
  destruct (String.eqb (to_lowercase ty) "combined"); [|discriminate].
  destruct (Json.jget j "models") as [mv|]; [|discriminate].
  destruct (Json.as_array mv) as [ms|]; [|discriminate].
  match type of H with bind ?r _ = _ => destruct r as [l| | |] eqn:Hgo end; cbn [bind] in H; try discriminate.
  injection H as <-. cbn [wf].
  revert l Hgo. induction ms as [|x r IHr]; intros l Hgo.
  - injection Hgo as <-. reflexivity.
  - destruct (build fu x) as [tx| | |] eqn:Hx; cbn [bind] in Hgo; try discriminate.
    match type of Hgo with bind ?r _ = _ => destruct r as [rest| | |] eqn:Hr end; cbn [bind] in Hgo; try discriminate.
    injection Hgo as <-. cbn [forallb]. rewrite (IH _ _ Hx). cbn [andb]. exact (IHr _ eq_refl).
Qed.
