(* C10 in its final form: Proofs/TerminationSearch.v (the loop under an arbitrary limit test) instantiated with the
   termination model of Model/Termination.v (TM.to_search t ck), plus the drivers (KSP sub-searches). *)
From Coq Require Import List Arith Bool String Lia NArith.
From stdpp Require Import gmap.
From RC Require Import Base.Res Base.Show Model.Search Model.Termination Proofs.Termination Proofs.TerminationSearch.
Import ListNotations.
Local Open Scope string_scope.

Import Search TM.

(* the text of the error raised when model t stops a search at counters (z, i) *)
Definition stop_msg (t : term) (ck : clock) (z i : nat) : string :=
  "terminated: " ++ join ", " (map leaf_msg (fired t ck z i)).

(* ---- bridges between the termination model and the abstract limit test ---- *)
Lemma to_search_stricter t1 t2 ck : wf t1 = true -> wf t2 = true -> stricter t1 t2 ->
  T_stricter (to_search t1 ck) (to_search t2 ck).
Proof.
  intros W1 W2 Hs z i H. apply (to_search_none_iff ck z i t1 W1) in H.
  apply (to_search_none_iff ck z i t2 W2).
  destruct (fires t2 ck z i) eqn:E; [|reflexivity]. apply Hs in E. congruence.
Qed.

Lemma to_search_leaf_fires t ck x z i : wf t = true -> In x (leaves t) -> fires x ck z i = true ->
  to_search t ck z i <> None.
Proof.
  intros W Hin Hx H. apply (to_search_none_iff ck z i t W) in H.
  rewrite (leaf_fires ck z i t x Hin Hx) in H. discriminate.
Qed.

Lemma to_search_some t ck z i : wf t = true -> fires t ck z i = true ->
  to_search t ck z i = Some (join ", " (map leaf_msg (fired t ck z i))).
Proof. intros W H. rewrite (to_search_spec ck z i t W), H. reflexivity. Qed.

Lemma to_search_some_inv t ck z i why : wf t = true -> to_search t ck z i = Some why ->
  fires t ck z i = true /\ why = join ", " (map leaf_msg (fired t ck z i)).
Proof.
  intros W H. rewrite (to_search_spec ck z i t W) in H.
  destruct (fires t ck z i); [|discriminate]. injection H as <-. auto.
Qed.

Section C10.
  Context {C St : Type}.
  Variable clt : C -> C -> bool.
  Variable cadd : C -> C -> C.
  Variable czero : C.
  Variable cfloor : C -> C.
  Variable g : graph.
  Variable frontier : nat -> St -> option nat -> res bool.
  Variable traverse : dir -> nat -> option nat -> St -> res (C * C * St).
  Variable estimate : nat -> nat -> St -> res C.
  Variable init_state : res St.

  Notation astar T := (run_a_star clt cadd czero cfloor g frontier traverse estimate init_state T).
  Notation vo T := (run_vertex_oriented clt cadd czero cfloor g frontier traverse estimate init_state T).
  Notation states T := (run_states clt cadd czero cfloor g frontier traverse estimate T).
  Notation loop T := (run_loop clt cadd czero cfloor g frontier traverse estimate T).
  Notation stepT T := (step clt cadd czero cfloor g frontier traverse estimate T).
  Notation enters := (enters czero g estimate init_state).
  Notation start := (start czero).

  (* ---- terminated_is_error ---- *)
  Lemma terminated_is_error t ck fuel d source target init h0 (s' : sstate C St) :
    wf t = true -> enters d source target init h0 ->
    In s' (states (to_search t ck) fuel d source target init (start source h0)) ->
    fires t ck (size (s_tree s')) (s_iters s') = true ->
    let e := stop_msg t ck (size (s_tree s')) (s_iters s') in
    astar (to_search t ck) fuel d source target = Err e
    /\ vo (to_search t ck) fuel d source target = Err e
    /\ fired t ck (size (s_tree s')) (s_iters s') <> []
    /\ (forall x, In x (fired t ck (size (s_tree s')) (s_iters s')) <->
                  In x (leaves t) /\ fires x ck (size (s_tree s')) (s_iters s') = true).
  Proof.
    intros W He Hin Hf e.
    assert (Ha : astar (to_search t ck) fuel d source target = Err e).
    { eapply astar_fires_err; [exact He|exact Hin|]. now apply to_search_some. }
    split; [exact Ha|]. split; [now apply vertex_oriented_err|]. split.
    - intros Hn. apply (fired_nil_iff ck _ _ t) in Hn. congruence.
    - intros x. apply fired_spec.
  Qed.

  (* one loop turn at which the model fires: the turn is the error, whatever the queue holds *)
  Lemma step_terminated t ck d source target init (s : sstate C St) :
    wf t = true -> fires t ck (size (s_tree s)) (s_iters s) = true ->
    stepT (to_search t ck) d source target init s = Err (stop_msg t ck (size (s_tree s)) (s_iters s)).
  Proof. intros W Hf. apply step_fires. now apply to_search_some. Qed.

  (* ---- limited_prefix_of_unlimited ---- *)
  Lemma limited_prefix_of_unlimited t ck fuel d source target :
    wf t = true ->
    (forall init s, exists k,
        states unlimited fuel d source target init s =
        (states (to_search t ck) fuel d source target init s ++ k)%list)
    /\ (forall r, vo (to_search t ck) fuel d source target = Ok r -> vo unlimited fuel d source target = Ok r)
    /\ (forall r, astar (to_search t ck) fuel d source target = Ok r -> astar unlimited fuel d source target = Ok r).
  Proof.
    intros W. split; [|split].
    - intros init s. apply states_stricter_prefix. apply T_stricter_unlimited.
    - intros r. apply vertex_oriented_stricter_ok. apply T_stricter_unlimited.
    - intros r. apply astar_stricter_ok. apply T_stricter_unlimited.
  Qed.

  (* a limited search is the unlimited search, or the explicit error naming the limits that fired, raised at a
     state the unlimited search visits *)
  Lemma limited_cases t ck fuel d source target :
    wf t = true ->
    vo (to_search t ck) fuel d source target = vo unlimited fuel d source target
    \/ exists init h0 (s' : sstate C St),
         enters d source target init h0
         /\ In s' (states unlimited fuel d source target init (start source h0))
         /\ fires t ck (size (s_tree s')) (s_iters s') = true
         /\ vo (to_search t ck) fuel d source target = Err (stop_msg t ck (size (s_tree s')) (s_iters s')).
  Proof.
    intros W.
    destruct (astar_limited_cases clt cadd czero cfloor g frontier traverse estimate init_state (to_search t ck)
                fuel d source target) as [H|[init [h0 [s' [why [He [Hin [Hf Herr]]]]]]]].
    - left. unfold run_vertex_oriented. now rewrite H.
    - right. exists init, h0, s'. destruct (to_search_some_inv _ _ _ _ _ W Hf) as [Hfi ->].
      split; [exact He|]. split; [exact Hin|]. split; [exact Hfi|]. now apply vertex_oriented_err.
  Qed.

  (* ---- success_monotone ---- *)
  Lemma success_monotone t1 t2 ck fuel d source target r :
    wf t1 = true -> wf t2 = true -> stricter t1 t2 ->
    vo (to_search t1 ck) fuel d source target = Ok r -> vo (to_search t2 ck) fuel d source target = Ok r.
  Proof. intros W1 W2 Hs. apply vertex_oriented_stricter_ok. now apply to_search_stricter. Qed.

  Lemma success_monotone_iter n n' ck fuel d source target r : (n <= n')%N ->
    vo (to_search (Iter n) ck) fuel d source target = Ok r -> vo (to_search (Iter n') ck) fuel d source target = Ok r.
  Proof. intros H. apply success_monotone; auto. now apply stricter_iter. Qed.
  Lemma success_monotone_size n n' ck fuel d source target r : (n <= n')%N ->
    vo (to_search (Size n) ck) fuel d source target = Ok r -> vo (to_search (Size n') ck) fuel d source target = Ok r.
  Proof. intros H. apply success_monotone; auto. now apply stricter_size. Qed.
  Lemma success_monotone_runtime n n' f ck fuel d source target r : f <> 0%N -> (n <= n')%N ->
    vo (to_search (Runtime n f) ck) fuel d source target = Ok r ->
    vo (to_search (Runtime n' f) ck) fuel d source target = Ok r.
  Proof.
    intros Hf H. apply success_monotone; try (cbn [wf]; now apply negb_true_iff, N.eqb_neq).
    now apply stricter_runtime.
  Qed.

  (* ---- iterations_bound: `iteration + 1 > limit` stops the turn that would be expansion number limit + 1 ---- *)
  Lemma iterations_bound t ck n fuel d source target init h0 :
    wf t = true -> In (Iter (N.of_nat n)) (leaves t) ->
    Forall (fun s' : sstate C St => s_iters s' <= n)
           (states (to_search t ck) fuel d source target init (start source h0))
    /\ (forall s', loop (to_search t ck) fuel d source target init (start source h0) = Ok s' -> s_iters s' < n)
    /\ (forall tree it, astar (to_search t ck) fuel d source target = Ok (tree, it) ->
                        it < n \/ (it = 0 /\ tree = ∅)).
  Proof.
    intros W Hin.
    assert (HT : forall z i, n <= i -> to_search t ck z i <> None).
    { intros z i Hle. apply (to_search_leaf_fires t ck _ z i W Hin). cbn [fires]. apply N.ltb_lt. lia. }
    split; [|split].
    - apply (iterations_bound_gen clt cadd czero cfloor g frontier traverse estimate d source target init _ n HT). cbn. lia.
    - apply (iterations_bound_gen clt cadd czero cfloor g frontier traverse estimate d source target init _ n HT). cbn. lia.
    - apply astar_iterations_bound. exact HT.
  Qed.

  (* ---- size_bound: `solution_size > limit` is tested before the expansion, so the tree passes the limit by at
          most the incident edges of the vertex expanded last ---- *)
  Lemma size_bound t ck n fuel d source target init h0 :
    wf t = true -> In (Size (N.of_nat n)) (leaves t) ->
    Forall (fun s' : sstate C St => exists v, size (s_tree s') <= n + List.length (incident d g v))
           (states (to_search t ck) fuel d source target init (start source h0))
    /\ Forall (fun s' : sstate C St => size (s_tree s') <= n + deg_bound d g)
              (states (to_search t ck) fuel d source target init (start source h0))
    /\ (forall s', loop (to_search t ck) fuel d source target init (start source h0) = Ok s' ->
                   size (s_tree s') <= n)
    /\ (forall tree it, astar (to_search t ck) fuel d source target = Ok (tree, it) -> size tree <= n).
  Proof.
    intros W Hin.
    assert (HT : forall z i, n < z -> to_search t ck z i <> None).
    { intros z i Hlt. apply (to_search_leaf_fires t ck _ z i W Hin). cbn [fires]. apply N.ltb_lt. lia. }
    pose proof (size_bound_gen clt cadd czero cfloor g frontier traverse estimate d source target init _ n HT fuel
                  (start source h0)) as [H1 H2].
    { cbn. rewrite map_size_empty. lia. }
    split; [exact H1|]. split; [|split].
    - eapply List.Forall_impl; [|exact H1]. intros s' [v Hv]. pose proof (incident_le_deg_bound d g v). lia.
    - exact H2.
    - apply astar_size_bound. exact HT.
  Qed.

  (* ---- runtime_stops_at_next_check ---- *)
  Lemma runtime_stops_at_next_check t ck lim f i0 fuel d source target init h0 :
    wf t = true -> 0 < f -> In (Runtime lim (N.of_nat f)) (leaves t) ->
    (forall i, i0 <= i -> (lim < ck i)%N) ->
    let j := next_check f i0 in
    i0 <= j < i0 + f /\ j mod f = 0 /\ (forall i, i0 <= i < j -> i mod f <> 0)
    /\ Forall (fun s' : sstate C St => s_iters s' <= j)
              (states (to_search t ck) fuel d source target init (start source h0))
    /\ (forall s', loop (to_search t ck) fuel d source target init (start source h0) = Ok s' -> s_iters s' < j)
    /\ (forall s : sstate C St, s_iters s = j ->
          exists why, stepT (to_search t ck) d source target init s = Err ("terminated: " ++ why)).
  Proof.
    intros W Hf Hin Hck j.
    destruct (next_check_spec f i0 Hf) as [Hj1 [Hj2 Hj3]]. fold j in Hj1, Hj2, Hj3.
    assert (HT : forall z, to_search t ck z j <> None).
    { intros z. apply (to_search_leaf_fires t ck _ z j W Hin). cbn [fires].
      apply andb_true_iff. split.
      - apply N.eqb_eq. rewrite <- Nat2N.inj_mod. rewrite Hj2. reflexivity.
      - apply N.ltb_lt. apply Hck. lia. }
    split; [exact Hj1|]. split; [exact Hj2|]. split; [exact Hj3|].
    pose proof (check_stops_gen clt cadd czero cfloor g frontier traverse estimate d source target init _ j HT fuel
                  (start source h0)) as [H1 H2].
    { cbn. lia. }
    split; [exact H1|]. split; [exact H2|].
    intros s Hs. destruct (to_search t ck (size (s_tree s)) (s_iters s)) as [why|] eqn:E.
    - exists why. now apply step_fires.
    - rewrite Hs in E. exfalso. exact (HT _ E).
  Qed.
End C10.

(* ---- combined = any ---- *)
Lemma combined_any l ck z i : wf (Combined l) = true ->
  terminate_search (Combined l) ck z i = Ok (existsb (fun m => fires m ck z i) l)
  /\ (fires (Combined l) ck z i = true <-> exists m, In m l /\ fires m ck z i = true).
Proof.
  intros W. split.
  - rewrite (terminate_search_fires ck z i _ W). reflexivity.
  - rewrite fires_combined. apply existsb_exists.
Qed.

(* ---- drivers: every sub-search under the limit ---- *)
Section Drivers.
  Context {Q R A : Type}.
  Variables o_lim o_unl : Q -> res R.

  (* if every limited sub-search that returns, returns the unlimited result, so does the driver *)
  Lemma exec_limited_ok :
    (forall q r, o_lim q = Ok r -> o_unl q = Ok r) ->
    forall (p : prog Q R A) a, exec o_lim p = Ok a -> exec o_unl p = Ok a.
  Proof.
    intros Ho. induction p as [a0|q k IH]; intros a H; cbn [exec] in *; [exact H|].
    apply res_bind_ok in H. destruct H as [r [Hq Hk]]. rewrite (Ho _ _ Hq). cbn [bind]. eauto.
  Qed.

  (* if every limited sub-search is the unlimited one or the explicit error, so is the driver *)
  Lemma exec_limited_cases :
    (forall q, o_lim q = o_unl q \/ exists why, o_lim q = Err ("terminated: " ++ why)) ->
    forall (p : prog Q R A),
      exec o_lim p = exec o_unl p \/ exists why, exec o_lim p = Err ("terminated: " ++ why).
  Proof.
    intros Ho. induction p as [a0|q k IH]; cbn [exec]; [left; reflexivity|].
    destruct (Ho q) as [Hq|[why Hq]].
    - rewrite Hq. destruct (o_unl q) as [r| | |]; cbn [bind]; try (left; reflexivity). apply IH.
    - right. exists why. now rewrite Hq.
  Qed.
End Drivers.
