(* The runner's single-pass search (Model/TerminationRun.v: loop_traced / vertex_traced) is the model: its result is
   Search.run_vertex_oriented and its trace is the counters of TM.run_states of the same run. *)
From Coq Require Import List Arith Bool String Lia.
From stdpp Require Import gmap.
From RC Require Import Base.Res Model.Search Model.Termination Model.TerminationRun.
Import ListNotations.
Local Open Scope string_scope.
Import Search.

Section Spec.
  Context {C St : Type}.
  Variable clt : C -> C -> bool.
  Variable cadd : C -> C -> C.
  Variable czero : C.
  Variable cfloor : C -> C.
  Variable g : graph.
  Variable frontier : nat -> St -> option nat -> res bool.
  Variable traverse : dir -> nat -> option nat -> St -> res (C * C * St).
  Variable estimate : nat -> nat -> St -> res C.
  Variable init_state : res St.
  Variable T : nat -> nat -> option string.

  Notation loop := (run_loop clt cadd czero cfloor g frontier traverse estimate T).
  Notation states := (TM.run_states clt cadd czero cfloor g frontier traverse estimate T).
  Notation traced := (TR.loop_traced clt cadd czero cfloor g frontier traverse estimate T).

  Lemma loop_traced_spec : forall fuel d source target init (s : sstate C St) acc,
    traced fuel d source target init s acc
    = (loop fuel d source target init s,
       (rev acc ++ map (TM.counters (C:=C) (St:=St)) (states fuel d source target init s))%list).
  Proof.
    induction fuel as [|f IH]; intros d source target init s acc.
    - cbn [TR.loop_traced run_loop TM.run_states map]. now rewrite app_nil_r.
    - cbn [TR.loop_traced run_loop TM.run_states].
      destruct (step clt cadd czero cfloor g frontier traverse estimate T d source target init s)
        as [[s'|s']| | |]; cbn [bind map rev]; try reflexivity.
      rewrite IH. cbn [rev]. now rewrite <- app_assoc.
  Qed.

  (* the counters handed to the limit test during run_vertex_oriented *)
  Definition search_counters (fuel : nat) (d : dir) (source : nat) (target : option nat) : list (nat * nat) :=
    if negb (Nat.ltb source (nverts g)) then []
    else if (match target with Some t => Nat.eqb t source | None => false end) then []
    else match init_state with
         | Ok init =>
             match (match target with None => Ok czero | Some t => estimate source t init end) with
             | Ok h0 => map (TM.counters (C:=C) (St:=St))
                            (states fuel d source target init (mkS [(source, h0)] {[source := czero]} ∅ 0))
             | _ => []
             end
         | _ => []
         end.

  Theorem vertex_traced_spec : forall fuel d source target,
    TR.vertex_traced clt cadd czero cfloor g frontier traverse estimate init_state T fuel d source target
    = (run_vertex_oriented clt cadd czero cfloor g frontier traverse estimate init_state T fuel d source target,
       search_counters fuel d source target).
  Proof.
    intros fuel d source target. unfold TR.vertex_traced, search_counters.
    destruct (negb (Nat.ltb source (nverts g))) eqn:E0; [reflexivity|].
    destruct (match target with Some t => Nat.eqb t source | None => false end) eqn:E1; [reflexivity|].
    destruct init_state as [init| | |] eqn:Ei; try reflexivity.
    destruct (match target with None => Ok czero | Some t => estimate source t init end) as [h0| | |] eqn:Eh;
      try reflexivity.
    rewrite loop_traced_spec. cbn [fst snd rev app]. f_equal.
    unfold run_vertex_oriented, run_a_star. rewrite E0, E1. cbn [bind]. rewrite Eh. cbn [bind].
    destruct (loop fuel d source target init (mkS [(source, h0)] {[source := czero]} ∅ 0)) as [s| | |];
      reflexivity.
  Qed.
End Spec.
