(* The search loop of Model/Search.v under an arbitrary limit test [T : tree size -> iterations -> option why]:
   a limit can only stop the loop (simulation with the unlimited loop), what it bounds, and what it returns.
   Everything here is generic in the graph, the cost type, the frontier / traversal / estimate models, the
   direction, the endpoints and the fuel.  Props/C10.v instantiates T with the termination model. *)
From Coq Require Import List Arith Bool String Lia NArith.
From stdpp Require Import gmap.
From RC Require Import Base.Res Model.Search Model.Termination.
Import ListNotations.
Local Open Scope string_scope.

Import Search.

(* T1 fires whenever T2 does *)
Definition T_stricter (T1 T2 : nat -> nat -> option string) : Prop :=
  forall z i, T1 z i = None -> T2 z i = None.

Lemma res_bind_ok {A B} (r : res A) (f : A -> res B) b :
  bind r f = Ok b -> exists a, r = Ok a /\ f a = Ok b.
Proof. destruct r; cbn; intros H; try discriminate. eauto. Qed.

Section Loop.
  Context {C St : Type}.
  Variable clt : C -> C -> bool.
  Variable cadd : C -> C -> C.
  Variable czero : C.
  Variable cfloor : C -> C.
  Variable g : graph.
  Variable frontier : nat -> St -> option nat -> res bool.
  Variable traverse : dir -> nat -> option nat -> St -> res (C * C * St).
  Variable estimate : nat -> nat -> St -> res C.
  Variable d : dir.
  Variable source : nat.
  Variable target : option nat.
  Variable init : St.

  Notation sst := (sstate C St).
  Notation stepT T := (step clt cadd czero cfloor g frontier traverse estimate T d source target init).
  Notation loopT T fuel := (run_loop clt cadd czero cfloor g frontier traverse estimate T fuel d source target init).
  Notation statesT T fuel := (TM.run_states clt cadd czero cfloor g frontier traverse estimate T fuel d source target init).
  Notation relaxT := (relax clt cadd czero cfloor g frontier traverse estimate).
  Notation relax_allT := (relax_all clt cadd czero cfloor g frontier traverse estimate).
  Notation tsize s := (size (s_tree s)).

  (* ---- the limit test sits in front of everything else in a loop turn ---- *)
  Lemma step_fires T (s : sst) why :
    T (tsize s) (s_iters s) = Some why -> stepT T s = Err ("terminated: " ++ why).
  Proof. intros H. unfold step. now rewrite H. Qed.

  Lemma step_passes T (s : sst) :
    T (tsize s) (s_iters s) = None -> stepT T s = stepT TM.unlimited s.
  Proof. intros H. unfold step. now rewrite H. Qed.

  Lemma step_ok_passes T (s : sst) r : stepT T s = Ok r -> T (tsize s) (s_iters s) = None.
  Proof.
    intros H. destruct (T (tsize s) (s_iters s)) eqn:E; [|reflexivity].
    rewrite (step_fires _ _ _ E) in H. discriminate.
  Qed.

  (* ---- one edge relaxation: the iteration counter is untouched, the tree grows by at most one entry ---- *)
  Lemma relax_counters dd tgt cs le (s s' : sst) eid :
    relaxT dd tgt cs le s eid = Ok s' ->
    s_iters s' = s_iters s /\ tsize s <= tsize s' <= S (tsize s).
  Proof.
    unfold relax. destruct (get_edge g eid) as [e|]; [|discriminate].
    destruct (frontier eid cs le) as [ok| | |]; cbn [bind]; try discriminate.
    destruct ok; cbn [negb]; [|intros [= <-]; lia].
    destruct (traverse dd eid le cs) as [[[ac tc] st']| | |]; cbn [bind]; try discriminate.
    destruct (s_g s !! term_vertex dd e) as [gcur|]; [|intros [= <-]; lia].
    match goal with |- (if ?b then _ else _) = _ -> _ => destruct b end; [|intros [= <-]; lia].
    match goal with |- bind ?r _ = _ -> _ => destruct r as [h| | |] end; cbn [bind]; try discriminate.
    intros [= <-]. cbn [s_iters s_tree]. split; [reflexivity|].
    rewrite map_size_insert. destruct (s_tree s !! key_vertex dd e); unfold id; lia.
  Qed.

  Lemma relax_all_counters dd tgt cs le es : forall (s s' : sst),
    relax_allT dd tgt cs le s es = Ok s' ->
    s_iters s' = s_iters s /\ tsize s <= tsize s' <= tsize s + List.length es.
  Proof.
    induction es as [|eid r IH]; intros s s' H; cbn [relax_all] in H.
    - injection H as <-. cbn. lia.
    - apply res_bind_ok in H. destruct H as [s1 [H1 H2]].
      apply relax_counters in H1. apply IH in H2. cbn [List.length]. lia.
  Qed.

  (* ---- one loop turn ---- *)
  Lemma step_inl T (s s' : sst) :
    stepT T s = Ok (inl s') ->
    T (tsize s) (s_iters s) = None
    /\ s_iters s' = S (s_iters s)
    /\ exists v, tsize s <= tsize s' <= tsize s + List.length (incident d g v).
  Proof.
    intros H. split; [exact (step_ok_passes _ _ _ H)|].
    unfold step in H. destruct (T (tsize s) (s_iters s)); [discriminate|].
    destruct (pq_pop clt (s_pq s)) as [[[v c] q']|].
    2:{ destruct target; discriminate. }
    match type of H with (if ?b then _ else _) = _ => destruct b end; [discriminate|].
    apply res_bind_ok in H. destruct H as [[le cs] [_ H]].
    apply res_bind_ok in H. destruct H as [s2 [H2 H]].
    injection H as <-. cbn [s_iters s_tree].
    apply relax_all_counters in H2. cbn [s_iters s_tree] in H2.
    split; [lia|]. exists v. lia.
  Qed.

  Lemma step_inr T (s s' : sst) :
    stepT T s = Ok (inr s') ->
    T (tsize s) (s_iters s) = None /\ s_tree s' = s_tree s /\ s_iters s' = s_iters s /\ s_g s' = s_g s.
  Proof.
    intros H. split; [exact (step_ok_passes _ _ _ H)|].
    unfold step in H. destruct (T (tsize s) (s_iters s)); [discriminate|].
    destruct (pq_pop clt (s_pq s)) as [[[v c] q']|].
    2:{ destruct target; [discriminate|]. injection H as <-. auto. }
    match type of H with (if ?b then _ else _) = _ => destruct b end.
    - injection H as <-. auto.
    - apply res_bind_ok in H. destruct H as [[le cs] [_ H]].
      apply res_bind_ok in H. destruct H as [s2 [_ H]]. discriminate.
  Qed.

  (* ---- simulation: a stricter test can only stop the loop earlier ---- *)
  Lemma step_stricter T1 T2 (s : sst) :
    T_stricter T1 T2 -> T1 (tsize s) (s_iters s) = None -> stepT T1 s = stepT T2 s.
  Proof. intros HT H1. rewrite (step_passes T1 _ H1), (step_passes T2 _ (HT _ _ H1)). reflexivity. Qed.

  Theorem loop_stricter_ok T1 T2 : T_stricter T1 T2 ->
    forall fuel (s s' : sst), loopT T1 fuel s = Ok s' -> loopT T2 fuel s = Ok s'.
  Proof.
    intros HT. induction fuel as [|f IH]; intros s s' H; [discriminate|].
    cbn [run_loop] in *. destruct (T1 (tsize s) (s_iters s)) eqn:E.
    - rewrite (step_fires _ _ _ E) in H. discriminate.
    - rewrite <- (step_stricter T1 T2 s HT E).
      destruct (stepT T1 s) as [[s1|s1]| | |]; cbn [bind] in *; try discriminate; auto.
  Qed.

  Theorem states_stricter_prefix T1 T2 : T_stricter T1 T2 ->
    forall fuel (s : sst), exists k, statesT T2 fuel s = (statesT T1 fuel s ++ k)%list.
  Proof.
    intros HT. induction fuel as [|f IH]; intros s; [exists []; reflexivity|].
    cbn [TM.run_states]. destruct (T1 (tsize s) (s_iters s)) eqn:E.
    - rewrite (step_fires T1 _ _ E). eexists. reflexivity.
    - rewrite <- (step_stricter T1 T2 s HT E).
      destruct (stepT T1 s) as [[s1|s1]| | |]; try (exists []; reflexivity).
      destruct (IH s1) as [k Hk]. exists k. cbn. now rewrite Hk.
  Qed.

  Lemma T_stricter_unlimited T : T_stricter T TM.unlimited.
  Proof. intros z i _. reflexivity. Qed.

  (* ---- a limited loop either behaves as the unlimited one or stops at a state of the unlimited run with
          the explicit error ---- *)
  Theorem loop_limited_cases T : forall fuel (s : sst),
    loopT T fuel s = loopT TM.unlimited fuel s
    \/ exists s' why, In s' (statesT TM.unlimited fuel s)
                      /\ T (tsize s') (s_iters s') = Some why
                      /\ loopT T fuel s = Err ("terminated: " ++ why).
  Proof.
    induction fuel as [|f IH]; intros s; [left; reflexivity|].
    cbn [run_loop TM.run_states]. destruct (T (tsize s) (s_iters s)) eqn:E.
    - right. exists s, s0. split; [left; reflexivity|]. split; [exact E|].
      now rewrite (step_fires _ _ _ E).
    - rewrite (step_passes T _ E).
      destruct (stepT TM.unlimited s) as [[s1|s1]| | |]; cbn [bind]; try (left; reflexivity).
      destruct (IH s1) as [H|[s' [why [Hin [Hf He]]]]]; [left; exact H|].
      right. exists s', why. split; [right; exact Hin|]. auto.
  Qed.

  (* ---- hitting a limit is an explicit error, never a result ---- *)
  Theorem loop_fires_err T : forall fuel (s s' : sst) why,
    In s' (statesT T fuel s) -> T (tsize s') (s_iters s') = Some why ->
    loopT T fuel s = Err ("terminated: " ++ why).
  Proof.
    induction fuel as [|f IH]; intros s s' why Hin Hf; [destruct Hin|].
    cbn [TM.run_states] in Hin. cbn [run_loop]. destruct Hin as [<-|Hin].
    - now rewrite (step_fires _ _ _ Hf).
    - destruct (stepT T s) as [[s1|s1]| | |]; try destruct Hin.
      cbn [bind]. eauto.
  Qed.

  (* the loop ends with Ok only through a turn that passed the test and left the tree and the counter alone *)
  Lemma loop_ok_last T : forall fuel (s s' : sst),
    loopT T fuel s = Ok s' ->
    exists s0, In s0 (statesT T fuel s) /\ stepT T s0 = Ok (inr s').
  Proof.
    induction fuel as [|f IH]; intros s s' H; [discriminate|].
    cbn [run_loop TM.run_states] in *.
    destruct (stepT T s) as [[s1|s1]| | |] eqn:E; cbn [bind] in H; try discriminate.
    - destruct (IH _ _ H) as [s0 [Hin Hs0]]. exists s0. split; [right; exact Hin|exact Hs0].
    - injection H as <-. exists s. split; [left; reflexivity|exact E].
  Qed.

  (* ---- invariants of the visited states ---- *)
  Lemma states_invariant T (P : sst -> Prop) :
    (forall s s', P s -> stepT T s = Ok (inl s') -> P s') ->
    forall fuel s, P s -> Forall P (statesT T fuel s).
  Proof.
    intros Hstep. induction fuel as [|f IH]; intros s Hs; [constructor|].
    cbn [TM.run_states]. constructor; [exact Hs|].
    destruct (stepT T s) as [[s1|s1]| | |] eqn:E; try constructor.
    apply IH. eauto.
  Qed.

  (* consecutive visited states: exactly one more iteration, at most one vertex's incident edges more tree *)
  Lemma states_consecutive T : forall fuel (s : sst) pre a b post,
    statesT T fuel s = (pre ++ a :: b :: post)%list ->
    s_iters b = S (s_iters a)
    /\ T (tsize a) (s_iters a) = None
    /\ exists v, tsize a <= tsize b <= tsize a + List.length (incident d g v).
  Proof.
    induction fuel as [|f IH]; intros s pre a b post H.
    - destruct pre; discriminate.
    - cbn [TM.run_states] in H. destruct pre as [|p pre]; cbn [app] in H.
      + injection H as <- H.
        destruct (stepT T s) as [[s1|s1]| | |] eqn:E; try discriminate.
        destruct f as [|f']; [discriminate|]. cbn [TM.run_states] in H. injection H as <- _.
        apply step_inl in E. tauto.
      + injection H as _ H.
        destruct (stepT T s) as [[s1|s1]| | |] eqn:E; try (destruct pre; discriminate).
        exact (IH _ _ _ _ _ H).
  Qed.

  (* ---- the three kinds of bound, for any test that fires at least when the corresponding limit does ---- *)

  (* iterations: the test fires whenever iterations >= n *)
  Theorem iterations_bound_gen T n :
    (forall z i, n <= i -> T z i <> None) ->
    forall fuel (s : sst), s_iters s <= n ->
      Forall (fun s' => s_iters s' <= n) (statesT T fuel s)
      /\ (forall s', loopT T fuel s = Ok s' -> s_iters s' < n).
  Proof.
    intros HT fuel s Hs. split.
    - apply states_invariant; [|exact Hs].
      intros a b Ha Hab. apply step_inl in Hab. destruct Hab as [Hp [Hi _]].
      destruct (le_lt_dec n (s_iters a)) as [Hge|Hlt]; [exfalso; exact (HT _ _ Hge Hp)|lia].
    - intros s' Hok. destruct (loop_ok_last _ _ _ _ Hok) as [s0 [_ H0]].
      apply step_inr in H0. destruct H0 as [Hp [_ [Hi _]]].
      destruct (le_lt_dec n (s_iters s0)) as [Hge|Hlt]; [exfalso; exact (HT _ _ Hge Hp)|lia].
  Qed.

  (* solution size: the test fires whenever the tree has more than n entries *)
  Theorem size_bound_gen T n :
    (forall z i, n < z -> T z i <> None) ->
    forall fuel (s : sst), tsize s <= n ->
      Forall (fun s' => exists v, tsize s' <= n + List.length (incident d g v)) (statesT T fuel s)
      /\ (forall s', loopT T fuel s = Ok s' -> tsize s' <= n).
  Proof.
    intros HT fuel s Hs. split.
    - apply states_invariant; [|exists source; lia].
      intros a b _ Hab. apply step_inl in Hab. destruct Hab as [Hp [_ [v Hv]]].
      exists v. destruct (le_lt_dec (tsize a) n) as [Hle|Hgt]; [lia|exfalso; exact (HT _ _ Hgt Hp)].
    - intros s' Hok. destruct (loop_ok_last _ _ _ _ Hok) as [s0 [_ H0]].
      apply step_inr in H0. destruct H0 as [Hp [Ht _]]. rewrite Ht.
      destruct (le_lt_dec (tsize s0) n) as [Hle|Hgt]; [lia|exfalso; exact (HT _ _ Hgt Hp)].
  Qed.

  (* a scheduled check at iteration j that must fail: nothing runs at or beyond iteration j *)
  Theorem check_stops_gen T j :
    (forall z, T z j <> None) ->
    forall fuel (s : sst), s_iters s <= j ->
      Forall (fun s' => s_iters s' <= j) (statesT T fuel s)
      /\ (forall s', loopT T fuel s = Ok s' -> s_iters s' < j).
  Proof.
    intros HT fuel s Hs. split.
    - apply states_invariant; [|exact Hs].
      intros a b Ha Hab. apply step_inl in Hab. destruct Hab as [Hp [Hi _]].
      destruct (Nat.eq_dec (s_iters a) j) as [He|Hne]; [exfalso; rewrite He in Hp; exact (HT _ Hp)|lia].
    - intros s' Hok. destruct (loop_ok_last _ _ _ _ Hok) as [s0 [Hin H0]].
      assert (Hall : Forall (fun s' => s_iters s' <= j) (statesT T fuel s)).
      { apply states_invariant; [|exact Hs].
        intros a b Ha Hab. apply step_inl in Hab. destruct Hab as [Hp [Hi _]].
        destruct (Nat.eq_dec (s_iters a) j) as [He|Hne]; [exfalso; rewrite He in Hp; exact (HT _ Hp)|lia]. }
      rewrite List.Forall_forall in Hall. specialize (Hall _ Hin).
      apply step_inr in H0. destruct H0 as [Hp [_ [Hi _]]].
      destruct (Nat.eq_dec (s_iters s0) j) as [He|Hne]; [exfalso; rewrite He in Hp; exact (HT _ Hp)|lia].
  Qed.
End Loop.

(* every vertex's incident-edge count in the search direction is at most TM.deg_bound *)
Lemma edges_where_in f l : forall i eid, In eid (edges_where f l i) ->
  exists e, nth_error l (eid - i) = Some e /\ f e = true /\ i <= eid.
Proof.
  induction l as [|e r IH]; intros i eid Hin; [destruct Hin|].
  cbn [edges_where] in Hin. destruct (f e) eqn:Ef.
  - destruct Hin as [<-|Hin].
    + exists e. rewrite Nat.sub_diag. auto.
    + destruct (IH _ _ Hin) as [e' [Hn [Hf Hle]]]. exists e'.
      replace (eid - i) with (S (eid - S i)) by lia. cbn. auto with arith.
  - destruct (IH _ _ Hin) as [e' [Hn [Hf Hle]]]. exists e'.
    replace (eid - i) with (S (eid - S i)) by lia. cbn. auto with arith.
Qed.

Lemma list_max_ge l x : In x l -> x <= list_max l.
Proof.
  induction l as [|y r IH]; intros Hin; [destruct Hin|].
  change (list_max (y :: r)) with (Nat.max y (list_max r)).
  destruct Hin as [<-|Hin]; [lia|]. specialize (IH Hin). lia.
Qed.

Lemma incident_le_deg_bound d g v : List.length (incident d g v) <= TM.deg_bound d g.
Proof.
  destruct (incident d g v) as [|eid r] eqn:E; [cbn; lia|]. rewrite <- E.
  assert (Hin : In eid (incident d g v)) by (rewrite E; left; reflexivity).
  assert (He : exists e, In e (gedges g) /\ term_vertex d e = v).
  { destruct d; cbn [incident] in Hin; unfold out_edges, in_edges in Hin;
      apply edges_where_in in Hin; destruct Hin as [e [Hn [Hf _]]];
      exists e; (split; [eapply nth_error_In; exact Hn|]); cbn [term_vertex];
      now apply Nat.eqb_eq. }
  destruct He as [e [He <-]]. unfold TM.deg_bound. apply list_max_ge.
  apply in_map_iff. exists e. auto.
Qed.

(* ---- run_a_star / run_vertex_oriented ---- *)
Section AStar.
  Context {C St : Type}.
  Variable clt : C -> C -> bool.
  Variable cadd : C -> C -> C.
  Variable czero : C.
  Variable cfloor : C -> C.
  Variable g : graph.
  Variable frontier : nat -> St -> option nat -> res bool.
  Variable traverse : dir -> nat -> option nat -> St -> res (C * C * St).
  Variable estimate : nat -> nat -> St -> res C.
  Variable init_state : res St.

  Notation astar T := (run_a_star clt cadd czero cfloor g frontier traverse estimate init_state T).
  Notation vertex_oriented T := (run_vertex_oriented clt cadd czero cfloor g frontier traverse estimate init_state T).
  Notation loopT T fuel d source target init :=
    (run_loop clt cadd czero cfloor g frontier traverse estimate T fuel d source target init).
  Notation statesT T fuel d source target init :=
    (TM.run_states clt cadd czero cfloor g frontier traverse estimate T fuel d source target init).

  (* the initial state of the loop *)
  Definition start (source : nat) (h0 : C) : sstate C St := mkS [(source, h0)] {[source := czero]} ∅ 0.

  (* run_a_star reaches the loop: the source is a vertex of the graph, source <> target, the initial state and the
     first estimate are available *)
  Definition enters (d : dir) (source : nat) (target : option nat) (init : St) (h0 : C) : Prop :=
    Nat.ltb source (nverts g) = true
    /\ (match target with Some t => Nat.eqb t source | None => false end) = false
    /\ init_state = Ok init
    /\ (match target with None => Ok czero | Some t => estimate source t init end) = Ok h0.

  Lemma astar_enters T fuel d source target init h0 :
    enters d source target init h0 ->
    astar T fuel d source target =
    (do s <- loopT T fuel d source target init (start source h0); Ok (s_tree s, s_iters s)).
  Proof.
    intros [H0 [H1 [H2 H3]]]. unfold run_a_star. rewrite H0, H1, H2. cbn [negb bind]. rewrite H3. reflexivity.
  Qed.

  Lemma astar_ok_enters T fuel d source target tree it :
    astar T fuel d source target = Ok (tree, it) ->
    (tree = ∅ /\ it = 0 /\ Nat.ltb source (nverts g) = true
     /\ (match target with Some t => Nat.eqb t source | None => false end) = true)
    \/ exists init h0 s, enters d source target init h0
                         /\ loopT T fuel d source target init (start source h0) = Ok s
                         /\ tree = s_tree s /\ it = s_iters s.
  Proof.
    unfold run_a_star. intros H.
    destruct (Nat.ltb source (nverts g)) eqn:E0; cbn [negb] in H; [|discriminate].
    destruct (match target with Some t => Nat.eqb t source | None => false end) eqn:E.
    - injection H as <- <-. left. auto.
    - right. apply res_bind_ok in H. destruct H as [init [Hi H]].
      apply res_bind_ok in H. destruct H as [h0 [Hh H]].
      apply res_bind_ok in H. destruct H as [s [Hs H]]. injection H as <- <-.
      exists init, h0, s. unfold enters. auto.
  Qed.

  (* limited result = the result under any weaker limit (in particular the unlimited result) *)
  Theorem astar_stricter_ok T1 T2 : T_stricter T1 T2 ->
    forall fuel d source target r, astar T1 fuel d source target = Ok r -> astar T2 fuel d source target = Ok r.
  Proof.
    intros HT fuel d source target [tree it] H.
    destruct (astar_ok_enters _ _ _ _ _ _ _ H) as [[-> [-> [E0 E]]]|[init [h0 [s [He [Hl [-> ->]]]]]]].
    - unfold run_a_star. now rewrite E0, E.
    - rewrite (astar_enters T2 fuel _ _ _ _ _ He).
      rewrite (loop_stricter_ok clt cadd czero cfloor g frontier traverse estimate d source target init T1 T2 HT _ _ _ Hl). reflexivity.
  Qed.

  Theorem vertex_oriented_stricter_ok T1 T2 : T_stricter T1 T2 ->
    forall fuel d source target r,
      vertex_oriented T1 fuel d source target = Ok r -> vertex_oriented T2 fuel d source target = Ok r.
  Proof.
    intros HT fuel d source target r H. unfold run_vertex_oriented in *.
    apply res_bind_ok in H. destruct H as [[tree it] [Ha H]].
    rewrite (astar_stricter_ok T1 T2 HT _ _ _ _ _ Ha). exact H.
  Qed.

  (* an error of the loop is the error of the whole search: no backtracking happens, no route is built *)
  Theorem vertex_oriented_err T fuel d source target e :
    astar T fuel d source target = Err e -> vertex_oriented T fuel d source target = Err e.
  Proof. intros H. unfold run_vertex_oriented. now rewrite H. Qed.

  Theorem astar_fires_err T fuel d source target init h0 s' why :
    enters d source target init h0 ->
    In s' (statesT T fuel d source target init (start source h0)) ->
    T (size (s_tree s')) (s_iters s') = Some why ->
    astar T fuel d source target = Err ("terminated: " ++ why).
  Proof.
    intros He Hin Hf. rewrite (astar_enters T fuel _ _ _ _ _ He).
    now rewrite (loop_fires_err clt cadd czero cfloor g frontier traverse estimate d source target init T _ _ _ _ Hin Hf).
  Qed.

  (* a limited search that fails either fails exactly as the unlimited one, or with the explicit error raised at a
     state of the unlimited run *)
  Theorem astar_limited_cases T fuel d source target :
    astar T fuel d source target = astar TM.unlimited fuel d source target
    \/ exists init h0 s' why,
         enters d source target init h0
         /\ In s' (statesT TM.unlimited fuel d source target init (start source h0))
         /\ T (size (s_tree s')) (s_iters s') = Some why
         /\ astar T fuel d source target = Err ("terminated: " ++ why).
  Proof.
    unfold run_a_star.
    destruct (Nat.ltb source (nverts g)) eqn:E0; cbn [negb]; [|left; reflexivity].
    destruct (match target with Some t => Nat.eqb t source | None => false end) eqn:E; [left; reflexivity|].
    destruct init_state as [init| | |] eqn:Ei; cbn [bind]; try (left; reflexivity).
    destruct (match target with None => Ok czero | Some t => estimate source t init end) as [h0| | |] eqn:Eh;
      cbn [bind]; try (left; reflexivity).
    destruct (loop_limited_cases clt cadd czero cfloor g frontier traverse estimate d source target init T fuel
                (start source h0)) as [H|[s' [why [Hin [Hf He]]]]].
    - left. unfold start in H. now rewrite H.
    - right. exists init, h0, s', why. unfold enters. unfold start in He. rewrite He. auto.
  Qed.

  (* bounds on what a search returns *)
  Theorem astar_iterations_bound T n : (forall z i, n <= i -> T z i <> None) ->
    forall fuel d source target tree it, astar T fuel d source target = Ok (tree, it) ->
      it < n \/ (it = 0 /\ tree = ∅).
  Proof.
    intros HT fuel d source target tree it H.
    destruct (astar_ok_enters _ _ _ _ _ _ _ H) as [[-> [-> _]]|[init [h0 [s [He [Hl [-> ->]]]]]]]; [right; auto|].
    left. eapply (iterations_bound_gen clt cadd czero cfloor g frontier traverse estimate d source target init T n HT);
      [|exact Hl]. cbn. lia.
  Qed.

  Theorem astar_size_bound T n : (forall z i, n < z -> T z i <> None) ->
    forall fuel d source target tree it, astar T fuel d source target = Ok (tree, it) -> size tree <= n.
  Proof.
    intros HT fuel d source target tree it H.
    destruct (astar_ok_enters _ _ _ _ _ _ _ H) as [[-> [-> _]]|[init [h0 [s [He [Hl [-> ->]]]]]]].
    - rewrite map_size_empty. lia.
    - eapply (size_bound_gen clt cadd czero cfloor g frontier traverse estimate d source target init T n HT);
        [|exact Hl]. cbn. rewrite map_size_empty. lia.
  Qed.
End AStar.
