(* Property C03, part 2: in exact rationals, the state a route reports is the declared initial state plus the sums of
   Model/TraversalSpec.v -- for every graph, speed table, heading table, turn-delay table, unit configuration, cost
   functions, every edge sequence of any length, both orientations. *)
From Coq Require Import ZArith QArith Qabs List String Bool Lia Lra.
From RC Require Import Base.Num Base.Res Model.Units Model.UnitsRun Model.StateOps Model.Traversal Model.TraversalSpec
  Proofs.Units Proofs.StateOps Proofs.TraversalWalk Gen.TurnTable.
Import ListNotations.
Import Units StateOps Traversal TSpec TurnTable.
Local Open Scope Q_scope.

(* ------------------------------------------------------------------ every table factor is positive *)
Definition pos2 {U} (k : U -> U -> Q) (p : U * U) : bool := Qltb 0 (k (fst p) (snd p)).
Lemma k_dist_pos_table : forallb (pos2 k_dist) (list_prod all_dist all_dist) = true.
Proof. vm_compute. reflexivity. Qed.
Lemma k_time_pos_table : forallb (pos2 k_time) (list_prod all_time all_time) = true.
Proof. vm_compute. reflexivity. Qed.
Lemma k_speed_pos_table : forallb (pos2 k_speed) (list_prod all_speed all_speed) = true.
Proof. vm_compute. reflexivity. Qed.

Lemma k_dist_pos : forall u v, 0 < k_dist u v.
Proof.
  intros u v. pose proof k_dist_pos_table as H. rewrite forallb_forall in H.
  apply Qltb_spec. exact (H (u, v) (in_prod _ _ _ _ (all_dist_complete u) (all_dist_complete v))).
Qed.
Lemma k_time_pos : forall u v, 0 < k_time u v.
Proof.
  intros u v. pose proof k_time_pos_table as H. rewrite forallb_forall in H.
  apply Qltb_spec. exact (H (u, v) (in_prod _ _ _ _ (all_time_complete u) (all_time_complete v))).
Qed.
Lemma k_speed_pos : forall u v, 0 < k_speed u v.
Proof.
  intros u v. pose proof k_speed_pos_table as H. rewrite forallb_forall in H.
  apply Qltb_spec. exact (H (u, v) (in_prod _ _ _ _ (all_speed_complete u) (all_speed_complete v))).
Qed.

Lemma convert_distance_nonneg : forall u v (x : Q), 0 <= x -> 0 <= convert_distance QN u v x.
Proof.
  intros u v x Hx. rewrite convert_distance_factor. apply Qmult_le_0_compat; [exact Hx|]. apply Qlt_le_weak, k_dist_pos.
Qed.
Lemma convert_time_nonneg : forall u v (x : Q), 0 <= x -> 0 <= convert_time QN u v x.
Proof.
  intros u v x Hx. rewrite convert_time_factor. apply Qmult_le_0_compat; [exact Hx|]. apply Qlt_le_weak, k_time_pos.
Qed.

Lemma turn_eqb_eq : forall a b, turn_eqb a b = true -> a = b.
Proof. intros a b H. destruct a, b; try reflexivity; discriminate H. Qed.

(* ------------------------------------------------------------------ the model's turn class is the specification's *)
(* for ALL headings on which the code does not fail (any integers, not only 0..359) *)
Lemma in_angle_range : forall a, (-180 <= a <= 180)%Z -> In a angle_range.
Proof.
  intros a Ha. unfold angle_range. apply in_map_iff. exists (Z.to_nat (a + 180)). split; [lia|]. apply in_seq. lia.
Qed.
Lemma rows_in_range : forallb (fun r => (-180 <=? fst (fst r))%Z && (snd (fst r) <=? 180)%Z) turn_ranges = true.
Proof. vm_compute. reflexivity. Qed.
Lemma from_angle_sweep :
  forallb angle_ok angle_range = true.
Proof. vm_compute. reflexivity. Qed.

Lemma first_row_bounds : forall rows a nm,
  first_row rows a = Some nm -> exists lo hi, In ((lo, hi), nm) rows /\ (lo <= a <= hi)%Z.
Proof.
  induction rows as [|[[lo hi] n] r IH]; intros a nm H; cbn in H; [discriminate|].
  destruct ((lo <=? a)%Z && (a <=? hi)%Z) eqn:E.
  - inversion H; subst. exists lo, hi. split; [left; reflexivity|]. apply andb_true_iff in E. lia.
  - destruct (IH _ _ H) as (lo' & hi' & Hin & Hb). exists lo', hi'. split; [right; exact Hin | exact Hb].
Qed.

Lemma from_angle_range : forall a t, from_angle a = Ok t -> (-180 <= a <= 180)%Z.
Proof.
  intros a t H. unfold from_angle in H. destruct (first_row turn_ranges a) as [nm|] eqn:E; [|discriminate].
  destruct (first_row_bounds _ _ _ E) as (lo & hi & Hin & Hb).
  pose proof rows_in_range as Hr. rewrite forallb_forall in Hr. specialize (Hr _ Hin). cbn [fst snd] in Hr.
  apply andb_true_iff in Hr. lia.
Qed.

Lemma from_angle_class : forall a t, from_angle a = Ok t -> t = spec_class a.
Proof.
  intros a t H. pose proof (from_angle_range a t H) as Hr.
  pose proof from_angle_sweep as Hs. rewrite forallb_forall in Hs. specialize (Hs a (in_angle_range a Hr)).
  unfold angle_ok in Hs. rewrite H in Hs. apply turn_eqb_eq. exact Hs.
Qed.

Lemma bearing_cases : forall h1 h2 a,
  bearing_to_destination h1 h2 = Ok a ->
  let x := (start_heading h2 - end_heading h1)%Z in a = x \/ a = (x - 360)%Z \/ a = (x + 360)%Z.
Proof.
  intros h1 h2 a H x. unfold bearing_to_destination in H. fold x in H. unfold i16 in H.
  destruct ((-32768 <=? x)%Z && (x <=? 32767)%Z); cbn [bind] in H; [|discriminate].
  unfold wcmp_holds, wrap_hi_cmp, wrap_hi, wrap_sub, wrap_lo_cmp, wrap_lo, wrap_add in H.
  destruct (180 <? x)%Z.
  - destruct ((-32768 <=? x - 360)%Z && (x - 360 <=? 32767)%Z); [|discriminate]. inversion H. right. left. reflexivity.
  - destruct (x <? -180)%Z.
    + destruct ((-32768 <=? x + 360)%Z && (x + 360 <=? 32767)%Z); [|discriminate]. inversion H. right. right. reflexivity.
    + inversion H. left. reflexivity.
Qed.

Lemma spec_angle_of : forall h1 h2 a,
  (-180 <= a <= 180)%Z ->
  (a = h2 - h1 \/ a = h2 - h1 - 360 \/ a = h2 - h1 + 360)%Z ->
  spec_angle h1 h2 = (if (a =? 180)%Z then -180 else a)%Z.
Proof.
  intros h1 h2 a Hr Hc. unfold spec_angle.
  destruct (a =? 180)%Z eqn:E.
  - apply Z.eqb_eq in E. subst a.
    assert (Hm : ((h2 - h1 + 180) mod 360 = 0)%Z).
    { symmetry. destruct Hc as [Hc | [Hc | Hc]].
      + apply (Z.mod_unique _ _ 1 0); lia.
      + apply (Z.mod_unique _ _ 2 0); lia.
      + apply (Z.mod_unique _ _ 0 0); lia. }
    rewrite Hm. reflexivity.
  - apply Z.eqb_neq in E.
    assert (Hm : ((h2 - h1 + 180) mod 360 = a + 180)%Z).
    { symmetry. destruct Hc as [Hc | [Hc | Hc]].
      + apply (Z.mod_unique _ _ 0); lia.
      + apply (Z.mod_unique _ _ 1); lia.
      + apply (Z.mod_unique _ _ (-1)); lia. }
    rewrite Hm. lia.
Qed.

Lemma model_turn_is_spec : forall h1 h2 a t,
  bearing_to_destination h1 h2 = Ok a -> from_angle a = Ok t ->
  t = spec_turn (end_heading h1) (start_heading h2).
Proof.
  intros h1 h2 a t Hb Hf. pose proof (from_angle_range a t Hf) as Hr.
  pose proof (bearing_cases h1 h2 a Hb) as Hc. cbv zeta in Hc.
  unfold spec_turn. rewrite (spec_angle_of _ _ a Hr Hc). rewrite (from_angle_class a t Hf).
  destruct (a =? 180)%Z eqn:E; [|reflexivity]. apply Z.eqb_eq in E. subst a. reflexivity.
Qed.

Lemma get_delay_spec : forall (td : turn_delay Q) e1 e2 (d : Q),
  get_delay QN td e1 e2 = Ok d -> spec_delay td e1 e2 = d.
Proof.
  intros td e1 e2 d H. unfold get_delay in H. change (T QN) with Q in *. unfold get_heading in H. unfold spec_delay.
  destruct (nth_error (td_headings td) e1) as [h1|]; cbn [bind] in H; [|discriminate H].
  destruct (nth_error (td_headings td) e2) as [h2|]; cbn [bind] in H; [|discriminate H].
  destruct (bearing_to_destination h1 h2) as [a| | |] eqn:Eb; cbn [bind] in H; try discriminate H.
  destruct (from_angle a) as [t| | |] eqn:Ef; cbn [bind] in H; try discriminate H.
  rewrite <- (model_turn_is_spec h1 h2 a t Eb Ef).
  destruct (table_get QN (td_table td) t) as [v|]; [|discriminate H]. inversion H. reflexivity.
Qed.

Definition slot (st : list Q) (i : nat) : Q := nth i st 0.

Lemma names_differ : distance_name <> time_name.
Proof. unfold distance_name, time_name. discriminate. Qed.

(* ------------------------------------------------------------------ one step *)
Section Step.
  Variable inst : instance Q.
  Variables (i_d i_t : nat) (fu_d : dist_unit) (fu_t : time_unit) (d_init t_init : Q).
  Let sm := i_sm inst.
  (* the state model has a distance feature "distance" and a time feature "time" (any units, any slots, any
     other features around them); a turn-delay model writes to "time" *)
  Hypothesis Hfd : lookup_feature sm distance_name = Some (FDistance fu_d d_init).
  Hypothesis Hid : get_index sm distance_name = Some i_d.
  Hypothesis Hft : lookup_feature sm time_name = Some (FTime fu_t t_init).
  Hypothesis Hit : get_index sm time_name = Some i_t.
  Hypothesis Ham : match i_am inst with AMTurnDelay td => td_feature td = time_name | AMNone => True end.

  Lemma slots_differ : i_d <> i_t.
  Proof. intros E. apply names_differ. apply (get_index_inj sm _ _ i_d Hid). rewrite E. exact Hit. Qed.

  Lemma id_lt : (i_d < List.length sm)%nat.  Proof. exact (get_index_lt sm _ _ Hid). Qed.
  Lemma it_lt : (i_t < List.length sm)%nat.  Proof. exact (get_index_lt sm _ _ Hit). Qed.

  Definition wf_state (st : list Q) : Prop := List.length st = List.length sm.

  (* what one update of the distance slot / the time slot does *)
  Lemma add_distance_slots : forall st st' (d : Q) from,
    wf_state st -> add_distance QN sm st distance_name d from = Ok st' ->
    st' = set_nth st i_d (slot st i_d + convert_distance QN from fu_d d).
  Proof.
    intros st st' d from Hw H. rewrite (add_distance_eq sm st distance_name i_d Hid fu_d d_init d from Hfd) in H.
    rewrite (nth_error_nth_lt st i_d 0) in H by (rewrite Hw; exact id_lt). inversion H. reflexivity.
  Qed.
  Lemma add_time_slots : forall st st' (t : Q) from,
    wf_state st -> add_time QN sm st time_name t from = Ok st' ->
    st' = set_nth st i_t (slot st i_t + convert_time QN from fu_t t).
  Proof.
    intros st st' t from Hw H. rewrite (add_time_eq sm st time_name i_t Hit fu_t t_init t from Hft) in H.
    rewrite (nth_error_nth_lt st i_t 0) in H by (rewrite Hw; exact it_lt). inversion H. reflexivity.
  Qed.

  Lemma set_d_wf : forall st v, wf_state st -> wf_state (set_nth st i_d v).
  Proof. intros st v H. unfold wf_state. rewrite length_set_nth. exact H. Qed.
  Lemma set_t_wf : forall st v, wf_state st -> wf_state (set_nth st i_t v).
  Proof. intros st v H. unfold wf_state. rewrite length_set_nth. exact H. Qed.

  Lemma slot_set_same : forall st i v, (i < List.length st)%nat -> slot (set_nth st i v) i = v.
  Proof. intros st i v H. unfold slot. apply nth_set_nth_eq. exact H. Qed.
  Lemma slot_set_other : forall st i j v, i <> j -> slot (set_nth st i v) j = slot st j.
  Proof. intros st i j v H. unfold slot. apply nth_set_nth_neq. exact H. Qed.

  (* ---- TraversalModel::traverse_edge ---- *)
  Lemma traverse_edge_slots : forall e x st st',
    wf_state st -> nth_error (g_edges (i_graph inst)) e = Some x ->
    traverse_edge QN (i_tm inst) sm e x st = Ok st' ->
    wf_state st'
    /\ slot st' i_d == slot st i_d + dist_inc inst fu_d e
    /\ slot st' i_t == slot st i_t + time_inc inst fu_t e
    /\ (forall j, j <> i_d -> j <> i_t -> slot st' j = slot st j)
    /\ 0 <= time_inc inst fu_t e.
  Proof.
    intros e x st st' Hw Hx H. pose proof slots_differ as Hne.
    unfold traverse_edge in H. change (T QN) with Q in *. unfold dist_inc, time_inc, model_du, len, speed. rewrite Hx.
    destruct (i_tm inst) as [du | en] eqn:Etm.
    - apply (add_distance_slots st st' _ _ Hw) in H. subst st'.
      split; [apply set_d_wf; exact Hw|]. split.
      { rewrite slot_set_same by (rewrite Hw; exact id_lt). reflexivity. }
      split.
      { rewrite slot_set_other by exact Hne. ring. }
      split; [|apply Qle_refl].
      intros j Hjd Hjt. apply slot_set_other. auto.
    - cbn [sp_du sp_su sp_tu sp_table] in *.
      unfold get_speed in H. change (T QN) with Q in *. destruct (nth_error (sp_table en) e) as [s|] eqn:Es; cbn [bind] in H; [|discriminate].
      assert (Hs : nth e (sp_table en) 0 = s).
      { apply nth_error_nth. exact Es. }
      rewrite Hs.
      unfold create_time in H. cbn [leb zero div QN] in H. change (T QN) with Q in *.
      set (dm := convert_distance QN base_distance_unit (sp_du en) (e_dist x)) in *.
      set (db := convert_distance QN (sp_du en) base_distance_unit dm) in *.
      set (sb := convert_speed QN (sp_su en) base_speed_unit s) in *.
      destruct (Qle_bool sb 0 || Qle_bool db 0) eqn:G; cbn [bind] in H; [discriminate|].
      apply orb_false_iff in G. destruct G as [Gs Gd].
      assert (Hsb : 0 < sb). { apply Qnot_le_lt. intros C. apply Qle_bool_iff in C. congruence. }
      assert (Hdb : 0 < db). { apply Qnot_le_lt. intros C. apply Qle_bool_iff in C. congruence. }
      set (t := convert_time QN base_time_unit (sp_tu en) (db / sb)) in *.
      destruct (add_time QN sm st time_name t (sp_tu en)) as [st1| | |] eqn:E1; cbn [bind] in H; try discriminate.
      apply (add_time_slots st st1 _ _ Hw) in E1. subst st1.
      apply (add_distance_slots _ st' _ _ (set_t_wf st _ Hw)) in H. subst st'.
      split; [apply set_d_wf, set_t_wf; exact Hw|]. split.
      { rewrite slot_set_same by (rewrite length_set_nth, Hw; exact id_lt).
        rewrite slot_set_other by (intro E; apply Hne; symmetry; exact E). reflexivity. }
      split.
      { rewrite slot_set_other by exact Hne. rewrite slot_set_same by (rewrite Hw; exact it_lt). reflexivity. }
      split.
      { intros j Hjd Hjt. rewrite slot_set_other by auto. apply slot_set_other. auto. }
      apply convert_time_nonneg. unfold t. apply convert_time_nonneg.
      apply Qlt_le_weak. apply Qlt_shift_div_l; [exact Hsb|]. rewrite Qmult_0_l. exact Hdb.
  Qed.

  (* ---- AccessModel::access_edge ---- *)
  Lemma access_edge_slots : forall e1 e2 st st',
    wf_state st -> access_edge QN (i_am inst) sm e1 e2 st = Ok st' ->
    wf_state st'
    /\ slot st' i_t == slot st i_t + delay_inc inst fu_t (Some (e1, e2))
    /\ (forall j, j <> i_t -> slot st' j = slot st j).
  Proof.
    intros e1 e2 st st' Hw H. unfold access_edge in H. change (T QN) with Q in *. unfold delay_inc, raw_delay.
    destruct (i_am inst) as [|td] eqn:Eam.
    - inversion H; subst st'. split; [exact Hw|]. split; [ring | reflexivity].
    - destruct (get_delay QN td e1 e2) as [delay| | |] eqn:Ed; cbn [bind] in H; try discriminate.
      rewrite (get_delay_spec td e1 e2 delay Ed).
      rewrite Ham in H. apply (add_time_slots st st' _ _ Hw) in H. subst st'.
      split; [apply set_t_wf; exact Hw|]. split.
      { rewrite slot_set_same by (rewrite Hw; exact it_lt). reflexivity. }
      intros j Hj. apply slot_set_other. auto.
  Qed.

  (* ---- the common body of forward_traversal / reverse_traversal ---- *)
  Lemma traversal_body_slots : forall this pair ok st et,
    wf_state st -> traversal_body QN inst this pair ok st = Ok et ->
    et_edge et = this
    /\ wf_state (et_state et)
    /\ slot (et_state et) i_d == slot st i_d + dist_inc inst fu_d this
    /\ slot (et_state et) i_t == slot st i_t + (delay_inc inst fu_t pair + time_inc inst fu_t this)
    /\ (forall j, j <> i_d -> j <> i_t -> slot (et_state et) j = slot st j)
    /\ 0 <= time_inc inst fu_t this.
  Proof.
    intros this pair ok st et Hw H. pose proof slots_differ as Hne.
    split; [exact (traversal_body_edge QN inst this pair ok st et H)|].
    unfold traversal_body in H. change (T QN) with Q in *.
    destruct (edge_triplet (i_graph inst) this) as [x| | |] eqn:Ex; cbn [bind] in H; try discriminate.
    assert (Hx : nth_error (g_edges (i_graph inst)) this = Some x).
    { unfold edge_triplet, get_edge in Ex. destruct (nth_error (g_edges (i_graph inst)) this) as [y|]; cbn [bind] in Ex; [|discriminate].
      bind_inv Ex. inversion Ex. reflexivity. }
    destruct pair as [[e1 e2]|].
    - destruct ok as [[]| | |]; cbn [bind] in H; try discriminate.
      destruct (access_edge QN (i_am inst) (i_sm inst) e1 e2 st) as [st1| | |] eqn:Ea; cbn [bind] in H; try discriminate.
      destruct (cf_access (i_cost inst) e1 e2 st st1) as [ac| | |]; cbn [bind] in H; try discriminate.
      destruct (traverse_edge QN (i_tm inst) (i_sm inst) this x st1) as [st2| | |] eqn:Et; cbn [bind] in H; try discriminate.
      destruct (cf_edge (i_cost inst) (Some (e1, e2)) this st st2) as [total| | |]; cbn [bind] in H; try discriminate.
      inversion H; subst et. cbn [et_state].
      destruct (access_edge_slots e1 e2 st st1 Hw Ea) as (Hw1 & Ht1 & Ho1).
      destruct (traverse_edge_slots this x st1 st2 Hw1 Hx Et) as (Hw2 & Hd2 & Ht2 & Ho2 & Hpos).
      split; [exact Hw2|]. split.
      { rewrite Hd2. rewrite (Ho1 i_d Hne). reflexivity. }
      split.
      { rewrite Ht2, Ht1. ring. }
      split; [|exact Hpos].
      intros j Hjd Hjt. rewrite (Ho2 j Hjd Hjt). apply Ho1. exact Hjt.
    - cbn [bind] in H.
      destruct (traverse_edge QN (i_tm inst) (i_sm inst) this x st) as [st2| | |] eqn:Et; cbn [bind] in H; try discriminate.
      destruct (cf_edge (i_cost inst) None this st st2) as [total| | |]; cbn [bind] in H; try discriminate.
      inversion H; subst et. cbn [et_state].
      destruct (traverse_edge_slots this x st st2 Hw Hx Et) as (Hw2 & Hd2 & Ht2 & Ho2 & Hpos).
      split; [exact Hw2|]. split; [exact Hd2|]. split.
      { rewrite Ht2. unfold delay_inc. destruct (i_am inst); ring. }
      split; [exact Ho2 | exact Hpos].
  Qed.

  (* both traversal functions are that body, with the pair oriented by the direction *)
  Definition step (d : direction) : nat -> option nat -> list Q -> res (etrav Q) :=
    match d with Forward => forward_traversal QN inst | Reverse => reverse_traversal QN inst end.

  Lemma step_edge : forall d e o st et, step d e o st = Ok et -> et_edge et = e.
  Proof.
    intros d e o st et H. destruct d; cbn [step] in H; [exact (forward_traversal_edge QN inst e o st et H) | exact (reverse_traversal_edge QN inst e o st et H)].
  Qed.

  Lemma step_slots : forall d e o st et,
    wf_state st -> step d e o st = Ok et ->
    wf_state (et_state et)
    /\ slot (et_state et) i_d == slot st i_d + dist_inc inst fu_d e
    /\ slot (et_state et) i_t == slot st i_t + (delay_inc inst fu_t (pair_of d e o) + time_inc inst fu_t e)
    /\ (forall j, j <> i_d -> j <> i_t -> slot (et_state et) j = slot st j)
    /\ 0 <= time_inc inst fu_t e.
  Proof.
    intros d e o st et Hw H.
    destruct d; unfold step, forward_traversal, reverse_traversal in H.
    - replace (match o with Some p => Some (p, e) | None => None end) with (pair_of Forward e o) in H
        by (destruct o; reflexivity).
      exact (proj2 (traversal_body_slots _ _ _ _ _ Hw H)).
    - replace (match o with Some n => Some (e, n) | None => None end) with (pair_of Reverse e o) in H
        by (destruct o; reflexivity).
      exact (proj2 (traversal_body_slots _ _ _ _ _ Hw H)).
  Qed.

  (* ------------------------------------------------------------------ a whole route *)
  Notation end_state := (end_state QN).

  Lemma walk_sums : forall d es o st l,
    wf_state st -> walk QN (step d) o st es = Ok l ->
    wf_state (end_state st l)
    /\ slot (end_state st l) i_d == slot st i_d + sum_dist inst fu_d es
    /\ slot (end_state st l) i_t == slot st i_t + sum_time inst fu_t d o es
    /\ (forall j, j <> i_d -> j <> i_t -> slot (end_state st l) j = slot st j).
  Proof.
    intros d es. induction es as [|e r IH]; intros o st l Hw H.
    - cbn in H. inversion H; subst l. unfold TraversalWalk.end_state. cbn [fold_left sum_dist sum_time].
      split; [exact Hw|]. split; [ring|]. split; [ring | reflexivity].
    - apply walk_cons_inv in H. destruct H as (et & rest & -> & Hs & Hr).
      destruct (step_slots d e o st et Hw Hs) as (Hw1 & Hd1 & Ht1 & Ho1 & _).
      destruct (IH (Some e) (et_state et) rest Hw1 Hr) as (Hw2 & Hd2 & Ht2 & Ho2).
      change (end_state st (et :: rest)) with (end_state (et_state et) rest).
      split; [exact Hw2|]. split.
      { rewrite Hd2, Hd1. cbn [sum_dist]. ring. }
      split.
      { rewrite Ht2, Ht1. cbn [sum_time]. ring. }
      intros j Hjd Hjt. rewrite (Ho2 j Hjd Hjt). apply Ho1; assumption.
  Qed.

  (* the k-th reported state *)
  Lemma walk_kth : forall d es o st l k et,
    wf_state st -> walk QN (step d) o st es = Ok l -> nth_error l k = Some et ->
    slot (et_state et) i_d == slot st i_d + sum_dist inst fu_d (firstn (S k) es)
    /\ slot (et_state et) i_t == slot st i_t + sum_time inst fu_t d o (firstn (S k) es)
    /\ (forall j, j <> i_d -> j <> i_t -> slot (et_state et) j = slot st j).
  Proof.
    intros d es o st l k et Hw H Hk.
    pose proof (walk_prefix QN (step d) es o st l (S k) H) as Hp.
    rewrite <- (walk_nth_state QN (step d) es o st l k et H Hk).
    destruct (walk_sums d _ o st _ Hw Hp) as (_ & Hd & Ht & Ho). auto.
  Qed.

  (* ------------------------------------------------------------------ never decreasing *)
  Hypothesis Hlen : forall e x, nth_error (g_edges (i_graph inst)) e = Some x -> 0 <= e_dist x.
  Hypothesis Hdelay : match i_am inst with
                      | AMTurnDelay td => forall t v, In (t, v) (td_table td) -> 0 <= v
                      | AMNone => True
                      end.

  Lemma dist_inc_nonneg : forall e, 0 <= dist_inc inst fu_d e.
  Proof.
    intros e. unfold dist_inc. apply convert_distance_nonneg, convert_distance_nonneg.
    unfold len. destruct (nth_error (g_edges (i_graph inst)) e) as [x|] eqn:E; [exact (Hlen e x E) | apply Qle_refl].
  Qed.

  Lemma table_get_in : forall (t : list (turn * Q)) k v, table_get QN t k = Some v -> exists k', In (k', v) t.
  Proof.
    induction t as [|[k' v'] r IH]; intros k v H; cbn in H; [discriminate|].
    destruct (turn_eqb k' k).
    - inversion H; subst. exists k'. left. reflexivity.
    - destruct (IH _ _ H) as [k'' Hin]. exists k''. right. exact Hin.
  Qed.

  Lemma delay_inc_nonneg : forall pair, 0 <= delay_inc inst fu_t pair.
  Proof.
    intros pair. unfold delay_inc. destruct (i_am inst) as [|td]; [apply Qle_refl|].
    destruct pair as [[e1 e2]|]; [|apply Qle_refl].
    apply convert_time_nonneg. unfold raw_delay, spec_delay.
    destruct (nth_error (td_headings td) e1) as [h1|]; [|apply Qle_refl].
    destruct (nth_error (td_headings td) e2) as [h2|]; [|apply Qle_refl].
    destruct (table_get QN (td_table td) (spec_turn (end_heading h1) (start_heading h2))) as [v|] eqn:Et; [|apply Qle_refl].
    destruct (table_get_in _ _ _ Et) as [k' Hin]. exact (Hdelay k' v Hin).
  Qed.

  Lemma step_monotone : forall d e o st et,
    wf_state st -> step d e o st = Ok et ->
    slot st i_d <= slot (et_state et) i_d /\ slot st i_t <= slot (et_state et) i_t.
  Proof.
    intros d e o st et Hw H. destruct (step_slots d e o st et Hw H) as (_ & Hd & Ht & _ & Hpos).
    pose proof (dist_inc_nonneg e) as H1. pose proof (delay_inc_nonneg (pair_of d e o)) as H2.
    split.
    - rewrite Hd. rewrite <- (Qplus_0_r (slot st i_d)) at 1. apply Qplus_le_r. exact H1.
    - rewrite Ht. rewrite <- (Qplus_0_r (slot st i_t)) at 1. apply Qplus_le_r.
      rewrite <- (Qplus_0_r 0). apply Qplus_le_compat; assumption.
  Qed.

  (* consecutive reported states (the start state first) never decrease in distance or time *)
  Lemma walk_monotone : forall d es o st l,
    wf_state st -> walk QN (step d) o st es = Ok l ->
    forall k a b, nth_error (st :: map et_state l) k = Some a -> nth_error (st :: map et_state l) (S k) = Some b ->
                  slot a i_d <= slot b i_d /\ slot a i_t <= slot b i_t.
  Proof.
    intros d es. induction es as [|e r IH]; intros o st l Hw H k a b Ha Hb.
    - cbn in H. inversion H; subst l. destruct k; cbn in Hb; discriminate.
    - apply walk_cons_inv in H. destruct H as (et & rest & -> & Hs & Hr).
      destruct (step_slots d e o st et Hw Hs) as (Hw1 & _).
      destruct k as [|k].
      + cbn in Ha, Hb. inversion Ha; inversion Hb; subst a b. exact (step_monotone d e o st et Hw Hs).
      + cbn [map nth_error] in Ha, Hb. exact (IH (Some e) (et_state et) rest Hw1 Hr k a b Ha Hb).
  Qed.
End Step.

(* ------------------------------------------------------------------ closed forms of the sums *)
Section Closed.
  Variable inst : instance Q.
  Variable fu_d : dist_unit.
  Variable fu_t : time_unit.

  Lemma dist_inc_closed : forall e, dist_inc inst fu_d e == len inst e * Kd inst fu_d.
  Proof. intros e. unfold dist_inc, Kd. rewrite !convert_distance_factor. ring. Qed.

  Lemma sum_dist_closed : forall es, sum_dist inst fu_d es == sum_len inst es * Kd inst fu_d.
  Proof.
    induction es as [|e r IH]; cbn [sum_dist sum_len]; [ring|]. rewrite IH, dist_inc_closed. ring.
  Qed.

  Lemma time_inc_closed : forall e, time_inc inst fu_t e == len inst e / speed inst e * Kt inst fu_t.
  Proof.
    intros e. unfold time_inc, Kt, speed. destruct (i_tm inst) as [du|en]; [ring|].
    rewrite !convert_time_factor, !convert_distance_factor, convert_speed_factor.
    unfold UnitsRun.time_factor. rewrite div_mul_div. unfold Qdiv. ring.
  Qed.

  Lemma delay_inc_closed : forall pair, delay_inc inst fu_t pair == raw_pair_delay inst pair * Kdelay inst fu_t.
  Proof.
    intros pair. unfold delay_inc, raw_pair_delay, Kdelay. destruct (i_am inst) as [|td]; [ring|].
    destruct pair as [[e1 e2]|]; [|ring]. rewrite convert_time_factor. ring.
  Qed.

  Lemma sum_time_closed : forall d es o,
    sum_time inst fu_t d o es == sum_len_over_speed inst es * Kt inst fu_t + sum_delay inst d o es * Kdelay inst fu_t.
  Proof.
    intros d es. induction es as [|e r IH]; intros o; cbn [sum_time sum_len_over_speed sum_delay]; [ring|].
    rewrite IH, time_inc_closed, delay_inc_closed. ring.
  Qed.

  (* linearity of the conversion: the converted sum is the sum of the converted lengths (each converted once) *)
  Lemma sum_dist_linear : forall es,
    sum_dist inst fu_d es
    == convert_distance QN (model_du inst) fu_d (convert_distance QN base_distance_unit (model_du inst) (sum_len inst es)).
  Proof. intros es. rewrite sum_dist_closed. unfold Kd. rewrite !convert_distance_factor. ring. Qed.

  (* no delay is charged on the first edge of a route *)
  Lemma first_edge_no_delay : forall d e, delay_inc inst fu_t (pair_of d e None) == 0.
  Proof. intros d e. unfold pair_of, delay_inc. destruct (i_am inst); reflexivity. Qed.
End Closed.

(* ------------------------------------------------------------------ the constants against exact SI definitions *)
Definition tol_d : Q := 21 # 10000.    (* two table factors, each within 0.1 % *)
Definition tol_t : Q := 52 # 10000.    (* five table factors, two of them in a denominator *)
Definition kd_of (du fu : dist_unit) : Q := k_dist base_distance_unit du * k_dist du fu.
Definition kt_of (su : speed_unit) (du : dist_unit) (tu fu : time_unit) : Q :=
  k_dist base_distance_unit du * UnitsRun.time_factor su du tu * k_time tu fu.
Definition kd_ok (p : dist_unit * dist_unit) : bool :=
  UnitsRun.within tol_d (kd_of (fst p) (snd p)) (1 / UnitsRun.si_distance (snd p)).
Definition kt_ok (p : speed_unit * dist_unit * time_unit * time_unit) : bool :=
  let '(su, du, tu, fu) := p in
  UnitsRun.within tol_t (kt_of su du tu fu) (1 / UnitsRun.si_speed su / UnitsRun.si_time fu).
Definition kdelay_ok (p : time_unit * time_unit) : bool :=
  UnitsRun.within UnitsRun.tol (k_time (fst p) (snd p)) (UnitsRun.si_time (fst p) / UnitsRun.si_time (snd p)).

Lemma kd_table : forallb kd_ok (list_prod all_dist all_dist) = true.
Proof. vm_compute. reflexivity. Qed.
Lemma kt_table : forallb kt_ok (list_prod (list_prod (list_prod all_speed all_dist) all_time) all_time) = true.
Proof. vm_compute. reflexivity. Qed.
Lemma kdelay_table : forallb kdelay_ok (list_prod all_time all_time) = true.
Proof. vm_compute. reflexivity. Qed.

Lemma Kd_physical : forall du fu,
  Qabs (kd_of du fu - 1 / UnitsRun.si_distance fu) <= tol_d * Qabs (1 / UnitsRun.si_distance fu).
Proof.
  intros du fu. apply within_spec. pose proof kd_table as H. rewrite forallb_forall in H.
  exact (H (du, fu) (in_prod _ _ _ _ (all_dist_complete du) (all_dist_complete fu))).
Qed.
Lemma Kt_physical : forall su du tu fu,
  Qabs (kt_of su du tu fu - 1 / UnitsRun.si_speed su / UnitsRun.si_time fu)
  <= tol_t * Qabs (1 / UnitsRun.si_speed su / UnitsRun.si_time fu).
Proof.
  intros su du tu fu. apply within_spec. pose proof kt_table as H. rewrite forallb_forall in H.
  exact (H (su, du, tu, fu)
           (in_prod _ _ _ _ (in_prod _ _ _ _ (in_prod _ _ _ _ (all_speed_complete su) (all_dist_complete du))
                                     (all_time_complete tu)) (all_time_complete fu))).
Qed.
Lemma Kdelay_physical : forall u fu,
  Qabs (k_time u fu - UnitsRun.si_time u / UnitsRun.si_time fu) <= UnitsRun.tol * Qabs (UnitsRun.si_time u / UnitsRun.si_time fu).
Proof.
  intros u fu. apply within_spec. pose proof kdelay_table as H. rewrite forallb_forall in H.
  exact (H (u, fu) (in_prod _ _ _ _ (all_time_complete u) (all_time_complete fu))).
Qed.

(* ------------------------------------------------------------------ costs: for ANY cost functions *)
Section Costs.
  Variable inst : instance Q.

  (* the two reported shares add up to the cost function's value on (state before, state after); the access share
     is the access cost function's value on (state before, state after the access update); a first edge has none *)
  Lemma traversal_body_costs : forall this pair ok st et,
    traversal_body QN inst this pair ok st = Ok et ->
    exists total, cf_edge (i_cost inst) pair this st (et_state et) = Ok total
                  /\ et_access et + et_trav et == total
                  /\ match pair with
                     | None => et_access et = 0
                     | Some (e1, e2) =>
                         exists sa ac, access_edge QN (i_am inst) (i_sm inst) e1 e2 st = Ok sa
                                       /\ cf_access (i_cost inst) e1 e2 st sa = Ok ac /\ et_access et == ac
                     end.
  Proof.
    intros this pair ok st et H. unfold traversal_body in H. change (T QN) with Q in *.
    destruct (edge_triplet (i_graph inst) this) as [x| | |]; cbn [bind] in H; try discriminate.
    destruct pair as [[e1 e2]|].
    - destruct ok as [[]| | |]; cbn [bind] in H; try discriminate.
      destruct (access_edge QN (i_am inst) (i_sm inst) e1 e2 st) as [st1| | |] eqn:Ea; cbn [bind] in H; try discriminate.
      destruct (cf_access (i_cost inst) e1 e2 st st1) as [ac| | |] eqn:Ec; cbn [bind] in H; try discriminate.
      destruct (traverse_edge QN (i_tm inst) (i_sm inst) this x st1) as [st2| | |]; cbn [bind] in H; try discriminate.
      destruct (cf_edge (i_cost inst) (Some (e1, e2)) this st st2) as [total| | |] eqn:Et; cbn [bind] in H; try discriminate.
      inversion H; subst et. cbn [et_state et_access et_trav add sub zero QN].
      exists total. split; [exact Et|]. split; [ring|].
      exists st1, ac. split; [reflexivity|]. split; [exact Ec | ring].
    - cbn [bind] in H.
      destruct (traverse_edge QN (i_tm inst) (i_sm inst) this x st) as [st2| | |]; cbn [bind] in H; try discriminate.
      destruct (cf_edge (i_cost inst) None this st st2) as [total| | |] eqn:Et; cbn [bind] in H; try discriminate.
      inversion H; subst et. cbn [et_state et_access et_trav add sub zero QN].
      exists total. split; [exact Et|]. split; [ring | reflexivity].
  Qed.
End Costs.

(* ------------------------------------------------------------------ turn classification *)

Lemma turn_sweep : forallb (fun h1 => forallb (turn_ok h1) heading_range) heading_range = true.
Proof. vm_compute. reflexivity. Qed.

Lemma in_heading_range : forall h, (0 <= h < 360)%Z -> In h heading_range.
Proof.
  intros h Hh. unfold heading_range. apply in_map_iff. exists (Z.to_nat h). split; [lia|].
  apply in_seq. lia.
Qed.

Lemma turn_ok_all : forall h1 h2, (0 <= h1 < 360)%Z -> (0 <= h2 < 360)%Z -> turn_ok h1 h2 = true.
Proof.
  intros h1 h2 H1 H2. pose proof turn_sweep as H. rewrite forallb_forall in H.
  specialize (H h1 (in_heading_range h1 H1)). rewrite forallb_forall in H. exact (H h2 (in_heading_range h2 H2)).
Qed.

(* the generated table names only known variants, and lists them all *)
Lemma turn_table_wellformed :
  forallb (fun r => match turn_of_name (snd r) with Some _ => true | None => false end) turn_ranges = true
  /\ map turn_name all_turns = turn_variants.
Proof. split; vm_compute; reflexivity. Qed.

(* for headings 0..359 x 0..359: the wrapped difference lies in [-180, 180], exactly one arm of Turn::from_angle
   contains it, from_angle returns a turn, and that turn is the one the specification assigns to the two headings *)
Lemma turn_classification : forall h1 h2 d1 d2,
  (0 <= h1 < 360)%Z -> (0 <= h2 < 360)%Z ->
  exists a t,
    bearing_to_destination (Build_heading d1 (Some h1)) (Build_heading h2 d2) = Ok a
    /\ (-180 <= a <= 180)%Z
    /\ rows_matching a = 1%nat
    /\ from_angle a = Ok t
    /\ t = spec_turn h1 h2.
Proof.
  intros h1 h2 d1 d2 H1 H2. pose proof (turn_ok_all h1 h2 H1 H2) as H. unfold turn_ok in H.
  change (bearing_to_destination (Build_heading d1 (Some h1)) (Build_heading h2 d2))
    with (bearing_to_destination (Build_heading h1 None) (Build_heading h2 None)).
  destruct (bearing_to_destination (Build_heading h1 None) (Build_heading h2 None)) as [a| | |]; try discriminate H.
  apply andb_true_iff in H. destruct H as [H Ht].
  apply andb_true_iff in H. destruct H as [H Hr].
  apply andb_true_iff in H. destruct H as [Hlo Hhi].
  destruct (from_angle a) as [t| | |] eqn:Ef; try discriminate Ht.
  exists a, t. split; [reflexivity|]. split; [lia|]. split; [apply Nat.eqb_eq; exact Hr|].
  split; [exact Ef | apply turn_eqb_eq; exact Ht].
Qed.

(* the route summary is the state after the last edge, slot by slot under the feature names *)
Lemma summary_is_last_state : forall (N : Num) (inst : instance N) (l : list (etrav N)) et,
  traversal_summary N inst (l ++ [et]) = Ok (serialize_state (i_sm inst) (et_state et)).
Proof.
  intros N inst l et. unfold traversal_summary. rewrite last_map_some. reflexivity.
Qed.

(* ------------------------------------------------------------------ the statements in the form Props/C03.v uses *)
(* the state model has a distance feature "distance" (unit fu_d, declared initial value d0, slot i_d) and a time feature
   "time" (unit fu_t, initial t0, slot i_t); a turn-delay model writes to "time" *)
Definition configured (inst : instance Q) (i_d i_t : nat) (fu_d : dist_unit) (fu_t : time_unit) (d0 t0 : Q) : Prop :=
  lookup_feature (i_sm inst) distance_name = Some (FDistance fu_d d0)
  /\ get_index (i_sm inst) distance_name = Some i_d
  /\ lookup_feature (i_sm inst) time_name = Some (FTime fu_t t0)
  /\ get_index (i_sm inst) time_name = Some i_t
  /\ match i_am inst with AMTurnDelay td => td_feature td = time_name | AMNone => True end.
(* edge lengths and table delays are not negative *)
Definition nonneg_tables (inst : instance Q) : Prop :=
  (forall e x, nth_error (g_edges (i_graph inst)) e = Some x -> 0 <= e_dist x)
  /\ match i_am inst with
     | AMTurnDelay td => forall t v, In (t, v) (td_table td) -> 0 <= v
     | AMNone => True
     end.

Lemma route_sums : forall inst i_d i_t fu_d fu_t d0 t0,
  configured inst i_d i_t fu_d fu_t d0 t0 ->
  forall d es l k et,
    walk QN (step inst d) None (initial_state (i_sm inst)) es = Ok l ->
    nth_error l k = Some et ->
    slot (et_state et) i_d == d0 + sum_len inst (firstn (S k) es) * Kd inst fu_d
    /\ slot (et_state et) i_t == t0 + sum_len_over_speed inst (firstn (S k) es) * Kt inst fu_t
                                    + sum_delay inst d None (firstn (S k) es) * Kdelay inst fu_t
    /\ (forall j, j <> i_d -> j <> i_t -> slot (et_state et) j = slot (initial_state (i_sm inst)) j).
Proof.
  intros inst i_d i_t fu_d fu_t d0 t0 (Hfd & Hid & Hft & Hit & Ham) d es l k et Hw Hk.
  assert (Hwf : wf_state inst (initial_state (i_sm inst))) by apply initial_state_length.
  destruct (walk_kth inst i_d i_t fu_d fu_t d0 t0 Hfd Hid Hft Hit Ham d es None _ l k et Hwf Hw Hk) as (Hd & Ht & Ho).
  unfold slot in Hd, Ht at 2.
  rewrite (initial_state_slot (i_sm inst) distance_name i_d _ 0 Hid Hfd) in Hd.
  unfold slot in Ht. rewrite (initial_state_slot (i_sm inst) time_name i_t _ 0 Hit Hft) in Ht.
  cbn [feature_initial] in Hd, Ht.
  split; [|split; [|exact Ho]].
  - unfold slot. rewrite Hd, sum_dist_closed. reflexivity.
  - unfold slot. rewrite Ht, sum_time_closed. ring.
Qed.

Lemma route_monotone : forall inst i_d i_t fu_d fu_t d0 t0,
  configured inst i_d i_t fu_d fu_t d0 t0 -> nonneg_tables inst ->
  forall d es l,
    walk QN (step inst d) None (initial_state (i_sm inst)) es = Ok l ->
    forall k a b,
      nth_error (initial_state (i_sm inst) :: map et_state l) k = Some a ->
      nth_error (initial_state (i_sm inst) :: map et_state l) (S k) = Some b ->
      slot a i_d <= slot b i_d /\ slot a i_t <= slot b i_t.
Proof.
  intros inst i_d i_t fu_d fu_t d0 t0 (Hfd & Hid & Hft & Hit & Ham) (Hlen & Hdel) d es l Hw.
  apply (walk_monotone inst i_d i_t fu_d fu_t d0 t0 Hfd Hid Hft Hit Ham Hlen Hdel d es None _ l); [|exact Hw].
  apply initial_state_length.
Qed.

(* every reported cost pair of a route adds up to the cost function's value on that edge's change of state *)
Lemma step_costs : forall inst d e o st et,
  step inst d e o st = Ok et ->
  exists total, cf_edge (i_cost inst) (pair_of d e o) e st (et_state et) = Ok total
                /\ et_access et + et_trav et == total
                /\ (o = None -> et_access et = 0).
Proof.
  intros inst d e o st et H.
  destruct d; cbn [step] in H; unfold forward_traversal, reverse_traversal in H.
  - replace (match o with Some p => Some (p, e) | None => None end) with (pair_of Forward e o) in H
      by (destruct o; reflexivity).
    destruct (traversal_body_costs inst _ _ _ _ _ H) as (total & Ht & Hs & Hp).
    exists total. split; [exact Ht|]. split; [exact Hs|]. intros ->. exact Hp.
  - replace (match o with Some n => Some (e, n) | None => None end) with (pair_of Reverse e o) in H
      by (destruct o; reflexivity).
    destruct (traversal_body_costs inst _ _ _ _ _ H) as (total & Ht & Hs & Hp).
    exists total. split; [exact Ht|]. split; [exact Hs|]. intros ->. exact Hp.
Qed.

(* edge-oriented queries: the composed route starts with the source edge at zero cost in the declared initial state,
   ends with the target edge at zero cost in the state of ITS OWN last inner edge, and its summary is that state *)
Lemma edge_oriented_ends : forall (N : Num) (inst : instance N) s t (inner : list (etrav N)) (e : etrav N) r,
  compose_edge_oriented N inst s t (inner ++ [e]) = Ok r ->
  r = Build_etrav s zero zero (initial_state (i_sm inst)) :: (inner ++ [e]) ++ [Build_etrav t zero zero (et_state e)]
  /\ traversal_summary N inst r = Ok (serialize_state (i_sm inst) (et_state e)).
Proof.
  intros N inst s t inner e r H. unfold compose_edge_oriented in H. rewrite last_map_some in H. inversion H; subst r.
  split; [reflexivity|].
  exact (summary_is_last_state N inst (Build_etrav s zero zero (initial_state (i_sm inst)) :: inner ++ [e])
                               (Build_etrav t zero zero (et_state e))).
Qed.
