(* Non-vacuity witness for Props/C03.v: a concrete configuration (speed model in km/h over kilometres and minutes,
   distance feature in miles, time feature in seconds, turn delays in seconds, the C07 cost model with weights 1 and
   raw rates) meets every hypothesis of the C03 theorems and produces a 3-edge route with positive distance and time. *)
From Coq Require Import ZArith QArith Qabs List String Bool Lia.
From RC Require Import Base.Num Base.Res Model.Units Model.UnitsRun Model.StateOps Model.Traversal Model.TraversalSpec
  Model.Cost Model.TraversalRun Proofs.Units Proofs.StateOps Proofs.TraversalWalk Proofs.Traversal.
Import ListNotations.
Import Units StateOps Traversal TSpec.
Local Open Scope Q_scope.
Local Open Scope string_scope.

Definition ex_sm : smodel Q :=
  [("energy", FEnergy KilowattHours 7); ("time", FTime Seconds 0); ("distance", FDistance Miles 0)].
Definition ex_cm : Cost.cost_model Q :=
  match Cost.new QN [("distance", 1); ("time", 1)] [("distance", Cost.VRaw); ("time", Cost.VRaw)] [] Cost.ASum
                 (map fst ex_sm) with
  | Ok cm => cm
  | _ => Cost.Build_cost_model [] Cost.ASum
  end.
Definition ex_table : list (turn * Q) :=
  [(NoTurn, 0); (SlightRight, 1); (SlightLeft, 2); (Right, 3); (Left, 4); (SharpRight, 5); (SharpLeft, 6); (UTurn, 7)].
Definition ex_inst : instance Q :=
  Build_instance
    (Build_graph 4 [Build_edge 0 1 1000; Build_edge 1 2 500; Build_edge 2 3 2500])
    ex_sm
    (TMSpeed (Build_engine [50; 30; 80] KilometersPerHour Minutes Kilometers 80))
    (AMTurnDelay (Build_turn_delay [Build_heading 0%Z None; Build_heading 90%Z None; Build_heading 350%Z (Some 10%Z)]
                                   ex_table Seconds "time"))
    (TR.cost_fns_of QN ex_cm).

Definition ex_route := walk QN (step ex_inst Forward) None (initial_state (i_sm ex_inst)) [0; 1; 2]%nat.

Lemma ex_route_check :
  match ex_route with
  | Ok l => Nat.eqb (List.length l) 3
            && match nth_error l 2 with
               | Some et => Qltb 0 (slot (et_state et) 2) && Qltb 0 (slot (et_state et) 1)
               | None => false
               end
  | _ => false
  end = true.
Proof. vm_compute. reflexivity. Qed.

Lemma ex_nonvacuous :
  configured ex_inst 2 1 Miles Seconds 0 0
  /\ nonneg_tables ex_inst
  /\ (exists l, walk QN (step ex_inst Forward) None (initial_state (i_sm ex_inst)) [0; 1; 2]%nat = Ok l
                /\ List.length l = 3%nat
                /\ (exists et, nth_error l 2 = Some et /\ 0 < slot (et_state et) 2 /\ 0 < slot (et_state et) 1))
  /\ step ex_inst Forward = forward_traversal QN ex_inst.
Proof.
  split; [repeat split|]. split.
  - split.
    + intros e x H. destruct e as [|[|[|e]]]; cbn in H; try (inversion H; subst x; cbn; unfold Qle; cbn; lia).
      destruct e; discriminate H.
    + cbn. intros t v Hin. unfold ex_table in Hin. cbn in Hin.
      repeat (destruct Hin as [Hin | Hin]; [inversion Hin; subst; unfold Qle; cbn; lia|]). contradiction.
  - split; [|reflexivity].
    pose proof ex_route_check as H. fold ex_route. destruct ex_route as [l| | |]; try discriminate H.
    apply andb_true_iff in H. destruct H as [Hl Hn].
    exists l. split; [reflexivity|]. split; [apply Nat.eqb_eq; exact Hl|].
    destruct (nth_error l 2) as [et|]; [|discriminate Hn].
    apply andb_true_iff in Hn. destruct Hn as [H2 H1].
    exists et. split; [reflexivity|]. split; apply Qltb_spec; assumption.
Qed.
