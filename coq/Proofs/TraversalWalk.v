(* Property C03, part 1: structure of a route built edge after edge -- for ANY number type, any traversal / access /
   cost models (these lemmas only use the shape of [walk] and that a step labels its result with the edge it was
   asked to traverse).

     chain step other st l      every element of [l] is the step result of its edge, taken from the state its
                                predecessor left, with the predecessor as the access edge (the invariant of a search-tree
                                branch when no label is replaced after its children were created)
     chain_iff_walk             chain <-> the fold [walk] over the edge ids returns exactly [l]
     walk_prefix                the first k elements are the walk along the first k edges
     walk_app / walk_app_inv    a walk along es1 ++ es2 is the walk along es1 followed by the walk along es2 from the
                                last state / last edge of the first
     reorient_is_walk           reorient_reverse_route = the forward walk along the reversed edge ids from the forward
                                half's last state, so forward half ++ re-oriented half is one forward walk *)
From Coq Require Import ZArith List String Bool Lia.
From RC Require Import Base.Num Base.Res Model.Units Model.StateOps Model.Traversal.
Import ListNotations.
Import StateOps Traversal.

Section Walk.
  Variable N : Num.
  Notation state := (list N).
  Variable step : nat -> option nat -> state -> res (etrav N).
  Hypothesis step_edge : forall e o st et, step e o st = Ok et -> et_edge et = e.

  Inductive chain : option nat -> state -> list (etrav N) -> Prop :=
  | chain_nil : forall o st, chain o st []
  | chain_cons : forall o st et r,
      step (et_edge et) o st = Ok et ->
      chain (Some (et_edge et)) (et_state et) r ->
      chain o st (et :: r).

  (* the edge / state a walk ends with *)
  Definition end_edge (o : option nat) (es : list nat) : option nat := fold_left (fun _ e => Some e) es o.
  Definition end_state (st : state) (l : list (etrav N)) : state := fold_left (fun _ et => et_state et) l st.

  Lemma walk_cons : forall o st e r,
    walk N step o st (e :: r) =
      match step e o st with
      | Ok et => match walk N step (Some e) (et_state et) r with
                 | Ok rest => Ok (et :: rest)
                 | Err c => Err c | Panic w => Panic w | OutOfFuel => OutOfFuel
                 end
      | Err c => Err c | Panic w => Panic w | OutOfFuel => OutOfFuel
      end.
  Proof.
    intros o st e r. cbn [walk]. destruct (step e o st) as [et| | |]; cbn [bind]; try reflexivity.
  Qed.

  Lemma walk_cons_inv : forall o st e r l,
    walk N step o st (e :: r) = Ok l ->
    exists et rest, l = et :: rest /\ step e o st = Ok et /\ walk N step (Some e) (et_state et) r = Ok rest.
  Proof.
    intros o st e r l H. rewrite walk_cons in H.
    destruct (step e o st) as [et| | |] eqn:E; try discriminate.
    destruct (walk N step (Some e) (et_state et) r) as [rest| | |] eqn:W; try discriminate.
    inversion H; subst. exists et, rest. auto.
  Qed.

  Lemma walk_edges : forall es o st l, walk N step o st es = Ok l -> map et_edge l = es.
  Proof.
    induction es as [|e r IH]; intros o st l H.
    - cbn in H. inversion H. reflexivity.
    - apply walk_cons_inv in H. destruct H as (et & rest & -> & Hs & Hw).
      cbn. rewrite (step_edge _ _ _ _ Hs). f_equal. exact (IH _ _ _ Hw).
  Qed.

  Lemma walk_length : forall es o st l, walk N step o st es = Ok l -> List.length l = List.length es.
  Proof. intros es o st l H. rewrite <- (walk_edges _ _ _ _ H). symmetry. apply map_length. Qed.

  Lemma chain_iff_walk : forall l o st, chain o st l <-> walk N step o st (map et_edge l) = Ok l.
  Proof.
    induction l as [|et r IH]; intros o st.
    - split; intros _; [reflexivity | constructor].
    - split.
      + intros H. inversion H as [|o' st' et' r' Hs Hc]; subst.
        cbn [map]. rewrite walk_cons, Hs. apply IH in Hc. rewrite Hc. reflexivity.
      + intros H. cbn [map] in H. apply walk_cons_inv in H.
        destruct H as (et' & rest & E & Hs & Hw). inversion E; subst et' rest.
        constructor; [exact Hs | apply IH; exact Hw].
  Qed.

  Lemma walk_chain : forall es o st l, walk N step o st es = Ok l -> chain o st l.
  Proof.
    intros es o st l H. apply chain_iff_walk. rewrite (walk_edges _ _ _ _ H). exact H.
  Qed.

  Lemma walk_prefix : forall es o st l k,
    walk N step o st es = Ok l -> walk N step o st (firstn k es) = Ok (firstn k l).
  Proof.
    induction es as [|e r IH]; intros o st l k H.
    - cbn in H. inversion H; subst. destruct k; reflexivity.
    - apply walk_cons_inv in H. destruct H as (et & rest & -> & Hs & Hw).
      destruct k as [|k]; [reflexivity|].
      cbn [firstn]. rewrite walk_cons, Hs, (IH _ _ _ k Hw). reflexivity.
  Qed.

  Lemma walk_app : forall es1 es2 o st l1 l2,
    walk N step o st es1 = Ok l1 ->
    walk N step (end_edge o es1) (end_state st l1) es2 = Ok l2 ->
    walk N step o st (es1 ++ es2) = Ok (l1 ++ l2).
  Proof.
    induction es1 as [|e r IH]; intros es2 o st l1 l2 H1 H2.
    - cbn in H1. inversion H1; subst. exact H2.
    - apply walk_cons_inv in H1. destruct H1 as (et & rest & -> & Hs & Hw).
      cbn [app]. rewrite walk_cons, Hs.
      rewrite (IH es2 (Some e) (et_state et) rest l2 Hw H2). reflexivity.
  Qed.

  Lemma walk_app_inv : forall es1 es2 o st l,
    walk N step o st (es1 ++ es2) = Ok l ->
    exists l1 l2, l = l1 ++ l2 /\ walk N step o st es1 = Ok l1
                  /\ walk N step (end_edge o es1) (end_state st l1) es2 = Ok l2.
  Proof.
    induction es1 as [|e r IH]; intros es2 o st l H.
    - exists [], l. auto.
    - cbn [app] in H. apply walk_cons_inv in H. destruct H as (et & rest & -> & Hs & Hw).
      destruct (IH _ _ _ _ Hw) as (l1 & l2 & -> & H1 & H2).
      exists (et :: l1), l2. split; [reflexivity|]. split; [|exact H2].
      rewrite walk_cons, Hs, H1. reflexivity.
  Qed.

  (* the k-th state of a walk is the last state of the walk along the first k+1 edges *)
  Lemma walk_nth_state : forall es o st l k et,
    walk N step o st es = Ok l -> nth_error l k = Some et ->
    end_state st (firstn (S k) l) = et_state et.
  Proof.
    induction es as [|e r IH]; intros o st l k et H Hk.
    - cbn in H. inversion H; subst. destruct k; discriminate.
    - apply walk_cons_inv in H. destruct H as (et0 & rest & -> & Hs & Hw).
      destruct k as [|k].
      + cbn in Hk. inversion Hk; subst. reflexivity.
      + cbn in Hk. cbn [firstn]. unfold end_state. cbn [fold_left].
        exact (IH _ _ _ _ _ Hw Hk).
  Qed.
End Walk.

(* ---- the two traversal functions label their result with the traversed edge ---- *)
Ltac bind_inv H :=
  repeat match type of H with
         | bind ?r _ = Ok _ => let E := fresh "E" in destruct r eqn:E; cbn [bind] in H; try discriminate H
         | (let '(_, _) := ?p in _) = Ok _ => destruct p
         end.

Lemma traversal_body_edge : forall (N : Num) inst this pair ok st et,
  traversal_body N inst this pair ok st = Ok et -> et_edge et = this.
Proof.
  intros N inst this pair ok st et H. unfold traversal_body in H.
  bind_inv H. inversion H. reflexivity.
Qed.

Lemma forward_traversal_edge : forall (N : Num) inst e o st et,
  forward_traversal N inst e o st = Ok et -> et_edge et = e.
Proof. intros N inst e o st et H. exact (traversal_body_edge _ _ _ _ _ _ _ H). Qed.
Lemma reverse_traversal_edge : forall (N : Num) inst e o st et,
  reverse_traversal N inst e o st = Ok et -> et_edge et = e.
Proof. intros N inst e o st et H. exact (traversal_body_edge _ _ _ _ _ _ _ H). Qed.

(* ---- reorient_reverse_route ---- *)
Section Reorient.
  Variable N : Num.
  Variable inst : instance N.
  Notation fwd_step := (forward_traversal N inst).

  Lemma last_map_some : forall {A} (l : list A) (x : A), last (map Some (l ++ [x])) None = Some x.
  Proof.
    intros A l x. induction l as [|a r IH]; [reflexivity|].
    change (last (Some a :: map Some (r ++ [x])) None = Some x).
    destruct (map Some (r ++ [x])) as [|y ys] eqn:E.
    - destruct r; discriminate.
    - exact IH.
  Qed.

  Lemma end_state_last : forall st (l : list (etrav N)),
    end_state N st l = match last (map Some l) None with Some x => et_state x | None => st end.
  Proof.
    intros st l. destruct l as [|a r] using rev_ind; [reflexivity|].
    unfold end_state. rewrite fold_left_app. cbn [fold_left]. rewrite last_map_some. reflexivity.
  Qed.

  Lemma end_edge_last : forall o (l : list (etrav N)),
    end_edge o (map et_edge l) = match last (map Some l) None with Some x => Some (et_edge x) | None => o end.
  Proof.
    intros o l. destruct l as [|a r] using rev_ind; [reflexivity|].
    unfold end_edge. rewrite map_app, fold_left_app. cbn [map fold_left]. rewrite last_map_some. reflexivity.
  Qed.

  (* what the function computes: a forward walk along the reversed edge ids of the reverse half, starting from the
     forward half's last state with its last edge as the access edge (from the declared initial state, without an
     access edge, when the forward half is empty) *)
  Lemma reorient_is_walk : forall fwd rev_route,
    reorient_reverse_route N inst fwd rev_route =
      run_forward N inst (end_edge None (map et_edge fwd)) (end_state N (initial_state (i_sm inst)) fwd)
                  (rev (map et_edge rev_route)).
  Proof.
    intros fwd rev_route. unfold reorient_reverse_route.
    rewrite end_edge_last, end_state_last. destruct (last (map Some fwd) None); reflexivity.
  Qed.

  (* forward half (a forward walk from the initial state) ++ re-oriented reverse half = one forward walk from the
     initial state along all the edges *)
  Lemma via_route_is_walk : forall es fwd rev_route via,
    run_forward N inst None (initial_state (i_sm inst)) es = Ok fwd ->
    reorient_reverse_route N inst fwd rev_route = Ok via ->
    run_forward N inst None (initial_state (i_sm inst)) (es ++ rev (map et_edge rev_route)) = Ok (fwd ++ via).
  Proof.
    intros es fwd rev_route via Hf Hv. rewrite reorient_is_walk in Hv.
    unfold run_forward in *. apply (walk_app N fwd_step es _ None _ fwd via Hf).
    rewrite <- (walk_edges N fwd_step (forward_traversal_edge N inst) _ _ _ _ Hf) at 1. exact Hv.
  Qed.
End Reorient.
