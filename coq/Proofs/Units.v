From RC Require Import Model.Units Model.UnitsRun.
