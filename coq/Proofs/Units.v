(* Lemmas for property C09, all about the exact-rational instance [QN] of Model/Units.v and about the
   REGENERATED table Gen/UnitTables.v.

   Structure
     1. arithmetic helpers ([within], scaling a relative bound by any x);
     2. a generic section over one unit family: every arm is multiplication by one constant (whatever the
        table says), hence additive and homogeneous; identity / round trip / physical factor are FINITE facts
        about the table ([forallb ... = true], decided by vm_compute) lifted to every magnitude and sign;
     3. the finite facts for the six generated tables (these are the obligations a changed factor breaks);
     4. the six families instantiated;
     5. the constructors create_time / create_speed / create_energy. *)
From Coq Require Import ZArith QArith Qabs String List Bool Lia Lqa.
From RC Require Import Base.Num Base.Res Gen.UnitTables Model.Units Model.UnitsRun.
Import ListNotations.
Import UnitTables Units UnitsRun.
Local Open Scope Q_scope.

(* ------------------------------------------------------------------ 1. helpers *)
Lemma within_spec : forall t a b, within t a b = true -> Qabs (a - b) <= t * Qabs b.
Proof. intros t a b H. unfold within in H. apply Qle_bool_iff in H. exact H. Qed.

Lemma Qltb_spec : forall a b, Qltb a b = true -> a < b.
Proof.
  intros a b H. unfold Qltb in H. apply negb_true_iff in H.
  destruct (Qlt_le_dec a b) as [Hlt | Hle]; [exact Hlt|].
  apply Qle_bool_iff in Hle. rewrite Hle in H. discriminate H.
Qed.

Lemma Qle_bool_false : forall a b, b < a -> Qle_bool a b = false.
Proof.
  intros a b H. destruct (Qle_bool a b) eqn:E; [|reflexivity].
  apply Qle_bool_iff in E. exfalso. exact (Qlt_not_le _ _ H E).
Qed.

(* a relative bound on a factor is a relative bound on every scaled value *)
Lemma scale_within : forall t a b x,
  Qabs (a - b) <= t * Qabs b -> Qabs (x * a - x * b) <= t * Qabs (x * b).
Proof.
  intros t a b x H.
  assert (E : x * a - x * b == x * (a - b)) by ring.
  rewrite E. rewrite !Qabs_Qmult.
  assert (E2 : t * (Qabs x * Qabs b) == (t * Qabs b) * Qabs x) by ring.
  rewrite E2. rewrite (Qmult_comm (Qabs x)).
  apply Qmult_le_compat_r; [exact H | apply Qabs_nonneg].
Qed.

Lemma div_mul_div : forall a b c d : Q, (a * b) / (c * d) == (a / c) * (b / d).
Proof. intros a b c d. unfold Qdiv. rewrite Qinv_mult_distr. ring. Qed.

Lemma mul_pos : forall a b : Q, 0 < a -> 0 < b -> 0 < a * b.
Proof. intros a b Ha Hb. nra. Qed.

Lemma mul_nonpos : forall a b : Q, a <= 0 -> 0 < b -> a * b <= 0.
Proof. intros a b Ha Hb. nra. Qed.

(* every arm of every table is multiplication by its constant *)
Lemma apply_conv_factor : forall c (x : Q), apply_conv QN c x == x * conv_factor c.
Proof.
  intros c x. destruct c as [| m e | m e]; cbn [apply_conv conv_factor mul div lit QN].
  - ring.
  - reflexivity.
  - reflexivity.
Qed.

(* ------------------------------------------------------------------ 2. one family, generically *)
Section Family.
  Context {U : Type}.
  Variable name : U -> string.
  Variable t : table.
  Variable all : list U.
  Hypothesis all_complete : forall u, In u all.

  Let cv (u v : U) (x : Q) : Q := apply_conv QN (conv_of t (name u) (name v)) x.
  Let k (u v : U) : Q := conv_factor (conv_of t (name u) (name v)).

  Lemma fam_factor : forall u v x, cv u v x == x * k u v.
  Proof. intros u v x. apply apply_conv_factor. Qed.

  Lemma fam_additive : forall u v x y, cv u v (x + y) == cv u v x + cv u v y.
  Proof. intros u v x y. rewrite !fam_factor. ring. Qed.

  Lemma fam_homogeneous : forall u v a x, cv u v (a * x) == a * cv u v x.
  Proof. intros u v a x. rewrite !fam_factor. ring. Qed.

  Lemma fam_identity : forallb (id_ok k) all = true -> forall u x, cv u u x == x.
  Proof.
    intros Htab u x. rewrite fam_factor.
    rewrite forallb_forall in Htab. specialize (Htab u (all_complete u)).
    unfold id_ok in Htab. apply Qeq_bool_iff in Htab. rewrite Htab. ring.
  Qed.

  Lemma fam_roundtrip : forallb (rt_ok k) (list_prod all all) = true ->
    forall u v x, Qabs (cv v u (cv u v x) - x) <= tol * Qabs x.
  Proof.
    intros Htab u v x.
    rewrite forallb_forall in Htab.
    specialize (Htab (u, v) (proj2 (in_prod_iff all all u v) (conj (all_complete u) (all_complete v)))).
    unfold rt_ok in Htab. cbn [fst snd] in Htab. apply within_spec in Htab.
    apply (scale_within tol _ _ x) in Htab.
    assert (E1 : cv v u (cv u v x) == x * (k u v * k v u)).
    { rewrite fam_factor. rewrite fam_factor. ring. }
    assert (E2 : x * 1 == x) by ring.
    rewrite E1. rewrite E2 in Htab. exact Htab.
  Qed.

  Lemma fam_physical : forall si : U -> Q, forallb (phys_ok k si) (list_prod all all) = true ->
    forall u v x, Qabs (cv u v x - x * (si u / si v)) <= tol * Qabs (x * (si u / si v)).
  Proof.
    intros si Htab u v x.
    rewrite forallb_forall in Htab.
    specialize (Htab (u, v) (proj2 (in_prod_iff all all u v) (conj (all_complete u) (all_complete v)))).
    unfold phys_ok in Htab. cbn [fst snd] in Htab. apply within_spec in Htab.
    apply (scale_within tol _ _ x) in Htab.
    rewrite fam_factor. exact Htab.
  Qed.

  Lemma fam_positive : forall b, forallb (pos_ok k b) all = true -> forall u, 0 < k u b /\ 0 < k b u.
  Proof.
    intros b Htab u. rewrite forallb_forall in Htab. specialize (Htab u (all_complete u)).
    unfold pos_ok in Htab. apply andb_true_iff in Htab. destruct Htab as [H1 H2].
    split; apply Qltb_spec; assumption.
  Qed.
End Family.

(* ------------------------------------------------------------------ 3. finite facts about the generated tables *)
Lemma all_dist_complete : forall u : dist_unit, In u all_dist.
Proof. intros u. destruct u; cbn; tauto. Qed.
Lemma all_time_complete : forall u : time_unit, In u all_time.
Proof. intros u. destruct u; cbn; tauto. Qed.
Lemma all_speed_complete : forall u : speed_unit, In u all_speed.
Proof. intros u. destruct u; cbn; tauto. Qed.
Lemma all_energy_complete : forall u : energy_unit, In u all_energy.
Proof. intros u. destruct u; cbn; tauto. Qed.
Lemma all_energy_rate_complete : forall u : energy_rate_unit, In u all_energy_rate.
Proof. intros u. destruct u; cbn; tauto. Qed.
Lemma all_grade_complete : forall u : grade_unit, In u all_grade.
Proof. intros u. destruct u; cbn; tauto. Qed.
Lemma all_weight_complete : forall u : weight_unit, In u all_weight.
Proof. intros u. destruct u; cbn; tauto. Qed.

(* the hand-written enumerations list exactly the variants the translator found in the Rust enums, in
   declaration order; every generated name resolves (the fallbacks of Model/Units.v are never taken);
   every ordered pair has an arm (no [missing_arm]) and no table has more arms than pairs *)
Lemma gen_variants_agree :
  distance_variants = map dist_name all_dist /\ time_variants = map time_name all_time
  /\ speed_variants = map speed_name all_speed /\ energy_variants = map energy_name all_energy
  /\ energy_rate_variants = map energy_rate_name all_energy_rate
  /\ grade_variants = map grade_name all_grade /\ weight_variants = map weight_name all_weight.
Proof. repeat split; vm_compute; reflexivity. Qed.

Definition resolves {A B} (of_name : string -> option B) (l : list (A * string)) : bool :=
  forallb (fun p => match of_name (snd p) with Some _ => true | None => false end) l.
Lemma gen_names_resolve :
  dist_of_name UnitTables.base_distance_unit <> None /\ time_of_name UnitTables.base_time_unit <> None
  /\ speed_of_name UnitTables.base_speed_unit <> None
  /\ resolves time_of_name UnitTables.speed_time_unit = true
  /\ resolves dist_of_name UnitTables.speed_distance_unit = true
  /\ resolves dist_of_name UnitTables.energy_rate_distance_unit = true
  /\ resolves energy_of_name UnitTables.energy_rate_energy_unit = true
  /\ map fst UnitTables.speed_time_unit = map speed_name all_speed
  /\ map fst UnitTables.speed_distance_unit = map speed_name all_speed
  /\ map fst UnitTables.energy_rate_distance_unit = map energy_rate_name all_energy_rate
  /\ map fst UnitTables.energy_rate_energy_unit = map energy_rate_name all_energy_rate.
Proof. repeat split; vm_compute; solve [reflexivity | discriminate]. Qed.

Definition arms_total {U} (name : U -> string) (all : list U) (t : table) : bool :=
  forallb (fun p => match lookup t (name (fst p)) (name (snd p)) with Some _ => true | None => false end)
          (list_prod all all)
  && Nat.eqb (List.length t) (List.length (list_prod all all)).
Lemma gen_tables_total :
  arms_total dist_name all_dist distance_table = true /\ arms_total time_name all_time time_table = true
  /\ arms_total speed_name all_speed speed_table = true /\ arms_total energy_name all_energy energy_table = true
  /\ arms_total grade_name all_grade grade_table = true /\ arms_total weight_name all_weight weight_table = true.
Proof. repeat split; vm_compute; reflexivity. Qed.

(* identity: the arm (u, u) has factor exactly 1 *)
Lemma distance_identity_table : forallb (id_ok k_dist) all_dist = true.
Proof. vm_compute. reflexivity. Qed.
Lemma time_identity_table : forallb (id_ok k_time) all_time = true.
Proof. vm_compute. reflexivity. Qed.
Lemma speed_identity_table : forallb (id_ok k_speed) all_speed = true.
Proof. vm_compute. reflexivity. Qed.
Lemma energy_identity_table : forallb (id_ok k_energy) all_energy = true.
Proof. vm_compute. reflexivity. Qed.
Lemma grade_identity_table : forallb (id_ok k_grade) all_grade = true.
Proof. vm_compute. reflexivity. Qed.
Lemma weight_identity_table : forallb (id_ok k_weight) all_weight = true.
Proof. vm_compute. reflexivity. Qed.

(* round trip: |k(u,v) * k(v,u) - 1| <= 1/1000 for ALL ordered pairs: 25 + 16 + 9 + 9 + 9 + 9 *)
Lemma distance_roundtrip_table : forallb (rt_ok k_dist) (list_prod all_dist all_dist) = true.
Proof. vm_compute. reflexivity. Qed.
Lemma time_roundtrip_table : forallb (rt_ok k_time) (list_prod all_time all_time) = true.
Proof. vm_compute. reflexivity. Qed.
Lemma speed_roundtrip_table : forallb (rt_ok k_speed) (list_prod all_speed all_speed) = true.
Proof. vm_compute. reflexivity. Qed.
Lemma energy_roundtrip_table : forallb (rt_ok k_energy) (list_prod all_energy all_energy) = true.
Proof. vm_compute. reflexivity. Qed.
Lemma grade_roundtrip_table : forallb (rt_ok k_grade) (list_prod all_grade all_grade) = true.
Proof. vm_compute. reflexivity. Qed.
Lemma weight_roundtrip_table : forallb (rt_ok k_weight) (list_prod all_weight all_weight) = true.
Proof. vm_compute. reflexivity. Qed.

(* physical: |k(u,v) - si u / si v| <= 1/1000 * (si u / si v) against the exact SI specification *)
Lemma distance_physical_table : forallb (phys_ok k_dist si_distance) (list_prod all_dist all_dist) = true.
Proof. vm_compute. reflexivity. Qed.
Lemma time_physical_table : forallb (phys_ok k_time si_time) (list_prod all_time all_time) = true.
Proof. vm_compute. reflexivity. Qed.
Lemma speed_physical_table : forallb (phys_ok k_speed si_speed) (list_prod all_speed all_speed) = true.
Proof. vm_compute. reflexivity. Qed.
Lemma grade_physical_table : forallb (phys_ok k_grade si_grade) (list_prod all_grade all_grade) = true.
Proof. vm_compute. reflexivity. Qed.
Lemma weight_physical_table : forallb (phys_ok k_weight si_weight) (list_prod all_weight all_weight) = true.
Proof. vm_compute. reflexivity. Qed.

(* the factors to and from the base units are strictly positive (so the sign tests of the constructors, made
   AFTER conversion to base units, are tests on the raw inputs) *)
Lemma distance_positive_table : forallb (pos_ok k_dist base_distance_unit) all_dist = true.
Proof. vm_compute. reflexivity. Qed.
Lemma time_positive_table : forallb (pos_ok k_time base_time_unit) all_time = true.
Proof. vm_compute. reflexivity. Qed.
Lemma speed_positive_table : forallb (pos_ok k_speed base_speed_unit) all_speed = true.
Proof. vm_compute. reflexivity. Qed.

(* constructors: the combined factor of every unit triple is within the accumulated tolerance of the same
   combination of SI factors (60 + 60 triples, 25 rate/distance pairs) *)
Lemma create_time_table : forallb time_ok time_triples = true.
Proof. vm_compute. reflexivity. Qed.
Lemma create_speed_table : forallb speed_ok speed_triples = true.
Proof. vm_compute. reflexivity. Qed.
Lemma create_energy_table : forallb energy_ok energy_pairs = true.
Proof. vm_compute. reflexivity. Qed.

(* the search tool of the run agrees: no failing entry *)
Lemma no_table_failures : table_failures = [].
Proof. vm_compute. reflexivity. Qed.

(* ------------------------------------------------------------------ 4. the six families *)
Lemma convert_distance_factor : forall u v (x : Q), convert_distance QN u v x == x * k_dist u v.
Proof. exact (fam_factor dist_name distance_table). Qed.
Lemma convert_time_factor : forall u v (x : Q), convert_time QN u v x == x * k_time u v.
Proof. exact (fam_factor time_name time_table). Qed.
Lemma convert_speed_factor : forall u v (x : Q), convert_speed QN u v x == x * k_speed u v.
Proof. exact (fam_factor speed_name speed_table). Qed.
Lemma convert_energy_factor : forall u v (x : Q), convert_energy QN u v x == x * k_energy u v.
Proof. exact (fam_factor energy_name energy_table). Qed.
Lemma convert_grade_factor : forall u v (x : Q), convert_grade QN u v x == x * k_grade u v.
Proof. exact (fam_factor grade_name grade_table). Qed.
Lemma convert_weight_factor : forall u v (x : Q), convert_weight QN u v x == x * k_weight u v.
Proof. exact (fam_factor weight_name weight_table). Qed.

(* linearity *)
Lemma convert_distance_additive : forall u v (x y : Q),
  convert_distance QN u v (x + y) == convert_distance QN u v x + convert_distance QN u v y.
Proof. exact (fam_additive dist_name distance_table). Qed.
Lemma convert_time_additive : forall u v (x y : Q),
  convert_time QN u v (x + y) == convert_time QN u v x + convert_time QN u v y.
Proof. exact (fam_additive time_name time_table). Qed.
Lemma convert_speed_additive : forall u v (x y : Q),
  convert_speed QN u v (x + y) == convert_speed QN u v x + convert_speed QN u v y.
Proof. exact (fam_additive speed_name speed_table). Qed.
Lemma convert_energy_additive : forall u v (x y : Q),
  convert_energy QN u v (x + y) == convert_energy QN u v x + convert_energy QN u v y.
Proof. exact (fam_additive energy_name energy_table). Qed.
Lemma convert_grade_additive : forall u v (x y : Q),
  convert_grade QN u v (x + y) == convert_grade QN u v x + convert_grade QN u v y.
Proof. exact (fam_additive grade_name grade_table). Qed.
Lemma convert_weight_additive : forall u v (x y : Q),
  convert_weight QN u v (x + y) == convert_weight QN u v x + convert_weight QN u v y.
Proof. exact (fam_additive weight_name weight_table). Qed.

Lemma convert_distance_homogeneous : forall u v (a x : Q),
  convert_distance QN u v (a * x) == a * convert_distance QN u v x.
Proof. exact (fam_homogeneous dist_name distance_table). Qed.
Lemma convert_time_homogeneous : forall u v (a x : Q),
  convert_time QN u v (a * x) == a * convert_time QN u v x.
Proof. exact (fam_homogeneous time_name time_table). Qed.
Lemma convert_speed_homogeneous : forall u v (a x : Q),
  convert_speed QN u v (a * x) == a * convert_speed QN u v x.
Proof. exact (fam_homogeneous speed_name speed_table). Qed.
Lemma convert_energy_homogeneous : forall u v (a x : Q),
  convert_energy QN u v (a * x) == a * convert_energy QN u v x.
Proof. exact (fam_homogeneous energy_name energy_table). Qed.
Lemma convert_grade_homogeneous : forall u v (a x : Q),
  convert_grade QN u v (a * x) == a * convert_grade QN u v x.
Proof. exact (fam_homogeneous grade_name grade_table). Qed.
Lemma convert_weight_homogeneous : forall u v (a x : Q),
  convert_weight QN u v (a * x) == a * convert_weight QN u v x.
Proof. exact (fam_homogeneous weight_name weight_table). Qed.

(* identity *)
Lemma convert_distance_id : forall u (x : Q), convert_distance QN u u x == x.
Proof. exact (fam_identity dist_name distance_table all_dist all_dist_complete distance_identity_table). Qed.
Lemma convert_time_id : forall u (x : Q), convert_time QN u u x == x.
Proof. exact (fam_identity time_name time_table all_time all_time_complete time_identity_table). Qed.
Lemma convert_speed_id : forall u (x : Q), convert_speed QN u u x == x.
Proof. exact (fam_identity speed_name speed_table all_speed all_speed_complete speed_identity_table). Qed.
Lemma convert_energy_id : forall u (x : Q), convert_energy QN u u x == x.
Proof. exact (fam_identity energy_name energy_table all_energy all_energy_complete energy_identity_table). Qed.
Lemma convert_grade_id : forall u (x : Q), convert_grade QN u u x == x.
Proof. exact (fam_identity grade_name grade_table all_grade all_grade_complete grade_identity_table). Qed.
Lemma convert_weight_id : forall u (x : Q), convert_weight QN u u x == x.
Proof. exact (fam_identity weight_name weight_table all_weight all_weight_complete weight_identity_table). Qed.

(* round trip within 0.1 %, every ordered pair, every magnitude and sign *)
Lemma convert_distance_roundtrip : forall u v (x : Q),
  Qabs (convert_distance QN v u (convert_distance QN u v x) - x) <= tol * Qabs x.
Proof. exact (fam_roundtrip dist_name distance_table all_dist all_dist_complete distance_roundtrip_table). Qed.
Lemma convert_time_roundtrip : forall u v (x : Q),
  Qabs (convert_time QN v u (convert_time QN u v x) - x) <= tol * Qabs x.
Proof. exact (fam_roundtrip time_name time_table all_time all_time_complete time_roundtrip_table). Qed.
Lemma convert_speed_roundtrip : forall u v (x : Q),
  Qabs (convert_speed QN v u (convert_speed QN u v x) - x) <= tol * Qabs x.
Proof. exact (fam_roundtrip speed_name speed_table all_speed all_speed_complete speed_roundtrip_table). Qed.
Lemma convert_energy_roundtrip : forall u v (x : Q),
  Qabs (convert_energy QN v u (convert_energy QN u v x) - x) <= tol * Qabs x.
Proof. exact (fam_roundtrip energy_name energy_table all_energy all_energy_complete energy_roundtrip_table). Qed.
Lemma convert_grade_roundtrip : forall u v (x : Q),
  Qabs (convert_grade QN v u (convert_grade QN u v x) - x) <= tol * Qabs x.
Proof. exact (fam_roundtrip grade_name grade_table all_grade all_grade_complete grade_roundtrip_table). Qed.
Lemma convert_weight_roundtrip : forall u v (x : Q),
  Qabs (convert_weight QN v u (convert_weight QN u v x) - x) <= tol * Qabs x.
Proof. exact (fam_roundtrip weight_name weight_table all_weight all_weight_complete weight_roundtrip_table). Qed.

(* physical factor within 0.1 % *)
Lemma convert_distance_physical : forall u v (x : Q),
  Qabs (convert_distance QN u v x - x * (si_distance u / si_distance v)) <= tol * Qabs (x * (si_distance u / si_distance v)).
Proof. exact (fam_physical dist_name distance_table all_dist all_dist_complete si_distance distance_physical_table). Qed.
Lemma convert_time_physical : forall u v (x : Q),
  Qabs (convert_time QN u v x - x * (si_time u / si_time v)) <= tol * Qabs (x * (si_time u / si_time v)).
Proof. exact (fam_physical time_name time_table all_time all_time_complete si_time time_physical_table). Qed.
Lemma convert_speed_physical : forall u v (x : Q),
  Qabs (convert_speed QN u v x - x * (si_speed u / si_speed v)) <= tol * Qabs (x * (si_speed u / si_speed v)).
Proof. exact (fam_physical speed_name speed_table all_speed all_speed_complete si_speed speed_physical_table). Qed.
Lemma convert_grade_physical : forall u v (x : Q),
  Qabs (convert_grade QN u v x - x * (si_grade u / si_grade v)) <= tol * Qabs (x * (si_grade u / si_grade v)).
Proof. exact (fam_physical grade_name grade_table all_grade all_grade_complete si_grade grade_physical_table). Qed.
Lemma convert_weight_physical : forall u v (x : Q),
  Qabs (convert_weight QN u v x - x * (si_weight u / si_weight v)) <= tol * Qabs (x * (si_weight u / si_weight v)).
Proof. exact (fam_physical weight_name weight_table all_weight all_weight_complete si_weight weight_physical_table). Qed.

(* ------------------------------------------------------------------ 5. constructors *)
Lemma dist_to_base_pos : forall u, 0 < k_dist u base_distance_unit.
Proof. intros u. exact (proj1 (fam_positive dist_name distance_table all_dist all_dist_complete _ distance_positive_table u)). Qed.
Lemma speed_to_base_pos : forall u, 0 < k_speed u base_speed_unit.
Proof. intros u. exact (proj1 (fam_positive speed_name speed_table all_speed all_speed_complete _ speed_positive_table u)). Qed.
Lemma time_to_base_pos : forall u, 0 < k_time u base_time_unit.
Proof. intros u. exact (proj1 (fam_positive time_name time_table all_time all_time_complete _ time_positive_table u)). Qed.

Lemma in_triples : forall {A B C} (la : list A) (lb : list B) (lc : list C) a b c,
  In a la -> In b lb -> In c lc -> In (a, b, c) (list_prod (list_prod la lb) lc).
Proof. intros A B C la lb lc a b c Ha Hb Hc. apply in_prod; [apply in_prod|]; assumption. Qed.

(* create_time: rejection *)
Lemma create_time_rejects : forall su du tu (s d : Q),
  s <= 0 \/ d <= 0 -> create_time QN s su d du tu = Err err_time.
Proof.
  intros su du tu s d Hsd. unfold create_time. cbn [leb zero QN].
  assert (Hor : Qle_bool (convert_speed QN su base_speed_unit s) 0 || Qle_bool (convert_distance QN du base_distance_unit d) 0 = true).
  { apply orb_true_iff. destruct Hsd as [Hs | Hd]; [left | right]; apply Qle_bool_iff.
    - rewrite convert_speed_factor. apply mul_nonpos; [exact Hs | apply speed_to_base_pos].
    - rewrite convert_distance_factor. apply mul_nonpos; [exact Hd | apply dist_to_base_pos]. }
  rewrite Hor. reflexivity.
Qed.

(* create_time: algebraic form and distance to the definition time = distance / speed *)
Lemma create_time_spec : forall su du tu (s d : Q), 0 < s -> 0 < d ->
  exists t : Q, create_time QN s su d du tu = Ok t
    /\ t == d / s * time_factor su du tu
    /\ Qabs (t - d / s * time_si su du tu) <= tol3 * Qabs (d / s * time_si su du tu).
Proof.
  intros su du tu s d Hs Hd. unfold create_time. cbn [leb zero div QN].
  rewrite (Qle_bool_false (convert_speed QN su base_speed_unit s) 0).
  2:{ rewrite convert_speed_factor. apply mul_pos; [exact Hs | apply speed_to_base_pos]. }
  rewrite (Qle_bool_false (convert_distance QN du base_distance_unit d) 0).
  2:{ rewrite convert_distance_factor. apply mul_pos; [exact Hd | apply dist_to_base_pos]. }
  cbn [orb]. eexists. split; [reflexivity|].
  assert (E : convert_time QN base_time_unit tu
                (convert_distance QN du base_distance_unit d / convert_speed QN su base_speed_unit s)
              == d / s * time_factor su du tu).
  { rewrite convert_time_factor, convert_distance_factor, convert_speed_factor.
    rewrite div_mul_div. unfold time_factor. ring. }
  split; [exact E|].
  rewrite E. apply scale_within. apply within_spec.
  pose proof create_time_table as Htab. rewrite forallb_forall in Htab.
  exact (Htab (su, du, tu) (in_triples _ _ _ _ _ _ (all_speed_complete su) (all_dist_complete du) (all_time_complete tu))).
Qed.

(* the SI form of the definition: (d * si du) / (s * si su) / si tu, i.e. metres over metres-per-second, in tu *)
Lemma time_si_form : forall su du tu (s d : Q),
  (d * si_distance du) / (s * si_speed su) / si_time tu == d / s * time_si su du tu.
Proof. intros su du tu s d. rewrite div_mul_div. unfold time_si, Qdiv. ring. Qed.

(* create_speed *)
Lemma create_speed_rejects : forall tu du su (t d : Q),
  t <= 0 -> create_speed QN t tu d du su = Err err_speed.
Proof.
  intros tu du su t d Ht. unfold create_speed. cbn [leb zero QN].
  assert (H : Qle_bool (convert_time QN tu base_time_unit t) 0 = true).
  { apply Qle_bool_iff. rewrite convert_time_factor. apply mul_nonpos; [exact Ht | apply time_to_base_pos]. }
  rewrite H. reflexivity.
Qed.

Lemma create_speed_spec : forall tu du su (t d : Q), 0 < t ->
  exists v : Q, create_speed QN t tu d du su = Ok v
    /\ v == d / t * speed_factor tu du su
    /\ Qabs (v - d / t * speed_si tu du su) <= tol3 * Qabs (d / t * speed_si tu du su).
Proof.
  intros tu du su t d Ht. unfold create_speed. cbn [leb zero div QN].
  rewrite (Qle_bool_false (convert_time QN tu base_time_unit t) 0).
  2:{ rewrite convert_time_factor. apply mul_pos; [exact Ht | apply time_to_base_pos]. }
  eexists. split; [reflexivity|].
  assert (E : convert_speed QN base_speed_unit su
                (convert_distance QN du base_distance_unit d / convert_time QN tu base_time_unit t)
              == d / t * speed_factor tu du su).
  { rewrite convert_speed_factor, convert_distance_factor, convert_time_factor.
    rewrite div_mul_div. unfold speed_factor. ring. }
  split; [exact E|].
  rewrite E. apply scale_within. apply within_spec.
  pose proof create_speed_table as Htab. rewrite forallb_forall in Htab.
  exact (Htab (tu, du, su) (in_triples _ _ _ _ _ _ (all_time_complete tu) (all_dist_complete du) (all_speed_complete su))).
Qed.

Lemma speed_si_form : forall tu du su (t d : Q),
  (d * si_distance du) / (t * si_time tu) / si_speed su == d / t * speed_si tu du su.
Proof. intros tu du su t d. rewrite div_mul_div. unfold speed_si, Qdiv. ring. Qed.

(* create_energy: never rejects; energy = rate * distance in the distance unit of the rate, reported in the
   energy unit of the rate *)
Lemma create_energy_spec : forall eru du (r d : Q),
  exists e : Q, create_energy QN r eru d du = Ok (e, rate_energy eru)
    /\ e == r * d * energy_factor eru du
    /\ Qabs (e - r * d * energy_si eru du) <= tol * Qabs (r * d * energy_si eru du).
Proof.
  intros eru du r d.
  pose proof create_energy_table as Htab. rewrite forallb_forall in Htab.
  specialize (Htab (eru, du) (proj2 (in_prod_iff _ _ eru du) (conj (all_energy_rate_complete eru) (all_dist_complete du)))).
  unfold energy_ok in Htab. apply andb_true_iff in Htab. destruct Htab as [Htab Hd].
  apply andb_true_iff in Htab. destruct Htab as [Hw He].
  assert (Heu : energy_rate_energy_unit eru = rate_energy eru).
  { destruct (energy_rate_energy_unit eru), (rate_energy eru); solve [reflexivity | discriminate He]. }
  unfold create_energy. cbn [mul QN]. rewrite Heu. eexists. split; [reflexivity|].
  assert (E : r * convert_distance QN du (energy_rate_distance_unit eru) d == r * d * energy_factor eru du).
  { rewrite convert_distance_factor. unfold energy_factor. ring. }
  split; [exact E|].
  rewrite E. apply scale_within. apply within_spec. exact Hw.
Qed.

(* the same two statements with the definition spelled out in SI form: metres / (metres per second), in tu *)
Lemma create_time_spec_si : forall su du tu (s d : Q), 0 < s -> 0 < d ->
  exists t : Q, create_time QN s su d du tu = Ok t
    /\ t == d / s * (k_dist du base_distance_unit / k_speed su base_speed_unit * k_time base_time_unit tu)
    /\ Qabs (t - (d * si_distance du) / (s * si_speed su) / si_time tu)
       <= tol3 * Qabs ((d * si_distance du) / (s * si_speed su) / si_time tu).
Proof.
  intros su du tu s d Hs Hd. destruct (create_time_spec su du tu s d Hs Hd) as [t [H1 [H2 H3]]].
  exists t. split; [exact H1|]. split; [exact H2|]. rewrite time_si_form. exact H3.
Qed.

Lemma create_speed_spec_si : forall tu du su (t d : Q), 0 < t ->
  exists v : Q, create_speed QN t tu d du su = Ok v
    /\ v == d / t * (k_dist du base_distance_unit / k_time tu base_time_unit * k_speed base_speed_unit su)
    /\ Qabs (v - (d * si_distance du) / (t * si_time tu) / si_speed su)
       <= tol3 * Qabs ((d * si_distance du) / (t * si_time tu) / si_speed su).
Proof.
  intros tu du su t d Ht. destruct (create_speed_spec tu du su t d Ht) as [v [H1 [H2 H3]]].
  exists v. split; [exact H1|]. split; [exact H2|]. rewrite speed_si_form. exact H3.
Qed.

Lemma create_energy_spec_si : forall eru du (r d : Q),
  exists e : Q, create_energy QN r eru d du = Ok (e, rate_energy eru)
    /\ e == r * d * k_dist du (rate_distance eru)
    /\ Qabs (e - r * (d * (si_distance du / si_distance (rate_distance eru))))
       <= tol * Qabs (r * (d * (si_distance du / si_distance (rate_distance eru)))).
Proof.
  intros eru du r d. destruct (create_energy_spec eru du r d) as [e [H1 [H2 H3]]].
  exists e. split; [exact H1|].
  pose proof create_energy_table as Htab. rewrite forallb_forall in Htab.
  specialize (Htab (eru, du) (proj2 (in_prod_iff _ _ eru du) (conj (all_energy_rate_complete eru) (all_dist_complete du)))).
  unfold energy_ok in Htab. apply andb_true_iff in Htab. destruct Htab as [_ Hd].
  assert (Hdu : energy_rate_distance_unit eru = rate_distance eru).
  { destruct (energy_rate_distance_unit eru), (rate_distance eru); solve [reflexivity | discriminate Hd]. }
  split.
  - rewrite H2. unfold energy_factor. rewrite Hdu. reflexivity.
  - assert (E : r * (d * (si_distance du / si_distance (rate_distance eru))) == r * d * energy_si eru du).
    { unfold energy_si. ring. }
    rewrite E. exact H3.
Qed.

(* the combined factors themselves are within the accumulated tolerance of the SI combination *)
Lemma time_factor_within : forall su du tu,
  Qabs (time_factor su du tu - time_si su du tu) <= tol3 * Qabs (time_si su du tu).
Proof.
  intros su du tu. apply within_spec. pose proof create_time_table as Htab. rewrite forallb_forall in Htab.
  exact (Htab (su, du, tu) (in_triples _ _ _ _ _ _ (all_speed_complete su) (all_dist_complete du) (all_time_complete tu))).
Qed.
Lemma speed_factor_within : forall tu du su,
  Qabs (speed_factor tu du su - speed_si tu du su) <= tol3 * Qabs (speed_si tu du su).
Proof.
  intros tu du su. apply within_spec. pose proof create_speed_table as Htab. rewrite forallb_forall in Htab.
  exact (Htab (tu, du, su) (in_triples _ _ _ _ _ _ (all_time_complete tu) (all_dist_complete du) (all_speed_complete su))).
Qed.

(* examples used for non-vacuity in Props/C09.v (inequalities only: a corrected literal must not break them) *)
Lemma ex_miles_km : Qabs (convert_distance QN Miles Kilometers 10 - (1609344 # 100000)) <= (1 # 1000) * (1609344 # 100000)
                    /\ ~ convert_distance QN Miles Kilometers 10 == 10.
Proof.
  split.
  - apply Qle_bool_iff. vm_compute. reflexivity.
  - intro H. vm_compute in H. discriminate H.
Qed.
Lemma ex_create_time :
  match create_time QN 60 KilometersPerHour 30 Kilometers Minutes with
  | Ok t => Qle_bool (Qabs (t - 30)) (1 # 100)
  | _ => false
  end = true
  /\ create_time QN 0 KilometersPerHour 30 Kilometers Minutes = Err err_time
  /\ create_time QN 60 KilometersPerHour (-30) Kilometers Minutes = Err err_time.
Proof. repeat split; vm_compute; reflexivity. Qed.
Lemma ex_create_energy :
  match create_energy QN (2 # 10) KilowattHoursPerKilometer 1000 Meters with
  | Ok (e, KilowattHours) => Qle_bool (Qabs (e - (2 # 10))) (1 # 1000)
  | _ => false
  end = true.
Proof. vm_compute. reflexivity. Qed.
