(* Further lemmas about the unit conversions (property C09), on top of Proofs/Units.v: every conversion factor
   of the REGENERATED table is strictly positive, hence every conversion is strictly monotone, preserves sign
   and zero, and is injective - for every ordered pair of every family and every rational magnitude; and
   for the five families with a physical clause, converting through an intermediate unit agrees with the direct
   conversion to within 0.31 % (1.001^2 / 0.999 - 1: three table factors each within 0.1 % of exact ratios).
   Every statement here is a CONSEQUENCE of what C09 demands (positive SI ratios within 0.1 %), so a change that
   keeps the property cannot break it; the energy family, whose fuel equivalences are conventions that C09 does not
   pin (and which are in fact not path-consistent: gasoline -> diesel -> kWh is 0.866 * 40.7 = 35.2, the direct arm
   32.26), is deliberately left out.

   As in Proofs/Units.v the finite facts ([forallb ... = true], vm_compute over the generated tables) are the
   obligations a changed factor breaks (a negative or zero factor, or a pair of arms that disagree with a third);
   they are lifted to every magnitude and sign by linearity. *)
From Coq Require Import ZArith QArith Qabs String List Bool Lia Lqa.
From RC Require Import Base.Num Base.Res Gen.UnitTables Model.Units Model.UnitsRun Proofs.Units.
Import ListNotations.
Import UnitTables Units UnitsRun.
Local Open Scope Q_scope.

(* tolerance of a conversion through an intermediate unit *)
(* implied by C09's physical clause: both table factors of the detour and the direct one are within 0.1 % of exact
   ratios that compose, so detour / direct lies in [0.999^2 / 1.001, 1.001^2 / 0.999], inside 1 +- 0.31 % *)
Definition tol2 : Q := 31 # 10000.

Definition allpos_ok {U} (k : U -> U -> Q) (p : U * U) : bool := Qltb 0 (k (fst p) (snd p)).
Definition via_ok {U} (k : U -> U -> Q) (p : U * (U * U)) : bool :=
  let '(u, (v, w)) := p in within tol2 (k u v * k v w) (k u w).

Section Order.
  Context {U : Type}.
  Variable k : U -> U -> Q.
  Variable all : list U.
  Hypothesis all_complete : forall u, In u all.

  Lemma ord_positive : forallb (allpos_ok k) (list_prod all all) = true -> forall u v, 0 < k u v.
  Proof.
    intros Htab u v. rewrite forallb_forall in Htab.
    specialize (Htab (u, v) (proj2 (in_prod_iff all all u v) (conj (all_complete u) (all_complete v)))).
    unfold allpos_ok in Htab. cbn [fst snd] in Htab. apply Qltb_spec. exact Htab.
  Qed.

  Lemma ord_via : forallb (via_ok k) (list_prod all (list_prod all all)) = true ->
    forall u v w x, Qabs (x * k u v * k v w - x * k u w) <= tol2 * Qabs (x * k u w).
  Proof.
    intros Htab u v w x. rewrite forallb_forall in Htab.
    assert (Hin : In (u, (v, w)) (list_prod all (list_prod all all))).
    { apply in_prod_iff. split; [apply all_complete|]. apply in_prod_iff. split; apply all_complete. }
    specialize (Htab _ Hin). unfold via_ok in Htab. apply within_spec in Htab.
    apply (scale_within tol2 _ _ x) in Htab.
    assert (E : x * k u v * k v w == x * (k u v * k v w)) by ring.
    rewrite E. exact Htab.
  Qed.
End Order.

(* scaling by a positive constant *)
Lemma scale_lt : forall c x y : Q, 0 < c -> x < y -> x * c < y * c.
Proof. intros c x y Hc Hxy. nra. Qed.
Lemma scale_lt_inv : forall c x y : Q, 0 < c -> x * c < y * c -> x < y.
Proof. intros c x y Hc H. nra. Qed.
Lemma scale_le : forall c x y : Q, 0 < c -> x <= y -> x * c <= y * c.
Proof. intros c x y Hc Hxy. nra. Qed.
Lemma scale_inj : forall c x y : Q, 0 < c -> x * c == y * c -> x == y.
Proof.
  intros c x y Hc H. destruct (Q_dec x y) as [[Hlt | Hgt] | Heq]; [| |exact Heq]; exfalso.
  - apply (scale_lt c) in Hlt; [|exact Hc]. rewrite H in Hlt. exact (Qlt_irrefl _ Hlt).
  - apply (scale_lt c) in Hgt; [|exact Hc]. rewrite H in Hgt. exact (Qlt_irrefl _ Hgt).
Qed.

(* ------------------------------------------------------------------ finite facts about the generated tables *)
Lemma distance_allpos_table : forallb (allpos_ok k_dist) (list_prod all_dist all_dist) = true.
Proof. vm_compute. reflexivity. Qed.
Lemma time_allpos_table : forallb (allpos_ok k_time) (list_prod all_time all_time) = true.
Proof. vm_compute. reflexivity. Qed.
Lemma speed_allpos_table : forallb (allpos_ok k_speed) (list_prod all_speed all_speed) = true.
Proof. vm_compute. reflexivity. Qed.
Lemma grade_allpos_table : forallb (allpos_ok k_grade) (list_prod all_grade all_grade) = true.
Proof. vm_compute. reflexivity. Qed.
Lemma weight_allpos_table : forallb (allpos_ok k_weight) (list_prod all_weight all_weight) = true.
Proof. vm_compute. reflexivity. Qed.

Lemma distance_via_table : forallb (via_ok k_dist) (list_prod all_dist (list_prod all_dist all_dist)) = true.
Proof. vm_compute. reflexivity. Qed.
Lemma time_via_table : forallb (via_ok k_time) (list_prod all_time (list_prod all_time all_time)) = true.
Proof. vm_compute. reflexivity. Qed.
Lemma speed_via_table : forallb (via_ok k_speed) (list_prod all_speed (list_prod all_speed all_speed)) = true.
Proof. vm_compute. reflexivity. Qed.
Lemma grade_via_table : forallb (via_ok k_grade) (list_prod all_grade (list_prod all_grade all_grade)) = true.
Proof. vm_compute. reflexivity. Qed.
Lemma weight_via_table : forallb (via_ok k_weight) (list_prod all_weight (list_prod all_weight all_weight)) = true.
Proof. vm_compute. reflexivity. Qed.

(* ------------------------------------------------------------------ the six families *)
Lemma k_dist_pos : forall u v, 0 < k_dist u v.
Proof. exact (ord_positive k_dist all_dist all_dist_complete distance_allpos_table). Qed.
Lemma k_time_pos : forall u v, 0 < k_time u v.
Proof. exact (ord_positive k_time all_time all_time_complete time_allpos_table). Qed.
Lemma k_speed_pos : forall u v, 0 < k_speed u v.
Proof. exact (ord_positive k_speed all_speed all_speed_complete speed_allpos_table). Qed.
Lemma k_grade_pos : forall u v, 0 < k_grade u v.
Proof. exact (ord_positive k_grade all_grade all_grade_complete grade_allpos_table). Qed.
Lemma k_weight_pos : forall u v, 0 < k_weight u v.
Proof. exact (ord_positive k_weight all_weight all_weight_complete weight_allpos_table). Qed.

(* strictly monotone in both directions (hence order-reflecting and injective) *)
Section Mono.
  Context {U : Type}.
  Variable cv : U -> U -> Q -> Q.
  Variable k : U -> U -> Q.
  Hypothesis cv_factor : forall u v x, cv u v x == x * k u v.
  Hypothesis k_pos : forall u v, 0 < k u v.

  Lemma mono_lt : forall u v x y, x < y <-> cv u v x < cv u v y.
  Proof.
    intros u v x y. rewrite !cv_factor. split.
    - apply scale_lt, k_pos.
    - apply scale_lt_inv, k_pos.
  Qed.
  Lemma mono_le : forall u v x y, x <= y -> cv u v x <= cv u v y.
  Proof. intros u v x y H. rewrite !cv_factor. apply scale_le; [apply k_pos | exact H]. Qed.
  Lemma mono_inj : forall u v x y, cv u v x == cv u v y -> x == y.
  Proof. intros u v x y H. rewrite !cv_factor in H. exact (scale_inj _ _ _ (k_pos u v) H). Qed.
  Lemma mono_zero : forall u v, cv u v 0 == 0.
  Proof. intros u v. rewrite cv_factor. ring. Qed.
  Lemma mono_sign : forall u v x, (0 < x <-> 0 < cv u v x) /\ (x < 0 <-> cv u v x < 0).
  Proof.
    intros u v x. split.
    - rewrite <- (mono_zero u v) at 2. apply mono_lt.
    - rewrite <- (mono_zero u v) at 2. apply mono_lt.
  Qed.
End Mono.

Definition order_facts {U} (cv : U -> U -> Q -> Q) : Prop :=
  (forall u v x y, x < y <-> cv u v x < cv u v y)
  /\ (forall u v x y, x <= y -> cv u v x <= cv u v y)
  /\ (forall u v x y, cv u v x == cv u v y -> x == y)
  /\ (forall u v x, (0 < x <-> 0 < cv u v x) /\ (x < 0 <-> cv u v x < 0)).

Lemma order_facts_of : forall {U} (cv : U -> U -> Q -> Q) (k : U -> U -> Q),
  (forall u v x, cv u v x == x * k u v) -> (forall u v, 0 < k u v) -> order_facts cv.
Proof.
  intros U cv k Hf Hp. repeat split.
  - apply (mono_lt cv k Hf Hp).
  - apply (mono_lt cv k Hf Hp).
  - apply (mono_le cv k Hf Hp).
  - apply (mono_inj cv k Hf Hp).
  - apply (mono_sign cv k Hf Hp).
  - apply (mono_sign cv k Hf Hp).
  - apply (mono_sign cv k Hf Hp).
  - apply (mono_sign cv k Hf Hp).
Qed.

Lemma distance_order : order_facts (convert_distance QN).
Proof. exact (order_facts_of _ _ convert_distance_factor k_dist_pos). Qed.
Lemma time_order : order_facts (convert_time QN).
Proof. exact (order_facts_of _ _ convert_time_factor k_time_pos). Qed.
Lemma speed_order : order_facts (convert_speed QN).
Proof. exact (order_facts_of _ _ convert_speed_factor k_speed_pos). Qed.
Lemma grade_order : order_facts (convert_grade QN).
Proof. exact (order_facts_of _ _ convert_grade_factor k_grade_pos). Qed.
Lemma weight_order : order_facts (convert_weight QN).
Proof. exact (order_facts_of _ _ convert_weight_factor k_weight_pos). Qed.

(* conversion through an intermediate unit *)
Definition via_facts {U} (cv : U -> U -> Q -> Q) : Prop :=
  forall u v w x, Qabs (cv v w (cv u v x) - cv u w x) <= tol2 * Qabs (cv u w x).

Lemma via_facts_of : forall {U} (cv : U -> U -> Q -> Q) (k : U -> U -> Q),
  (forall u v x, cv u v x == x * k u v) ->
  (forall u v w x, Qabs (x * k u v * k v w - x * k u w) <= tol2 * Qabs (x * k u w)) -> via_facts cv.
Proof.
  intros U cv k Hf Hv u v w x.
  assert (E1 : cv v w (cv u v x) == x * k u v * k v w).
  { rewrite Hf. rewrite Hf. reflexivity. }
  rewrite E1. rewrite (Hf u w x). apply Hv.
Qed.

Lemma distance_via : via_facts (convert_distance QN).
Proof. exact (via_facts_of _ _ convert_distance_factor (ord_via k_dist all_dist all_dist_complete distance_via_table)). Qed.
Lemma time_via : via_facts (convert_time QN).
Proof. exact (via_facts_of _ _ convert_time_factor (ord_via k_time all_time all_time_complete time_via_table)). Qed.
Lemma speed_via : via_facts (convert_speed QN).
Proof. exact (via_facts_of _ _ convert_speed_factor (ord_via k_speed all_speed all_speed_complete speed_via_table)). Qed.
Lemma grade_via : via_facts (convert_grade QN).
Proof. exact (via_facts_of _ _ convert_grade_factor (ord_via k_grade all_grade all_grade_complete grade_via_table)). Qed.
Lemma weight_via : via_facts (convert_weight QN).
Proof. exact (via_facts_of _ _ convert_weight_factor (ord_via k_weight all_weight all_weight_complete weight_via_table)). Qed.

(* non-vacuity: a real arm scales up, one scales down, both keep the order *)
Lemma ex_order : convert_distance QN Miles Kilometers 1 < convert_distance QN Miles Kilometers 2
  /\ convert_distance QN Miles Kilometers (-2) < convert_distance QN Miles Kilometers (-1)
  /\ ~ convert_distance QN Kilometers Miles 5 == convert_distance QN Kilometers Miles 6.
Proof.
  split; [|split].
  - vm_compute. reflexivity.
  - vm_compute. reflexivity.
  - vm_compute. discriminate.
Qed.
