(* Lemmas for property C08, part 1: arithmetic of the state of charge, the state-model operations
   at a known slot, PredictionModelRecord::predict, the start charge, the best case, the cache.
   Everything is about the exact-rational instance [QN] of Model/Vehicle.v. *)
From Coq Require Import ZArith QArith Qabs String List Bool Lia Lqa Setoid Morphisms.
From RC Require Import Base.Num Base.Res Model.Units Model.UnitsRun Proofs.Units Model.Vehicle
  Model.EnergyTraversal Model.VehicleSpec.
Import ListNotations.
Import Units UnitsRun Vehicle EnergyTraversal VehicleSpec.
Local Open Scope Q_scope.

(* ------------------------------------------------------------------ booleans on Q *)
Lemma Qle_bool_true : forall a b, a <= b -> Qle_bool a b = true.
Proof. intros a b H. apply Qle_bool_iff. exact H. Qed.
Lemma Qltb_true : forall a b, a < b -> Qltb a b = true.
Proof. intros a b H. unfold Qltb. rewrite (Qle_bool_false b a H). reflexivity. Qed.
Lemma Qltb_false : forall a b, b <= a -> Qltb a b = false.
Proof. intros a b H. unfold Qltb. rewrite (Qle_bool_true b a H). reflexivity. Qed.

(* every arm of the regenerated tables has a strictly positive factor (finite facts) *)
Lemma k_dist_pos : forall u v, 0 < k_dist u v.
Proof. intros u v. destruct u, v; vm_compute; reflexivity. Qed.
Lemma k_time_pos : forall u v, 0 < k_time u v.
Proof. intros u v. destruct u, v; vm_compute; reflexivity. Qed.
Lemma k_speed_pos : forall u v, 0 < k_speed u v.
Proof. intros u v. destruct u, v; vm_compute; reflexivity. Qed.
Lemma k_energy_id : forall u, k_energy u u == 1.
Proof. intros u. destruct u; vm_compute; reflexivity. Qed.
Lemma k_time_id : forall u, k_time u u == 1.
Proof. intros u. destruct u; vm_compute; reflexivity. Qed.
Lemma k_dist_id : forall u, k_dist u u == 1.
Proof. intros u. destruct u; vm_compute; reflexivity. Qed.

(* ------------------------------------------------------------------ clamping *)
Lemma clampQ_range : forall x, in_0_100 (clampQ x).
Proof.
  intros x. unfold clampQ, in_0_100.
  destruct (Qle_bool x 0) eqn:E0; [split; lra|].
  destruct (Qle_bool 100 x) eqn:E1; [split; lra|].
  assert (H0 : ~ x <= 0) by (intro H; apply Qle_bool_iff in H; congruence).
  assert (H1 : ~ 100 <= x) by (intro H; apply Qle_bool_iff in H; congruence).
  split; lra.
Qed.
Lemma clampQ_id : forall x, 0 <= x -> x <= 100 -> clampQ x == x.
Proof.
  intros x H0 H1. unfold clampQ.
  destruct (Qle_bool x 0) eqn:E0; [apply Qle_bool_iff in E0; lra|].
  destruct (Qle_bool 100 x) eqn:E1; [apply Qle_bool_iff in E1; lra|]. reflexivity.
Qed.
Lemma clampQ_low : forall x, x <= 0 -> clampQ x == 0.
Proof. intros x H. unfold clampQ. rewrite (Qle_bool_true x 0 H). reflexivity. Qed.
Lemma clampQ_high : forall x, 100 <= x -> clampQ x == 100.
Proof.
  intros x H. unfold clampQ. destruct (Qle_bool x 0) eqn:E0; [apply Qle_bool_iff in E0; lra|].
  rewrite (Qle_bool_true 100 x H). reflexivity.
Qed.
Lemma clampQ_cases : forall x, (x <= 0 /\ clampQ x == 0) \/ (100 <= x /\ clampQ x == 100) \/ (0 < x /\ x < 100 /\ clampQ x == x).
Proof.
  intros x. destruct (Qlt_le_dec 0 x) as [H0 | H0].
  - destruct (Qlt_le_dec x 100) as [H1 | H1].
    + right. right. split; [exact H0|]. split; [exact H1|]. apply clampQ_id; lra.
    + right. left. split; [exact H1|]. apply clampQ_high. exact H1.
  - left. split; [exact H0|]. apply clampQ_low. exact H0.
Qed.
#[global] Instance clampQ_proper : Proper (Qeq ==> Qeq) clampQ.
Proof.
  intros x y Hxy.
  destruct (clampQ_cases x) as [[Hx Ex] | [[Hx Ex] | [Hx0 [Hx1 Ex]]]]; rewrite Ex.
  - symmetry. apply clampQ_low. lra.
  - symmetry. apply clampQ_high. lra.
  - rewrite clampQ_id; lra.
Qed.
(* f64::clamp as the model has it (strict comparisons) agrees with clampQ *)
Lemma clamp_model : forall x : Q, clamp_0_100 QN x == clampQ x.
Proof.
  intros x. unfold clamp_0_100, hundred. cbn [ltb zero lit QN T].
  change (Qlit 100 0) with 100.
  destruct (clampQ_cases x) as [[Hx Ex] | [[Hx Ex] | [Hx0 [Hx1 Ex]]]]; rewrite Ex.
  - destruct (Qlt_le_dec x 0) as [Hlt | Hge].
    + rewrite (Qltb_true x 0 Hlt). reflexivity.
    + rewrite (Qltb_false x 0 Hge). rewrite (Qltb_false 100 x) by lra. lra.
  - rewrite (Qltb_false x 0) by lra.
    destruct (Qlt_le_dec 100 x) as [Hlt | Hge].
    + rewrite (Qltb_true 100 x Hlt). reflexivity.
    + rewrite (Qltb_false 100 x Hge). lra.
  - rewrite (Qltb_false x 0) by lra. rewrite (Qltb_false 100 x) by lra. reflexivity.
Qed.

(* vehicle_ops: the arithmetic of the charge update, for a battery of capacity cap > 0 *)
Lemma soc_update_spec : forall soc delta cap : Q, 0 < cap ->
  soc_from_battery_and_delta QN (@mul QN cap (@div QN soc (hundred QN))) delta cap
  == spec_soc soc delta cap.
Proof.
  intros soc delta cap Hc. unfold soc_from_battery_and_delta, spec_soc. rewrite clamp_model.
  apply clampQ_proper. unfold hundred. cbn [mul div sub lit QN T]. change (Qlit 100 0) with 100.
  field. apply Qnot_eq_sym, Qlt_not_eq, Hc.
Qed.
Lemma as_soc_percent_spec : forall rem cap : Q, 0 < cap ->
  as_soc_percent QN rem cap == clampQ (100 * rem / cap).
Proof.
  intros rem cap Hc. unfold as_soc_percent. rewrite clamp_model. apply clampQ_proper.
  unfold hundred. cbn [mul div lit QN T]. change (Qlit 100 0) with 100.
  field. apply Qnot_eq_sym, Qlt_not_eq, Hc.
Qed.
(* the unclamped step *)
Lemma spec_soc_unclamped : forall soc e cap, 0 <= soc - 100 * e / cap -> soc - 100 * e / cap <= 100 ->
  spec_soc soc e cap == soc - 100 * e / cap.
Proof. intros soc e cap H0 H1. unfold spec_soc. apply clampQ_id; assumption. Qed.

(* ------------------------------------------------------------------ state-model operations at a known slot *)
Section StateOps.
  Variable sm : smodel QN.
  Variable st : state QN.
  Variable name : string.
  Variable i : nat.
  Hypothesis Hidx : index_of QN sm name 0 = Some i.

  Lemma get_time_at : forall fu init t u,
    feature_of QN sm name = Some (FTime fu init) -> nth_error st i = Some t ->
    get_time QN sm st name u = Ok (convert_time QN fu u t).
  Proof.
    intros fu init t u Hf Hn. unfold get_time, get_state_variable, get_feature.
    rewrite Hidx, Hn, Hf. reflexivity.
  Qed.
  Lemma add_time_at : forall fu init t x from,
    feature_of QN sm name = Some (FTime fu init) -> nth_error st i = Some t ->
    add_time QN sm st name x from
    = Ok (set_nth QN st i (convert_time QN fu fu (@add QN (convert_time QN fu fu t) (convert_time QN from fu x)))).
  Proof.
    intros fu init t x from Hf Hn. unfold add_time. unfold get_feature at 1. rewrite Hf. cbn [bind get_time_unit].
    rewrite (get_time_at fu init t fu Hf Hn). cbn [bind].
    unfold set_time, get_feature, update_state. rewrite Hf, Hidx, Hn. reflexivity.
  Qed.
  Lemma add_distance_at : forall fu init d x from,
    feature_of QN sm name = Some (FDistance fu init) -> nth_error st i = Some d ->
    add_distance QN sm st name x from
    = Ok (set_nth QN st i (convert_distance QN fu fu (@add QN (convert_distance QN fu fu d) (convert_distance QN from fu x)))).
  Proof.
    intros fu init d x from Hf Hn. unfold add_distance. unfold get_feature at 1. rewrite Hf. cbn [bind get_distance_unit].
    unfold get_distance, get_state_variable, get_feature. rewrite Hidx, Hn, Hf. cbn [bind get_distance_unit].
    unfold set_distance, get_feature, update_state. rewrite Hf, Hidx, Hn. reflexivity.
  Qed.
  Lemma add_energy_at : forall fu init e x from,
    feature_of QN sm name = Some (FEnergy fu init) -> nth_error st i = Some e ->
    add_energy QN sm st name x from
    = Ok (set_nth QN st i (convert_energy QN fu fu (@add QN (convert_energy QN fu fu e) (convert_energy QN from fu x)))).
  Proof.
    intros fu init e x from Hf Hn. unfold add_energy. unfold get_feature at 1. rewrite Hf. cbn [bind get_energy_unit].
    unfold get_energy, get_state_variable, get_feature. rewrite Hidx, Hn, Hf. cbn [bind get_energy_unit].
    unfold set_energy, get_feature, update_state. rewrite Hf, Hidx, Hn. reflexivity.
  Qed.
  Lemma get_custom_at : forall init s,
    feature_of QN sm name = Some (FCustomF64 init) -> nth_error st i = Some s ->
    get_custom_f64 QN sm st name = Ok s.
  Proof.
    intros init s Hf Hn. unfold get_custom_f64, get_state_variable, get_feature. rewrite Hidx, Hn, Hf. reflexivity.
  Qed.
  Lemma update_soc_at : forall init s delta cap,
    feature_of QN sm name = Some (FCustomF64 init) -> nth_error st i = Some s ->
    update_soc_percent QN sm st name delta cap
    = Ok (set_nth QN st i (soc_from_battery_and_delta QN (@mul QN cap (@div QN s (hundred QN))) delta cap)).
  Proof.
    intros init s delta cap Hf Hn. unfold update_soc_percent. rewrite (get_custom_at init s Hf Hn). cbn [bind].
    unfold set_custom_f64, get_feature, update_state. rewrite Hf, Hidx, Hn. reflexivity.
  Qed.
End StateOps.

(* identity arms: accumulating in the feature's own unit adds the converted increment *)
Lemma acc_time : forall fu from (t x : Q),
  convert_time QN fu fu (@add QN (convert_time QN fu fu t) (convert_time QN from fu x)) == t + x * k_time from fu.
Proof. intros fu from t x. cbn [add QN]. rewrite !convert_time_id. rewrite convert_time_factor. reflexivity. Qed.
Lemma acc_distance : forall fu from (t x : Q),
  convert_distance QN fu fu (@add QN (convert_distance QN fu fu t) (convert_distance QN from fu x)) == t + x * k_dist from fu.
Proof. intros fu from t x. cbn [add QN]. rewrite !convert_distance_id. rewrite convert_distance_factor. reflexivity. Qed.
Lemma acc_energy : forall fu from (t x : Q),
  convert_energy QN fu fu (@add QN (convert_energy QN fu fu t) (convert_energy QN from fu x)) == t + x * k_energy from fu.
Proof. intros fu from t x. cbn [add QN]. rewrite !convert_energy_id. rewrite convert_energy_factor. reflexivity. Qed.

(* ------------------------------------------------------------------ PredictionModelRecord::predict without a cache *)
Definition rate_proper (r : pmr QN) : Prop := Proper (Qeq ==> Qeq ==> Qeq) (pm_rate r).

Lemma predict_nocache : forall (r : pmr QN) speed su grade gu distance du c,
  pm_cache r = None ->
  predict QN r speed su grade gu distance du c
  = Ok ((@mul QN (@mul QN (model_predict QN r speed su grade gu) (pm_adj r))
                 (convert_distance QN du (energy_rate_distance_unit (pm_eru r)) distance),
         energy_rate_energy_unit (pm_eru r)), c).
Proof. intros r speed su grade gu distance du c Hc. unfold predict. rewrite Hc. reflexivity. Qed.

(* energy = rate(speed in the model's unit, grade in the model's unit) * adjustment * distance in the
   rate's distance unit *)
Lemma predict_energy : forall (r : pmr QN) (speed : Q) su (grade : Q) gu (distance : Q) du,
  rate_proper r ->
  @mul QN (@mul QN (model_predict QN r speed su grade gu) (pm_adj r))
          (convert_distance QN du (energy_rate_distance_unit (pm_eru r)) distance)
  == pm_rate r (speed * k_speed su (pm_su r)) (grade * k_grade gu (pm_gu r)) * pm_adj r
     * (distance * k_dist du (energy_rate_distance_unit (pm_eru r))).
Proof.
  intros r speed su grade gu distance du Hp. cbn [mul QN]. unfold model_predict.
  rewrite convert_distance_factor.
  rewrite (Hp _ _ (convert_speed_factor su (pm_su r) speed) _ _ (convert_grade_factor gu (pm_gu r) grade)).
  reflexivity.
Qed.
