(* Lemmas for property C08, part 5: the prediction cache (FloatCachePolicy over an LRU map).
   As long as no two inputs with different rates share a rounded key, a cached prediction is the
   uncached one.  The hypothesis [key_faithful] is exactly what D-CACHE violates. *)
From Coq Require Import ZArith QArith String List Bool Lia Setoid Morphisms.
From RC Require Import Base.Num Base.Res Model.Units Model.Vehicle.
Import ListNotations.
Import Units Vehicle.
Local Open Scope Q_scope.

Lemma key_eqb_eq : forall a b, key_eqb a b = true -> a = b.
Proof.
  induction a as [| x a IH]; destruct b as [| y b]; cbn; intros H; try discriminate; [reflexivity|].
  apply andb_true_iff in H. destruct H as [H1 H2]. apply Z.eqb_eq in H1. subst. f_equal. apply IH. exact H2.
Qed.
Lemma lru_find_in : forall (c : cache QN) k x, lru_find QN c k = Some x -> In (k, x) c.
Proof.
  induction c as [| [k' v] c IH]; cbn; intros k x H; [discriminate|].
  destruct (key_eqb k' k) eqn:E.
  - injection H as <-. left. rewrite (key_eqb_eq _ _ E). reflexivity.
  - right. apply IH. exact H.
Qed.
Lemma lru_remove_incl : forall (c : cache QN) k p, In p (lru_remove QN c k) -> In p c.
Proof.
  induction c as [| [k' v] c IH]; cbn; intros k p H; [exact H|].
  destruct (key_eqb k' k).
  - right. exact H.
  - destruct H as [H | H]; [left; exact H | right; exact (IH _ _ H)].
Qed.
Lemma removelast_incl : forall (A : Type) (l : list A) p, In p (removelast l) -> In p l.
Proof.
  induction l as [| a l IH]; cbn; intros p H; [exact H|].
  destruct l as [| b l]; [destruct H|]. destruct H as [H | H]; [left; exact H | right; exact (IH _ H)].
Qed.

Section Cache.
  Variable r : pmr QN.
  Variable cfg : cache_cfg QN.
  Hypothesis Hcache : pm_cache r = Some cfg.
  Variable su : speed_unit.
  Variable gu : grade_unit.
  Notation f := (fun s g : Q => model_predict QN r s su g gu).

  (* every cached rate is the rate of every input that has its key *)
  Definition cache_sound (c : cache QN) : Prop :=
    forall k x, In (k, x) c -> forall s g : Q, c_key cfg s g = k -> x == f s g.
  (* no two inputs with different rates share a rounded key *)
  Definition key_faithful : Prop :=
    forall s g s' g' : Q, c_key cfg s g = c_key cfg s' g' -> f s g == f s' g'.

  Lemma cache_sound_empty : cache_sound [].
  Proof. intros k x H. destruct H. Qed.

  Theorem cache_transparent : key_faithful -> forall (c : cache QN) (speed grade distance : Q) du,
    cache_sound c ->
    exists (e : Q) (c' : cache QN),
      predict QN r speed su grade gu distance du c = Ok ((e, energy_rate_energy_unit (pm_eru r)), c')
      /\ e == @mul QN (@mul QN (f speed grade) (pm_adj r))
                      (convert_distance QN du (energy_rate_distance_unit (pm_eru r)) distance)
      /\ cache_sound c'.
  Proof.
    intros Hkf c speed grade distance du Hs. unfold predict. rewrite Hcache. unfold lru_get.
    destruct (lru_find QN c (c_key cfg speed grade)) as [er |] eqn:E.
    - (* hit *)
      unfold create_energy. cbn [bind]. eexists. eexists. split; [reflexivity|].
      pose proof (Hs _ _ (lru_find_in _ _ _ E) speed grade eq_refl) as Her.
      split.
      + cbn [mul QN]. rewrite Her. reflexivity.
      + intros k x [Hin | Hin] s g Hk.
        * injection Hin as <- <-. rewrite Her. apply Hkf. symmetry. exact Hk.
        * exact (Hs k x (lru_remove_incl _ _ _ Hin) s g Hk).
    - (* miss *)
      unfold create_energy. cbn [bind]. eexists. eexists. split; [reflexivity|].
      split; [reflexivity|].
      unfold lru_put. rewrite E.
      intros k x [Hin | Hin] s g Hk.
      + injection Hin as <- <-. apply Hkf. symmetry. exact Hk.
      + destruct (Nat.leb (c_cap cfg) (List.length c)).
        * exact (Hs k x (removelast_incl _ _ _ Hin) s g Hk).
        * exact (Hs k x Hin s g Hk).
  Qed.
End Cache.
