(* Lemmas for property C08, part 2: one edge through EnergyTraversalModel::traverse_edge over the
   speed-table time model, for ICE / BEV / PHEV, on the state model
   EnergyTraversalModel::state_features() (feature units universally quantified). *)
From Coq Require Import ZArith QArith Qabs String List Bool Lia Lqa Setoid Morphisms.
From RC Require Import Base.Num Base.Res Model.Units Model.UnitsRun Proofs.Units Model.Vehicle
  Model.EnergyTraversal Model.VehicleSpec Proofs.Vehicle.
Import ListNotations.
Import Units UnitsRun Vehicle EnergyTraversal VehicleSpec.
Local Open Scope Q_scope.

Lemma nz : forall x : Q, 0 < x -> ~ x == 0.
Proof. intros x H. apply Qnot_eq_sym, Qlt_not_eq, H. Qed.
Lemma div_pos : forall a b : Q, 0 < a -> 0 < b -> 0 < a / b.
Proof. intros a b Ha Hb. unfold Qdiv. apply mul_pos; [exact Ha | apply Qinv_lt_0_compat; exact Hb]. Qed.

(* builders::create_time on positive inputs: the value, not only its existence *)
Lemma create_time_ok : forall su du tu (s d : Q), 0 < s -> 0 < d ->
  create_time QN s su d du tu
  = Ok (convert_time QN base_time_unit tu
         (@div QN (convert_distance QN du base_distance_unit d) (convert_speed QN su base_speed_unit s))).
Proof.
  intros su du tu s d Hs Hd. unfold create_time. cbn [leb zero QN].
  rewrite (Qle_bool_false (convert_speed QN su base_speed_unit s) 0).
  2:{ rewrite convert_speed_factor. apply mul_pos; [exact Hs | apply k_speed_pos]. }
  rewrite (Qle_bool_false (convert_distance QN du base_distance_unit d) 0).
  2:{ rewrite convert_distance_factor. apply mul_pos; [exact Hd | apply k_dist_pos]. }
  reflexivity.
Qed.
Lemma create_time_rejected : forall su du tu (s d : Q), s <= 0 \/ d <= 0 ->
  res_units_time QN (create_time QN s su d du tu) = Err e_units_time.
Proof. intros su du tu s d H. rewrite (create_time_rejects su du tu s d H). reflexivity. Qed.

Section Edge.
  Variable en : @engine QN.
  Variable sv : @service QN.
  Variable ftu : time_unit.      (* unit of the "time" feature *)
  Variable fdu : dist_unit.      (* unit of the "distance" feature *)

  (* the time the speed-table model adds to the "time" feature for an edge of length len at table speed v *)
  Definition dt (len v : Q) : Q :=
    @div QN (convert_distance QN (en_du en) base_distance_unit (convert_distance QN base_distance_unit (en_du en) len))
            (convert_speed QN (en_su en) base_speed_unit v).
  Definition t_next (t len v : Q) : Q :=
    convert_time QN ftu ftu (@add QN (convert_time QN ftu ftu t)
      (convert_time QN (en_tu en) ftu (convert_time QN base_time_unit (en_tu en) (dt len v)))).
  Definition d_next (d len : Q) : Q :=
    convert_distance QN fdu fdu (@add QN (convert_distance QN fdu fdu d)
      (convert_distance QN (en_du en) fdu (convert_distance QN base_distance_unit (en_du en) len))).
  (* Speed::from((distance in the speed unit's distance unit, time delta in its time unit)) *)
  Definition speed_rec (t len v : Q) : Q :=
    @div QN (convert_distance QN base_distance_unit (speed_distance_unit (sv_su sv)) len)
            (@sub QN (convert_time QN ftu (speed_time_unit (sv_su sv)) (t_next t len v))
                     (convert_time QN ftu (speed_time_unit (sv_su sv)) t)).

  Lemma t_next_spec : forall t len v, 0 < v ->
    t_next t len v == t + len * time_chain en ftu sv / v / k_time ftu (speed_time_unit (sv_su sv)).
  Proof.
    intros t len v Hv. unfold t_next, dt. rewrite acc_time. cbn [div QN].
    rewrite !convert_time_factor, !convert_distance_factor, convert_speed_factor.
    unfold time_chain.
    pose proof (k_time_pos ftu (speed_time_unit (sv_su sv))) as H1.
    pose proof (k_speed_pos (en_su en) base_speed_unit) as H2.
    field. repeat split; apply nz; assumption.
  Qed.

  Lemma time_chain_pos : 0 < time_chain en ftu sv.
  Proof.
    unfold time_chain.
    repeat (apply div_pos || apply mul_pos); try apply k_dist_pos; try apply k_time_pos; apply k_speed_pos.
  Qed.

  (* the reconstructed speed, converted to the model's unit, is the table speed times [speed_factor]:
     the accumulated time t cancels exactly *)
  Lemma speed_rec_spec : forall msu t len v, 0 < len -> 0 < v ->
    speed_rec t len v * k_speed (sv_su sv) msu == v * speed_factor en ftu sv msu.
  Proof.
    intros msu t len v Hl Hv. unfold speed_rec. cbn [div sub QN].
    rewrite !convert_time_factor, convert_distance_factor. rewrite (t_next_spec t len v Hv).
    unfold speed_factor.
    pose proof (k_time_pos ftu (speed_time_unit (sv_su sv))) as H1.
    pose proof time_chain_pos as H2.
    set (K := k_time ftu (speed_time_unit (sv_su sv))) in *.
    set (TC := time_chain en ftu sv) in *.
    assert (E : (t + len * TC / v / K) * K - t * K == len * TC / v).
    { field. split; apply nz; assumption. }
    rewrite E. field. repeat split; apply nz; assumption.
  Qed.

  (* ---------------------------------------------------------------- hypotheses on one edge *)
  Variable ed : @edge QN.
  Variables v g : Q.
  Hypothesis Hspeed : nth_error (en_speeds en) (e_id ed) = Some v.
  Hypothesis Hv : 0 < v.
  Hypothesis Hlen : 0 < e_dist ed.
  Hypothesis Hgrade : get_grade QN (sv_grades sv) (e_id ed) = Ok g.

  Lemma edge_speed_is : edge_speed en ed = v.
  Proof. unfold edge_speed. apply nth_error_nth. exact Hspeed. Qed.
  Lemma edge_grade_is : edge_grade sv ed = g.
  Proof.
    unfold edge_grade. unfold get_grade in Hgrade. destruct (sv_grades sv) as [gt|].
    - destruct (nth_error gt (e_id ed)) as [g'|] eqn:E; [|discriminate Hgrade].
      injection Hgrade as ->. apply nth_error_nth. exact E.
    - injection Hgrade as <-. reflexivity.
  Qed.

  Lemma time_input_pos : 0 < convert_distance QN base_distance_unit (en_du en) (e_dist ed).
  Proof. rewrite convert_distance_factor. apply mul_pos; [exact Hlen | apply k_dist_pos]. Qed.

  (* energy of the edge as predict computes it (no cache), against the closed form *)
  Lemma edge_energy_closed : forall (r : pmr QN) t, rate_proper r ->
    @mul QN (@mul QN (model_predict QN r (speed_rec t (e_dist ed) v) (sv_su sv) g (sv_gu sv)) (pm_adj r))
            (convert_distance QN (sv_du sv) (energy_rate_distance_unit (pm_eru r))
               (convert_distance QN base_distance_unit (sv_du sv) (e_dist ed)))
    == spec_energy en ftu sv r v g (e_dist ed).
  Proof.
    intros r t Hp. rewrite (predict_energy r _ _ _ _ _ _ Hp).
    unfold spec_energy, spec_speed, spec_grade, spec_length.
    rewrite (Hp _ _ (speed_rec_spec (pm_su r) t (e_dist ed) v Hlen Hv) _ _ (Qeq_refl _)).
    rewrite convert_distance_factor. reflexivity.
  Qed.

  (* ---------------------------------------------------------------- BEV *)
  Section Bev.
    Variable r : pmr QN.
    Variables cap start s_init : Q.
    Variable bu fe : energy_unit.
    Hypothesis Hnc : pm_cache r = None.
    Hypothesis Hp : rate_proper r.
    Hypothesis Hcap : 0 < cap.
    Definition sm_bev : smodel QN :=
      [(n_electric, @FEnergy QN fe 0); (n_soc, @FCustomF64 QN s_init); (n_time, @FTime QN ftu 0); (n_distance, @FDistance QN fdu 0)].

    Lemma bev_edge : forall (e0 s t d : Q) (c1 c2 : cache QN),
      exists e1 s1 : Q,
        traverse_edge QN (speed_traverse QN en) sv (BEV r cap start bu) ed [e0; s; t; d] sm_bev (c1, c2)
        = Ok ([e1; s1; t_next t (e_dist ed) v; d_next d (e_dist ed)], (c1, c2))
        /\ e1 == e0 + spec_energy en ftu sv r v g (e_dist ed) * k_energy (energy_rate_energy_unit (pm_eru r)) fe
        /\ s1 == spec_soc s (spec_energy en ftu sv r v g (e_dist ed) * k_energy (energy_rate_energy_unit (pm_eru r)) bu) cap.
    Proof.
      intros e0 s t d c1 c2. unfold traverse_edge, speed_traverse, get_speed. rewrite Hspeed. cbn [bind].
      rewrite (create_time_ok _ _ _ _ _ Hv time_input_pos). cbn [res_units_time bind].
      erewrite (add_time_at sm_bev _ n_time 2 eq_refl); [|reflexivity..]. cbn [bind set_nth].
      erewrite (add_distance_at sm_bev _ n_distance 3 eq_refl); [|reflexivity..]. cbn [bind set_nth].
      erewrite (get_time_at sm_bev _ n_time 2 eq_refl); [|reflexivity..]. cbn [bind].
      erewrite (get_time_at sm_bev _ n_time 2 eq_refl); [|reflexivity..]. cbn [bind].
      rewrite Hgrade. cbn [bind]. unfold consume_energy.
      rewrite (predict_nocache r _ _ _ _ _ _ _ Hnc). cbn [bind fst snd].
      erewrite (add_energy_at sm_bev _ n_electric 0 eq_refl); [|reflexivity..]. cbn [bind set_nth].
      erewrite (update_soc_at sm_bev _ n_soc 1 eq_refl); [|reflexivity..]. cbn [bind set_nth].
      eexists. eexists. split; [reflexivity|]. fold (dt (e_dist ed) v). fold (t_next t (e_dist ed) v).
      fold (speed_rec t (e_dist ed) v).
      split.
      - rewrite acc_energy. rewrite (edge_energy_closed r t Hp). reflexivity.
      - rewrite (soc_update_spec s _ cap Hcap). unfold spec_soc. apply clampQ_proper.
        rewrite convert_energy_factor. rewrite (edge_energy_closed r t Hp). reflexivity.
    Qed.
  End Bev.
  (* ---------------------------------------------------------------- ICE *)
  Section Ice.
    Variable r : pmr QN.
    Variable fl : energy_unit.
    Hypothesis Hnc : pm_cache r = None.
    Hypothesis Hp : rate_proper r.
    Definition sm_ice : smodel QN :=
      [(n_liquid, @FEnergy QN fl 0); (n_time, @FTime QN ftu 0); (n_distance, @FDistance QN fdu 0)].

    Lemma ice_edge : forall (l0 t d : Q) (c1 c2 : cache QN),
      exists l1 : Q,
        traverse_edge QN (speed_traverse QN en) sv (ICE r) ed [l0; t; d] sm_ice (c1, c2)
        = Ok ([l1; t_next t (e_dist ed) v; d_next d (e_dist ed)], (c1, c2))
        /\ l1 == l0 + spec_energy en ftu sv r v g (e_dist ed) * k_energy (energy_rate_energy_unit (pm_eru r)) fl.
    Proof.
      intros l0 t d c1 c2. unfold traverse_edge, speed_traverse, get_speed. rewrite Hspeed. cbn [bind].
      rewrite (create_time_ok _ _ _ _ _ Hv time_input_pos). cbn [res_units_time bind].
      erewrite (add_time_at sm_ice _ n_time 1 eq_refl); [|reflexivity..]. cbn [bind set_nth].
      erewrite (add_distance_at sm_ice _ n_distance 2 eq_refl); [|reflexivity..]. cbn [bind set_nth].
      erewrite (get_time_at sm_ice _ n_time 1 eq_refl); [|reflexivity..]. cbn [bind].
      erewrite (get_time_at sm_ice _ n_time 1 eq_refl); [|reflexivity..]. cbn [bind].
      rewrite Hgrade. cbn [bind]. unfold consume_energy.
      rewrite (predict_nocache r _ _ _ _ _ _ _ Hnc). cbn [bind fst snd].
      erewrite (add_energy_at sm_ice _ n_liquid 0 eq_refl); [|reflexivity..]. cbn [bind set_nth].
      eexists. split; [reflexivity|]. fold (dt (e_dist ed) v). fold (t_next t (e_dist ed) v).
      fold (speed_rec t (e_dist ed) v).
      rewrite acc_energy. rewrite (edge_energy_closed r t Hp). reflexivity.
    Qed.
  End Ice.

  (* ---------------------------------------------------------------- PHEV *)
  Section Phev.
    Variables cs cd : pmr QN.
    Variables cap start s_init : Q.
    Variable bu fe fl : energy_unit.
    Hypothesis Hnc_cs : pm_cache cs = None.
    Hypothesis Hnc_cd : pm_cache cd = None.
    Hypothesis Hp_cs : rate_proper cs.
    Hypothesis Hp_cd : rate_proper cd.
    Hypothesis Hcap : 0 < cap.
    Definition sm_phev : smodel QN :=
      [(n_electric, @FEnergy QN fe 0); (n_soc, @FCustomF64 QN s_init); (n_liquid, @FEnergy QN fl 0);
       (n_time, @FTime QN ftu 0); (n_distance, @FDistance QN fdu 0)].

    (* entered with charge remaining: the charge-depleting model, electricity only *)
    Lemma phev_edge_charged : forall (e0 s l0 t d : Q) (c1 c2 : cache QN), 0 < s ->
      exists e1 s1 l1 : Q,
        traverse_edge QN (speed_traverse QN en) sv (PHEV cs cd cap start bu) ed [e0; s; l0; t; d] sm_phev (c1, c2)
        = Ok ([e1; s1; l1; t_next t (e_dist ed) v; d_next d (e_dist ed)], (c1, c2))
        /\ l1 == l0
        /\ e1 == e0 + spec_energy en ftu sv cd v g (e_dist ed) * k_energy (energy_rate_energy_unit (pm_eru cd)) fe
        /\ s1 == spec_soc s (spec_energy en ftu sv cd v g (e_dist ed) * k_energy (energy_rate_energy_unit (pm_eru cd)) bu) cap.
    Proof.
      intros e0 s l0 t d c1 c2 Hs. unfold traverse_edge, speed_traverse, get_speed. rewrite Hspeed. cbn [bind].
      rewrite (create_time_ok _ _ _ _ _ Hv time_input_pos). cbn [res_units_time bind].
      erewrite (add_time_at sm_phev _ n_time 3 eq_refl); [|reflexivity..]. cbn [bind set_nth].
      erewrite (add_distance_at sm_phev _ n_distance 4 eq_refl); [|reflexivity..]. cbn [bind set_nth].
      erewrite (get_time_at sm_phev _ n_time 3 eq_refl); [|reflexivity..]. cbn [bind].
      erewrite (get_time_at sm_phev _ n_time 3 eq_refl); [|reflexivity..]. cbn [bind].
      rewrite Hgrade. cbn [bind]. unfold consume_energy.
      erewrite (get_custom_at sm_phev _ n_soc 1 eq_refl); [|reflexivity..]. cbn [bind].
      unfold get_phev_energy. cbn [ltb zero QN]. rewrite (Qltb_true 0 s Hs).
      rewrite (predict_nocache cd _ _ _ _ _ _ _ Hnc_cd). cbn [bind fst snd].
      erewrite (add_energy_at sm_phev _ n_electric 0 eq_refl); [|reflexivity..]. cbn [bind set_nth].
      erewrite (add_energy_at sm_phev _ n_liquid 2 eq_refl); [|reflexivity..]. cbn [bind set_nth].
      erewrite (update_soc_at sm_phev _ n_soc 1 eq_refl); [|reflexivity..]. cbn [bind set_nth].
      eexists. eexists. eexists. split; [reflexivity|]. fold (dt (e_dist ed) v). fold (t_next t (e_dist ed) v).
      fold (speed_rec t (e_dist ed) v).
      split; [|split].
      - rewrite acc_energy. ring.
      - rewrite acc_energy. rewrite (edge_energy_closed cd t Hp_cd). reflexivity.
      - rewrite (soc_update_spec s _ cap Hcap). unfold spec_soc. apply clampQ_proper.
        rewrite convert_energy_factor. rewrite (edge_energy_closed cd t Hp_cd). reflexivity.
    Qed.

    (* entered empty: the charge-sustaining model, liquid fuel only *)
    Lemma phev_edge_empty : forall (e0 s l0 t d : Q) (c1 c2 : cache QN), s <= 0 ->
      exists e1 s1 l1 : Q,
        traverse_edge QN (speed_traverse QN en) sv (PHEV cs cd cap start bu) ed [e0; s; l0; t; d] sm_phev (c1, c2)
        = Ok ([e1; s1; l1; t_next t (e_dist ed) v; d_next d (e_dist ed)], (c1, c2))
        /\ e1 == e0
        /\ l1 == l0 + spec_energy en ftu sv cs v g (e_dist ed) * k_energy (energy_rate_energy_unit (pm_eru cs)) fl
        /\ s1 == clampQ s.
    Proof.
      intros e0 s l0 t d c1 c2 Hs. unfold traverse_edge, speed_traverse, get_speed. rewrite Hspeed. cbn [bind].
      rewrite (create_time_ok _ _ _ _ _ Hv time_input_pos). cbn [res_units_time bind].
      erewrite (add_time_at sm_phev _ n_time 3 eq_refl); [|reflexivity..]. cbn [bind set_nth].
      erewrite (add_distance_at sm_phev _ n_distance 4 eq_refl); [|reflexivity..]. cbn [bind set_nth].
      erewrite (get_time_at sm_phev _ n_time 3 eq_refl); [|reflexivity..]. cbn [bind].
      erewrite (get_time_at sm_phev _ n_time 3 eq_refl); [|reflexivity..]. cbn [bind].
      rewrite Hgrade. cbn [bind]. unfold consume_energy.
      erewrite (get_custom_at sm_phev _ n_soc 1 eq_refl); [|reflexivity..]. cbn [bind].
      unfold get_phev_energy. cbn [ltb zero QN]. rewrite (Qltb_false 0 s Hs).
      rewrite (predict_nocache cs _ _ _ _ _ _ _ Hnc_cs). cbn [bind fst snd].
      erewrite (add_energy_at sm_phev _ n_electric 0 eq_refl); [|reflexivity..]. cbn [bind set_nth].
      erewrite (add_energy_at sm_phev _ n_liquid 2 eq_refl); [|reflexivity..]. cbn [bind set_nth].
      erewrite (update_soc_at sm_phev _ n_soc 1 eq_refl); [|reflexivity..]. cbn [bind set_nth].
      eexists. eexists. eexists. split; [reflexivity|]. fold (dt (e_dist ed) v). fold (t_next t (e_dist ed) v).
      fold (speed_rec t (e_dist ed) v).
      split; [|split].
      - rewrite acc_energy. ring.
      - rewrite acc_energy. rewrite (edge_energy_closed cs t Hp_cs). reflexivity.
      - rewrite (soc_update_spec s _ cap Hcap). unfold spec_soc. apply clampQ_proper.
        rewrite convert_energy_factor. field. apply nz. exact Hcap.
    Qed.
  End Phev.
End Edge.
