(* Lemmas for property C08, part 3: whole routes (induction over the edge list), the start charge,
   the best case, rejected edges. *)
From Coq Require Import ZArith QArith Qabs String List Bool Lia Lqa Setoid Morphisms.
From RC Require Import Base.Num Base.Res Model.Units Model.UnitsRun Proofs.Units Model.Vehicle
  Model.EnergyTraversal Model.VehicleSpec Proofs.Vehicle Proofs.VehicleEdge.
Import ListNotations.
Import Units UnitsRun Vehicle EnergyTraversal VehicleSpec.
Local Open Scope Q_scope.

Lemma last_cons : forall (A : Type) (l : list A) (a d : A), last (a :: l) d = last l a.
Proof.
  intros A l. induction l as [| b l IH]; intros a d; [reflexivity|].
  change (last (a :: b :: l) d) with (last (b :: l) d). rewrite (IH b d), (IH b a). reflexivity.
Qed.

(* ------------------------------------------------------------------ generic induction over the edges *)
Section Chain.
  Variable tm : @edge QN -> state QN -> smodel QN -> res (state QN).
  Variable sv : @service QN.
  Variable v : vehicle QN.
  Variable sm : smodel QN.
  Variable okE : @edge QN -> Prop.                       (* edges the models accept *)
  Variable shape : list Q -> Prop.                       (* layout of the state vector *)
  Variable P : @edge QN -> list Q -> list Q -> Prop.     (* the law of one edge *)
  Hypothesis step : forall ed, okE ed -> forall st c1 c2, shape st ->
    exists cur, traverse_edge QN tm sv v ed st sm (c1, c2) = Ok (cur, (c1, c2)) /\ P ed st cur /\ shape cur.

  Lemma route_chain : forall es, Forall okE es -> forall st c1 c2, shape st ->
    exists states,
      run_edges QN tm sv v es st sm (c1, c2) = map (@Ok (state QN)) states
      /\ chain P es st states
      /\ route_state QN tm sv v es st sm (c1, c2) = Ok (last states st, (c1, c2))
      /\ shape (last states st).
  Proof.
    intros es Hes. induction Hes as [| ed es Hed Hes IH]; intros st c1 c2 Hst.
    - exists []. cbn. repeat split. exact Hst.
    - destruct (step ed Hed st c1 c2 Hst) as [cur [Hstep [Hlaw Hcur]]].
      destruct (IH cur c1 c2 Hcur) as [states [Hrun [Hchain [Hroute Hlast]]]].
      exists (cur :: states). cbn [run_edges route_state]. rewrite Hstep. cbn [bind fst snd].
      rewrite Hrun, Hroute. repeat split.
      + exact Hlaw.
      + exact Hchain.
      + rewrite last_cons. reflexivity.
      + rewrite last_cons. exact Hlast.
  Qed.
End Chain.

(* consequences of a chain *)
Lemma chain_length : forall P es st states, chain P es st states -> List.length states = List.length es.
Proof.
  intros P es. induction es as [| e es IH]; intros st states H; destruct states as [| c states]; cbn in *; try tauto.
  destruct H as [_ H]. rewrite (IH _ _ H). reflexivity.
Qed.
Lemma chain_forall : forall (P : @edge QN -> list Q -> list Q -> Prop) (R : list Q -> Prop),
  (forall e prev cur, P e prev cur -> R cur) ->
  forall es st states, chain P es st states -> Forall R states.
Proof.
  intros P R HPR es. induction es as [| e es IH]; intros st states H; destruct states as [| c states]; cbn in *; try tauto.
  - constructor.
  - destruct H as [H1 H2]. constructor; [exact (HPR _ _ _ H1) | exact (IH _ _ H2)].
Qed.
(* telescoping: if every edge adds w(e) to the quantity f, the route adds the sum *)
Lemma chain_additive : forall (P : @edge QN -> list Q -> list Q -> Prop) (f : list Q -> Q) (w : @edge QN -> Q),
  (forall e prev cur, P e prev cur -> f cur == f prev + w e) ->
  forall es st states, chain P es st states -> f (last states st) == f st + sumQ (map w es).
Proof.
  intros P f w HP es. induction es as [| e es IH]; intros st states H; destruct states as [| c states];
    cbn [chain] in H; try tauto.
  - cbn [last map sumQ fold_right]. ring.
  - destruct H as [H1 H2]. specialize (IH c states H2). specialize (HP _ _ _ H1).
    rewrite last_cons, IH, HP. cbn [map sumQ fold_right]. fold (sumQ (map w es)). ring.
Qed.
(* the law is monotone *)
Lemma chain_impl : forall (P R : @edge QN -> list Q -> list Q -> Prop),
  (forall e prev cur, P e prev cur -> R e prev cur) ->
  forall es st states, chain P es st states -> chain R es st states.
Proof.
  intros P R HPR es. induction es as [| e es IH]; intros st states H; destruct states as [| c states]; cbn in *; try tauto.
  destruct H as [H1 H2]. split; [exact (HPR _ _ _ H1) | exact (IH _ _ H2)].
Qed.

Lemma edge_ok_grade : forall (en : @engine QN) (sv : @service QN) ed, edge_ok en sv ed ->
  exists g, get_grade QN (sv_grades sv) (e_id ed) = Ok g.
Proof.
  intros en sv ed [_ [_ Hg]]. unfold get_grade. destruct (sv_grades sv) as [gt|].
  - destruct Hg as [g Hg]. exists g. rewrite Hg. reflexivity.
  - exists 0. reflexivity.
Qed.

(* ------------------------------------------------------------------ the three vehicles *)
Section Routes.
  Variable en : @engine QN.
  Variable sv : @service QN.
  Variable ftu : time_unit.
  Variable fdu : dist_unit.
  Notation tm := (speed_traverse QN en).

  Definition shape3 (st : list Q) : Prop := exists a b c, st = [a; b; c].
  Definition shape4 (st : list Q) : Prop := exists a b c d, st = [a; b; c; d].
  Definition shape5 (st : list Q) : Prop := exists a b c d e, st = [a; b; c; d; e].

  Section Ice.
    Variable r : pmr QN.
    Variable fl : energy_unit.
    Hypothesis Hnc : pm_cache r = None.
    Hypothesis Hp : rate_proper r.
    Notation sm := (sm_ice ftu fdu fl).

    Lemma ice_step : forall ed, edge_ok en sv ed -> forall st c1 c2, shape3 st ->
      exists cur, traverse_edge QN tm sv (ICE r) ed st sm (c1, c2) = Ok (cur, (c1, c2))
                  /\ edge_law en sv (ICE r) sm ed st cur /\ shape3 cur.
    Proof.
      intros ed Hok st c1 c2 [l0 [t [d ->]]].
      destruct (edge_ok_grade en sv ed Hok) as [g Hg]. destruct Hok as [[v [Hsp Hv]] [Hlen _]].
      destruct (ice_edge en sv ftu fdu ed v g Hsp Hv Hlen Hg r fl Hnc Hp l0 t d c1 c2) as [l1 [Hrun Hl]].
      eexists. split; [exact Hrun|]. split; [|eexists; eexists; eexists; reflexivity].
      unfold edge_law. rewrite (edge_speed_is en ed v Hsp), (edge_grade_is sv ed g Hg). exact Hl.
    Qed.
  End Ice.

  Section Bev.
    Variable r : pmr QN.
    Variables cap start s_init : Q.
    Variable bu fe : energy_unit.
    Hypothesis Hnc : pm_cache r = None.
    Hypothesis Hp : rate_proper r.
    Hypothesis Hcap : 0 < cap.
    Notation sm := (sm_bev ftu fdu s_init fe).

    Lemma bev_step : forall ed, edge_ok en sv ed -> forall st c1 c2, shape4 st ->
      exists cur, traverse_edge QN tm sv (BEV r cap start bu) ed st sm (c1, c2) = Ok (cur, (c1, c2))
                  /\ edge_law en sv (BEV r cap start bu) sm ed st cur /\ shape4 cur.
    Proof.
      intros ed Hok st c1 c2 [e0 [s [t [d ->]]]].
      destruct (edge_ok_grade en sv ed Hok) as [g Hg]. destruct Hok as [[v [Hsp Hv]] [Hlen _]].
      destruct (bev_edge en sv ftu fdu ed v g Hsp Hv Hlen Hg r cap start s_init bu fe Hnc Hp Hcap e0 s t d c1 c2)
        as [e1 [s1 [Hrun [He Hs]]]].
      eexists. split; [exact Hrun|]. split; [|eexists; eexists; eexists; eexists; reflexivity].
      unfold edge_law. rewrite (edge_speed_is en ed v Hsp), (edge_grade_is sv ed g Hg).
      split; [exact He|]. split; [exact Hs|].
      change (in_0_100 s1). unfold in_0_100. rewrite Hs. exact (clampQ_range _).
    Qed.
  End Bev.

  Section Phev.
    Variables cs cd : pmr QN.
    Variables cap start s_init : Q.
    Variable bu fe fl : energy_unit.
    Hypothesis Hnc_cs : pm_cache cs = None.
    Hypothesis Hnc_cd : pm_cache cd = None.
    Hypothesis Hp_cs : rate_proper cs.
    Hypothesis Hp_cd : rate_proper cd.
    Hypothesis Hcap : 0 < cap.
    Notation sm := (sm_phev ftu fdu s_init fe fl).

    Lemma phev_step : forall ed, edge_ok en sv ed -> forall st c1 c2, shape5 st ->
      exists cur, traverse_edge QN tm sv (PHEV cs cd cap start bu) ed st sm (c1, c2) = Ok (cur, (c1, c2))
                  /\ edge_law en sv (PHEV cs cd cap start bu) sm ed st cur /\ shape5 cur.
    Proof.
      intros ed Hok st c1 c2 [e0 [s [l0 [t [d ->]]]]].
      destruct (edge_ok_grade en sv ed Hok) as [g Hg]. destruct Hok as [[v [Hsp Hv]] [Hlen _]].
      destruct (Qlt_le_dec 0 s) as [Hs | Hs].
      - destruct (phev_edge_charged en sv ftu fdu ed v g Hsp Hv Hlen Hg cs cd cap start s_init bu fe fl
                    Hnc_cd Hp_cd Hcap e0 s l0 t d c1 c2 Hs) as [e1 [s1 [l1 [Hrun [Hl [He Hs1]]]]]].
        eexists. split; [exact Hrun|]. split; [|eexists; eexists; eexists; eexists; eexists; reflexivity].
        unfold edge_law. rewrite (edge_speed_is en ed v Hsp), (edge_grade_is sv ed g Hg).
        split; [|split].
        + intros _. split; [exact Hl|]. split; [exact He | exact Hs1].
        + intros Hle. exfalso. change (s <= 0) in Hle. lra.
        + change (in_0_100 s1). unfold in_0_100. rewrite Hs1. exact (clampQ_range _).
      - destruct (phev_edge_empty en sv ftu fdu ed v g Hsp Hv Hlen Hg cs cd cap start s_init bu fe fl
                    Hnc_cs Hp_cs Hcap e0 s l0 t d c1 c2 Hs) as [e1 [s1 [l1 [Hrun [He [Hl Hs1]]]]]].
        eexists. split; [exact Hrun|]. split; [|eexists; eexists; eexists; eexists; eexists; reflexivity].
        unfold edge_law. rewrite (edge_speed_is en ed v Hsp), (edge_grade_is sv ed g Hg).
        split; [|split].
        + intros Hlt. exfalso. change (0 < s) in Hlt. lra.
        + intros _. split; [exact He|]. split; [exact Hl | exact Hs1].
        + change (in_0_100 s1). unfold in_0_100. rewrite Hs1. exact (clampQ_range _).
    Qed.
  End Phev.
End Routes.

(* sum of a per-edge quantity that may depend on the state the edge is entered with *)
Fixpoint sum_along (w : @edge QN -> list Q -> Q) (es : list (@edge QN)) (prev : list Q) (states : list (list Q)) : Q :=
  match es, states with
  | e :: es', cur :: states' => w e prev + sum_along w es' cur states'
  | _, _ => 0
  end.
Lemma chain_additive_along : forall (P : @edge QN -> list Q -> list Q -> Prop) (f : list Q -> Q) (w : @edge QN -> list Q -> Q),
  (forall e prev cur, P e prev cur -> f cur == f prev + w e prev) ->
  forall es st states, chain P es st states -> f (last states st) == f st + sum_along w es st states.
Proof.
  intros P f w HP es. induction es as [| e es IH]; intros st states H; destruct states as [| c states];
    cbn [chain] in H; try tauto.
  - cbn [last sum_along]. ring.
  - destruct H as [H1 H2]. specialize (IH c states H2). specialize (HP _ _ _ H1).
    rewrite last_cons, IH, HP. cbn [sum_along]. ring.
Qed.

(* ------------------------------------------------------------------ routes: every edge sequence *)
Section RouteTheorems.
  Variable en : @engine QN.
  Variable sv : @service QN.
  Variable ftu : time_unit.
  Variable fdu : dist_unit.
  Notation tm := (speed_traverse QN en).

  Lemma route_ice : forall (r : pmr QN) fl, pm_cache r = None -> rate_proper r ->
    forall es, Forall (edge_ok en sv) es -> forall (l0 t d : Q) c1 c2,
    exists states,
      run_edges QN tm sv (ICE r) es [l0; t; d] (sm_ice ftu fdu fl) (c1, c2) = map (@Ok (state QN)) states
      /\ chain (edge_law en sv (ICE r) (sm_ice ftu fdu fl)) es [l0; t; d] states
      /\ route_state QN tm sv (ICE r) es [l0; t; d] (sm_ice ftu fdu fl) (c1, c2) = Ok (last states [l0; t; d], (c1, c2)).
  Proof.
    intros r fl Hnc Hp es Hes l0 t d c1 c2.
    destruct (route_chain tm sv (ICE r) (sm_ice ftu fdu fl) (edge_ok en sv) shape3 _
                (ice_step en sv ftu fdu r fl Hnc Hp) es Hes [l0; t; d] c1 c2) as [states [H1 [H2 [H3 _]]]].
    { exists l0, t, d. reflexivity. }
    exists states. repeat split; assumption.
  Qed.

  Lemma route_bev : forall (r : pmr QN) (cap start s_init : Q) bu fe, pm_cache r = None -> rate_proper r -> 0 < cap ->
    forall es, Forall (edge_ok en sv) es -> forall (e0 s t d : Q) c1 c2,
    exists states,
      run_edges QN tm sv (BEV r cap start bu) es [e0; s; t; d] (sm_bev ftu fdu s_init fe) (c1, c2) = map (@Ok (state QN)) states
      /\ chain (edge_law en sv (BEV r cap start bu) (sm_bev ftu fdu s_init fe)) es [e0; s; t; d] states
      /\ route_state QN tm sv (BEV r cap start bu) es [e0; s; t; d] (sm_bev ftu fdu s_init fe) (c1, c2)
         = Ok (last states [e0; s; t; d], (c1, c2)).
  Proof.
    intros r cap start s_init bu fe Hnc Hp Hcap es Hes e0 s t d c1 c2.
    destruct (route_chain tm sv (BEV r cap start bu) (sm_bev ftu fdu s_init fe) (edge_ok en sv) shape4 _
                (bev_step en sv ftu fdu r cap start s_init bu fe Hnc Hp Hcap) es Hes [e0; s; t; d] c1 c2)
      as [states [H1 [H2 [H3 _]]]].
    { exists e0, s, t, d. reflexivity. }
    exists states. repeat split; assumption.
  Qed.

  Lemma route_phev : forall (cs cd : pmr QN) (cap start s_init : Q) bu fe fl,
    pm_cache cs = None -> pm_cache cd = None -> rate_proper cs -> rate_proper cd -> 0 < cap ->
    forall es, Forall (edge_ok en sv) es -> forall (e0 s l0 t d : Q) c1 c2,
    exists states,
      run_edges QN tm sv (PHEV cs cd cap start bu) es [e0; s; l0; t; d] (sm_phev ftu fdu s_init fe fl) (c1, c2)
      = map (@Ok (state QN)) states
      /\ chain (edge_law en sv (PHEV cs cd cap start bu) (sm_phev ftu fdu s_init fe fl)) es [e0; s; l0; t; d] states
      /\ route_state QN tm sv (PHEV cs cd cap start bu) es [e0; s; l0; t; d] (sm_phev ftu fdu s_init fe fl) (c1, c2)
         = Ok (last states [e0; s; l0; t; d], (c1, c2)).
  Proof.
    intros cs cd cap start s_init bu fe fl Hn1 Hn2 Hp1 Hp2 Hcap es Hes e0 s l0 t d c1 c2.
    destruct (route_chain tm sv (PHEV cs cd cap start bu) (sm_phev ftu fdu s_init fe fl) (edge_ok en sv) shape5 _
                (phev_step en sv ftu fdu cs cd cap start s_init bu fe fl Hn1 Hn2 Hp1 Hp2 Hcap) es Hes [e0; s; l0; t; d] c1 c2)
      as [states [H1 [H2 [H3 _]]]].
    { exists e0, s, l0, t, d. reflexivity. }
    exists states. repeat split; assumption.
  Qed.

  (* additivity: the accumulated energy is the start value plus the sum of the per-edge energies *)
  Lemma additive_ice : forall (r : pmr QN) fl es st states,
    chain (edge_law en sv (ICE r) (sm_ice ftu fdu fl)) es st states ->
    slot (sm_ice ftu fdu fl) (last states st) n_liquid
    == slot (sm_ice ftu fdu fl) st n_liquid + sumQ (map (edge_energy_in en ftu sv r fl) es).
  Proof.
    intros r fl es st states H.
    apply (chain_additive _ (fun x => slot (sm_ice ftu fdu fl) x n_liquid) (edge_energy_in en ftu sv r fl)
             (fun e prev cur Hlaw => Hlaw) es st states H).
  Qed.
  Lemma additive_bev : forall (r : pmr QN) (cap start s_init : Q) bu fe es st states,
    chain (edge_law en sv (BEV r cap start bu) (sm_bev ftu fdu s_init fe)) es st states ->
    slot (sm_bev ftu fdu s_init fe) (last states st) n_electric
    == slot (sm_bev ftu fdu s_init fe) st n_electric + sumQ (map (edge_energy_in en ftu sv r fe) es).
  Proof.
    intros r cap start s_init bu fe es st states H.
    apply (chain_additive _ (fun x => slot (sm_bev ftu fdu s_init fe) x n_electric) (edge_energy_in en ftu sv r fe)
             (fun e prev cur Hlaw => proj1 Hlaw) es st states H).
  Qed.

  (* PHEV: each fuel accumulates the energies of the edges entered in its regime *)
  Definition phev_w_electric (cd : pmr QN) (sm : smodel QN) fe (e : @edge QN) (prev : list Q) : Q :=
    if Qle_bool (slot sm prev n_soc) 0 then 0 else edge_energy_in en ftu sv cd fe e.
  Definition phev_w_liquid (cs : pmr QN) (sm : smodel QN) fl (e : @edge QN) (prev : list Q) : Q :=
    if Qle_bool (slot sm prev n_soc) 0 then edge_energy_in en ftu sv cs fl e else 0.

  Lemma additive_phev : forall (cs cd : pmr QN) (cap start s_init : Q) bu fe fl es st states,
    let sm := sm_phev ftu fdu s_init fe fl in
    chain (edge_law en sv (PHEV cs cd cap start bu) sm) es st states ->
    slot sm (last states st) n_electric == slot sm st n_electric + sum_along (phev_w_electric cd sm fe) es st states
    /\ slot sm (last states st) n_liquid == slot sm st n_liquid + sum_along (phev_w_liquid cs sm fl) es st states.
  Proof.
    intros cs cd cap start s_init bu fe fl es st states sm H. split.
    - refine (chain_additive_along _ (fun x => slot sm x n_electric) (phev_w_electric cd sm fe) _ es st states H).
      intros e prev cur [Hc [He _]]. unfold phev_w_electric.
      destruct (Qlt_le_dec 0 (slot sm prev n_soc)) as [Hs | Hs].
      + rewrite (Qle_bool_false _ _ Hs). destruct (Hc Hs) as [_ [H2 _]]. exact H2.
      + rewrite (Qle_bool_true _ _ Hs). destruct (He Hs) as [H1 _]. rewrite H1. ring.
    - refine (chain_additive_along _ (fun x => slot sm x n_liquid) (phev_w_liquid cs sm fl) _ es st states H).
      intros e prev cur [Hc [He _]]. unfold phev_w_liquid.
      destruct (Qlt_le_dec 0 (slot sm prev n_soc)) as [Hs | Hs].
      + rewrite (Qle_bool_false _ _ Hs). destruct (Hc Hs) as [H1 _]. rewrite H1. ring.
      + rewrite (Qle_bool_true _ _ Hs). destruct (He Hs) as [_ [H2 _]]. exact H2.
  Qed.

  (* the state of charge after every edge of every route lies in [0, 100] *)
  Lemma soc_range_bev : forall (r : pmr QN) (cap start s_init : Q) bu fe es st states,
    chain (edge_law en sv (BEV r cap start bu) (sm_bev ftu fdu s_init fe)) es st states ->
    Forall (fun x => in_0_100 (slot (sm_bev ftu fdu s_init fe) x n_soc)) states.
  Proof.
    intros r cap start s_init bu fe es st states H.
    apply (chain_forall _ _ (fun e prev cur Hlaw => proj2 (proj2 Hlaw)) es st states H).
  Qed.
  Lemma soc_range_phev : forall (cs cd : pmr QN) (cap start s_init : Q) bu fe fl es st states,
    chain (edge_law en sv (PHEV cs cd cap start bu) (sm_phev ftu fdu s_init fe fl)) es st states ->
    Forall (fun x => in_0_100 (slot (sm_phev ftu fdu s_init fe fl) x n_soc)) states.
  Proof.
    intros cs cd cap start s_init bu fe fl es st states H.
    apply (chain_forall _ _ (fun e prev cur Hlaw => proj2 (proj2 Hlaw)) es st states H).
  Qed.

  (* the unclamped step *)
  Lemma soc_step_bev : forall (r : pmr QN) (cap start s_init : Q) bu fe e prev cur,
    let sm := sm_bev ftu fdu s_init fe in
    edge_law en sv (BEV r cap start bu) sm e prev cur ->
    let used := edge_energy_in en ftu sv r bu e in
    0 <= slot sm prev n_soc - 100 * used / cap -> slot sm prev n_soc - 100 * used / cap <= 100 ->
    slot sm cur n_soc == slot sm prev n_soc - 100 * used / cap.
  Proof.
    intros r cap start s_init bu fe e prev cur sm [_ [Hs _]] used H0 H1.
    rewrite Hs. apply spec_soc_unclamped; assumption.
  Qed.
End RouteTheorems.
