(* Lemmas for property C08, part 4: the start charge (update_from_query), the state model of
   EnergyTraversalModel::state_features(), the best case, rejected edges, the speed factor tau. *)
From Coq Require Import ZArith QArith Qabs String List Bool Lia Lqa Setoid Morphisms.
From RC Require Import Base.Num Base.Res Model.Units Model.UnitsRun Proofs.Units Model.Vehicle
  Model.EnergyTraversal Model.VehicleSpec Proofs.Vehicle Proofs.VehicleEdge.
Import ListNotations.
Import Units UnitsRun Vehicle EnergyTraversal VehicleSpec.
Local Open Scope Q_scope.

(* ------------------------------------------------------------------ update_from_query *)
Lemma range_true : forall q : Q, 0 <= q -> q <= 100 -> soc_in_query_range QN q = true.
Proof.
  intros q H0 H1. unfold soc_in_query_range, hundred. cbn [leb zero lit QN T]. change (Qlit 100 0) with 100.
  rewrite (Qle_bool_true 0 q H0), (Qle_bool_true q 100 H1). reflexivity.
Qed.
Lemma range_false : forall q : Q, q < 0 \/ 100 < q -> soc_in_query_range QN q = false.
Proof.
  intros q H. unfold soc_in_query_range, hundred. cbn [leb zero lit QN T]. change (Qlit 100 0) with 100.
  destruct H as [H | H].
  - rewrite (Qle_bool_false 0 q H). reflexivity.
  - rewrite (Qle_bool_false q 100 H). apply andb_false_r.
Qed.

Lemma bev_start_rejected : forall r cap st bu (q : Q), q < 0 \/ 100 < q ->
  update_from_query QN (BEV r cap st bu) (QNumber q) = Err e_build.
Proof. intros r cap st bu q H. cbn [update_from_query bind]. rewrite (range_false q H). reflexivity. Qed.
Lemma phev_start_rejected : forall cs cd cap st bu (q : Q), q < 0 \/ 100 < q ->
  update_from_query QN (PHEV cs cd cap st bu) (QNumber q) = Err e_build.
Proof. intros cs cd cap st bu q H. cbn [update_from_query bind]. rewrite (range_false q H). reflexivity. Qed.
Lemma bev_start_non_numeric : forall r cap st bu, update_from_query QN (BEV r cap st bu) QNonNumeric = Err e_build.
Proof. reflexivity. Qed.
Lemma phev_start_non_numeric : forall cs cd cap st bu, update_from_query QN (PHEV cs cd cap st bu) QNonNumeric = Err e_build.
Proof. reflexivity. Qed.
(* the code requires the key for a PHEV (no default) *)
Lemma phev_start_missing : forall cs cd cap st bu, update_from_query QN (PHEV cs cd cap st bu) QMissing = Err e_build.
Proof. reflexivity. Qed.
Lemma ice_start : forall r q, update_from_query QN (ICE r) q = Ok (ICE r).
Proof. reflexivity. Qed.

Lemma bev_start_accepted : forall r cap st bu (q : Q), 0 <= q -> q <= 100 ->
  update_from_query QN (BEV r cap st bu) (QNumber q) = Ok (BEV r cap (starting_energy QN q cap) bu).
Proof. intros r cap st bu q H0 H1. cbn [update_from_query bind]. rewrite (range_true q H0 H1). reflexivity. Qed.
Lemma phev_start_accepted : forall cs cd cap st bu (q : Q), 0 <= q -> q <= 100 ->
  update_from_query QN (PHEV cs cd cap st bu) (QNumber q) = Ok (PHEV cs cd cap (starting_energy QN q cap) bu).
Proof. intros cs cd cap st bu q H0 H1. cbn [update_from_query bind]. rewrite (range_true q H0 H1). reflexivity. Qed.
Lemma bev_start_default : forall r cap st bu,
  update_from_query QN (BEV r cap st bu) QMissing = Ok (BEV r cap (starting_energy QN 100 cap) bu).
Proof.
  intros r cap st bu. cbn [update_from_query bind].
  assert (E : soc_in_query_range QN (hundred QN) = true) by (apply range_true; unfold hundred; cbn [lit QN T]; change (Qlit 100 0) with 100; lra).
  rewrite E. reflexivity.
Qed.

(* the initial state of charge IS the query's value *)
Lemma start_soc_value : forall q cap : Q, 0 < cap -> 0 <= q -> q <= 100 ->
  as_soc_percent QN (starting_energy QN q cap) cap == q.
Proof.
  intros q cap Hc H0 H1. rewrite (as_soc_percent_spec _ cap Hc).
  assert (E : 100 * starting_energy QN q cap / cap == q).
  { unfold starting_energy. cbn [mul lit QN T]. change (Qlit 1 (-2)) with (1 # 100). field. apply nz. exact Hc. }
  rewrite E. apply clampQ_id; assumption.
Qed.
Lemma start_soc_in_range : forall rem cap : Q, 0 < cap -> in_0_100 (as_soc_percent QN rem cap).
Proof.
  intros rem cap Hc. unfold in_0_100. rewrite (as_soc_percent_spec rem cap Hc). exact (clampQ_range _).
Qed.

(* ------------------------------------------------------------------ the state model of state_features() *)
Lemma canonical_ice : forall (en : @engine QN) r,
  extend QN [] (EnergyTraversal.state_features QN (ICE r) (speed_features QN en))
  = Ok (sm_ice (en_tu en) (en_du en) (energy_rate_energy_unit (pm_eru r))).
Proof. reflexivity. Qed.
Lemma canonical_bev : forall (en : @engine QN) r cap st bu,
  extend QN [] (EnergyTraversal.state_features QN (BEV r cap st bu) (speed_features QN en))
  = Ok (sm_bev (en_tu en) (en_du en) (as_soc_percent QN st cap) bu).
Proof. reflexivity. Qed.
Lemma canonical_phev : forall (en : @engine QN) cs cd cap st bu,
  extend QN [] (EnergyTraversal.state_features QN (PHEV cs cd cap st bu) (speed_features QN en))
  = Ok (sm_phev (en_tu en) (en_du en) (as_soc_percent QN st cap) bu (energy_rate_energy_unit (pm_eru cs))).
Proof. reflexivity. Qed.
Lemma initial_bev : forall ftu fdu s fe, initial_state QN (sm_bev ftu fdu s fe) = [0; s; 0; 0].
Proof. reflexivity. Qed.
Lemma initial_ice : forall ftu fdu fl, initial_state QN (sm_ice ftu fdu fl) = [0; 0; 0].
Proof. reflexivity. Qed.
Lemma initial_phev : forall ftu fdu s fe fl, initial_state QN (sm_phev ftu fdu s fe fl) = [0; s; 0; 0; 0].
Proof. reflexivity. Qed.

(* ------------------------------------------------------------------ best case *)
(* best_case_energy = ideal rate * distance in the rate's distance unit, in the rate's energy unit *)
Lemma best_case_value : forall (v : vehicle QN) (d : Q) du,
  let r := match v with ICE r | BEV r _ _ _ => r | PHEV _ cd _ _ _ => cd end in
  exists e : Q, best_case_energy QN v d du = Ok (e, energy_rate_energy_unit (pm_eru r))
    /\ e == pm_ideal r * (d * k_dist du (energy_rate_distance_unit (pm_eru r))).
Proof.
  intros v d du. destruct v as [r | r cap st bu | cs cd cap st bu]; cbn [best_case_energy]; unfold create_energy;
    eexists; (split; [reflexivity|]); cbn [mul QN]; rewrite convert_distance_factor; reflexivity.
Qed.

Section BestCase.
  Variable sv : @service QN.
  Variable ftu : time_unit.
  Variable fdu : dist_unit.

  Lemma best_case_state_ice : forall (r : pmr QN) fl (hav_m l0 t d : Q),
    exists l1 : Q,
      best_case_energy_state QN (ICE r) (convert_distance QN Meters (sv_du sv) hav_m) (sv_du sv) [l0; t; d] (sm_ice ftu fdu fl)
      = Ok [l1; t; d]
      /\ l1 == l0 + spec_best_case sv r hav_m * k_energy (energy_rate_energy_unit (pm_eru r)) fl.
  Proof.
    intros r fl hav_m l0 t d. unfold best_case_energy_state, best_case_energy, create_energy. cbn [bind fst].
    erewrite (add_energy_at (sm_ice ftu fdu fl) _ n_liquid 0 eq_refl); [|reflexivity..]. cbn [set_nth].
    eexists. split; [reflexivity|]. rewrite acc_energy. cbn [mul QN]. rewrite !convert_distance_factor.
    unfold spec_best_case, spec_length_hav. ring.
  Qed.

  (* BEV / PHEV (after fix 0840f02): recorded in the rate's energy unit (converted into the feature's),
     the charge falls by the energy converted into the battery unit *)
  Lemma best_case_state_bev : forall (r : pmr QN) (cap st : Q) bu fe (s_init hav_m e0 s t d : Q), 0 < cap ->
    exists e1 s1 : Q,
      best_case_energy_state QN (BEV r cap st bu) (convert_distance QN Meters (sv_du sv) hav_m) (sv_du sv)
                             [e0; s; t; d] (sm_bev ftu fdu s_init fe)
      = Ok [e1; s1; t; d]
      /\ e1 == e0 + spec_best_case sv r hav_m * k_energy (energy_rate_energy_unit (pm_eru r)) fe
      /\ s1 == spec_soc s (spec_best_case sv r hav_m * k_energy (energy_rate_energy_unit (pm_eru r)) bu) cap.
  Proof.
    intros r cap st bu fe s_init hav_m e0 s t d Hc.
    unfold best_case_energy_state, best_case_energy, create_energy. cbn [bind fst snd].
    erewrite (add_energy_at (sm_bev ftu fdu s_init fe) _ n_electric 0 eq_refl); [|reflexivity..]. cbn [bind set_nth].
    erewrite (update_soc_at (sm_bev ftu fdu s_init fe) _ n_soc 1 eq_refl); [|reflexivity..]. cbn [set_nth].
    eexists. eexists. split; [reflexivity|].
    assert (E : @mul QN (pm_ideal r) (convert_distance QN (sv_du sv) (energy_rate_distance_unit (pm_eru r))
                                        (convert_distance QN Meters (sv_du sv) hav_m)) == spec_best_case sv r hav_m).
    { cbn [mul QN]. rewrite !convert_distance_factor. unfold spec_best_case, spec_length_hav. ring. }
    split.
    - rewrite acc_energy. rewrite E. reflexivity.
    - rewrite (soc_update_spec s _ cap Hc). unfold spec_soc. apply clampQ_proper.
      rewrite convert_energy_factor. rewrite E. reflexivity.
  Qed.

  Lemma best_case_state_phev : forall (cs cd : pmr QN) (cap st : Q) bu fe fl (s_init hav_m e0 s l0 t d : Q), 0 < cap ->
    exists e1 s1 : Q,
      best_case_energy_state QN (PHEV cs cd cap st bu) (convert_distance QN Meters (sv_du sv) hav_m) (sv_du sv)
                             [e0; s; l0; t; d] (sm_phev ftu fdu s_init fe fl)
      = Ok [e1; s1; l0; t; d]
      /\ e1 == e0 + spec_best_case sv cd hav_m * k_energy (energy_rate_energy_unit (pm_eru cd)) fe
      /\ s1 == spec_soc s (spec_best_case sv cd hav_m * k_energy (energy_rate_energy_unit (pm_eru cd)) bu) cap.
  Proof.
    intros cs cd cap st bu fe fl s_init hav_m e0 s l0 t d Hc.
    unfold best_case_energy_state, best_case_energy, create_energy. cbn [bind fst snd].
    erewrite (add_energy_at (sm_phev ftu fdu s_init fe fl) _ n_electric 0 eq_refl); [|reflexivity..]. cbn [bind set_nth].
    erewrite (update_soc_at (sm_phev ftu fdu s_init fe fl) _ n_soc 1 eq_refl); [|reflexivity..]. cbn [set_nth].
    eexists. eexists. split; [reflexivity|].
    assert (E : @mul QN (pm_ideal cd) (convert_distance QN (sv_du sv) (energy_rate_distance_unit (pm_eru cd))
                                        (convert_distance QN Meters (sv_du sv) hav_m)) == spec_best_case sv cd hav_m).
    { cbn [mul QN]. rewrite !convert_distance_factor. unfold spec_best_case, spec_length_hav. ring. }
    split.
    - rewrite acc_energy. rewrite E. reflexivity.
    - rewrite (soc_update_spec s _ cap Hc). unfold spec_soc. apply clampQ_proper.
      rewrite convert_energy_factor. rewrite E. reflexivity.
  Qed.
End BestCase.

(* ------------------------------------------------------------------ rejected edges *)
Lemma edge_rejected : forall (en : @engine QN) (sv : @service QN) (v : vehicle QN) (ed : @edge QN) st sm cc (s : Q),
  nth_error (en_speeds en) (e_id ed) = Some s -> s <= 0 \/ e_dist ed <= 0 ->
  traverse_edge QN (speed_traverse QN en) sv v ed st sm cc = Err e_units_time.
Proof.
  intros en sv v ed st sm cc s Hs Hbad. unfold traverse_edge, speed_traverse, get_speed. rewrite Hs. cbn [bind].
  rewrite create_time_rejected; [reflexivity|].
  destruct Hbad as [H | H]; [left; exact H | right].
  rewrite convert_distance_factor. apply mul_nonpos; [exact H | apply k_dist_pos].
Qed.
Lemma edge_unknown_speed : forall (en : @engine QN) (sv : @service QN) (v : vehicle QN) (ed : @edge QN) st sm cc,
  nth_error (en_speeds en) (e_id ed) = None ->
  traverse_edge QN (speed_traverse QN en) sv v ed st sm cc = Err e_failure.
Proof.
  intros en sv v ed st sm cc Hs. unfold traverse_edge, speed_traverse, get_speed. rewrite Hs. reflexivity.
Qed.

(* ------------------------------------------------------------------ the speed factor *)
(* for every unit configuration (time model speed / distance / time unit, unit of the time feature,
   service speed unit, model speed unit: 3 x 5 x 4 x 4 x 3 x 3 = 2160) the speed handed to the predictor is
   within 0.3 % of the exact SI conversion of the table speed; finite fact about the regenerated tables *)
Lemma tau_table : forallb tau_ok tau_configs = true.
Proof. vm_compute. reflexivity. Qed.

Lemma tau_within : forall esu edu etu ftu ssu msu,
  Qabs (tau (VehicleSpec.mk_engine esu edu etu) ftu (VehicleSpec.mk_service ssu) msu - 1) <= tau_tol * Qabs 1.
Proof.
  intros esu edu etu ftu ssu msu. apply within_spec.
  pose proof tau_table as Htab. rewrite forallb_forall in Htab.
  apply (Htab (esu, edu, etu, ftu, ssu, msu)).
  unfold tau_configs. repeat apply in_prod; first [apply all_speed_complete | apply all_dist_complete | apply all_time_complete].
Qed.
(* [tau] only depends on the units *)
Lemma tau_units : forall (en : @engine QN) ftu (sv : @service QN) msu,
  tau en ftu sv msu = tau (VehicleSpec.mk_engine (en_su en) (en_du en) (en_tu en)) ftu (VehicleSpec.mk_service (sv_su sv)) msu.
Proof. reflexivity. Qed.
(* all units the base units (m/s, m, s): the factor is exactly 1 *)
Lemma tau_base_units :
  tau (VehicleSpec.mk_engine MetersPerSecond Meters Seconds) Seconds (VehicleSpec.mk_service MetersPerSecond) MetersPerSecond == 1.
Proof. vm_compute. reflexivity. Qed.
Lemma spec_speed_tau : forall (en : @engine QN) ftu (sv : @service QN) (r : pmr QN) (v : Q),
  spec_speed en ftu sv r v == tau en ftu sv (pm_su r) * (v * (si_speed (en_su en) / si_speed (pm_su r))).
Proof.
  intros en ftu sv r v. unfold spec_speed, tau. field.
  split; destruct (pm_su r), (en_su en); vm_compute; discriminate.
Qed.
