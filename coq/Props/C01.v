(* C01 - Routes are contiguous origin-to-destination walks without a repeated edge; returned trees are rooted
   trees whose entries record an edge that really joins the parent to the entry's vertex in the search
   direction, and whose parent chains reach the search origin without revisiting a vertex.

   For EVERY graph (parallel edges, self loops, dead ends, disconnected parts), every frontier / traverse /
   estimate / terminate function (so: every traversal, access, cost, frontier and termination configuration,
   every heuristic table and weight factor, Dijkstra = A-star with factor 0), both directions, every fuel.
   Hypotheses on the cost type: [cle] is a preorder, the strict test [clt] implies [cle] and excludes the
   converse [cle], and adding a produced edge cost never decreases a label.  They hold for exact rationals
   with the positive costs the CostModel produces (c01_Q_hypotheses) and for NaN-free binary64.

   Direction convention ([SearchSpec.edge_joins]): an edge joins a to b in direction d when its
   [term_vertex d] is a and its [key_vertex d] is b; Forward = (src, dst), Reverse = (dst, src).  A route of
   a Reverse search is listed from the search source outwards; read backwards it is an ordinary walk
   from the target to the source (c01_reverse_route_reading).

   This file contains only statements: each theorem is closed by [exact] of a lemma proved in Proofs/,
   main statements are pinned by [Check], and followed by Print Assumptions. *)
From Coq Require Import List Arith Bool String QArith.
From stdpp Require Import gmap.
From RC Require Import Base.Res Base.Num Model.Search Model.SearchSpec Model.SearchRun
  Proofs.SearchTree Proofs.SearchInv Proofs.SearchBacktrack Proofs.SearchRoute Proofs.SearchCheck Proofs.SearchQ
  Proofs.SearchRunQ Proofs.SearchKsp.
Import ListNotations.
Import Search SearchSpec.

Section C01.
  Context {C St : Type}.
  Variable clt : C -> C -> bool.
  Variable cadd : C -> C -> C.
  Variable czero : C.
  Variable cfloor : C -> C.
  Variable g : graph.
  Variable frontier : nat -> St -> option nat -> res bool.
  Variable traverse : dir -> nat -> option nat -> St -> res (C * C * St).
  Variable estimate : nat -> nat -> St -> res C.
  Variable init_state : res St.
  Variable terminate : nat -> nat -> option string.

  Variable cle : C -> C -> Prop.
  Context `{!PreOrder cle}.
  Hypothesis clt_le : forall a b, clt a b = true -> cle a b.
  Hypothesis clt_irr : forall a b, clt a b = true -> cle b a -> False.
  Hypothesis cadd_infl : forall d e last st ac tc st' gc,
      traverse d e last st = Ok (ac, tc, st') -> cle gc (cadd gc (cfloor (cadd ac tc))).

  Notation Inv := (Inv g frontier traverse cle).
  Notation reach := (reach clt cadd czero cfloor g frontier traverse estimate terminate).
  Notation run_a_star := (run_a_star clt cadd czero cfloor g frontier traverse estimate init_state terminate).
  Notation run_vertex_oriented := (run_vertex_oriented clt cadd czero cfloor g frontier traverse estimate init_state terminate).
  Notation run_edge_oriented := (run_edge_oriented czero g traverse init_state).

  (* (a) the search invariant (tree entries are real edges joining parent to key in the search direction; the
     source is not in the tree; labelled vertices = tree vertices + source; labels monotone along parents; every
     tree vertex has a parent chain to the source; queued vertices are labelled) holds in every state reachable
     by the loop of run_a_star from its initial state *)
  Theorem c01_run_inv : forall d source target init h0 s,
      reach d source target init (init_sstate czero source h0) s -> Inv d source s.
  Proof.
    intros d source target init h0 s Hr.
    exact (run_inv clt cadd czero cfloor g frontier traverse estimate terminate cle clt_le clt_irr cadd_infl
             d source target init _ s (init_inv czero g frontier traverse estimate terminate cle d source h0) Hr).
  Qed.

  (* (b) every tree returned by run_a_star satisfies the tree clause of the property *)
  Theorem c01_tree_rooted : forall fuel d source target tr it,
      run_a_star fuel d source target = Ok (tr, it) -> tree_ok g d source (triples_of tr).
  Proof.
    intros fuel d source target tr it H. apply tree_inv_ok.
    exact (run_a_star_tree clt cadd czero cfloor g frontier traverse estimate init_state terminate cle
             clt_le clt_irr cadd_infl fuel d source target tr it H).
  Qed.

  (* (c) vertex-oriented: a successful search between distinct vertices returns one tree (rooted, containing
     the destination) and one route: non-empty, leaving the source, chained, arriving at the target, without a
     repeated edge; moreover it never re-enters the source nor leaves the target *)
  Theorem c01_vertex_route_walk : forall fuel d s t r,
      run_vertex_oriented fuel d s (Some t) = Ok r -> t <> s ->
      exists tr route, r_trees r = [tr] /\ r_routes r = [route]
        /\ tree_ok g d s (triples_of tr) /\ is_Some (tr !! t)
        /\ route_ok g d s t (map et_edge route)
        /\ (forall e ed, In e (map et_edge route) -> get_edge g e = Some ed ->
              key_vertex d ed <> s /\ term_vertex d ed <> t).
  Proof.
    intros fuel d s t r H Hts.
    destruct (vertex_route_walk clt cadd czero cfloor g frontier traverse estimate init_state terminate cle
                clt_le clt_irr cadd_infl fuel d s t r H Hts) as (tr & route & H1 & H2 & H3 & H4 & H5 & H6).
    exists tr, route. split; [exact H1|]. split; [exact H2|]. split; [apply tree_inv_ok; exact H3|]. auto.
  Qed.

  Theorem c01_vertex_tree_no_target : forall fuel d s r,
      run_vertex_oriented fuel d s None = Ok r ->
      r_routes r = [] /\ exists tr, r_trees r = [tr] /\ tree_ok g d s (triples_of tr).
  Proof.
    intros fuel d s r H. split.
    - exact (vertex_search_no_target clt cadd czero cfloor g frontier traverse estimate init_state terminate fuel d s r H).
    - destruct (vertex_search_tree clt cadd czero cfloor g frontier traverse estimate init_state terminate cle
                  clt_le clt_irr cadd_infl fuel d s None r H) as (tr & H1 & H2).
      exists tr. split; [exact H1 | apply tree_inv_ok; exact H2].
  Qed.

  (* (c') backtracking on ANY tree satisfying the tree invariant that contains the target returns Ok (the
     repeated-edge guard never fires, fuel |tree|+1 suffices) with such a route *)
  Theorem c01_backtrack_ok : forall d s (tr : gmap nat (branch C St)) t,
      TreeInv g d s tr -> is_Some (tr !! t) ->
      exists r, vertex_oriented_route s t tr = Ok r /\ route_ok g d s t (map et_edge r).
  Proof.
    intros d s tr t HT Ht. destruct (backtrack_ok g d s tr HT t Ht) as (r & H1 & H2 & _). eauto.
  Qed.

  (* (d) edge-oriented, distinct origin and destination edges: one route whose first edge is the origin edge
     and whose last edge is the destination edge, chained, without a repeated edge; one tree, rooted at an end
     of the origin edge *)
  Theorem c01_edge_route_walk : forall fuel d e1 e2 r,
      run_edge_oriented d (run_vertex_oriented fuel d) e1 (Some e2) = Ok r -> e1 <> e2 ->
      exists route tr, r_routes r = [route] /\ r_trees r = [tr]
        /\ eroute_ok g d e1 e2 (map et_edge route) /\ etree_ok g d e1 (triples_of tr).
  Proof.
    intros fuel d e1 e2 r H Hne.
    destruct (edge_route_walk clt cadd czero cfloor g frontier traverse estimate init_state terminate cle
                clt_le clt_irr cadd_infl fuel d e1 e2 r H Hne)
      as (ed1 & route & Hg & Hr & Hok & tr & Ht & HT).
    exists route, tr. split; [exact Hr|]. split; [exact Ht|]. split; [exact Hok|].
    exact (etree_of_inv g d e1 ed1 tr Hg HT).
  Qed.

  Theorem c01_edge_tree_rooted : forall fuel d e1 r,
      run_edge_oriented d (run_vertex_oriented fuel d) e1 None = Ok r ->
      r_routes r = [] /\ exists tr, r_trees r = [tr] /\ etree_ok g d e1 (triples_of tr).
  Proof.
    intros fuel d e1 r H.
    destruct (edge_tree_rooted clt cadd czero cfloor g frontier traverse estimate init_state terminate cle
                clt_le clt_irr cadd_infl fuel d e1 r H) as (ed1 & Hg & Hr & tr & Ht & HT).
    split; [exact Hr|]. exists tr. split; [exact Ht|]. exact (etree_of_inv g d e1 ed1 tr Hg HT).
  Qed.
End C01.

(* reading a Reverse route backwards gives an ordinary walk from the target to the source *)
Theorem c01_reverse_route_reading : forall g s t r,
    route_ok g Reverse s t r -> walk g Forward t (rev r) s /\ List.NoDup (rev r).
Proof.
  intros g s t r (_ & Hw & Hn). split; [exact (walk_reverse g s r t Hw) | apply List.NoDup_rev; exact Hn].
Qed.

(* (e) the boolean checkers evaluated on the implementation's output decide the specification exactly *)
Theorem c01_check_route_spec : forall g d s t r, check_route g d s t r = true <-> route_ok g d s t r.
Proof. exact check_route_spec. Qed.
Theorem c01_check_eroute_spec : forall g d e1 e2 r, check_eroute g d e1 e2 r = true <-> eroute_ok g d e1 e2 r.
Proof. exact check_eroute_spec. Qed.
Theorem c01_check_tree_spec : forall g d s l, check_tree g d s l = true <-> tree_ok g d s l.
Proof. exact check_tree_spec. Qed.
Theorem c01_check_etree_spec : forall g d e1 l, check_etree g d e1 l = true <-> etree_ok g d e1 l.
Proof. exact check_etree_spec. Qed.

Theorem c01_check_kroute_spec : forall g d s t r, check_kroute g d s t r = true <-> kroute_ok g d s t r.
Proof. exact check_kroute_spec. Qed.

(* k-shortest paths (Yen): a candidate assembled from a non-empty proper-or-not prefix of an accepted route
   (a walk from the origin) and a spur route from the far end of the prefix's last edge to the target is a
   contiguous walk from the origin to the target; with c01_vertex_route_walk for the spur searches this gives, by
   induction over the accepted list, the chain clause for every route yens_algorithm.rs returns *)
Theorem c01_yen_candidate_walk : forall g s t prev n e ed spur,
    walk g Forward s prev t -> firstn n prev <> [] -> List.last (firstn n prev) e = e ->
    get_edge g e = Some ed -> walk g Forward (edst ed) spur t ->
    walk g Forward s (firstn n prev ++ spur) t.
Proof. exact yen_candidate_walk. Qed.

(* the hypotheses hold for exact rationals and the table-driven configuration of Model/SearchRun.v
   (any world: any graph, cost table, heuristic table, turn costs, frontier tables) *)
Theorem c01_Q_hypotheses : forall w : SR.world QN,
    PreOrder Qle
    /\ (forall a b : Q, ltb (n:=QN) a b = true -> (a <= b)%Q)
    /\ (forall a b : Q, ltb (n:=QN) a b = true -> (b <= a)%Q -> False)
    /\ (forall d e last st ac tc st' (gc : Q),
          SR.traverse QN w d e last st = Ok (ac, tc, st') -> (gc <= add (n:=QN) gc (SR.pos QN (add (n:=QN) ac tc)))%Q).
Proof.
  intros w. split; [exact Qle_preorder|]. split; [exact Qltb_le|]. split; [exact Qltb_irr|].
  exact (traverse_inflationary w).
Qed.

(* the M line meets the S line: over exact rationals every Ok outcome of the table-driven model (any world: graph,
   cost / heuristic / turn / frontier tables, termination model; any query: algorithm, weight factor, direction,
   orientation, endpoints) is accepted by [SR.check_outcome], the function the correspondence stream evaluates on
   the implementation's output *)
Theorem c01_model_outcome_accepted : forall (w : SR.world QN) (q : SR.query QN) fuel r,
    SR.run QN fuel w q = Ok r -> SR.check_outcome QN w q (SR.outcome_of QN (Ok r)) = None.
Proof. exact model_outcome_accepted. Qed.

(* statement pins: editing a statement above without editing the pin breaks the build *)
Check @c01_vertex_route_walk : forall (C St : Type) (clt : C -> C -> bool) (cadd : C -> C -> C) (czero : C) (cfloor : C -> C) (g : graph)
  (frontier : nat -> St -> option nat -> res bool) (traverse : dir -> nat -> option nat -> St -> res (C * C * St))
  (estimate : nat -> nat -> St -> res C) (init_state : res St) (terminate : nat -> nat -> option string)
  (cle : C -> C -> Prop), PreOrder cle ->
  (forall a b, clt a b = true -> cle a b) -> (forall a b, clt a b = true -> cle b a -> False) ->
  (forall d e last st ac tc st' gc, traverse d e last st = Ok (ac, tc, st') -> cle gc (cadd gc (cfloor (cadd ac tc)))) ->
  forall fuel d s t r,
    run_vertex_oriented clt cadd czero cfloor g frontier traverse estimate init_state terminate fuel d s (Some t) = Ok r ->
    t <> s ->
    exists tr route, r_trees r = [tr] /\ r_routes r = [route]
      /\ tree_ok g d s (triples_of tr) /\ is_Some (tr !! t)
      /\ route_ok g d s t (map et_edge route)
      /\ (forall e ed, In e (map et_edge route) -> get_edge g e = Some ed ->
            key_vertex d ed <> s /\ term_vertex d ed <> t).
Check @c01_edge_route_walk : forall (C St : Type) (clt : C -> C -> bool) (cadd : C -> C -> C) (czero : C) (cfloor : C -> C) (g : graph)
  (frontier : nat -> St -> option nat -> res bool) (traverse : dir -> nat -> option nat -> St -> res (C * C * St))
  (estimate : nat -> nat -> St -> res C) (init_state : res St) (terminate : nat -> nat -> option string)
  (cle : C -> C -> Prop), PreOrder cle ->
  (forall a b, clt a b = true -> cle a b) -> (forall a b, clt a b = true -> cle b a -> False) ->
  (forall d e last st ac tc st' gc, traverse d e last st = Ok (ac, tc, st') -> cle gc (cadd gc (cfloor (cadd ac tc)))) ->
  forall fuel d e1 e2 r,
    run_edge_oriented czero g traverse init_state d
      (run_vertex_oriented clt cadd czero cfloor g frontier traverse estimate init_state terminate fuel d) e1 (Some e2) = Ok r ->
    e1 <> e2 ->
    exists route tr, r_routes r = [route] /\ r_trees r = [tr]
      /\ eroute_ok g d e1 e2 (map et_edge route) /\ etree_ok g d e1 (triples_of tr).
Check @c01_tree_rooted : forall (C St : Type) (clt : C -> C -> bool) (cadd : C -> C -> C) (czero : C) (cfloor : C -> C) (g : graph)
  (frontier : nat -> St -> option nat -> res bool) (traverse : dir -> nat -> option nat -> St -> res (C * C * St))
  (estimate : nat -> nat -> St -> res C) (init_state : res St) (terminate : nat -> nat -> option string)
  (cle : C -> C -> Prop), PreOrder cle ->
  (forall a b, clt a b = true -> cle a b) -> (forall a b, clt a b = true -> cle b a -> False) ->
  (forall d e last st ac tc st' gc, traverse d e last st = Ok (ac, tc, st') -> cle gc (cadd gc (cfloor (cadd ac tc)))) ->
  forall fuel d source target tr it,
    run_a_star clt cadd czero cfloor g frontier traverse estimate init_state terminate fuel d source target = Ok (tr, it) ->
    tree_ok g d source (triples_of tr).
Check c01_check_tree_spec : forall g d s l, check_tree g d s l = true <-> tree_ok g d s l.
Check c01_check_route_spec : forall g d s t r, check_route g d s t r = true <-> route_ok g d s t r.

(* non-vacuity: a concrete network with a parallel edge, a self loop, a dead end and an unreachable vertex,
   costs and an inadmissible heuristic over Q, meets the hypotheses (c01_Q_hypotheses) and the searches succeed
   with routes of three and five edges *)
Definition ex_world : SR.world QN :=
  SR.mkW QN 6 [(0, 1); (0, 1); (1, 1); (1, 2); (2, 3); (0, 3); (3, 4); (1, 0); (3, 2)]
    [4#1; 1#1; 1#2; 2#1; 1#1; 9#1; 1#1; 1#1; 1#1] [0#1; 5#1; 0#1; 0#1; 0#1; 0#1] [] [] [] [] [] SR.TUnlimited (0#1).
Definition ex_query_v : SR.query QN := SR.mkQ QN (SR.AAStar QN None) Forward SR.OVertex 0 (Some 3) None.
Definition ex_query_e : SR.query QN := SR.mkQ QN (SR.ADijkstra QN) Forward SR.OEdge 7 (Some 6) None.
Example c01_nonvacuous :
  (exists r, SR.run QN 100 ex_world ex_query_v = Ok r /\ map (map et_edge) (r_routes r) = [[1; 3; 4]])
  /\ (exists r, SR.run QN 100 ex_world ex_query_e = Ok r /\ map (map et_edge) (r_routes r) = [[7; 1; 3; 4; 6]]).
Proof. split; eexists; split; vm_compute; reflexivity. Qed.

Print Assumptions c01_run_inv.
Print Assumptions c01_tree_rooted.
Print Assumptions c01_vertex_route_walk.
Print Assumptions c01_vertex_tree_no_target.
Print Assumptions c01_backtrack_ok.
Print Assumptions c01_edge_route_walk.
Print Assumptions c01_edge_tree_rooted.
Print Assumptions c01_reverse_route_reading.
Print Assumptions c01_check_route_spec.
Print Assumptions c01_check_eroute_spec.
Print Assumptions c01_check_tree_spec.
Print Assumptions c01_check_etree_spec.
Print Assumptions c01_check_kroute_spec.
Print Assumptions c01_yen_candidate_walk.
Print Assumptions c01_Q_hypotheses.
Print Assumptions c01_model_outcome_accepted.
Print Assumptions c01_nonvacuous.
