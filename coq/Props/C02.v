(* C02 - the returned route has least total cost under the query's own objective.

   Statements only: every theorem is closed by [exact] of a lemma of Proofs/Optimal*.v / Proofs/Objective*.v,
   pinned by a [Check ... : statement] for the main ones, and followed by Print Assumptions.

   Reading guide
     cost algebra      [clt] is the boolean `<` the Rust code uses; [cle a b := clt b a = false]; [ceq] both ways.
                       cost_algebra = strict weak order + [cadd] monotone + zero left-neutral.  No subtraction.
     edge-local        [c e] the cost of edge e, [ok e] its admission; the hypotheses say that whatever traverse /
                       frontier return agrees with them for EVERY previous edge and state (and they may fail: an
                       error ends the search with an error, about which nothing is claimed).
     [cfloor]          the floor inside EdgeTraversal::total_cost; opaque: only  cfloor (ac + tc) ~ c e  is used.
     walks             SearchSpec.walk (the specification of C01), in the search direction d, over permitted edges.
     route_cost        left fold of cadd over EdgeTraversal::total_cost, exactly how run_a_star accumulates a label.
   h(target) = 0 and h >= 0 are NOT needed: consistency alone gives optimality of the returned route. *)
From Coq Require Import ZArith QArith List Arith Bool String Lia Lqa.
From stdpp Require Import gmap.
From RC Require Import Base.Num Base.Res Model.Units Model.Cost Model.CostSpec Model.Objective Model.Search Model.SearchSpec.
From RC Require Import Model.SearchRun Model.ObjectiveRun.
From RC Require Import Proofs.Optimal Proofs.OptimalCore Proofs.OptimalInst Proofs.Cost Proofs.Objective Proofs.ObjectiveOpt Proofs.OptimalCheck.
Import ListNotations.
Import RC.Model.Search.Search SearchSpec Optimal OptimalCore OptimalInst.
Import RC.Model.Units.Units RC.Model.Cost.Cost RC.Model.CostSpec.CostSpec RC.Model.Objective.Objective ObjectiveP ObjectiveOpt.

(* Cost.Forward (direction of an edge pair) shadows the search direction of the same name *)
Notation Fwd := RC.Model.Search.Search.Forward.

(* ================================================================== 1. the search loop *)

(* Dijkstra (estimate equivalent to zero), abstract ordered costs, every graph, both directions, every fuel *)
Theorem dijkstra_optimal :
  forall (C St : Type) (clt : C -> C -> bool) (cadd : C -> C -> C) (czero : C) (cfloor : C -> C),
    cost_algebra clt cadd czero -> (forall x, ceq clt (cadd x czero) x) ->
  forall (g : graph) (frontier : nat -> St -> option nat -> res bool)
         (traverse : dir -> nat -> option nat -> St -> res (C * C * St)) (estimate : nat -> nat -> St -> res C)
         (init_state : res St) (terminate : nat -> nat -> option string) (d : dir) (source : nat) (target : option nat)
         (c : nat -> C) (ok : nat -> bool),
    (forall e st prev b, frontier e st prev = Ok b -> b = ok e) ->
    (forall e prev st ac tc st', traverse d e prev st = Ok (ac, tc, st') -> ceq clt (cfloor (cadd ac tc)) (c e)) ->
    (forall a e, ok e = true -> cle clt a (cadd a (c e))) ->
    (forall v t st h, target = Some t -> estimate v t st = Ok h -> ceq clt h czero) ->
  forall fuel t res, target = Some t ->
    run_vertex_oriented clt cadd czero cfloor g frontier traverse estimate init_state terminate fuel d source target = Ok res ->
    exists r, r_routes res = [r]
      /\ permitted_walk g d ok source (map et_edge r) t
      /\ ceq clt (route_cost cadd czero cfloor r) (path_cost cadd czero c (map et_edge r))
      /\ (forall P, permitted_walk g d ok source P t -> cle clt (route_cost cadd czero cfloor r) (path_cost cadd czero c P)).
Proof. exact @dijkstra_optimal_gen. Qed.

(* the route's accumulated cost is the label of the target in the final search state ... *)
Theorem dijkstra_route_cost_is_label :
  forall (C St : Type) (clt : C -> C -> bool) (cadd : C -> C -> C) (czero : C) (cfloor : C -> C),
    cost_algebra clt cadd czero -> (forall x, ceq clt (cadd x czero) x) ->
  forall g frontier traverse estimate (init_state : res St) terminate d source target (c : nat -> C) ok,
    (forall e st prev b, frontier e st prev = Ok b -> b = ok e) ->
    (forall e prev st ac tc st', traverse d e prev st = Ok (ac, tc, st') -> ceq clt (cfloor (cadd ac tc)) (c e)) ->
    (forall a e, ok e = true -> cle clt a (cadd a (c e))) ->
    (forall v t st h, target = Some t -> estimate v t st = Ok h -> ceq clt h czero) ->
  forall fuel t res, target = Some t -> t <> source ->
    run_vertex_oriented clt cadd czero cfloor g frontier traverse estimate init_state terminate fuel d source target = Ok res ->
    exists r s gt, r_routes res = [r]
      /\ run_a_star_state clt cadd czero cfloor g frontier traverse estimate init_state terminate fuel d source target = Ok s
      /\ s_g s !! t = Some gt /\ ceq clt (route_cost cadd czero cfloor r) gt.
Proof. exact @dijkstra_route_label. Qed.

(* ... and the destination-less search (the tree) labels every reachable vertex with at most the cost of every walk to it *)
Theorem dijkstra_tree_labels_optimal :
  forall (C St : Type) (clt : C -> C -> bool) (cadd : C -> C -> C) (czero : C) (cfloor : C -> C),
    cost_algebra clt cadd czero -> (forall x, ceq clt (cadd x czero) x) ->
  forall g frontier traverse estimate (init_state : res St) terminate d source target (c : nat -> C) ok,
    (forall e st prev b, frontier e st prev = Ok b -> b = ok e) ->
    (forall e prev st ac tc st', traverse d e prev st = Ok (ac, tc, st') -> ceq clt (cfloor (cadd ac tc)) (c e)) ->
    (forall a e, ok e = true -> cle clt a (cadd a (c e))) ->
    (forall v t st h, target = Some t -> estimate v t st = Ok h -> ceq clt h czero) ->
  forall fuel s, target = None ->
    run_a_star_state clt cadd czero cfloor g frontier traverse estimate init_state terminate fuel d source target = Ok s ->
    forall P x, permitted_walk g d ok source P x ->
      exists gx, s_g s !! x = Some gx /\ cle clt gx (path_cost cadd czero c P).
Proof. exact @dijkstra_tree_labels. Qed.

(* A-star over Q: estimate = w * h, h consistent in the search direction on permitted edges, 0 <= w <= 1 *)
Theorem astar_optimal :
  forall (St : Type) (cfloor : Q -> Q) (g : graph) (frontier : nat -> St -> option nat -> res bool)
         (traverse : dir -> nat -> option nat -> St -> res (Q * Q * St)) (estimate : nat -> nat -> St -> res Q)
         (init_state : res St) (terminate : nat -> nat -> option string) (d : dir) (source t : nat)
         (c : nat -> Q) (ok : nat -> bool) (h : nat -> Q) (w : Q),
    (forall e st prev b, frontier e st prev = Ok b -> b = ok e) ->
    (forall e prev st ac tc st', traverse d e prev st = Ok (ac, tc, st') -> cfloor (ac + tc) == c e)%Q ->
    (forall e, ok e = true -> 0 <= c e)%Q ->
    (0 <= w /\ w <= 1)%Q ->
    (forall v st x, estimate v t st = Ok x -> x == w * h v)%Q ->
    (forall e ed, get_edge g e = Some ed -> ok e = true -> h (term_vertex d ed) <= c e + h (key_vertex d ed))%Q ->
  forall fuel res,
    run_vertex_oriented Qltb Qplus 0%Q cfloor g frontier traverse estimate init_state terminate fuel d source (Some t) = Ok res ->
    exists r, r_routes res = [r]
      /\ permitted_walk g d ok source (map et_edge r) t
      /\ (route_cost Qplus 0 cfloor r == path_cost Qplus 0 c (map et_edge r))%Q
      /\ (forall P, permitted_walk g d ok source P t -> (route_cost Qplus 0 cfloor r <= path_cost Qplus 0 c P)%Q).
Proof. exact @OptimalInst.astar_optimal. Qed.

(* the same with the consistency of the factor-weighted estimate stated directly (the factor folded into hv) *)
Theorem astar_optimal_weighted_estimate :
  forall (St : Type) (cfloor : Q -> Q) g frontier traverse estimate (init_state : res St) terminate d source t
         (c : nat -> Q) ok (hv : nat -> Q),
    (forall e st prev b, frontier e st prev = Ok b -> b = ok e) ->
    (forall e prev st ac tc st', traverse d e prev st = Ok (ac, tc, st') -> cfloor (ac + tc) == c e)%Q ->
    (forall e, ok e = true -> 0 <= c e)%Q ->
    (forall v st x, estimate v t st = Ok x -> x == hv v)%Q ->
    (forall e ed, get_edge g e = Some ed -> ok e = true -> hv (term_vertex d ed) <= c e + hv (key_vertex d ed))%Q ->
  forall fuel res,
    run_vertex_oriented Qltb Qplus 0%Q cfloor g frontier traverse estimate init_state terminate fuel d source (Some t) = Ok res ->
    exists r, r_routes res = [r]
      /\ permitted_walk g d ok source (map et_edge r) t
      /\ (route_cost Qplus 0 cfloor r == path_cost Qplus 0 c (map et_edge r))%Q
      /\ (forall P, permitted_walk g d ok source P t -> (route_cost Qplus 0 cfloor r <= path_cost Qplus 0 c P)%Q).
Proof. exact @astar_optimal_hv. Qed.

Theorem dijkstra_astar_same_cost :
  forall (St : Type) (cfloor : Q -> Q) g frontier traverse (est_d est_a : nat -> nat -> St -> res Q) (init_state : res St)
         term_d term_a d source t (c : nat -> Q) ok (h : nat -> Q) (w : Q),
    (forall e st prev b, frontier e st prev = Ok b -> b = ok e) ->
    (forall e prev st ac tc st', traverse d e prev st = Ok (ac, tc, st') -> cfloor (ac + tc) == c e)%Q ->
    (forall e, ok e = true -> 0 <= c e)%Q ->
    (0 <= w /\ w <= 1)%Q ->
    (forall v st x, est_d v t st = Ok x -> x == 0)%Q ->
    (forall v st x, est_a v t st = Ok x -> x == w * h v)%Q ->
    (forall e ed, get_edge g e = Some ed -> ok e = true -> h (term_vertex d ed) <= c e + h (key_vertex d ed))%Q ->
  forall fuel1 fuel2 res1 res2 r1 r2,
    run_vertex_oriented Qltb Qplus 0%Q cfloor g frontier traverse est_d init_state term_d fuel1 d source (Some t) = Ok res1 ->
    run_vertex_oriented Qltb Qplus 0%Q cfloor g frontier traverse est_a init_state term_a fuel2 d source (Some t) = Ok res2 ->
    r_routes res1 = [r1] -> r_routes res2 = [r2] ->
    (route_cost Qplus 0 cfloor r1 == route_cost Qplus 0 cfloor r2)%Q.
Proof. exact @OptimalInst.dijkstra_astar_same_cost. Qed.

(* edge-oriented queries: the part of the route between the two query edges (added with zero cost) inherits whatever
   the vertex-oriented algorithm guarantees for its route; instantiate Opt with the conclusions above *)
Theorem edge_oriented_optimal :
  forall (C St : Type) (czero : C) (g : graph) (traverse : dir -> nat -> option nat -> St -> res (C * C * St))
         (init_state : res St) (d : dir) (alg : nat -> option nat -> res (sresult C St))
         (Opt : nat -> nat -> list (etrav C St) -> Prop),
    (forall s t res, alg s (Some t) = Ok res -> exists r, r_routes res = [r] /\ Opt s t r) ->
  forall e1 e2 ed1 ed2 res,
    get_edge g e1 = Some ed1 -> get_edge g e2 = Some ed2 -> e1 <> e2 -> key_vertex d ed1 <> term_vertex d ed2 ->
    run_edge_oriented czero g traverse init_state d alg e1 (Some e2) = Ok res ->
    exists r first last,
      r_routes res = [first :: r ++ [last]]
      /\ et_edge first = e1 /\ et_edge last = e2
      /\ et_access first = czero /\ et_trav first = czero /\ et_access last = czero /\ et_trav last = czero
      /\ Opt (key_vertex d ed1) (term_vertex d ed2) r.
Proof. exact @OptimalInst.edge_oriented_optimal. Qed.

(* The one proof behind both: any priority F v x = cadd x (hv v) with (edge) and (reflect), and ANY queue whose pop
   returns some entry of minimal priority - so the conclusions do not depend on how the queue breaks ties.
   Search.run_vertex_oriented is the instance pop := Search.pq_pop (OptimalInst.run_vertex_link). *)
Definition c02_generic_optimal := @generic_optimal.
Definition c02_generic_route_label := @generic_route_label.
(* (P1) (P2) (P4) + tree facts hold in every state the loop passes through; (P3) no relaxation succeeds on a closed vertex *)
Definition c02_invariants := @reachable_inv.
Definition c02_no_reopen := @no_reopen.

Check dijkstra_optimal.
Check astar_optimal.
Check @c02_generic_optimal :
  forall (C St : Type) (clt : C -> C -> bool) (cadd : C -> C -> C) (czero : C) (cfloor : C -> C),
    cost_algebra clt cadd czero ->
  forall g (frontier : nat -> St -> option nat -> res bool) traverse estimate init_state terminate d source target
         (c : nat -> C) (ok : nat -> bool) (hv : nat -> C),
    (forall e st prev b, frontier e st prev = Ok b -> b = ok e) ->
    (forall e prev st ac tc st', traverse d e prev st = Ok (ac, tc, st') -> ceq clt (cfloor (cadd ac tc)) (c e)) ->
    (forall a e, ok e = true -> cle clt a (cadd a (c e))) ->
    (forall v st h, hof czero estimate target v st = Ok h -> ceq clt h (hv v)) ->
    (forall e ed x, get_edge g e = Some ed -> ok e = true ->
        cle clt (F cadd hv (term_vertex d ed) x) (F cadd hv (key_vertex d ed) (cadd x (c e)))) ->
    (forall v x y, cle clt (F cadd hv v x) (F cadd hv v y) -> cle clt x y) ->
  forall pop : list (nat * C) -> option (nat * C * list (nat * C)),
    (forall q, pop q = None -> q = []) ->
    (forall q v p q', List.NoDup (map fst q) -> pop q = Some (v, p, q') ->
        In (v, p) q /\ (forall v' p', In (v', p') q -> cle clt p p') /\ List.NoDup (map fst q')
        /\ (forall x, In x q' <-> In x q /\ fst x <> v)) ->
  forall fuel t res, target = Some t ->
    run_vertex_oriented_with clt cadd czero cfloor g frontier traverse estimate init_state terminate d source target pop fuel = Ok res ->
    exists r, r_routes res = [r]
      /\ pwalk g d ok source (map et_edge r) t
      /\ ceq clt (rcost cadd cfloor czero r) (pcost cadd c czero (map et_edge r))
      /\ (forall P, pwalk g d ok source P t -> cle clt (rcost cadd cfloor czero r) (pcost cadd c czero P)).

(* ================================================================== 2. the repository's objective *)

(* get_max_speed is the maximum of the speed table *)
Theorem get_max_speed_is_max : forall (tbl : list Q) m, get_max_speed QN tbl = Ok m ->
    In m tbl /\ (forall x, In x tbl -> x <= m)%Q /\ (0 < m)%Q.
Proof. exact get_max_speed_spec. Qed.

(* edge_cost_local: with sum aggregation, non-negative weights, slope-only non-negative rates, non-negative per-edge
   surcharges, no per-turn surcharge and no access model, what an edge is charged is one number per edge *)
Theorem edge_cost_local :
  forall (len : nat -> Q) (cm : cost_model Q) (tm : tmodel QN), cm_agg cm = ASum -> blend_ok (cm_feats cm) ->
  forall d e prev (st : list Q) (ac tc : Q) (st' : list Q),
    traverseR len cm tm d e prev st = Ok (ac, tc, st') -> (floor_pos (ac + tc) == c_edge len cm tm e)%Q.
Proof. exact edge_step_local. Qed.

(* the repo's estimate (great-circle distance, time at max_speed, costed by cost_estimate, times the weight factor) *)
Theorem estimate_value :
  forall (gc : nat -> nat -> Q) (cm : cost_model Q) (tm : tmodel QN) (wf : Q), cm_agg cm = ASum -> blend_ok (cm_feats cm) ->
  forall v t (st : list Q) (x : Q), estimateR gc cm tm wf v t st = Ok x -> (x == h_est gc cm tm t v * wf)%Q.
Proof. exact estimate_cost_value. Qed.

(* estimate_consistent: it satisfies the consistency hypothesis of astar_optimal on metrically consistent networks *)
Theorem estimate_consistent :
  forall (g : graph) (len : nat -> Q) (gc : nat -> nat -> Q) (cm : cost_model Q) (tm : tmodel QN),
    blend_ok (cm_feats cm) -> metric_ok g len gc tm ->
  forall d t e ed, get_edge g e = Some ed ->
    (h_est gc cm tm t (term_vertex d ed) <= c_edge len cm tm e + h_est gc cm tm t (key_vertex d ed))%Q.
Proof. exact ObjectiveP.estimate_consistent. Qed.

(* the rate shapes of the property text are in the class: Zero, Raw, Factor f with f >= 0, Combined of those *)
Theorem rate_shapes_in_class : forall r, vrate_okb r = true -> (0 <= fst (affine r))%Q /\ (snd (affine r) == 0)%Q.
Proof. exact vrate_okb_affine. Qed.

(* end to end, on the model functions of Model/Objective.v *)
Theorem real_dijkstra_optimal :
  forall g (len : nat -> Q) (gc : nat -> nat -> Q) (cm : cost_model Q) (tm : tmodel QN) (init : list Q) terminate,
    cm_agg cm = ASum -> blend_ok (cm_feats cm) ->
  forall fuel d s t res,
    run_vertex_oriented Qltb Qplus 0%Q (enforce_strictly_positive QN) g frontierR (traverseR len cm tm)
      (estimateR gc cm tm 0%Q) (Ok init) terminate fuel d s (Some t) = Ok res ->
    exists r, r_routes res = [r]
      /\ permitted_walk g d all_edges s (map et_edge r) t
      /\ (route_cost Qplus 0 (enforce_strictly_positive QN) r == path_cost Qplus 0 (c_edge len cm tm) (map et_edge r))%Q
      /\ (forall P, permitted_walk g d all_edges s P t ->
            (route_cost Qplus 0 (enforce_strictly_positive QN) r <= path_cost Qplus 0 (c_edge len cm tm) P)%Q).
Proof. exact ObjectiveOpt.real_dijkstra_optimal. Qed.

Theorem real_astar_optimal :
  forall g (len : nat -> Q) (gc : nat -> nat -> Q) (cm : cost_model Q) (tm : tmodel QN) (init : list Q) terminate,
    cm_agg cm = ASum -> blend_ok (cm_feats cm) ->
  forall wf, (0 <= wf /\ wf <= 1)%Q -> metric_ok g len gc tm ->
  forall fuel d s t res,
    run_vertex_oriented Qltb Qplus 0%Q (enforce_strictly_positive QN) g frontierR (traverseR len cm tm)
      (estimateR gc cm tm wf) (Ok init) terminate fuel d s (Some t) = Ok res ->
    exists r, r_routes res = [r]
      /\ permitted_walk g d all_edges s (map et_edge r) t
      /\ (route_cost Qplus 0 (enforce_strictly_positive QN) r == path_cost Qplus 0 (c_edge len cm tm) (map et_edge r))%Q
      /\ (forall P, permitted_walk g d all_edges s P t ->
            (route_cost Qplus 0 (enforce_strictly_positive QN) r <= path_cost Qplus 0 (c_edge len cm tm) P)%Q).
Proof. exact ObjectiveOpt.real_astar_optimal. Qed.

Theorem real_dijkstra_astar_same_cost :
  forall g (len : nat -> Q) (gc : nat -> nat -> Q) (cm : cost_model Q) (tm : tmodel QN) (init : list Q) terminate,
    cm_agg cm = ASum -> blend_ok (cm_feats cm) ->
  forall wf, (0 <= wf /\ wf <= 1)%Q -> metric_ok g len gc tm ->
  forall fuel1 fuel2 d s t res1 res2 r1 r2,
    run_vertex_oriented Qltb Qplus 0%Q (enforce_strictly_positive QN) g frontierR (traverseR len cm tm)
      (estimateR gc cm tm 0%Q) (Ok init) terminate fuel1 d s (Some t) = Ok res1 ->
    run_vertex_oriented Qltb Qplus 0%Q (enforce_strictly_positive QN) g frontierR (traverseR len cm tm)
      (estimateR gc cm tm wf) (Ok init) terminate fuel2 d s (Some t) = Ok res2 ->
    r_routes res1 = [r1] -> r_routes res2 = [r2] ->
    (route_cost Qplus 0 (enforce_strictly_positive QN) r1 == route_cost Qplus 0 (enforce_strictly_positive QN) r2)%Q.
Proof. exact ObjectiveOpt.real_same_cost. Qed.

(* the weights / vehicle rates / aggregation in force for a query: the query's when present, else the configured ones *)
Theorem effective_weights_spec :
  forall (cfg_w : list (string * Q)) cfg_v cfg_n cfg_a ign q_w q_v q_a names (cm : cost_model Q),
    service_build QN cfg_w cfg_v cfg_n cfg_a ign q_w q_v q_a names = Ok cm ->
    new QN (effective q_w cfg_w) (effective q_v cfg_v) cfg_n (effective q_a cfg_a) names = Ok cm.
Proof. exact ObjectiveOpt.effective_weights_spec. Qed.
Theorem query_weights_override :
  forall (cfg_w cfg_w' : list (string * Q)) cfg_v cfg_n cfg_a ign w q_v q_a names,
    service_build QN cfg_w cfg_v cfg_n cfg_a ign (Some w) q_v q_a names
    = service_build QN cfg_w' cfg_v cfg_n cfg_a ign (Some w) q_v q_a names.
Proof. exact ObjectiveOpt.query_weights_override. Qed.
Theorem effective_weights_used :
  forall (cfg_w : list (string * Q)) cfg_v cfg_n cfg_a ign q_w q_v q_a names (cm : cost_model Q),
    service_build QN cfg_w cfg_v cfg_n cfg_a ign q_w q_v q_a names = Ok cm ->
    map fw (cm_feats cm)
    = map (fun nm => match assoc String.eqb (effective q_w cfg_w) nm with Some w => w | None => 0%Q end) names
    /\ cm_agg cm = effective q_a cfg_a.
Proof. exact ObjectiveOpt.effective_weights_used. Qed.

Check real_astar_optimal.
Check estimate_consistent.

(* ================================================================== 3. non-vacuity *)

(* natural numbers are a cost algebra (so are Q - OptimalInst.Q_algebra - and NaN-free doubles) *)
Example nat_algebra : cost_algebra Nat.ltb Nat.add 0 /\ (forall x, ceq Nat.ltb (x + 0) x).
Proof.
  assert (L : forall a b, cle Nat.ltb a b <-> a <= b).
  { intros a b. unfold cle. rewrite Nat.ltb_ge. reflexivity. }
  split; [constructor|].
  - intros a b H. apply Nat.ltb_lt in H. apply Nat.ltb_ge. lia.
  - intros a b c0. rewrite !L. lia.
  - intros a b x. rewrite !L. lia.
  - intros a x y. rewrite !L. lia.
  - intros x. split; apply L; lia.
  - intros x. split; apply L; lia.
Qed.

(* a diamond with a decrease-key: 0->1 (1), 0->2 (4), 1->2 (1), 2->3 (1), 3->0 (1).  Dijkstra over nat returns
   [e0; e2; e3] (cost 3), forward; the hypotheses of dijkstra_optimal hold for this instance *)
Definition ex_graph : graph := mkGraph 4 [mkEdge 0 1; mkEdge 0 2; mkEdge 1 2; mkEdge 2 3; mkEdge 3 0].
Definition ex_cost (e : nat) : nat := nth e [1; 4; 1; 1; 1] 0.
Definition ex_trav (d : dir) (e : nat) (prev : option nat) (st : unit) : res (nat * nat * unit) :=
  Ok (match prev with None => 0 | Some _ => 0 end, ex_cost e, tt).
Example dijkstra_nonvacuous :
  exists res, run_vertex_oriented Nat.ltb Nat.add 0 (fun x => x) ex_graph (fun _ _ _ => Ok true) ex_trav
                (fun _ _ _ => Ok 0) (Ok tt) (fun _ _ => None) 50 Fwd 0 (Some 3) = Ok res
              /\ map (map et_edge) (r_routes res) = [[0; 2; 3]]
              /\ map (route_cost Nat.add 0 (fun x => x)) (r_routes res) = [3].
Proof. eexists. split; [vm_compute; reflexivity|]. split; reflexivity. Qed.
Example dijkstra_hypotheses_hold :
  (forall (e : nat) (st : unit) (prev : option nat) b, (fun (_ : nat) (_ : unit) (_ : option nat) => Ok true) e st prev = Ok b -> b = true)
  /\ (forall e prev st ac tc st', ex_trav Fwd e prev st = Ok (ac, tc, st') -> ceq Nat.ltb (ac + tc) (ex_cost e))
  /\ (forall a e, cle Nat.ltb a (a + ex_cost e)).
Proof.
  split; [intros; congruence|]. split.
  - intros e prev st ac tc st' H. unfold ex_trav in H. injection H as <- <- _.
    destruct prev; split; unfold cle; apply Nat.ltb_ge; lia.
  - intros a e. unfold cle. apply Nat.ltb_ge. lia.
Qed.

(* A-star over Q on the same diamond with h = true remaining distance [3;2;1;0], factor 1/2: consistent *)
Definition ex_h (v : nat) : Q := nth v [3; 2; 1; 0]%Q 0%Q.
Definition ex_costQ (e : nat) : Q := inject_Z (Z.of_nat (ex_cost e)).
Example astar_consistent_nonvacuous :
  forallb (fun e => match get_edge ex_graph e with
                    | Some ed => Qle_bool (ex_h (esrc ed)) (ex_costQ e + ex_h (edst ed))
                    | None => true end) [0; 1; 2; 3; 4] = true.
Proof. vm_compute. reflexivity. Qed.
Example astar_nonvacuous :
  exists res, run_vertex_oriented Qltb Qplus 0%Q (fun x => x) ex_graph (fun _ _ _ => Ok true)
                (fun _ e _ (_ : unit) => Ok (0%Q, ex_costQ e, tt))
                (fun v _ _ => Ok ((1 # 2) * ex_h v)%Q) (Ok tt) (fun _ _ => None) 50 Fwd 0 (Some 3) = Ok res
              /\ map (map et_edge) (r_routes res) = [[0; 2; 3]].
Proof. eexists. split; [vm_compute; reflexivity|]. reflexivity. Qed.

(* the repo's objective on a two-edge road 0 -> 1 -> 2: speed-table model (km/h table, engine in miles / minutes,
   features stored in kilometers / hours), weights time 1 distance 1/2, rates Factor 3 / Raw, a surcharge on edge 1;
   vertices 1000 m apart on a line, edges 1200 m long: the hypotheses of real_astar_optimal hold ... *)
Definition ex_road : graph := mkGraph 3 [mkEdge 0 1; mkEdge 1 2].
Definition ex_len (e : nat) : Q := 1200%Q.
Definition ex_gc (a b : nat) : Q := inject_Z (Z.abs (Z.of_nat a - Z.of_nat b) * 1000).
Definition ex_tm : tmodel QN :=
  TSpeed (mkSm (N:=QN) [50%Q; 30%Q] KilometersPerHour Miles Minutes 50%Q 1 Kilometers 0 Hours).
Definition ex_cm : cost_model Q :=
  Build_cost_model [Build_feat 1%Q (VFactor 3%Q) NZero; Build_feat (1 # 2)%Q VRaw (NEdge [(1%Z, 7%Q)])] ASum.
Example real_hypotheses_nonvacuous :
  cm_agg ex_cm = ASum /\ blend_ok (cm_feats ex_cm) /\ metric_ok ex_road ex_len ex_gc ex_tm
  /\ get_max_speed QN [50%Q; 30%Q] = Ok 50%Q.
Proof.
  split; [reflexivity|]. split.
  - constructor; [|constructor; [|constructor]]; unfold feat_ok; cbn [fw fv fn affine fst snd edge_fee turn_fee].
    + repeat split; try lra; try reflexivity; intros; lra.
    + split; [lra|]. split; [lra|]. split; [reflexivity|]. split; [|intros; reflexivity].
      intros e. unfold assoc. cbn [find fst snd]. destruct (Z.eqb 1 e); cbn [snd]; lra.
  - split; [|reflexivity]. constructor.
    + intros a b. unfold ex_gc. change 0%Q with (inject_Z 0). rewrite <- Zle_Qle. lia.
    + intros a b. unfold ex_gc. apply inject_Z_injective. lia.
    + intros a b c0. unfold ex_gc. rewrite <- inject_Z_plus, <- Zle_Qle. lia.
    + intros e ed He. destruct e as [|[|e]]; cbn in He; [| |destruct e; discriminate]; injection He as <-; vm_compute; discriminate.
    + intros e ed He. destruct e as [|[|e]]; cbn in He; [| |destruct e; discriminate]; split; vm_compute; congruence.
Qed.
(* ... and A-star (factor 1) and Dijkstra run on it and return the route [e0; e1] *)
Example real_runs_nonvacuous :
  forall wf, In wf [0%Q; 1%Q] ->
  exists res, run_vertex_oriented Qltb Qplus 0%Q (enforce_strictly_positive QN) ex_road frontierR (traverseR ex_len ex_cm ex_tm)
                (estimateR ex_gc ex_cm ex_tm wf) (Ok [0%Q; 0%Q]) (fun _ _ => None) 20 Fwd 0 (Some 2) = Ok res
              /\ map (map et_edge) (r_routes res) = [[0; 1]].
Proof. intros wf [<-|[<-|[]]]; eexists; (split; [vm_compute; reflexivity|reflexivity]). Qed.

(* ================================================================== 4. outside the hypothesis: product aggregation *)
(* cost_aggregation = mul is not a "weighted blend": the product of two lower bounds over a two-edge route is not a
   lower bound of the sum of the per-edge products.  Two 1000 m edges at 10 m/s, weights 1/1, raw rates:
   each edge costs 100 s * 1000 m = 100000, the route 200000, but the estimate from the origin is 200 * 2000 = 400000.
   (Recorded as an observation; real_astar_optimal requires sum aggregation.) *)
Definition ex_mul_tm : tmodel QN := TSpeed (mkSm (N:=QN) [10%Q; 10%Q] MetersPerSecond Meters Seconds 10%Q 1 Meters 0 Seconds).
Definition ex_mul_cm : cost_model Q := Build_cost_model [Build_feat 1%Q VRaw NZero; Build_feat 1%Q VRaw NZero] AMul.
Example mul_aggregation_estimate_inadmissible :
  exists a0 c0 st1 a1 c1 st2 h,
    traverseR (fun _ => 1000%Q) ex_mul_cm ex_mul_tm Fwd 0 None [0%Q; 0%Q] = Ok (a0, c0, st1)
    /\ traverseR (fun _ => 1000%Q) ex_mul_cm ex_mul_tm Fwd 1 (Some 0) st1 = Ok (a1, c1, st2)
    /\ estimateR (fun _ _ => 2000%Q) ex_mul_cm ex_mul_tm 1%Q 0 2 [0%Q; 0%Q] = Ok h
    /\ ((a0 + c0) + (a1 + c1) == 200000)%Q /\ (h == 400000)%Q.
Proof.
  do 7 eexists. split; [vm_compute; reflexivity|]. split; [vm_compute; reflexivity|].
  split; [vm_compute; reflexivity|]. split; vm_compute; reflexivity.
Qed.

(* ================================================================== 5. the checker behind the S lines of the streams *)
(* The correspondence streams judge the IMPLEMENTATION's routes with OR.check_opt / OR.check_nopath (Model/ObjectiveRun.v):
   Bellman-Ford potentials are computed in Coq but not trusted - only their feasibility is checked, and feasible
   potentials are lower bounds of every permitted walk. *)
Theorem check_opt_sound :
  forall g d ok (c : nat -> Q) (tol : Q) s t r, (0 <= tol)%Q -> OR.check_opt g d ok c tol s t r = None ->
    permitted_walk g d ok s r t
    /\ forall P, permitted_walk g d ok s P t -> (OR.cost_of c r <= OR.cost_of c P * (1 + tol))%Q.
Proof. exact OptimalCheck.check_opt_sound. Qed.
Theorem check_nopath_sound :
  forall g d ok (c : nat -> Q) s t, OR.check_nopath g d ok c s t = None -> forall P, ~ permitted_walk g d ok s P t.
Proof. exact OptimalCheck.check_nopath_sound. Qed.

Print Assumptions dijkstra_optimal.
Print Assumptions check_opt_sound.
Print Assumptions check_nopath_sound.
Print Assumptions dijkstra_route_cost_is_label.
Print Assumptions dijkstra_tree_labels_optimal.
Print Assumptions astar_optimal.
Print Assumptions astar_optimal_weighted_estimate.
Print Assumptions dijkstra_astar_same_cost.
Print Assumptions edge_oriented_optimal.
Print Assumptions c02_generic_optimal.
Print Assumptions c02_generic_route_label.
Print Assumptions c02_invariants.
Print Assumptions c02_no_reopen.
Print Assumptions get_max_speed_is_max.
Print Assumptions edge_cost_local.
Print Assumptions estimate_value.
Print Assumptions estimate_consistent.
Print Assumptions rate_shapes_in_class.
Print Assumptions real_dijkstra_optimal.
Print Assumptions real_astar_optimal.
Print Assumptions real_dijkstra_astar_same_cost.
Print Assumptions effective_weights_spec.
Print Assumptions query_weights_override.
Print Assumptions effective_weights_used.
Print Assumptions mul_aggregation_estimate_inadmissible.
