(* C03 - along every returned route the reported quantities are the true sums: distance = sum of the edge lengths, time =
   sum of length / table speed + the configured delay of every turn actually taken (classified from the headings of the
   two edges), each edge's reported cost = the cost function applied to that edge's change of state, the summary = the
   state after the last edge; in the configured output units, from the declared initial state; never decreasing.

   Scope of this file (phase 1): a route is an ARBITRARY edge sequence traversed edge after edge with
   EdgeTraversal::forward_traversal / reverse_traversal -- which is how a search tree grows a branch and how
   reorient_reverse_route rebuilds the reverse half of a single-via alternative.  [chain] is the invariant a tree
   branch satisfies when no label is replaced after its children were created (C02 proves that premise for Dijkstra
   and for A* with a consistent estimate; D-REOPEN / K_reopen is the known exception).  The by-design zero cost of
   the origin and destination edges of an edge-oriented query belongs to the search wrapper (not in this file).
   Everything about arithmetic is about the exact-rational instance QN of the model; the binary64 instance is tied
   bit for bit to the Rust code by the correspondence stream.

   Only statements: each theorem is closed by [exact] of a lemma of Proofs/, pinned, and followed by Print Assumptions. *)
From Coq Require Import ZArith QArith Qabs List String Bool.
From RC Require Import Base.Num Base.Res Model.Units Model.UnitsRun Model.StateOps Model.Traversal Model.TraversalSpec
  Model.Cost Model.TraversalRun Proofs.Units Proofs.StateOps Proofs.TraversalWalk Proofs.Traversal Proofs.TraversalExample.
Import ListNotations.
Import Units StateOps Traversal TSpec.
Local Open Scope Q_scope.

(* ---- 1. the reported states are the fold of (access ; traverse) along the route, the summary is the last one ---- *)
(* for every number type, every graph / traversal / access / cost model, both orientations *)
Theorem c03_route_state_is_fold : forall (N : Num) (inst : instance N) (o : option nat) (st : list N) (l : list (etrav N)),
  (chain N (forward_traversal N inst) o st l <-> run_forward N inst o st (map et_edge l) = Ok l)
  /\ (chain N (reverse_traversal N inst) o st l <-> run_reverse N inst o st (map et_edge l) = Ok l).
Proof.
  intros N inst o st l. split.
  - exact (chain_iff_walk N _ l o st).
  - exact (chain_iff_walk N _ l o st).
Qed.

(* the first k reported elements are the route along the first k edges; the k-th state is where that prefix ends *)
Theorem c03_route_prefix : forall (N : Num) (inst : instance N) (o : option nat) (st : list N) es l k,
  run_forward N inst o st es = Ok l ->
  run_forward N inst o st (firstn k es) = Ok (firstn k l)
  /\ map et_edge l = es
  /\ (forall et, nth_error l k = Some et -> end_state N st (firstn (S k) l) = et_state et).
Proof.
  intros N inst o st es l k H. split; [exact (walk_prefix N _ es o st l k H)|]. split.
  - exact (walk_edges N _ (forward_traversal_edge N inst) es o st l H).
  - intros et Hk. exact (walk_nth_state N _ es o st l k et H Hk).
Qed.

Theorem c03_summary_is_last_state : forall (N : Num) (inst : instance N) (l : list (etrav N)) (et : etrav N),
  traversal_summary N inst (l ++ [et]) = Ok (serialize_state (i_sm inst) (et_state et)).
Proof. exact summary_is_last_state. Qed.

(* ---- 2. distance and time are the declared initial value + the true sums, in the feature's unit ---- *)
(* every edge sequence of any length, both orientations, every speed / heading / turn-delay table, every unit
   configuration; [step inst Forward] is forward_traversal, [step inst Reverse] is reverse_traversal *)
Theorem c03_distance_and_time_sums : forall inst i_d i_t fu_d fu_t d0 t0,
  configured inst i_d i_t fu_d fu_t d0 t0 ->
  forall d es l k et,
    walk QN (step inst d) None (initial_state (i_sm inst)) es = Ok l ->
    nth_error l k = Some et ->
    slot (et_state et) i_d == d0 + sum_len inst (firstn (S k) es) * Kd inst fu_d
    /\ slot (et_state et) i_t == t0 + sum_len_over_speed inst (firstn (S k) es) * Kt inst fu_t
                                    + sum_delay inst d None (firstn (S k) es) * Kdelay inst fu_t
    /\ (forall j, j <> i_d -> j <> i_t -> slot (et_state et) j = slot (initial_state (i_sm inst)) j).
Proof. exact route_sums. Qed.

(* each length is converted once; by linearity the sum of the converted lengths is the converted sum *)
Theorem c03_converted_once : forall inst fu_d fu_t d es o,
  sum_dist inst fu_d es
  == convert_distance QN (model_du inst) fu_d (convert_distance QN base_distance_unit (model_du inst) (sum_len inst es))
  /\ sum_dist inst fu_d es == sum_len inst es * Kd inst fu_d
  /\ sum_time inst fu_t d o es
     == sum_len_over_speed inst es * Kt inst fu_t + sum_delay inst d o es * Kdelay inst fu_t
  /\ (forall e, delay_inc inst fu_t (pair_of d e None) == 0).
Proof.
  intros inst fu_d fu_t d es o. split; [exact (sum_dist_linear inst fu_d es)|]. split; [exact (sum_dist_closed inst fu_d es)|].
  split; [exact (sum_time_closed inst fu_t d es o) | exact (first_edge_no_delay inst fu_t d)].
Qed.

(* the unit constants are the exact SI ones within the accuracy C09 grants the conversion table *)
Theorem c03_units_physical : forall su du tu fu_d fu_t u,
  Qabs (kd_of du fu_d - 1 / UnitsRun.si_distance fu_d) <= tol_d * Qabs (1 / UnitsRun.si_distance fu_d)
  /\ Qabs (kt_of su du tu fu_t - 1 / UnitsRun.si_speed su / UnitsRun.si_time fu_t)
     <= tol_t * Qabs (1 / UnitsRun.si_speed su / UnitsRun.si_time fu_t)
  /\ Qabs (k_time u fu_t - UnitsRun.si_time u / UnitsRun.si_time fu_t)
     <= UnitsRun.tol * Qabs (UnitsRun.si_time u / UnitsRun.si_time fu_t).
Proof.
  intros su du tu fu_d fu_t u. split; [exact (Kd_physical du fu_d)|]. split; [exact (Kt_physical su du tu fu_t) | exact (Kdelay_physical u fu_t)].
Qed.

(* ---- 3. distance and time never decrease along a route ---- *)
Theorem c03_monotone : forall inst i_d i_t fu_d fu_t d0 t0,
  configured inst i_d i_t fu_d fu_t d0 t0 -> nonneg_tables inst ->
  forall d es l,
    walk QN (step inst d) None (initial_state (i_sm inst)) es = Ok l ->
    forall k a b,
      nth_error (initial_state (i_sm inst) :: map et_state l) k = Some a ->
      nth_error (initial_state (i_sm inst) :: map et_state l) (S k) = Some b ->
      slot a i_d <= slot b i_d /\ slot a i_t <= slot b i_t.
Proof. exact route_monotone. Qed.

(* ---- 4. turn classification: total and single-valued on headings 0..359 x 0..359 (finite sweep, 129600 pairs) ---- *)
Theorem c03_turn_classification_total : forall h1 h2 d1 d2,
  (0 <= h1 < 360)%Z -> (0 <= h2 < 360)%Z ->
  exists a t,
    bearing_to_destination (Build_heading d1 (Some h1)) (Build_heading h2 d2) = Ok a
    /\ (-180 <= a <= 180)%Z
    /\ rows_matching a = 1%nat
    /\ from_angle a = Ok t
    /\ t = spec_turn h1 h2.
Proof. exact turn_classification. Qed.

(* ---- 5. each edge's reported cost is the cost function applied to that edge's change of state ---- *)
(* for ANY cost functions; a first edge carries no access cost *)
Theorem c03_edge_cost_is_delta : forall inst d e o st et,
  step inst d e o st = Ok et ->
  exists total, cf_edge (i_cost inst) (pair_of d e o) e st (et_state et) = Ok total
                /\ et_access et + et_trav et == total
                /\ (o = None -> et_access et = 0).
Proof. exact step_costs. Qed.

(* with the cost model of C07: the reported pair adds up to CostModel::edge_cost of (state before, state after) *)
Theorem c03_edge_cost_c07 : forall (cm : Cost.cost_model Q) g sm tm am d e o st et,
  step (Build_instance g sm tm am (TR.cost_fns_of QN cm)) d e o st = Ok et ->
  exists total, Cost.edge_cost QN cm (option_map TR.zpair (pair_of d e o)) (Z.of_nat e) st (et_state et) = Ok total
                /\ et_access et + et_trav et == total.
Proof.
  intros cm g sm tm am d e o st et H. destruct (step_costs _ d e o st et H) as (total & Ht & Hs & _).
  exists total. split; [exact Ht | exact Hs].
Qed.

(* ---- 6. single-via alternatives: the re-oriented reverse half continues the forward half ---- *)
Theorem c03_via_route_reoriented : forall (N : Num) (inst : instance N) es fwd rev_route via,
  run_forward N inst None (initial_state (i_sm inst)) es = Ok fwd ->
  reorient_reverse_route N inst fwd rev_route = Ok via ->
  run_forward N inst None (initial_state (i_sm inst)) (es ++ rev (map et_edge rev_route)) = Ok (fwd ++ via).
Proof. exact via_route_is_walk. Qed.


(* ---- 7. edge-oriented queries: the origin and destination edges are reported with zero cost and unchanged state ---- *)
(* (the composition run_edge_oriented applies to EVERY route of a result; the inner edges are an ordinary route) *)
Theorem c03_edge_oriented_ends_zero : forall (N : Num) (inst : instance N) s t (inner : list (etrav N)) (e : etrav N) r,
  compose_edge_oriented N inst s t (inner ++ [e]) = Ok r ->
  r = Build_etrav s zero zero (initial_state (i_sm inst)) :: (inner ++ [e]) ++ [Build_etrav t zero zero (et_state e)]
  /\ traversal_summary N inst r = Ok (serialize_state (i_sm inst) (et_state e)).
Proof. exact edge_oriented_ends. Qed.

(* ---- statement pins ---- *)
Check c03_route_state_is_fold : forall (N : Num) (inst : instance N) (o : option nat) (st : list N) (l : list (etrav N)),
  (chain N (forward_traversal N inst) o st l <-> run_forward N inst o st (map et_edge l) = Ok l)
  /\ (chain N (reverse_traversal N inst) o st l <-> run_reverse N inst o st (map et_edge l) = Ok l).
Check c03_distance_and_time_sums : forall inst i_d i_t fu_d fu_t d0 t0,
  configured inst i_d i_t fu_d fu_t d0 t0 ->
  forall d es l k et,
    walk QN (step inst d) None (initial_state (i_sm inst)) es = Ok l ->
    nth_error l k = Some et ->
    slot (et_state et) i_d == d0 + sum_len inst (firstn (S k) es) * Kd inst fu_d
    /\ slot (et_state et) i_t == t0 + sum_len_over_speed inst (firstn (S k) es) * Kt inst fu_t
                                    + sum_delay inst d None (firstn (S k) es) * Kdelay inst fu_t
    /\ (forall j, j <> i_d -> j <> i_t -> slot (et_state et) j = slot (initial_state (i_sm inst)) j).
Check c03_monotone : forall inst i_d i_t fu_d fu_t d0 t0,
  configured inst i_d i_t fu_d fu_t d0 t0 -> nonneg_tables inst ->
  forall d es l,
    walk QN (step inst d) None (initial_state (i_sm inst)) es = Ok l ->
    forall k a b,
      nth_error (initial_state (i_sm inst) :: map et_state l) k = Some a ->
      nth_error (initial_state (i_sm inst) :: map et_state l) (S k) = Some b ->
      slot a i_d <= slot b i_d /\ slot a i_t <= slot b i_t.
Check c03_edge_cost_is_delta : forall inst d e o st et,
  step inst d e o st = Ok et ->
  exists total, cf_edge (i_cost inst) (pair_of d e o) e st (et_state et) = Ok total
                /\ et_access et + et_trav et == total
                /\ (o = None -> et_access et = 0).
Check c03_via_route_reoriented : forall (N : Num) (inst : instance N) es fwd rev_route via,
  run_forward N inst None (initial_state (i_sm inst)) es = Ok fwd ->
  reorient_reverse_route N inst fwd rev_route = Ok via ->
  run_forward N inst None (initial_state (i_sm inst)) (es ++ rev (map et_edge rev_route)) = Ok (fwd ++ via).

(* ---- non-vacuity: a concrete configuration meets every hypothesis and produces a route ---- *)
(* 3 edges; speed model km/h over kilometres and minutes; features: time in seconds (slot 1), distance in miles (slot 2)
   behind an energy feature; turn delays in seconds; weights 1, raw rates *)
Example c03_nonvacuous :
  configured ex_inst 2 1 Miles Seconds 0 0
  /\ nonneg_tables ex_inst
  /\ (exists l, walk QN (step ex_inst Forward) None (initial_state (i_sm ex_inst)) [0; 1; 2]%nat = Ok l
                /\ List.length l = 3%nat
                /\ (exists et, nth_error l 2 = Some et /\ 0 < slot (et_state et) 2 /\ 0 < slot (et_state et) 1))
  /\ step ex_inst Forward = forward_traversal QN ex_inst.
Proof. exact ex_nonvacuous. Qed.

Print Assumptions c03_route_state_is_fold.
Print Assumptions c03_route_prefix.
Print Assumptions c03_summary_is_last_state.
Print Assumptions c03_distance_and_time_sums.
Print Assumptions c03_converted_once.
Print Assumptions c03_units_physical.
Print Assumptions c03_monotone.
Print Assumptions c03_turn_classification_total.
Print Assumptions c03_edge_cost_is_delta.
Print Assumptions c03_edge_cost_c07.
Print Assumptions c03_via_route_reoriented.
Print Assumptions c03_nonvacuous.
Print Assumptions c03_edge_oriented_ends_zero.
