(* C04 - no returned route or search-tree entry uses an edge outside the query's allowed road classes, an edge
   whose vehicle restrictions the query's vehicle exceeds (compared after unit conversion), or an edge cut by an
   alternative-route search; no route contains two consecutive edges listed as a restricted turn; a combined
   model permits an edge only if every inner model does.

   Part 1: what the concrete frontier models decide (Model/Frontier.v).
   Part 2: what the search does with a frontier model's decisions (Model/Search.v), for EVERY graph, frontier /
           traverse / estimate / terminate function, cost type (no hypothesis on costs), direction and fuel.
   The unchanged code violates the property on four classes of inputs (known_findings.json); the theorems are
   stated outside these classes ([~K -> P], the classes are booleans of Model/FrontierReopen.v) and each class
   that Model/Search.v can express has a witness evaluated by vm_compute and replayed on the implementation
   (corpus/C04):
     K_reopen        the run re-opens a vertex (A-star, inconsistent estimate): a child keeps the turn check made
                     against its parent's old entry                         -> c04_turn_leaks_witness
     K_reverse_turn  reverse search: the frontier model is shown (later edge, earlier edge), so a restricted turn
                     is looked up swapped                                    -> c04_reverse_turn_witness
     K_query_edges   the edge-oriented wrapper never shows the query's own origin / destination edge (nor the
                     junction turns) to the frontier model                  -> c04_query_edges_witness
     K_ksp_turn      single-via KSP glues a forward and a reverse half: implementation side only (no KSP model here)
   The edge clauses (class, vehicle, cut, conjunction) hold on every run of run_a_star / run_vertex_oriented, both
   directions, without exception.

   This file contains only statements: each theorem is closed by [exact] of a lemma proved in Proofs/. *)
From Coq Require Import List Arith Bool String ZArith QArith.
From stdpp Require Import gmap.
From RC Require Import Base.Num Base.Res Model.Units Model.Frontier Model.Search Model.FrontierReopen
                       Proofs.Frontier Proofs.FrontierSearch Proofs.FrontierInstances.
Import ListNotations.
Import Units Frontier Search FrontierReopen.
Local Open Scope list_scope.

(* ===================================================================================== part 1: the models *)
Section Models.
  Variable N : Num.
  Notation vf := (valid_frontier N).

  (* combined models, any number of inner models: permitted iff every inner model permits *)
  Theorem c04_combined_permits_iff_all : forall l e prev,
    vf (Combined N l) e prev = Ok true <-> Forall (fun m => vf m e prev = Ok true) l.
  Proof. exact (combined_true_iff N). Qed.
  (* refused iff some inner model refuses and all before it permit (the early false) *)
  Theorem c04_combined_refuses_iff_some : forall l e prev,
    vf (Combined N l) e prev = Ok false <->
    exists l1 m l2, l = l1 ++ m :: l2 /\ Forall (fun m' => vf m' e prev = Ok true) l1 /\ vf m e prev = Ok false.
  Proof. exact (combined_false_iff N). Qed.
  Theorem c04_combined_is_conjunction : forall l e prev,
    Forall (fun m => exists b, vf m e prev = Ok b) l ->
    vf (Combined N l) e prev = Ok (forallb (fun m => permits N m e prev) l).
  Proof. exact (combined_is_conjunction N). Qed.

  (* road class, vehicle restriction, edge cut and any conjunction of them depend only on the edge: not on the
     previous edge, and no model reads the traversal state *)
  Theorem c04_edge_local_models_ignore_state : forall m, edge_local N m = true ->
    forall (St : Type) e (st st' : St) p p', as_frontier N m e st p = as_frontier N m e st' p'.
  Proof. intros m Hm St e st st' p p'. exact (edge_local_ignores_prev N m Hm e p p'). Qed.

  (* the turn model refuses exactly the listed (previous edge, edge) pairs; the first edge of a search is free *)
  Theorem c04_turn_model_spec : forall pairs e prev,
    exists b, vf (Turn pairs) e prev = Ok b /\ (b = false <-> exists p, prev = Some p /\ In (p, e) pairs).
  Proof. exact (turn_model_spec N). Qed.

  (* a cut edge is refused whatever the wrapped model says *)
  Theorem c04_edge_cut_spec : forall cut under e prev,
    vf (EdgeCut N cut under) e prev = Ok true <-> ~ In e cut /\ vf under e prev = Ok true.
  Proof. exact (edge_cut_true N). Qed.

  (* the road class model permits an edge iff the query names no classes or names the edge's class *)
  Theorem c04_road_class_spec : forall lookup allowed e prev b,
    vf (RoadClass lookup allowed) e prev = Ok b ->
    b = true <-> (allowed = None \/ exists classes c, allowed = Some classes /\ nth_error lookup e = Some c /\ In c classes).
  Proof. exact (road_class_spec N). Qed.

  (* the vehicle model permits an edge iff every restriction row of the edge is satisfied *)
  Theorem c04_vehicle_model_spec : forall rows vp e prev,
    vf (Vehicle N rows vp) e prev = Ok true <-> forall r, In (e, r) rows -> valid N r vp = true.
  Proof. exact (vehicle_model_spec N). Qed.
End Models.

(* each of the six restriction kinds compares the vehicle's quantity, converted to the restriction's unit by the
   exact factor of the conversion table, with the limit; per axle = total weight / number of axles *)
Theorem c04_vehicle_valid_spec : forall (r : restriction QN) (vp : vparams QN),
  valid QN r vp = true <->
  match r with
  | MaximumTotalWeight _ lim u => (fst (vp_total_weight QN vp) * k_weight (snd (vp_total_weight QN vp)) u <= lim)%Q
  | MaximumWeightPerAxle _ lim u =>
      (fst (vp_total_weight QN vp) * k_weight (snd (vp_total_weight QN vp)) u / inject_Z (Z.of_nat (vp_axles QN vp)) <= lim)%Q
  | MaximumLength _ lim u => (fst (vp_total_length QN vp) * k_dist (snd (vp_total_length QN vp)) u <= lim)%Q
  | MaximumWidth _ lim u => (fst (vp_width QN vp) * k_dist (snd (vp_width QN vp)) u <= lim)%Q
  | MaximumHeight _ lim u => (fst (vp_height QN vp) * k_dist (snd (vp_height QN vp)) u <= lim)%Q
  | MaximumTrailerLength _ lim u => (fst (vp_trailer_length QN vp) * k_dist (snd (vp_trailer_length QN vp)) u <= lim)%Q
  end.
Proof. exact vehicle_valid_spec. Qed.

(* ===================================================================================== part 2: the search *)
Section SearchLevel.
  Context {C St : Type}.
  Variable clt : C -> C -> bool.
  Variable cadd : C -> C -> C.
  Variable czero : C.
  Variable cfloor : C -> C.
  Variable g : graph.
  Variable frontier : nat -> St -> option nat -> res bool.
  Variable traverse : dir -> nat -> option nat -> St -> res (C * C * St).
  Variable estimate : nat -> nat -> St -> res C.
  Variable init_state : res St.
  Variable terminate : nat -> nat -> option string.

  Notation relax := (relax clt cadd czero cfloor g frontier traverse estimate).
  Notation run_a_star := (run_a_star clt cadd czero cfloor g frontier traverse estimate init_state terminate).
  Notation run_vertex_oriented := (run_vertex_oriented clt cadd czero cfloor g frontier traverse estimate init_state terminate).
  Notation run_edge_oriented := (run_edge_oriented czero g traverse init_state).
  Notation no_reopen := (no_reopen clt cadd czero cfloor g frontier traverse estimate init_state terminate).
  Notation edge_of b := (et_edge (b_et b)).

  (* a relaxation writes a tree entry only for an edge the frontier model accepted with the state and the
     previous edge current at that moment *)
  Theorem c04_insertion_is_checked : forall d target cur last s eid s',
    relax d target cur last s eid = Ok s' ->
    forall v b, s_tree s' !! v = Some b ->
      s_tree s !! v = Some b \/ (edge_of b = eid /\ frontier eid cur last = Ok true).
  Proof. exact (relax_insertion_admitted clt cadd czero cfloor g frontier traverse estimate). Qed.

  (* every entry of the tree run_a_star returns was accepted by the frontier model *)
  Theorem c04_tree_edges_admitted : forall fuel d source target tr it,
    run_a_star fuel d source target = Ok (tr, it) ->
    forall v b, tr !! v = Some b -> exists st prev, frontier (edge_of b) st prev = Ok true.
  Proof.
    intros fuel d source target tr it H.
    exact (run_a_star_tree clt cadd czero cfloor g frontier traverse estimate init_state terminate
             (fun e => exists st prev, frontier e st prev = Ok true) (fun e st prev Hf => ex_intro _ st (ex_intro _ prev Hf))
             fuel d source target tr it H).
  Qed.

  (* whatever every accepted edge satisfies ([ok]: allowed class, restrictions met, not cut, any conjunction),
     every tree entry and every route edge satisfies; the edge-oriented wrapper adds the query's own origin and
     destination edges, which the code never shows to the frontier model *)
  Section EdgeLocal.
    Variable ok : nat -> bool.
    Hypothesis Hok : forall e st prev, frontier e st prev = Ok true -> ok e = true.

    Theorem c04_edge_local_never_leaks_tree : forall fuel d source target tr it,
      run_a_star fuel d source target = Ok (tr, it) -> forall v b, tr !! v = Some b -> ok (edge_of b) = true.
    Proof. exact (run_a_star_tree clt cadd czero cfloor g frontier traverse estimate init_state terminate (fun e => ok e = true) Hok). Qed.

    Theorem c04_edge_local_never_leaks_vertex_oriented : forall fuel d source target r,
      run_vertex_oriented fuel d source target = Ok r ->
      (forall tr, In tr (r_trees r) -> forall v b, tr !! v = Some b -> ok (edge_of b) = true) /\
      (forall rt, In rt (r_routes r) -> forall et, In et rt -> ok (et_edge et) = true).
    Proof. exact (run_vertex_oriented_all clt cadd czero cfloor g frontier traverse estimate init_state terminate (fun e => ok e = true) Hok). Qed.

    Theorem c04_edge_local_never_leaks_edge_oriented : forall fuel d source target r,
      run_edge_oriented d (run_vertex_oriented fuel d) source target = Ok r ->
      (forall tr, In tr (r_trees r) -> forall v b, tr !! v = Some b ->
         K_query_edge source target (edge_of b) = false -> ok (edge_of b) = true) /\
      (forall rt, In rt (r_routes r) -> forall et, In et rt ->
         K_query_edge source target (et_edge et) = false -> ok (et_edge et) = true).
    Proof.
      intros fuel d source target r H.
      exact (run_edge_oriented_outside_K czero g traverse init_state (fun e => ok e = true) d (run_vertex_oriented fuel d) source target r
               (fun s t r' => run_vertex_oriented_all clt cadd czero cfloor g frontier traverse estimate init_state terminate (fun e => ok e = true) Hok fuel d s t r') H).
    Qed.
  End EdgeLocal.

  (* restricted turns: if the frontier model refuses restricted (previous edge, edge) pairs and the run never
     re-opens a vertex, no route has a restricted consecutive pair (pairs in the order the search traversed them) *)
  Theorem c04_turn_never_leaks_no_reopen : forall (restricted : nat -> nat -> bool),
    (forall e st p, frontier e st (Some p) = Ok true -> restricted p e = false) ->
    forall fuel d source target r,
      run_vertex_oriented fuel d source target = Ok r -> no_reopen fuel d source target = true ->
      forall rt, In rt (r_routes r) -> pairs_ok restricted (map (@et_edge C St) rt).
  Proof. exact (run_vertex_oriented_turn clt cadd czero cfloor g frontier traverse estimate init_state terminate). Qed.

  (* the property's clause (a restricted turn is a pair driven in travel order), outside K_reverse_turn and K_reopen *)
  Theorem c04_turn_never_leaks : forall (restricted : nat -> nat -> bool),
    (forall e st p, frontier e st (Some p) = Ok true -> restricted p e = false) ->
    forall fuel d source target r,
      K_reverse_turn d = false ->
      K_reopen clt cadd czero cfloor g frontier traverse estimate init_state terminate fuel d source target = false ->
      run_vertex_oriented fuel d source target = Ok r ->
      forall rt, In rt (r_routes r) -> pairs_ok restricted (travel d (map (@et_edge C St) rt)).
  Proof. exact (run_vertex_oriented_turn_travel clt cadd czero cfloor g frontier traverse estimate init_state terminate). Qed.
End SearchLevel.

(* the hypotheses of part 2 for the concrete models of part 1 *)
Theorem c04_concrete_edge_local : forall (N : Num) (St : Type) (m : fmodel N), edge_local N m = true ->
  forall e (st : St) prev, as_frontier N m e st prev = Ok true -> edge_ok N m e = true.
Proof. intros N St m. exact (edge_local_decision N m). Qed.
Theorem c04_concrete_turn : forall (N : Num) (St : Type) pairs (m : fmodel N), has_turn N pairs m ->
  forall e (st : St) p, as_frontier N m e st (Some p) = Ok true -> pair_in p e pairs = false.
Proof. intros N St pairs m Hm e st p. exact (has_turn_refuses N pairs m Hm e p). Qed.
(* what acceptance by a concrete model gives, piece by piece *)
Theorem c04_accepted_not_cut : forall (N : Num) cut under e prev,
  valid_frontier N (EdgeCut N cut under) e prev = Ok true -> ~ In e cut /\ valid_frontier N under e prev = Ok true.
Proof. exact accepted_cut. Qed.
Theorem c04_accepted_by_every_inner : forall (N : Num) l e prev m,
  valid_frontier N (Combined N l) e prev = Ok true -> In m l -> valid_frontier N m e prev = Ok true.
Proof. exact accepted_combined. Qed.
Theorem c04_accepted_class_allowed : forall (N : Num) lookup classes e prev,
  valid_frontier N (RoadClass lookup (Some classes)) e prev = Ok true -> exists c, nth_error lookup e = Some c /\ In c classes.
Proof. exact accepted_road_class. Qed.
Theorem c04_accepted_restrictions_met : forall (N : Num) rows vp e prev r,
  valid_frontier N (Vehicle N rows vp) e prev = Ok true -> In (e, r) rows -> valid N r vp = true.
Proof. exact accepted_vehicle. Qed.

(* A-star with an inconsistent estimate re-opens a vertex and returns a route through the restricted turn (e2, e3),
   although the frontier model refuses that turn whenever it is asked; Dijkstra on the same input finds no route *)
Theorem c04_turn_leaks_witness :
  Witness.route_edges = Ok [[1; 2; 3; 4]]
  /\ Witness.restricted 2 3 = true
  /\ (forall e st p, Witness.frontier e st (Some p) = Ok true -> Witness.restricted p e = false)
  /\ Witness.reopens = true
  /\ Witness.run_dijkstra = Err "nopath"%string.
Proof. exact turn_leaks_witness. Qed.

(* K_reverse_turn: the turn e1 -> e2 is restricted and the turn model refuses it whenever asked; the reverse search
   (which re-opens nothing) returns e3 e2 e1 e0: the vehicle drives e1 then e2 *)
Theorem c04_reverse_turn_witness :
  WitnessReverseTurn.route_edges = Ok [[3; 2; 1; 0]]
  /\ rmap (map (travel Reverse)) WitnessReverseTurn.route_edges = Ok [[0; 1; 2; 3]]
  /\ WitnessReverseTurn.restricted 1 2 = true
  /\ (forall e st p, WitnessReverseTurn.frontier e st (Some p) = Ok true -> WitnessReverseTurn.restricted p e = false)
  /\ WitnessReverseTurn.reopens = false
  /\ K_reverse_turn Reverse = true.
Proof. exact reverse_turn_witness. Qed.

(* K_query_edges: the frontier model refuses e0; the edge-oriented query from e0 to e3 returns e0 e1 e2 e3 *)
Theorem c04_query_edges_witness :
  WitnessQueryEdges.route_edges = Ok [[0; 1; 2; 3]]
  /\ WitnessQueryEdges.ok 0 = false
  /\ (forall e st prev, WitnessQueryEdges.frontier e st prev = Ok true -> WitnessQueryEdges.ok e = true)
  /\ K_query_edge 0 (Some 3) 0 = true.
Proof. exact query_edges_witness. Qed.

(* statement pins *)
Check @c04_tree_edges_admitted : forall (C St : Type) clt cadd czero cfloor g frontier traverse estimate init_state terminate
  fuel d source target (tr : gmap nat (branch C St)) it,
  run_a_star clt cadd czero cfloor g frontier traverse estimate init_state terminate fuel d source target = Ok (tr, it) ->
  forall v b, tr !! v = Some b -> exists st prev, frontier (et_edge (b_et b)) st prev = Ok true.
Check @c04_edge_local_never_leaks_vertex_oriented : forall (C St : Type) clt cadd czero cfloor g frontier traverse estimate init_state terminate
  (ok : nat -> bool), (forall e st prev, frontier e st prev = Ok true -> ok e = true) ->
  forall fuel d source target (r : sresult C St),
  run_vertex_oriented clt cadd czero cfloor g frontier traverse estimate init_state terminate fuel d source target = Ok r ->
  (forall tr, In tr (r_trees r) -> forall v b, tr !! v = Some b -> ok (et_edge (b_et b)) = true) /\
  (forall rt, In rt (r_routes r) -> forall et, In et rt -> ok (et_edge et) = true).
Check @c04_turn_never_leaks_no_reopen : forall (C St : Type) clt cadd czero cfloor g frontier traverse estimate init_state terminate
  (restricted : nat -> nat -> bool), (forall e st p, frontier e st (Some p) = Ok true -> restricted p e = false) ->
  forall fuel d source target (r : sresult C St),
  run_vertex_oriented clt cadd czero cfloor g frontier traverse estimate init_state terminate fuel d source target = Ok r ->
  no_reopen clt cadd czero cfloor g frontier traverse estimate init_state terminate fuel d source target = true ->
  forall rt, In rt (r_routes r) -> pairs_ok restricted (map (@et_edge C St) rt).
Check @c04_turn_never_leaks : forall (C St : Type) clt cadd czero cfloor g frontier traverse estimate init_state terminate
  (restricted : nat -> nat -> bool), (forall e st p, frontier e st (Some p) = Ok true -> restricted p e = false) ->
  forall fuel d source target (r : sresult C St),
  K_reverse_turn d = false ->
  K_reopen clt cadd czero cfloor g frontier traverse estimate init_state terminate fuel d source target = false ->
  run_vertex_oriented clt cadd czero cfloor g frontier traverse estimate init_state terminate fuel d source target = Ok r ->
  forall rt, In rt (r_routes r) -> pairs_ok restricted (travel d (map (@et_edge C St) rt)).
Check @c04_edge_local_never_leaks_edge_oriented : forall (C St : Type) clt cadd czero cfloor g frontier traverse estimate init_state terminate
  (ok : nat -> bool), (forall e st prev, frontier e st prev = Ok true -> ok e = true) ->
  forall fuel d source target (r : sresult C St),
  run_edge_oriented czero g traverse init_state d
    (run_vertex_oriented clt cadd czero cfloor g frontier traverse estimate init_state terminate fuel d) source target = Ok r ->
  (forall tr, In tr (r_trees r) -> forall v b, tr !! v = Some b ->
     K_query_edge source target (et_edge (b_et b)) = false -> ok (et_edge (b_et b)) = true) /\
  (forall rt, In rt (r_routes r) -> forall et, In et rt ->
     K_query_edge source target (et_edge et) = false -> ok (et_edge et) = true).
Check c04_combined_permits_iff_all : forall (N : Num) l e prev,
  valid_frontier N (Combined N l) e prev = Ok true <-> Forall (fun m => valid_frontier N m e prev = Ok true) l.

(* non-vacuity: a search with class, vehicle, cut and turn restrictions all active meets the hypotheses of the
   theorems (an accepted-edge predicate, a refusing turn model, a run that re-opens nothing) and returns a
   3-edge route around the forbidden edges *)
Example c04_nonvacuous :
  NonVacuous.route_edges = Ok [[1; 3; 5]]
  /\ NonVacuous.reopens = false
  /\ edge_local QN NonVacuous.local_part = true
  /\ has_turn QN NonVacuous.turn_pairs NonVacuous.model
  /\ map (edge_ok QN NonVacuous.local_part) [0; 1; 2; 3; 4; 5] = [false; true; false; true; false; true].
Proof. exact nonvacuous_ok. Qed.

Print Assumptions c04_combined_permits_iff_all.
Print Assumptions c04_combined_refuses_iff_some.
Print Assumptions c04_combined_is_conjunction.
Print Assumptions c04_edge_local_models_ignore_state.
Print Assumptions c04_turn_model_spec.
Print Assumptions c04_edge_cut_spec.
Print Assumptions c04_road_class_spec.
Print Assumptions c04_vehicle_model_spec.
Print Assumptions c04_vehicle_valid_spec.
Print Assumptions c04_insertion_is_checked.
Print Assumptions c04_tree_edges_admitted.
Print Assumptions c04_edge_local_never_leaks_tree.
Print Assumptions c04_edge_local_never_leaks_vertex_oriented.
Print Assumptions c04_edge_local_never_leaks_edge_oriented.
Print Assumptions c04_turn_never_leaks_no_reopen.
Print Assumptions c04_turn_never_leaks.
Print Assumptions c04_concrete_edge_local.
Print Assumptions c04_concrete_turn.
Print Assumptions c04_accepted_not_cut.
Print Assumptions c04_accepted_by_every_inner.
Print Assumptions c04_accepted_class_allowed.
Print Assumptions c04_accepted_restrictions_met.
Print Assumptions c04_turn_leaks_witness.
Print Assumptions c04_reverse_turn_witness.
Print Assumptions c04_query_edges_witness.
Print Assumptions c04_nonvacuous.
