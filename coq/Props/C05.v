(* C05 - 'no path' is reported exactly when the destination is unreachable.

   For restrictions that depend only on the edge itself, a search towards a destination returns a route iff the
   destination can be reached from the origin through permitted edges, and otherwise reports that no path exists
   rather than an empty or partial route; a search without a destination returns a tree whose vertices are
   precisely those reachable from the origin (other than the origin), each labelled with its least cost when edge
   costs do not depend on how the edge was reached.

   Everything is about the search model Model/Search.v (run_a_star's loop with its three exits, backtracking,
   run_vertex_oriented, run_edge_oriented), for EVERY graph (disconnected parts, parallel edges, self loops), every
   edge-local restriction [ok], every traversal / heuristic / weight factor, both directions, every fuel.
   [reachable ok d g a b] (Model/Reach.v) is the inductive closure of a over permitted edges in direction d.

   This file holds only statements closed by lemmas of Proofs/Reach*.v, pins, examples, Print Assumptions. *)
From Coq Require Import List Arith Bool String QArith Lia.
From stdpp Require Import gmap.
From RC Require Import Base.Res Base.Num Model.Search Model.SearchRun Model.Reach Model.ReachRun.
From RC Require Import Proofs.ReachSet Proofs.ReachInv Proofs.ReachMain Proofs.ReachCost Proofs.ReachFuel Proofs.ReachEdge Proofs.ReachTop
  Proofs.ReachQ.
Import ListNotations.
Import Search Reach.
Import ReachSetP ReachInvP ReachMainP ReachCostP ReachFuelP ReachEdgeP ReachTopP ReachQP.

(* ------------------------------------------------------------------ the specification side is executable *)
Theorem c05_reachb_spec : forall ok d g a b, reachb ok d g a b = true <-> reachable ok d g a b.
Proof. exact reachb_spec. Qed.
Theorem c05_reach_set_spec : forall ok d g a x, x ∈ reach_set ok d g a <-> reachable ok d g a x.
Proof. exact reach_set_spec. Qed.
Theorem c05_reachable_iff_walk : forall ok d g a b, reachable ok d g a b <-> exists es, pwalk ok d g a es b.
Proof. exact reachable_pwalk. Qed.
Theorem c05_pwalkb_spec : forall ok d g a es b, pwalkb ok d g a es b = true <-> pwalk ok d g a es b.
Proof. exact pwalkb_spec. Qed.
(* the least-cost oracle of the stream: a Bellman-Ford labelling that passes the stability check labels exactly the
   reachable vertices, each with the cost of a permitted walk that no permitted walk undercuts *)
Theorem c05_bf_least : forall ok d g cost a, bf_stable ok d g cost a (bf ok d g cost a) = true ->
    (forall v, is_Some (bf ok d g cost a !! v) <-> reachable ok d g a v)
    /\ forall v l, bf ok d g cost a !! v = Some l ->
         (exists es, pwalk ok d g a es v /\ wcost cost es 0 = l)
         /\ forall es, pwalk ok d g a es v -> (l <= wcost cost es 0)%Q.
Proof. exact bf_least. Qed.

Section C05.
  Context {C St : Type}.
  Variable clt : C -> C -> bool.          (* Cost's strict comparison *)
  Variable cadd : C -> C -> C.
  Variable czero : C.
  Variable cfloor : C -> C.
  Variable g : graph.
  Variable frontier : nat -> St -> option nat -> res bool.
  Variable traverse : dir -> nat -> option nat -> St -> res (C * C * St).
  Variable estimate : nat -> nat -> St -> res C.      (* already multiplied by the weight factor *)
  Variable init_state : res St.
  Variable terminate : nat -> nat -> option string.
  Variable ok : nat -> bool.
  (* every edge joins two vertices of the network *)
  Hypothesis Hwf : wf_graph g.
  (* the property's hypothesis: the restriction depends only on the edge; nothing else can fail (the estimate is
     only ever asked about vertices of the network) *)
  Hypothesis Hfr : forall e st prev, frontier e st prev = Ok (ok e).
  Hypothesis Htr : forall d e prev st, exists r, traverse d e prev st = Ok r.
  Hypothesis Hest : forall a b st, a < nverts g -> b < nverts g -> exists c, estimate a b st = Ok c.
  Hypothesis Hinit : exists i0, init_state = Ok i0.

  Variable d : dir.
  Variable source : nat.
  Hypothesis Hsrc : source < nverts g.

  Notation step := (step clt cadd czero cfloor g frontier traverse estimate terminate d source).
  Notation run_loop := (run_loop clt cadd czero cfloor g frontier traverse estimate terminate).
  Notation run_a_star := (run_a_star clt cadd czero cfloor g frontier traverse estimate init_state terminate).
  Notation run_a_star_state := (run_a_star_state clt cadd czero cfloor g frontier traverse estimate init_state terminate).
  Notation run_vertex_oriented := (run_vertex_oriented clt cadd czero cfloor g frontier traverse estimate init_state terminate).
  Notation Inv := (Inv g ok d source).

  (* ---------------- no assumption on costs, heuristic, weight factor, termination model, fuel ---------------- *)

  (* the invariant holds initially and after every iteration of the loop *)
  Theorem c05_inv_init : forall target h0, (forall t, target = Some t -> t <> source) ->
      Inv target (mkS (St:=St) [(source, h0)] {[source := czero]} ∅ 0).
  Proof. intros. apply init_inv. assumption. Qed.
  Theorem c05_inv_step : forall target init s s', (forall t, target = Some t -> t < nverts g) ->
      Inv target s -> step target init s = Ok (inl s') -> Inv target s'.
  Proof.
    intros target init s s' Htin HI Hst.
    pose proof (step_spec clt cadd czero cfloor g frontier traverse estimate terminate ok Hwf Hfr Htr Hest d source target Htin init s HI) as H.
    rewrite Hst in H. apply H.
  Qed.

  (* (1) every vertex with a label or a tree entry is reachable from the source *)
  Theorem c05_finite_label_reachable : forall target (s : sstate C St), Inv target s ->
      (forall v, is_Some (s_g s !! v) -> reachable ok d g source v)
      /\ (forall v b, s_tree s !! v = Some b -> reachable ok d g source v /\ reachable ok d g source (b_term b)).
  Proof. exact (finite_label_reachable g ok d source). Qed.

  (* (2) when the queue is empty every reachable vertex has a label *)
  Theorem c05_exhaustion_closed : forall target (s : sstate C St), Inv target s -> s_pq s = [] ->
      forall v, reachable ok d g source v -> is_Some (s_g s !! v).
  Proof. exact (exhaustion_closed g ok d source). Qed.

  (* (3a) NoPath is reported only for an unreachable destination *)
  Theorem c05_nopath_only_if_unreachable : forall fuel t, t < nverts g ->
      run_vertex_oriented fuel d source (Some t) = Err "nopath"%string -> ~ reachable ok d g source t.
  Proof. exact (vertex_nopath_unreachable clt cadd czero cfloor g frontier traverse estimate init_state terminate ok Hwf Hfr Htr Hest Hinit d source Hsrc). Qed.

  (* (3b) an Ok answer is one non-empty permitted walk from the origin to the destination: never empty, never partial *)
  Theorem c05_ok_is_route : forall fuel t r, t <> source -> t < nverts g ->
      run_vertex_oriented fuel d source (Some t) = Ok r ->
      reachable ok d g source t
      /\ exists tree route, r_trees r = [tree] /\ r_routes r = [route] /\ route <> []
                            /\ pwalk ok d g source (map et_edge route) t.
  Proof. exact (vertex_ok_route clt cadd czero cfloor g frontier traverse estimate init_state terminate ok Hwf Hfr Htr Hest Hinit d source Hsrc). Qed.

  (* (3c) an unreachable destination never yields Ok, whatever the fuel: NoPath, or the loop was cut off *)
  Theorem c05_unreachable_never_ok : forall fuel t, t <> source -> t < nverts g -> ~ reachable ok d g source t ->
      (forall a b, terminate a b = None) ->
      run_vertex_oriented fuel d source (Some t) = Err "nopath"%string
      \/ run_vertex_oriented fuel d source (Some t) = OutOfFuel.
  Proof. exact (unreachable_never_ok clt cadd czero cfloor g frontier traverse estimate init_state terminate ok Hwf Hfr Htr Hest Hinit d source Hsrc). Qed.

  (* every outcome of a search with a destination, including the errors that are not NoPath *)
  Theorem c05_vertex_outcomes : forall fuel t, t <> source -> t < nverts g ->
      match run_vertex_oriented fuel d source (Some t) with
      | Ok r => reachable ok d g source t
                /\ exists tree route, r_trees r = [tree] /\ r_routes r = [route] /\ route <> []
                                      /\ pwalk ok d g source (map et_edge route) t /\ tree_facts g ok d source tree
      | Err c => (c = "nopath"%string /\ ~ reachable ok d g source t)
                 \/ (exists why a b, terminate a b = Some why /\ c = ("terminated: " ++ why)%string)
                 \/ c = "internal: tree missing vertex in backtrack"%string \/ c = "internal: loop in search result"%string
      | Panic _ => False
      | OutOfFuel => True
      end.
  Proof. exact (vertex_target_spec clt cadd czero cfloor g frontier traverse estimate init_state terminate ok Hwf Hfr Htr Hest Hinit d source Hsrc). Qed.

  (* ---------------- with the cost order: total preorder, label + edge cost >= label ---------------- *)
  Notation le := (le clt).
  Hypothesis Hasym : forall a b, clt a b = true -> clt b a = false.
  Hypothesis Hletrans : forall a b c, le a b -> le b c -> le a c.
  Hypothesis Hinfl : forall dd e prev st ac tc st' a, traverse dd e prev st = Ok (ac, tc, st') -> le a (cadd a (cfloor (cadd ac tc))).

  (* (3d) the equivalence, for any heuristic and weight factor; fuel is a premise here (A* may re-open vertices) *)
  Theorem c05_answer_iff_partial : (forall a b, terminate a b = None) -> forall fuel t, t <> source -> t < nverts g ->
      run_a_star fuel d source (Some t) <> OutOfFuel ->
      ((exists r, run_vertex_oriented fuel d source (Some t) = Ok r) <-> reachable ok d g source t)
      /\ (run_vertex_oriented fuel d source (Some t) = Err "nopath"%string <-> ~ reachable ok d g source t).
  Proof.
    intros Hterm. exact (answer_iff_partial clt cadd czero cfloor g frontier traverse estimate init_state terminate ok Hwf Hfr Htr Hest Hinit
                            Hterm Hasym Hletrans Hinfl d source Hsrc).
  Qed.

  (* (5) a destination-less search that returns has dom tree = {v | reachable from source} \ {source} *)
  Theorem c05_tree_is_reachable_set : forall fuel tree it, run_a_star fuel d source None = Ok (tree, it) ->
      forall v, is_Some (tree !! v) <-> (reachable ok d g source v /\ v <> source).
  Proof. exact (tree_is_reachable_set clt cadd czero cfloor g frontier traverse estimate init_state terminate ok Hwf Hfr Htr Hest Hinit
                  Hasym Hletrans Hinfl d source Hsrc). Qed.

  (* (6) ... and, when edge costs are edge-local and + is monotone, every label is the least cost of a permitted walk *)
  Theorem c05_tree_labels_least : forall (ecost : nat -> C),
      (forall dd e prev st ac tc st', traverse dd e prev st = Ok (ac, tc, st') -> cfloor (cadd ac tc) = ecost e) ->
      (forall a b c, le a b -> le (cadd a c) (cadd b c)) ->
      forall fuel s, run_a_star_state fuel d source None = Ok s ->
      forall v, reachable ok d g source v ->
        exists l, s_g s !! v = Some l
          /\ (exists es, pwalk ok d g source es v /\ wcostC cadd ecost es czero = l)
          /\ forall es, pwalk ok d g source es v -> le l (wcostC cadd ecost es czero).
  Proof.
    intros ecost Hloc Hmono.
    exact (tree_labels_least clt cadd czero cfloor g frontier traverse estimate init_state terminate ok Hwf Hfr Htr Hest Hinit
             Hasym Hletrans Hinfl d source Hsrc ecost Hloc Hmono).
  Qed.

  (* (4) termination for Dijkstra-like runs: zero estimate, x + 0 ~ x.  |universe| + 1 iterations suffice *)
  Section Dijkstra.
    Hypothesis Hest0 : forall a b st, a < nverts g -> b < nverts g -> estimate a b st = Ok czero.
    Hypothesis Hzero : forall x, le (cadd x czero) x /\ le x (cadd x czero).
    Hypothesis Hterm : forall a b, terminate a b = None.

    Theorem c05_dijkstra_fuel : forall target fuel, (forall t, target = Some t -> t <> source /\ t < nverts g) ->
        size (universe d g source) < fuel -> run_a_star fuel d source target <> OutOfFuel.
    Proof.
      intros target fuel Hts. exact (dijkstra_fuel clt cadd czero cfloor g frontier traverse estimate init_state terminate ok Hwf Hfr Htr
                                       Hest0 Hinit Hzero Hasym Hletrans Hinfl d source target (fun t H => proj2 (Hts t H)) Hsrc
                                       (fun t H => proj1 (Hts t H)) fuel).
    Qed.

    Theorem c05_dijkstra_answer_iff : forall fuel t, t <> source -> t < nverts g -> size (universe d g source) < fuel ->
        ((exists r, run_vertex_oriented fuel d source (Some t) = Ok r) <-> reachable ok d g source t)
        /\ (run_vertex_oriented fuel d source (Some t) = Err "nopath"%string <-> ~ reachable ok d g source t).
    Proof.
      exact (dijkstra_answer_iff clt cadd czero cfloor g frontier traverse estimate init_state terminate ok Hwf Hfr Htr Hest0 Hinit
               Hterm Hzero Hasym Hletrans Hinfl d source Hsrc).
    Qed.

    Theorem c05_dijkstra_notarget_returns : forall fuel, size (universe d g source) < fuel ->
        exists r, run_vertex_oriented fuel d source None = Ok r.
    Proof.
      exact (dijkstra_notarget_returns clt cadd czero cfloor g frontier traverse estimate init_state terminate ok Hwf Hfr Htr Hest0 Hinit
               Hterm Hzero Hasym Hletrans Hinfl d source Hsrc).
    Qed.
  End Dijkstra.

  (* ---------------- (7) the edge-oriented wrapper over Dijkstra / A-star ---------------- *)
  Section EdgeOriented.
    Variable fuel : nat.
    Notation run_edge := (run_edge_oriented czero g traverse init_state d (run_vertex_oriented fuel d)).
    Variables (e1 : nat) (ed1 : edge).
    Hypothesis He1 : get_edge g e1 = Some ed1.

    Theorem c05_edge_nopath_only_if_unreachable : forall e2 ed2, get_edge g e2 = Some ed2 -> e1 <> e2 ->
        run_edge e1 (Some e2) = Err "nopath"%string -> ~ reachable ok d g (key_vertex d ed1) (term_vertex d ed2).
    Proof. exact (edge_nopath_unreachable clt cadd czero cfloor g frontier traverse estimate init_state terminate ok Hwf Hfr Htr Hest Hinit
                    d fuel e1 ed1 He1). Qed.

    Theorem c05_edge_ok_is_route : forall e2 ed2 r, get_edge g e2 = Some ed2 -> e1 <> e2 ->
        run_edge e1 (Some e2) = Ok r ->
        reachable ok d g (key_vertex d ed1) (term_vertex d ed2)
        /\ exists route mid, r_routes r = [route] /\ map et_edge route = e1 :: mid ++ [e2]
                             /\ pwalk ok d g (key_vertex d ed1) mid (term_vertex d ed2).
    Proof. exact (edge_ok_route clt cadd czero cfloor g frontier traverse estimate init_state terminate ok Hwf Hfr Htr Hest Hinit
                    d fuel e1 ed1 He1). Qed.

    Theorem c05_edge_unreachable_never_ok : forall e2 ed2, get_edge g e2 = Some ed2 -> e1 <> e2 ->
        ~ reachable ok d g (key_vertex d ed1) (term_vertex d ed2) -> (forall a b, terminate a b = None) ->
        run_edge e1 (Some e2) = Err "nopath"%string \/ run_edge e1 (Some e2) = OutOfFuel.
    Proof. exact (edge_unreachable_never_ok clt cadd czero cfloor g frontier traverse estimate init_state terminate ok Hwf Hfr Htr Hest Hinit
                    d fuel e1 ed1 He1). Qed.

    Theorem c05_edge_notarget_tree : forall r, run_edge e1 None = Ok r ->
        exists tree, r_trees r = [tree] /\
          forall v, is_Some (tree !! v) <->
            (reachable ok d g (key_vertex d ed1) v /\ v <> key_vertex d ed1)
            \/ (v = key_vertex d ed1 /\ term_vertex d ed1 <> key_vertex d ed1
                /\ ~ reachable ok d g (key_vertex d ed1) (term_vertex d ed1)).
    Proof. exact (edge_notarget_tree clt cadd czero cfloor g frontier traverse estimate init_state terminate ok Hwf Hfr Htr Hest Hinit
                    d fuel e1 ed1 He1 Hasym Hletrans Hinfl). Qed.
  End EdgeOriented.
End C05.

(* the fuel bound in terms of the vertex count *)
Theorem c05_universe_size : forall d g a, wf_graph g -> a < nverts g -> size (universe d g a) <= nverts g.
Proof. exact universe_size. Qed.

(* ------------------------------------------------------------------ the model that the stream executes *)
(* The hypotheses above are met by the table-driven configuration of Model/SearchRun.v over exact rationals for
   every world of the class the stream generates, every query, heuristic table, weight factor and fuel; the
   restriction is the forbid table (RR.okb), which is also what the S lines of the run evaluate reachb with. *)
Section C05Q.
  Variable w : SR.world QN.
  Variable q : SR.query QN.
  Hypothesis Hclass : RR.in_class w = true.
  Hypothesis Hedges : RR.edges_in_graph w = true.
  Variables (fuel s : nat).
  Hypothesis Hs : s < SR.w_n QN w.
  Notation g := (SR.graph_of QN w).
  Notation d := (SR.q_dir QN q).

  Theorem c05_q_nopath_only_if_unreachable : forall t, t < SR.w_n QN w ->
      SR.run_vertex QN fuel w q s (Some t) = Err "nopath"%string -> ~ reachable (RR.okb w) d g s t.
  Proof. exact (q_nopath_only_if_unreachable w q Hclass Hedges fuel s Hs). Qed.
  Theorem c05_q_ok_is_route : forall t r, t <> s -> t < SR.w_n QN w ->
      SR.run_vertex QN fuel w q s (Some t) = Ok r ->
      reachable (RR.okb w) d g s t
      /\ exists tree route, r_trees r = [tree] /\ r_routes r = [route] /\ route <> []
                            /\ pwalk (RR.okb w) d g s (map et_edge route) t.
  Proof. exact (q_ok_is_route w q Hclass Hedges fuel s Hs). Qed.
  Theorem c05_q_answer_iff_partial : forall t, t <> s -> t < SR.w_n QN w ->
      SR.run_vertex QN fuel w q s (Some t) <> OutOfFuel ->
      ((exists r, SR.run_vertex QN fuel w q s (Some t) = Ok r) <-> reachable (RR.okb w) d g s t)
      /\ (SR.run_vertex QN fuel w q s (Some t) = Err "nopath"%string <-> ~ reachable (RR.okb w) d g s t).
  Proof. exact (q_answer_iff_partial w q Hclass Hedges fuel s Hs). Qed.
  Theorem c05_q_tree_is_reachable_set : forall r, SR.run_vertex QN fuel w q s None = Ok r ->
      exists tree, r_trees r = [tree] /\ forall v, is_Some (tree !! v) <-> (reachable (RR.okb w) d g s v /\ v <> s).
  Proof. exact (q_tree_is_reachable_set w q Hclass Hedges fuel s Hs). Qed.
End C05Q.

(* ------------------------------------------------------------------ statement pins *)
Check @c05_nopath_only_if_unreachable :
  forall (C St : Type) clt cadd czero cfloor g frontier traverse estimate init_state terminate ok,
    wf_graph g ->
    (forall e st prev, frontier e st prev = Ok (ok e)) ->
    (forall d e prev st, exists r, traverse d e prev st = Ok r) ->
    (forall a b st, a < nverts g -> b < nverts g -> exists c, estimate a b st = Ok c) ->
    (exists i0, init_state = Ok i0) ->
    forall d source, source < nverts g -> forall fuel t, t < nverts g ->
      @run_vertex_oriented C St clt cadd czero cfloor g frontier traverse estimate init_state terminate fuel d source (Some t)
        = Err "nopath"%string -> ~ reachable ok d g source t.
Check @c05_ok_is_route :
  forall (C St : Type) clt cadd czero cfloor g frontier traverse estimate init_state terminate ok,
    wf_graph g ->
    (forall e st prev, frontier e st prev = Ok (ok e)) ->
    (forall d e prev st, exists r, traverse d e prev st = Ok r) ->
    (forall a b st, a < nverts g -> b < nverts g -> exists c, estimate a b st = Ok c) ->
    (exists i0, init_state = Ok i0) ->
    forall d source, source < nverts g -> forall fuel t r, t <> source -> t < nverts g ->
      @run_vertex_oriented C St clt cadd czero cfloor g frontier traverse estimate init_state terminate fuel d source (Some t) = Ok r ->
      reachable ok d g source t
      /\ exists tree route, r_trees r = [tree] /\ r_routes r = [route] /\ route <> []
                            /\ pwalk ok d g source (map et_edge route) t.
Check @c05_tree_is_reachable_set :
  forall (C St : Type) clt cadd czero cfloor g frontier traverse estimate init_state terminate ok,
    wf_graph g ->
    (forall e st prev, frontier e st prev = Ok (ok e)) ->
    (forall d e prev st, exists r, traverse d e prev st = Ok r) ->
    (forall a b st, a < nverts g -> b < nverts g -> exists c, estimate a b st = Ok c) ->
    (exists i0, init_state = Ok i0) ->
    forall d source, source < nverts g ->
    (forall a b, clt a b = true -> clt b a = false) ->
    (forall a b c, clt b a = false -> clt c b = false -> clt c a = false) ->
    (forall dd e prev st ac tc st' a, traverse dd e prev st = Ok (ac, tc, st') -> clt (cadd a (cfloor (cadd ac tc))) a = false) ->
    forall fuel tree it,
      @run_a_star C St clt cadd czero cfloor g frontier traverse estimate init_state terminate fuel d source None = Ok (tree, it) ->
      forall v, is_Some (tree !! v) <-> (reachable ok d g source v /\ v <> source).
Check @c05_dijkstra_answer_iff :
  forall (C St : Type) clt cadd czero cfloor g frontier traverse estimate init_state terminate ok,
    wf_graph g ->
    (forall e st prev, frontier e st prev = Ok (ok e)) ->
    (forall d e prev st, exists r, traverse d e prev st = Ok r) ->
    (exists i0, init_state = Ok i0) ->
    forall d source, source < nverts g ->
    (forall a b, clt a b = true -> clt b a = false) ->
    (forall a b c, clt b a = false -> clt c b = false -> clt c a = false) ->
    (forall dd e prev st ac tc st' a, traverse dd e prev st = Ok (ac, tc, st') -> clt (cadd a (cfloor (cadd ac tc))) a = false) ->
    (forall a b st, a < nverts g -> b < nverts g -> estimate a b st = Ok czero) ->
    (forall x, clt x (cadd x czero) = false /\ clt (cadd x czero) x = false) ->
    (forall a b, terminate a b = None) ->
    forall fuel t, t <> source -> t < nverts g -> size (universe d g source) < fuel ->
      ((exists r, @run_vertex_oriented C St clt cadd czero cfloor g frontier traverse estimate init_state terminate fuel d source (Some t) = Ok r)
         <-> reachable ok d g source t)
      /\ (@run_vertex_oriented C St clt cadd czero cfloor g frontier traverse estimate init_state terminate fuel d source (Some t)
            = Err "nopath"%string <-> ~ reachable ok d g source t).

(* ------------------------------------------------------------------ non-vacuity: a disconnected, restricted network *)
Module C05Example.
  (* vertices 0..4; 0 -> 1 -> 2, 3 -> 4, the only link 1 -> 3 between the two parts is a restricted edge (id 3);
     a self loop at 0 and a parallel twin of 0 -> 1 *)
  Definition gx : graph := mkGraph 5 [mkEdge 0 1; mkEdge 1 2; mkEdge 3 4; mkEdge 1 3; mkEdge 0 0; mkEdge 0 1].
  Definition okx (e : nat) : bool := negb (Nat.eqb e 3).
  Definition costx (e : nat) : nat := nth e [2; 3; 1; 1; 1; 5] 1.
  Definition frontierx (e : nat) (st : nat) (prev : option nat) : res bool := Ok (okx e).
  Definition traversex (d : dir) (e : nat) (prev : option nat) (st : nat) : res (nat * nat * nat) := Ok (0, costx e, st + costx e).
  Definition estimatex (a b : nat) (st : nat) : res nat := Ok 0.
  Definition floorx (x : nat) : nat := Nat.max x 1.
  Definition runx := @run_vertex_oriented nat nat Nat.ltb Nat.add 0 floorx gx frontierx traversex estimatex (Ok 0) (fun _ _ => None).

  Lemma ltb_asym a b : Nat.ltb a b = true -> Nat.ltb b a = false.
  Proof. rewrite Nat.ltb_lt, Nat.ltb_ge. lia. Qed.
  Lemma ltb_letrans a b c : Nat.ltb b a = false -> Nat.ltb c b = false -> Nat.ltb c a = false.
  Proof. rewrite !Nat.ltb_ge. lia. Qed.
  Lemma infl_x : forall dd e prev st ac tc st' a, traversex dd e prev st = Ok (ac, tc, st') -> Nat.ltb (a + floorx (ac + tc)) a = false.
  Proof. intros. apply Nat.ltb_ge. lia. Qed.
  Lemma zero_x : forall x, Nat.ltb x (x + 0) = false /\ Nat.ltb (x + 0) x = false.
  Proof. intros x. rewrite !Nat.ltb_ge. lia. Qed.

  (* the hypotheses of every theorem above are met by this instance, so for every fuel above |universe| ... *)
  Lemma wf_gx : wf_graph gx.
  Proof. intros e Hin. simpl in Hin. repeat (destruct Hin as [<-|Hin]; [simpl; lia|]). destruct Hin. Qed.

  Example c05_instance : forall fuel t, t <> 0 -> t < 5 -> size (universe Forward gx 0) < fuel ->
      ((exists r, runx fuel Forward 0 (Some t) = Ok r) <-> reachable okx Forward gx 0 t)
      /\ (runx fuel Forward 0 (Some t) = Err "nopath"%string <-> ~ reachable okx Forward gx 0 t).
  Proof.
    apply (c05_dijkstra_answer_iff Nat.ltb Nat.add 0 floorx gx frontierx traversex estimatex (Ok 0) (fun _ _ => None) okx).
    - exact wf_gx.
    - reflexivity.
    - intros. eexists. reflexivity.
    - eexists. reflexivity.
    - vm_compute. lia.
    - exact ltb_asym.
    - exact ltb_letrans.
    - exact infl_x.
    - reflexivity.
    - exact zero_x.
    - reflexivity.
  Qed.

  (* ... and both sides of the equivalence occur: the far part is unreachable only because of the restriction *)
  Example c05_both_branches :
    runx 20 Forward 0 (Some 4) = Err "nopath"%string /\ ~ reachable okx Forward gx 0 4
    /\ reachable (fun _ => true) Forward gx 0 4
    /\ (exists r, runx 20 Forward 0 (Some 2) = Ok r /\ map (map et_edge) (r_routes r) = [[0; 1]])
    /\ reachable okx Forward gx 0 2
    /\ runx 20 Reverse 2 (Some 0) <> Err "nopath"%string /\ runx 20 Reverse 0 (Some 2) = Err "nopath"%string.
  Proof.
    split; [vm_compute; reflexivity|]. split; [apply reachb_false; vm_compute; reflexivity|].
    split; [apply reachb_spec; vm_compute; reflexivity|]. split; [eexists; split; vm_compute; reflexivity|].
    split; [apply reachb_spec; vm_compute; reflexivity|]. split; vm_compute; [discriminate|reflexivity].
  Qed.

  (* a destination-less search from 0 returns exactly {1, 2}, labelled 2 and 5 *)
  Example c05_tree_example : exists s,
      run_a_star_state Nat.ltb Nat.add 0 floorx gx frontierx traversex estimatex (Ok 0) (fun _ _ => None) 20 Forward 0 None = Ok s
      /\ size (s_tree s) = 2 /\ is_Some (s_tree s !! 1) /\ is_Some (s_tree s !! 2)
      /\ s_g s !! 1 = Some 2 /\ s_g s !! 2 = Some 5 /\ s_g s !! 3 = None.
  Proof. eexists. split; [vm_compute; reflexivity|]. vm_compute. repeat split; eauto. Qed.
End C05Example.

(* ------------------------------------------------------------------ assumptions *)
Print Assumptions c05_reachb_spec.
Print Assumptions c05_reach_set_spec.
Print Assumptions c05_reachable_iff_walk.
Print Assumptions c05_pwalkb_spec.
Print Assumptions c05_bf_least.
Print Assumptions c05_inv_init.
Print Assumptions c05_inv_step.
Print Assumptions c05_finite_label_reachable.
Print Assumptions c05_exhaustion_closed.
Print Assumptions c05_nopath_only_if_unreachable.
Print Assumptions c05_ok_is_route.
Print Assumptions c05_unreachable_never_ok.
Print Assumptions c05_vertex_outcomes.
Print Assumptions c05_answer_iff_partial.
Print Assumptions c05_tree_is_reachable_set.
Print Assumptions c05_tree_labels_least.
Print Assumptions c05_dijkstra_fuel.
Print Assumptions c05_dijkstra_answer_iff.
Print Assumptions c05_dijkstra_notarget_returns.
Print Assumptions c05_edge_nopath_only_if_unreachable.
Print Assumptions c05_edge_ok_is_route.
Print Assumptions c05_edge_unreachable_never_ok.
Print Assumptions c05_edge_notarget_tree.
Print Assumptions c05_universe_size.
Print Assumptions c05_q_nopath_only_if_unreachable.
Print Assumptions c05_q_ok_is_route.
Print Assumptions c05_q_answer_iff_partial.
Print Assumptions c05_q_tree_is_reachable_set.
Print Assumptions C05Example.c05_instance.
Print Assumptions C05Example.c05_both_branches.
Print Assumptions C05Example.c05_tree_example.
