(* C06 - running a batch returns exactly one response per query after grid-search expansion,
   each response carries the request it answers, a failing query becomes an error response
   without changing any other response; the multiset of responses does not depend on the
   parallelism setting (configured or per run), the order of the batch, the load-balancing
   assignment (weights) or the persistence policy, and equals what each query returns when run
   alone; load balancing places every query in exactly one of the parallel batches.

   Statements only: each theorem is closed by [exact] of a lemma proved in Proofs/Batch*.v,
   pinned by a [Check ... : statement] and followed by Print Assumptions.

   Thread schedules: the model composes per-query results the way rayon's indexed collects
   do (order of the results = order of the inputs, whatever the interleaving: rayon's contract,
   trusted); the one schedule-dependent observable, the order of the lines in the sink, is
   covered by [c06_sink_any_schedule].  What is NOT proved: that the real per-query search is a
   function of the query alone (no state shared between workers) - that is what the
   correspondence stream explores on real threads, and [c06_cache_*] say when the one shared
   mutable structure (the prediction cache) can be observed. *)
From Coq Require Import String.
From Coq Require Import List Arith Bool Permutation ZArith QArith.
From RC Require Import Base.Res Base.Num Model.Batch Proofs.Batch Proofs.BatchResponses Proofs.BatchPlugins.
Import ListNotations.
Import Batch.
Close Scope Q_scope.

(* slice::chunks / par_chunks loses and duplicates nothing, every chunk size >= 1 *)
Theorem c06_chunks_concat : forall (A : Type) k (l : list A), 1 <= k -> concat (chunks k l) = l.
Proof. exact @chunks_concat. Qed.

Section C06.
  Context {N : Num} {query response : Type}.
  Variable plugins : query -> list query + response.   (* any input plugins: expansion or failure *)
  Variable weight : query -> res (option N).           (* any weight estimates, readable or not *)
  Variable weight_error : query -> response.
  Variable single : query -> response.                 (* any per-query behaviour *)
  Variable fmt : response -> response.
  Variable sink_ok : response -> bool.

  Notation run := (Batch.run plugins weight weight_error single fmt sink_ok).
  Notation answer := (Batch.answer plugins weight weight_error single fmt).

  (* load balancing: there is an assignment of positions to bins < p such that every bin holds
     exactly the queries assigned to it, in their original relative order; hence the bins
     together are a permutation of the queries and each bin is an ordered sublist *)
  Theorem c06_assign_partition : forall qs p default bins,
      balance weight qs p default = Ok bins ->
      Permutation (concat bins) qs
      /\ Forall (fun bin => subseq bin qs) bins
      /\ ((qs = [] /\ bins = [])
          \/ (qs <> [] /\ length bins = p
              /\ exists asg, length asg = length qs /\ Forall (fun a => a < p) asg
                        /\ forall b, nth b bins [] = select b qs asg)).
  Proof.
    intros qs p d bins H. split; [exact (balance_perm weight qs p d bins H)|].
    split; [exact (balance_order weight qs p d bins H) | exact (balance_spec weight qs p d bins H)].
  Qed.

  Theorem c06_assign_total : forall qs p default,
      1 <= p -> (forall q, In q qs -> is_ok (weight q) = true) ->
      exists bins, balance weight qs p default = Ok bins.
  Proof. exact (balance_ok weight). Qed.

  Section SinkWorks.
    Hypothesis sink_total : forall r, sink_ok r = true.   (* no I/O failure in the sink (C19) *)

    (* the call succeeds for every batch (the empty one included), every configured
       parallelism (0 included), every per-run parallelism >= 1, both persistence policies,
       and its responses are, as a multiset, the answers of the queries one by one *)
    Theorem c06_responses_perm : forall pol p_cfg p_run batch,
        1 <= p_run ->
        exists o, run pol p_cfg p_run batch = Ok o
             /\ Permutation (responses pol o) (flat_map answer batch).
    Proof.
      intros pol p_cfg p_run batch Hp.
      exact (run_perm plugins weight weight_error single fmt sink_ok pol p_cfg p_run batch Hp sink_total).
    Qed.

    (* both policies: the sink receives every response (the pre-search error responses too);
       under the discard policy the returned vector holds only the pre-search error responses *)
    Theorem c06_sink_complete : forall pol p_cfg p_run batch,
        1 <= p_run ->
        exists o, run pol p_cfg p_run batch = Ok o
             /\ Permutation (written o) (flat_map answer batch)
             /\ (pol = PersistInMemory -> Permutation (returned o) (flat_map answer batch))
             /\ (pol = DiscardFromMemory ->
                 returned o = map fmt (snd (partition_map plugins batch)
                                       ++ snd (weight_stage weight weight_error
                                                 (concat (fst (partition_map plugins batch)))))).
    Proof.
      intros pol p_cfg p_run batch Hp.
      exact (run_full plugins weight weight_error single fmt sink_ok pol p_cfg p_run batch Hp sink_total).
    Qed.

    (* ... which is what CompassApp::run returns for each query alone at parallelism 1 *)
    Theorem c06_equals_alone : forall pol pol' p_cfg p_run batch,
        1 <= p_run ->
        exists o, run pol p_cfg p_run batch = Ok o
             /\ Permutation (responses pol o)
                            (flat_map (alone plugins weight weight_error single fmt sink_ok pol') batch).
    Proof. exact (run_equals_alone plugins weight weight_error single fmt sink_ok sink_total). Qed.

    (* one response per query after expansion *)
    Theorem c06_count_eq : forall pol p_cfg p_run batch,
        1 <= p_run ->
        exists o, run pol p_cfg p_run batch = Ok o
             /\ length (responses pol o) = list_sum (map (expanded plugins) batch).
    Proof. exact (run_count plugins weight weight_error single fmt sink_ok sink_total). Qed.

    (* whatever stands at one position of the batch (a valid query, a failing one), the
       responses to the other positions are those of the batch without it *)
    Theorem c06_failures_local : forall pol p_cfg p_run l1 l2 q,
        1 <= p_run ->
        exists o o0, run pol p_cfg p_run (l1 ++ q :: l2) = Ok o
                /\ run pol p_cfg p_run (l1 ++ l2) = Ok o0
                /\ Permutation (responses pol o) (answer q ++ responses pol o0).
    Proof. exact (run_local plugins weight weight_error single fmt sink_ok sink_total). Qed.

    (* if the per-query stage echoes the request, so does the batch: the requests carried by
       the responses are exactly the expanded queries (for a query rejected by the input
       plugins: whatever request the plugin stage packaged) *)
    Theorem c06_request_echoed : forall (request_of : response -> query) pol p_cfg p_run batch,
        1 <= p_run ->
        (forall c, request_of (fmt (single c)) = c) ->
        (forall c, request_of (fmt (weight_error c)) = c) ->
        exists o, run pol p_cfg p_run batch = Ok o
             /\ Permutation (map request_of (responses pol o))
                            (flat_map (requests plugins fmt request_of) batch).
    Proof. exact (run_requests plugins weight weight_error single fmt sink_ok sink_total). Qed.
  End SinkWorks.

  (* parallelism 0 is accepted by the configuration reader and fails every batch in which at
     least one query reaches the load balancer *)
  Theorem c06_parallelism_zero : forall pol p_cfg batch q cs c,
      In q batch -> plugins q = inl cs -> In c cs -> is_ok (weight c) = true ->
      run pol p_cfg 0 batch = Err "InternalError"%string.
  Proof. exact (run_zero plugins weight weight_error single fmt sink_ok). Qed.
End C06.

(* The input-plugin stage itself (apply_input_plugins over json_array_op): the first plugin
   expands (grid_search), the later ones run on every expanded query.  Outside the class K
   (K_child_error_drops_siblings: at least two children and one of them rejected after the
   expansion) every expanded query is answered on its own, exactly once ... *)
Theorem c06_one_response_per_expanded_query :
  forall (N : Num) (query response : Type)
         (grid : @plugin query response) (later : list (@plugin query response))
         (is_object : query -> bool) (invariant_error : query -> response)
         (weight : query -> res (option N)) (weight_error single : query -> response)
         (fmt : response -> response) (not_object_error : query -> response)
         (sink_ok : response -> bool),
    (forall r, sink_ok r = true) ->
    forall pol p_cfg p_run batch,
      1 <= p_run ->
      (forall q, In q batch -> ~ K grid later is_object invariant_error q) ->
      exists o, Batch.run (apply_input_plugins is_object invariant_error not_object_error (grid :: later))
                          weight weight_error single fmt sink_ok pol p_cfg p_run batch = Ok o
           /\ Permutation (responses pol o)
                          (flat_map (answer_ideal grid later is_object invariant_error
                                                  weight weight_error single fmt not_object_error) batch)
           /\ length (responses pol o)
              = list_sum (map (expanded_ideal grid later is_object invariant_error) batch).
Proof.
  intros N query response grid later is_object invariant_error weight weight_error single fmt noe sink_ok Hs.
  exact (run_perm_ideal grid later is_object invariant_error weight weight_error single fmt noe sink_ok Hs).
Qed.
(* ... inside K the whole query is answered by ONE error response, whatever the number of
   children and however many of them are good (faithful to the code; known finding) *)
Theorem c06_K_one_error_response :
  forall (N : Num) (query response : Type)
         (grid : @plugin query response) (later : list (@plugin query response))
         (is_object : query -> bool) (invariant_error : query -> response)
         (weight : query -> res (option N)) (weight_error single : query -> response)
         (fmt : response -> response) (not_object_error : query -> response) q,
    K grid later is_object invariant_error q ->
    exists e, Batch.answer (apply_input_plugins is_object invariant_error not_object_error (grid :: later))
                           weight weight_error single fmt q = [fmt e].
Proof.
  intros N query response grid later is_object invariant_error weight weight_error single fmt noe.
  exact (answer_inside_K grid later is_object invariant_error weight weight_error single fmt noe).
Qed.
(* witness: query 0 expands into 10, 11, 12, a later plugin rejects 11: the batch [1; 0] returns
   two responses, the one of query 1 and one error; the answers to 10 and 12 are lost *)
Theorem c06_K_witness :
  K exK_grid exK_later (fun _ => true) (fun _ => (-2)%Z) 0%Z
  /\ exK_ideal 0%Z = [100; 900; 102]%Z
  /\ exists o, exK_run PersistInMemory 2 2 [1; 0]%Z = Ok o /\ returned o = [103; 900]%Z.
Proof. exact K_witness. Qed.

(* independence: two runs that differ in the persistence policy, the configured and per-run
   parallelism, the order of the batch and the weight estimates (even their number type) answer
   the same multiset *)
Theorem c06_independent :
  forall (N N' : Num) (query response : Type)
         (plugins : query -> list query + response)
         (w : query -> res (option N)) (w' : query -> res (option N'))
         weight_error single fmt sink_ok,
    (forall r, sink_ok r = true) ->
    (forall q, is_ok (w q) = is_ok (w' q)) ->
    forall pol pol' p_cfg p_cfg' p_run p_run' batch batch',
      1 <= p_run -> 1 <= p_run' -> Permutation batch batch' ->
      exists o o',
        Batch.run plugins w weight_error single fmt sink_ok pol p_cfg p_run batch = Ok o
        /\ Batch.run plugins w' weight_error single fmt sink_ok pol' p_cfg' p_run' batch' = Ok o'
        /\ Permutation (responses pol o) (responses pol' o').
Proof. exact @run_independent. Qed.

(* the sink: whatever interleaving of the per-bin sequences the threads produce, the lines
   are a permutation of the canonical "bin after bin" order *)
Theorem c06_sink_any_schedule : forall (A : Type) (per_bin : list (list A)) lines,
    Merge per_bin lines -> Permutation lines (concat per_bin).
Proof. exact @Merge_perm. Qed.

(* shared mutable state.  A sequential worker that threads a state which never shows in the
   responses behaves like the stateless per-query function ... *)
Theorem c06_state_transparent :
  forall (S query response : Type) (step : S -> query -> response * S) (single : query -> response),
    (forall s q, fst (step s q) = single q) ->
    forall qs s, fst (run_seq step s qs) = map single qs.
Proof. exact @run_seq_transparent. Qed.
(* ... the prediction cache is such a state when the prediction is constant on every rounding
   cell of the cache key ... *)
Theorem c06_cache_transparent_if_stable : forall key f,
    (forall x y, key x = key y -> f x = f y) ->
    forall qs c, cache_inv key f c ->
            fst (run_seq (fun c x => predict key f c x) c qs) = map f qs.
Proof. exact cache_transparent_if_stable. Qed.
(* ... and otherwise the first colliding input decides (D-CACHE): responses depend on order *)
Theorem c06_cache_refuted :
  exists key f x y,
    fst (run_seq (fun c q => predict key f c q) [] [x; y]) = [f x; f x]
    /\ fst (run_seq (fun c q => predict key f c q) [] [y; x]) = [f y; f y]
    /\ f x <> f y.
Proof. exact cache_order_dependent. Qed.

(* statement pins *)
Check @c06_responses_perm :
  forall (N : Num) (query response : Type) (plugins : query -> list query + response)
         (weight : query -> res (option N)) (weight_error single : query -> response)
         (fmt : response -> response) (sink_ok : response -> bool),
    (forall r, sink_ok r = true) ->
    forall pol p_cfg p_run batch, 1 <= p_run ->
      exists o, Batch.run plugins weight weight_error single fmt sink_ok pol p_cfg p_run batch = Ok o
           /\ Permutation (responses pol o)
                          (flat_map (Batch.answer plugins weight weight_error single fmt) batch).
Check @c06_assign_partition :
  forall (N : Num) (query : Type) (weight : query -> res (option N)) qs p default bins,
    balance weight qs p default = Ok bins ->
    Permutation (concat bins) qs
    /\ Forall (fun bin => subseq bin qs) bins
    /\ ((qs = [] /\ bins = [])
        \/ (qs <> [] /\ length bins = p
            /\ exists asg, length asg = length qs /\ Forall (fun a => a < p) asg
                      /\ forall b, nth b bins [] = select b qs asg)).
Check @c06_count_eq :
  forall (N : Num) (query response : Type) (plugins : query -> list query + response)
         (weight : query -> res (option N)) (weight_error single : query -> response)
         (fmt : response -> response) (sink_ok : response -> bool),
    (forall r, sink_ok r = true) ->
    forall pol p_cfg p_run batch, 1 <= p_run ->
      exists o, Batch.run plugins weight weight_error single fmt sink_ok pol p_cfg p_run batch = Ok o
           /\ length (responses pol o) = list_sum (map (expanded plugins) batch).

Check @c06_one_response_per_expanded_query :
  forall (N : Num) (query response : Type)
         (grid : @plugin query response) (later : list (@plugin query response))
         (is_object : query -> bool) (invariant_error : query -> response)
         (weight : query -> res (option N)) (weight_error single : query -> response)
         (fmt : response -> response) (not_object_error : query -> response)
         (sink_ok : response -> bool),
    (forall r, sink_ok r = true) ->
    forall pol p_cfg p_run batch,
      1 <= p_run ->
      (forall q, In q batch -> ~ K grid later is_object invariant_error q) ->
      exists o, Batch.run (apply_input_plugins is_object invariant_error not_object_error (grid :: later))
                          weight weight_error single fmt sink_ok pol p_cfg p_run batch = Ok o
           /\ Permutation (responses pol o)
                          (flat_map (answer_ideal grid later is_object invariant_error
                                                  weight weight_error single fmt not_object_error) batch)
           /\ length (responses pol o)
              = list_sum (map (expanded_ideal grid later is_object invariant_error) batch).

(* non-vacuity: a concrete batch of 5 queries (grid-search expansion into 3, an input-plugin
   failure, an unreadable weight, weights 5 / default / 1/2 / default / 2, exact rationals) run by
   the model: configured parallelism 2 and per-run parallelism 3 gives three non-empty bins and 7
   responses; the reversed batch at parallelism 5/1 and the discard policy at 1/8 answer the
   same multiset; the hypotheses of the theorems hold for it *)
Example c06_nonvacuous :
  balance ex_weight [10; 11; 12; 14; 15]%Z 3 1%Q = Ok [[10]; [11; 15]; [12; 14]]%Z
  /\ (exists o, ex_run PersistInMemory 2 3 [0; 1; 2; 3; 4]%Z = Ok o
           /\ returned o = [100; 101; 105; 102; 104; 103; 104]%Z)
  /\ (exists o, ex_run PersistInMemory 5 1 [4; 3; 2; 1; 0]%Z = Ok o
           /\ returned o = [105; 104; 100; 101; 102; 103; 104]%Z)
  /\ (exists o, ex_run DiscardFromMemory 1 8 [0; 1; 2; 3; 4]%Z = Ok o
           /\ returned o = [103; 104]%Z /\ length (written o) = 7)
  /\ (forall q : Z, (fun _ : Z => true) q = true)
  /\ (forall c : Z, (fun r : Z => (r - 90)%Z) ((fun r : Z => r) (ex_single c)) = c).
Proof.
  split; [vm_compute; reflexivity|].
  split; [eexists; split; vm_compute; reflexivity|].
  split; [eexists; split; vm_compute; reflexivity|].
  split; [eexists; split; [vm_compute; reflexivity | split; vm_compute; reflexivity]|].
  split; [reflexivity|]. intros c. unfold ex_single. apply Z.add_simpl_r.
Qed.

Print Assumptions c06_chunks_concat.
Print Assumptions c06_assign_partition.
Print Assumptions c06_assign_total.
Print Assumptions c06_responses_perm.
Print Assumptions c06_sink_complete.
Print Assumptions c06_equals_alone.
Print Assumptions c06_count_eq.
Print Assumptions c06_failures_local.
Print Assumptions c06_request_echoed.
Print Assumptions c06_parallelism_zero.
Print Assumptions c06_one_response_per_expanded_query.
Print Assumptions c06_K_one_error_response.
Print Assumptions c06_K_witness.
Print Assumptions c06_independent.
Print Assumptions c06_sink_any_schedule.
Print Assumptions c06_state_transparent.
Print Assumptions c06_cache_transparent_if_stable.
Print Assumptions c06_cache_refuted.
Print Assumptions c06_nonvacuous.
