(* C07 - edge costs are finite and strictly positive; estimates are non-negative; under sum aggregation the
   charged cost is  sum_i w_i * rate_i(delta_i) + sum_i w_i * (edge surcharge_i + turn surcharge_i)  when that
   is positive and a tiny positive floor otherwise; linear in the weights; zero-weight features are ignored.

   All statements are about the cost model of Model/Cost.v read in exact rationals (QN): every number of
   features, every weight vector (zeros, negatives), every rate nesting, both aggregations, every pair of state
   vectors.  "finite" is vacuous in Q; overflow, NaN and rounding are outside these theorems (the correspondence
   stream executes the same model text in binary64 next to the Rust code and judges the implementation's output).

   This file contains only statements: each theorem is closed by [exact] of a lemma proved in Proofs/Cost.v. *)
From Coq Require Import ZArith QArith List Bool String.
From RC Require Import Base.Num Base.Res Model.Cost Model.CostSpec Proofs.Cost.
Import ListNotations.
Import Cost CostSpec.
Local Open Scope Q_scope.

(* the floor of the source is strictly positive *)
Theorem c07_min_cost_pos : 0 < MIN.
Proof. exact MIN_pos. Qed.

(* ---- strictly positive costs, non-negative estimates: whenever a cost is returned, for ANY configuration *)
Theorem c07_traversal_cost_pos : forall (cm : cost_model QN) e p n c, traversal_cost QN cm e p n = Ok c -> 0 < c.
Proof. exact traversal_cost_pos. Qed.
Theorem c07_access_cost_pos : forall (cm : cost_model QN) pe p n c, access_cost QN cm pe p n = Ok c -> 0 < c.
Proof. exact access_cost_pos. Qed.
Theorem c07_edge_cost_pos : forall (cm : cost_model QN) pe e p n c, edge_cost QN cm pe e p n = Ok c -> 0 < c.
Proof. exact edge_cost_pos. Qed.
Theorem c07_estimate_nonneg : forall (cm : cost_model QN) p n c, cost_estimate QN cm p n = Ok c -> 0 <= c.
Proof. exact estimate_nonneg. Qed.

(* ---- a cost IS returned exactly when both state vectors cover the state model *)
Theorem c07_entry_points_defined : forall (cm : cost_model QN) pe e p n, long_enough (cm_feats cm) p n ->
  (exists c, traversal_cost QN cm e p n = Ok c /\ c == floor_pos (raw_total (cm_agg cm) (cm_feats cm) None e p n))
  /\ (exists c, edge_cost QN cm pe e p n = Ok c /\ c == charge (cm_agg cm) (cm_feats cm) pe e p n)
  /\ (forall pe', exists c, access_cost QN cm pe' p n = Ok c
        /\ c == floor_pos (veh_total (cm_agg cm) (cm_feats cm) p n + turn_total (cm_agg cm) (cm_feats cm) (Some pe') p n))
  /\ (exists c, cost_estimate QN cm p n = Ok c /\ c == clip0 (veh_total (cm_agg cm) (cm_feats cm) p n)).
Proof.
  intros cm pe e p n H. split; [exact (traversal_cost_spec cm e p n H)|]. split; [exact (edge_cost_spec cm pe e p n H)|].
  split; [intros pe'; exact (access_cost_spec cm pe' p n H) | exact (cost_estimate_spec cm p n H)].
Qed.
Theorem c07_entry_points_err : forall (cm : cost_model QN) pe e p n, ~ long_enough (cm_feats cm) p n ->
  traversal_cost QN cm e p n = Err "StateIndexOutOfBounds"%string
  /\ edge_cost QN cm pe e p n = Err "StateIndexOutOfBounds"%string
  /\ (forall pe', access_cost QN cm pe' p n = Err "StateIndexOutOfBounds"%string)
  /\ cost_estimate QN cm p n = Err "StateIndexOutOfBounds"%string.
Proof. exact entry_points_err. Qed.

(* ---- EdgeTraversal: access share + traversal share = the floored total of the edge, which is positive *)
Theorem c07_split_sums_to_total : forall (cm : cost_model QN) this other d p sa st a t,
  edge_traversal QN cm this other d p sa st = Ok (a, t) ->
  exists tot, edge_cost QN cm (edge_pair this other d) this p st = Ok tot
    /\ total_cost QN (a, t) == tot /\ 0 < total_cost QN (a, t)
    /\ match edge_pair this other d with
       | None => a == 0
       | Some pe => exists ac, access_cost QN cm pe p sa = Ok ac /\ a == ac /\ 0 < a
       end.
Proof. exact split_sums_to_total. Qed.

(* ... and EdgeTraversal::total_cost() is strictly positive for ANY pair of stored shares: the floor is enforced on
   their sum as well.  In Q this is implied by the split; in binary64 `access + (total - access)` can round to zero
   (access share >= 2^51 x edge total), and it is this floor on the sum that keeps the charged cost > 0 there. *)
Theorem c07_total_cost_pos : forall et : Q * Q, 0 < total_cost QN et.
Proof. exact total_cost_pos. Qed.

(* ---- sum aggregation: the sentence of the property *)
Theorem c07_sum_charge_spec : forall (fs : list (feat QN)) pe e p n, long_enough fs p n ->
  exists c, edge_cost QN (Build_cost_model fs ASum) pe e p n = Ok c
    /\ c == floor_pos (sum_form fs pe e p n).
Proof. exact sum_charge_spec. Qed.
(* ... where floor_pos is "the value when positive, the floor otherwise" *)
Theorem c07_floor_pos_spec : forall x, (0 < x -> floor_pos x = x) /\ (x <= 0 -> floor_pos x = MIN).
Proof. exact floor_pos_spec. Qed.
(* ... rate_i is the affine map the configuration denotes, at every nesting depth, and the surcharges are the
   sums of the configured table hits *)
Theorem c07_rate_is_affine : forall (r : vrate Q) (x : Q), map_value QN r x == fst (affine r) * x + snd (affine r).
Proof. exact map_value_rated. Qed.
Theorem c07_edge_surcharge : forall (r : nrate Q) e, n_traversal QN r e == edge_fee r e.
Proof. exact n_traversal_fee. Qed.
Theorem c07_turn_surcharge : forall (r : nrate Q) pe, n_access QN r pe == turn_fee r pe.
Proof. exact n_access_fee. Qed.

(* ---- surcharges configured through CSV files (NetworkCostRateBuilder): whatever the nesting of `combined`, the rate
   the builder returns charges for every edge / edge pair the SUM over ALL configured tables (a table's value for a
   key = its last row with that key, 0 if none); no table is dropped, merged or overridden by another *)
Theorem c07_builder_charges_sum_of_tables : forall (b : nbuilder Q) r, nbuild b = Ok r ->
  (forall e, n_traversal QN r e == builder_edge_fee b e) /\ (forall pe, n_access QN r pe == builder_turn_fee b pe).
Proof. exact nbuild_charged. Qed.
Example c07_builder_nonvacuous : exists r, nbuild ex_builder = Ok r
  /\ n_traversal QN r 7%Z == 11 # 2 /\ n_access QN r (3%Z, 7%Z) == 3 # 2 /\ n_traversal QN r 5%Z == 0.
Proof. exact ex_builder_sums. Qed.

(* ---- linear in the weights (before the floor), and on the model: the charge for weights ca*u + cb*v *)
Theorem c07_sum_linear_in_weights : forall ca u cb v fs pe e p n,
  List.length u = List.length fs -> List.length v = List.length fs ->
  raw_total ASum (reweight (lincomb ca u cb v) fs) pe e p n
  == ca * raw_total ASum (reweight u fs) pe e p n + cb * raw_total ASum (reweight v fs) pe e p n.
Proof. exact sum_linear_in_weights. Qed.
Theorem c07_sum_charge_linear : forall ca u cb v fs pe e p n,
  List.length u = List.length fs -> List.length v = List.length fs -> long_enough fs p n ->
  exists c, edge_cost QN (Build_cost_model (reweight (lincomb ca u cb v) fs) ASum) pe e p n = Ok c
    /\ c == floor_pos (ca * sum_form (reweight u fs) pe e p n + cb * sum_form (reweight v fs) pe e p n).
Proof. exact sum_charge_linear. Qed.

(* ---- a zero-weight feature (its rates, its surcharges, its slot of both state vectors) is ignored *)
Theorem c07_zero_weight_ignored : forall fs1 f fs2 p1 x p2 n1 y n2 pe e,
  fw f == 0 -> List.length p1 = List.length fs1 -> List.length n1 = List.length fs1 ->
  long_enough fs2 p2 n2 ->
  exists c c',
    edge_cost QN (Build_cost_model (fs1 ++ f :: fs2) ASum) pe e (p1 ++ x :: p2) (n1 ++ y :: n2) = Ok c
    /\ edge_cost QN (Build_cost_model (fs1 ++ fs2) ASum) pe e (p1 ++ p2) (n1 ++ n2) = Ok c'
    /\ c == c'.
Proof. exact zero_weight_ignored. Qed.

(* ---- what is NOT true (witnesses by computation) *)
(* the floor is not a lower bound: totals in (0, MIN_COST) are charged as they are *)
Theorem c07_cost_ge_min_cost_refuted :
  exists (cm : cost_model QN) e p n c, traversal_cost QN cm e p n = Ok c /\ 0 < c /\ c < MIN.
Proof. exact floor_is_not_a_lower_bound. Qed.
(* the sum hypothesis of zero_weight_ignored is necessary: under Mul a zero weight annihilates the product *)
Theorem c07_mul_zero_weight_ignored_refuted :
  exists f1 f0 a b x y c c',
    fw f0 == 0
    /\ edge_cost QN (Build_cost_model [f1; f0] AMul) None 0%Z [a; x] [b; y] = Ok c
    /\ edge_cost QN (Build_cost_model [f1] AMul) None 0%Z [a] [b] = Ok c'
    /\ ~ c == c'.
Proof. exact mul_zero_weight_not_ignored. Qed.

(* statement pins: editing a statement above without editing the pin breaks the build *)
Check c07_edge_cost_pos : forall (cm : cost_model QN) pe e p n c, edge_cost QN cm pe e p n = Ok c -> 0 < c.
Check c07_estimate_nonneg : forall (cm : cost_model QN) p n c, cost_estimate QN cm p n = Ok c -> 0 <= c.
Check c07_sum_charge_spec : forall (fs : list (feat QN)) pe e p n, long_enough fs p n ->
  exists c, edge_cost QN (Build_cost_model fs ASum) pe e p n = Ok c /\ c == floor_pos (sum_form fs pe e p n).
Check c07_split_sums_to_total : forall (cm : cost_model QN) this other d p sa st a t,
  edge_traversal QN cm this other d p sa st = Ok (a, t) ->
  exists tot, edge_cost QN cm (edge_pair this other d) this p st = Ok tot
    /\ total_cost QN (a, t) == tot /\ 0 < total_cost QN (a, t)
    /\ match edge_pair this other d with
       | None => a == 0
       | Some pe => exists ac, access_cost QN cm pe p sa = Ok ac /\ a == ac /\ 0 < a
       end.

(* non-vacuity: three features (negative weight, rate nested three deep, per-edge and per-turn surcharge that hit,
   a negative state change, one zero-weight feature) meet the hypotheses; the charge is 135/4, neither the floor
   nor a plain state change; the same configuration with a large regain is floored *)
Example c07_nonvacuous :
  long_enough ex_fs ex_p ex_n
  /\ (exists c, edge_cost QN (Build_cost_model ex_fs ASum) (Some (6%Z, 7%Z)) 7%Z ex_p ex_n = Ok c
        /\ c == 135 # 4 /\ ~ c == MIN)
  /\ sum_form ex_fs (Some (6%Z, 7%Z)) 7%Z ex_p ex_n == 135 # 4
  /\ (exists c, edge_cost QN (Build_cost_model ex_fs ASum) None 7%Z [10; 8; 0] [0; 30; 0] = Ok c /\ c == MIN).
Proof. exact (conj ex_long (conj ex_charge (conj ex_sum_form ex_floor))). Qed.

Print Assumptions c07_min_cost_pos.
Print Assumptions c07_traversal_cost_pos.
Print Assumptions c07_access_cost_pos.
Print Assumptions c07_edge_cost_pos.
Print Assumptions c07_estimate_nonneg.
Print Assumptions c07_entry_points_defined.
Print Assumptions c07_entry_points_err.
Print Assumptions c07_split_sums_to_total.
Print Assumptions c07_total_cost_pos.
Print Assumptions c07_sum_charge_spec.
Print Assumptions c07_floor_pos_spec.
Print Assumptions c07_rate_is_affine.
Print Assumptions c07_edge_surcharge.
Print Assumptions c07_turn_surcharge.
Print Assumptions c07_builder_charges_sum_of_tables.
Print Assumptions c07_builder_nonvacuous.
Print Assumptions c07_sum_linear_in_weights.
Print Assumptions c07_sum_charge_linear.
Print Assumptions c07_zero_weight_ignored.
Print Assumptions c07_cost_ge_min_cost_refuted.
Print Assumptions c07_mul_zero_weight_ignored_refuted.
Print Assumptions c07_nonvacuous.
