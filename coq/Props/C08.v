(* C08 - vehicle energy and battery state follow the powertrain model along a route.

   Statements only (each closed by [exact] of a lemma of Proofs/Vehicle*.v), about the
   exact-rational reading [QN] of Model/Vehicle.v + Model/EnergyTraversal.v:
     - the predictor is ANY function [pm_rate] that respects equality of rationals ([rate_proper]);
     - every edge sequence (any length) whose edges the time model accepts ([edge_ok]: positive
       table speed and length, ids inside the tables); a rejected edge yields Err ([c08_edge_rejected]);
     - every unit configuration: the units of the time model, the service, the prediction model, the
       battery and of the state features are universally quantified;
     - the state model is EnergyTraversalModel::state_features() ([c08_state_model_*]);
     - without prediction cache ([pm_cache = None]); with a cache see [c08_cache_transparent] and the
       witness [c08_cache_collision_refuted] (known limitation D-CACHE).
   The law of one edge, [VehicleSpec.edge_law], is the specification: energy recorded =
   rate(speed', grade') * adjustment * length (closed form [spec_energy]), charge step
   = clamp(soc - 100 E / capacity), charge in [0, 100], PHEV electric / liquid by the charge at entry. *)
From Coq Require Import ZArith QArith Qabs Qround String List Bool Lqa Morphisms.
From RC Require Import Base.Num Base.Res Model.Units Model.UnitsRun Model.Vehicle Model.EnergyTraversal
  Model.VehicleSpec Proofs.Vehicle Proofs.VehicleEdge Proofs.VehicleRoute Proofs.VehicleStart Proofs.VehicleCache.
Import ListNotations.
Import Units UnitsRun Vehicle EnergyTraversal VehicleSpec.
Local Open Scope Q_scope.

(* ------------------------------------------------------------------ every route follows the law *)
Theorem c08_route_ice : forall (en : @engine QN) (sv : @service QN) ftu fdu (r : pmr QN) fl,
  pm_cache r = None -> rate_proper r ->
  forall es, Forall (edge_ok en sv) es -> forall (l0 t d : Q) c1 c2,
  exists states,
    run_edges QN (speed_traverse QN en) sv (ICE r) es [l0; t; d] (sm_ice ftu fdu fl) (c1, c2) = map (@Ok (state QN)) states
    /\ chain (edge_law en sv (ICE r) (sm_ice ftu fdu fl)) es [l0; t; d] states
    /\ route_state QN (speed_traverse QN en) sv (ICE r) es [l0; t; d] (sm_ice ftu fdu fl) (c1, c2)
       = Ok (last states [l0; t; d], (c1, c2)).
Proof. exact route_ice. Qed.

Theorem c08_route_bev : forall (en : @engine QN) (sv : @service QN) ftu fdu (r : pmr QN) (cap start s_init : Q) bu fe,
  pm_cache r = None -> rate_proper r -> 0 < cap ->
  forall es, Forall (edge_ok en sv) es -> forall (e0 s t d : Q) c1 c2,
  exists states,
    run_edges QN (speed_traverse QN en) sv (BEV r cap start bu) es [e0; s; t; d] (sm_bev ftu fdu s_init fe) (c1, c2)
    = map (@Ok (state QN)) states
    /\ chain (edge_law en sv (BEV r cap start bu) (sm_bev ftu fdu s_init fe)) es [e0; s; t; d] states
    /\ route_state QN (speed_traverse QN en) sv (BEV r cap start bu) es [e0; s; t; d] (sm_bev ftu fdu s_init fe) (c1, c2)
       = Ok (last states [e0; s; t; d], (c1, c2)).
Proof. exact route_bev. Qed.

Theorem c08_route_phev : forall (en : @engine QN) (sv : @service QN) ftu fdu (cs cd : pmr QN) (cap start s_init : Q) bu fe fl,
  pm_cache cs = None -> pm_cache cd = None -> rate_proper cs -> rate_proper cd -> 0 < cap ->
  forall es, Forall (edge_ok en sv) es -> forall (e0 s l0 t d : Q) c1 c2,
  exists states,
    run_edges QN (speed_traverse QN en) sv (PHEV cs cd cap start bu) es [e0; s; l0; t; d] (sm_phev ftu fdu s_init fe fl) (c1, c2)
    = map (@Ok (state QN)) states
    /\ chain (edge_law en sv (PHEV cs cd cap start bu) (sm_phev ftu fdu s_init fe fl)) es [e0; s; l0; t; d] states
    /\ route_state QN (speed_traverse QN en) sv (PHEV cs cd cap start bu) es [e0; s; l0; t; d]
                   (sm_phev ftu fdu s_init fe fl) (c1, c2)
       = Ok (last states [e0; s; l0; t; d], (c1, c2)).
Proof. exact route_phev. Qed.

(* edge_energy_spec, one edge spelled out for the BEV: recorded energy and the charge *)
Theorem c08_edge_energy_spec_bev : forall (en : @engine QN) (sv : @service QN) ftu fdu (ed : @edge QN) (v g : Q),
  nth_error (en_speeds en) (e_id ed) = Some v -> 0 < v -> 0 < e_dist ed ->
  get_grade QN (sv_grades sv) (e_id ed) = Ok g ->
  forall (r : pmr QN) (cap start s_init : Q) bu fe, pm_cache r = None -> rate_proper r -> 0 < cap ->
  forall (e0 s t d : Q) (c1 c2 : cache QN),
  exists e1 s1 : Q,
    traverse_edge QN (speed_traverse QN en) sv (BEV r cap start bu) ed [e0; s; t; d] (sm_bev ftu fdu s_init fe) (c1, c2)
    = Ok ([e1; s1; t_next en ftu t (e_dist ed) v; d_next en fdu d (e_dist ed)], (c1, c2))
    /\ e1 == e0 + spec_energy en ftu sv r v g (e_dist ed) * k_energy (energy_rate_energy_unit (pm_eru r)) fe
    /\ s1 == spec_soc s (spec_energy en ftu sv r v g (e_dist ed) * k_energy (energy_rate_energy_unit (pm_eru r)) bu) cap.
Proof. exact bev_edge. Qed.

(* the speed handed to the predictor: table speed * the product of the conversion factors involved;
   relative to the exact SI conversion of the table speed that product is [tau], within 0.3 % of 1 for
   all 2160 unit configurations and exactly 1 when every unit is the base unit *)
Theorem c08_speed_is_tau_times_table_speed : forall (en : @engine QN) ftu (sv : @service QN) (r : pmr QN) (v : Q),
  spec_speed en ftu sv r v == tau en ftu sv (pm_su r) * (v * (si_speed (en_su en) / si_speed (pm_su r))).
Proof. exact spec_speed_tau. Qed.
Theorem c08_tau_within_tolerance : forall esu edu etu ftu ssu msu,
  Qabs (tau (VehicleSpec.mk_engine esu edu etu) ftu (VehicleSpec.mk_service ssu) msu - 1) <= (3 # 1000) * Qabs 1.
Proof. exact tau_within. Qed.
Theorem c08_tau_base_units :
  tau (VehicleSpec.mk_engine MetersPerSecond Meters Seconds) Seconds (VehicleSpec.mk_service MetersPerSecond) MetersPerSecond == 1.
Proof. exact tau_base_units. Qed.

(* ------------------------------------------------------------------ additivity *)
Theorem c08_energy_additive_ice : forall (en : @engine QN) (sv : @service QN) ftu fdu (r : pmr QN) fl es st states,
  chain (edge_law en sv (ICE r) (sm_ice ftu fdu fl)) es st states ->
  slot (sm_ice ftu fdu fl) (last states st) n_liquid
  == slot (sm_ice ftu fdu fl) st n_liquid + sumQ (map (edge_energy_in en ftu sv r fl) es).
Proof. exact additive_ice. Qed.
Theorem c08_energy_additive_bev : forall (en : @engine QN) (sv : @service QN) ftu fdu (r : pmr QN) (cap start s_init : Q) bu fe
                                         es st states,
  chain (edge_law en sv (BEV r cap start bu) (sm_bev ftu fdu s_init fe)) es st states ->
  slot (sm_bev ftu fdu s_init fe) (last states st) n_electric
  == slot (sm_bev ftu fdu s_init fe) st n_electric + sumQ (map (edge_energy_in en ftu sv r fe) es).
Proof. exact additive_bev. Qed.
Theorem c08_energy_additive_phev : forall (en : @engine QN) (sv : @service QN) ftu fdu (cs cd : pmr QN) (cap start s_init : Q)
                                          bu fe fl es st states,
  let sm := sm_phev ftu fdu s_init fe fl in
  chain (edge_law en sv (PHEV cs cd cap start bu) sm) es st states ->
  slot sm (last states st) n_electric
    == slot sm st n_electric + sum_along (phev_w_electric en sv ftu cd sm fe) es st states
  /\ slot sm (last states st) n_liquid
    == slot sm st n_liquid + sum_along (phev_w_liquid en sv ftu cs sm fl) es st states.
Proof. exact additive_phev. Qed.

(* ------------------------------------------------------------------ state of charge *)
Theorem c08_soc_in_range_bev : forall (en : @engine QN) (sv : @service QN) ftu fdu (r : pmr QN) (cap start s_init : Q) bu fe
                                      es st states,
  chain (edge_law en sv (BEV r cap start bu) (sm_bev ftu fdu s_init fe)) es st states ->
  Forall (fun x => in_0_100 (slot (sm_bev ftu fdu s_init fe) x n_soc)) states.
Proof. exact soc_range_bev. Qed.
Theorem c08_soc_in_range_phev : forall (en : @engine QN) (sv : @service QN) ftu fdu (cs cd : pmr QN) (cap start s_init : Q)
                                       bu fe fl es st states,
  chain (edge_law en sv (PHEV cs cd cap start bu) (sm_phev ftu fdu s_init fe fl)) es st states ->
  Forall (fun x => in_0_100 (slot (sm_phev ftu fdu s_init fe fl) x n_soc)) states.
Proof. exact soc_range_phev. Qed.
(* the initial value, whatever the starting energy *)
Theorem c08_soc_initial_in_range : forall rem cap : Q, 0 < cap -> in_0_100 (as_soc_percent QN rem cap).
Proof. exact start_soc_in_range. Qed.

Theorem c08_soc_step_unclamped : forall (en : @engine QN) (sv : @service QN) ftu fdu (r : pmr QN) (cap start s_init : Q) bu fe
                                        e prev cur,
  let sm := sm_bev ftu fdu s_init fe in
  edge_law en sv (BEV r cap start bu) sm e prev cur ->
  let used := edge_energy_in en ftu sv r bu e in
  0 <= slot sm prev n_soc - 100 * used / cap -> slot sm prev n_soc - 100 * used / cap <= 100 ->
  slot sm cur n_soc == slot sm prev n_soc - 100 * used / cap.
Proof. exact soc_step_bev. Qed.

(* PHEV: electricity only on an edge entered with charge, liquid fuel only on an edge entered empty *)
Theorem c08_phev_switch : forall (en : @engine QN) (sv : @service QN) ftu fdu (cs cd : pmr QN) (cap start s_init : Q) bu fe fl
                                 e prev cur,
  let sm := sm_phev ftu fdu s_init fe fl in
  edge_law en sv (PHEV cs cd cap start bu) sm e prev cur ->
  (0 < slot sm prev n_soc -> slot sm cur n_liquid == slot sm prev n_liquid)
  /\ (slot sm prev n_soc <= 0 -> slot sm cur n_electric == slot sm prev n_electric).
Proof.
  intros en sv ftu fdu cs cd cap start s_init bu fe fl e prev cur sm [Hc [He _]]. split.
  - intros H. exact (proj1 (Hc H)).
  - intros H. exact (proj1 (He H)).
Qed.

(* ------------------------------------------------------------------ start charge *)
Theorem c08_start_soc_rejected_bev : forall (r : pmr QN) (cap st : Q) bu (q : Q), q < 0 \/ 100 < q ->
  update_from_query QN (BEV r cap st bu) (QNumber q) = Err e_build.
Proof. exact bev_start_rejected. Qed.
Theorem c08_start_soc_rejected_phev : forall (cs cd : pmr QN) (cap st : Q) bu (q : Q), q < 0 \/ 100 < q ->
  update_from_query QN (PHEV cs cd cap st bu) (QNumber q) = Err e_build.
Proof. exact phev_start_rejected. Qed.
Theorem c08_start_soc_non_numeric : forall (r cs cd : pmr QN) (cap st : Q) bu,
  update_from_query QN (BEV r cap st bu) QNonNumeric = Err e_build
  /\ update_from_query QN (PHEV cs cd cap st bu) QNonNumeric = Err e_build.
Proof. intros. split; reflexivity. Qed.
(* as the code has it: a PHEV query must carry the key *)
Theorem c08_start_soc_missing_phev : forall (cs cd : pmr QN) (cap st : Q) bu,
  update_from_query QN (PHEV cs cd cap st bu) QMissing = Err e_build.
Proof. exact phev_start_missing. Qed.
Theorem c08_bev_default_100 : forall (r : pmr QN) (cap st : Q) bu, 0 < cap ->
  update_from_query QN (BEV r cap st bu) QMissing = Ok (BEV r cap (starting_energy QN 100 cap) bu)
  /\ as_soc_percent QN (starting_energy QN 100 cap) cap == 100.
Proof.
  intros r cap st bu Hc. split; [exact (bev_start_default r cap st bu)|].
  apply start_soc_value; [exact Hc | lra | lra].
Qed.
(* the state of charge starts at the query's value *)
Theorem c08_start_soc_is_query_value : forall (r cs cd : pmr QN) (cap st : Q) bu (q : Q), 0 < cap -> 0 <= q -> q <= 100 ->
  update_from_query QN (BEV r cap st bu) (QNumber q) = Ok (BEV r cap (starting_energy QN q cap) bu)
  /\ update_from_query QN (PHEV cs cd cap st bu) (QNumber q) = Ok (PHEV cs cd cap (starting_energy QN q cap) bu)
  /\ as_soc_percent QN (starting_energy QN q cap) cap == q.
Proof.
  intros r cs cd cap st bu q Hc H0 H1. split; [exact (bev_start_accepted r cap st bu q H0 H1)|].
  split; [exact (phev_start_accepted cs cd cap st bu q H0 H1) | exact (start_soc_value q cap Hc H0 H1)].
Qed.

(* the state model the theorems speak about IS EnergyTraversalModel::state_features() extended into an
   empty StateModel; the initial state holds the start charge *)
Theorem c08_state_model_bev : forall (en : @engine QN) (r : pmr QN) (cap st : Q) bu,
  extend QN [] (EnergyTraversal.state_features QN (BEV r cap st bu) (speed_features QN en))
  = Ok (sm_bev (en_tu en) (en_du en) (as_soc_percent QN st cap) bu)
  /\ initial_state QN (sm_bev (en_tu en) (en_du en) (as_soc_percent QN st cap) bu) = [0; as_soc_percent QN st cap; 0; 0].
Proof. intros. split; reflexivity. Qed.
Theorem c08_state_model_ice : forall (en : @engine QN) (r : pmr QN),
  extend QN [] (EnergyTraversal.state_features QN (ICE r) (speed_features QN en))
  = Ok (sm_ice (en_tu en) (en_du en) (energy_rate_energy_unit (pm_eru r))).
Proof. exact canonical_ice. Qed.
Theorem c08_state_model_phev : forall (en : @engine QN) (cs cd : pmr QN) (cap st : Q) bu,
  extend QN [] (EnergyTraversal.state_features QN (PHEV cs cd cap st bu) (speed_features QN en))
  = Ok (sm_phev (en_tu en) (en_du en) (as_soc_percent QN st cap) bu (energy_rate_energy_unit (pm_eru cs))).
Proof. exact canonical_phev. Qed.

(* end to end for a battery vehicle: query value -> update_from_query -> state_features -> initial state ->
   any route: the charge starts at the query's value, every edge follows the law, the charge never leaves [0, 100] *)
Theorem c08_bev_end_to_end : forall (en : @engine QN) (sv : @service QN) (r : pmr QN) (cap st : Q) bu (q : Q),
  pm_cache r = None -> rate_proper r -> 0 < cap -> 0 <= q -> q <= 100 ->
  forall es, Forall (edge_ok en sv) es ->
  exists v' sm st0 states,
    update_from_query QN (BEV r cap st bu) (QNumber q) = Ok v'
    /\ extend QN [] (EnergyTraversal.state_features QN v' (speed_features QN en)) = Ok sm
    /\ initial_state QN sm = st0
    /\ slot sm st0 n_soc == q
    /\ run_edges QN (speed_traverse QN en) sv v' es st0 sm ([], []) = map (@Ok (state QN)) states
    /\ chain (edge_law en sv v' sm) es st0 states
    /\ Forall (fun x => in_0_100 (slot sm x n_soc)) states.
Proof.
  intros en sv r cap st bu q Hnc Hp Hc H0 H1 es Hes.
  set (s0 := as_soc_percent QN (starting_energy QN q cap) cap).
  destruct (route_bev en sv (en_tu en) (en_du en) r cap (starting_energy QN q cap) s0 bu bu Hnc Hp Hc es Hes 0 s0 0 0 [] [])
    as [states [Hrun [Hchain _]]].
  exists (BEV r cap (starting_energy QN q cap) bu), (sm_bev (en_tu en) (en_du en) s0 bu), [0; s0; 0; 0], states.
  split; [exact (bev_start_accepted r cap st bu q H0 H1)|].
  split; [reflexivity|]. split; [reflexivity|].
  split; [exact (start_soc_value q cap Hc H0 H1)|].
  split; [exact Hrun|]. split; [exact Hchain|].
  exact (soc_range_bev en sv (en_tu en) (en_du en) r cap _ s0 bu bu es _ states Hchain).
Qed.

(* ------------------------------------------------------------------ best case *)
Theorem c08_best_case_spec : forall (v : vehicle QN) (d : Q) du,
  let r := match v with ICE r | BEV r _ _ _ => r | PHEV _ cd _ _ _ => cd end in
  exists e : Q, best_case_energy QN v d du = Ok (e, energy_rate_energy_unit (pm_eru r))
    /\ e == pm_ideal r * (d * k_dist du (energy_rate_distance_unit (pm_eru r))).
Proof. exact best_case_value. Qed.
Theorem c08_best_case_state_ice : forall (sv : @service QN) ftu fdu (r : pmr QN) fl (hav_m l0 t d : Q),
  exists l1 : Q,
    best_case_energy_state QN (ICE r) (convert_distance QN Meters (sv_du sv) hav_m) (sv_du sv) [l0; t; d] (sm_ice ftu fdu fl)
    = Ok [l1; t; d]
    /\ l1 == l0 + spec_best_case sv r hav_m * k_energy (energy_rate_energy_unit (pm_eru r)) fl.
Proof. exact best_case_state_ice. Qed.
(* BEV / PHEV (after fix 0840f02): the recorded best-case energy is ideal rate * distance converted from the
   rate's energy unit into the feature's unit, and the charge step uses it converted into the battery unit *)
Theorem c08_best_case_state_bev : forall (sv : @service QN) ftu fdu (r : pmr QN) (cap st : Q) bu fe (s_init hav_m e0 s t d : Q),
  0 < cap ->
  exists e1 s1 : Q,
    best_case_energy_state QN (BEV r cap st bu) (convert_distance QN Meters (sv_du sv) hav_m) (sv_du sv)
                           [e0; s; t; d] (sm_bev ftu fdu s_init fe)
    = Ok [e1; s1; t; d]
    /\ e1 == e0 + spec_best_case sv r hav_m * k_energy (energy_rate_energy_unit (pm_eru r)) fe
    /\ s1 == spec_soc s (spec_best_case sv r hav_m * k_energy (energy_rate_energy_unit (pm_eru r)) bu) cap.
Proof. exact best_case_state_bev. Qed.
Theorem c08_best_case_state_phev : forall (sv : @service QN) ftu fdu (cs cd : pmr QN) (cap st : Q) bu fe fl
                                          (s_init hav_m e0 s l0 t d : Q), 0 < cap ->
  exists e1 s1 : Q,
    best_case_energy_state QN (PHEV cs cd cap st bu) (convert_distance QN Meters (sv_du sv) hav_m) (sv_du sv)
                           [e0; s; l0; t; d] (sm_phev ftu fdu s_init fe fl)
    = Ok [e1; s1; l0; t; d]
    /\ e1 == e0 + spec_best_case sv cd hav_m * k_energy (energy_rate_energy_unit (pm_eru cd)) fe
    /\ s1 == spec_soc s (spec_best_case sv cd hav_m * k_energy (energy_rate_energy_unit (pm_eru cd)) bu) cap.
Proof. exact best_case_state_phev. Qed.

(* ------------------------------------------------------------------ rejected edges *)
Theorem c08_edge_rejected : forall (en : @engine QN) (sv : @service QN) (v : vehicle QN) (ed : @edge QN) st sm cc (s : Q),
  nth_error (en_speeds en) (e_id ed) = Some s -> s <= 0 \/ e_dist ed <= 0 ->
  traverse_edge QN (speed_traverse QN en) sv v ed st sm cc = Err e_units_time.
Proof. exact edge_rejected. Qed.

(* ------------------------------------------------------------------ prediction cache *)
(* with the cache, and as long as no two inputs with different rates share a rounded key, a prediction
   is the uncached prediction and the cache stays sound *)
Theorem c08_cache_transparent : forall (r : pmr QN) (cfg : cache_cfg QN), pm_cache r = Some cfg ->
  forall su gu, key_faithful r cfg su gu ->
  forall (c : cache QN) (speed grade distance : Q) du, cache_sound r cfg su gu c ->
  exists (e : Q) (c' : cache QN),
    predict QN r speed su grade gu distance du c = Ok ((e, energy_rate_energy_unit (pm_eru r)), c')
    /\ e == @mul QN (@mul QN (model_predict QN r speed su grade gu) (pm_adj r))
                    (convert_distance QN du (energy_rate_distance_unit (pm_eru r)) distance)
    /\ cache_sound r cfg su gu c'.
Proof. exact cache_transparent. Qed.

(* D-CACHE: with colliding keys the property fails of the faithful model -- the second of two edges
   whose speeds round to one key (precision 1: 30.04 and 29.96 -> 300) is charged at the first one's
   rate.  Record: rate = speed, adjustment 1, kWh per meter; keys round(10 * speed), round(1000 * grade). *)
Definition round_half_up (x : Q) : Z := Qfloor (x + (1 # 2)).
Definition ex_cache_rec : pmr QN :=
  @Build_pmr QN (fun s g : Q => s) MetersPerSecond Decimal KilowattHoursPerMeter 0 1
            (Some (@Build_cache_cfg QN 100%nat (fun s g : Q => [round_half_up (s * 10); round_half_up (g * 1000)]))).
Theorem c08_cache_collision_refuted :
  exists (s1 s2 : Q) (c : cache QN) e2,
    (exists e1, predict QN ex_cache_rec s1 MetersPerSecond 0 Decimal 1 Meters [] = Ok (e1, c))
    /\ predict QN ex_cache_rec s2 MetersPerSecond 0 Decimal 1 Meters c = Ok ((e2, KilowattHours), c)
    /\ ~ e2 == pm_rate ex_cache_rec s2 0 * pm_adj ex_cache_rec * 1.
Proof.
  exists (3004 # 100), (2996 # 100). eexists. eexists. split; [eexists; vm_compute; reflexivity|].
  split; [vm_compute; reflexivity|]. intro H. vm_compute in H. discriminate H.
Qed.

(* ------------------------------------------------------------------ statement pins *)
Check c08_route_bev : forall (en : @engine QN) (sv : @service QN) ftu fdu (r : pmr QN) (cap start s_init : Q) bu fe,
  pm_cache r = None -> rate_proper r -> 0 < cap ->
  forall es, Forall (edge_ok en sv) es -> forall (e0 s t d : Q) c1 c2,
  exists states,
    run_edges QN (speed_traverse QN en) sv (BEV r cap start bu) es [e0; s; t; d] (sm_bev ftu fdu s_init fe) (c1, c2)
    = map (@Ok (state QN)) states
    /\ chain (edge_law en sv (BEV r cap start bu) (sm_bev ftu fdu s_init fe)) es [e0; s; t; d] states
    /\ route_state QN (speed_traverse QN en) sv (BEV r cap start bu) es [e0; s; t; d] (sm_bev ftu fdu s_init fe) (c1, c2)
       = Ok (last states [e0; s; t; d], (c1, c2)).
Check c08_route_phev : forall (en : @engine QN) (sv : @service QN) ftu fdu (cs cd : pmr QN) (cap start s_init : Q) bu fe fl,
  pm_cache cs = None -> pm_cache cd = None -> rate_proper cs -> rate_proper cd -> 0 < cap ->
  forall es, Forall (edge_ok en sv) es -> forall (e0 s l0 t d : Q) c1 c2,
  exists states,
    run_edges QN (speed_traverse QN en) sv (PHEV cs cd cap start bu) es [e0; s; l0; t; d] (sm_phev ftu fdu s_init fe fl) (c1, c2)
    = map (@Ok (state QN)) states
    /\ chain (edge_law en sv (PHEV cs cd cap start bu) (sm_phev ftu fdu s_init fe fl)) es [e0; s; l0; t; d] states
    /\ route_state QN (speed_traverse QN en) sv (PHEV cs cd cap start bu) es [e0; s; l0; t; d]
                   (sm_phev ftu fdu s_init fe fl) (c1, c2)
       = Ok (last states [e0; s; l0; t; d], (c1, c2)).
Check c08_energy_additive_bev : forall (en : @engine QN) (sv : @service QN) ftu fdu (r : pmr QN) (cap start s_init : Q) bu fe
                                       es st states,
  chain (edge_law en sv (BEV r cap start bu) (sm_bev ftu fdu s_init fe)) es st states ->
  slot (sm_bev ftu fdu s_init fe) (last states st) n_electric
  == slot (sm_bev ftu fdu s_init fe) st n_electric + sumQ (map (edge_energy_in en ftu sv r fe) es).
Check c08_soc_in_range_bev : forall (en : @engine QN) (sv : @service QN) ftu fdu (r : pmr QN) (cap start s_init : Q) bu fe
                                    es st states,
  chain (edge_law en sv (BEV r cap start bu) (sm_bev ftu fdu s_init fe)) es st states ->
  Forall (fun x => 0 <= slot (sm_bev ftu fdu s_init fe) x n_soc /\ slot (sm_bev ftu fdu s_init fe) x n_soc <= 100) states.
Check c08_start_soc_rejected_bev : forall (r : pmr QN) (cap st : Q) bu (q : Q), q < 0 \/ 100 < q ->
  update_from_query QN (BEV r cap st bu) (QNumber q) = Err "BuildError"%string.
(* the law itself, spelled out for the BEV (so that an edit of VehicleSpec.edge_law is noticed) *)
Check (fun (en : @engine QN) (sv : @service QN) (r : pmr QN) (cap st : Q) bu sm e prev cur => eq_refl :
  edge_law en sv (BEV r cap st bu) sm e prev cur
  = (slot sm cur n_electric == slot sm prev n_electric
       + spec_energy en (feature_time_unit sm) sv r (edge_speed en e) (edge_grade sv e) (e_dist e)
         * k_energy (energy_rate_energy_unit (pm_eru r)) (feature_energy_unit sm n_electric)
     /\ slot sm cur n_soc
        == spec_soc (slot sm prev n_soc)
             (spec_energy en (feature_time_unit sm) sv r (edge_speed en e) (edge_grade sv e) (e_dist e)
              * k_energy (energy_rate_energy_unit (pm_eru r)) bu) cap
     /\ in_0_100 (slot sm cur n_soc))).
Check (fun (en : @engine QN) ftu (sv : @service QN) (r : pmr QN) (v g d : Q) => eq_refl :
  spec_energy en ftu sv r v g d
  = pm_rate r (v * speed_factor en ftu sv (pm_su r)) (g * k_grade (sv_gu sv) (pm_gu r)) * pm_adj r
    * (d * k_dist base_distance_unit (sv_du sv) * k_dist (sv_du sv) (energy_rate_distance_unit (pm_eru r)))).
Check (fun soc e cap : Q => eq_refl : spec_soc soc e cap = clampQ (soc - 100 * e / cap)).

(* ------------------------------------------------------------------ non-vacuity *)
(* a BEV (rate = 1/5 + speed/1000 + 5 * grade kWh/mile, adjustment 11/10, 1/4 kWh battery, mph model) over a km/h
   time model in minutes, three edges of which one steep downhill: the hypotheses of c08_route_bev hold, the charge
   starts at 99.9, is clamped at 100 after the downhill edge (regeneration, negative energy), is 56.4 after the
   second edge (unclamped) and clamped at 0 after the third *)
Definition ex_rec : pmr QN :=
  @Build_pmr QN (fun s g : Q => (1 # 5) + (1 # 1000) * s + 5 * g) MilesPerHour Decimal KilowattHoursPerMile (1 # 10) (11 # 10) None.
Definition ex_engine : @engine QN := @Build_engine QN [50; 30] KilometersPerHour Minutes Kilometers 50.
Definition ex_service : @service QN := @Build_service QN KilometersPerHour (Some [(- 8); 2]) Percent Seconds Miles.
Definition ex_edges : list (@edge QN) := [@Build_edge QN 0%nat 1000; @Build_edge QN 1%nat 500; @Build_edge QN 1%nat 800].
Definition ex_cap : Q := 1 # 4.
Definition ex_soc0 : Q := as_soc_percent QN (starting_energy QN (999 # 10) ex_cap) ex_cap.

Example c08_nonvacuous_hypotheses :
  pm_cache ex_rec = None /\ rate_proper ex_rec /\ 0 < ex_cap /\ Forall (edge_ok ex_engine ex_service) ex_edges.
Proof.
  split; [reflexivity|]. split.
  - intros s s' Hs g g' Hg. cbn [pm_rate ex_rec]. rewrite Hs, Hg. reflexivity.
  - split; [reflexivity|].
    repeat constructor; cbn; try (eexists; split; [reflexivity | reflexivity]); try reflexivity; eexists; reflexivity.
Qed.
Example c08_nonvacuous_clamps :
  match run_edges QN (speed_traverse QN ex_engine) ex_service (BEV ex_rec ex_cap ex_cap KilowattHours) ex_edges
          [0; ex_soc0; 0; 0] (sm_bev Minutes Kilometers ex_soc0 KilowattHours) ([], []) with
  | [Ok [e1; s1; _; _]; Ok [e2; s2; _; _]; Ok [e3; s3; _; _]] =>
      Qeq_bool ex_soc0 (999 # 10) && Qltb e1 0 && Qeq_bool s1 100 && Qltb e1 e2 && Qltb 0 s2 && Qltb s2 100
      && Qltb e2 e3 && Qeq_bool s3 0
  | _ => false
  end = true.
Proof. vm_compute. reflexivity. Qed.

Print Assumptions c08_route_ice.
Print Assumptions c08_route_bev.
Print Assumptions c08_route_phev.
Print Assumptions c08_edge_energy_spec_bev.
Print Assumptions c08_speed_is_tau_times_table_speed.
Print Assumptions c08_tau_within_tolerance.
Print Assumptions c08_tau_base_units.
Print Assumptions c08_energy_additive_ice.
Print Assumptions c08_energy_additive_bev.
Print Assumptions c08_energy_additive_phev.
Print Assumptions c08_soc_in_range_bev.
Print Assumptions c08_soc_in_range_phev.
Print Assumptions c08_soc_initial_in_range.
Print Assumptions c08_soc_step_unclamped.
Print Assumptions c08_phev_switch.
Print Assumptions c08_start_soc_rejected_bev.
Print Assumptions c08_start_soc_rejected_phev.
Print Assumptions c08_start_soc_non_numeric.
Print Assumptions c08_start_soc_missing_phev.
Print Assumptions c08_bev_default_100.
Print Assumptions c08_start_soc_is_query_value.
Print Assumptions c08_bev_end_to_end.
Print Assumptions c08_state_model_bev.
Print Assumptions c08_state_model_ice.
Print Assumptions c08_state_model_phev.
Print Assumptions c08_best_case_spec.
Print Assumptions c08_best_case_state_ice.
Print Assumptions c08_best_case_state_bev.
Print Assumptions c08_best_case_state_phev.
Print Assumptions c08_edge_rejected.
Print Assumptions c08_cache_transparent.
Print Assumptions c08_cache_collision_refuted.
Print Assumptions c08_nonvacuous_hypotheses.
Print Assumptions c08_nonvacuous_clamps.
