(* C09 - unit conversions are linear, invertible and physically correct; derived quantities agree with their
   definitions for every combination of units; a non-positive speed or distance is rejected.

   All statements are about the exact-rational reading [QN] of Model/Units.v over the table
   Gen/UnitTables.v, which the translator REGENERATES from the Rust unit files on every run: a changed
   factor in the source re-runs the finite table facts of Proofs/Units.v (vm_compute over all 77 ordered
   pairs, 60 + 60 unit triples, 25 rate/distance pairs) and breaks them if it leaves the tolerance.
   Quantification: every unit of every family (the enumerations are proved to list exactly the variants
   of the Rust enums), every rational x - every magnitude and sign.

   This file holds only: the SPECIFICATION vocabulary and tables (module C09Spec, trusted base), theorem
   statements closed by lemmas of Proofs/Units.v, statement pins, non-vacuity examples, Print Assumptions. *)
From Coq Require Import ZArith QArith Qabs String List Bool.
From RC Require Import Base.Num Base.Res Gen.UnitTables Model.Units Model.UnitsRun Proofs.Units.
Import ListNotations.
Import Units.
Local Open Scope Q_scope.

(* ------------------------------------------------------------------ specification (trusted) *)
Module C09Spec.
  Definition additive (f : Q -> Q) : Prop := forall x y, f (x + y) == f x + f y.
  Definition homogeneous (f : Q -> Q) : Prop := forall a x, f (a * x) == a * f x.
  Definition linear (f : Q -> Q) : Prop := additive f /\ homogeneous f.
  (* a is within the relative tolerance t of the reference value b *)
  Definition within_rel (t a b : Q) : Prop := Qabs (a - b) <= t * Qabs b.

  (* tolerance granted by the property: 0.1 %; accumulated over the three conversions of a constructor
     (two factors in the numerator, one in the denominator): 1.001^2 / 0.999 - 1 < 0.31 % *)
  Definition tol : Q := 1 # 1000.
  Definition tol3 : Q := 31 # 10000.

  (* exact SI definitions.  metres per unit: international mile, foot, inch *)
  Definition si_distance (u : dist_unit) : Q :=
    match u with
    | Meters => 1 | Kilometers => 1000 | Miles => 1609344 # 1000 | Inches => 254 # 10000 | Feet => 3048 # 10000
    end.
  (* seconds per unit *)
  Definition si_time (u : time_unit) : Q :=
    match u with Hours => 3600 | Minutes => 60 | Seconds => 1 | Milliseconds => 1 # 1000 end.
  (* metres per second per unit *)
  Definition si_speed (u : speed_unit) : Q :=
    match u with
    | KilometersPerHour => 1000 # 3600 | MilesPerHour => 1609344 # 3600000 | MetersPerSecond => 1
    end.
  (* slope as rise / run per unit *)
  Definition si_grade (u : grade_unit) : Q :=
    match u with Percent => 1 # 100 | Decimal => 1 | Millis => 1 # 1000 end.
  (* kilograms per unit: avoirdupois pound, short ton of 2000 lb *)
  Definition si_weight (u : weight_unit) : Q :=
    match u with Pounds => 45359237 # 100000000 | Tons => 90718474 # 100000 | Kg => 1 end.
  (* an energy rate is an amount of [rate_energy] per one [rate_distance] *)
  Definition rate_energy (u : energy_rate_unit) : energy_unit :=
    match u with
    | GallonsGasolinePerMile => GallonsGasoline | GallonsDieselPerMile => GallonsDiesel
    | KilowattHoursPerMile | KilowattHoursPerKilometer | KilowattHoursPerMeter => KilowattHours
    end.
  Definition rate_distance (u : energy_rate_unit) : dist_unit :=
    match u with
    | GallonsGasolinePerMile | GallonsDieselPerMile | KilowattHoursPerMile => Miles
    | KilowattHoursPerKilometer => Kilometers
    | KilowattHoursPerMeter => Meters
    end.
End C09Spec.
Import C09Spec.

(* the S lines of the run (Model/UnitsRun.v) judge the implementation's output with these same tables *)
Theorem c09_runner_uses_this_specification :
  (forall u, UnitsRun.si_distance u = si_distance u) /\ (forall u, UnitsRun.si_time u = si_time u)
  /\ (forall u, UnitsRun.si_speed u = si_speed u) /\ (forall u, UnitsRun.si_grade u = si_grade u)
  /\ (forall u, UnitsRun.si_weight u = si_weight u)
  /\ (forall u, UnitsRun.rate_energy u = rate_energy u) /\ (forall u, UnitsRun.rate_distance u = rate_distance u)
  /\ UnitsRun.tol = tol /\ UnitsRun.tol3 = tol3.
Proof. repeat split; reflexivity. Qed.

(* ------------------------------------------------------------------ the model covers the source's units *)
(* the enumerations of the model are the variant lists of the seven Rust enums, in declaration order, and
   every ordered pair of every family has exactly one arm in the regenerated table *)
Theorem c09_units_and_arms_complete :
  (UnitTables.distance_variants = map dist_name all_dist /\ UnitTables.time_variants = map time_name all_time
   /\ UnitTables.speed_variants = map speed_name all_speed /\ UnitTables.energy_variants = map energy_name all_energy
   /\ UnitTables.energy_rate_variants = map energy_rate_name all_energy_rate
   /\ UnitTables.grade_variants = map grade_name all_grade /\ UnitTables.weight_variants = map weight_name all_weight)
  /\ (arms_total dist_name all_dist UnitTables.distance_table = true
      /\ arms_total time_name all_time UnitTables.time_table = true
      /\ arms_total speed_name all_speed UnitTables.speed_table = true
      /\ arms_total energy_name all_energy UnitTables.energy_table = true
      /\ arms_total grade_name all_grade UnitTables.grade_table = true
      /\ arms_total weight_name all_weight UnitTables.weight_table = true)
  /\ (forall u : dist_unit, In u all_dist) /\ (forall u : time_unit, In u all_time)
  /\ (forall u : speed_unit, In u all_speed) /\ (forall u : energy_unit, In u all_energy)
  /\ (forall u : energy_rate_unit, In u all_energy_rate)
  /\ (forall u : grade_unit, In u all_grade) /\ (forall u : weight_unit, In u all_weight).
Proof.
  split; [exact gen_variants_agree|]. split; [exact gen_tables_total|].
  repeat split.
  - exact all_dist_complete.  - exact all_time_complete.  - exact all_speed_complete.
  - exact all_energy_complete.  - exact all_energy_rate_complete.
  - exact all_grade_complete.  - exact all_weight_complete.
Qed.

(* ------------------------------------------------------------------ linear *)
(* every conversion is multiplication by the constant of its arm in the regenerated table ... *)
Theorem c09_convert_is_scaling :
  (forall u v (x : Q), convert_distance QN u v x == x * k_dist u v)
  /\ (forall u v (x : Q), convert_time QN u v x == x * k_time u v)
  /\ (forall u v (x : Q), convert_speed QN u v x == x * k_speed u v)
  /\ (forall u v (x : Q), convert_energy QN u v x == x * k_energy u v)
  /\ (forall u v (x : Q), convert_grade QN u v x == x * k_grade u v)
  /\ (forall u v (x : Q), convert_weight QN u v x == x * k_weight u v).
Proof.
  repeat split.
  - exact convert_distance_factor.  - exact convert_time_factor.  - exact convert_speed_factor.
  - exact convert_energy_factor.  - exact convert_grade_factor.  - exact convert_weight_factor.
Qed.

(* ... hence additive and homogeneous, for every ordered pair of every family *)
Theorem c09_convert_linear :
  (forall u v, linear (convert_distance QN u v)) /\ (forall u v, linear (convert_time QN u v))
  /\ (forall u v, linear (convert_speed QN u v)) /\ (forall u v, linear (convert_energy QN u v))
  /\ (forall u v, linear (convert_grade QN u v)) /\ (forall u v, linear (convert_weight QN u v)).
Proof.
  repeat split.
  - exact (convert_distance_additive u v).  - exact (convert_distance_homogeneous u v).
  - exact (convert_time_additive u v).  - exact (convert_time_homogeneous u v).
  - exact (convert_speed_additive u v).  - exact (convert_speed_homogeneous u v).
  - exact (convert_energy_additive u v).  - exact (convert_energy_homogeneous u v).
  - exact (convert_grade_additive u v).  - exact (convert_grade_homogeneous u v).
  - exact (convert_weight_additive u v).  - exact (convert_weight_homogeneous u v).
Qed.

(* ------------------------------------------------------------------ identity for equal units *)
Theorem c09_convert_id :
  (forall u (x : Q), convert_distance QN u u x == x) /\ (forall u (x : Q), convert_time QN u u x == x)
  /\ (forall u (x : Q), convert_speed QN u u x == x) /\ (forall u (x : Q), convert_energy QN u u x == x)
  /\ (forall u (x : Q), convert_grade QN u u x == x) /\ (forall u (x : Q), convert_weight QN u u x == x).
Proof.
  repeat split.
  - exact convert_distance_id.  - exact convert_time_id.  - exact convert_speed_id.
  - exact convert_energy_id.  - exact convert_grade_id.  - exact convert_weight_id.
Qed.

(* ------------------------------------------------------------------ there and back within 0.1 % *)
(* all 25 + 16 + 9 + 9 + 9 + 9 ordered pairs, every x *)
Theorem c09_roundtrip_within_0_1pct :
  (forall u v (x : Q), within_rel tol (convert_distance QN v u (convert_distance QN u v x)) x)
  /\ (forall u v (x : Q), within_rel tol (convert_time QN v u (convert_time QN u v x)) x)
  /\ (forall u v (x : Q), within_rel tol (convert_speed QN v u (convert_speed QN u v x)) x)
  /\ (forall u v (x : Q), within_rel tol (convert_energy QN v u (convert_energy QN u v x)) x)
  /\ (forall u v (x : Q), within_rel tol (convert_grade QN v u (convert_grade QN u v x)) x)
  /\ (forall u v (x : Q), within_rel tol (convert_weight QN v u (convert_weight QN u v x)) x).
Proof.
  repeat split.
  - exact convert_distance_roundtrip.  - exact convert_time_roundtrip.  - exact convert_speed_roundtrip.
  - exact convert_energy_roundtrip.  - exact convert_grade_roundtrip.  - exact convert_weight_roundtrip.
Qed.

(* ------------------------------------------------------------------ physical factor within 0.1 % *)
(* distance, time, speed, grade, weight (the fuel equivalences of the energy family are conventions, the
   property does not ask for them) *)
Theorem c09_physical_within_0_1pct :
  (forall u v (x : Q), within_rel tol (convert_distance QN u v x) (x * (si_distance u / si_distance v)))
  /\ (forall u v (x : Q), within_rel tol (convert_time QN u v x) (x * (si_time u / si_time v)))
  /\ (forall u v (x : Q), within_rel tol (convert_speed QN u v x) (x * (si_speed u / si_speed v)))
  /\ (forall u v (x : Q), within_rel tol (convert_grade QN u v x) (x * (si_grade u / si_grade v)))
  /\ (forall u v (x : Q), within_rel tol (convert_weight QN u v x) (x * (si_weight u / si_weight v))).
Proof.
  repeat split.
  - exact convert_distance_physical.  - exact convert_time_physical.  - exact convert_speed_physical.
  - exact convert_grade_physical.  - exact convert_weight_physical.
Qed.

(* ------------------------------------------------------------------ derived quantities *)
(* time = distance / speed: for every unit triple and all positive inputs the constructor succeeds, its result is
   d / s times the combined table factor, and it is within the accumulated tolerance of
   (d in metres) / (s in metres per second), expressed in the requested time unit *)
Theorem c09_create_time_spec : forall su du tu (s d : Q), 0 < s -> 0 < d ->
  exists t : Q, create_time QN s su d du tu = Ok t
    /\ t == d / s * (k_dist du base_distance_unit / k_speed su base_speed_unit * k_time base_time_unit tu)
    /\ within_rel tol3 t ((d * si_distance du) / (s * si_speed su) / si_time tu).
Proof. exact create_time_spec_si. Qed.

(* a non-positive speed or distance is rejected rather than turned into a time *)
Theorem c09_create_time_rejects : forall su du tu (s d : Q),
  s <= 0 \/ d <= 0 -> create_time QN s su d du tu = Err err_time.
Proof. exact create_time_rejects. Qed.

(* speed = distance / time for every unit triple and every positive time (a non-positive time is an error) *)
Theorem c09_create_speed_spec : forall tu du su (t d : Q), 0 < t ->
  exists v : Q, create_speed QN t tu d du su = Ok v
    /\ v == d / t * (k_dist du base_distance_unit / k_time tu base_time_unit * k_speed base_speed_unit su)
    /\ within_rel tol3 v ((d * si_distance du) / (t * si_time tu) / si_speed su).
Proof. exact create_speed_spec_si. Qed.
Theorem c09_create_speed_rejects : forall tu du su (t d : Q),
  t <= 0 -> create_speed QN t tu d du su = Err err_speed.
Proof. exact create_speed_rejects. Qed.

(* energy = rate * distance: never rejected, any sign; the distance is first expressed in the distance unit of
   the rate, the result carries the energy unit of the rate *)
Theorem c09_create_energy_spec : forall eru du (r d : Q),
  exists e : Q, create_energy QN r eru d du = Ok (e, rate_energy eru)
    /\ e == r * d * k_dist du (rate_distance eru)
    /\ within_rel tol e (r * (d * (si_distance du / si_distance (rate_distance eru)))).
Proof. exact create_energy_spec_si. Qed.

(* the combined factors of the constructors are within the accumulated tolerance for all 60 + 60 triples *)
Theorem c09_constructor_factors :
  (forall su du tu, within_rel tol3 (k_dist du base_distance_unit / k_speed su base_speed_unit * k_time base_time_unit tu)
                                   (si_distance du / si_speed su / si_time tu))
  /\ (forall tu du su, within_rel tol3 (k_dist du base_distance_unit / k_time tu base_time_unit * k_speed base_speed_unit su)
                                      (si_distance du / si_time tu / si_speed su)).
Proof. split; [exact time_factor_within | exact speed_factor_within]. Qed.

(* ------------------------------------------------------------------ statement pins *)
Check c09_roundtrip_within_0_1pct :
  (forall u v (x : Q), Qabs (convert_distance QN v u (convert_distance QN u v x) - x) <= (1 # 1000) * Qabs x)
  /\ (forall u v (x : Q), Qabs (convert_time QN v u (convert_time QN u v x) - x) <= (1 # 1000) * Qabs x)
  /\ (forall u v (x : Q), Qabs (convert_speed QN v u (convert_speed QN u v x) - x) <= (1 # 1000) * Qabs x)
  /\ (forall u v (x : Q), Qabs (convert_energy QN v u (convert_energy QN u v x) - x) <= (1 # 1000) * Qabs x)
  /\ (forall u v (x : Q), Qabs (convert_grade QN v u (convert_grade QN u v x) - x) <= (1 # 1000) * Qabs x)
  /\ (forall u v (x : Q), Qabs (convert_weight QN v u (convert_weight QN u v x) - x) <= (1 # 1000) * Qabs x).
Check c09_physical_within_0_1pct :
  (forall u v (x : Q), Qabs (convert_distance QN u v x - x * (si_distance u / si_distance v))
                       <= (1 # 1000) * Qabs (x * (si_distance u / si_distance v)))
  /\ (forall u v (x : Q), Qabs (convert_time QN u v x - x * (si_time u / si_time v))
                          <= (1 # 1000) * Qabs (x * (si_time u / si_time v)))
  /\ (forall u v (x : Q), Qabs (convert_speed QN u v x - x * (si_speed u / si_speed v))
                          <= (1 # 1000) * Qabs (x * (si_speed u / si_speed v)))
  /\ (forall u v (x : Q), Qabs (convert_grade QN u v x - x * (si_grade u / si_grade v))
                          <= (1 # 1000) * Qabs (x * (si_grade u / si_grade v)))
  /\ (forall u v (x : Q), Qabs (convert_weight QN u v x - x * (si_weight u / si_weight v))
                          <= (1 # 1000) * Qabs (x * (si_weight u / si_weight v))).
Check c09_convert_linear :
  (forall u v, (forall x y : Q, convert_distance QN u v (x + y) == convert_distance QN u v x + convert_distance QN u v y)
               /\ (forall a x : Q, convert_distance QN u v (a * x) == a * convert_distance QN u v x))
  /\ (forall u v, linear (convert_time QN u v)) /\ (forall u v, linear (convert_speed QN u v))
  /\ (forall u v, linear (convert_energy QN u v)) /\ (forall u v, linear (convert_grade QN u v))
  /\ (forall u v, linear (convert_weight QN u v)).
Check c09_create_time_spec : forall su du tu (s d : Q), 0 < s -> 0 < d ->
  exists t : Q, create_time QN s su d du tu = Ok t
    /\ t == d / s * (k_dist du base_distance_unit / k_speed su base_speed_unit * k_time base_time_unit tu)
    /\ Qabs (t - (d * si_distance du) / (s * si_speed su) / si_time tu)
       <= (31 # 10000) * Qabs ((d * si_distance du) / (s * si_speed su) / si_time tu).
Check c09_create_time_rejects : forall su du tu (s d : Q),
  s <= 0 \/ d <= 0 -> create_time QN s su d du tu = Err err_time.

(* ------------------------------------------------------------------ non-vacuity *)
(* a non-identity arm of the regenerated table really scales (10 mi is within 0.1 % of 16.09344 km, and is not 10) *)
Example c09_nonvacuous_convert :
  within_rel tol (convert_distance QN Miles Kilometers 10) (1609344 # 100000)
  /\ ~ convert_distance QN Miles Kilometers 10 == 10.
Proof. exact ex_miles_km. Qed.
(* positive inputs exist and give a time (30 km at 60 km/h is 30 min to within 0.01), non-positive ones are errors *)
Example c09_nonvacuous_create_time :
  match create_time QN 60 KilometersPerHour 30 Kilometers Minutes with
  | Ok t => Qle_bool (Qabs (t - 30)) (1 # 100)
  | _ => false
  end = true
  /\ create_time QN 0 KilometersPerHour 30 Kilometers Minutes = Err err_time
  /\ create_time QN 60 KilometersPerHour (-30) Kilometers Minutes = Err err_time.
Proof. exact ex_create_time. Qed.
Example c09_nonvacuous_create_energy :
  match create_energy QN (2 # 10) KilowattHoursPerKilometer 1000 Meters with
  | Ok (e, KilowattHours) => Qle_bool (Qabs (e - (2 # 10))) (1 # 1000)
  | _ => false
  end = true.
Proof. exact ex_create_energy. Qed.

Print Assumptions c09_runner_uses_this_specification.
Print Assumptions c09_units_and_arms_complete.
Print Assumptions c09_convert_is_scaling.
Print Assumptions c09_convert_linear.
Print Assumptions c09_convert_id.
Print Assumptions c09_roundtrip_within_0_1pct.
Print Assumptions c09_physical_within_0_1pct.
Print Assumptions c09_create_time_spec.
Print Assumptions c09_create_time_rejects.
Print Assumptions c09_create_speed_spec.
Print Assumptions c09_create_speed_rejects.
Print Assumptions c09_create_energy_spec.
Print Assumptions c09_constructor_factors.
Print Assumptions c09_nonvacuous_convert.
Print Assumptions c09_nonvacuous_create_time.
Print Assumptions c09_nonvacuous_create_energy.
